/-
  Lemmas/ErrorsDocBase.lean — vocabulary and matcher-level lemmas for the document-level
  classification of parse errors (Props/C14ErrorsDoc.lean).

  `Spec.ErrClass D T L un e`: the error `e` is one of the five faults of a document with the
  physical lines `L` (`un` = the run's ghost list of line numbers that reached an error tail):
  unexpected line, unexpected end of file, tag with whitespace, unknown language, ragged table.
  Each class fixes kind, location and message body of `e` in terms of the SOURCE LINE with the
  error's line number.

  Matcher level: what `match_<K>` can raise on a token that carries a line of the source
  (`matchTok_raised_cls`: a tag-whitespace or an unknown-language error of that line, nothing else),
  which column a test leaves in the token (`colOK_match`: none, or indent + 1, as long as the test
  did not match or was a `TagLine` test — the only guarded tests), and that a whitespace-only line
  passes every `Empty` and `Other` test (`blank_matches`).
-/
import GherkinVerif.Lemmas.AnyRun
import GherkinVerif.Lemmas.TextErrors
import GherkinVerif.Lemmas.Keywords
import GherkinVerif.Spec.LayoutDocFacts
namespace GV
namespace Spec

/-- the expected list of a state as an error message prints it -/
def expectedText (row : StateRow) : Str := joinWith (lit ", ") (row.expected.map lit)

/-- (a) line `i` of the source, text `l`, not whitespace-only, reached the error tail of state `row` -/
def IsUnexpectedLine (T : Table) (L : List Str) (un : List Nat) (e : PErr) : Prop :=
  ∃ i l row, L[i - 1]? = some l ∧ 1 ≤ i ∧ i ∈ un ∧ row ∈ T.rows ∧ lineIsEmpty l = false ∧
    e = ⟨.unexpectedToken, ⟨i, some (lineIndent l + 1)⟩,
      lit "expected: " ++ expectedText row ++ lit ", got '" ++ strip (trimmed l) ++ lit "'"⟩

/-- (b) the end of file (one line past the last, no column) reached the error tail of state `row` -/
def IsUnexpectedEOF (T : Table) (L : List Str) (un : List Nat) (e : PErr) : Prop :=
  ∃ row, row ∈ T.rows ∧ (L.length + 1) ∈ un ∧
    e = ⟨.unexpectedEOF, ⟨L.length + 1, none⟩, lit "unexpected end of file, expected: " ++ expectedText row⟩

/-- (c) line `i` starts (after indentation) with `@` and its tag at column `c` contains whitespace -/
def IsTagWhitespace (L : List Str) (e : PErr) : Prop :=
  ∃ i l c, L[i - 1]? = some l ∧ 1 ≤ i ∧ lineStartsWith l [64] = true ∧ lineTags l = .error c ∧
    e = ⟨.tagWhitespace, ⟨i, some c⟩, lit "A tag may not contain whitespace"⟩

/-- (d) line `i` is a language header naming `name`, which is no dialect of the table -/
def IsUnknownLanguage (D : List Dialect) (L : List Str) (e : PErr) : Prop :=
  ∃ i l name, L[i - 1]? = some l ∧ 1 ≤ i ∧ languageRe l = some name ∧ findDialect D name = none ∧
    e = ⟨.noSuchLanguage, ⟨i, some (lineIndent l + 1)⟩, lit "Language not supported: " ++ name⟩

/-- (e) the builder's only error -/
def IsRagged (e : PErr) : Prop :=
  e.kind = .raggedTable ∧ e.body = lit "inconsistent cell count within the table"

/-- the classes that do not depend on the ghost list -/
def ErrClassM (D : List Dialect) (L : List Str) (e : PErr) : Prop :=
  IsTagWhitespace L e ∨ IsUnknownLanguage D L e ∨ IsRagged e

def ErrClass (D : List Dialect) (T : Table) (L : List Str) (un : List Nat) (e : PErr) : Prop :=
  IsUnexpectedLine T L un e ∨ IsUnexpectedEOF T L un e ∨ ErrClassM D L e

theorem ErrClass.mono {D : List Dialect} {T : Table} {L : List Str} {un un' : List Nat} {e : PErr}
    (h : ErrClass D T L un e) (hs : ∀ i ∈ un, i ∈ un') : ErrClass D T L un' e := by
  rcases h with ⟨i, l, row, h1, h2, h3, h4⟩ | ⟨row, h1, h2, h3⟩ | h
  · exact .inl ⟨i, l, row, h1, h2, hs i h3, h4⟩
  · exact .inr (.inl ⟨row, h1, hs _ h2, h3⟩)
  · exact .inr (.inr h)

/-- the classes are told apart by the error's kind -/
theorem ErrClass.kind {D : List Dialect} {T : Table} {L : List Str} {un : List Nat} {e : PErr}
    (h : ErrClass D T L un e) :
    (e.kind = .unexpectedToken ↔ IsUnexpectedLine T L un e) ∧
    (e.kind = .unexpectedEOF ↔ IsUnexpectedEOF T L un e) ∧
    (e.kind = .tagWhitespace ↔ IsTagWhitespace L e) ∧
    (e.kind = .noSuchLanguage ↔ IsUnknownLanguage D L e) ∧
    (e.kind = .raggedTable ↔ IsRagged e) := by
  have k1 : IsUnexpectedLine T L un e → e.kind = .unexpectedToken := by
    rintro ⟨_, _, _, _, _, _, _, _, rfl⟩; rfl
  have k2 : IsUnexpectedEOF T L un e → e.kind = .unexpectedEOF := by
    rintro ⟨_, _, _, rfl⟩; rfl
  have k3 : IsTagWhitespace L e → e.kind = .tagWhitespace := by
    rintro ⟨_, _, _, _, _, _, _, rfl⟩; rfl
  have k4 : IsUnknownLanguage D L e → e.kind = .noSuchLanguage := by
    rintro ⟨_, _, _, _, _, _, _, rfl⟩; rfl
  have k5 : IsRagged e → e.kind = .raggedTable := fun h => h.1
  rcases h with h | h | h | h | h
  · have := k1 h
    exact ⟨⟨fun _ => h, k1⟩, ⟨fun x => (by rw [this] at x; cases x), k2⟩, ⟨fun x => (by rw [this] at x; cases x), k3⟩,
      ⟨fun x => (by rw [this] at x; cases x), k4⟩, ⟨fun x => (by rw [this] at x; cases x), k5⟩⟩
  · have := k2 h
    exact ⟨⟨fun x => (by rw [this] at x; cases x), k1⟩, ⟨fun _ => h, k2⟩, ⟨fun x => (by rw [this] at x; cases x), k3⟩,
      ⟨fun x => (by rw [this] at x; cases x), k4⟩, ⟨fun x => (by rw [this] at x; cases x), k5⟩⟩
  · have := k3 h
    exact ⟨⟨fun x => (by rw [this] at x; cases x), k1⟩, ⟨fun x => (by rw [this] at x; cases x), k2⟩, ⟨fun _ => h, k3⟩,
      ⟨fun x => (by rw [this] at x; cases x), k4⟩, ⟨fun x => (by rw [this] at x; cases x), k5⟩⟩
  · have := k4 h
    exact ⟨⟨fun x => (by rw [this] at x; cases x), k1⟩, ⟨fun x => (by rw [this] at x; cases x), k2⟩,
      ⟨fun x => (by rw [this] at x; cases x), k3⟩, ⟨fun _ => h, k4⟩, ⟨fun x => (by rw [this] at x; cases x), k5⟩⟩
  · have := k5 h
    exact ⟨⟨fun x => (by rw [this] at x; cases x), k1⟩, ⟨fun x => (by rw [this] at x; cases x), k2⟩,
      ⟨fun x => (by rw [this] at x; cases x), k3⟩, ⟨fun x => (by rw [this] at x; cases x), k4⟩, ⟨fun _ => h, k5⟩⟩

/-- every classified error except a ragged-table one lies within the document -/
theorem ErrClass.line_range {D : List Dialect} {T : Table} {L : List Str} {un : List Nat} {e : PErr}
    (h : ErrClass D T L un e) (hr : ¬ IsRagged e) : 1 ≤ e.loc.line ∧ e.loc.line ≤ L.length + 1 := by
  have hget : ∀ (i : Nat) (l : Str), L[i - 1]? = some l → 1 ≤ i → i ≤ L.length + 1 := by
    intro i l h _
    have := (List.getElem?_eq_some_iff.1 h).1
    omega
  rcases h with ⟨i, l, _, h1, h2, _, _, _, rfl⟩ | ⟨_, _, _, rfl⟩ | ⟨i, l, _, h1, h2, _, _, rfl⟩ |
    ⟨i, l, _, h1, h2, _, _, rfl⟩ | h
  · exact ⟨h2, hget i l h1 h2⟩
  · exact ⟨Nat.le_add_left _ _, Nat.le_refl _⟩
  · exact ⟨h2, hget i l h1 h2⟩
  · exact ⟨h2, hget i l h1 h2⟩
  · exact absurd h hr

/-- a token that carries a line carries the line of the source with its number -/
def LineOf (L : List Str) (t : Token) : Prop :=
  ∀ l, t.line = some l → L[t.lineNo - 1]? = some l ∧ 1 ≤ t.lineNo

/-- the column a token may hold on its way through the tests of one state: none, or indent + 1 -/
def ColOK (t : Token) : Prop :=
  match t.line with
  | some l => t.col = none ∨ t.col = some (lineIndent l + 1)
  | none => t.col = none

end Spec

namespace ErrorsDoc
open Lemmas Spec

theorem SrcTok.lineOf {L : List Str} {t : Token} (h : SrcTok L t) : LineOf L t := by
  intro l hl
  rcases h with ⟨h1, _⟩ | ⟨l', h1, h2, h3⟩
  · rw [h1] at hl; cases hl
  · rw [h3] at hl; cases hl; exact ⟨h1, h2⟩

theorem lineOf_of_keep {L : List Str} {t t' : Token} (h : LineOf L t) (h1 : t'.line = t.line)
    (h2 : t'.lineNo = t.lineNo) : LineOf L t' := by
  intro l hl
  rw [h1] at hl
  rw [h2]
  exact h l hl

theorem lineOf_eof {L : List Str} (n : Nat) : LineOf L { line := none, lineNo := n } := by
  intro l hl; cases hl

/-! ### what the matcher can raise -/

theorem matchLine_raised_cls (D : List Dialect) (k : Kind) (μ : MState) (t : Token) (l : Str) (e : PErr)
    (hl : t.line = some l) (h : (matchLine D k μ t l).res = .raised e) :
    (lineStartsWith l [64] = true ∧ ∃ c, lineTags l = .error c ∧
      e = ⟨.tagWhitespace, ⟨t.lineNo, some c⟩, lit "A tag may not contain whitespace"⟩) ∨
    (∃ name, languageRe l = some name ∧ findDialect D name = none ∧
      e = ⟨.noSuchLanguage, ⟨t.lineNo, some (lineIndent l + 1)⟩, lit "Language not supported: " ++ name⟩) := by
  cases k
  case TagLine =>
    simp only [matchLine] at h
    by_cases hs : lineStartsWith l [64] = true
    · simp only [hs, if_true] at h
      cases hc : lineTags l with
      | error c =>
        simp only [hc, MRes.raised.injEq] at h
        exact .inl ⟨hs, c, rfl, h.symm⟩
      | ok ts => simp [hc] at h
    · simp [hs] at h
  case Language =>
    cases hre : languageRe l with
    | none => rw [matchLine_language_no D μ t l hre] at h; cases h
    | some name =>
      cases hd : findDialect D name with
      | some d => rw [matchLine_language_known D μ t l name d hre hd] at h; cases h
      | none =>
        rw [matchLine_language_unknown D μ t l name hre hd hl] at h
        simp only [MRes.raised.injEq] at h
        exact .inr ⟨name, rfl, hd, h.symm⟩
  all_goals
    simp only [matchLine] at h
    repeat' split at h
    all_goals cases h

theorem matchTok_raised_cls {D : List Dialect} {L : List Str} {k : Kind} {μ : MState} {t : Token} {e : PErr}
    (ht : LineOf L t) (h : (matchTok D k μ t).1.res = .raised e) : ErrClassM D L e := by
  unfold matchTok at h
  split at h
  · split at h <;> cases h
  · rename_i l hl
    obtain ⟨h1, h2⟩ := ht l hl
    rcases matchLine_raised_cls D k μ t l e hl h with ⟨hs, c, hc, he⟩ | ⟨name, hre, hd, he⟩
    · exact .inl ⟨t.lineNo, l, c, h1, h2, hs, hc, he⟩
    · exact .inr (.inl ⟨t.lineNo, l, name, h1, h2, hre, hd, he⟩)

/-! ### the column a test leaves behind -/

theorem colOK_setMatched_default (μ : MState) (t : Token) (ty : Kind) (text keyword : Option Str)
    (ktype : Option KType) (items : List (Nat × Str)) (l : Str) (hl : t.line = some l) :
    ColOK (setMatched μ t ty text keyword ktype none items) := by
  simp [ColOK, setMatched, hl]

/-- a test on a line that does not match leaves the token alone, except `Language` on a header with
    an unknown name, which writes its fields (column indent + 1) -/
theorem matchLine_unmatched_tok (D : List Dialect) (k : Kind) (μ : MState) (t : Token) (l : Str)
    (h : (matchLine D k μ t l).res ≠ .matched) :
    (matchLine D k μ t l).tok = t ∨
    ∃ name, (matchLine D k μ t l).tok = setMatched μ t .Language (text := some name) := by
  have hopt : ∀ (o : Option Token),
      (match o with | some t' => (⟨t', μ, .matched⟩ : MOut) | none => ⟨t, μ, .no⟩).res ≠ .matched →
      (match o with | some t' => (⟨t', μ, .matched⟩ : MOut) | none => ⟨t, μ, .no⟩).tok = t := by
    intro o ho
    cases o with
    | none => rfl
    | some t' => exact absurd rfl ho
  cases k
  case EOF => exact .inl rfl
  case FeatureLine => exact .inl (hopt _ h)
  case RuleLine => exact .inl (hopt _ h)
  case BackgroundLine => exact .inl (hopt _ h)
  case ExamplesLine => exact .inl (hopt _ h)
  case ScenarioLine =>
    simp only [matchLine] at h ⊢
    cases h1 : matchTitle μ t l .ScenarioLine μ.dialect.scenario with
    | some t' => rw [h1] at h; exact absurd rfl h
    | none => rw [h1] at h; exact .inl (hopt _ h)
  case TableRow =>
    simp only [matchLine] at h ⊢
    by_cases hs : lineStartsWith l [124] = true
    · rw [if_pos hs] at h; exact absurd rfl h
    · rw [if_neg hs]; exact .inl rfl
  case StepLine =>
    simp only [matchLine] at h ⊢
    cases h1 : μ.dialect.stepKeywords.find? (fun kw => lineStartsWith l kw) with
    | some kw => rw [h1] at h; exact absurd rfl h
    | none => exact .inl rfl
  case Comment =>
    simp only [matchLine] at h ⊢
    by_cases hs : lineStartsWith l [35] = true
    · rw [if_pos hs] at h; exact absurd rfl h
    · rw [if_neg hs]; exact .inl rfl
  case Empty =>
    simp only [matchLine] at h ⊢
    by_cases hs : lineIsEmpty l = true
    · rw [if_pos hs] at h; exact absurd rfl h
    · rw [if_neg hs]; exact .inl rfl
  case Other => exact absurd rfl h
  case Language =>
    simp only [matchLine] at h ⊢
    cases hre : languageRe (lineText l none) with
    | none => exact .inl rfl
    | some name =>
      rw [hre] at h
      cases hd : findDialect D name with
      | some d => simp only [hd] at h; exact absurd rfl h
      | none => refine .inr ⟨name, ?_⟩; simp only [hd]
  case TagLine =>
    simp only [matchLine] at h ⊢
    by_cases hs : lineStartsWith l [64] = true
    · rw [if_pos hs] at h ⊢
      cases hi : lineTags l with
      | ok items => rw [hi] at h; exact absurd rfl h
      | error c => exact .inl rfl
    · rw [if_neg hs]; exact .inl rfl
  case DocStringSeparator =>
    simp only [matchLine] at h ⊢
    split
    · rename_i t' μ' hsome
      rw [hsome] at h
      exact absurd rfl h
    · exact .inl rfl

theorem colOK_matchLine (D : List Dialect) (k : Kind) (μ : MState) (t : Token) (l : Str) (hl : t.line = some l)
    (ht : ColOK t) (h : (matchLine D k μ t l).res ≠ .matched ∨ k = .TagLine) :
    ColOK (matchLine D k μ t l).tok := by
  by_cases hm : (matchLine D k μ t l).res = .matched
  · rcases h with h | rfl
    · exact absurd hm h
    · simp only [matchLine] at hm ⊢
      split
      · split
        · exact colOK_setMatched_default μ t _ _ _ _ _ l hl
        · exact ht
      · exact ht
  · rcases matchLine_unmatched_tok D k μ t l hm with h1 | ⟨name, h1⟩
    · rw [h1]; exact ht
    · rw [h1]; exact colOK_setMatched_default μ t _ _ _ _ _ l hl

theorem colOK_match {D : List Dialect} {k : Kind} {μ : MState} {t : Token} (ht : ColOK t)
    (h : (matchTok D k μ t).1.res ≠ .matched ∨ k = .TagLine) : ColOK (matchTok D k μ t).1.tok := by
  unfold matchTok at h ⊢
  split
  · rename_i hl
    simp only [hl] at h
    split
    · rename_i hk
      simp only [hk, if_true] at h
      rcases h with h | rfl
      · exact absurd rfl h
      · cases hk
    · exact ht
  · rename_i l hl
    simp only [hl] at h
    exact colOK_matchLine D k μ t l hl ht h

/-! ### a whitespace-only line passes `Empty` and `Other` -/

theorem blank_matches (D : List Dialect) (k : Kind) (μ : MState) (t : Token) (l : Str) (hl : t.line = some l)
    (hb : lineIsEmpty l = true) (hk : k = .Empty ∨ k = .Other) : (matchTok D k μ t).1.res = .matched := by
  unfold matchTok
  simp only [hl]
  rcases hk with rfl | rfl
  · simp only [matchLine, hb, if_true]
  · simp only [matchLine]

/-! ### the error of an error tail -/

theorem unexpectedErr_line (row : StateRow) (t : Token) (l : Str) (hl : t.line = some l)
    (hc : ColOK t) :
    unexpectedErr row t = ⟨.unexpectedToken, ⟨t.lineNo, some (lineIndent l + 1)⟩,
      lit "expected: " ++ expectedText row ++ lit ", got '" ++ strip (trimmed l) ++ lit "'"⟩ := by
  simp only [ColOK, hl] at hc
  unfold unexpectedErr expectedText
  simp only [hl]
  rcases hc with hc | hc
  · simp only [hc]
  · have : (lineIndent l + 1 == 0) = false := by simp
    simp only [hc, this, Token.loc, Bool.false_eq_true, if_false]

theorem unexpectedErr_eof (row : StateRow) (t : Token) (hl : t.line = none) (hc : ColOK t) :
    unexpectedErr row t = ⟨.unexpectedEOF, ⟨t.lineNo, none⟩,
      lit "unexpected end of file, expected: " ++ expectedText row⟩ := by
  simp only [ColOK, hl] at hc
  unfold unexpectedErr expectedText
  simp only [hl, Token.loc, hc]

/-- the same errors as `unexpectedErr` makes of the fresh token of the line / the end-of-file token -/
theorem unexpectedErr_fresh (row : StateRow) (l : Str) (i : Nat) :
    unexpectedErr row (freshTok l i) = ⟨.unexpectedToken, ⟨i, some (lineIndent l + 1)⟩,
      lit "expected: " ++ expectedText row ++ lit ", got '" ++ strip (trimmed l) ++ lit "'"⟩ := rfl

theorem unexpectedErr_eofTok (row : StateRow) (n : Nat) :
    unexpectedErr row { line := none, lineNo := n } = ⟨.unexpectedEOF, ⟨n, none⟩,
      lit "unexpected end of file, expected: " ++ expectedText row⟩ := rfl

end ErrorsDoc
end GV
