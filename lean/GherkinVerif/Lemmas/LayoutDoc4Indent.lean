/-
  Lemmas/LayoutDoc4Indent.lean — property C16, goal G2b (i): the closing delimiter of a doc string may
  be indented alone.  The per-test lemma `Layout3.matchTok_ind` refined: a moved line matched as
  `DocStringSeparator` is an escape only when it OPENS a doc string (it then records its
  indentation); a closing delimiter does not look at the indentation (`docsep_close_indent_free`),
  resets the matcher state alike in both runs and yields a token that is moved like any other.
  In the ghost list `builds` the two are told apart by the token text: an opening delimiter carries
  the media type (possibly empty), a closing one no text.
-/
import GherkinVerif.Lemmas.LayoutDoc3IndentSim
namespace GV
namespace Layout4
open Lemmas Spec Layout3

/-- a token the original run has built may have been on a moved line: built as an indentable kind,
    or as a closing doc-string delimiter -/
def indentOkTok (t : Token) : Bool :=
  match t.mtype with
  | some K => indentable K || (K == .DocStringSeparator && t.text.isNone)
  | none => false

def BadPair2 (w : Nat → Nat) (t1 t2 : Token) : Prop :=
  ∃ K, t1.mtype = some K ∧ t2.mtype = some K ∧ indentOkTok t1 = false ∧ 0 < w (t1.lineNo - 1) ∧
    (K = .Comment → t1.text.isSome = true ∧ t2.text.isSome = true)

def BadOut2 (w : Nat → Nat) (K : Kind) (o1 o2 : MOut) : Prop :=
  o1.res = .matched ∧ o2.res = .matched ∧ BadPair2 w o1.tok o2.tok ∧ indentable K = false ∧
  ((K ≠ .DocStringSeparator ∧ K ≠ .Language) → o2.μ = o1.μ)

theorem matchDocSep_text {μ μ' : MState} {t t' : Token} {l sep : Str} {o : Bool}
    (h : matchDocSep μ t l sep o = some (t', μ')) : t'.text.isSome = μ'.activeSep.isSome := by
  unfold matchDocSep at h
  split at h
  · split at h <;> (cases h; rfl)
  · cases h

/-- a matched delimiter carries a text iff it has opened a doc string -/
theorem docsep_text (D : List Dialect) (μ : MState) (t : Token) (l : Str)
    (h : (matchLine D .DocStringSeparator μ t l).res = .matched) :
    (matchLine D .DocStringSeparator μ t l).tok.text.isSome =
      (matchLine D .DocStringSeparator μ t l).μ.activeSep.isSome := by
  have hsepF : ∀ (o : Option (Token × MState)), (∀ x, o = some x → x.1.text.isSome = x.2.activeSep.isSome) →
      (match o with | some (t', μ') => (⟨t', μ', .matched⟩ : MOut) | none => ⟨t, μ, .no⟩).res = .matched →
      (match o with | some (t', μ') => (⟨t', μ', .matched⟩ : MOut) | none => ⟨t, μ, .no⟩).tok.text.isSome =
      (match o with | some (t', μ') => (⟨t', μ', .matched⟩ : MOut) | none => ⟨t, μ, .no⟩).μ.activeSep.isSome := by
    intro o ho hm
    cases o with
    | none => cases hm
    | some x => exact ho x rfl
  have opening : ∀ x, ((matchDocSep μ t l dq3 true).orElse fun _ => matchDocSep μ t l bt3 true) = some x →
      x.1.text.isSome = x.2.activeSep.isSome := by
    intro x hx
    cases h1 : matchDocSep μ t l dq3 true with
    | some y => rw [h1] at hx; simp only [Option.orElse] at hx; cases hx; exact matchDocSep_text h1
    | none => rw [h1] at hx; simp only [Option.orElse] at hx; exact matchDocSep_text hx
  simp only [matchLine] at h ⊢
  cases hsep : μ.activeSep with
  | none => rw [hsep] at h; exact hsepF _ (fun x hx => opening x hx) h
  | some sep =>
    rw [hsep] at h
    simp only [] at h ⊢
    cases he : sep.isEmpty with
    | true => rw [he] at h; simp only [↓reduceIte] at h ⊢; exact hsepF _ (fun x hx => opening x hx) h
    | false =>
      rw [he] at h
      simp only [Bool.false_eq_true, ↓reduceIte] at h ⊢
      exact hsepF _ (fun x hx => matchDocSep_text hx) h

theorem matchTok_matched_mtype (D : List Dialect) (K : Kind) (μ : MState) (t : Token)
    (h : (matchTok D K μ t).1.res = .matched) : (matchTok D K μ t).1.tok.mtype = some K := by
  unfold matchTok at h ⊢
  split
  · rename_i hl
    rw [hl] at h
    simp only [] at h ⊢
    split
    · rename_i hk
      have : K = .EOF := by simpa using hk
      subst this; rfl
    · rename_i hk
      simp only [hk, Bool.false_eq_true, ↓reduceIte] at h
      cases h
  · rename_i l hl
    rw [hl] at h
    exact (matchLine_fresh D K μ t l h).1

/-- the outcome of one test on related tokens, with the closing delimiter on the good side -/
theorem matchTok_ind2 (w : Nat → Nat) (D : List Dialect) (K : Kind) (μ : MState) {t1 t2 : Token}
    (ht : TokInd w t1 t2) :
    (matchTok D K μ t1).2 = (matchTok D K μ t2).2 ∧
    (GoodOut w K (matchTok D K μ t1).1 (matchTok D K μ t2).1 ∨ BadOut2 w K (matchTok D K μ t1).1 (matchTok D K μ t2).1) := by
  obtain ⟨hf, hgb⟩ := matchTok_ind w D K μ ht
  refine ⟨hf, ?_⟩
  rcases hgb with hg | ⟨m1, m2, ⟨K', k1, k2, hK', hpos, htxt⟩, hi, hμ⟩
  · exact .inl hg
  · have hKK : K' = K := by
      have := matchTok_matched_mtype D K μ t1 m1
      rw [k1] at this
      exact Option.some.inj this
    subst hKK
    by_cases hK : K' = .DocStringSeparator
    · subst hK
      rcases ht with ⟨rfl, h0⟩ | ⟨s, ws, hs1, hs2, hws, hne, hlen, hno, hfld⟩
      · -- the same token: not moved, or end of file
        exfalso
        rcases h0 with ⟨h0, -⟩ | ⟨hl, -⟩
        · rw [matchTok_lineNo'] at hpos; omega
        · revert m1
          unfold matchTok; rw [hl]; simp
      · have e1 : matchTok D .DocStringSeparator μ t1 = (matchLine D .DocStringSeparator μ t1 s, true) := by
          unfold matchTok; rw [hs1]
        have e2 : matchTok D .DocStringSeparator μ t2 = (matchLine D .DocStringSeparator μ t2 (ws ++ s), true) := by
          unfold matchTok; rw [hs2]
        rw [e1] at m1 k1 hpos
        rw [e2] at m2 k2
        rw [e1, e2]
        clear htxt hμ
        simp only [] at m1 m2 k1 k2 hpos ⊢
        obtain ⟨R1, R2, R3, -⟩ := shift_struct D (K := .DocStringSeparator) (by decide) μ hs1 hs2 hno hws
        have hm : isMatched (matchLine D .DocStringSeparator μ t1 s).res = true := by rw [m1]; rfl
        have htext := docsep_text D μ t1 s m1
        cases hop : (matchLine D .DocStringSeparator μ t1 s).μ.activeSep.isSome with
        | true =>
          -- an opening delimiter: the escape
          refine .inr ⟨m1, m2, ⟨_, k1, k2, ?_, hpos, fun h => nomatch h⟩, rfl, fun h => absurd rfl h.1⟩
          unfold indentOkTok
          rw [k1]
          have hs : (matchLine D .DocStringSeparator μ t1 s).tok.text.isSome = true := by rw [htext, hop]
          cases htx : (matchLine D .DocStringSeparator μ t1 s).tok.text with
          | none => rw [htx] at hs; cases hs
          | some _ => rfl
        | false =>
          -- a closing delimiter: moved like any other line
          have hln1 : (matchLine D .DocStringSeparator μ t1 s).tok.lineNo = t1.lineNo := by
            have := matchTok_lineNo' (D := D) .DocStringSeparator μ t1; rw [e1] at this; exact this
          have hln2 : (matchLine D .DocStringSeparator μ t2 (ws ++ s)).tok.lineNo = t1.lineNo := by
            have := matchTok_lineNo' (D := D) .DocStringSeparator μ t2; rw [e2] at this; rw [this, hno]
          have hfr := matchLine_fresh D _ μ t1 s m1
          refine .inl ⟨by rw [m1, m2]; rfl, ?_, fun h => (by rw [hm] at h; cases h), fun _ => ?_, fun _ _ => ?_⟩
          · simp only [hm, hop, Bool.false_eq_true, and_false, ↓reduceIte] at R2
            exact muShift_zero_eq R2
          · exact .inl (tokMap_of_shift (R3 hm) (by rw [hln1]; exact hlen) hfr.2.1
              (matchLine_matched_col0 D _ μ t1 s m1))
          · have hl1 : (matchLine D .DocStringSeparator μ t1 s).tok.line = some s := by rw [matchLine_line', hs1]
            have hl2 : (matchLine D .DocStringSeparator μ t2 (ws ++ s)).tok.line = some (ws ++ s) := by
              rw [matchLine_line', hs2]
            exact .inr ⟨s, ws, hl1, hl2, hws, hne, by rw [hln1]; exact hlen, by rw [hln1, hln2],
              .inr ⟨R3 hm, hfr.2.2.2⟩⟩
    · refine .inr ⟨m1, m2, ⟨K', k1, k2, ?_, hpos, htxt⟩, hi, hμ⟩
      unfold indentOkTok
      rw [k1]
      have : (K' == Kind.DocStringSeparator) = false := by simpa using hK
      simp only [hK', this, Bool.false_and, Bool.or_self]

end Layout4
end GV
