/-
  Lemmas/Recover2Sim.lean — property C14, recovery at document level, second part: the lock-step
  simulation of Lemmas/RecoverSim.lean with the EXACT-er look-ahead invariant.  Where RecoverSim
  demanded that the lines before the inserted one end in a barrier line, here the invariant is:
  "if no barrier line lies between the current line and the inserted one, the current `match_token`
  starts no look-ahead" (`NT`: the current line is no tag line, or the state has no guarded test).
  The context relation, the result relations and the table facts are those of RecoverSim.
-/
import GherkinVerif.Lemmas.Recover2Stop
import GherkinVerif.Spec.RecoverChecks2
namespace GV
namespace Recover2
open Lemmas Spec Layout3 Recover

/-- `match_TagLine` matches only a line whose trimmed text starts with `@` -/
theorem tag_head (D : List Dialect) (μ : MState) (l : Str) (h : mm D .TagLine μ (some l) = true) :
    tagStart l = true := by
  unfold mm matchTok at h
  dsimp only at h
  simp only [matchLine] at h
  split at h
  · rename_i he
    obtain ⟨r, hr⟩ := (startsWith_iff _ _).1 he
    have hr' : trimmed l = 64 :: r := hr
    unfold tagStart
    rw [hr']
    rfl
  · cases h

theorem not_tag (D : List Dialect) {l : Str} (h : tagStart l = false) (μ : MState) : mm D .TagLine μ (some l) = false := by
  cases hm : mm D .TagLine μ (some l) with
  | false => rfl
  | true => rw [tag_head D μ l hm] at h; cases h

/-- unread lines of the two runs: the line `u` is still ahead (as line `k + 1` of the second text;
    if none of the lines `p` before it is a barrier line, the current `match_token` starts no
    look-ahead: `NT`), or has been read by the second run -/
def LinesV (u : Str) (k : Nat) (NT : Prop) (ls1 : List Str) (n1 : Nat) (ls2 : List Str) (n2 : Nat) : Prop :=
  (n2 = n1 ∧ ∃ p q, ls1 = p ++ q ∧ ls2 = p ++ u :: q ∧ n1 + p.length = k ∧ (p.any barrierLine = false → NT)) ∨
  (n2 = n1 + 1 ∧ k ≤ n1 ∧ ls2 = ls1)

def SimV (D : List Dialect) (u : Str) (k : Nat) (x : Option Extra) (cap : Nat) (NT : Prop) {α}
    (R : α → α → Prop) (m1 m2 : PM α) : Prop :=
  ∀ c1 c2, CtxU D k x c1 c2 → LinesV u k NT c1.lines c1.lineNo c2.lines c2.lineNo →
    PostU D k x cap R c1 c2 (run m1 c1) (run m2 c2)

section sim
variable {D : List Dialect} {u : Str} {k : Nat} {x : Option Extra} {cap : Nat} {NT : Prop}

theorem SimV.pure {α} {R : α → α → Prop} {a1 a2 : α} (h : R a1 a2) : SimV D u k x cap NT R (pure a1) (pure a2) :=
  fun c1 c2 hc _ => .inl ⟨a1, a2, c1, c2, rfl, rfl, h, hc, Frame.refl _, Frame.refl _⟩

theorem SimV.throw {α} {R : α → α → Prop} (e : Abort) :
    SimV D u k x cap NT R (throw e : PM α) (throw (mapAbortU k x e)) :=
  fun c1 c2 hc _ => .inr (.inl ⟨e, c1, c2, rfl, rfl, hc⟩)

theorem SimV.bind {α β} {R : α → α → Prop} {S : β → β → Prop} {m1 m2 : PM α} {f1 f2 : α → PM β}
    (h1 : SimV D u k x cap NT R m1 m2) (h2 : ∀ a1 a2, R a1 a2 → SimV D u k x cap NT S (f1 a1) (f2 a2)) :
    SimV D u k x cap NT S (m1 >>= f1) (m2 >>= f2) := by
  intro c1 c2 hc hl
  rcases h1 c1 c2 hc hl with ⟨a1, a2, c1', c2', e1, e2, hr, hc', fr1, fr2⟩ | ⟨e, c1', c2', e1, e2, hc'⟩ |
    ⟨e, c2', e2, hcap⟩
  · rw [prun_bind, prun_bind, e1, e2]
    have hl' : LinesV u k NT c1'.lines c1'.lineNo c2'.lines c2'.lineNo := by
      rw [fr1.1, fr1.2, fr2.1, fr2.2]; exact hl
    rcases h2 a1 a2 hr c1' c2' hc' hl' with ⟨b1, b2, c1'', c2'', e1', e2', hs, hc'', fr1', fr2'⟩ | h | h
    · exact .inl ⟨b1, b2, c1'', c2'', e1', e2', hs, hc'', fr1.trans fr1', fr2.trans fr2'⟩
    · exact .inr (.inl h)
    · exact .inr (.inr h)
  · rw [prun_bind, prun_bind, e1, e2]; exact .inr (.inl ⟨e, c1', c2', rfl, rfl, hc'⟩)
  · rw [prun_bind (m := m2), e2]; exact .inr (.inr ⟨e, c2', rfl, hcap⟩)

theorem SimV.modify {f1 f2 : Ctx → Ctx} (h : ∀ c1 c2, CtxU D k x c1 c2 → CtxU D k x (f1 c1) (f2 c2))
    (hf1 : ∀ c, Frame c (f1 c)) (hf2 : ∀ c, Frame c (f2 c)) :
    SimV D u k x cap NT (fun _ _ => True) (modify f1 : PM PUnit) (modify f2) :=
  fun c1 c2 hc _ => .inl ⟨⟨⟩, ⟨⟩, f1 c1, f2 c2, rfl, rfl, trivial, h c1 c2 hc, hf1 c1, hf2 c2⟩

theorem simV_addError (e : PErr) :
    SimV D u k x cap NT (fun _ _ => True) (addError cap e) (addError cap (mapErr (insertMap k) e)) := by
  intro c1 c2 hc _
  rw [run_addError, run_addError, hc.errors, insErrs_any k x _ _ (fun y hy => (hc.valid y hy).2.2)]
  by_cases hd : c1.errors.any (fun e' => e'.message == e.message) = true
  · rw [if_pos hd, if_pos hd]
    refine .inl ⟨_, _, _, _, rfl, rfl, trivial, ?_, Frame.refl _, Frame.refl _⟩
    exact ⟨by rw [← hc.errors], hc.μ, hc.β, hc.ids, hc.unexpected, hc.builds, hc.sane, hc.valid⟩
  · rw [if_neg hd, if_neg hd]
    have happ := insErrs_append k x c1.errors e (fun y hy => (hc.valid y hy).1)
    have hc' : CtxU D k x { c1 with errors := c1.errors ++ [e] }
        { c2 with errors := insErrs k x c1.errors ++ [mapErr (insertMap k) e] } :=
      ⟨happ.symm, hc.μ, hc.β, hc.ids, hc.unexpected, hc.builds, hc.sane, fun y hy => by
        obtain ⟨h1, h2, h3⟩ := hc.valid y hy
        exact ⟨by simp only [List.length_append]; omega, h2, h3⟩⟩
    by_cases h2 : (insErrs k x c1.errors ++ [mapErr (insertMap k) e]).length > cap
    · rw [if_pos h2]
      exact .inr (.inr ⟨_, _, rfl, h2⟩)
    · rw [if_neg h2]
      have h1 : ¬ (c1.errors ++ [e]).length > cap := by
        have := insErrs_length k x c1.errors
        simp only [List.length_append, List.length_cons, List.length_nil] at h2 ⊢
        omega
      rw [if_neg h1]
      exact .inl ⟨_, _, _, _, rfl, rfl, trivial, hc', ⟨rfl, rfl⟩, ⟨rfl, rfl⟩⟩

theorem simV_matchP (stop : Bool) (K : Kind) {t1 t2 : Token} (ht : TokIns k t1 t2) :
    SimV D u k x cap NT (MatchRel D k K t1) (matchP D cap stop K t1) (matchP D cap stop K t2) := by
  intro c1 c2 hc hl
  rw [run_matchP, run_matchP, hc.μ, ht.matchTok]
  simp only [reOut]
  have hsane := sane_matchTok D K c1.μ t1 hc.sane
  have htok : TokIns k (matchTok D K c1.μ t1).1.tok (reNo ((insertMap k).ln t1.lineNo) (matchTok D K c1.μ t1).1.tok) := by
    unfold TokIns; rw [matchTok_lineNo']
  have hline := (matchTok_tok D K c1.μ t1).1
  have hc' : CtxU D k x
      { c1 with μ := (matchTok D K c1.μ t1).1.μ, calls := c1.calls + (if (matchTok D K c1.μ t1).2 then 1 else 0) }
      { c2 with μ := (matchTok D K c1.μ t1).1.μ, calls := c2.calls + (if (matchTok D K c1.μ t1).2 then 1 else 0) } :=
    ⟨hc.errors, rfl, hc.β, hc.ids, hc.unexpected, hc.builds, hsane, hc.valid⟩
  cases hr : (matchTok D K c1.μ t1).1.res with
  | matched =>
    have hmm : mm D K c1.μ t1.line = true := by
      rw [← matchTok_isMatched, hr]; rfl
    exact .inl ⟨_, _, _, _, rfl, rfl, ⟨rfl, htok, fun _ => matchTok_matched_col0 D K c1.μ t1 hr, hline,
      fun _ => ⟨_, hmm⟩⟩, hc', ⟨rfl, rfl⟩, ⟨rfl, rfl⟩⟩
  | no =>
    exact .inl ⟨_, _, _, _, rfl, rfl, MatchRel.mk_false htok hline, hc',
      ⟨rfl, rfl⟩, ⟨rfl, rfl⟩⟩
  | raised e =>
    rw [reRes_raised hr]
    simp only []
    cases stop with
    | true => exact .inr (.inl ⟨_, _, _, rfl, rfl, hc'⟩)
    | false =>
      simp only [Bool.false_eq_true, ↓reduceIte]
      have hl' : LinesV u k NT c1.lines c1.lineNo c2.lines c2.lineNo := hl
      rcases simV_addError (D := D) (u := u) (NT := NT) e _ _ hc' hl' with
        ⟨_, _, c1', c2', e1, e2, -, hc'', fr1, fr2⟩ | ⟨e', c1', c2', e1, e2, hc''⟩ | ⟨e', c2', e2, hcap⟩
      · rw [e1, e2]
        exact .inl ⟨_, _, _, _, rfl, rfl, MatchRel.mk_false htok hline, hc'',
          fr1, fr2⟩
      · rw [e1, e2]
        exact .inr (.inl ⟨_, _, _, rfl, rfl, hc''⟩)
      · rw [e2]
        exact .inr (.inr ⟨_, _, rfl, hcap⟩)

theorem simV_matchAny (stop : Bool) (ks : List Kind) {t1 t2 : Token} (ht : TokIns k t1 t2) :
    SimV D u k x cap NT (AnyRel D k ks t1) (matchAny D cap stop ks t1) (matchAny D cap stop ks t2) := by
  induction ks generalizing t1 t2 with
  | nil => exact SimV.pure ⟨rfl, ht, rfl, fun h => by cases h⟩
  | cons K ks ih =>
    unfold matchAny
    refine SimV.bind (simV_matchP stop K ht) fun r1 r2 hr => ?_
    obtain ⟨m1, t1'⟩ := r1
    obtain ⟨m2, t2'⟩ := r2
    obtain ⟨hm, ht', -, hline, hmm⟩ := hr
    simp only at hm ht' hline hmm
    subst hm
    dsimp only
    split
    · rename_i hm1
      exact SimV.pure ⟨rfl, ht', hline, fun _ => by
        obtain ⟨μ, hμ⟩ := hmm hm1
        exact ⟨K, List.mem_cons_self .., μ, hμ⟩⟩
    · intro c1 c2 hc hl
      rcases ih ht' c1 c2 hc hl with ⟨a1, a2, c1', c2', e1, e2, hr, hc', fr⟩ | h | h
      · obtain ⟨h1, h2, h3, h4⟩ := hr
        refine .inl ⟨a1, a2, c1', c2', e1, e2, ⟨h1, h2, h3.trans hline, fun ha => ?_⟩, hc', fr⟩
        obtain ⟨K', hK', μ, hμ⟩ := h4 ha
        exact ⟨K', List.mem_cons_of_mem _ hK', μ, by rw [← hline]; exact hμ⟩
      · exact .inr (.inl h)
      · exact .inr (.inr h)

/-! ### look-ahead -/

theorem simV_peek_after (stop : Bool) (la : LookAhead) :
    ∀ (ls : List Str) (n : Nat), k < n →
      SimV D u k x cap NT Eq (peekLoop D cap stop la ls n) (peekLoop D cap stop la ls (n + 1)) := by
  intro ls
  induction ls with
  | nil =>
    intro n hn
    unfold peekLoop
    have ht : TokIns k { line := none, lineNo := n } { line := none, lineNo := n + 1 } := by
      unfold TokIns reNo; simp only [insertMap_ln_gt k hn]
    refine SimV.bind (simV_matchAny stop _ ht) fun r1 r2 hr => ?_
    obtain ⟨m1, t1'⟩ := r1
    obtain ⟨m2, t2'⟩ := r2
    obtain ⟨hm, ht', -⟩ := hr
    simp only at hm ht'
    subst hm
    dsimp only
    split
    · exact SimV.pure rfl
    · exact SimV.bind (simV_matchAny stop _ ht') fun _ _ _ => SimV.pure rfl
  | cons l ls ih =>
    intro n hn
    unfold peekLoop
    have ht : TokIns k { line := some l, lineNo := n } { line := some l, lineNo := n + 1 } := by
      unfold TokIns reNo; simp only [insertMap_ln_gt k hn]
    refine SimV.bind (simV_matchAny stop _ ht) fun r1 r2 hr => ?_
    obtain ⟨m1, t1'⟩ := r1
    obtain ⟨m2, t2'⟩ := r2
    obtain ⟨hm, ht', -⟩ := hr
    simp only at hm ht'
    subst hm
    dsimp only
    split
    · exact SimV.pure rfl
    · refine SimV.bind (simV_matchAny stop _ ht') fun r1 r2 hr => ?_
      obtain ⟨s1, t1''⟩ := r1
      obtain ⟨s2, t2''⟩ := r2
      obtain ⟨hs, -⟩ := hr
      simp only at hs
      subst hs
      dsimp only
      split
      · exact ih (n + 1) (by omega)
      · exact SimV.pure rfl

/-- a look-ahead before the inserted line stops at the barrier line at the latest -/
theorem simV_peek_before (stop : Bool) {la : LookAhead} (hsk : la.skip.all isSkipKind = true) (q : List Str) :
    ∀ (p : List Str) (n : Nat), n + p.length = k + 1 → p.any barrierLine = true →
      SimV D u k x cap NT Eq (peekLoop D cap stop la (p ++ q) n) (peekLoop D cap stop la (p ++ u :: q) n) := by
  intro p
  induction p with
  | nil => intro n _ h; cases h
  | cons l p ih =>
    intro n hn hbar
    simp only [List.cons_append]
    unfold peekLoop
    have hn' : n ≤ k := by simp at hn; omega
    have ht : TokIns k { line := some l, lineNo := n } { line := some l, lineNo := n } := by
      unfold TokIns reNo; simp only [insertMap_ln_le k hn']
    refine SimV.bind (simV_matchAny stop _ ht) fun r1 r2 hr => ?_
    obtain ⟨m1, t1'⟩ := r1
    obtain ⟨m2, t2'⟩ := r2
    obtain ⟨hm, ht', hline, -⟩ := hr
    simp only at hm ht' hline
    subst hm
    dsimp only
    split
    · exact SimV.pure rfl
    · refine SimV.bind (simV_matchAny stop _ ht') fun r1 r2 hr => ?_
      obtain ⟨s1, t1''⟩ := r1
      obtain ⟨s2, t2''⟩ := r2
      obtain ⟨hs, -, -, hmm⟩ := hr
      simp only at hs hmm
      subst hs
      dsimp only
      split
      · rename_i hs1
        obtain ⟨K, hK, μ, hμ⟩ := hmm hs1
        rw [hline] at hμ
        have hnb : barrierLine l = false := by
          cases hb : barrierLine l with
          | false => rfl
          | true =>
            have := barrier_not_skip (D := D) hb K (List.all_eq_true.1 hsk K hK) μ
            rw [this] at hμ; cases hμ
        rw [List.any_cons, hnb, Bool.false_or] at hbar
        exact ih (n + 1) (by simp at hn ⊢; omega) hbar
      · exact SimV.pure rfl

theorem simV_lookaheadPure (stop : Bool) {la : LookAhead} (hsk : la.skip.all isSkipKind = true) (hnt : ¬ NT) :
    SimV D u k x cap NT Eq (lookaheadPure D cap stop la) (lookaheadPure D cap stop la) := by
  intro c1 c2 hc hl
  unfold lookaheadPure
  rw [prun_bind, prun_bind, run_get, run_get]
  simp only []
  rcases hl with ⟨hn, p, q, h1, h2, hk, hp⟩ | ⟨hn, hk, hls⟩
  · rw [h1, h2, hn]
    have hbar : p.any barrierLine = true := by
      cases hb : p.any barrierLine with
      | true => rfl
      | false => exact absurd (hp hb) hnt
    exact simV_peek_before stop hsk q p _ (by omega) hbar c1 c2 hc
      (.inl ⟨hn, p, q, h1, h2, hk, hp⟩)
  · rw [hls, hn]
    exact simV_peek_after (u := u) (NT := NT) stop la _ _ (by omega) c1 c2 hc (.inr ⟨hn, hk, hls⟩)

/-! ### productions -/

theorem simV_liftB (stop : Bool) (r : Except BErr Unit) :
    SimV D u k x cap NT (fun _ _ => True) (liftB cap stop r) (liftB cap stop (r.mapError (mapBErr (insertMap k)))) := by
  intro c1 c2 hc hl
  rw [run_liftB, run_liftB]
  rcases r with (w | e) | v
  · exact .inr (.inl ⟨_, _, _, rfl, rfl, hc⟩)
  · simp only [Except.mapError, mapBErr]
    cases stop with
    | true => exact .inr (.inl ⟨_, _, _, rfl, rfl, hc⟩)
    | false => exact simV_addError e c1 c2 hc hl
  · exact .inl ⟨_, _, _, _, rfl, rfl, trivial, hc, Frame.refl _, Frame.refl _⟩

theorem simV_runProd (stop : Bool) {t1 t2 : Token} (p : Prod)
    (ht : p = .build → TokIns k t1 t2 ∧ t1.col ≠ some 0) :
    SimV D u k x cap NT (fun _ _ => True) (runProd cap stop t1 p) (runProd cap stop t2 p) := by
  intro c1 c2 hc hl
  rw [run_runProd, run_runProd]
  cases p with
  | start r =>
    exact .inl ⟨_, _, _, _, rfl, rfl, trivial,
      ⟨hc.errors, hc.μ, hc.β.startRule r, hc.ids, hc.unexpected, hc.builds, hc.sane, hc.valid⟩, ⟨rfl, rfl⟩, ⟨rfl, rfl⟩⟩
  | end_ r =>
    simp only []
    rw [hc.ids]
    obtain ⟨h1, h2, h3, -⟩ := hc.β.endRule c1.ids
    rw [h1, h3]
    have hc' : CtxU D k x { c1 with β := (c1.β.endRule c1.ids).2.1, ids := (c1.β.endRule c1.ids).2.2 }
        { c2 with β := (c2.β.endRule c1.ids).2.1, ids := (c1.β.endRule c1.ids).2.2 } :=
      ⟨hc.errors, hc.μ, h2, rfl, hc.unexpected, hc.builds, hc.sane, hc.valid⟩
    exact (simV_liftB stop _ _ _ hc' hl).frame2 ⟨rfl, rfl⟩ |>.frame1 ⟨rfl, rfl⟩
  | build =>
    simp only []
    obtain ⟨hti, hcol⟩ := ht rfl
    rcases hc.β.build (hti.tokMap hcol) with ⟨w, e1, e2⟩ | ⟨β1, β2, e1, e2, hβ⟩
    · rw [e1, e2]
      exact simV_liftB stop (.error (.crash w)) c1 c2 hc hl
    · rw [e1, e2]
      refine .inl ⟨_, _, _, _, rfl, rfl, trivial,
        ⟨hc.errors, hc.μ, hβ, hc.ids, hc.unexpected, ?_, hc.sane, hc.valid⟩, ⟨rfl, rfl⟩, ⟨rfl, rfl⟩⟩
      show c2.builds ++ [t2] = (c1.builds ++ [t1]).map (renumber k)
      rw [hc.builds, List.map_append, hti]
      rfl

theorem simV_runProds (stop : Bool) {t1 t2 : Token} (ht : TokIns k t1 t2) (hcol : t1.col ≠ some 0) (ps : List Prod) :
    SimV D u k x cap NT (fun _ _ => True) (runProds cap stop t1 ps) (runProds cap stop t2 ps) := by
  induction ps with
  | nil => exact SimV.pure trivial
  | cons p ps ih =>
    unfold runProds
    exact SimV.bind (simV_runProd stop p fun _ => ⟨ht, hcol⟩) fun _ _ _ => ih

/-! ### `match_token` -/

theorem simV_tryBranchesPure {T : Table} (hcap : T.errorCap = cap)
    (hS : ∀ (i : Nat) (la : LookAhead), T.lookaheads[i]? = some la → la.skip.all isSkipKind = true)
    (stop : Bool) (row : StateRow)
    (bs : List Branch) (hG : ∀ b ∈ bs, b.guard = none ∨ b.kind = .TagLine) {t1 t2 : Token} (ht : TokIns k t1 t2)
    (hNT : NT → (∀ μ, mm D .TagLine μ t1.line = false) ∨ (∀ b ∈ bs, b.guard = none)) :
    SimV D u k x cap NT Eq (tryBranchesPure D T stop row bs t1) (tryBranchesPure D T stop row bs t2) := by
  subst hcap
  induction bs generalizing t1 t2 with
  | nil =>
    unfold tryBranchesPure
    rw [unexpectedErr_ins row ht]
    have hno : t2.lineNo = (insertMap k).ln t1.lineNo := by rw [ht]; rfl
    rw [hno]
    refine SimV.bind (SimV.modify (fun c1 c2 hc => ?_) (fun _ => ⟨rfl, rfl⟩) (fun _ => ⟨rfl, rfl⟩)) fun _ _ _ => ?_
    · refine ⟨hc.errors, hc.μ, hc.β, hc.ids, ?_, hc.builds, hc.sane, fun y hy => ?_⟩
      · show c2.unexpected ++ _ = insUn k x (c1.unexpected ++ _)
        rw [insUn_append k x _ _ (fun y hy => (hc.valid y hy).2.1), hc.unexpected]
      · obtain ⟨h1, h2, h3⟩ := hc.valid y hy
        exact ⟨h1, by simp only [List.length_append]; omega, h3⟩
    · cases stop with
      | true => exact SimV.throw (.single _)
      | false =>
        simp only [Bool.false_eq_true, ↓reduceIte]
        exact SimV.bind (simV_addError _) fun _ _ _ => SimV.pure rfl
  | cons br bs ih =>
    unfold tryBranchesPure
    have hG' : ∀ b ∈ bs, b.guard = none ∨ b.kind = .TagLine := fun b hb => hG b (List.mem_cons_of_mem _ hb)
    refine SimV.bind (simV_matchP stop br.kind ht) fun r1 r2 hr => ?_
    obtain ⟨m1, t1'⟩ := r1
    obtain ⟨m2, t2'⟩ := r2
    obtain ⟨hm, ht', hcol, hline, hmm⟩ := hr
    simp only at hm ht' hcol hline hmm
    subst hm
    have hNT' : NT → (∀ μ, mm D .TagLine μ t1'.line = false) ∨ (∀ b ∈ bs, b.guard = none) := by
      rw [hline]
      intro h
      rcases hNT h with h' | h'
      · exact .inl h'
      · exact .inr fun b hb => h' b (List.mem_cons_of_mem _ hb)
    dsimp only
    split
    · rename_i hm1
      have hcol' := hcol hm1
      cases hg : br.guard with
      | none =>
        simp only []
        refine SimV.bind (R := fun o1 o2 => o1 = true ∧ o2 = true) (SimV.pure ⟨rfl, rfl⟩) fun o1 o2 ho => ?_
        obtain ⟨rfl, rfl⟩ := ho
        simp only [↓reduceIte]
        exact SimV.bind (simV_runProds stop ht' hcol' _) fun _ _ _ => SimV.pure rfl
      | some i =>
        simp only []
        have hkind : br.kind = .TagLine := by
          rcases hG br (List.mem_cons_self ..) with h | h
          · rw [hg] at h; cases h
          · exact h
        have hnt : ¬ NT := by
          intro h
          rcases hNT h with h' | h'
          · obtain ⟨μ, hμ⟩ := hmm hm1
            rw [hkind, h' μ] at hμ
            cases hμ
          · rw [h' br (List.mem_cons_self ..)] at hg; cases hg
        cases hla : T.lookaheads[i]? with
        | none => exact SimV.bind (R := fun _ _ => False) (SimV.throw (.crash _)) fun _ _ h => h.elim
        | some la =>
          simp only []
          refine SimV.bind (simV_lookaheadPure stop (hS i la hla) hnt) fun o1 o2 ho => ?_
          subst ho
          split
          · exact SimV.bind (simV_runProds stop ht' hcol' _) fun _ _ _ => SimV.pure rfl
          · exact ih hG' ht' hNT'
    · exact ih hG' ht' hNT'

theorem simV_matchTokenPure {T : Table} (hcap : T.errorCap = cap) (hT : TableOkU T) (stop : Bool) (state : Nat)
    {t1 t2 : Token} (ht : TokIns k t1 t2)
    (hNT : NT → (∀ μ, mm D .TagLine μ t1.line = false) ∨ hasGuard T state = false) :
    SimV D u k x cap NT Eq (matchTokenPure D T stop state t1) (matchTokenPure D T stop state t2) := by
  unfold matchTokenPure
  cases hrow : T.row? state with
  | none => exact SimV.throw (.crash _)
  | some row =>
    refine simV_tryBranchesPure hcap hT.skips stop row _ (hT.guards state row hrow) ht fun h => ?_
    rcases hNT h with h' | h'
    · exact .inl h'
    · right
      intro b hb
      unfold hasGuard at h'
      rw [hrow] at h'
      simp only [List.any_eq_false, Option.isSome_iff_ne_none, ne_eq, Decidable.not_not] at h'
      exact h' b hb

end sim
end Recover2
end GV
