/-
  Lemmas/Roundtrip3Doc.lean — round trip, third model (optional background): the background block,
  the scenario block started from ANY state whose scenario / tag / EOF branches close what is open
  (`ClosesG`: states 3 / 10 / 12 / 13 and the background states 5 / 7 / 8), the document.
-/
import GherkinVerif.Lemmas.Roundtrip3Builder
set_option linter.unusedSectionVars false
set_option linter.unusedSimpArgs false
set_option linter.unusedVariables false
namespace GV
namespace Lemmas
open Spec

def MidG (T : Table) (s : Nat) (cl : List Prod) : Prop :=
  ∃ row, T.row? s = some row ∧
    firstOf .ScenarioLine row.branches =
      some ⟨.ScenarioLine, none, cl ++ [.start .ScenarioDefinition, .start .Scenario, .build], 10⟩ ∧
    firstTag0 row.branches =
      some ⟨.TagLine, some 0, cl ++ [.start .ScenarioDefinition, .start .Tags, .build], 9⟩ ∧
    row.branches.head? = some ⟨.EOF, none, cl ++ [.end_ .Feature, .build], 34⟩

theorem MidG.of_bool {T : Table} {s : Nat} {cl : List Prod} (h : midG T s cl = true) : MidG T s cl := by
  obtain ⟨row, hr, hp⟩ := rowHas_spec h
  simp only [Bool.and_eq_true, beq_iff_eq] at hp
  exact ⟨row, hr, hp.1.1, hp.1.2, hp.2⟩

/-- in state `s`, with builder `β` and counter `i`, a scenario or the end of file may follow: the
    three branches close what is open, leaving the `Feature` node with items `fi` and the counter `i0` -/
def ClosesG (T : Table) (s : Nat) (β : BState) (i : Nat) (fi : List (Key × Val)) (i0 : Nat) : Prop :=
  ∃ cl, MidG T s cl ∧ ∀ t, applyOps (prodOps t cl) β i = (.ok (), featStack fi, i0)

theorem ClosesG.of2 {T : Table} (RT2 : RtTable2 T) {s : Nat} {β : BState} {i : Nat} {fi : List (Key × Val)} {i0 : Nat}
    (h : Closes2 s β i fi i0) : ClosesG T s β i fi i0 :=
  ⟨closeOf2 s, MidG.of_bool (RT2.mid s h.1), h.2⟩

section doc3
variable {D' : List Dialect} (hf : keywordFacts D' = true) (hr : renderFacts D' = true)
variable (D : List Dialect) (stop : Bool) (T : Table) (RT3 : RtTable3 T)
variable {μ : MState} (hμ : μ.dialect ∈ D') (hsep : μ.activeSep = none)
include hf hr RT3 hμ hsep

/-- **The scenario block** of the richer model -/
theorem scenario_blockG (sc : MScenario2) (hok : scenarioOK2 μ.dialect sc = true)
    (s : Nat) (β : BState) (i : Nat) (fi : List (Key × Val)) (i0 n fuel : Nat) (rest : List Str) (c : Ctx)
    (hcl : ClosesG T s β i fi i0)
    (h : At c ((scenarioLines2 sc).map (· ++ [10]) ++ rest) n μ β i) :
    ∃ s' β' i' c',
      Closes2 s' β' i' (fi ++ [(.rule .ScenarioDefinition, Val.scenario (expScenario2 μ.dialect (n + 1) i0 sc))])
        (i0 + scIds2 sc) ∧
      At c' rest (n + scLines2 sc) μ β' i' ∧
      run (parseLinesPure D T stop (fuel + scLines2 sc) s) c = run (parseLinesPure D T stop fuel s') c' := by
  have RT2 := RT3.base2
  have RTf := RT2.base
  obtain ⟨tags, kw, nm, steps⟩ := sc
  simp only [scenarioOK2, Bool.and_eq_true, List.all_eq_true, List.contains_eq_mem, decide_eq_true_eq] at hok
  obtain ⟨⟨⟨htags, hk⟩, hn⟩, hsteps⟩ := hok
  have hk' : kw ∈ μ.dialect.roleKeywords .ScenarioLine := hk
  obtain ⟨cl, ⟨row, hrow, hfs, hft, -⟩, hcl2⟩ := hcl
  obtain ⟨row9, hrow9, hf9⟩ := RTf.r9
  have hsno : ∀ (t : Token), t.line = some (titleLineOf kw nm ++ [10]) → ∀ K', K' ≠ .ScenarioLine → K' ≠ .Other →
      matchLine D K' μ t (titleLineOf kw nm ++ [10]) = ⟨t, μ, .no⟩ := fun t ht K' h1 h2 =>
    title_others_no hf hr D T RTf hμ hsep .ScenarioLine rfl kw nm hk' hn t ht K' h1 h2
  have hsyes : ∀ (t : Token) (k : Nat), t.line = some (titleLineOf kw nm ++ [10]) → t.lineNo = k →
      matchLine D .ScenarioLine μ t (titleLineOf kw nm ++ [10]) = ⟨titleTok μ k .ScenarioLine kw nm, μ, .matched⟩ :=
    fun t k ht hk2 => title_match hf hr D μ hμ .ScenarioLine rfl kw nm hk' hn t k ht hk2
  have key : ∃ c1, At c1 ((steps.flatMap stepLines2).map (· ++ [10]) ++ rest) (n + tagLines tags + 1) μ
        (st10 (tagsItem μ (n + 1) tags) fi (titleTok μ (n + tagLines tags + 1) .ScenarioLine kw nm) []) i0 ∧
      run (parseLinesPure D T stop (fuel + stepsLines steps + (tagLines tags + 1)) s) c =
        run (parseLinesPure D T stop (fuel + stepsLines steps) 10) c1 := by
    by_cases ht : tags = []
    · subst ht
      simp only [scenarioLines2, tagLineOf, List.isEmpty_nil, if_true, List.nil_append, List.map_cons,
        List.cons_append] at h
      obtain ⟨c1, h1, hrun1⟩ := lines_step D stop T (fuel + stepsLines steps) s 10 _ h
        (st10 [] fi (titleTok μ (n + 1) .ScenarioLine kw nm) []) i0
        (by
          intro c1 h1
          simp only [matchTokenPure, hrow]
          exact try_first D stop T row _ (titleTok μ (n + 1) .ScenarioLine kw nm) _ rfl .ScenarioLine _ hfs rfl h1
            (hsno _ rfl) (hsyes _ _ rfl rfl) _ _
            (by
              simp only [prodOps_append]
              rw [applyOps_append_ok _ _ _ _ _ _ (hcl2 _)]
              rfl))
      exact ⟨c1, by simpa [tagLines, tagsItem] using h1, by simpa [tagLines] using hrun1⟩
    · have hemp : tags.isEmpty = false := by cases tags <;> simp_all
      have htl : tagLines tags = 1 := by simp [tagLines, hemp]
      simp only [scenarioLines2, tagLineOf, hemp, Bool.false_eq_true, if_false, List.singleton_append,
        List.map_cons, List.cons_append] at h
      obtain ⟨c1, h1, hrun1⟩ := lines_step D stop T (fuel + stepsLines steps + 1) s 9 _ h
        ⟨⟨.Tags, [(.tok .TagLine, .tok (tagTok μ (n + 1) tags))]⟩ :: ⟨.ScenarioDefinition, []⟩ :: ⟨.Feature, fi⟩ :: G0, []⟩ i0
        (by
          intro c1 h1
          simp only [matchTokenPure, hrow]
          exact try_tag0 D stop (titleLineOf kw nm ++ [10]) (titleTok μ (n + 1 + 1) .ScenarioLine kw nm)
            (hsno _ rfl) (hsyes _ _ rfl rfl) T row RTf.la _ (tagTok μ (n + 1) tags) rfl (n + 1) rfl
            (fun t K' h1' h2' => tagline_others_no hf hr D μ hμ tags ht htags hsep t K' h1' h2')
            (fun t ht' hn' => tag_match D μ tags ht htags t (n + 1) ht' hn') _ _ _ _ hft
            (by
              simp only [prodOps_append]
              rw [applyOps_append_ok _ _ _ _ _ _ (hcl2 _)]
              rfl) _ c1 rfl rfl h1)
      obtain ⟨c2, h2, hrun2⟩ := lines_step D stop T (fuel + stepsLines steps) 9 10 _ h1
        (st10 (tagsItem μ (n + 1) tags) fi (titleTok μ (n + 1 + 1) .ScenarioLine kw nm) []) i0
        (by
          intro c2 h2
          simp only [matchTokenPure, hrow9]
          exact try_first D stop T row9 _ (titleTok μ (n + 1 + 1) .ScenarioLine kw nm) _ rfl .ScenarioLine _ hf9 rfl h2
            (hsno _ rfl) (hsyes _ _ rfl rfl) _ _
            (by
              simp only [prodOps, applyOps, applyOp, endRule_raw .Tags (.inr (.inl rfl))]
              simp [tagsItem, hemp, st10]
              rfl))
      refine ⟨c2, ?_, ?_⟩
      · rw [htl]; exact h2
      · rw [htl, hrun1, hrun2]
  obtain ⟨c1, h1, hrun1⟩ := key
  obtain ⟨s', β', i', c', hin', hc', hrun'⟩ := steps_loop2 hf hr D stop T RT2 hμ hsep _ fi _ fuel rest steps hsteps
    10 _ i0 [] i0 _ c1 ⟨.inl rfl, fun t => rfl⟩ h1
  have hcl' := insc2_closes (n + 1) (n + tagLines tags + 1) tags kw nm fi s' β' i' _ _ hin'
  refine ⟨s', β', i', c', ?_, ?_, ?_⟩
  · have e1 : mkSc (n + 1) (n + tagLines tags + 1) (i0 + stepsIds steps) tags kw nm
        ([] ++ expSteps2 μ.dialect (n + tagLines tags + 1 + 1) i0 steps) =
        expScenario2 μ.dialect (n + 1) i0 ⟨tags, kw, nm, steps⟩ := by
      simp [mkSc, expScenario2, Nat.add_assoc, Nat.add_comm, Nat.add_left_comm]
    have e2 : i0 + stepsIds steps + tags.length + 1 = i0 + scIds2 ⟨tags, kw, nm, steps⟩ := by
      simp [scIds2]; omega
    rw [e1, e2] at hcl'
    exact hcl'
  · have e : n + tagLines tags + 1 + stepsLines steps = n + scLines2 ⟨tags, kw, nm, steps⟩ := by
      simp [scLines2]; omega
    rwa [e] at hc'
  · have e : fuel + scLines2 ⟨tags, kw, nm, steps⟩ = fuel + stepsLines steps + (tagLines tags + 1) := by
      simp [scLines2]; omega
    rw [e, hrun1, hrun']

/-- the scenarios of a feature, after any items `pre` of the feature node -/
theorem scenarios_loopG (pre : List (Key × Val)) (fuel : Nat) (rest : List Str) :
    ∀ (scs : List MScenario2) (hok : ∀ sc ∈ scs, scenarioOK2 μ.dialect sc = true)
      (s : Nat) (β : BState) (i : Nat) (S : List Scenario) (i0 n : Nat) (c : Ctx)
      (hcl : ClosesG T s β i (pre ++ scItems S) i0)
      (h : At c ((scs.flatMap scenarioLines2).map (· ++ [10]) ++ rest) n μ β i),
    ∃ s' β' i' c',
      ClosesG T s' β' i' (pre ++ scItems (S ++ expScenarios2 μ.dialect (n + 1) i0 scs)) (i0 + idsOfScenarios2 scs) ∧
      At c' rest (n + (scs.map scLines2).sum) μ β' i' ∧
      run (parseLinesPure D T stop (fuel + (scs.map scLines2).sum) s) c = run (parseLinesPure D T stop fuel s') c' := by
  intro scs
  induction scs with
  | nil =>
    intro _ s β i S i0 n c hcl h
    exact ⟨s, β, i, c, by simpa [expScenarios2, idsOfScenarios2] using hcl, by simpa using h, rfl⟩
  | cons sc scs ih =>
    intro hok s β i S i0 n c hcl h
    simp only [List.flatMap_cons, List.map_append, List.append_assoc] at h
    obtain ⟨s1, β1, i1, c1, hcl1, h1, hrun1⟩ := scenario_blockG hf hr D stop T RT3 hμ hsep sc (hok sc (by simp))
      s β i _ i0 n (fuel + (scs.map scLines2).sum) _ c hcl h
    rw [List.append_assoc, scItems_snoc] at hcl1
    obtain ⟨s', β', i', c', hcl', hc', hrun'⟩ := ih (fun x hx => hok x (by simp [hx])) s1 β1 i1 _ _ _ c1
      (ClosesG.of2 RT3.base2 hcl1) h1
    refine ⟨s', β', i', c', ?_, ?_, ?_⟩
    · have e1 : S ++ [expScenario2 μ.dialect (n + 1) i0 sc] ++
            expScenarios2 μ.dialect (n + scLines2 sc + 1) (i0 + scIds2 sc) scs =
          S ++ expScenarios2 μ.dialect (n + 1) i0 (sc :: scs) := by
        simp [expScenarios2, Nat.add_right_comm]
      have e2 : i0 + scIds2 sc + idsOfScenarios2 scs = i0 + idsOfScenarios2 (sc :: scs) := by
        simp [idsOfScenarios2]; omega
      rw [e1, e2] at hcl'
      exact hcl'
    · have e : n + scLines2 sc + (scs.map scLines2).sum = n + ((sc :: scs).map scLines2).sum := by simp; omega
      rwa [e] at hc'
    · have e : fuel + ((sc :: scs).map scLines2).sum = fuel + (scs.map scLines2).sum + scLines2 sc := by simp; omega
      rw [e, hrun1, hrun']

/-- the end of file, feature with or without a background -/
theorem finishG (s : Nat) (β : BState) (i i0 n fuel : Nat) (tags : List Str) (kw name : Str)
    (bg : Option Background) (S : List Scenario)
    (hcl : ClosesG T s β i (hdrItem μ tags kw name :: (bgItems bg ++ scItems S)) i0) (c : Ctx) (h : At c [] n μ β i) :
    ∃ c' te, run (parseLinesPure D T stop (fuel + 1) s) c = (.ok 34, c') ∧
      At c' [] (n + 1) μ (docStack (mkFeat3 1 (1 + tagLines tags) i0 tags μ.name kw name bg S) te) (i0 + tags.length) := by
  obtain ⟨cl, ⟨row, hrow, -, -, hhead⟩, hcl2⟩ := hcl
  obtain ⟨rest, hbs⟩ : ∃ rest, row.branches = ⟨.EOF, none, cl ++ [.end_ .Feature, .build], 34⟩ :: rest := by
    cases hb : row.branches with
    | nil => rw [hb] at hhead; cases hhead
    | cons a r => rw [hb] at hhead; simp only [List.head?_cons, Option.some.injEq] at hhead; exact ⟨r, by rw [hhead]⟩
  obtain ⟨c', hrun, hc'⟩ := lines_eof D stop T fuel s 34 h _ _
    (by
      intro c1 h1
      simp only [matchTokenPure, hrow, hbs]
      exact try_eof D stop T row _ rfl _ rest rfl rfl h1 _ _
        (by
          simp only [prodOps_append]
          rw [applyOps_append_ok _ _ _ _ _ _ (hcl2 _)]
          simp only [prodOps, applyOps, applyOp, featStack, G0, hdrItem, endRule_feature3]
          rfl))
  exact ⟨c', _, hrun, hc'⟩

/-- **the background block**: from state 3 over the background's keyword line and steps -/
theorem background_block (b : MBackground) (hok : backgroundOK μ.dialect b = true)
    (β : BState) (i : Nat) (fi : List (Key × Val)) (n fuel : Nat) (rest : List Str) (c : Ctx)
    (hcl : ∀ t, applyOps (prodOps t [.end_ .FeatureHeader]) β i = (.ok (), featStack fi, i))
    (h : At c ((backgroundLines b).map (· ++ [10]) ++ rest) n μ β i) :
    ∃ s' β' i' c',
      ClosesG T s' β' i' (fi ++ [(.rule .Background, Val.background (expBackground μ.dialect (n + 1) i b))])
        (i + (stepsIds b.steps + 1)) ∧
      At c' rest (n + (1 + stepsLines b.steps)) μ β' i' ∧
      run (parseLinesPure D T stop (fuel + (1 + stepsLines b.steps)) 3) c = run (parseLinesPure D T stop fuel s') c' := by
  have RTf := RT3.base2.base
  obtain ⟨kw, nm, steps⟩ := b
  simp only [backgroundOK, Bool.and_eq_true, List.all_eq_true, List.contains_eq_mem, decide_eq_true_eq] at hok
  obtain ⟨⟨hk, hn⟩, hsteps⟩ := hok
  have hk' : kw ∈ μ.dialect.roleKeywords .BackgroundLine := hk
  obtain ⟨row3, hrow3, hb3⟩ := RT3.bgline
  simp only [backgroundLines, List.map_cons, List.cons_append] at h
  obtain ⟨c1, h1, hrun1⟩ := lines_step D stop T (fuel + stepsLines steps) 3 5 _ h
    (bt5 [] fi (titleTok μ (n + 1) .BackgroundLine kw nm) []) i
    (by
      intro c1 h1
      simp only [matchTokenPure, hrow3]
      exact try_first D stop T row3 _ (titleTok μ (n + 1) .BackgroundLine kw nm) _ rfl .BackgroundLine _ hb3 rfl h1
        (fun K' h1' h2' => title_others_no hf hr D T RTf hμ hsep .BackgroundLine rfl kw nm hk' hn _ rfl K' h1' h2')
        (title_match hf hr D μ hμ .BackgroundLine rfl kw nm hk' hn _ (n + 1) rfl rfl) _ _
        (by
          show applyOps (prodOps _ ([.end_ .FeatureHeader] ++ [.start .Background, .build])) β i = _
          rw [prodOps_append, applyOps_append_ok _ _ _ _ _ _ (hcl _)]
          rfl))
  obtain ⟨s', β', i', c', hin', hc', hrun'⟩ := steps_loopB hf hr D stop T RT3 hμ hsep [] fi _ fuel rest steps hsteps
    5 _ i [] i _ c1 ⟨.inl rfl, fun t => rfl⟩ h1
  refine ⟨s', β', i', c', ⟨closeB s', MidG.of_bool (RT3.bmid s' hin'.1), fun t => ?_⟩, ?_, ?_⟩
  · rw [closeB, prodOps_append, applyOps_append_ok _ _ _ _ _ _ (hin'.2 t)]
    simp only [prodOps, applyOps, applyOp, bt5, endRule_background]
    simp [featStack, mkBg, expBackground, Nat.add_assoc]
  · have e : n + 1 + stepsLines steps = n + (1 + stepsLines steps) := by omega
    rwa [e] at hc'
  · have e : fuel + (1 + stepsLines steps) = fuel + stepsLines steps + 1 := by omega
    rw [e, hrun1, hrun']

end doc3

theorem stepLines2_noLF {D' : List Dialect} (hr : renderFacts D' = true) {d : Dialect} (hd : d ∈ D')
    (st : MStep2) (hs : stepOK2 d st = true) : ∀ b ∈ stepLines2 st, ∀ x ∈ b, x ≠ 10 := by
  simp only [stepOK2, Bool.and_eq_true] at hs
  obtain ⟨hcore, htab⟩ := hs
  intro b hb
  simp only [stepLines2, List.mem_cons, List.mem_map] at hb
  rcases hb with rfl | ⟨r, hr', rfl⟩
  · simp only [stepOK, Bool.and_eq_true, beq_iff_eq, firstStepKeyword] at hcore
    obtain ⟨-, hk10⟩ := renderFacts_spec hr hd (mem_allKeywords_step (List.mem_of_find?_eq_some hcore.1))
    obtain ⟨-, -, ht10⟩ := cleanText_spec hcore.2
    intro x hx
    simp only [stepLineOf, MStep2.core, List.mem_append, List.mem_cons, List.not_mem_nil, or_false] at hx
    rcases hx with ((rfl | rfl) | hx) | hx
    · decide
    · decide
    · exact hk10 x hx
    · exact ht10 x hx
  · exact rowBody_noLF r fun c hc x hx => ((cellOK_spec ((tableOK_spec htab r hr').2 c hc)).2.2 x hx).2.2

theorem bgLines_noLF {D' : List Dialect} (hr : renderFacts D' = true) {d : Dialect} (hd : d ∈ D')
    (bg : Option MBackground) (hok : (match bg with | none => true | some b => backgroundOK d b) = true) :
    ∀ b ∈ bgLinesOf bg, ∀ x ∈ b, x ≠ 10 := by
  cases bg with
  | none => intro b hb; cases hb
  | some b0 =>
    simp only [backgroundOK, Bool.and_eq_true, List.all_eq_true, List.contains_eq_mem, decide_eq_true_eq] at hok
    obtain ⟨⟨hk, hn⟩, hsteps⟩ := hok
    intro b hb
    simp only [bgLinesOf, backgroundLines, List.mem_cons, List.mem_flatMap] at hb
    rcases hb with rfl | ⟨st, hst, hb⟩
    · exact title_noLF hr hd b0.kw b0.name
        (mem_allKeywords_title (mem_titleKeywords_of_role _ .BackgroundLine b0.kw hk)) hn
    · exact stepLines2_noLF hr hd st (hsteps st hst) b hb

theorem bgLinesOf_length (bg : Option MBackground) : (bgLinesOf bg).length = bgLineCount bg := by
  cases bg with
  | none => rfl
  | some b =>
    show (titleLineOf b.kw b.name :: b.steps.flatMap stepLines2).length = 1 + stepsLines b.steps
    rw [List.length_cons, flatMap_stepLines2_length]; omega

/-- **Round trip of the third model (optional background), queue-free parse** -/
theorem roundtrip3_pure {D' : List Dialect} (hf : keywordFacts D' = true) (hr : renderFacts D' = true)
    (D : List Dialect) (T : Table) (RT3 : RtTable3 T) (stop : Bool) (μ0 : MState) (hμ : (μ0.reset D).dialect ∈ D')
    (ids : Nat) (m : MFeature3) (hwf : WF3 (μ0.reset D).dialect m = true) :
    (parseWithPure D T stop μ0 ids (render3 m)).1 =
      .ok (expectedDoc3 (μ0.reset D).dialect (μ0.reset D).name m ids) ∧
    (parseWithPure D T stop μ0 ids (render3 m)).2.ids = idsAfter3 m ids := by
  have RT2 := RT3.base2
  have RTf := RT2.base
  obtain ⟨tags, kw, name, bg, scs⟩ := m
  simp only [WF3, Bool.and_eq_true, List.all_eq_true, List.contains_eq_mem, decide_eq_true_eq] at hwf
  obtain ⟨⟨⟨⟨htags, hk⟩, hn⟩, hbg⟩, hscs⟩ := hwf
  have hka : kw ∈ (μ0.reset D).dialect.allKeywords :=
    mem_allKeywords_title (mem_titleKeywords_of_role _ .FeatureLine kw hk)
  have hsplit : splitLines (render3 ⟨tags, kw, name, bg, scs⟩) =
      (tagLineOf tags ++ [titleLineOf kw name]).map (· ++ [10]) ++
        ((bgLinesOf bg).map (· ++ [10]) ++ (scs.flatMap scenarioLines2).map (· ++ [10])) := by
    have : lineBodies3 ⟨tags, kw, name, bg, scs⟩ =
        (tagLineOf tags ++ [titleLineOf kw name]) ++ (bgLinesOf bg ++ scs.flatMap scenarioLines2) := by
      simp [lineBodies3]
    rw [render3, this, ← List.map_append, ← List.map_append]
    apply splitLines_flatMap
    intro b hb
    simp only [List.mem_append, List.mem_singleton, List.mem_flatMap] at hb
    rcases hb with (hb | rfl) | hb | ⟨sc, hsc, hb⟩
    · exact tagLine_noLF tags htags b hb
    · exact title_noLF hr hμ kw name hka hn
    · exact bgLines_noLF hr hμ bg hbg b hb
    · exact scenarioLines2_noLF hr hμ sc (hscs sc hsc) b hb
  have hlen : (splitLines (render3 ⟨tags, kw, name, bg, scs⟩)).length + 2 =
      (2 + (scs.map scLines2).sum + bgLineCount bg) + (1 + tagLines tags) := by
    rw [hsplit]
    simp only [List.length_map, List.length_append, List.length_singleton, flatMap_scenarioLines2_length,
      bgLinesOf_length, tagLineOf, tagLines]
    split <;> simp <;> omega
  -- the expected background of the AST
  let bgA : Option Background := bg.map (expBackground (μ0.reset D).dialect (1 + tagLines tags + 1) ids)
  have hexp : expectedDoc3 (μ0.reset D).dialect (μ0.reset D).name ⟨tags, kw, name, bg, scs⟩ ids =
      ⟨some (mkFeat3 1 (1 + tagLines tags) (ids + bgIdCount bg + idsOfScenarios2 scs) tags (μ0.reset D).name kw name
        bgA (expScenarios2 (μ0.reset D).dialect (1 + tagLines tags + bgLineCount bg + 1) (ids + bgIdCount bg) scs)), []⟩ := by
    have e1 : 2 + tagLines tags = 1 + tagLines tags + 1 := by omega
    have e2 : ∀ k, 1 + tagLines tags + 1 + k = 1 + tagLines tags + k + 1 := by intro k; omega
    cases bg <;> simp [expectedDoc3, mkFeat3, e1, e2, bgA, bgChild, expBgChild]
  rw [hexp]
  have hid : idsAfter3 ⟨tags, kw, name, bg, scs⟩ ids = ids + bgIdCount bg + idsOfScenarios2 scs + tags.length := rfl
  rw [hid]
  apply pure_outcome_of_loop D T RTf.start
  intro c hc
  rw [hlen]
  rw [hsplit] at hc
  obtain ⟨c1, β1, h1, hcl, hrun1⟩ := feature_head hf hr D stop T RTf hμ (reset_activeSep D μ0) tags kw name htags hk hn
    _ ids (2 + (scs.map scLines2).sum + bgLineCount bg) c hc
  -- the background, if any
  have hb : ∃ s1' β1' i1' c1', ClosesG T s1' β1' i1' (hdrItem (μ0.reset D) tags kw name :: (bgItems bgA ++ scItems []))
        (ids + bgIdCount bg) ∧
      At c1' ((scs.flatMap scenarioLines2).map (· ++ [10]) ++ []) (1 + tagLines tags + bgLineCount bg) (μ0.reset D) β1' i1' ∧
      run (parseLinesPure D T stop (2 + (scs.map scLines2).sum + bgLineCount bg) 3) c1 =
        run (parseLinesPure D T stop (2 + (scs.map scLines2).sum) s1') c1' := by
    cases bg with
    | none =>
      refine ⟨3, β1, ids, c1, ClosesG.of2 RT2 ⟨.inl rfl, hcl.2⟩, ?_, rfl⟩
      simpa [bgLinesOf, bgLineCount] using h1
    | some b =>
      obtain ⟨s', β', i', c', hcl', hc', hrun'⟩ := background_block hf hr D stop T RT3 hμ (reset_activeSep D μ0) b hbg
        β1 ids _ (1 + tagLines tags) (2 + (scs.map scLines2).sum) _ c1 hcl.2 h1
      exact ⟨s', β', i', c', hcl', by simpa [bgLineCount] using hc', hrun'⟩
  obtain ⟨s1', β1', i1', c1', hcl1, h1', hrunb⟩ := hb
  obtain ⟨s2, β2, i2, c2, hcl2, h2, hrun2⟩ := scenarios_loopG hf hr D stop T RT3 hμ (reset_activeSep D μ0)
    (hdrItem (μ0.reset D) tags kw name :: bgItems bgA) 2 [] scs hscs s1' β1' i1' [] (ids + bgIdCount bg)
    (1 + tagLines tags + bgLineCount bg) c1' hcl1 h1'
  rw [List.nil_append] at hcl2
  obtain ⟨c3, te, hrun3, h3⟩ := finishG hf hr D stop T RT3 hμ (reset_activeSep D μ0) s2 β2 i2 _ _ 1 tags kw name bgA _
    hcl2 c2 h2
  exact ⟨c3, te, _, by rw [hrun1, hrunb, hrun2, hrun3], h3⟩

end Lemmas
end GV
