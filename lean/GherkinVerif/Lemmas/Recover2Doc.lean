/-
  Lemmas/Recover2Doc.lean — property C14, recovery at document level, second part: the phases of the
  simulation, the whole queue-free parse and the transfer to the parser with the token queue, under
  the look-ahead condition `PeekOK` ("a tag line of the prefix that is read in a state with a guarded
  test is followed by a barrier line within the prefix") instead of `barrierBefore`.
-/
import GherkinVerif.Lemmas.Recover2Sim
namespace GV
namespace Recover2
open Lemmas Spec Layout3 Recover

section loop
variable {D : List Dialect} {u : Str} {k : Nat} {cap : Nat}

/-- the look-ahead condition along the prefix run (second text): a line of `p` that starts with `@`
    and has no barrier line behind it within `p` is read in a state without guarded tests -/
def PeekOK (D : List Dialect) (T : Table) (stop : Bool) (p : List Str) (s : Nat) (c2 : Ctx) : Prop :=
  ∀ j l, p[j]? = some l → (p.drop (j + 1)).any barrierLine = false → tagStart l = true →
    ∀ s' fl c', run (parsePrefixPure D T stop j s) c2 = (.ok (s', fl), c') → hasGuard T s' = false

theorem PeekOK.step {T : Table} {stop : Bool} {l : Str} {p rest : List Str} {s s1 : Nat} {c2 c2' : Ctx}
    (h : PeekOK D T stop (l :: p) s c2) (hl : c2.lines = l :: rest)
    (hr : run (matchTokenPure D T stop s { line := some l, lineNo := c2.lineNo + 1 })
      { c2 with lines := rest, lineNo := c2.lineNo + 1, reads := c2.reads ++ [c2.lineNo + 1] } = (.ok s1, c2')) :
    PeekOK D T stop p s1 c2' := by
  intro j l' hj hb ht s' fl c' hrun
  refine h (j + 1) l' (by simpa using hj) (by simpa using hb) ht s' fl c' ?_
  rw [run_prefix_cons T stop j s c2 hl, hr]
  exact hrun

/-- phase A: both runs consume the lines before the insertion point -/
theorem simV_prefix {T : Table} (hcap : T.errorCap = cap) (hT : TableOkU T) (stop : Bool) (q : List Str) :
    ∀ (p : List Str) (s : Nat) (c1 c2 : Ctx), CtxU D k none c1 c2 → c1.lines = p ++ q → c2.lines = p ++ u :: q →
      c2.lineNo = c1.lineNo → c1.lineNo + p.length = k → PeekOK D T stop p s c2 →
      PostLU D k none cap (fun a c1' c2' => a.2 = false ∧ c1'.lines = q ∧ c2'.lines = u :: q ∧ c1'.lineNo = k ∧ c2'.lineNo = k)
        (run (parsePrefixPure D T stop p.length s) c1) (run (parsePrefixPure D T stop p.length s) c2) := by
  intro p
  induction p with
  | nil =>
    intro s c1 c2 hc h1 h2 hn hk _
    exact .inl ⟨(s, false), c1, c2, rfl, rfl, hc, rfl, h1, h2, by simpa using hk, by rw [hn]; simpa using hk⟩
  | cons l p ih =>
    intro s c1 c2 hc h1 h2 hn hk hpk
    simp only [List.length_cons, List.cons_append] at hk h1 h2 ⊢
    have hstep := fun s1 c2' => hpk.step (s1 := s1) (c2' := c2') h2
    rw [run_prefix_cons T stop _ s c1 h1, run_prefix_cons T stop _ s c2 h2]
    rw [hn] at hstep ⊢
    have ht : TokIns k { line := some l, lineNo := c1.lineNo + 1 } { line := some l, lineNo := c1.lineNo + 1 } := by
      unfold TokIns reNo; simp only [insertMap_ln_le k (show c1.lineNo + 1 ≤ k by omega)]
    have hc' : CtxU D k none
        { c1 with lines := p ++ q, lineNo := c1.lineNo + 1, reads := c1.reads ++ [c1.lineNo + 1] }
        { c2 with lines := p ++ u :: q, lineNo := c1.lineNo + 1, reads := c2.reads ++ [c1.lineNo + 1] } :=
      ⟨hc.errors, hc.μ, hc.β, hc.ids, hc.unexpected, hc.builds, hc.sane, fun y hy => by cases hy⟩
    have hl : LinesV u k (tagStart l = false ∨ hasGuard T s = false)
        (p ++ q) (c1.lineNo + 1) (p ++ u :: q) (c1.lineNo + 1) :=
      .inl ⟨rfl, p, q, rfl, rfl, by omega, fun hp => by
        cases ht' : tagStart l with
        | false => exact .inl rfl
        | true => exact .inr (hpk 0 l rfl (by simpa using hp) ht' s false c2 rfl)⟩
    rcases simV_matchTokenPure (x := none) hcap hT stop s ht
        (fun h => h.imp (fun h' μ => not_tag D h' μ) id) _ _ hc' hl with
      ⟨s1, s2, c1', c2', e1, e2, hs, hc'', fr1, fr2⟩ | ⟨e, c1', c2', e1, e2, hc''⟩ | ⟨e, c2', e2, hcp⟩
    · rw [e1, e2]
      subst hs
      exact ih s1 c1' c2' hc'' fr1.1 fr2.1 (by rw [fr1.2, fr2.2]) (by rw [fr1.2]; simp only; omega) (hstep s1 c2' e2)
    · rw [e1, e2]
      exact .inr (.inl ⟨e, c1', c2', rfl, rfl, hc''⟩)
    · rw [e2]
      exact .inr (.inr ⟨e, c2', rfl, hcp⟩)

/-- phase C: both runs consume the lines after the inserted one, numbered one higher in the second -/
theorem simV_rest {T : Table} (hcap : T.errorCap = cap) (hT : TableOkU T) (stop : Bool) (x : Option Extra) :
    ∀ (fuel s : Nat) (c1 c2 : Ctx), CtxU D k x c1 c2 → c2.lines = c1.lines → c2.lineNo = c1.lineNo + 1 →
      k ≤ c1.lineNo →
      PostLU D k x cap (fun _ c1' c2' => LinesV u k False c1'.lines c1'.lineNo c2'.lines c2'.lineNo)
        (run (parseLinesPure D T stop fuel s) c1) (run (parseLinesPure D T stop fuel s) c2) := by
  intro fuel
  induction fuel with
  | zero =>
    intro s c1 c2 hc _ _ _
    exact .inr (.inl ⟨.fuel, c1, c2, rfl, rfl, hc⟩)
  | succ fuel ih =>
    intro s c1 c2 hc hls hn hk
    cases h1 : c1.lines with
    | nil =>
      have h2 : c2.lines = [] := by rw [hls, h1]
      rw [run_lines_nil T stop _ s c1 h1, run_lines_nil T stop _ s c2 h2, hn]
      have ht : TokIns k { line := none, lineNo := c1.lineNo + 1 } { line := none, lineNo := c1.lineNo + 1 + 1 } := by
        unfold TokIns reNo; simp only [insertMap_ln_gt k (show k < c1.lineNo + 1 by omega)]
      have hc' : CtxU D k x
          { c1 with lineNo := c1.lineNo + 1, reads := c1.reads ++ [c1.lineNo + 1] }
          { c2 with lineNo := c1.lineNo + 1 + 1, reads := c2.reads ++ [c1.lineNo + 1 + 1] } :=
        ⟨hc.errors, hc.μ, hc.β, hc.ids, hc.unexpected, hc.builds, hc.sane, hc.valid⟩
      have hl' : LinesV u k False c1.lines (c1.lineNo + 1) c2.lines (c1.lineNo + 1 + 1) :=
        .inr ⟨rfl, by omega, hls⟩
      rcases simV_matchTokenPure hcap hT stop s ht (fun h => h.elim) _ _ hc' hl' with
        ⟨s1, s2, c1', c2', e1, e2, hs, hc'', fr1, fr2⟩ | ⟨e, c1', c2', e1, e2, hc''⟩ | ⟨e, c2', e2, hcp⟩
      · rw [e1, e2]
        subst hs
        refine .inl ⟨s1, c1', c2', rfl, rfl, hc'', ?_⟩
        show LinesV u k False c1'.lines c1'.lineNo c2'.lines c2'.lineNo
        rw [fr1.1, fr1.2, fr2.1, fr2.2]; exact hl'
      · rw [e1, e2]
        exact .inr (.inl ⟨e, c1', c2', rfl, rfl, hc''⟩)
      · rw [e2]
        exact .inr (.inr ⟨e, c2', rfl, hcp⟩)
    | cons l ls =>
      have h2 : c2.lines = l :: ls := by rw [hls, h1]
      rw [run_lines_cons T stop _ s c1 h1, run_lines_cons T stop _ s c2 h2, hn]
      have ht : TokIns k { line := some l, lineNo := c1.lineNo + 1 } { line := some l, lineNo := c1.lineNo + 1 + 1 } := by
        unfold TokIns reNo; simp only [insertMap_ln_gt k (show k < c1.lineNo + 1 by omega)]
      have hc' : CtxU D k x
          { c1 with lines := ls, lineNo := c1.lineNo + 1, reads := c1.reads ++ [c1.lineNo + 1] }
          { c2 with lines := ls, lineNo := c1.lineNo + 1 + 1, reads := c2.reads ++ [c1.lineNo + 1 + 1] } :=
        ⟨hc.errors, hc.μ, hc.β, hc.ids, hc.unexpected, hc.builds, hc.sane, hc.valid⟩
      rcases simV_matchTokenPure hcap hT stop s ht (fun h => h.elim) _ _ hc'
          (.inr ⟨rfl, by show k ≤ c1.lineNo + 1; omega, rfl⟩ : LinesV u k False _ _ _ _) with
        ⟨s1, s2, c1', c2', e1, e2, hs, hc'', fr1, fr2⟩ | ⟨e, c1', c2', e1, e2, hc''⟩ | ⟨e, c2', e2, hcp⟩
      · rw [e1, e2]
        subst hs
        exact ih s1 c1' c2' hc'' (by rw [fr1.1, fr2.1]) (by rw [fr1.2, fr2.2]) (by rw [fr1.2]; simp only; omega)
      · rw [e1, e2]
        exact .inr (.inl ⟨e, c1', c2', rfl, rfl, hc''⟩)
      · rw [e2]
        exact .inr (.inr ⟨e, c2', rfl, hcp⟩)


end loop

theorem simV_body {D : List Dialect} {u : Str} {T : Table} (hT : TableOkU T)
    (pre post : List Str) {c1 c2 : Ctx} (hc : CtxU D pre.length none c1 c2)
    (h1 : c1.lines = pre ++ post) (h2 : c2.lines = pre ++ u :: post) (hn1 : c1.lineNo = 0) (hn2 : c2.lineNo = 0)
    (hpk : PeekOK D T false pre 0 { c2 with β := c2.β.startRule T.startRule }) {s : Nat} {cr : Ctx}
    (hrun : ∃ flag, run (parsePrefixPure D T false pre.length 0) { c2 with β := c2.β.startRule T.startRule } =
      (.ok (s, flag), cr))
    (hun : lineUnexpectedAt D T s cr.μ u = true) :
    (∃ r1 r2 c1' c2', run (parseBodyPure D T false (pre ++ post).length) c1 = (r1, c1') ∧
      run (parseBodyPure D T false (pre ++ u :: post).length) c2 = (r2, c2') ∧
      CtxU D pre.length (some ⟨cr.errors.length, cr.unexpected.length, skippedError T s pre.length u⟩) c1' c2' ∧
      BodyRel pre.length ⟨cr.errors.length, cr.unexpected.length, skippedError T s pre.length u⟩ r1 r2) ∨
    (∃ e c2', run (parseBodyPure D T false (pre ++ u :: post).length) c2 = (.error e, c2') ∧
      T.errorCap < c2'.errors.length) := by
  obtain ⟨flag, hrun⟩ := hrun
  unfold parseBodyPure
  rw [prun_bind, prun_bind, run_modify, run_modify]
  simp only []
  rw [prun_bind, prun_bind]
  have hc0 : CtxU D pre.length none { c1 with β := c1.β.startRule T.startRule }
      { c2 with β := c2.β.startRule T.startRule } :=
    ⟨hc.errors, hc.μ, hc.β.startRule _, hc.ids, hc.unexpected, hc.builds, hc.sane, fun y hy => by cases hy⟩
  have e1 : (pre ++ post).length + 2 = pre.length + (post.length + 2) := by simp; omega
  have e2 : (pre ++ u :: post).length + 2 = pre.length + (post.length + 2 + 1) := by simp; omega
  rw [e1, e2, parseLinesPure_split, parseLinesPure_split, prun_bind, prun_bind]
  rcases simV_prefix (u := u) (cap := T.errorCap) rfl hT false post pre 0 _ _ hc0 h1 h2 (by rw [hn1, hn2])
      (by rw [hn1]; simp) hpk with
    ⟨a, c1', c2', r1, r2, hc', hflag, hl1, hl2, hno1, hno2⟩ | ⟨e, c1', c2', r1, r2, hc'⟩ | ⟨e, c2', r2, hcp⟩
  · rw [hrun] at r2
    cases r2
    rw [r1, hrun]
    simp only at hflag
    simp only [hflag, Bool.false_eq_true, if_false]
    have hel : cr.errors.length = c1'.errors.length := by rw [hc'.errors]; simp [insErrs]
    have hul : cr.unexpected.length = c1'.unexpected.length := by rw [hc'.unexpected]; simp [insUn]
    rw [hel, hul]
    rcases unexpected_step (D := D) (u := u) (cap := T.errorCap) rfl (post.length + 2) hc' hl2 hno2 hun with
      ⟨c2'', hr, hc'', hl2', hno2'⟩ | ⟨e, c2'', hr, hcp⟩
    · rw [hr]
      rcases simV_rest (u := u) (cap := T.errorCap) rfl hT false _ _ _ c1' c2'' hc'' (by rw [hl2', hl1])
          (by rw [hno2', hno1]) (by rw [hno1]; exact Nat.le_refl _) with
        ⟨a, c1e, c2e, r1, r2, hce, hle⟩ | ⟨e, c1e, c2e, r1, r2, hce⟩ | ⟨e, c2e, r2, hcp⟩
      · rw [r1, r2]
        simp only []
        rw [prun_bind, prun_bind]
        rcases simV_runProd (D := D) (u := u) (k := pre.length) (cap := T.errorCap) (NT := False) false
            (t1 := default) (t2 := default) (.end_ T.startRule) (fun h => by cases h) c1e c2e hce hle with
          ⟨_, _, c1'', c2f, r1', r2', -, hcf, -, -⟩ | ⟨e, c1'', c2f, r1', r2', hcf⟩ | ⟨e, c2f, r2', hcp⟩
        · rw [r1', r2']
          simp only []
          rw [prun_bind, prun_bind, run_get, run_get]
          simp only []
          have hne2 : (!c2f.errors.isEmpty) = true := by
            rw [hcf.errors]; simp [insErrs, insertErr]
          rw [if_pos hne2, prun_bind (m := throw _), prun_throw]
          by_cases he : (!c1''.errors.isEmpty) = true
          · rw [if_pos he, prun_bind, prun_throw]
            refine .inl ⟨_, _, _, _, rfl, rfl, hcf, ?_, ?_⟩
            · intro d hd; cases hd
            · intro es hes
              cases hes
              rw [hcf.errors]; rfl
          · rw [if_neg he]
            have hemp : c1''.errors = [] := by
              cases hce' : c1''.errors with
              | nil => rfl
              | cons a as => rw [hce'] at he; simp at he
            cases hres : c1''.β.result with
            | error e =>
              cases e with
              | crash w => refine .inl ⟨_, _, _, _, rfl, rfl, hcf, ?_, ?_⟩ <;> intro _ h <;> cases h
              | ast e => refine .inl ⟨_, _, _, _, rfl, rfl, hcf, ?_, ?_⟩ <;> intro _ h <;> cases h
            | ok o =>
              cases o with
              | none => refine .inl ⟨_, _, _, _, rfl, rfl, hcf, ?_, ?_⟩ <;> intro _ h <;> cases h
              | some d =>
                refine .inl ⟨_, _, _, _, rfl, rfl, hcf, ?_, ?_⟩
                · intro d' _
                  rw [hcf.errors, hemp]; simp [insErrs, insertErr]
                · intro es h; cases h
        · rw [r1', r2']
          refine .inl ⟨_, _, _, _, rfl, rfl, hcf, ?_, ?_⟩
          · intro d hd; cases hd
          · intro es hes; cases hes; rfl
        · rw [r2']
          exact .inr ⟨_, _, rfl, hcp⟩
      · rw [r1, r2]
        refine .inl ⟨_, _, _, _, rfl, rfl, hce, ?_, ?_⟩
        · intro d hd; cases hd
        · intro es hes; cases hes; rfl
      · rw [r2]
        exact .inr ⟨_, _, rfl, hcp⟩
    · rw [hr]
      exact .inr ⟨_, _, rfl, hcp⟩
  · rw [hrun] at r2; cases r2
  · rw [hrun] at r2; cases r2


/-- **The look-ahead condition**: among the first lines `pre` of `src'`, a line that starts with `@`
    and has no barrier line behind it within `pre` is read (by the run on `src'`) in a state without
    guarded tests.  Then no look-ahead started within `pre` reads past `pre`. -/
def NoPeek (D : List Dialect) (T : Table) (stop : Bool) (μ : MState) (ids : Nat) (src' : Str) (pre : List Str) : Prop :=
  ∀ i l, pre[i]? = some l → (pre.drop (i + 1)).any barrierLine = false → tagStart l = true →
    ∀ s c, runAfter D T stop μ ids src' i = some (s, c) → hasGuard T s = false

/-- **Whole queue-free parse**, collecting mode. -/
theorem parseWithPure_unexpected2 {D : List Dialect} {T : Table} (hT : TableOkU T) {u : Str} (μ : MState) (ids : Nat)
    {src src' : Str} (pre post : List Str)
    (h1 : splitLines src = pre ++ post) (h2 : splitLines src' = pre ++ u :: post)
    (hμ : (μ.reset D).dialect ∈ D) (hpk : NoPeek D T false μ ids src' pre) {s : Nat} {cr : Ctx}
    (hrun : runAfter D T false μ ids src' pre.length = some (s, cr))
    (hun : lineUnexpectedAt D T s cr.μ u = true)
    (hcap : (parseWithPure D T false μ ids src').2.errors.length ≤ T.errorCap) :
    CtxObsU pre.length cr.errors.length cr.unexpected.length (skippedError T s pre.length u)
      (parseWithPure D T false μ ids src).2 (parseWithPure D T false μ ids src').2 ∧
    (∀ d, (parseWithPure D T false μ ids src).1 = .ok d →
      (parseWithPure D T false μ ids src').1 = .rejected [skippedError T s pre.length u] true) ∧
    (∀ es, (parseWithPure D T false μ ids src).1 = .rejected es true →
      (parseWithPure D T false μ ids src').1 =
        .rejected (insertErr pre.length cr.errors.length (skippedError T s pre.length u) es) true) := by
  rw [parseWithPure_eq D T false μ ids src'] at hcap ⊢
  rw [parseWithPure_eq D T false μ ids src]
  simp only [h1, h2] at hcap ⊢
  have hc0 : CtxU D pre.length none
      { lines := pre ++ post, μ := μ.reset D, β := BState.reset, ids := ids }
      { lines := pre ++ u :: post, μ := μ.reset D, β := BState.reset, ids := ids } :=
    ⟨rfl, rfl, BMap.reset, rfl, rfl, rfl,
      ⟨(by intro sep hsep; unfold MState.reset at hsep; cases hsep), hμ⟩, fun y hy => by cases hy⟩
  have hrun' : ∃ flag, run (parsePrefixPure D T false pre.length 0)
      { ({ lines := pre ++ u :: post, μ := μ.reset D, β := BState.reset, ids := ids } : Ctx) with
        β := BState.reset.startRule T.startRule } = (.ok (s, flag), cr) := by
    unfold runAfter startCtx at hrun
    rw [h2] at hrun
    unfold run
    rcases hx : (parsePrefixPure D T false pre.length 0).run.run
      { lines := pre ++ u :: post, μ := μ.reset D, β := BState.reset.startRule T.startRule, ids := ids } with ⟨r, c⟩
    rw [hx] at hrun
    cases r with
    | error e => cases hrun
    | ok a =>
      obtain ⟨s', flag⟩ := a
      simp only [Option.some.injEq, Prod.mk.injEq] at hrun
      obtain ⟨rfl, rfl⟩ := hrun
      exact ⟨flag, rfl⟩
  have hpk' : PeekOK D T false pre 0
      { ({ lines := pre ++ u :: post, μ := μ.reset D, β := BState.reset, ids := ids } : Ctx) with
        β := BState.reset.startRule T.startRule } := by
    intro j l hj hb ht s' fl c' hr
    refine hpk j l hj hb ht s' c' ?_
    unfold runAfter startCtx
    rw [h2]
    have hr' : (parsePrefixPure D T false j 0).run.run
        { lines := pre ++ u :: post, μ := μ.reset D, β := BState.reset.startRule T.startRule, ids := ids } =
        (.ok (s', fl), c') := hr
    rw [hr']
  rcases simV_body hT pre post hc0 rfl rfl rfl rfl hpk' hrun' hun with
    ⟨r1, r2, c1', c2', e1, e2, hc', hb1, hb2⟩ | ⟨e, c2', e2, hcp⟩
  · rw [e1, e2]
    refine ⟨⟨hc'.errors, hc'.μ, hc'.ids, hc'.unexpected, hc'.builds⟩, fun d hd => ?_, fun es hes => ?_⟩
    · cases r1 with
      | ok d' => rw [hb1 d' rfl]; rfl
      | error e => cases e <;> cases hd
    · cases r1 with
      | ok d' => cases hes
      | error e =>
        cases e with
        | composite es' =>
          simp only [outOf, Outcome.rejected.injEq, and_true] at hes
          subst hes
          rw [hb2 es' rfl]; rfl
        | single e' => simp [outOf] at hes
        | crash w => cases hes
        | fuel => cases hes
  · rw [e2] at hcap
    exact absurd hcap (by simp only; omega)

/-- **An unexpected line is skipped**, generic in the dialect table and the transition table. -/
theorem unexpected_line_parseWith2 {D : List Dialect} {T : Table}
    (hQD : Spec.queueDialectFacts D = true) (hQT : Spec.queueFacts T = true)
    (hCB : Spec.commentBlankTested T = true)
    (hG : (T.rows.all fun r => r.branches.all fun b => b.guard.isNone || b.kind == .TagLine) = true)
    {u : Str} (μ : MState) (ids : Nat) {src src' : Str} (pre post : List Str)
    (h1 : splitLines src = pre ++ post) (h2 : splitLines src' = pre ++ u :: post)
    (hμ : (μ.reset D).dialect ∈ D) (hpk : NoPeek D T false μ ids src' pre) {s : Nat} {cr : Ctx}
    (hrun : runAfter D T false μ ids src' pre.length = some (s, cr))
    (hun : lineUnexpectedAt D T s cr.μ u = true)
    (hcap : (parseWith D T false μ ids src').2.errors.length ≤ T.errorCap) :
    CtxObsU pre.length cr.errors.length cr.unexpected.length (skippedError T s pre.length u)
      (parseWith D T false μ ids src).2 (parseWith D T false μ ids src').2 ∧
    (∀ d, (parseWith D T false μ ids src).1 = .ok d →
      (parseWith D T false μ ids src').1 = .rejected [skippedError T s pre.length u] true) ∧
    (∀ es, (parseWith D T false μ ids src).1 = .rejected es true →
      (parseWith D T false μ ids src').1 =
        .rejected (insertErr pre.length cr.errors.length (skippedError T s pre.length u) es) true) := by
  have q1 := queue_refines_peek D T hQD hQT hCB false μ ids src hμ
  have q2 := queue_refines_peek D T hQD hQT hCB false μ ids src' hμ
  have o1 := congrArg Spec.Observed.outcome q1
  have o2 := congrArg Spec.Observed.outcome q2
  have e1 := congrArg Spec.Observed.errors q1
  have e2 := congrArg Spec.Observed.errors q2
  have m1 := congrArg Spec.Observed.μ q1
  have m2 := congrArg Spec.Observed.μ q2
  have i1 := congrArg Spec.Observed.ids q1
  have i2 := congrArg Spec.Observed.ids q2
  have u1 := congrArg Spec.Observed.unexpected q1
  have u2 := congrArg Spec.Observed.unexpected q2
  have b1 := congrArg Spec.Observed.builds q1
  have b2 := congrArg Spec.Observed.builds q2
  simp only [Spec.observe] at o1 o2 e1 e2 m1 m2 i1 i2 u1 u2 b1 b2
  rw [e2] at hcap
  obtain ⟨hc, ha, hr⟩ := parseWithPure_unexpected2 (TableOkU.of_facts (QF.of_facts hQD hQT) hG) μ ids pre post
    h1 h2 hμ hpk hrun hun hcap
  refine ⟨⟨?_, ?_, ?_, ?_, ?_⟩, fun d hd => ?_, fun es hes => ?_⟩
  · rw [e1, e2]; exact hc.errors
  · rw [m1, m2]; exact hc.μ
  · rw [i1, i2]; exact hc.ids
  · rw [u1, u2]; exact hc.unexpected
  · rw [b1, b2]; exact hc.builds
  · rw [o2]; exact ha d (by rw [← o1]; exact hd)
  · rw [o2]; exact hr es (by rw [← o1]; exact hes)


end Recover2
end GV
