/-
  Lemmas/Layout.lean — helper lemmas for property C16 (layout is meaning-neutral).

  Part 1: string primitives under appended / prepended whitespace.
  Part 2: line observations (`trimmed`, `restTrimmed`, `tableCells`, `lineTags`, …).
  Part 3: the matcher, line by line (`SameMatch`, `ShiftMatch`).
  Part 4: physical lines (`splitLines`).
  Part 5: kind level (`runAbs`) — blank lines and comments.
-/
import GherkinVerif.Model.Abstract
import GherkinVerif.Spec.LayoutFacts
namespace GV.Lemmas

/-! ## Part 1 — string primitives -/

/-- every code point is whitespace (`str.isspace()` or empty) -/
def AllSpace (w : Str) : Prop := ∀ c ∈ w, isSpace c = true

/-- every code point is a carriage return or a line feed -/
def AllEol (w : Str) : Prop := ∀ c ∈ w, c = 13 ∨ c = 10

theorem AllSpace.nil : AllSpace [] := by intro c h; cases h

theorem AllSpace.of_cons {c : Nat} {w : Str} (h : AllSpace (c :: w)) : isSpace c = true ∧ AllSpace w :=
  ⟨h c (by simp), fun d hd => h d (by simp [hd])⟩

theorem AllSpace.cons {c : Nat} {w : Str} (hc : isSpace c = true) (h : AllSpace w) : AllSpace (c :: w) := by
  intro d hd
  rcases List.mem_cons.1 hd with rfl | hd
  · exact hc
  · exact h d hd

theorem AllSpace.append {a b : Str} (ha : AllSpace a) (hb : AllSpace b) : AllSpace (a ++ b) := by
  intro c hc
  rcases List.mem_append.1 hc with h | h
  · exact ha c h
  · exact hb c h

theorem AllSpace.drop {a : Str} (ha : AllSpace a) (n : Nat) : AllSpace (a.drop n) :=
  fun c hc => ha c (List.mem_of_mem_drop hc)

theorem AllEol.allSpace {w : Str} (h : AllEol w) : AllSpace w := by
  intro c hc
  rcases h c hc with rfl | rfl <;> decide

theorem allEol_crlf : AllEol [13, 10] := by intro c hc; simp at hc; omega
theorem allEol_lf : AllEol [10] := by intro c hc; simp at hc; omega
theorem allEol_nil : AllEol [] := by intro c hc; cases hc

theorem AllEol.append {a b : Str} (ha : AllEol a) (hb : AllEol b) : AllEol (a ++ b) := by
  intro c hc
  rcases List.mem_append.1 hc with h | h
  · exact ha c h
  · exact hb c h

theorem AllEol.drop {a : Str} (ha : AllEol a) (n : Nat) : AllEol (a.drop n) :=
  fun c hc => ha c (List.mem_of_mem_drop hc)

/-! ### `lstrip`, `indentOf` -/

theorem lstrip_allSpace {w : Str} (h : AllSpace w) : lstrip w = [] := by
  induction w with
  | nil => rfl
  | cons c w ih => simp [lstrip, h.of_cons.1, ih h.of_cons.2]

theorem allSpace_of_lstrip_nil {s : Str} (h : lstrip s = []) : AllSpace s := by
  induction s with
  | nil => exact AllSpace.nil
  | cons c s ih =>
    unfold lstrip at h
    by_cases hc : isSpace c = true
    · rw [if_pos hc] at h; exact AllSpace.cons hc (ih h)
    · rw [if_neg hc] at h; cases h

theorem lstrip_append_left {ws : Str} (h : AllSpace ws) (s : Str) : lstrip (ws ++ s) = lstrip s := by
  induction ws with
  | nil => rfl
  | cons c w ih => simp [lstrip, h.of_cons.1, ih h.of_cons.2]

theorem indentOf_append_left {ws : Str} (h : AllSpace ws) (s : Str) :
    indentOf (ws ++ s) = ws.length + indentOf s := by
  induction ws with
  | nil => simp
  | cons c w ih => simp [indentOf, h.of_cons.1, ih h.of_cons.2]; omega

theorem lstrip_append_right {s : Str} (h : lstrip s ≠ []) (w : Str) : lstrip (s ++ w) = lstrip s ++ w := by
  induction s with
  | nil => exact absurd rfl h
  | cons c s ih =>
    simp only [List.cons_append, lstrip] at h ⊢
    by_cases hc : isSpace c = true
    · simp only [hc, ↓reduceIte] at h ⊢; exact ih h
    · simp only [hc]; rfl

theorem lstrip_append_nil {s w : Str} (h : lstrip s = []) (hw : AllSpace w) : lstrip (s ++ w) = [] :=
  lstrip_allSpace ((allSpace_of_lstrip_nil h).append hw)

theorem indentOf_append_right {s : Str} (h : lstrip s ≠ []) (w : Str) : indentOf (s ++ w) = indentOf s := by
  induction s with
  | nil => exact absurd rfl h
  | cons c s ih =>
    simp only [List.cons_append, lstrip, indentOf] at h ⊢
    by_cases hc : isSpace c = true
    · simp only [hc, ↓reduceIte] at h ⊢; rw [ih h]
    · simp only [hc]; rfl

theorem lstrip_head_not_space {s r : Str} {c : Nat} (h : lstrip s = c :: r) : isSpace c = false := by
  induction s with
  | nil => cases h
  | cons d s ih =>
    unfold lstrip at h
    by_cases hd : isSpace d = true
    · rw [if_pos hd] at h; exact ih h
    · rw [if_neg hd] at h; cases h; simpa using hd

theorem indentOf_le_length (s : Str) : indentOf s ≤ s.length := by
  induction s with
  | nil => simp [indentOf]
  | cons c s ih => simp only [indentOf, List.length_cons]; split <;> omega

theorem drop_indentOf (s : Str) : s.drop (indentOf s) = lstrip s := by
  induction s with
  | nil => rfl
  | cons c s ih =>
    simp only [indentOf, lstrip]
    by_cases hc : isSpace c = true
    · rw [if_pos hc, if_pos hc]; simpa using ih
    · rw [if_neg hc, if_neg hc]; rfl

theorem indentOf_allSpace {w : Str} (h : AllSpace w) : indentOf w = w.length := by
  have := indentOf_append_left h []
  simpa [indentOf] using this

/-! ### `dropWhileEnd`, `rstrip`, `strip`, `rstripCRLF` -/

theorem dropWhileEnd_all {p : Nat → Bool} {w : Str} (h : ∀ c ∈ w, p c = true) : dropWhileEnd p w = [] := by
  induction w with
  | nil => rfl
  | cons c w ih =>
    have h1 := ih (fun d hd => h d (by simp [hd]))
    simp [dropWhileEnd, h1, h c (by simp)]

theorem dropWhileEnd_append_all {p : Nat → Bool} (s : Str) {w : Str} (h : ∀ c ∈ w, p c = true) :
    dropWhileEnd p (s ++ w) = dropWhileEnd p s := by
  induction s with
  | nil => simpa [dropWhileEnd] using dropWhileEnd_all h
  | cons c s ih => simp only [List.cons_append, dropWhileEnd, ih]

theorem rstrip_append_allSpace (s : Str) {w : Str} (h : AllSpace w) : rstrip (s ++ w) = rstrip s :=
  dropWhileEnd_append_all s h

theorem strip_append_allSpace (s : Str) {w : Str} (h : AllSpace w) : strip (s ++ w) = strip s := by
  unfold strip
  by_cases hs : lstrip s = []
  · rw [lstrip_append_nil hs h, hs]
  · rw [lstrip_append_right hs, rstrip_append_allSpace _ h]

theorem strip_allSpace {w : Str} (h : AllSpace w) : strip w = [] := by
  simpa [strip, lstrip, rstrip, dropWhileEnd] using strip_append_allSpace [] h

theorem strip_append_left {ws : Str} (h : AllSpace ws) (s : Str) : strip (ws ++ s) = strip s := by
  unfold strip; rw [lstrip_append_left h]

theorem rstripCRLF_append_allEol (s : Str) {w : Str} (h : AllEol w) : rstripCRLF (s ++ w) = rstripCRLF s :=
  dropWhileEnd_append_all s (by intro c hc; rcases h c hc with rfl | rfl <;> rfl)

theorem rstripCRLF_allEol {w : Str} (h : AllEol w) : rstripCRLF w = [] := by
  simpa [rstripCRLF, dropWhileEnd] using rstripCRLF_append_allEol [] h

/-! ### `startsWith` -/

theorem startsWith_prefix {p a : Str} (h : startsWith p a = true) : ∃ r, a = p ++ r := by
  induction p generalizing a with
  | nil => exact ⟨a, rfl⟩
  | cons c p ih =>
    cases a with
    | nil => simp [startsWith] at h
    | cons d a =>
      simp only [startsWith, Bool.and_eq_true, beq_iff_eq] at h
      obtain ⟨r, hr⟩ := ih h.2
      exact ⟨r, by rw [h.1, hr]; rfl⟩

theorem startsWith_length_le {p a : Str} (h : startsWith p a = true) : p.length ≤ a.length := by
  obtain ⟨r, rfl⟩ := startsWith_prefix h
  simp

theorem startsWith_self_append (p r : Str) : startsWith p (p ++ r) = true := by
  induction p with
  | nil => rfl
  | cons c p ih => simp [startsWith, ih]

/-- A tail `a` appended to `x` is invisible to `startswith(p)` unless `p` is `x` followed by a
    non-empty prefix of `a`. -/
theorem startsWith_append_tail {p x a : Str}
    (h : ∀ w, w ≠ [] → w <+: a → p ≠ x ++ w) : startsWith p (x ++ a) = startsWith p x := by
  induction p generalizing x with
  | nil => cases x <;> cases a <;> rfl
  | cons c p ih =>
    cases x with
    | nil =>
      simp only [List.nil_append, startsWith]
      cases hs : startsWith (c :: p) a with
      | false => rfl
      | true =>
        obtain ⟨r, hr⟩ := startsWith_prefix hs
        exact absurd rfl (h (c :: p) (by simp) ⟨r, hr.symm⟩)
    | cons d x =>
      simp only [List.cons_append, startsWith]
      by_cases hcd : c = d
      · subst hcd
        rw [ih (x := x)]
        intro w hw hp he
        exact h w hw hp (by rw [he]; rfl)
      · have hf : (c == d) = false := by simpa using hcd
        rw [hf]; rfl

/-- the last code point of `p`, if any, is not whitespace -/
def NoTrailWs (p : Str) : Prop := ∀ c, p.getLast? = some c → isSpace c = false

theorem startsWith_append_allSpace {p x w : Str} (hp : NoTrailWs p) (hw : AllSpace w) :
    startsWith p (x ++ w) = startsWith p x := by
  apply startsWith_append_tail
  intro v hv hpre he
  obtain ⟨r, rfl⟩ := hpre
  rcases List.eq_nil_or_concat v with rfl | ⟨v', b, rfl⟩
  · exact hv rfl
  · have hb : isSpace b = true := hw b (by simp)
    have : p.getLast? = some b := by
      rw [he, List.concat_eq_append, ← List.append_assoc, List.getLast?_concat]
    rw [hp b this] at hb; cases hb

theorem noTrailWs_append_singleton (p : Str) {c : Nat} (hc : isSpace c = false) : NoTrailWs (p ++ [c]) := by
  intro d hd
  rw [List.getLast?_concat] at hd
  cases hd; exact hc

theorem find?_congr' {α} {p q : α → Bool} {l : List α} (h : ∀ x ∈ l, p x = q x) :
    l.find? p = l.find? q := by
  induction l with
  | nil => rfl
  | cons a l ih =>
    simp only [List.find?, h a (by simp), ih (fun x hx => h x (by simp [hx]))]

/-! ### `takeWhile` / `dropWhile` under a tail none of whose members satisfies the predicate -/

theorem takeWhile_append_tail {p : Nat → Bool} (a : Str) {w : Str} (h : ∀ c ∈ w, p c = false) :
    (a ++ w).takeWhile p = a.takeWhile p := by
  induction a with
  | nil =>
    cases w with
    | nil => rfl
    | cons c w => simp [List.takeWhile, h c (by simp)]
  | cons c a ih => simp only [List.cons_append, List.takeWhile, ih]

theorem dropWhile_append_tail {p : Nat → Bool} (a : Str) {w : Str} (h : ∀ c ∈ w, p c = false) :
    (a ++ w).dropWhile p = a.dropWhile p ++ w := by
  induction a with
  | nil =>
    cases w with
    | nil => rfl
    | cons c w => simp [List.dropWhile, h c (by simp)]
  | cons c a ih =>
    simp only [List.cons_append, List.dropWhile, ih]
    split <;> rfl

/-! ## Part 2 — line observations -/

/-! ### whitespace appended at the end of a line -/

theorem stripTrimmed_tail (s : Str) {w : Str} (hw : AllSpace w) :
    strip (trimmed (s ++ w)) = strip (trimmed s) := by
  unfold trimmed
  by_cases hs : lstrip s = []
  · rw [lstrip_append_nil hs hw, hs]
  · rw [lstrip_append_right hs, strip_append_allSpace _ hw]

theorem restTrimmed_tail (s : Str) {w : Str} (hw : AllSpace w) (n : Nat) :
    restTrimmed (s ++ w) n = restTrimmed s n := by
  unfold restTrimmed trimmed
  by_cases hs : lstrip s = []
  · rw [lstrip_append_nil hs hw, hs]
  · rw [lstrip_append_right hs, List.drop_append, strip_append_allSpace _ (hw.drop _)]

theorem lineIndent_tail {s : Str} (hs : lstrip s ≠ []) (w : Str) : lineIndent (s ++ w) = lineIndent s :=
  indentOf_append_right hs w

theorem lineStartsWith_tail {s w p : Str} (hw : AllSpace w)
    (hp : ∀ v, v ≠ [] → v <+: w → p ≠ lstrip s ++ v) :
    lineStartsWith (s ++ w) p = lineStartsWith s p := by
  unfold lineStartsWith trimmed
  by_cases hs : lstrip s = []
  · rw [lstrip_append_nil hs hw, hs]
  · rw [lstrip_append_right hs, startsWith_append_tail hp]

theorem lineStartsWith_tail_noTrail {s w p : Str} (hw : AllSpace w) (hp : NoTrailWs p) :
    lineStartsWith (s ++ w) p = lineStartsWith s p := by
  unfold lineStartsWith trimmed
  by_cases hs : lstrip s = []
  · rw [lstrip_append_nil hs hw, hs]
  · rw [lstrip_append_right hs, startsWith_append_allSpace hp hw]

theorem lineStartsWithTitle_tail (s : Str) {w : Str} (hw : AllSpace w) (kw : Str) :
    lineStartsWithTitle (s ++ w) kw = lineStartsWithTitle s kw :=
  lineStartsWith_tail_noTrail (p := kw ++ [58]) hw (noTrailWs_append_singleton kw (by decide))

theorem lineIsEmpty_tail (s : Str) {w : Str} (hw : AllSpace w) : lineIsEmpty (s ++ w) = lineIsEmpty s := by
  unfold lineIsEmpty trimmed
  by_cases hs : lstrip s = []
  · rw [lstrip_append_nil hs hw, hs]
  · rw [lstrip_append_right hs]
    cases h : lstrip s with
    | nil => exact absurd h hs
    | cons c r => rfl

theorem tableCells_tail {s : Str} (hs : lstrip s ≠ []) {w : Str} (hw : AllSpace w) :
    tableCells (s ++ w) = tableCells s := by
  unfold tableCells
  rw [stripTrimmed_tail s hw, lineIndent_tail hs]

theorem lineTags_tail {s : Str} (hs : lstrip s ≠ []) {w : Str} (hw : AllSpace w) :
    lineTags (s ++ w) = lineTags s := by
  unfold lineTags
  rw [stripTrimmed_tail s hw, lineIndent_tail hs]

theorem noTrailWs_language : NoTrailWs (lit "language") := by
  intro c hc
  have : (lit "language").getLast? = some 101 := by decide
  rw [this] at hc; cases hc; decide

theorem isLangChar_not_space {c : Nat} (h : isSpace c = true) : isLangChar c = false := by
  unfold isSpace at h
  unfold isLangChar
  simp only [Bool.or_eq_true, Bool.and_eq_true, decide_eq_true_eq, beq_iff_eq] at h
  simp only [Bool.or_eq_false_iff, Bool.and_eq_false_iff, decide_eq_false_iff_not, beq_eq_false_iff_ne]
  omega

theorem lstrip_isEmpty_tail (d : Str) {w : Str} (hw : AllSpace w) :
    (lstrip (d ++ w)).isEmpty = (lstrip d).isEmpty := by
  by_cases hs : lstrip d = []
  · rw [lstrip_append_nil hs hw, hs]
  · rw [lstrip_append_right hs]
    cases h : lstrip d with
    | nil => exact absurd h hs
    | cons c r => rfl

/-- the tail of `LANGUAGE_RE` after the colon: `\s*([a-zA-Z\-_]+)\s*$` -/
def langName (s3 : Str) : Option Str :=
  let s4 := lstrip s3
  let name := s4.takeWhile isLangChar
  if name.isEmpty then none
  else if (lstrip (s4.dropWhile isLangChar)).isEmpty then some name else none

theorem langName_tail (s3 : Str) {w : Str} (hw : AllSpace w) : langName (s3 ++ w) = langName s3 := by
  unfold langName
  have hl : ∀ c ∈ w, isLangChar c = false := fun c hc => isLangChar_not_space (hw c hc)
  by_cases hs : lstrip s3 = []
  · rw [lstrip_append_nil hs hw, hs]
  · rw [lstrip_append_right hs]
    simp only [takeWhile_append_tail _ hl, dropWhile_append_tail _ hl, lstrip_isEmpty_tail _ hw]

/-- `LANGUAGE_RE` after `#\s*`: `language\s*:` then `langName` -/
def langKw (s2 : Str) : Option Str :=
  if startsWith (lit "language") s2 then
    match lstrip (s2.drop 8) with
    | 58 :: s3 => langName s3
    | _ => none
  else none

theorem langKw_tail (s2 : Str) {w : Str} (hw : AllSpace w) : langKw (s2 ++ w) = langKw s2 := by
  unfold langKw
  rw [startsWith_append_allSpace noTrailWs_language hw]
  by_cases hsw : startsWith (lit "language") s2 = true
  · have hlen : 8 ≤ s2.length := startsWith_length_le hsw
    simp only [hsw, ↓reduceIte]
    rw [List.drop_append_of_le_length hlen]
    by_cases hs : lstrip (s2.drop 8) = []
    · rw [lstrip_append_nil hs hw, hs]
    · rw [lstrip_append_right hs]
      cases h : lstrip (s2.drop 8) with
      | nil => exact absurd h hs
      | cons c r =>
        by_cases hc : c = 58
        · subst hc; exact langName_tail r hw
        · simp only [List.cons_append]
          split
          · rename_i heq; cases heq; exact absurd rfl hc
          · split
            · rename_i heq; cases heq; exact absurd rfl hc
            · rfl
  · simp only [hsw]; rfl

theorem languageRe_eq (s : Str) :
    languageRe s = match lstrip s with
      | 35 :: s1 => langKw (lstrip s1)
      | _ => none := rfl

theorem languageRe_tail (s : Str) {w : Str} (hw : AllSpace w) : languageRe (s ++ w) = languageRe s := by
  rw [languageRe_eq, languageRe_eq]
  by_cases hs : lstrip s = []
  · rw [lstrip_append_nil hs hw, hs]
  · rw [lstrip_append_right hs]
    cases h : lstrip s with
    | nil => exact absurd h hs
    | cons c r =>
      by_cases hc : c = 35
      · subst hc
        show langKw (lstrip (r ++ w)) = langKw (lstrip r)
        by_cases hr : lstrip r = []
        · rw [lstrip_append_nil hr hw, hr]
        · rw [lstrip_append_right hr, langKw_tail _ hw]
      · simp only [List.cons_append]
        split
        · rename_i heq; cases heq; exact absurd rfl hc
        · split
          · rename_i heq; cases heq; exact absurd rfl hc
          · rfl

/-! ### whitespace prepended to a line -/

theorem trimmed_indent {ws : Str} (h : AllSpace ws) (s : Str) : trimmed (ws ++ s) = trimmed s :=
  lstrip_append_left h s

theorem lineIndent_indent {ws : Str} (h : AllSpace ws) (s : Str) :
    lineIndent (ws ++ s) = lineIndent s + ws.length := by
  unfold lineIndent; rw [indentOf_append_left h]; omega

theorem restTrimmed_indent {ws : Str} (h : AllSpace ws) (s : Str) (n : Nat) :
    restTrimmed (ws ++ s) n = restTrimmed s n := by
  unfold restTrimmed; rw [trimmed_indent h]

theorem lineStartsWith_indent {ws : Str} (h : AllSpace ws) (s p : Str) :
    lineStartsWith (ws ++ s) p = lineStartsWith s p := by
  unfold lineStartsWith; rw [trimmed_indent h]

theorem lineStartsWithTitle_indent {ws : Str} (h : AllSpace ws) (s kw : Str) :
    lineStartsWithTitle (ws ++ s) kw = lineStartsWithTitle s kw := by
  unfold lineStartsWithTitle; rw [trimmed_indent h]

/-- every item column grows by `n` -/
def shiftItems (n : Nat) (xs : List (Nat × Str)) : List (Nat × Str) := xs.map fun x => (x.1 + n, x.2)

/-- result of `tags` with every column (of a tag, or of the error) grown by `n` -/
def shiftTags (n : Nat) : Except Nat (List (Nat × Str)) → Except Nat (List (Nat × Str))
  | .error c => .error (c + n)
  | .ok ts => .ok (shiftItems n ts)

theorem tableCells_indent {ws : Str} (h : AllSpace ws) (s : Str) :
    tableCells (ws ++ s) = shiftItems ws.length (tableCells s) := by
  unfold tableCells shiftItems
  rw [trimmed_indent h, lineIndent_indent h, List.map_map]
  apply List.map_congr_left
  intro x _
  simp only [Function.comp, Prod.mk.injEq, and_true]
  omega

theorem tagItems_shift (items : List Str) (col n : Nat) :
    tagItems items (col + n) = shiftTags n (tagItems items col) := by
  induction items generalizing col with
  | nil => rfl
  | cons item rest ih =>
    simp only [tagItems]
    split
    · rfl
    · have e : col + n + item.length + 1 = (col + item.length + 1) + n := by omega
      rw [e, ih]
      cases tagItems rest (col + item.length + 1) <;> rfl

theorem lineTags_indent {ws : Str} (h : AllSpace ws) (s : Str) :
    lineTags (ws ++ s) = shiftTags ws.length (lineTags s) := by
  unfold lineTags
  rw [trimmed_indent h, lineIndent_indent h]
  have e : lineIndent s + ws.length + 1 = (lineIndent s + 1) + ws.length := by omega
  simp only [e, tagItems_shift]

/-! ## Part 3 — the matcher, line by line -/

/-- the token the scanner makes of physical line `l` (all other fields as in `t`) -/
def withLine (t : Token) (l : Str) : Token := { t with line := some l }

/-- two tokens agree on everything but the physical line they carry -/
def TokSame (a b : Token) : Prop :=
  a.lineNo = b.lineNo ∧ a.col = b.col ∧ a.mtype = b.mtype ∧ a.text = b.text ∧ a.keyword = b.keyword ∧
  a.ktype = b.ktype ∧ a.indent = b.indent ∧ a.items = b.items ∧ a.dialect = b.dialect

/-- two matcher outputs agree on the verdict (including a raised error), the matcher state and
    every token field except the physical line -/
def SameMatch (a b : MOut) : Prop := a.res = b.res ∧ a.μ = b.μ ∧ TokSame a.tok b.tok

theorem TokSame.refl (a : Token) : TokSame a a := ⟨rfl, rfl, rfl, rfl, rfl, rfl, rfl, rfl, rfl⟩
theorem TokSame.symm {a b : Token} (h : TokSame a b) : TokSame b a := by
  obtain ⟨h1, h2, h3, h4, h5, h6, h7, h8, h9⟩ := h
  exact ⟨h1.symm, h2.symm, h3.symm, h4.symm, h5.symm, h6.symm, h7.symm, h8.symm, h9.symm⟩
theorem TokSame.trans {a b c : Token} (h : TokSame a b) (g : TokSame b c) : TokSame a c := by
  obtain ⟨h1, h2, h3, h4, h5, h6, h7, h8, h9⟩ := h
  obtain ⟨g1, g2, g3, g4, g5, g6, g7, g8, g9⟩ := g
  exact ⟨h1.trans g1, h2.trans g2, h3.trans g3, h4.trans g4, h5.trans g5, h6.trans g6, h7.trans g7,
    h8.trans g8, h9.trans g9⟩

theorem SameMatch.refl (a : MOut) : SameMatch a a := ⟨rfl, rfl, TokSame.refl _⟩
theorem SameMatch.symm {a b : MOut} (h : SameMatch a b) : SameMatch b a :=
  ⟨h.1.symm, h.2.1.symm, h.2.2.symm⟩
theorem SameMatch.trans {a b c : MOut} (h : SameMatch a b) (g : SameMatch b c) : SameMatch a c :=
  ⟨h.1.trans g.1, h.2.1.trans g.2.1, h.2.2.trans g.2.2⟩

theorem tokSame_withLine (t : Token) (l1 l2 : Str) : TokSame (withLine t l1) (withLine t l2) :=
  ⟨rfl, rfl, rfl, rfl, rfl, rfl, rfl, rfl, rfl⟩

/-- the prefixes `match_<k>` may test the trimmed line against, other than title keywords -/
def Pfx (k : Kind) (μ : MState) (p : Str) : Prop :=
  (k = .TableRow ∧ p = [124]) ∨ (k = .TagLine ∧ p = [64]) ∨
  (k = .DocStringSeparator ∧ (p = dq3 ∨ p = bt3 ∨ μ.activeSep = some p)) ∨
  (k = .StepLine ∧ p ∈ μ.dialect.stepKeywords)

/-- If two lines agree on every observation `match_<k>` makes of a line, the match results
    agree (all kinds except `Comment` and `Other`, whose text is the line itself). -/
theorem matchLine_congr (D : List Dialect) (k : Kind) (μ : MState) (t : Token) (l1 l2 : Str)
    (hk : k ≠ .Comment ∧ k ≠ .Other)
    (hT : ∀ kw, lineStartsWithTitle l2 kw = lineStartsWithTitle l1 kw)
    (hS : ∀ p, Pfx k μ p → lineStartsWith l2 p = lineStartsWith l1 p)
    (hR : ∀ n, restTrimmed l2 n = restTrimmed l1 n)
    (hC : tableCells l2 = tableCells l1) (hG : lineTags l2 = lineTags l1)
    (hE : lineIsEmpty l2 = lineIsEmpty l1)
    (hL : languageRe (lineText l2 none) = languageRe (lineText l1 none))
    (hI : lineIndent l2 = lineIndent l1) :
    SameMatch (matchLine D k μ (withLine t l1) l1) (matchLine D k μ (withLine t l2) l2) := by
  have hno : SameMatch ⟨withLine t l1, μ, .no⟩ ⟨withLine t l2, μ, .no⟩ := ⟨rfl, rfl, tokSame_withLine t l1 l2⟩
  have title : ∀ ty kws, (matchTitle μ (withLine t l1) l1 ty kws = none ∧ matchTitle μ (withLine t l2) l2 ty kws = none) ∨
      ∃ a b, matchTitle μ (withLine t l1) l1 ty kws = some a ∧ matchTitle μ (withLine t l2) l2 ty kws = some b ∧
        TokSame a b := by
    intro ty kws
    unfold matchTitle
    simp only [hT, hR]
    cases kws.find? (fun k => lineStartsWithTitle l1 k) with
    | none => exact Or.inl ⟨rfl, rfl⟩
    | some kw =>
      refine Or.inr ⟨_, _, rfl, rfl, ?_⟩
      simp [TokSame, setMatched, withLine, hI]
  have docsep : k = .DocStringSeparator → ∀ sep isOpen, (sep = dq3 ∨ sep = bt3 ∨ μ.activeSep = some sep) →
      (matchDocSep μ (withLine t l1) l1 sep isOpen = none ∧ matchDocSep μ (withLine t l2) l2 sep isOpen = none) ∨
      ∃ a b ν, matchDocSep μ (withLine t l1) l1 sep isOpen = some (a, ν) ∧
        matchDocSep μ (withLine t l2) l2 sep isOpen = some (b, ν) ∧ TokSame a b := by
    intro hkd sep isOpen hp
    unfold matchDocSep
    simp only [hS sep (Or.inr (Or.inr (Or.inl ⟨hkd, hp⟩))), hR, hI]
    cases lineStartsWith l1 sep with
    | false => exact Or.inl ⟨rfl, rfl⟩
    | true =>
      cases isOpen with
      | true =>
        refine Or.inr ⟨_, _, _, rfl, rfl, ?_⟩
        simp [TokSame, setMatched, withLine, hI]
      | false =>
        refine Or.inr ⟨_, _, _, rfl, rfl, ?_⟩
        simp [TokSame, setMatched, withLine, hI]
  have opening : k = .DocStringSeparator → SameMatch
      (match (matchDocSep μ (withLine t l1) l1 dq3 true).orElse fun _ => matchDocSep μ (withLine t l1) l1 bt3 true with
        | some (t', μ') => (⟨t', μ', .matched⟩ : MOut)
        | none => ⟨withLine t l1, μ, .no⟩)
      (match (matchDocSep μ (withLine t l2) l2 dq3 true).orElse fun _ => matchDocSep μ (withLine t l2) l2 bt3 true with
        | some (t', μ') => (⟨t', μ', .matched⟩ : MOut)
        | none => ⟨withLine t l2, μ, .no⟩) := by
    intro hkd
    rcases docsep hkd dq3 true (Or.inl rfl) with ⟨e1, e2⟩ | ⟨a, b, ν, e1, e2, hab⟩
    · rw [e1, e2]
      rcases docsep hkd bt3 true (Or.inr (Or.inl rfl)) with ⟨f1, f2⟩ | ⟨a, b, ν, f1, f2, hab⟩
      · simp only [Option.orElse, f1, f2]; exact hno
      · simp only [Option.orElse, f1, f2]; exact ⟨rfl, rfl, hab⟩
    · rw [e1, e2]; exact ⟨rfl, rfl, hab⟩
  cases k with
  | EOF => exact hno
  | Comment => exact absurd rfl hk.1
  | Other => exact absurd rfl hk.2
  | FeatureLine =>
    simp only [matchLine]
    rcases title .FeatureLine μ.dialect.feature with ⟨e1, e2⟩ | ⟨a, b, e1, e2, hab⟩
    · rw [e1, e2]; exact hno
    · rw [e1, e2]; exact ⟨rfl, rfl, hab⟩
  | RuleLine =>
    simp only [matchLine]
    rcases title .RuleLine μ.dialect.rule with ⟨e1, e2⟩ | ⟨a, b, e1, e2, hab⟩
    · rw [e1, e2]; exact hno
    · rw [e1, e2]; exact ⟨rfl, rfl, hab⟩
  | BackgroundLine =>
    simp only [matchLine]
    rcases title .BackgroundLine μ.dialect.background with ⟨e1, e2⟩ | ⟨a, b, e1, e2, hab⟩
    · rw [e1, e2]; exact hno
    · rw [e1, e2]; exact ⟨rfl, rfl, hab⟩
  | ExamplesLine =>
    simp only [matchLine]
    rcases title .ExamplesLine μ.dialect.examples with ⟨e1, e2⟩ | ⟨a, b, e1, e2, hab⟩
    · rw [e1, e2]; exact hno
    · rw [e1, e2]; exact ⟨rfl, rfl, hab⟩
  | ScenarioLine =>
    simp only [matchLine]
    rcases title .ScenarioLine μ.dialect.scenario with ⟨e1, e2⟩ | ⟨a, b, e1, e2, hab⟩
    · rw [e1, e2]
      rcases title .ScenarioLine μ.dialect.scenarioOutline with ⟨f1, f2⟩ | ⟨a, b, f1, f2, hab⟩
      · rw [f1, f2]; exact hno
      · rw [f1, f2]; exact ⟨rfl, rfl, hab⟩
    · rw [e1, e2]; exact ⟨rfl, rfl, hab⟩
  | TableRow =>
    simp only [matchLine, hS [124] (Or.inl ⟨rfl, rfl⟩), hC]
    cases lineStartsWith l1 [124] with
    | false => exact hno
    | true => simp [SameMatch, TokSame, setMatched, withLine, hI]
  | StepLine =>
    simp only [matchLine]
    have hf : μ.dialect.stepKeywords.find? (fun kw => lineStartsWith l2 kw) =
        μ.dialect.stepKeywords.find? (fun kw => lineStartsWith l1 kw) :=
      find?_congr' fun kw hkw => hS kw (Or.inr (Or.inr (Or.inr ⟨rfl, hkw⟩)))
    rw [hf]
    cases μ.dialect.stepKeywords.find? (fun kw => lineStartsWith l1 kw) with
    | none => exact hno
    | some kw => simp [SameMatch, TokSame, setMatched, withLine, hI, hR]
  | Empty =>
    simp only [matchLine, hE]
    cases lineIsEmpty l1 with
    | false => exact hno
    | true => simp [SameMatch, TokSame, setMatched, withLine]
  | Language =>
    simp only [matchLine, hL]
    cases languageRe (lineText l1 none) with
    | none => exact hno
    | some name =>
      simp only []
      cases findDialect D name with
      | none => simp [SameMatch, TokSame, setMatched, withLine, hI, Token.loc]
      | some d => simp [SameMatch, TokSame, setMatched, withLine, hI]
  | TagLine =>
    simp only [matchLine, hS [64] (Or.inr (Or.inl ⟨rfl, rfl⟩)), hG]
    cases lineStartsWith l1 [64] with
    | false => exact hno
    | true =>
      cases lineTags l1 with
      | error c => simp [SameMatch, TokSame, withLine]
      | ok items => simp [SameMatch, TokSame, setMatched, withLine, hI]
  | DocStringSeparator =>
    simp only [matchLine]
    cases hsep : μ.activeSep with
    | none => exact opening rfl
    | some sep =>
      simp only []
      cases sep.isEmpty with
      | true => exact opening rfl
      | false =>
        simp only [Bool.false_eq_true, ↓reduceIte]
        rcases docsep rfl sep false (Or.inr (Or.inr hsep)) with ⟨e1, e2⟩ | ⟨a, b, ν, e1, e2, hab⟩
        · rw [e1, e2]; exact hno
        · rw [e1, e2]; exact ⟨rfl, rfl, hab⟩

/-! ### whitespace-only lines -/

theorem startsWith_nil_of_ne {p : Str} (h : p ≠ []) : startsWith p [] = false := by
  cases p with
  | nil => exact absurd rfl h
  | cons c p => rfl

theorem lineStartsWith_blank {l p : Str} (hl : lstrip l = []) (hp : p ≠ []) : lineStartsWith l p = false := by
  unfold lineStartsWith trimmed; rw [hl]; exact startsWith_nil_of_ne hp

theorem matchTitle_blank (μ : MState) (t : Token) {l : Str} (hl : lstrip l = []) (ty : Kind) (kws : List Str) :
    matchTitle μ t l ty kws = none := by
  unfold matchTitle
  have : kws.find? (fun k => lineStartsWithTitle l k) = none := by
    rw [List.find?_eq_none]
    intro kw _
    have : lineStartsWithTitle l kw = false := lineStartsWith_blank (p := kw ++ [58]) hl (by simp)
    simp [this]
  rw [this]

theorem matchDocSep_blank (μ : MState) (t : Token) {l : Str} (hl : lstrip l = []) {sep : Str} (hs : sep ≠ [])
    (isOpen : Bool) : matchDocSep μ t l sep isOpen = none := by
  unfold matchDocSep; rw [lineStartsWith_blank hl hs]; rfl

/-- A whitespace-only line matches no kind but `Empty` and `Other` (given that the empty string is
    not a step keyword). -/
theorem matchLine_blank_no (D : List Dialect) (k : Kind) (μ : MState) (t : Token) {l : Str}
    (hl : lstrip l = []) (hk : k ≠ .Empty ∧ k ≠ .Other)
    (hstep : k = .StepLine → ∀ kw ∈ μ.dialect.stepKeywords, kw ≠ []) :
    matchLine D k μ t l = ⟨t, μ, .no⟩ := by
  cases k with
  | EOF => rfl
  | Empty => exact absurd rfl hk.1
  | Other => exact absurd rfl hk.2
  | FeatureLine => simp only [matchLine, matchTitle_blank μ t hl]
  | RuleLine => simp only [matchLine, matchTitle_blank μ t hl]
  | BackgroundLine => simp only [matchLine, matchTitle_blank μ t hl]
  | ExamplesLine => simp only [matchLine, matchTitle_blank μ t hl]
  | ScenarioLine => simp only [matchLine, matchTitle_blank μ t hl]
  | TableRow => simp only [matchLine, lineStartsWith_blank hl (p := [124]) (by simp)]; rfl
  | TagLine => simp only [matchLine, lineStartsWith_blank hl (p := [64]) (by simp)]; rfl
  | Comment => simp only [matchLine, lineStartsWith_blank hl (p := [35]) (by simp)]; rfl
  | StepLine =>
    simp only [matchLine]
    have : μ.dialect.stepKeywords.find? (fun kw => lineStartsWith l kw) = none := by
      rw [List.find?_eq_none]
      intro kw hkw
      simp [lineStartsWith_blank hl (hstep rfl kw hkw)]
    rw [this]
  | Language =>
    have : languageRe (lineText l none) = none := by
      simp only [lineText, trimmed, languageRe_eq, hl]
      rfl
    simp only [matchLine, this]
  | DocStringSeparator =>
    simp only [matchLine]
    have hd : matchDocSep μ t l dq3 true = none := matchDocSep_blank μ t hl (by decide) true
    have hb : matchDocSep μ t l bt3 true = none := matchDocSep_blank μ t hl (by decide) true
    cases hsep : μ.activeSep with
    | none => simp only [hd, hb, Option.orElse]
    | some sep =>
      simp only []
      cases he : sep.isEmpty with
      | true => simp only [hd, hb, Option.orElse, ↓reduceIte]
      | false =>
        have : sep ≠ [] := by intro h; rw [h] at he; cases he
        simp only [Bool.false_eq_true, ↓reduceIte, matchDocSep_blank μ t hl this]

theorem matchLine_blank_empty (D : List Dialect) (μ : MState) (t : Token) {l : Str} (hl : lstrip l = []) :
    matchLine D .Empty μ t l = ⟨setMatched μ t .Empty (indent := some 0), μ, .matched⟩ := by
  simp [matchLine, lineIsEmpty, trimmed, hl]

/-- **Whitespace appended at the end of a line** is invisible to `match_<k>` for every kind but
    `Comment` and `Other`.  For `StepLine` no step keyword may be empty or be the trimmed line
    followed by a non-empty part of the appended whitespace; for a closing `DocStringSeparator`
    the same for the active separator. -/
theorem sameMatch_tail (D : List Dialect) (k : Kind) (μ : MState) (t : Token) (s w : Str)
    (hw : AllSpace w) (hk : k ≠ .Comment ∧ k ≠ .Other)
    (hstep : k = .StepLine → ∀ kw ∈ μ.dialect.stepKeywords,
      kw ≠ [] ∧ ∀ v, v ≠ [] → v <+: w → kw ≠ lstrip s ++ v)
    (hsep : k = .DocStringSeparator → ∀ sep, μ.activeSep = some sep →
      ∀ v, v ≠ [] → v <+: w → sep ≠ lstrip s ++ v) :
    SameMatch (matchLine D k μ (withLine t s) s) (matchLine D k μ (withLine t (s ++ w)) (s ++ w)) := by
  by_cases hs : lstrip s = []
  · have hs2 : lstrip (s ++ w) = [] := lstrip_append_nil hs hw
    by_cases hke : k = .Empty
    · subst hke
      rw [matchLine_blank_empty D μ _ hs, matchLine_blank_empty D μ _ hs2]
      simp [SameMatch, TokSame, setMatched, withLine]
    · have hst := fun h kw hkw => (hstep h kw hkw).1
      rw [matchLine_blank_no D k μ _ hs ⟨hke, hk.2⟩ hst, matchLine_blank_no D k μ _ hs2 ⟨hke, hk.2⟩ hst]
      exact ⟨rfl, rfl, tokSame_withLine t s (s ++ w)⟩
  · refine matchLine_congr D k μ t s (s ++ w) hk (lineStartsWithTitle_tail s hw) ?_ (restTrimmed_tail s hw)
      (tableCells_tail hs hw) (lineTags_tail hs hw) (lineIsEmpty_tail s hw) ?_ (lineIndent_tail hs w)
    · intro p hp
      rcases hp with ⟨_, rfl⟩ | ⟨_, rfl⟩ | ⟨hkd, hp⟩ | ⟨hks, hp⟩
      · exact lineStartsWith_tail_noTrail hw (by intro c hc; cases hc; decide)
      · exact lineStartsWith_tail_noTrail hw (by intro c hc; cases hc; decide)
      · rcases hp with rfl | rfl | hp
        · exact lineStartsWith_tail_noTrail hw (by intro c hc; cases hc; decide)
        · exact lineStartsWith_tail_noTrail hw (by intro c hc; cases hc; decide)
        · exact lineStartsWith_tail hw (hsep hkd p hp)
      · exact lineStartsWith_tail hw (hstep hks p hp).2
    · simp only [lineText, trimmed]
      rw [lstrip_append_right hs]
      exact languageRe_tail _ hw

/-! ### `Comment` and `Other`: carriage returns and line feeds at the end -/

theorem comment_eol (D : List Dialect) (μ : MState) (t : Token) (s w : Str) (hw : AllEol w) :
    SameMatch (matchLine D .Comment μ (withLine t s) s) (matchLine D .Comment μ (withLine t (s ++ w)) (s ++ w)) := by
  have h : lineStartsWith (s ++ w) [35] = lineStartsWith s [35] :=
    lineStartsWith_tail_noTrail hw.allSpace (by intro c hc; cases hc; decide)
  simp only [matchLine, h]
  cases lineStartsWith s [35] with
  | false => exact ⟨rfl, rfl, tokSame_withLine t s (s ++ w)⟩
  | true => simp [SameMatch, TokSame, setMatched, withLine, rstripCRLF_append_allEol s hw]

theorem replaceAux_noMatch (p v : Str) {t : Str} (ht : ∀ c ∈ t, c ∉ p) : replaceAux p v t 0 = t := by
  induction t with
  | nil => rfl
  | cons c t ih =>
    have hc : ¬ (startsWith p (c :: t) = true ∧ p ≠ []) := by
      intro ⟨h1, h2⟩
      cases p with
      | nil => exact h2 rfl
      | cons a p =>
        simp only [startsWith, Bool.and_eq_true, beq_iff_eq] at h1
        exact ht c (by simp) (by simp [h1.1])
    simp only [replaceAux, hc, ↓reduceIte, ih (fun d hd => ht d (by simp [hd]))]

theorem replaceAux_append_tail (p v : Str) {t : Str} (ht : ∀ c ∈ t, c ∉ p) (y : Str) (skip : Nat)
    (hskip : skip ≤ y.length) : replaceAux p v (y ++ t) skip = replaceAux p v y skip ++ t := by
  induction y generalizing skip with
  | nil =>
    have : skip = 0 := by simpa using hskip
    subst this
    simpa [replaceAux] using replaceAux_noMatch p v ht
  | cons c y ih =>
    cases skip with
    | succ n => simpa [replaceAux] using ih n (by simpa using hskip)
    | zero =>
      have hsw : startsWith p (c :: y ++ t) = startsWith p (c :: y) := by
        apply startsWith_append_tail
        intro w hw hpre he
        cases w with
        | nil => exact hw rfl
        | cons d w =>
          obtain ⟨r, hr⟩ := hpre
          exact ht d (by rw [← hr]; simp) (by rw [he]; simp)
      simp only [List.cons_append, replaceAux]
      rw [← List.cons_append, hsw]
      by_cases hc : startsWith p (c :: y) = true ∧ p ≠ []
      · have hlen := startsWith_length_le hc.1
        simp only [hc, and_self, ↓reduceIte, ne_eq, not_false_eq_true]
        rw [ih (p.length - 1) (by simp at hlen; omega), List.append_assoc]
      · simp only [hc, ↓reduceIte, ih 0 (Nat.zero_le _), List.cons_append]

theorem unescapeDoc_append_eol (sep : Option Str) (y : Str) {v : Str} (hv : AllEol v) :
    unescapeDoc sep (y ++ v) = unescapeDoc sep y ++ v := by
  unfold unescapeDoc replaceAll
  split
  · exact replaceAux_append_tail _ _ (by intro c hc hm; rcases hv c hc with rfl | rfl <;> simp at hm) y 0 (Nat.zero_le _)
  · split
    · exact replaceAux_append_tail _ _ (by intro c hc hm; rcases hv c hc with rfl | rfl <;> simp at hm) y 0 (Nat.zero_le _)
    · rfl

/-- the raw text of an `Other` line with and without an end-of-line tail differ by end-of-line
    code points only -/
theorem lineText_eol (s w : Str) (hw : AllEol w) (k : Nat) :
    ∃ y v1 v2, AllEol v1 ∧ AllEol v2 ∧ lineText (s ++ w) (some k) = y ++ v1 ∧ lineText s (some k) = y ++ v2 := by
  by_cases hs : lstrip s = []
  · have hsp := allSpace_of_lstrip_nil hs
    have hi1 : lineIndent (s ++ w) = (s ++ w).length := indentOf_allSpace (hsp.append hw.allSpace)
    have hi2 : lineIndent s = s.length := indentOf_allSpace hsp
    simp only [lineText, trimmed, lstrip_append_nil hs hw.allSpace, hs, hi1, hi2]
    by_cases h1 : k > s.length
    · refine ⟨[], if k > (s ++ w).length then [] else (s ++ w).drop k, [], ?_, allEol_nil, by simp, by simp [h1]⟩
      split
      · exact allEol_nil
      · rw [List.drop_append, List.drop_eq_nil_of_le (by omega)]
        simpa using hw.drop _
    · have h2 : ¬ k > (s ++ w).length := by simp; omega
      refine ⟨s.drop k, w, [], hw, allEol_nil, ?_, by simp [h1]⟩
      simp only [h2, ↓reduceIte]
      exact List.drop_append_of_le_length (by omega)
  · have hi1 : lineIndent (s ++ w) = lineIndent s := lineIndent_tail hs w
    simp only [lineText, trimmed, lstrip_append_right hs, hi1]
    by_cases h1 : k > lineIndent s
    · exact ⟨lstrip s, w, [], hw, allEol_nil, by simp [h1], by simp [h1]⟩
    · refine ⟨s.drop k, w, [], hw, allEol_nil, ?_, by simp [h1]⟩
      simp only [h1, ↓reduceIte]
      exact List.drop_append_of_le_length (by have := indentOf_le_length s; unfold lineIndent at h1; omega)

theorem other_eol (D : List Dialect) (μ : MState) (t : Token) (s w : Str) (hw : AllEol w) :
    SameMatch (matchLine D .Other μ (withLine t s) s) (matchLine D .Other μ (withLine t (s ++ w)) (s ++ w)) := by
  obtain ⟨y, v1, v2, h1, h2, e1, e2⟩ := lineText_eol s w hw μ.indentToRemove
  have : rstripCRLF (unescapeDoc μ.activeSep (lineText (s ++ w) (some μ.indentToRemove))) =
      rstripCRLF (unescapeDoc μ.activeSep (lineText s (some μ.indentToRemove))) := by
    rw [e1, e2, unescapeDoc_append_eol _ _ h1, unescapeDoc_append_eol _ _ h2,
      rstripCRLF_append_allEol _ h1, rstripCRLF_append_allEol _ h2]
  simp [matchLine, SameMatch, TokSame, setMatched, withLine, this]

/-! ### matcher states that can occur -/

/-- the active doc-string separator, if any, is one of the two delimiters -/
def SepOk (μ : MState) : Prop := ∀ sep, μ.activeSep = some sep → sep = dq3 ∨ sep = bt3

/-- no step keyword of the current dialect is empty or ends in a carriage return or line feed -/
def StepKwOk (μ : MState) : Prop := ∀ kw ∈ μ.dialect.stepKeywords, Spec.stepKeywordOk kw = true

theorem stepKeywordOk_iff (kw : Str) :
    Spec.stepKeywordOk kw = true ↔ kw ≠ [] ∧ kw.getLast? ≠ some 13 ∧ kw.getLast? ≠ some 10 := by
  unfold Spec.stepKeywordOk
  cases kw with
  | nil => simp
  | cons c r => simp

theorem findDialect_mem {D : List Dialect} {name : Str} {d : Dialect} (h : findDialect D name = some d) : d ∈ D :=
  List.mem_of_find?_eq_some h

theorem stepKwOk_of_mem {D : List Dialect} (hD : Spec.stepKeywordsOk D = true) {μ : MState} (h : μ.dialect ∈ D) :
    StepKwOk μ := by
  intro kw hkw
  unfold Spec.stepKeywordsOk at hD
  rw [List.all_eq_true] at hD
  have := hD _ h
  rw [List.all_eq_true] at this
  exact this kw hkw

/-- the state made by `TokenMatcher(dialect_name)` is sane … -/
theorem sane_init {D : List Dialect} {name : Str} {μ : MState}
    (h : MState.init D name = some μ) : SepOk μ ∧ μ.dialect ∈ D := by
  unfold MState.init at h
  cases hf : findDialect D name with
  | none => rw [hf] at h; cases h
  | some d =>
    rw [hf] at h; cases h
    exact ⟨(by intro sep hsep; cases hsep), findDialect_mem hf⟩

/-- … `reset()` keeps it sane … -/
theorem sane_reset {D : List Dialect} {μ : MState} (h : μ.dialect ∈ D) :
    SepOk (μ.reset D) ∧ (μ.reset D).dialect ∈ D := by
  unfold MState.reset
  refine ⟨(by intro sep hsep; cases hsep), ?_⟩
  simp only
  split
  · split
    · rename_i d hd; exact findDialect_mem hd
    · exact h
  · exact h

theorem matchDocSep_sepOk {D : List Dialect} {μ : MState} {t : Token} {l sep : Str} {isOpen : Bool} {t' : Token} {μ' : MState}
    (hs : isOpen = true → sep = dq3 ∨ sep = bt3) (hd : μ.dialect ∈ D)
    (h : matchDocSep μ t l sep isOpen = some (t', μ')) : SepOk μ' ∧ μ'.dialect ∈ D := by
  unfold matchDocSep at h
  split at h
  · cases isOpen with
    | true =>
      simp only [↓reduceIte, Option.some.injEq, Prod.mk.injEq] at h
      rw [← h.2]
      exact ⟨(by intro x hx; cases hx; exact hs rfl), hd⟩
    | false =>
      simp only [Bool.false_eq_true, ↓reduceIte, Option.some.injEq, Prod.mk.injEq] at h
      rw [← h.2]
      exact ⟨(by intro x hx; cases hx), hd⟩
  · cases h

/-- … and so does every `match_<k>`. -/
theorem sane_matchLine (D : List Dialect) (k : Kind) (μ : MState) (t : Token) (l : Str)
    (h : SepOk μ ∧ μ.dialect ∈ D) :
    SepOk (matchLine D k μ t l).μ ∧ (matchLine D k μ t l).μ.dialect ∈ D := by
  have opening : ∀ r, ((matchDocSep μ t l dq3 true).orElse fun _ => matchDocSep μ t l bt3 true) = r →
      SepOk (match r with | some (t', μ') => (⟨t', μ', .matched⟩ : MOut) | none => ⟨t, μ, .no⟩).μ ∧
      (match r with | some (t', μ') => (⟨t', μ', .matched⟩ : MOut) | none => ⟨t, μ, .no⟩).μ.dialect ∈ D := by
    intro r hr
    cases r with
    | none => exact h
    | some x =>
      obtain ⟨t', μ'⟩ := x
      cases h1 : matchDocSep μ t l dq3 true with
      | some y =>
        rw [h1] at hr; simp only [Option.orElse] at hr; cases hr
        exact matchDocSep_sepOk (fun _ => Or.inl rfl) h.2 h1
      | none =>
        rw [h1] at hr; simp only [Option.orElse] at hr
        exact matchDocSep_sepOk (fun _ => Or.inr rfl) h.2 hr
  cases k with
  | EOF => exact h
  | FeatureLine => simp only [matchLine]; split <;> exact h
  | RuleLine => simp only [matchLine]; split <;> exact h
  | BackgroundLine => simp only [matchLine]; split <;> exact h
  | ExamplesLine => simp only [matchLine]; split <;> exact h
  | ScenarioLine =>
    simp only [matchLine]
    split
    · exact h
    · split <;> exact h
  | TableRow => simp only [matchLine]; split <;> exact h
  | StepLine => simp only [matchLine]; split <;> exact h
  | Comment => simp only [matchLine]; split <;> exact h
  | Empty => simp only [matchLine]; split <;> exact h
  | Other => exact h
  | TagLine =>
    simp only [matchLine]
    split
    · split <;> exact h
    · exact h
  | Language =>
    simp only [matchLine]
    split
    · exact h
    · split
      · rename_i d hd; exact ⟨h.1, findDialect_mem hd⟩
      · exact h
  | DocStringSeparator =>
    simp only [matchLine]
    cases hsep : μ.activeSep with
    | none => exact opening _ rfl
    | some sep =>
      simp only []
      cases sep.isEmpty with
      | true => exact opening _ rfl
      | false =>
        simp only [Bool.false_eq_true, ↓reduceIte]
        cases hm : matchDocSep μ t l sep false with
        | none => exact h
        | some x => exact matchDocSep_sepOk (by intro hh; cases hh) h.2 hm

/-! ### the per-line invariance theorems -/

theorem ne_append_of_getLast {P : Nat → Prop} {p x v : Str} (hp : ∀ c, p.getLast? = some c → ¬ P c)
    (hv : ∀ c ∈ v, P c) (hne : v ≠ []) : p ≠ x ++ v := by
  intro he
  rcases List.eq_nil_or_concat v with rfl | ⟨v', b, rfl⟩
  · exact hne rfl
  · have : p.getLast? = some b := by
      rw [he, List.concat_eq_append, ← List.append_assoc, List.getLast?_concat]
    exact hp b this (hv b (by simp))

theorem sepOk_noTrail {μ : MState} (h : SepOk μ) {sep : Str} (hs : μ.activeSep = some sep) : NoTrailWs sep := by
  rcases h sep hs with rfl | rfl <;> (intro c hc; cases hc; decide)

/-- no step keyword is empty or is the trimmed line `s` followed by more whitespace (then
    appending whitespace to `s` could turn a non-step line into a step line, or make a longer
    keyword match) -/
def StepTailFree (μ : MState) (s : Str) : Prop :=
  ∀ kw ∈ μ.dialect.stepKeywords, kw ≠ [] ∧ ∀ v, v ≠ [] → AllSpace v → kw ≠ lstrip s ++ v

/-- Boolean test implying `StepTailFree` -/
def stepTailFreeB (kws : List Str) (s : Str) : Bool :=
  kws.all fun kw => !kw.isEmpty &&
    !(startsWith (lstrip s) kw && decide ((lstrip s).length < kw.length) && (kw.drop (lstrip s).length).all isSpace)

theorem stepTailFree_of_B {μ : MState} {s : Str} (h : stepTailFreeB μ.dialect.stepKeywords s = true) :
    StepTailFree μ s := by
  intro kw hkw
  unfold stepTailFreeB at h
  rw [List.all_eq_true] at h
  have h1 := h kw hkw
  simp only [Bool.and_eq_true, Bool.not_eq_true', List.isEmpty_eq_false_iff] at h1
  refine ⟨h1.1, fun v hv hsp he => ?_⟩
  have h2 := h1.2
  rw [he, startsWith_self_append] at h2
  have hlen : (lstrip s).length < (lstrip s ++ v).length := by
    cases v with
    | nil => exact absurd rfl hv
    | cons c v => simp
  have hall : (List.drop (lstrip s).length (lstrip s ++ v)).all isSpace = true := by
    rw [List.drop_left, List.all_eq_true]; exact hsp
  have hd : decide ((lstrip s).length < (lstrip s ++ v).length) = true := by simpa using hlen
  rw [hall, hd] at h2
  cases h2

/-- appending carriage returns / line feeds to a line: all kinds -/
theorem sameMatch_eol (D : List Dialect) (k : Kind) (μ : MState) (t : Token) (s w : Str)
    (hw : AllEol w) (hkw : StepKwOk μ) (hsep : SepOk μ) :
    SameMatch (matchLine D k μ (withLine t s) s) (matchLine D k μ (withLine t (s ++ w)) (s ++ w)) := by
  by_cases hc : k = .Comment
  · subst hc; exact comment_eol D μ t s w hw
  by_cases ho : k = .Other
  · subst ho; exact other_eol D μ t s w hw
  refine sameMatch_tail D k μ t s w hw.allSpace ⟨hc, ho⟩ ?_ ?_
  · intro _ kw hmem
    have hok := (stepKeywordOk_iff kw).1 (hkw kw hmem)
    refine ⟨hok.1, fun v hv hpre => ?_⟩
    obtain ⟨r, rfl⟩ := hpre
    refine ne_append_of_getLast (P := fun c => c = 13 ∨ c = 10) ?_ (fun c hcv => hw c (by simp [hcv])) hv
    intro c hcl h
    rcases h with rfl | rfl
    · exact hok.2.1 hcl
    · exact hok.2.2 hcl
  · intro _ sep hs v hv hpre
    obtain ⟨r, rfl⟩ := hpre
    refine ne_append_of_getLast (P := fun c => isSpace c = true) ?_
      (fun c hcv => hw.allSpace c (by simp [hcv])) hv
    intro c hcl h
    rw [sepOk_noTrail hsep hs c hcl] at h; cases h

/-- two end-of-line tails on the same line content -/
theorem sameMatch_eol2 (D : List Dialect) (k : Kind) (μ : MState) (t : Token) (s w1 w2 : Str)
    (h1 : AllEol w1) (h2 : AllEol w2) (hkw : StepKwOk μ) (hsep : SepOk μ) :
    SameMatch (matchLine D k μ (withLine t (s ++ w1)) (s ++ w1))
      (matchLine D k μ (withLine t (s ++ w2)) (s ++ w2)) :=
  (sameMatch_eol D k μ t s w1 h1 hkw hsep).symm.trans (sameMatch_eol D k μ t s w2 h2 hkw hsep)

/-- two whitespace tails on the same line content: all kinds but `Comment` and `Other` -/
theorem sameMatch_blanks (D : List Dialect) (k : Kind) (μ : MState) (t : Token) (s w1 w2 : Str)
    (h1 : AllSpace w1) (h2 : AllSpace w2) (hk : k ≠ .Comment ∧ k ≠ .Other)
    (hstep : k = .StepLine → StepTailFree μ s) (hsep : SepOk μ) :
    SameMatch (matchLine D k μ (withLine t (s ++ w1)) (s ++ w1))
      (matchLine D k μ (withLine t (s ++ w2)) (s ++ w2)) := by
  have key : ∀ w, AllSpace w →
      SameMatch (matchLine D k μ (withLine t s) s) (matchLine D k μ (withLine t (s ++ w)) (s ++ w)) := by
    intro w hw
    refine sameMatch_tail D k μ t s w hw hk ?_ ?_
    · intro hks kw hmem
      refine ⟨(hstep hks kw hmem).1, fun v hv hpre => (hstep hks kw hmem).2 v hv ?_⟩
      obtain ⟨r, rfl⟩ := hpre
      exact fun c hc => hw c (by simp [hc])
    · intro _ sep hs v hv hpre
      obtain ⟨r, rfl⟩ := hpre
      refine ne_append_of_getLast (P := fun c => isSpace c = true) ?_ (fun c hcv => hw c (by simp [hcv])) hv
      intro c hcl h
      rw [sepOk_noTrail hsep hs c hcl] at h; cases h
  exact (key w1 h1).symm.trans (key w2 h2)

/-! ### `unexpectedErr` -/

/-- the error for an unexpected line quotes `strip`, so a whitespace tail is invisible; its column
    is the line's own indentation unless a matcher set one, so the line must not be blank -/
theorem unexpectedErr_tail (row : StateRow) (t : Token) (s w : Str) (hw : AllSpace w) (hs : lstrip s ≠ []) :
    unexpectedErr row (withLine t (s ++ w)) = unexpectedErr row (withLine t s) := by
  simp only [unexpectedErr, withLine, stripTrimmed_tail s hw, lineIndent_tail hs, Token.loc]

/-- for a blank line the message body and the line number still agree -/
theorem unexpectedErr_tail_body (row : StateRow) (t : Token) (s w : Str) (hw : AllSpace w) :
    (unexpectedErr row (withLine t (s ++ w))).body = (unexpectedErr row (withLine t s)).body ∧
    (unexpectedErr row (withLine t (s ++ w))).loc.line = (unexpectedErr row (withLine t s)).loc.line ∧
    (unexpectedErr row (withLine t (s ++ w))).kind = (unexpectedErr row (withLine t s)).kind := by
  simp only [unexpectedErr, withLine, stripTrimmed_tail s hw, Token.loc]
  cases t.col with
  | none => simp
  | some c => by_cases hc : (c == 0) = true <;> simp [hc]

/-- indenting the line moves the column only when no matcher set one -/
theorem unexpectedErr_indent (row : StateRow) (t : Token) (ws s : Str) (hw : AllSpace ws) :
    (unexpectedErr row (withLine t (ws ++ s))).body = (unexpectedErr row (withLine t s)).body ∧
    (unexpectedErr row (withLine t (ws ++ s))).loc.line = (unexpectedErr row (withLine t s)).loc.line := by
  simp only [unexpectedErr, withLine, trimmed_indent hw, Token.loc]
  cases t.col with
  | none => simp
  | some c => by_cases hc : (c == 0) = true <;> simp [hc]

/-! ### indentation: whitespace prepended to a line -/

def shiftLoc (n : Nat) (l : Loc) : Loc := ⟨l.line, l.col.map (· + n)⟩
def shiftErr (n : Nat) (e : PErr) : PErr := ⟨e.kind, shiftLoc n e.loc, e.body⟩

/-- the verdict with the column of a raised error grown by `n` -/
def shiftRes (n : Nat) : MRes → MRes
  | .raised e => .raised (shiftErr n e)
  | r => r

def isMatched : MRes → Bool
  | .matched => true
  | _ => false

/-- `b` is `a` moved right by `n` columns: column, indent and every item column grow by `n`;
    type, text, keyword, keyword type, item texts, dialect, line number are unchanged -/
def TokShift (n : Nat) (a b : Token) : Prop :=
  b.lineNo = a.lineNo ∧ b.col = a.col.map (· + n) ∧ b.mtype = a.mtype ∧ b.text = a.text ∧
  b.keyword = a.keyword ∧ b.ktype = a.ktype ∧ b.indent = a.indent + n ∧
  b.items = shiftItems n a.items ∧ b.dialect = a.dialect

/-- matcher state `ν'` is `ν` with `indentToRemove` grown by `d` -/
def MuShift (d : Nat) (ν ν' : MState) : Prop :=
  ν'.defaultName = ν.defaultName ∧ ν'.name = ν.name ∧ ν'.dialect = ν.dialect ∧
  ν'.activeSep = ν.activeSep ∧ ν'.indentToRemove = ν.indentToRemove + d

/-- Output `b` is output `a` moved right by `n` columns.  Same verdict (a raised error's column
    moved); on a match the token is moved, otherwise it is untouched; the matcher state is the
    same except that an *opening* doc-string delimiter records an indentation `n` larger. -/
def ShiftMatch (n : Nat) (k : Kind) (a b : MOut) : Prop :=
  b.res = shiftRes n a.res ∧
  MuShift (if k = .DocStringSeparator ∧ isMatched a.res = true ∧ a.μ.activeSep.isSome = true then n else 0) a.μ b.μ ∧
  (if isMatched a.res = true then TokShift n a.tok b.tok else TokSame a.tok b.tok)

theorem MuShift.zero (ν : MState) : MuShift 0 ν ν := ⟨rfl, rfl, rfl, rfl, rfl⟩

/-- **Indenting a line** (keyword, step, tag, table-row, delimiter lines): the match result is
    the same moved right by the number of code points added. -/
theorem shiftMatch_indent (D : List Dialect) (k : Kind) (μ : MState) (t : Token) (ws s : Str)
    (hw : AllSpace ws) (hk : k ∈ Spec.structural) :
    ShiftMatch ws.length k (matchLine D k μ (withLine t s) s) (matchLine D k μ (withLine t (ws ++ s)) (ws ++ s)) := by
  have hT := lineStartsWithTitle_indent hw s
  have hS := lineStartsWith_indent hw s
  have hR := restTrimmed_indent hw s
  have hI := lineIndent_indent hw s
  have hno : ∀ k', ShiftMatch ws.length k' ⟨withLine t s, μ, .no⟩ ⟨withLine t (ws ++ s), μ, .no⟩ := by
    intro k'
    refine ⟨rfl, ?_, ?_⟩
    · simp only [isMatched, Bool.false_eq_true, false_and, and_false, ↓reduceIte]; exact MuShift.zero μ
    · simp only [isMatched, Bool.false_eq_true, ↓reduceIte]; exact tokSame_withLine t s (ws ++ s)
  have hmatched : ∀ k' a b, k' ≠ .DocStringSeparator → TokShift ws.length a b →
      ShiftMatch ws.length k' ⟨a, μ, .matched⟩ ⟨b, μ, .matched⟩ := by
    intro k' a b hk' hab
    refine ⟨rfl, ?_, ?_⟩
    · simp only [hk', false_and, ↓reduceIte]; exact MuShift.zero μ
    · simp only [isMatched, ↓reduceIte]; exact hab
  have title : ∀ ty kws, (matchTitle μ (withLine t s) s ty kws = none ∧ matchTitle μ (withLine t (ws ++ s)) (ws ++ s) ty kws = none) ∨
      ∃ a b, matchTitle μ (withLine t s) s ty kws = some a ∧ matchTitle μ (withLine t (ws ++ s)) (ws ++ s) ty kws = some b ∧
        TokShift ws.length a b := by
    intro ty kws
    unfold matchTitle
    simp only [hT, hR]
    cases kws.find? (fun k => lineStartsWithTitle s k) with
    | none => exact Or.inl ⟨rfl, rfl⟩
    | some kw =>
      refine Or.inr ⟨_, _, rfl, rfl, ?_⟩
      simp [TokShift, setMatched, withLine, hI, shiftItems]; omega
  have docsep : ∀ sep isOpen,
      (matchDocSep μ (withLine t s) s sep isOpen = none ∧ matchDocSep μ (withLine t (ws ++ s)) (ws ++ s) sep isOpen = none) ∨
      ∃ a b ν ν', matchDocSep μ (withLine t s) s sep isOpen = some (a, ν) ∧
        matchDocSep μ (withLine t (ws ++ s)) (ws ++ s) sep isOpen = some (b, ν') ∧ TokShift ws.length a b ∧
        ν.activeSep.isSome = isOpen ∧ MuShift (if isOpen = true then ws.length else 0) ν ν' := by
    intro sep isOpen
    unfold matchDocSep
    simp only [hS, hR, hI]
    cases lineStartsWith s sep with
    | false => exact Or.inl ⟨rfl, rfl⟩
    | true =>
      cases isOpen with
      | true =>
        refine Or.inr ⟨_, _, _, _, rfl, rfl, ?_, rfl, ?_⟩
        · simp [TokShift, setMatched, withLine, hI, shiftItems]; omega
        · exact ⟨rfl, rfl, rfl, rfl, rfl⟩
      | false =>
        refine Or.inr ⟨_, _, _, _, rfl, rfl, ?_, rfl, ?_⟩
        · simp [TokShift, setMatched, withLine, hI, shiftItems]; omega
        · exact ⟨rfl, rfl, rfl, rfl, rfl⟩
  have ofDoc : ∀ a b ν ν' isOpen, TokShift ws.length a b → ν.activeSep.isSome = isOpen →
      MuShift (if isOpen = true then ws.length else 0) ν ν' →
      ShiftMatch ws.length .DocStringSeparator ⟨a, ν, .matched⟩ ⟨b, ν', .matched⟩ := by
    intro a b ν ν' isOpen hab hso hm
    refine ⟨rfl, ?_, ?_⟩
    · simp only [isMatched, true_and, hso]; exact hm
    · simp only [isMatched, ↓reduceIte]; exact hab
  have opening : ShiftMatch ws.length .DocStringSeparator
      (match (matchDocSep μ (withLine t s) s dq3 true).orElse fun _ => matchDocSep μ (withLine t s) s bt3 true with
        | some (t', μ') => (⟨t', μ', .matched⟩ : MOut)
        | none => ⟨withLine t s, μ, .no⟩)
      (match (matchDocSep μ (withLine t (ws ++ s)) (ws ++ s) dq3 true).orElse
          fun _ => matchDocSep μ (withLine t (ws ++ s)) (ws ++ s) bt3 true with
        | some (t', μ') => (⟨t', μ', .matched⟩ : MOut)
        | none => ⟨withLine t (ws ++ s), μ, .no⟩) := by
    rcases docsep dq3 true with ⟨e1, e2⟩ | ⟨a, b, ν, ν', e1, e2, hab, hso, hm⟩
    · rw [e1, e2]
      rcases docsep bt3 true with ⟨f1, f2⟩ | ⟨a, b, ν, ν', f1, f2, hab, hso, hm⟩
      · simp only [Option.orElse, f1, f2]; exact hno _
      · simp only [Option.orElse, f1, f2]; exact ofDoc a b ν ν' true hab hso hm
    · rw [e1, e2]; exact ofDoc a b ν ν' true hab hso hm
  cases k with
  | EOF => exact hno _
  | Comment => simp [Spec.structural] at hk
  | Other => simp [Spec.structural] at hk
  | Empty => simp [Spec.structural] at hk
  | Language => simp [Spec.structural] at hk
  | FeatureLine =>
    simp only [matchLine]
    rcases title .FeatureLine μ.dialect.feature with ⟨e1, e2⟩ | ⟨a, b, e1, e2, hab⟩
    · rw [e1, e2]; exact hno _
    · rw [e1, e2]; exact hmatched _ a b (by decide) hab
  | RuleLine =>
    simp only [matchLine]
    rcases title .RuleLine μ.dialect.rule with ⟨e1, e2⟩ | ⟨a, b, e1, e2, hab⟩
    · rw [e1, e2]; exact hno _
    · rw [e1, e2]; exact hmatched _ a b (by decide) hab
  | BackgroundLine =>
    simp only [matchLine]
    rcases title .BackgroundLine μ.dialect.background with ⟨e1, e2⟩ | ⟨a, b, e1, e2, hab⟩
    · rw [e1, e2]; exact hno _
    · rw [e1, e2]; exact hmatched _ a b (by decide) hab
  | ExamplesLine =>
    simp only [matchLine]
    rcases title .ExamplesLine μ.dialect.examples with ⟨e1, e2⟩ | ⟨a, b, e1, e2, hab⟩
    · rw [e1, e2]; exact hno _
    · rw [e1, e2]; exact hmatched _ a b (by decide) hab
  | ScenarioLine =>
    simp only [matchLine]
    rcases title .ScenarioLine μ.dialect.scenario with ⟨e1, e2⟩ | ⟨a, b, e1, e2, hab⟩
    · rw [e1, e2]
      rcases title .ScenarioLine μ.dialect.scenarioOutline with ⟨f1, f2⟩ | ⟨a, b, f1, f2, hab⟩
      · rw [f1, f2]; exact hno _
      · rw [f1, f2]; exact hmatched _ a b (by decide) hab
    · rw [e1, e2]; exact hmatched _ a b (by decide) hab
  | TableRow =>
    simp only [matchLine, hS, tableCells_indent hw]
    cases lineStartsWith s [124] with
    | false => exact hno _
    | true =>
      refine hmatched _ _ _ (by decide) ?_
      simp [TokShift, setMatched, withLine, hI]; omega
  | StepLine =>
    simp only [matchLine, hS]
    cases μ.dialect.stepKeywords.find? (fun kw => lineStartsWith s kw) with
    | none => exact hno _
    | some kw =>
      refine hmatched _ _ _ (by decide) ?_
      simp [TokShift, setMatched, withLine, hI, hR, shiftItems]; omega
  | TagLine =>
    simp only [matchLine, hS, lineTags_indent hw]
    cases lineStartsWith s [64] with
    | false => exact hno _
    | true =>
      cases lineTags s with
      | error c =>
        refine ⟨rfl, ?_, ?_⟩
        · simp only [reduceCtorEq, false_and, ↓reduceIte]; exact MuShift.zero μ
        · simp only [isMatched, Bool.false_eq_true, ↓reduceIte]; exact tokSame_withLine t s (ws ++ s)
      | ok items =>
        refine hmatched _ _ _ (by decide) ?_
        simp [TokShift, setMatched, withLine, hI]; omega
  | DocStringSeparator =>
    simp only [matchLine]
    cases hsep : μ.activeSep with
    | none => exact opening
    | some sep =>
      simp only []
      cases sep.isEmpty with
      | true => exact opening
      | false =>
        simp only [Bool.false_eq_true, ↓reduceIte]
        rcases docsep sep false with ⟨e1, e2⟩ | ⟨a, b, ν, ν', e1, e2, hab, hso, hm⟩
        · rw [e1, e2]; exact hno _
        · rw [e1, e2]; exact ofDoc a b ν ν' false hab hso hm

/-! ### a doc string moving as one block -/

theorem lineText_indent {ws : Str} (h : AllSpace ws) (s : Str) (k : Nat) :
    lineText (ws ++ s) (some (k + ws.length)) = lineText s (some k) := by
  simp only [lineText, lineIndent_indent h, trimmed_indent h]
  have e : (ws ++ s).drop (k + ws.length) = s.drop k := by
    rw [List.drop_append]
    simp
  by_cases hk : k > lineIndent s
  · have : k + ws.length > lineIndent s + ws.length := by omega
    simp [hk, this]
  · have : ¬ k + ws.length > lineIndent s + ws.length := by omega
    simp [hk, this, e]

/-- a content line of a doc string whose opening delimiter was indented by the same whitespace:
    same token (the text has the recorded indentation removed), matcher states unchanged -/
theorem other_indent (D : List Dialect) (μ : MState) (t : Token) (ws s : Str) (hw : AllSpace ws) :
    let μ' : MState := { μ with indentToRemove := μ.indentToRemove + ws.length }
    let a := matchLine D .Other μ (withLine t s) s
    let b := matchLine D .Other μ' (withLine t (ws ++ s)) (ws ++ s)
    a.res = b.res ∧ TokSame a.tok b.tok ∧ a.μ = μ ∧ b.μ = μ' := by
  simp [matchLine, TokSame, setMatched, withLine, lineText_indent hw]

/-- a closing delimiter does not look at the recorded indentation and resets it -/
theorem docsep_close_indent_free (D : List Dialect) (μ : MState) (t : Token) (l sep : Str) (i : Nat)
    (hsep : μ.activeSep = some sep) (hne : sep.isEmpty = false) :
    let a := matchLine D .DocStringSeparator μ t l
    let b := matchLine D .DocStringSeparator { μ with indentToRemove := i } t l
    a.res = b.res ∧ a.tok = b.tok ∧ (isMatched a.res = true → a.μ = b.μ) := by
  simp only [matchLine, hsep, hne, Bool.false_eq_true, ↓reduceIte, matchDocSep]
  cases lineStartsWith l sep with
  | false => simp [isMatched]
  | true => simp [isMatched, setMatched]

/-! ## Part 4 — physical lines -/

/-- a final line break: same lines, the last one gets the line feed -/
theorem splitLines_append_lf {src : Str} (hne : src ≠ []) (hlast : src.getLast? ≠ some 10) :
    ∃ init last, splitLines src = init ++ [last] ∧ splitLines (src ++ [10]) = init ++ [last ++ [10]] := by
  induction src with
  | nil => exact absurd rfl hne
  | cons c cs ih =>
    by_cases hcs : cs = []
    · subst hcs
      have hc : (c == 10) = false := by
        simp only [List.getLast?_singleton, ne_eq, Option.some.injEq] at hlast
        simpa using hlast
      exact ⟨[], [c], by simp [splitLines, hc], by simp [splitLines, hc]⟩
    · have hl : cs.getLast? ≠ some 10 := by
        rw [List.getLast?_cons_of_ne_nil hcs] at hlast; exact hlast
      obtain ⟨init, last, e1, e2⟩ := ih hcs hl
      by_cases hc : (c == 10) = true
      · exact ⟨[10] :: init, last, by simp [splitLines, hc, e1], by simp [splitLines, hc, e2]⟩
      · cases init with
        | nil => exact ⟨[], c :: last, by simp [splitLines, hc, e1], by simp [splitLines, hc, e2]⟩
        | cons a r => exact ⟨(c :: a) :: r, last, by simp [splitLines, hc, e1], by simp [splitLines, hc, e2]⟩

/-- a final line break after a line break (or in an empty document) adds one physical line -/
theorem splitLines_append_lf_after_lf {src : Str} (h : src = [] ∨ src.getLast? = some 10) :
    splitLines (src ++ [10]) = splitLines src ++ [[10]] := by
  induction src with
  | nil => rfl
  | cons c cs ih =>
    have hcs : cs = [] ∨ cs.getLast? = some 10 := by
      by_cases hcs : cs = []
      · exact Or.inl hcs
      · rcases h with h | h
        · cases h
        · rw [List.getLast?_cons_of_ne_nil hcs] at h; exact Or.inr h
    by_cases hc : (c == 10) = true
    · simp [splitLines, hc, ih hcs]
    · rcases hcs with rfl | hl
      · rcases h with h | h
        · cases h
        · simp only [List.getLast?_singleton, Option.some.injEq] at h
          subst h; exact absurd rfl hc
      · simp only [List.cons_append, splitLines, hc, ih (Or.inr hl)]
        cases hsp : splitLines cs with
        | nil => 
          cases cs with
          | nil => cases hl
          | cons d ds =>
            simp only [splitLines] at hsp
            split at hsp
            · cases hsp
            · split at hsp <;> cases hsp
        | cons l ls => rfl

/-- `\n` → `\r\n` on a whole text -/
def toCRLF : Str → Str
  | [] => []
  | c :: cs => if c == 10 then 13 :: 10 :: toCRLF cs else c :: toCRLF cs

/-- CRLF line endings give the same physical lines, each with its own LF replaced by CRLF -/
theorem splitLines_toCRLF (src : Str) : splitLines (toCRLF src) = (splitLines src).map toCRLF := by
  induction src with
  | nil => rfl
  | cons c cs ih =>
    by_cases hc : (c == 10) = true
    · have : c = 10 := by simpa using hc
      subst this
      simp [toCRLF, splitLines, ih]
    · have hc' : (c == 10) = false := by simpa using hc
      have e : toCRLF (c :: cs) = c :: toCRLF cs := by simp [toCRLF, hc']
      rw [e]
      simp only [splitLines, hc', ih]
      cases splitLines cs <;> simp [toCRLF, hc']

/-- every physical line is LF-free content followed by at most one LF -/
theorem splitLines_line_shape {src l : Str} (h : l ∈ splitLines src) :
    ∃ b, 10 ∉ b ∧ (l = b ++ [10] ∨ l = b) := by
  induction src generalizing l with
  | nil => cases h
  | cons c cs ih =>
    by_cases hc : (c == 10) = true
    · simp only [splitLines, hc, ↓reduceIte, List.mem_cons] at h
      rcases h with rfl | h
      · exact ⟨[], by simp, Or.inl rfl⟩
      · exact ih h
    · have hc' : c ≠ 10 := by simpa using hc
      simp only [splitLines, hc] at h
      cases hsp : splitLines cs with
      | nil =>
        rw [hsp] at h
        simp only [Bool.false_eq_true, ↓reduceIte, List.mem_singleton] at h
        exact ⟨[c], by simp; exact fun e => hc' e.symm, Or.inr h⟩
      | cons l0 ls =>
        rw [hsp] at h
        simp only [Bool.false_eq_true, ↓reduceIte, List.mem_cons] at h
        rcases h with rfl | h
        · obtain ⟨b, hb, hl0⟩ := ih (l := l0) (by rw [hsp]; simp)
          refine ⟨c :: b, by simp; exact ⟨fun e => hc' e.symm, hb⟩, ?_⟩
          rcases hl0 with rfl | rfl
          · exact Or.inl rfl
          · exact Or.inr rfl
        · exact ih (by rw [hsp]; simp [h])

theorem toCRLF_noLF {b : Str} (h : 10 ∉ b) : toCRLF b = b := by
  induction b with
  | nil => rfl
  | cons c b ih =>
    have hc : (c == 10) = false := by
      have : c ≠ 10 := fun e => h (by simp [e])
      simpa using this
    simp [toCRLF, hc, ih (fun hm => h (by simp [hm]))]

theorem toCRLF_line {b : Str} (h : 10 ∉ b) : toCRLF (b ++ [10]) = b ++ [13, 10] := by
  induction b with
  | nil => rfl
  | cons c b ih =>
    have hc : (c == 10) = false := by
      have : c ≠ 10 := fun e => h (by simp [e])
      simpa using this
    simp [toCRLF, hc, ih (fun hm => h (by simp [hm]))]

/-! ## Part 5 — kind level -/

/-- run of the table over `pre` when `post` follows (look-aheads see through to `post`):
    the state reached and the events so far -/
def runPrefix (T : Table) : Nat → List Kind → List Kind → Option (Nat × List Ev)
  | s, [], _ => some (s, [])
  | s, k :: ks, post =>
    match stepAbs T s k (ks ++ post) with
    | none => none
    | some b =>
      match runPrefix T b.target ks post with
      | none => none
      | some (s', evs) => some (s', prodEvents b.kind b.prods ++ evs)

theorem runAbs_append (T : Table) (s : Nat) (pre post : List Kind) :
    runAbs T s (pre ++ post) =
      match runPrefix T s pre post with
      | none => none
      | some (s', e1) =>
        match runAbs T s' post with
        | none => none
        | some (s'', e2) => some (s'', e1 ++ e2) := by
  induction pre generalizing s with
  | nil =>
    simp only [List.nil_append, runPrefix]
    cases runAbs T s post with
    | none => rfl
    | some r => rfl
  | cons k ks ih =>
    simp only [List.cons_append, runAbs, runPrefix]
    cases stepAbs T s k (ks ++ post) with
    | none => rfl
    | some b =>
      simp only [ih]
      cases runPrefix T b.target ks post with
      | none => rfl
      | some r =>
        obtain ⟨s', e1⟩ := r
        simp only []
        cases runAbs T s' post with
        | none => rfl
        | some r2 => simp

theorem passes_empty (K : Kind) : passes .Empty K = (K == .Empty || K == .Other) := by
  cases K <;> rfl

theorem passes_comment (K : Kind) : passes .Comment K = (K == .Comment || K == .Other) := by
  cases K <;> rfl

/-- a look-ahead that skips kind `e` and expects neither `e` nor `Other` -/
def Skips (e : Kind) (la : LookAhead) : Prop :=
  la.skip.contains e = true ∧ la.expected.contains e = false ∧ la.expected.contains .Other = false

/-- a line of kind `e` (read as itself or as free text only: `Empty`, `Comment`) at the head of
    the future is invisible to a look-ahead that skips it -/
theorem peekAbs_skip_cons {e : Kind} (he : ∀ K, passes e K = (K == e || K == .Other)) {la : LookAhead}
    (h : Skips e la) (ks : List Kind) : peekAbs la (e :: ks) = peekAbs la ks := by
  have h1 : la.expected.any (passes e) = false := by
    rw [List.any_eq_false]
    intro K hK hp
    rw [he] at hp
    simp only [Bool.or_eq_true, beq_iff_eq] at hp
    rcases hp with rfl | rfl
    · have := h.2.1; simp [hK] at this
    · have := h.2.2; simp [hK] at this
  have h2 : la.skip.any (passes e) = true := by
    rw [List.any_eq_true]
    exact ⟨e, by simpa using h.1, by rw [he]; simp⟩
  simp [peekAbs, h1, h2]

/-- … and so wherever it is inserted -/
theorem peekAbs_insert {e : Kind} (he : ∀ K, passes e K = (K == e || K == .Other)) {la : LookAhead}
    (h : Skips e la) (ks1 ks2 : List Kind) : peekAbs la (ks1 ++ e :: ks2) = peekAbs la (ks1 ++ ks2) := by
  induction ks1 with
  | nil => exact peekAbs_skip_cons he h ks2
  | cons k ks ih => simp only [List.cons_append, peekAbs, ih]

/-- look-ahead peeks skip an `Empty` line wherever it is inserted -/
theorem peekAbs_insert_empty {la : LookAhead} (h : Skips .Empty la) (ks1 ks2 : List Kind) :
    peekAbs la (ks1 ++ .Empty :: ks2) = peekAbs la (ks1 ++ ks2) := peekAbs_insert passes_empty h ks1 ks2

theorem skipsEmpty_of_fact {T : Table} (hL : Spec.lookaheadsSkipEmpty T = true) :
    ∀ la ∈ T.lookaheads, Skips .Empty la := by
  intro la hla
  unfold Spec.lookaheadsSkipEmpty at hL
  rw [List.all_eq_true] at hL
  have := hL la hla
  simp only [Bool.and_eq_true, Bool.not_eq_true'] at this
  exact ⟨this.1.1, this.1.2, this.2⟩

theorem skipsComment_of_fact {T : Table} (hL : Spec.lookaheadsSkipComment T = true) :
    ∀ la ∈ T.lookaheads, Skips .Comment la := by
  intro la hla
  unfold Spec.lookaheadsSkipComment at hL
  rw [List.all_eq_true] at hL
  have := hL la hla
  simp only [Bool.and_eq_true, Bool.not_eq_true'] at this
  exact ⟨this.1.1, this.1.2, this.2⟩

section insert
variable {T : Table} {e : Kind} (he : ∀ K, passes e K = (K == e || K == .Other))
  (hL : ∀ la ∈ T.lookaheads, Skips e la)
include he hL

theorem guardOkAbs_insert (b : Branch) (ks1 ks2 : List Kind) :
    guardOkAbs T b (ks1 ++ e :: ks2) = guardOkAbs T b (ks1 ++ ks2) := by
  unfold guardOkAbs
  cases b.guard with
  | none => rfl
  | some i =>
    simp only []
    cases hla : T.lookaheads[i]? with
    | none => rfl
    | some la => exact peekAbs_insert he (hL la (List.mem_of_getElem? hla)) ks1 ks2

theorem pickBranch_insert (k : Kind) (ks1 ks2 : List Kind) (bs : List Branch) :
    pickBranch T k (ks1 ++ e :: ks2) bs = pickBranch T k (ks1 ++ ks2) bs := by
  induction bs with
  | nil => rfl
  | cons b bs ih => simp only [pickBranch, guardOkAbs_insert he hL, ih]

/-- guards elsewhere are unaffected by an inserted line of a skipped kind -/
theorem stepAbs_insert (s : Nat) (k : Kind) (ks1 ks2 : List Kind) :
    stepAbs T s k (ks1 ++ e :: ks2) = stepAbs T s k (ks1 ++ ks2) := by
  unfold stepAbs
  cases T.row? s with
  | none => rfl
  | some row => exact pickBranch_insert he hL k ks1 ks2 row.branches

theorem runPrefix_insert (s : Nat) (pre post : List Kind) :
    runPrefix T s pre (e :: post) = runPrefix T s pre post := by
  induction pre generalizing s with
  | nil => rfl
  | cons k ks ih => simp only [runPrefix, stepAbs_insert he hL, ih]

end insert

theorem runPrefix_insert_empty {T : Table} (hL : Spec.lookaheadsSkipEmpty T = true) (s : Nat)
    (pre post : List Kind) : runPrefix T s pre (.Empty :: post) = runPrefix T s pre post :=
  runPrefix_insert passes_empty (skipsEmpty_of_fact hL) s pre post

theorem pickBranch_of_find {T : Table} {k : Kind} {fut : List Kind} {bs : List Branch} {b0 : Branch}
    (hf : bs.find? (fun b => passes k b.kind) = some b0) (hg : guardOkAbs T b0 fut = true) :
    pickBranch T k fut bs = some b0 := by
  induction bs with
  | nil => cases hf
  | cons b bs ih =>
    simp only [List.find?] at hf
    cases hp : passes k b.kind with
    | true =>
      rw [hp] at hf; cases hf
      simp [pickBranch, hp, hg]
    | false =>
      rw [hp] at hf
      simp [pickBranch, hp, ih hf]

/-- **one step**: where a blank line is read as `Empty` first, it is consumed by an unguarded
    build-only self-loop -/
theorem stepAbs_empty {T : Table} (hE : Spec.emptySelfLoop T = true) {s : Nat}
    (hs : Spec.emptyFirst T s = true) (fut : List Kind) :
    ∃ b, stepAbs T s .Empty fut = some b ∧ b.kind = .Empty ∧ b.target = s ∧ b.prods = [.build] := by
  unfold Spec.emptyFirst at hs
  unfold stepAbs
  cases hrow : T.row? s with
  | none => rw [hrow] at hs; cases hs
  | some row =>
    rw [hrow] at hs
    simp only [] at hs ⊢
    cases hfind : row.branches.find? Spec.emptyTest with
    | none => rw [hfind] at hs; cases hs
    | some b0 =>
      rw [hfind] at hs
      have hk : b0.kind = .Empty := by simpa using hs
      have hrowmem : row ∈ T.rows := List.mem_of_find?_eq_some hrow
      have hid : row.id = s := by
        have := List.find?_some hrow
        simpa using this
      have hb0 : b0 ∈ row.branches := List.mem_of_find?_eq_some hfind
      unfold Spec.emptySelfLoop at hE
      rw [List.all_eq_true] at hE
      have h1 := hE row hrowmem
      rw [List.all_eq_true] at h1
      have h2 := h1 b0 hb0
      simp only [hk, bne_self_eq_false, Bool.false_or, Bool.and_eq_true, beq_iff_eq] at h2
      have hf : row.branches.find? (fun b => passes .Empty b.kind) = some b0 := by
        have : (fun b : Branch => passes .Empty b.kind) = Spec.emptyTest := by
          funext b; rw [passes_empty]; rfl
        rw [this]; exact hfind
      refine ⟨b0, pickBranch_of_find hf ?_, hk, by rw [h2.1.1, hid], h2.1.2⟩
      simp [guardOkAbs, h2.2]

/-- **whole run**: a blank line inserted where the run is in a state that reads it as `Empty`
    first adds exactly one `build Empty` event there and changes nothing else -/
theorem runAbs_insert_empty {T : Table} (hE : Spec.emptySelfLoop T = true)
    (hL : Spec.lookaheadsSkipEmpty T = true) (s : Nat) (pre post : List Kind) (s' : Nat) (e1 : List Ev)
    (hp : runPrefix T s pre post = some (s', e1)) (hs : Spec.emptyFirst T s' = true) :
    runAbs T s (pre ++ .Empty :: post) = (runAbs T s' post).map (fun r => (r.1, e1 ++ .build .Empty :: r.2)) ∧
    runAbs T s (pre ++ post) = (runAbs T s' post).map (fun r => (r.1, e1 ++ r.2)) := by
  constructor
  · rw [runAbs_append, runPrefix_insert_empty hL, hp]
    obtain ⟨b, hb, hk, ht, hpr⟩ := stepAbs_empty hE hs post
    simp only [runAbs, hb, ht, hk, hpr]
    cases runAbs T s' post with
    | none => rfl
    | some r => simp [prodEvents]
  · rw [runAbs_append, hp]
    simp only []
    cases runAbs T s' post <;> simp

/-- if the run fails before the insertion point it fails with and without the blank line -/
theorem runAbs_insert_empty_none {T : Table} (hL : Spec.lookaheadsSkipEmpty T = true) (s : Nat)
    (pre post : List Kind) (hp : runPrefix T s pre post = none) :
    runAbs T s (pre ++ .Empty :: post) = none ∧ runAbs T s (pre ++ post) = none := by
  constructor
  · rw [runAbs_append, runPrefix_insert_empty hL, hp]
  · rw [runAbs_append, hp]

theorem emptyFirst_of_tests {T : Table} (hB : Spec.emptyBeforeOther T = true) {s : Nat} {row : StateRow}
    (hrow : T.row? s = some row) (ht : row.branches.any (·.kind == .Empty) = true) :
    Spec.emptyFirst T s = true := by
  have hrowmem : row ∈ T.rows := List.mem_of_find?_eq_some hrow
  have hid : row.id = s := by
    have := List.find?_some hrow
    simpa using this
  unfold Spec.emptyBeforeOther at hB
  rw [List.all_eq_true] at hB
  have := hB row hrowmem
  rw [ht, hid] at this
  simpa using this

/-! ### a comment line directly before a structural line -/

theorem pickBranch_filter (T : Table) (k : Kind) (fut : List Kind) (bs : List Branch) :
    pickBranch T k fut bs = pickBranch T k fut (bs.filter fun b => passes k b.kind) := by
  induction bs with
  | nil => rfl
  | cons b bs ih =>
    cases hp : passes k b.kind with
    | true => simp only [List.filter, hp, pickBranch, ih]
    | false => simp only [List.filter, hp, pickBranch, ih, Bool.false_and]; rfl

theorem guardOkAbs_congr (T : Table) {b b' : Branch} (h : b.guard = b'.guard) (fut : List Kind) :
    guardOkAbs T b fut = guardOkAbs T b' fut := by
  unfold guardOkAbs; rw [h]

theorem pickBranch_view (T : Table) (k : Kind) (fut : List Kind) (bs bs' : List Branch)
    (h : bs.map Spec.branchView = bs'.map Spec.branchView) :
    (pickBranch T k fut bs = none ∧ pickBranch T k fut bs' = none) ∨
    ∃ b b', pickBranch T k fut bs = some b ∧ pickBranch T k fut bs' = some b' ∧
      Spec.branchView b' = Spec.branchView b := by
  induction bs generalizing bs' with
  | nil =>
    cases bs' with
    | nil => exact Or.inl ⟨rfl, rfl⟩
    | cons b' r => cases h
  | cons b r ih =>
    cases bs' with
    | nil => cases h
    | cons b' r' =>
      simp only [List.map_cons, List.cons.injEq] at h
      have hk : b.kind = b'.kind := congrArg (·.1) h.1
      have hg : b.guard = b'.guard := congrArg (·.2.1) h.1
      simp only [pickBranch, hk, guardOkAbs_congr T hg fut]
      cases passes k b'.kind && guardOkAbs T b' fut with
      | true => exact Or.inr ⟨b, b', rfl, rfl, h.1.symm⟩
      | false => exact ih r' h.2

theorem stepAbs_view {T : Table} {r r' : Nat} {row row' : StateRow} (hr : T.row? r = some row)
    (hr' : T.row? r' = some row') {k : Kind} (hv : Spec.viewOf k row = Spec.viewOf k row') (fut : List Kind) :
    (stepAbs T r k fut = none ∧ stepAbs T r' k fut = none) ∨
    ∃ b b', stepAbs T r k fut = some b ∧ stepAbs T r' k fut = some b' ∧
      Spec.branchView b' = Spec.branchView b := by
  unfold stepAbs
  rw [hr, hr']
  simp only []
  rw [pickBranch_filter T k fut row.branches, pickBranch_filter T k fut row'.branches]
  exact pickBranch_view T k fut _ _ hv

/-- what `commentBefore` says about one state that reads a comment line as a comment -/
theorem commentBefore_at {T : Table} (hC : Spec.commentBefore T = true) {s : Nat}
    (hs : Spec.commentFirst T s = true) :
    ∃ row c row', T.row? s = some row ∧ row.branches.find? (fun b => passes .Comment b.kind) = some c ∧
      c.kind = .Comment ∧ c.guard = none ∧ Spec.dropDescr c.prods = [.build] ∧
      T.row? c.target = some row' ∧ ∀ k ∈ Spec.structural, Spec.viewOf k row = Spec.viewOf k row' := by
  unfold Spec.commentFirst at hs
  cases hrow : T.row? s with
  | none => rw [hrow] at hs; cases hs
  | some row =>
    rw [hrow] at hs
    simp only [] at hs
    cases hc : Spec.commentBranch row with
    | none => rw [hc] at hs; cases hs
    | some c =>
      rw [hc] at hs
      have hk : c.kind = .Comment := by simpa using hs
      have hrowmem : row ∈ T.rows := List.mem_of_find?_eq_some hrow
      unfold Spec.commentBefore at hC
      rw [List.all_eq_true] at hC
      have h1 := hC row hrowmem
      rw [hc] at h1
      simp only [hk, bne_self_eq_false, Bool.false_or, Bool.and_eq_true, beq_iff_eq] at h1
      cases hrow' : T.row? c.target with
      | none => rw [hrow'] at h1; simp at h1
      | some row' =>
        rw [hrow'] at h1
        refine ⟨row, c, row', rfl, hc, hk, h1.1.1, h1.1.2, hrow', ?_⟩
        intro k hk'
        have := h1.2
        rw [List.all_eq_true] at this
        simpa using this k hk'

/-- events with `Description` start/end brackets removed -/
def dropDescrEv (evs : List Ev) : List Ev :=
  evs.filter fun e => !(e == .start .Description || e == .end_ .Description)

theorem prodEvents_dropDescr (k : Kind) (ps : List Prod) :
    prodEvents k (Spec.dropDescr ps) = dropDescrEv (prodEvents k ps) := by
  induction ps with
  | nil => rfl
  | cons p ps ih =>
    cases p with
    | build => simp [Spec.dropDescr, prodEvents, dropDescrEv, ih]
    | start r =>
      by_cases hr : r = .Description
      · subst hr; simp [Spec.dropDescr, prodEvents, dropDescrEv, ih]
      · simp [Spec.dropDescr, prodEvents, dropDescrEv, ih, hr]
    | end_ r =>
      by_cases hr : r = .Description
      · subst hr; simp [Spec.dropDescr, prodEvents, dropDescrEv, ih]
      · simp [Spec.dropDescr, prodEvents, dropDescrEv, ih, hr]

/-- **whole run**: a comment line inserted directly before a structural line `k`, at a point where
    the run reads a comment as a comment.  Either `k` is unexpected there with and without the
    comment, or the comment is consumed by a branch `c` that only builds (up to opening a
    `Description`), `k` is then consumed by a branch `b'` with the same test, guard, target and
    productions (up to `Description` brackets) as the branch `b` that consumes it without the
    comment, and the rest of the run is the same. -/
theorem runAbs_insert_comment {T : Table} (hC : Spec.commentBefore T = true)
    (hL : Spec.lookaheadsSkipComment T = true) (s : Nat) (pre : List Kind) (k : Kind) (post : List Kind)
    (hk : k ∈ Spec.structural) (s' : Nat) (e1 : List Ev)
    (hp : runPrefix T s pre (k :: post) = some (s', e1)) (hs : Spec.commentFirst T s' = true) :
    (runAbs T s (pre ++ k :: post) = none ∧ runAbs T s (pre ++ .Comment :: k :: post) = none) ∨
    ∃ c b b' : Branch, c.kind = .Comment ∧ Spec.dropDescr c.prods = [.build] ∧
      Spec.branchView b' = Spec.branchView b ∧
      runAbs T s (pre ++ k :: post) =
        (runAbs T b.target post).map (fun r => (r.1, e1 ++ (prodEvents b.kind b.prods ++ r.2))) ∧
      runAbs T s (pre ++ .Comment :: k :: post) =
        (runAbs T b.target post).map
          (fun r => (r.1, e1 ++ (prodEvents .Comment c.prods ++ (prodEvents b.kind b'.prods ++ r.2)))) := by
  obtain ⟨row, c, row', hrow, hfind, hck, hcg, hcp, hrow', hview⟩ := commentBefore_at hC hs
  have hstepC : stepAbs T s' .Comment (k :: post) = some c := by
    unfold stepAbs; rw [hrow]
    exact pickBranch_of_find hfind (by simp [guardOkAbs, hcg])
  have hpre : runPrefix T s pre (.Comment :: k :: post) = some (s', e1) := by
    rw [runPrefix_insert passes_comment (skipsComment_of_fact hL)]; exact hp
  rw [runAbs_append, runAbs_append, hp, hpre]
  simp only [runAbs, hstepC]
  rcases stepAbs_view hrow hrow' (hview k hk) post with ⟨h1, h2⟩ | ⟨b, b', h1, h2, hbv⟩
  · left; simp [h1, h2]
  · right
    have hkind : b'.kind = b.kind := congrArg (·.1) hbv
    have htarget : b'.target = b.target := congrArg (·.2.2.1) hbv
    refine ⟨c, b, b', hck, hcp, hbv, ?_, ?_⟩
    · simp only [h1]
      cases runAbs T b.target post <;> simp
    · simp only [h2, hck, hkind, htarget]
      cases runAbs T b.target post <;> simp

/-- … in terms of events: up to `Description` brackets, the run with the comment has exactly one
    more event, `build Comment`, at the insertion point; same final state -/
theorem runAbs_insert_comment_events {T : Table} (hC : Spec.commentBefore T = true)
    (hL : Spec.lookaheadsSkipComment T = true) (s : Nat) (pre : List Kind) (k : Kind) (post : List Kind)
    (hk : k ∈ Spec.structural) (s' : Nat) (e1 : List Ev)
    (hp : runPrefix T s pre (k :: post) = some (s', e1)) (hs : Spec.commentFirst T s' = true) :
    (runAbs T s (pre ++ k :: post) = none ∧ runAbs T s (pre ++ .Comment :: k :: post) = none) ∨
    ∃ sf evs evs' rest, runAbs T s (pre ++ k :: post) = some (sf, evs) ∧
      runAbs T s (pre ++ .Comment :: k :: post) = some (sf, evs') ∧
      dropDescrEv evs = dropDescrEv e1 ++ rest ∧
      dropDescrEv evs' = dropDescrEv e1 ++ .build .Comment :: rest := by
  rcases runAbs_insert_comment hC hL s pre k post hk s' e1 hp hs with h | ⟨c, b, b', hck, hcp, hbv, h1, h2⟩
  · exact Or.inl h
  · cases hr : runAbs T b.target post with
    | none => rw [hr] at h1 h2; exact Or.inl ⟨h1, h2⟩
    | some r =>
      rw [hr] at h1 h2
      have hprods : Spec.dropDescr b'.prods = Spec.dropDescr b.prods := congrArg (·.2.2.2) hbv
      refine Or.inr ⟨r.1, _, _, dropDescrEv (prodEvents b.kind b.prods) ++ dropDescrEv r.2, h1, h2, ?_, ?_⟩
      · simp [dropDescrEv, List.filter_append]
      · have e1' : dropDescrEv (prodEvents .Comment c.prods) = [.build .Comment] := by
          rw [← prodEvents_dropDescr, hcp]; rfl
        have e2' : dropDescrEv (prodEvents b.kind b'.prods) = dropDescrEv (prodEvents b.kind b.prods) := by
          rw [← prodEvents_dropDescr, hprods, prodEvents_dropDescr]
        have happ : ∀ x y, dropDescrEv (x ++ y) = dropDescrEv x ++ dropDescrEv y := by
          intro x y; simp [dropDescrEv, List.filter_append]
        simp only [happ, e1', e2', List.singleton_append]

end GV.Lemmas
