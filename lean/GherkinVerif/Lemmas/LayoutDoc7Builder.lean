/-
  Lemmas/LayoutDoc7Builder.lean — property C16, a doc string moving as one block: the builder.

  A generalised copy of the builder relation of Lemmas/LayoutDoc3Builder.lean.  When a doc string is
  moved as a block its content lines are matched as `Other` in both runs with the SAME text and the
  same column 1 (`match_Other` sets `indent = 0`); so the two `Other` tokens are NOT related by
  `TokMap (indentMap w)` (that would want the column moved).  The builder reads of an `Other`
  token only its text (`Description`, `DocString`), so `ItemsRelO` has one more constructor than
  `Layout3.ItemsRelO`: two tokens under the key `.tok .Other` with equal texts.  Everything else is
  as in Lemmas/LayoutDoc3Builder.lean (whose token-level and `BSimM` lemmas are reused).
-/
import GherkinVerif.Lemmas.LayoutDoc3Builder
namespace GV
namespace Layout7
open Lemmas Spec Layout3

variable {f : LocMap}

/-! ### builder values -/

/-- two item lists: same keys in the same order with related values (any values under the keys no
    transform reads; tokens with the same text under the key `.tok .Other`); the second may hold
    extra items under the key `.tok .Empty` -/
inductive ItemsRelO (R : Val → Val → Prop) : List (Key × Val) → List (Key × Val) → Prop
  | nil : ItemsRelO R [] []
  | cons (k : Key) {v w : Val} {xs ys : List (Key × Val)} (h : R v w) (t : ItemsRelO R xs ys) :
      ItemsRelO R ((k, v) :: xs) ((k, w) :: ys)
  | free (k : Key) (hk : freeKey k = true) (v w : Val) {xs ys : List (Key × Val)} (t : ItemsRelO R xs ys) :
      ItemsRelO R ((k, v) :: xs) ((k, w) :: ys)
  | extra (w : Val) {xs ys : List (Key × Val)} (t : ItemsRelO R xs ys) :
      ItemsRelO R xs ((.tok .Empty, w) :: ys)
  | other {a b : Token} (h : b.text = a.text) {xs ys : List (Key × Val)} (t : ItemsRelO R xs ys) :
      ItemsRelO R ((.tok .Other, .tok a) :: xs) ((.tok .Other, .tok b) :: ys)

/-- the second value is the first with every source position renamed by `f` -/
inductive ValMapO (f : LocMap) : Val → Val → Prop
  | tok {a b : Token} (h : TokMap f a b) : ValMapO f (.tok a) (.tok b)
  | none : ValMapO f .none .none
  | step (s : Step) : ValMapO f (.step s) (.step (mapStep f s))
  | docString (d : DocString) : ValMapO f (.docString d) (.docString (mapDocString f d))
  | dataTable (d : DataTable) : ValMapO f (.dataTable d) (.dataTable (mapTable f d))
  | background (b : Background) : ValMapO f (.background b) (.background (mapBackground f b))
  | scenario (s : Scenario) : ValMapO f (.scenario s) (.scenario (mapScenario f s))
  | examples (e : Examples) : ValMapO f (.examples e) (.examples (mapExamples f e))
  | rows (rs : List Row) : ValMapO f (.rows rs) (.rows (rs.map (mapRow f)))
  | descr (s : Str) : ValMapO f (.descr s) (.descr s)
  | rule (r : Rule) : ValMapO f (.rule r) (.rule (mapRule f r))
  | feature (x : Feature) : ValMapO f (.feature x) (.feature (mapFeature f x))
  | doc (d : Doc) : ValMapO f (.doc d) (.doc (mapDoc f d))
  | raw (rt : RuleType) {xs ys : List (Key × Val)} (h : ItemsRelO (ValMapO f) xs ys) :
      ValMapO f (.raw rt xs) (.raw rt ys)

abbrev ItemsMapO (f : LocMap) := ItemsRelO (ValMapO f)

theorem ValMapO.examples' {f : LocMap} {e e' : Examples} (h : e' = mapExamples f e) :
    ValMapO f (.examples e) (.examples e') := h ▸ .examples e
theorem ValMapO.rule' {f : LocMap} {e e' : Rule} (h : e' = mapRule f e) :
    ValMapO f (.rule e) (.rule e') := h ▸ .rule e
theorem ValMapO.feature' {f : LocMap} {e e' : Feature} (h : e' = mapFeature f e) :
    ValMapO f (.feature e) (.feature e') := h ▸ .feature e


theorem ItemsRelO.append {R : Val → Val → Prop} {xs ys xs' ys' : List (Key × Val)}
    (h : ItemsRelO R xs ys) (h' : ItemsRelO R xs' ys') : ItemsRelO R (xs ++ xs') (ys ++ ys') := by
  induction h with
  | nil => exact h'
  | cons k hv _ ih => exact .cons k hv ih
  | free k hk v w _ ih => exact .free k hk v w ih
  | extra w _ ih => exact .extra w ih
  | other h _ ih => exact .other h ih

/-- the keys whose items are not related by `R`: those no transform reads, and `.tok .Other` -/
def freeKeyO (k : Key) : Bool := freeKey k || (Key.tok .Other == k)

theorem getItems_map {R : Val → Val → Prop} {xs ys : List (Key × Val)} (h : ItemsRelO R xs ys) (k : Key)
    (hkO : freeKeyO k = false) : All2 R (getItems xs k) (getItems ys k) := by
  have hk : freeKey k = false := by
    unfold freeKeyO at hkO
    simp only [Bool.or_eq_false_iff] at hkO
    exact hkO.1
  have hkother : (Key.tok .Other == k) = false := by
    unfold freeKeyO at hkO
    simp only [Bool.or_eq_false_iff] at hkO
    exact hkO.2
  have hk0 : (Key.tok .Empty == k) = false := by
    unfold freeKey at hk
    simp only [Bool.or_eq_false_iff] at hk
    exact hk.1
  induction h with
  | nil => exact .nil
  | free k' hk' v w _ ih =>
    have hne : (k' == k) = false := by
      cases hkk : k' == k with
      | false => rfl
      | true =>
        have : k' = k := by simpa using hkk
        rw [this, hk] at hk'
        cases hk'
    unfold getItems at ih ⊢
    simp only [List.filter_cons, hne, Bool.false_eq_true, ↓reduceIte]
    exact ih
  | cons k' hv _ ih =>
    unfold getItems at ih ⊢
    simp only [List.filter_cons]
    by_cases hk' : (k' == k) = true
    · simp only [hk', ↓reduceIte, List.map_cons]
      exact .cons hv ih
    · simp only [hk', Bool.false_eq_true, ↓reduceIte]
      exact ih
  | extra w _ ih =>
    unfold getItems at ih ⊢
    simp only [List.filter_cons, hk0, Bool.false_eq_true, ↓reduceIte]
    exact ih
  | other h _ ih =>
    unfold getItems at ih ⊢
    simp only [List.filter_cons, hkother, Bool.false_eq_true, ↓reduceIte]
    exact ih

/-- the `Other` tokens of two related nodes have the same texts -/
theorem getTokens_other {xs ys : List (Key × Val)} (h : ItemsMapO f xs ys) :
    All2 (fun a b : Token => b.text = a.text) (getTokens xs .Other) (getTokens ys .Other) := by
  unfold getTokens getItems
  induction h with
  | nil => exact .nil
  | free k' hk' v w _ ih =>
    have hne : (k' == Key.tok .Other) = false := by
      cases hkk : k' == Key.tok .Other with
      | false => rfl
      | true =>
        have : k' = Key.tok .Other := by simpa using hkk
        rw [this] at hk'
        cases hk'
    simp only [List.filter_cons, hne, Bool.false_eq_true, ↓reduceIte]
    exact ih
  | cons k' hv _ ih =>
    simp only [List.filter_cons]
    by_cases hk' : (k' == Key.tok .Other) = true
    · simp only [hk', ↓reduceIte, List.map_cons]
      cases hv <;> simp only [List.filterMap_cons] <;> first | exact ih | exact .cons (TokMap.text ‹_›) ih
    · simp only [hk', Bool.false_eq_true, ↓reduceIte]
      exact ih
  | extra w _ ih =>
    have hne : (Key.tok .Empty == Key.tok .Other) = false := rfl
    simp only [List.filter_cons, hne, Bool.false_eq_true, ↓reduceIte]
    exact ih
  | other h _ ih =>
    have he : (Key.tok .Other == Key.tok .Other) = true := rfl
    simp only [List.filter_cons, he, ↓reduceIte, List.map_cons, List.filterMap_cons]
    exact .cons h ih

theorem getSingle_map {xs ys : List (Key × Val)} (h : ItemsMapO f xs ys) (k : Key)
    (hk : freeKeyO k = false) : ValMapO f (getSingle xs k) (getSingle ys k) := by
  unfold getSingle
  have := getItems_map h k hk
  revert this
  generalize getItems xs k = vs
  generalize getItems ys k = ws
  intro hvw
  cases hvw with
  | nil => exact .none
  | cons hv _ => exact hv

theorem getTokens_map {xs ys : List (Key × Val)} (h : ItemsMapO f xs ys) (k : Kind)
    (hk : freeKeyO (.tok k) = false) :
    All2 (TokMap f) (getTokens xs k) (getTokens ys k) := by
  unfold getTokens
  have := getItems_map h (.tok k) hk
  revert this
  generalize getItems xs (.tok k) = vs
  generalize getItems ys (.tok k) = ws
  intro hvw
  induction hvw with
  | nil => exact .nil
  | cons hv _ ih =>
    cases hv <;> simp only [List.filterMap_cons] <;> first | exact ih | exact .cons ‹_› ih

theorem needToken_map {xs ys : List (Key × Val)} (h : ItemsMapO f xs ys) (k : Kind)
    (hk : freeKeyO (.tok k) = false) :
    BSimM f (TokMap f) (needToken xs k) (needToken ys k) := by
  unfold needToken
  have := getSingle_map h (.tok k) hk
  revert this
  generalize getSingle xs (.tok k) = v
  generalize getSingle ys (.tok k) = w
  intro hvw
  cases hvw <;> first | exact BSimM.pure ‹_› | exact BSimM.crash _

/-! ### reading a node -/

theorem getTags_map {xs ys : List (Key × Val)} (h : ItemsMapO f xs ys) :
    BSimM f (fun a b => b = a.map (mapTag f)) (getTags xs) (getTags ys) := by
  unfold getTags
  have := getSingle_map h (.rule .Tags) rfl
  revert this
  generalize getSingle xs (.rule .Tags) = v
  generalize getSingle ys (.rule .Tags) = w
  intro hvw
  cases hvw <;> try exact BSimM.crash _
  case none => exact BSimM.pure rfl
  case raw rt is js hi =>
    simp only []
    refine BSimM.bind (S := fun (a b : List Tag) => b = a.map (mapTag f))
      (R := All2 (fun (a b : List Tag) => b = a.map (mapTag f))) ?_ fun a b hab => BSimM.pure ?_
    · refine BSimM.mapM' (R := TokMap f) (fun t1 t2 ht => ?_) (getTokens_map hi .TagLine rfl)
      rw [ht.items]
      have key : ∀ its : List (Nat × Str), (∀ it ∈ its, it ∈ t1.items) →
          BSimM f (fun (a b : List Tag) => b = a.map (mapTag f))
            (mapM' (fun (it : Nat × Str) => do
              let id ← GV.nextId
              Pure.pure ({ id := id, loc := getLocation t1 (some it.1), name := it.2 } : Tag)) its)
            (mapM' (fun (it : Nat × Str) => do
              let id ← GV.nextId
              Pure.pure ({ id := id, loc := getLocation t2 (some it.1), name := it.2 } : Tag))
              (its.map fun it => (f.cl t1.lineNo it.1, it.2))) := by
        intro its
        induction its with
        | nil => intro _; exact BSimM.pure rfl
        | cons it its ih =>
          intro hmem
          simp only [List.map_cons, GV.mapM']
          refine BSimM.bind (R := fun (a b : Tag) => b = mapTag f a) ?_ fun a b hab => ?_
          · refine BSimM.bind BSimM.nextId fun i j hij => ?_
            subst hij
            refine BSimM.pure ?_
            simp only [mapTag]
            rw [ht.getLocation_some (hmem it List.mem_cons_self)]
          · refine BSimM.bind (ih fun it' h' => hmem it' (List.mem_cons_of_mem _ h')) fun as bs habs => ?_
            subst hab habs
            exact BSimM.pure rfl
      exact key _ fun _ h => h
    · rw [all2_map_eq hab, List.map_flatten]
theorem getTableRows_map {xs ys : List (Key × Val)} (h : ItemsMapO f xs ys) :
    BSimM f (fun a b => b = a.map (mapRow f)) (getTableRows xs) (getTableRows ys) := by
  unfold getTableRows
  refine BSimM.bind (R := fun (a b : List Row) => b = a.map (mapRow f) ∧ ∀ r ∈ a, r.loc.col ≠ some 0) ?_
    fun a b hab => ?_
  · refine (BSimM.mapM' (R := TokMap f) (S := fun (a b : Row) => b = mapRow f a ∧ a.loc.col ≠ some 0)
      (fun t1 t2 ht => ?_) (getTokens_map h .TableRow rfl)).mono fun a b hab => ?_
    · refine BSimM.bind BSimM.nextId fun i j hij => ?_
      subst hij
      refine BSimM.pure ⟨?_, ht.col0⟩
      simp only [mapRow]
      rw [ht.getLocation_none, ht.getCells]
    · clear h
      induction hab with
      | nil => exact ⟨rfl, fun r hr => by cases hr⟩
      | cons hab _ ih =>
        refine ⟨by rw [hab.1, ih.1]; rfl, fun r hr => ?_⟩
        rcases List.mem_cons.1 hr with rfl | hr
        · exact hab.2
        · exact ih.2 r hr
  · obtain ⟨hab, hcol⟩ := hab
    subst hab
    rw [raggedRow_map]
    cases hr : raggedRow a with
    | none => exact BSimM.pure rfl
    | some r =>
      refine BSimM.throw (.ast ⟨.raggedTable, r.loc, lit "inconsistent cell count within the table"⟩) ?_
      have hmem : r ∈ a := by
        unfold raggedRow at hr
        cases a with
        | nil => cases hr
        | cons r0 rs => exact List.mem_of_find?_eq_some hr
      exact hcol r hmem

theorem getDescription_map {xs ys : List (Key × Val)} (h : ItemsMapO f xs ys) :
    BSimM f Eq (getDescription xs) (getDescription ys) := by
  unfold getDescription
  have := getItems_map h (.rule .Description) rfl
  revert this
  generalize getItems xs (.rule .Description) = vs
  generalize getItems ys (.rule .Description) = ws
  intro hvw
  cases hvw with
  | nil => exact BSimM.pure rfl
  | cons hv _ => cases hv <;> first | exact BSimM.pure rfl | exact BSimM.crash _

theorem filterMap_map {α} {g : Val → Option α} {m : α → α} (hg : ∀ v w, ValMapO f v w → g w = (g v).map m)
    {vs ws : List Val} (h : All2 (ValMapO f) vs ws) : ws.filterMap g = (vs.filterMap g).map m := by
  induction h with
  | nil => rfl
  | cons hv _ ih =>
    simp only [List.filterMap_cons, hg _ _ hv]
    cases g _ with
    | none => exact ih
    | some a => simp only [Option.map_some, List.map_cons, ih]

theorem getSteps_map {xs ys : List (Key × Val)} (h : ItemsMapO f xs ys) :
    getSteps ys = (getSteps xs).map (mapStep f) := by
  unfold getSteps
  exact filterMap_map (fun v w hvw => by cases hvw <;> rfl) (getItems_map h (.rule .Step) rfl)

theorem getScenarios_map {xs ys : List (Key × Val)} (h : ItemsMapO f xs ys) :
    getScenarios ys = (getScenarios xs).map (mapScenario f) := by
  unfold getScenarios
  exact filterMap_map (fun v w hvw => by cases hvw <;> rfl) (getItems_map h (.rule .ScenarioDefinition) rfl)

theorem getBackground_map {xs ys : List (Key × Val)} (h : ItemsMapO f xs ys) :
    getBackground ys = (getBackground xs).map (mapBackground f) := by
  unfold getBackground
  have := getSingle_map h (.rule .Background) rfl
  revert this
  generalize getSingle xs (.rule .Background) = v
  generalize getSingle ys (.rule .Background) = w
  intro hvw
  cases hvw <;> rfl

/-! ### `transform_node` -/

theorem transformNode_map (cs : List Comment) (rt : RuleType) {xs ys : List (Key × Val)} (h : ItemsMapO f xs ys) :
    BSimM f (ValMapO f) (transformNode cs ⟨rt, xs⟩) (transformNode (cs.map (mapComment f)) ⟨rt, ys⟩) := by
  cases rt <;> simp only [transformNode]
  case None_ => exact BSimM.pure (.raw _ h)
  case FeatureHeader => exact BSimM.pure (.raw _ h)
  case RuleHeader => exact BSimM.pure (.raw _ h)
  case Scenario => exact BSimM.pure (.raw _ h)
  case Examples => exact BSimM.pure (.raw _ h)
  case StepArg => exact BSimM.pure (.raw _ h)
  case Tags => exact BSimM.pure (.raw _ h)
  case DescriptionHelper => exact BSimM.pure (.raw _ h)
  case GherkinDocument =>
    refine BSimM.pure ?_
    have := getSingle_map h (.rule .Feature) rfl
    revert this
    generalize getSingle xs (.rule .Feature) = v
    generalize getSingle ys (.rule .Feature) = w
    intro hvw
    cases hvw <;> exact .doc _
  case ExamplesTable =>
    exact BSimM.bind (getTableRows_map h) fun a b hab => by subst hab; exact BSimM.pure (.rows a)
  case DataTable =>
    refine BSimM.bind (getTableRows_map h) fun a b hab => ?_
    subst hab
    cases a with
    | nil => exact BSimM.crash _
    | cons r0 rs => exact BSimM.pure (.dataTable ⟨r0.loc, r0 :: rs⟩)
  case Description =>
    refine BSimM.bind (R := Eq) ?_ fun a b hab => by subst hab; exact BSimM.pure (.descr _)
    refine (BSimM.mapM' (R := fun a b : Token => b.text = a.text) (S := Eq) (fun t1 t2 ht => ?_)
      (getTokens_other h)).mono fun a b hab => all2_eq hab
    rw [ht]; exact BSimM.need _ _
  case DocString =>
    have hs := getTokens_map h .DocStringSeparator rfl
    revert hs
    generalize getTokens xs .DocStringSeparator = l1
    generalize getTokens ys .DocStringSeparator = l2
    intro hs
    cases hs with
    | nil => exact BSimM.crash _
    | cons hab _ =>
      simp only []
      rw [hab.text, hab.keyword, hab.getLocation_none]
      refine BSimM.bind (BSimM.need _ _) fun a b hab => ?_
      subst hab
      refine BSimM.bind (BSimM.need _ _) fun c d hcd => ?_
      subst hcd
      refine BSimM.bind (R := Eq) ?_ fun a b hab => by subst hab; exact BSimM.pure (.docString _)
      refine (BSimM.mapM' (R := fun a b : Token => b.text = a.text) (S := Eq) (fun t1 t2 ht => ?_)
        (getTokens_other h)).mono fun a b hab => all2_eq hab
      rw [ht]; exact BSimM.need _ _
  case Step =>
    have h1 := getSingle_map h (.rule .DataTable) rfl
    have h2 := getSingle_map h (.rule .DocString) rfl
    revert h1 h2
    generalize getSingle xs (.rule .DataTable) = v1
    generalize getSingle ys (.rule .DataTable) = w1
    generalize getSingle xs (.rule .DocString) = v2
    generalize getSingle ys (.rule .DocString) = w2
    intro h1 h2
    refine BSimM.bind BSimM.nextId fun i j hij => ?_
    subst hij
    refine BSimM.bind (needToken_map h .StepLine rfl) fun a b hab => ?_
    rw [hab.keyword, hab.ktype, hab.text, hab.getLocation_none]
    refine BSimM.bind (BSimM.need _ _) fun _ _ e1 => ?_
    subst e1
    refine BSimM.bind (BSimM.need _ _) fun _ _ e2 => ?_
    subst e2
    refine BSimM.bind (BSimM.need _ _) fun _ _ e3 => ?_
    subst e3
    refine BSimM.pure ?_
    cases h1 <;> first | exact .step _ | (cases h2 <;> exact .step _)
  case Background =>
    refine BSimM.bind (needToken_map h .BackgroundLine rfl) fun a b hab => ?_
    rw [hab.keyword, hab.text, hab.getLocation_none, getSteps_map h]
    refine BSimM.bind (getDescription_map h) fun _ _ e0 => ?_
    subst e0
    refine BSimM.bind BSimM.nextId fun i j hij => ?_
    subst hij
    refine BSimM.bind (BSimM.need _ _) fun _ _ e1 => ?_
    subst e1
    refine BSimM.bind (BSimM.need _ _) fun _ _ e2 => ?_
    subst e2
    exact BSimM.pure (.background _)
  case ScenarioDefinition =>
    refine BSimM.bind (getTags_map h) fun tags tags' htags => ?_
    subst htags
    have h1 := getSingle_map h (.rule .Scenario) rfl
    revert h1
    generalize getSingle xs (.rule .Scenario) = v1
    generalize getSingle ys (.rule .Scenario) = w1
    intro h1
    cases h1 <;> try exact BSimM.crash _
    case raw rt sc sc' hsc =>
      simp only []
      refine BSimM.bind (needToken_map hsc .ScenarioLine rfl) fun a b hab => ?_
      rw [hab.keyword, hab.text, hab.getLocation_none, getSteps_map hsc,
        filterMap_map (m := mapExamples f) ?_ (getItems_map hsc (.rule .ExamplesDefinition) rfl)]
      · refine BSimM.bind (getDescription_map hsc) fun _ _ e0 => ?_
        subst e0
        refine BSimM.bind BSimM.nextId fun i j hij => ?_
        subst hij
        refine BSimM.bind (BSimM.need _ _) fun _ _ e1 => ?_
        subst e1
        refine BSimM.bind (BSimM.need _ _) fun _ _ e2 => ?_
        subst e2
        exact BSimM.pure (.scenario _)
      · intro v w hvw; cases hvw <;> rfl
  case ExamplesDefinition =>
    refine BSimM.bind (getTags_map h) fun tags tags' htags => ?_
    subst htags
    have h1 := getSingle_map h (.rule .Examples) rfl
    revert h1
    generalize getSingle xs (.rule .Examples) = v1
    generalize getSingle ys (.rule .Examples) = w1
    intro h1
    cases h1 <;> try exact BSimM.crash _
    case raw rt ex ex' hex =>
      simp only []
      refine BSimM.bind (needToken_map hex .ExamplesLine rfl) fun a b hab => ?_
      rw [hab.keyword, hab.text, hab.getLocation_none]
      refine BSimM.bind (getDescription_map hex) fun _ _ e0 => ?_
      subst e0
      have h2 := getSingle_map hex (.rule .ExamplesTable) rfl
      revert h2
      generalize getSingle ex (.rule .ExamplesTable) = v2
      generalize getSingle ex' (.rule .ExamplesTable) = w2
      intro h2
      refine BSimM.bind BSimM.nextId fun i j hij => ?_
      subst hij
      refine BSimM.bind (BSimM.need _ _) fun _ _ e1 => ?_
      subst e1
      refine BSimM.bind (BSimM.need _ _) fun _ _ e2 => ?_
      subst e2
      refine BSimM.pure ?_
      cases h2 <;> try exact .examples _
      case rows rs =>
        refine ValMapO.examples' ?_
        simp only [mapExamples, List.head?_map, List.map_drop]
  case Rule =>
    rw [getBackground_map h, getScenarios_map h]
    have h1 := getSingle_map h (.rule .RuleHeader) rfl
    revert h1
    generalize getSingle xs (.rule .RuleHeader) = v1
    generalize getSingle ys (.rule .RuleHeader) = w1
    intro h1
    cases h1 <;> try exact BSimM.pure .none
    case raw rt hd hd' hhd =>
      simp only []
      refine BSimM.bind (getTags_map hhd) fun tags tags' htags => ?_
      subst htags
      have h2 := getSingle_map hhd (.tok .RuleLine) rfl
      revert h2
      generalize getSingle hd (.tok .RuleLine) = v2
      generalize getSingle hd' (.tok .RuleLine) = w2
      intro h2
      cases h2 <;> try exact BSimM.pure .none
      case tok a b hab =>
        simp only []
        rw [hab.keyword, hab.text, hab.getLocation_none]
        refine BSimM.bind (getDescription_map hhd) fun _ _ e0 => ?_
        subst e0
        refine BSimM.bind BSimM.nextId fun i j hij => ?_
        subst hij
        refine BSimM.bind (BSimM.need _ _) fun _ _ e1 => ?_
        subst e1
        refine BSimM.bind (BSimM.need _ _) fun _ _ e2 => ?_
        subst e2
        refine BSimM.pure (ValMapO.rule' ?_)
        simp only [mapRule, List.map_append, List.map_map]
        cases getBackground xs <;> rfl
  case Feature =>
    rw [getBackground_map h, getScenarios_map h,
      filterMap_map (m := mapRule f) ?_ (getItems_map h (.rule .Rule) rfl)]
    · have h1 := getSingle_map h (.rule .FeatureHeader) rfl
      revert h1
      generalize getSingle xs (.rule .FeatureHeader) = v1
      generalize getSingle ys (.rule .FeatureHeader) = w1
      intro h1
      cases h1 <;> try exact BSimM.pure .none
      case raw rt hd hd' hhd =>
        simp only []
        refine BSimM.bind (getTags_map hhd) fun tags tags' htags => ?_
        subst htags
        have h2 := getSingle_map hhd (.tok .FeatureLine) rfl
        revert h2
        generalize getSingle hd (.tok .FeatureLine) = v2
        generalize getSingle hd' (.tok .FeatureLine) = w2
        intro h2
        cases h2 <;> try exact BSimM.pure .none
        case tok a b hab =>
          simp only []
          rw [hab.keyword, hab.text, hab.getLocation_none, hab.dialect]
          refine BSimM.bind (getDescription_map hhd) fun _ _ e0 => ?_
          subst e0
          refine BSimM.bind (BSimM.need _ _) fun _ _ e1 => ?_
          subst e1
          refine BSimM.bind (BSimM.need _ _) fun _ _ e2 => ?_
          subst e2
          refine BSimM.pure (ValMapO.feature' ?_)
          simp only [mapFeature, List.map_append, List.map_map]
          cases getBackground xs <;> rfl
    · intro v w hvw; cases hvw <;> rfl
/-! ### builder states -/

def NodeMapO (f : LocMap) (a b : Node) : Prop := a.rt = b.rt ∧ ItemsMapO f a.items b.items

/-- the second builder state is the first with every source position renamed (and possibly extra
    blank-line tokens in its nodes) -/
def BMapO (f : LocMap) (β1 β2 : BState) : Prop :=
  All2 (NodeMapO f) β1.stack β2.stack ∧ β2.comments = β1.comments.map (mapComment f)

theorem ItemsRelO.refl_of {R : Val → Val → Prop} (hR : ∀ v, R v v) : ∀ xs : List (Key × Val), ItemsRelO R xs xs
  | [] => .nil
  | (k, v) :: xs => .cons k (hR v) (ItemsRelO.refl_of hR xs)

theorem BMapO.reset : BMapO f BState.reset BState.reset :=
  ⟨.cons ⟨rfl, .nil⟩ .nil, rfl⟩

theorem BMapO.startRule {β1 β2 : BState} (h : BMapO f β1 β2) (r : RuleType) :
    BMapO f (β1.startRule r) (β2.startRule r) :=
  ⟨.cons ⟨rfl, .nil⟩ h.1, h.2⟩

theorem addToTop_map {s1 s2 : List Node} (h : All2 (NodeMapO f) s1 s2) (k : Key) {v w : Val} (hv : ValMapO f v w) :
    (addToTop s1 k v = none ∧ addToTop s2 k w = none) ∨
    ∃ s1' s2', addToTop s1 k v = some s1' ∧ addToTop s2 k w = some s2' ∧ All2 (NodeMapO f) s1' s2' := by
  cases h with
  | nil => exact .inl ⟨rfl, rfl⟩
  | cons hab ht =>
    exact .inr ⟨_, _, rfl, rfl, .cons ⟨hab.1, hab.2.append (.cons k hv .nil)⟩ ht⟩

/-- an extra blank-line token on top of the second stack -/
theorem addToTop_extra {s1 s2 : List Node} (h : All2 (NodeMapO f) s1 s2) (w : Val) :
    (s1 = [] ∧ addToTop s2 (.tok .Empty) w = none) ∨
    ∃ s2', addToTop s2 (.tok .Empty) w = some s2' ∧ All2 (NodeMapO f) s1 s2' := by
  cases h with
  | nil => exact .inl ⟨rfl, rfl⟩
  | cons hab ht =>
    refine .inr ⟨_, rfl, .cons ⟨hab.1, ?_⟩ ht⟩
    have := hab.2.append (ItemsRelO.extra w .nil)
    simpa using this

theorem BMapO.build {β1 β2 : BState} (h : BMapO f β1 β2) {t1 t2 : Token} (ht : TokMap f t1 t2) :
    (∃ w, β1.build t1 = .error (.crash w) ∧ β2.build t2 = .error (.crash w)) ∨
    (∃ β1' β2', β1.build t1 = .ok β1' ∧ β2.build t2 = .ok β2' ∧ BMapO f β1' β2') := by
  cases hm : t1.mtype with
  | none =>
    rw [layBuild_unmatched _ _ hm, layBuild_unmatched _ _ (ht.mtype ▸ hm)]
    exact .inl ⟨_, rfl, rfl⟩
  | some k =>
    have hm2 : t2.mtype = some k := ht.mtype ▸ hm
    by_cases hk : k = .Comment
    · subst hk
      rw [layBuild_comment _ _ hm, layBuild_comment _ _ hm2, ht.text, ht.getLocation_none]
      cases t1.text with
      | none => exact .inl ⟨_, rfl, rfl⟩
      | some tx =>
        refine .inr ⟨_, _, rfl, rfl, h.1, ?_⟩
        simp only [h.2, List.map_append, List.map_cons, List.map_nil, mapComment]
    · rw [layBuild_other _ _ k hk hm, layBuild_other _ _ k hk hm2]
      rcases addToTop_map h.1 (.tok k) (.tok ht) with ⟨e1, e2⟩ | ⟨s1, s2, e1, e2, hs⟩
      · rw [e1, e2]; exact .inl ⟨_, rfl, rfl⟩
      · rw [e1, e2]; exact .inr ⟨_, _, rfl, rfl, hs, h.2⟩

/-- the second run builds a blank-line token the first run does not have -/
theorem BMapO.build_extra {β1 β2 : BState} (h : BMapO f β1 β2) {t : Token} (hm : t.mtype = some .Empty) :
    (β1.stack = [] ∧ β2.build t = .error (.crash "IndexError: current_node of empty stack")) ∨
    (∃ β2', β2.build t = .ok β2' ∧ BMapO f β1 β2') := by
  rw [layBuild_other _ _ .Empty (by decide) hm]
  rcases addToTop_extra h.1 (.tok t) with ⟨e1, e2⟩ | ⟨s2, e2, hs⟩
  · rw [e2]; exact .inl ⟨e1, rfl⟩
  · rw [e2]; exact .inr ⟨_, rfl, hs, h.2⟩

theorem BMapO.endRule {β1 β2 : BState} (h : BMapO f β1 β2) (n : Nat) :
    (β2.endRule n).1 = (β1.endRule n).1.mapError (mapBErr f) ∧ BMapO f (β1.endRule n).2.1 (β2.endRule n).2.1 ∧
    (β2.endRule n).2.2 = (β1.endRule n).2.2 ∧ (∀ e, (β1.endRule n).1 = .error e → BErrOk e) := by
  obtain ⟨s1, c1⟩ := β1
  obtain ⟨s2, c2⟩ := β2
  obtain ⟨hs, hc⟩ := h
  simp only at hs hc
  subst hc
  cases hs with
  | nil => exact ⟨rfl, ⟨.nil, rfl⟩, rfl, fun e he => by cases he; trivial⟩
  | cons hab ht =>
    rename_i a b as bs
    obtain ⟨rt, xs⟩ := a
    obtain ⟨rt', ys⟩ := b
    obtain ⟨hrt, hxy⟩ := hab
    simp only at hrt hxy
    subst hrt
    simp only [BState.endRule]
    rcases transformNode_map c1 rt hxy n with ⟨v, w, n', e1, e2, hvw⟩ | ⟨e, n', e1, e2, hok⟩
    · rw [e1, e2]
      simp only []
      rcases addToTop_map ht (.rule rt) hvw with ⟨e1, e2⟩ | ⟨s1, s2, e1, e2, hs⟩
      · rw [e1, e2]; exact ⟨rfl, ⟨ht, rfl⟩, rfl, fun e he => by cases he; trivial⟩
      · rw [e1, e2]; exact ⟨rfl, ⟨hs, rfl⟩, rfl, fun e he => by cases he⟩
    · rw [e1, e2]
      exact ⟨rfl, ⟨ht, rfl⟩, rfl, fun e' he => by cases he; exact hok⟩

/-- both runs build a token no transform reads (blank line, end of file): whatever it carries -/
theorem BMapO.build_free {β1 β2 : BState} (h : BMapO f β1 β2) {t1 t2 : Token} {k : Kind}
    (hk : freeKey (.tok k) = true) (h1 : t1.mtype = some k) (h2 : t2.mtype = some k) :
    (∃ w, β1.build t1 = .error (.crash w) ∧ β2.build t2 = .error (.crash w)) ∨
    (∃ β1' β2', β1.build t1 = .ok β1' ∧ β2.build t2 = .ok β2' ∧ BMapO f β1' β2') := by
  have hkc : k ≠ .Comment := by intro e; subst e; cases hk
  rw [layBuild_other _ _ k hkc h1, layBuild_other _ _ k hkc h2]
  obtain ⟨hs, hc⟩ := h
  revert hs
  generalize β1.stack = s1
  generalize β2.stack = s2
  intro hs
  cases hs with
  | nil => exact .inl ⟨_, rfl, rfl⟩
  | cons hab ht =>
    refine .inr ⟨_, _, rfl, rfl, .cons ⟨hab.1, ?_⟩ ht, hc⟩
    exact hab.2.append (.free _ hk _ _ .nil)

/-- both runs build an `Other` token with the same text (a doc-string content line moved with its
    block: column 1 in both runs) -/
theorem BMapO.build_other {β1 β2 : BState} (h : BMapO f β1 β2) {t1 t2 : Token}
    (h1 : t1.mtype = some .Other) (h2 : t2.mtype = some .Other) (ht : t2.text = t1.text) :
    (∃ w, β1.build t1 = .error (.crash w) ∧ β2.build t2 = .error (.crash w)) ∨
    (∃ β1' β2', β1.build t1 = .ok β1' ∧ β2.build t2 = .ok β2' ∧ BMapO f β1' β2') := by
  rw [layBuild_other _ _ .Other (by decide) h1, layBuild_other _ _ .Other (by decide) h2]
  obtain ⟨hs, hc⟩ := h
  revert hs
  generalize β1.stack = s1
  generalize β2.stack = s2
  intro hs
  cases hs with
  | nil => exact .inl ⟨_, rfl, rfl⟩
  | cons hab hrest =>
    refine .inr ⟨_, _, rfl, rfl, .cons ⟨hab.1, ?_⟩ hrest, hc⟩
    exact hab.2.append (.other ht .nil)

theorem BMapO.result {β1 β2 : BState} (h : BMapO f β1 β2) :
    β2.result = (β1.result.map (Option.map (mapDoc f))) := by
  unfold BState.result
  obtain ⟨hs, hc⟩ := h
  revert hs
  generalize β1.stack = s1
  generalize β2.stack = s2
  intro hs
  cases hs with
  | nil => rfl
  | cons hab ht =>
    simp only []
    have := getSingle_map hab.2 (.rule .GherkinDocument) rfl
    revert this
    generalize getSingle _ (.rule .GherkinDocument) = v
    generalize getSingle _ (.rule .GherkinDocument) = w
    intro hvw
    cases hvw <;> rfl

end Layout7
end GV
