/-
  Lemmas/Roundtrip3Builder.lean — round trip, third model: the builder on a background and on a
  feature with a background.
-/
import GherkinVerif.Lemmas.Roundtrip3Bg
set_option linter.unusedSectionVars false
set_option linter.unusedSimpArgs false
set_option linter.unusedVariables false
namespace GV
namespace Lemmas
open Spec

def mkBg (m i : Nat) (kwd nm : Str) (L : List Step) : Background :=
  { id := i, loc := ⟨m, some 1⟩, keyword := kwd, name := nm, description := [], steps := L }

theorem transform_background (cm : List Comment) (m : Nat) (kwd nm : Str)
    (tk : Token) (hk : tk.keyword = some kwd) (ht : tk.text = some nm) (hloc : tk.loc = ⟨m, some 1⟩)
    (L : List Step) (i : Nat) :
    (transformNode cm ⟨.Background, (.tok .BackgroundLine, .tok tk) :: stepItems L⟩).run.run i =
      (.ok (Val.background (mkBg m i kwd nm L)), i + 1) := by
  have hdesc : (getDescription ((Key.tok .BackgroundLine, Val.tok tk) :: stepItems L)).run.run i = (.ok [], i) := by
    apply run_getDescription_some
    unfold descOf
    have := getItems_append [(Key.tok .BackgroundLine, Val.tok tk)] (stepItems L) (.rule .Description)
    simp only [List.singleton_append] at this
    rw [this, getItems_stepItems_ne L _ (by decide)]
    rfl
  have htok := run_needToken_tok ((Key.tok .BackgroundLine, Val.tok tk) :: stepItems L) .BackgroundLine tk i rfl
  have hst := getSteps_items (Key.tok .BackgroundLine, Val.tok tk) rfl L
  simp only [transformNode, run_bind, htok, hdesc, hst, run_nextId, hk, ht, run_need_some, run_pure, getLocation,
    hloc, mkBg]

theorem endRule_background (cm : List Comment) (μ : MState) (m : Nat) (kwd nm : Str) (L : List Step)
    (rt : RuleType) (items : List (Key × Val)) (rest : List Node) (i : Nat) :
    (⟨⟨.Background, (.tok .BackgroundLine, .tok (titleTok μ m .BackgroundLine kwd nm)) :: stepItems L⟩ ::
        ⟨rt, items⟩ :: rest, cm⟩ : BState).endRule i =
      (.ok (), ⟨⟨rt, items ++ [(.rule .Background, Val.background (mkBg m i kwd nm L))]⟩ :: rest, cm⟩, i + 1) := by
  have h := transform_background cm m kwd nm (titleTok μ m .BackgroundLine kwd nm) rfl rfl rfl L i
  simp only [BState.endRule, h]
  rfl

/-- the `Background` item of the feature node -/
def bgItems (bg : Option Background) : List (Key × Val) :=
  match bg with
  | none => []
  | some b => [(.rule .Background, .background b)]

def bgChild (bg : Option Background) : List FeatureChild :=
  match bg with
  | some b => [FeatureChild.background b]
  | none => []

def mkFeat3 (n m i : Nat) (tags : List Str) (lang kwd nm : Str) (bg : Option Background) (S : List Scenario) : Feature :=
  { tags := expTags n i tags, loc := ⟨m, some 1⟩, language := lang, keyword := kwd, name := nm, description := [], children := bgChild bg ++ S.map FeatureChild.scenario }

theorem getItems_bgItems (bg : Option Background) (k : Key) (hk : (Key.rule .Background == k) = false) :
    getItems (bgItems bg) k = [] := by
  cases bg with
  | none => rfl
  | some b => simp [bgItems, getItems, hk]

theorem getItems_feat3 (hd : Key × Val) (bg : Option Background) (S : List Scenario) (k : Key) :
    getItems (hd :: (bgItems bg ++ scItems S)) k = getItems [hd] k ++ getItems (bgItems bg) k ++ getItems (scItems S) k := by
  have := getItems_append [hd] (bgItems bg ++ scItems S) k
  simp only [List.singleton_append] at this
  rw [this, getItems_append, List.append_assoc]

/-- the value of the finished `Feature` node, with or without a background -/
theorem transform_feature3 (cm : List Comment) (μ : MState) (n m : Nat) (tags : List Str) (lang kwd nm : Str)
    (tk : Token) (hk : tk.keyword = some kwd) (ht : tk.text = some nm) (hloc : tk.loc = ⟨m, some 1⟩)
    (hd : tk.dialect = lang) (bg : Option Background) (S : List Scenario) (i : Nat) :
    (transformNode cm ⟨.Feature, (.rule .FeatureHeader, .raw .FeatureHeader
        (tagsItem μ n tags ++ [(.tok .FeatureLine, .tok tk)])) :: (bgItems bg ++ scItems S)⟩).run.run i =
      (.ok (Val.feature (mkFeat3 n m i tags lang kwd nm bg S)), i + tags.length) := by
  have hsingle : getSingle ((Key.rule .FeatureHeader, Val.raw .FeatureHeader
        (tagsItem μ n tags ++ [(.tok .FeatureLine, .tok tk)])) :: (bgItems bg ++ scItems S)) (.rule .FeatureHeader) =
      Val.raw .FeatureHeader (tagsItem μ n tags ++ [(.tok .FeatureLine, .tok tk)]) := by
    simp [getSingle, getItems]
  have htags := getTags_tagsItem μ n i tags [(Key.tok .FeatureLine, Val.tok tk)] rfl
  have hline : getSingle (tagsItem μ n tags ++ [(Key.tok .FeatureLine, Val.tok tk)]) (.tok .FeatureLine) = .tok tk := by
    simp only [getSingle, getItems_append, getItems_tagsItem μ n tags (.tok .FeatureLine) (by decide)]
    rfl
  have hdesc : (getDescription (tagsItem μ n tags ++ [(Key.tok .FeatureLine, Val.tok tk)])).run.run
      (i + tags.length) = (.ok [], i + tags.length) := by
    apply run_getDescription_some
    unfold descOf
    rw [getItems_append, getItems_tagsItem μ n tags _ (by decide)]
    rfl
  have hrules : getItems ((Key.rule .FeatureHeader, Val.raw .FeatureHeader
        (tagsItem μ n tags ++ [(.tok .FeatureLine, .tok tk)])) :: (bgItems bg ++ scItems S)) (.rule .Rule) = [] := by
    rw [getItems_feat3, getItems_bgItems bg _ (by decide), getItems_scItems_ne S _ (by decide)]
    rfl
  have hbg : getBackground ((Key.rule .FeatureHeader, Val.raw .FeatureHeader
        (tagsItem μ n tags ++ [(.tok .FeatureLine, .tok tk)])) :: (bgItems bg ++ scItems S)) = bg := by
    unfold getBackground getSingle
    rw [getItems_feat3, getItems_scItems_ne S _ (by decide)]
    cases bg <;> rfl
  have hsc : getScenarios ((Key.rule .FeatureHeader, Val.raw .FeatureHeader
        (tagsItem μ n tags ++ [(.tok .FeatureLine, .tok tk)])) :: (bgItems bg ++ scItems S)) = S := by
    unfold getScenarios
    have hitems : getItems ((Key.rule .FeatureHeader, Val.raw .FeatureHeader
        (tagsItem μ n tags ++ [(.tok .FeatureLine, .tok tk)])) :: (bgItems bg ++ scItems S))
        (.rule .ScenarioDefinition) = S.map Val.scenario := by
      rw [getItems_feat3, getItems_bgItems bg _ (by decide), scItems, getItems_map_eq]
      simp [getItems]
    rw [hitems]
    clear hitems hbg hrules hdesc hline htags hsingle
    induction S with
    | nil => rfl
    | cons a S ih => simpa using ih
  simp only [transformNode, run_bind, htags, hsingle, hline, hdesc, hrules, hbg, hsc, List.filterMap_nil,
    hk, ht, run_need_some, run_pure, getLocation, hloc, hd, mkFeat3, List.map_nil, List.append_nil, bgChild]
  cases bg <;> rfl

theorem endRule_feature3 (cm : List Comment) (μ : MState) (n m : Nat) (tags : List Str) (kwd nm : Str)
    (bg : Option Background) (S : List Scenario) (rt : RuleType) (items : List (Key × Val)) (rest : List Node) (i : Nat) :
    (⟨⟨.Feature, (.rule .FeatureHeader, .raw .FeatureHeader
        (tagsItem μ n tags ++ [(.tok .FeatureLine, .tok (titleTok μ m .FeatureLine kwd nm))])) ::
          (bgItems bg ++ scItems S)⟩ :: ⟨rt, items⟩ :: rest, cm⟩ : BState).endRule i =
      (.ok (), ⟨⟨rt, items ++ [(.rule .Feature, Val.feature (mkFeat3 n m i tags μ.name kwd nm bg S))]⟩ :: rest, cm⟩,
        i + tags.length) := by
  have h := transform_feature3 cm μ n m tags μ.name kwd nm (titleTok μ m .FeatureLine kwd nm) rfl rfl rfl rfl bg S i
  simp only [BState.endRule, h]
  rfl

end Lemmas
end GV
