/-
  Lemmas/AstOf.lean — the AST builder's stack machine computes the fold `Spec.itemsOf` /
  `Spec.astOf` of the derivation tree (property C03, `C03_ast_of_tree`).  Table-independent.
-/
import GherkinVerif.Spec.AstOf
namespace GV
namespace Lemmas
open Spec

/-! ### running call sequences -/

theorem applyOps_nil (β : BState) (n : Nat) : applyOps [] β n = (.ok (), β, n) := rfl

theorem applyOps_cons (op : BOp) (ops : List BOp) (β : BState) (n : Nat) :
    applyOps (op :: ops) β n =
      match applyOp op β n with
      | (.ok (), β', n') => applyOps ops β' n'
      | (.error e, β', n') => (.error e, β', n') := rfl

theorem applyOps_append (a b : List BOp) (β : BState) (n : Nat) :
    applyOps (a ++ b) β n =
      match applyOps a β n with
      | (.ok (), β', n') => applyOps b β' n'
      | (.error e, β', n') => (.error e, β', n') := by
  induction a generalizing β n with
  | nil => rfl
  | cons op a ih =>
    rw [List.cons_append, applyOps_cons, applyOps_cons]
    rcases applyOp op β n with ⟨_ | ⟨⟨⟩⟩, β', n'⟩
    · rfl
    · exact ih β' n'

theorem applyOps_append_ok (a b : List BOp) (β β' : BState) (n n' : Nat)
    (h : applyOps a β n = (.ok (), β', n')) : applyOps (a ++ b) β n = applyOps b β' n' := by
  rw [applyOps_append, h]

theorem applyOps_append_error (a b : List BOp) (β β' : BState) (n n' : Nat) (e : BErr)
    (h : applyOps a β n = (.error e, β', n')) : applyOps (a ++ b) β n = (.error e, β', n') := by
  rw [applyOps_append, h]

theorem applyOps_start (r : RuleType) (ops : List BOp) (β : BState) (n : Nat) :
    applyOps (.start r :: ops) β n = applyOps ops (β.startRule r) n := rfl

/-! ### `transformNode` reads the comments only for the document node -/

theorem transformNode_comments (cs cs' : List Comment) (r : RuleType) (items : List (Key × Val))
    (h : r ≠ .GherkinDocument) : transformNode cs ⟨r, items⟩ = transformNode cs' ⟨r, items⟩ := by
  cases r <;> first | rfl | exact absurd rfl h

/-! ### one line -/

theorem run_leafItems_token (t : Token) (k : Kind) (n : Nat) (hk : t.mtype = some k) (hc : k ≠ .Comment) :
    (leafItems t).run.run n = (.ok [(.tok k, .tok t)], n) := by
  unfold leafItems
  rw [hk]
  cases k <;> first | exact absurd rfl hc | rfl

theorem leafComments_token (t : Token) (k : Kind) (hk : t.mtype = some k) (hc : k ≠ .Comment) :
    leafComments t = [] := by
  unfold leafComments
  rw [hk]
  cases k <;> first | exact absurd rfl hc | rfl

/-- the statement of this file, for one tree: run on a builder whose stack is `top :: rest`, the
    calls of `t` append `t`'s items to `top` and `t`'s comments to the comment list, and leave the
    counter where `itemsOf` leaves it; if `itemsOf` fails, they stop with the same error and
    counter. -/
def OpsSpec (cs : List Comment) (t : TTree) : Prop :=
  ∀ (β : BState) (top : Node) (rest : List Node) (n : Nat), β.stack = top :: rest →
    (∀ is n', (itemsOf cs t).run.run n = (.ok is, n') →
      applyOps (opsOf t) β n =
        (.ok (), { stack := ⟨top.rt, top.items ++ is⟩ :: rest, comments := β.comments ++ commentsOf t }, n')) ∧
    (∀ e n', (itemsOf cs t).run.run n = (.error e, n') →
      ∃ β', applyOps (opsOf t) β n = (.error e, β', n'))

def OpsSpecList (cs : List Comment) (ts : List TTree) : Prop :=
  ∀ (β : BState) (top : Node) (rest : List Node) (n : Nat), β.stack = top :: rest →
    (∀ is n', (itemsOfList cs ts).run.run n = (.ok is, n') →
      applyOps (opsOfList ts) β n =
        (.ok (), { stack := ⟨top.rt, top.items ++ is⟩ :: rest, comments := β.comments ++ commentsOfList ts }, n')) ∧
    (∀ e n', (itemsOfList cs ts).run.run n = (.error e, n') →
      ∃ β', applyOps (opsOfList ts) β n = (.error e, β', n'))

theorem opsSpec_leaf (cs : List Comment) (t : Token) : OpsSpec cs (.leaf t) := by
  intro β top rest n hs
  simp only [itemsOf, opsOf, commentsOf, applyOps_cons, applyOps_nil, applyOp]
  cases hm : t.mtype with
  | none =>
    have hb : β.build t = .error (.crash "build of unmatched token") := by
      unfold BState.build; rw [hm]
    have hl : (leafItems t).run.run n = (.error (.crash "build of unmatched token"), n) := by
      unfold leafItems; rw [hm]; rfl
    rw [hb, hl]
    constructor
    · intro is n' h; simp [res_inj] at h
    · intro e n' h
      simp only [res_inj, Except.error.injEq] at h
      obtain ⟨rfl, rfl⟩ := h
      exact ⟨_, rfl⟩
  | some k =>
    by_cases hc : k = .Comment
    · subst hc
      cases ht : t.text with
      | none =>
        have hb : β.build t = .error (.crash "comment without text") := by
          unfold BState.build; rw [hm]; simp only [ht]
        have hl : (leafItems t).run.run n = (.error (.crash "comment without text"), n) := by
          unfold leafItems; rw [hm]; simp only [ht]; rfl
        rw [hb, hl]
        constructor
        · intro is n' h; simp [res_inj] at h
        · intro e n' h
          simp only [res_inj, Except.error.injEq] at h
          obtain ⟨rfl, rfl⟩ := h
          exact ⟨_, rfl⟩
      | some tx =>
        have hl : (leafItems t).run.run n = (.ok [], n) := by
          unfold leafItems; rw [hm]; simp only [ht]; rfl
        have hcm : leafComments t = [{ loc := getLocation t, text := tx }] := by
          unfold leafComments; rw [hm, ht]
        rw [build_comment β t tx hm ht, hl, hcm]
        constructor
        · intro is n' h
          simp only [res_inj, Except.ok.injEq] at h
          obtain ⟨rfl, rfl⟩ := h
          simp only [List.append_nil, hs]
        · intro e n' h; simp [res_inj] at h
    · rw [build_token β t k top rest hm hc hs, run_leafItems_token t k n hm hc, leafComments_token t k hm hc]
      constructor
      · intro is n' h
        simp only [res_inj, Except.ok.injEq] at h
        obtain ⟨rfl, rfl⟩ := h
        simp only [List.append_nil]
      · intro e n' h; simp [res_inj] at h

theorem opsSpec_nil (cs : List Comment) : OpsSpecList cs [] := by
  intro β top rest n hs
  simp only [itemsOfList, opsOfList, commentsOfList, applyOps_nil, run_pure]
  constructor
  · intro is n' h
    simp only [res_inj, Except.ok.injEq] at h
    obtain ⟨rfl, rfl⟩ := h
    simp only [List.append_nil, ← hs]
  · intro e n' h; simp [res_inj] at h

theorem run_itemsOfList_cons (cs : List Comment) (c : TTree) (ts : List TTree) (n : Nat) :
    (itemsOfList cs (c :: ts)).run.run n =
      match (itemsOf cs c).run.run n with
      | (.ok i, n₁) =>
        (match (itemsOfList cs ts).run.run n₁ with
         | (.ok is, n₂) => (.ok (i ++ is), n₂)
         | (.error e, n₂) => (.error e, n₂))
      | (.error e, n₁) => (.error e, n₁) := by
  rw [itemsOfList, run_bind]
  rcases (itemsOf cs c).run.run n with ⟨e | i, n₁⟩
  · rfl
  · simp only [run_bind, run_pure]
    rcases (itemsOfList cs ts).run.run n₁ with ⟨e | is, n₂⟩ <;> rfl

theorem opsSpec_cons (cs : List Comment) (c : TTree) (ts : List TTree)
    (hc : OpsSpec cs c) (hts : OpsSpecList cs ts) : OpsSpecList cs (c :: ts) := by
  intro β top rest n hs
  obtain ⟨hcok, hcerr⟩ := hc β top rest n hs
  rw [run_itemsOfList_cons]
  simp only [opsOfList, commentsOfList]
  rcases h1 : (itemsOf cs c).run.run n with ⟨e | i, n₁⟩
  · obtain ⟨β', hβ'⟩ := hcerr e n₁ h1
    constructor
    · intro is n' h; simp [res_inj] at h
    · intro e' n' h
      simp only [res_inj, Except.error.injEq] at h
      obtain ⟨rfl, rfl⟩ := h
      exact ⟨β', applyOps_append_error _ _ _ _ _ _ _ hβ'⟩
  · have h1' := hcok i n₁ h1
    rw [applyOps_append_ok _ _ _ _ _ _ h1']
    obtain ⟨htok, hterr⟩ := hts { stack := ⟨top.rt, top.items ++ i⟩ :: rest, comments := β.comments ++ commentsOf c }
      ⟨top.rt, top.items ++ i⟩ rest n₁ rfl
    simp only
    rcases h2 : (itemsOfList cs ts).run.run n₁ with ⟨e | is, n₂⟩
    · obtain ⟨β', hβ'⟩ := hterr e n₂ h2
      constructor
      · intro is n' h; simp [res_inj] at h
      · intro e' n' h
        simp only [res_inj, Except.error.injEq] at h
        obtain ⟨rfl, rfl⟩ := h
        exact ⟨β', hβ'⟩
    · have h2' := htok is n₂ h2
      constructor
      · intro is' n' h
        simp only [res_inj, Except.ok.injEq] at h
        obtain ⟨rfl, rfl⟩ := h
        rw [h2']
        simp only [List.append_assoc]
      · intro e n' h; simp [res_inj] at h

theorem run_itemsOf_node (cs : List Comment) (r : RuleType) (ch : List TTree) (n : Nat) :
    (itemsOf cs (.node r ch)).run.run n =
      match (itemsOfList cs ch).run.run n with
      | (.ok is, n₁) =>
        (match (transformNode cs ⟨r, is⟩).run.run n₁ with
         | (.ok v, n₂) => (.ok [(.rule r, v)], n₂)
         | (.error e, n₂) => (.error e, n₂))
      | (.error e, n₁) => (.error e, n₁) := by
  rw [itemsOf, run_bind]
  rcases (itemsOfList cs ch).run.run n with ⟨e | is, n₁⟩
  · rfl
  · simp only [run_bind, run_pure]
    rcases (transformNode cs ⟨r, is⟩).run.run n₁ with ⟨e | v, n₂⟩ <;> rfl

theorem run_astOf_node (cs : List Comment) (r : RuleType) (ch : List TTree) (n : Nat) :
    (astOf cs (.node r ch)).run.run n =
      match (itemsOfList cs ch).run.run n with
      | (.ok is, n₁) => (transformNode cs ⟨r, is⟩).run.run n₁
      | (.error e, n₁) => (.error e, n₁) := by
  rw [astOf, run_bind]
  rcases (itemsOfList cs ch).run.run n with ⟨e | is, n₁⟩ <;> rfl

/-- a node contributes the single item `(r, astOf node)` -/
theorem run_itemsOf_node_eq_astOf (cs : List Comment) (r : RuleType) (ch : List TTree) (n : Nat) :
    (itemsOf cs (.node r ch)).run.run n =
      match (astOf cs (.node r ch)).run.run n with
      | (.ok v, n') => (.ok [(.rule r, v)], n')
      | (.error e, n') => (.error e, n') := by
  rw [run_itemsOf_node, run_astOf_node]
  rcases (itemsOfList cs ch).run.run n with ⟨e | is, n₁⟩ <;> rfl

/-- one node, given the statement for its children; `hT`: the comments the model passes to
    `transformNode` at this node's `end_rule` — those collected so far — make no difference to
    the result compared with `cs` -/
theorem opsSpec_node_at (cs : List Comment) (r : RuleType) (ch : List TTree) (hch : OpsSpecList cs ch)
    (β : BState) (top : Node) (rest : List Node) (n : Nat) (hs : β.stack = top :: rest)
    (hT : ∀ is, transformNode (β.comments ++ commentsOfList ch) ⟨r, is⟩ = transformNode cs ⟨r, is⟩) :
    (∀ is n', (itemsOf cs (.node r ch)).run.run n = (.ok is, n') →
      applyOps (opsOf (.node r ch)) β n =
        (.ok (), { stack := ⟨top.rt, top.items ++ is⟩ :: rest,
                   comments := β.comments ++ commentsOf (.node r ch) }, n')) ∧
    (∀ e n', (itemsOf cs (.node r ch)).run.run n = (.error e, n') →
      ∃ β', applyOps (opsOf (.node r ch)) β n = (.error e, β', n')) := by
  rw [run_itemsOf_node]
  simp only [opsOf, commentsOf, applyOps_start]
  obtain ⟨hok, herr⟩ := hch (β.startRule r) ⟨r, []⟩ (top :: rest) n (by simp only [BState.startRule, hs])
  rcases h1 : (itemsOfList cs ch).run.run n with ⟨e | is, n₁⟩
  · obtain ⟨β', hβ'⟩ := herr e n₁ h1
    constructor
    · intro is n' h; simp [res_inj] at h
    · intro e' n' h
      simp only [res_inj, Except.error.injEq] at h
      obtain ⟨rfl, rfl⟩ := h
      exact ⟨β', applyOps_append_error _ _ _ _ _ _ _ hβ'⟩
  · rw [applyOps_append_ok _ _ _ _ _ _ (hok is n₁ h1)]
    simp only [List.nil_append, applyOps_cons, applyOps_nil, applyOp, BState.startRule]
    rcases h2 : (transformNode cs ⟨r, is⟩).run.run n₁ with ⟨e | v, n₂⟩
    · rw [endRule_error _ ⟨r, is⟩ (top :: rest) n₁ n₂ e rfl (by rw [hT]; exact h2)]
      constructor
      · intro is n' h; simp [res_inj] at h
      · intro e' n' h
        simp only [res_inj, Except.error.injEq] at h
        obtain ⟨rfl, rfl⟩ := h
        exact ⟨_, rfl⟩
    · rw [endRule_ok _ ⟨r, is⟩ top rest n₁ n₂ v rfl (by rw [hT]; exact h2)]
      constructor
      · intro is' n' h
        simp only [res_inj, Except.ok.injEq] at h
        obtain ⟨rfl, rfl⟩ := h
        rfl
      · intro e n' h; simp [res_inj] at h

mutual
/-- the stack machine computes the fold, for every tree without an inner document node -/
theorem opsSpec_of_docFree (cs : List Comment) : ∀ (t : TTree), docFree t = true → OpsSpec cs t
  | .leaf t, _ => opsSpec_leaf cs t
  | .node r ch, h => by
    simp only [docFree, Bool.and_eq_true, bne_iff_ne, ne_eq] at h
    intro β top rest n hs
    exact opsSpec_node_at cs r ch (opsSpecList_of_docFree cs ch h.2) β top rest n hs
      (fun is => transformNode_comments _ _ r is h.1)
theorem opsSpecList_of_docFree (cs : List Comment) : ∀ (ts : List TTree), docFreeList ts = true → OpsSpecList cs ts
  | [], _ => opsSpec_nil cs
  | c :: ts, h => by
    simp only [docFreeList, Bool.and_eq_true] at h
    exact opsSpec_cons cs c ts (opsSpec_of_docFree cs c h.1) (opsSpecList_of_docFree cs ts h.2)
end

/-- …and for a document tree, when `cs` is what the builder has collected by the root's
    `end_rule`: the comments it started with followed by all comments of the tree -/
theorem opsSpec_document (ch : List TTree) (h : docFreeList ch = true) (β : BState) (top : Node)
    (rest : List Node) (n : Nat) (hs : β.stack = top :: rest) :
    let cs := β.comments ++ commentsOfList ch
    (∀ is n', (itemsOf cs (.node .GherkinDocument ch)).run.run n = (.ok is, n') →
      applyOps (opsOf (.node .GherkinDocument ch)) β n =
        (.ok (), { stack := ⟨top.rt, top.items ++ is⟩ :: rest, comments := cs }, n')) ∧
    (∀ e n', (itemsOf cs (.node .GherkinDocument ch)).run.run n = (.error e, n') →
      ∃ β', applyOps (opsOf (.node .GherkinDocument ch)) β n = (.error e, β', n')) :=
  opsSpec_node_at _ .GherkinDocument ch (opsSpecList_of_docFree _ ch h) β top rest n hs (fun _ => rfl)

/-! ### in terms of `astOf` -/

theorem itemsOf_node_ok (cs : List Comment) (r : RuleType) (ch : List TTree) (n n' : Nat) (v : Val)
    (h : (astOf cs (.node r ch)).run.run n = (.ok v, n')) :
    (itemsOf cs (.node r ch)).run.run n = (.ok [(.rule r, v)], n') := by
  rw [run_itemsOf_node_eq_astOf, h]

theorem itemsOf_node_error (cs : List Comment) (r : RuleType) (ch : List TTree) (n n' : Nat) (e : BErr)
    (h : (astOf cs (.node r ch)).run.run n = (.error e, n')) :
    (itemsOf cs (.node r ch)).run.run n = (.error e, n') := by
  rw [run_itemsOf_node_eq_astOf, h]

/-- The builder computes the fold.  For a node tree without inner document node, on any builder
    state with a non-empty stack: the calls of the tree append the one item `(r, v)` to the top
    node, the tree's comments to the comment list, and leave the counter at `n'`, where
    `astOf cs t` from `n` gives `(v, n')` — for ANY `cs`. -/
theorem applyOps_node (cs : List Comment) (r : RuleType) (ch : List TTree)
    (hd : docFree (.node r ch) = true) (β : BState) (top : Node) (rest : List Node) (n n' : Nat) (v : Val)
    (hs : β.stack = top :: rest) (h : (astOf cs (.node r ch)).run.run n = (.ok v, n')) :
    applyOps (opsOf (.node r ch)) β n =
      (.ok (), { stack := ⟨top.rt, top.items ++ [(.rule r, v)]⟩ :: rest,
                 comments := β.comments ++ commentsOf (.node r ch) }, n') :=
  (opsSpec_of_docFree cs _ hd β top rest n hs).1 _ _ (itemsOf_node_ok cs r ch n n' v h)

/-- the error case: the first failing `transformNode` (or `build`) stops the run with its error
    and the counter it reached -/
theorem applyOps_node_error (cs : List Comment) (r : RuleType) (ch : List TTree)
    (hd : docFree (.node r ch) = true) (β : BState) (top : Node) (rest : List Node) (n n' : Nat) (e : BErr)
    (hs : β.stack = top :: rest) (h : (astOf cs (.node r ch)).run.run n = (.error e, n')) :
    ∃ β', applyOps (opsOf (.node r ch)) β n = (.error e, β', n') :=
  (opsSpec_of_docFree cs _ hd β top rest n hs).2 _ _ (itemsOf_node_error cs r ch n n' e h)

theorem isDocument_iff (t : TTree) :
    t.isDocument = true ↔ ∃ ch, t = .node .GherkinDocument ch ∧ docFreeList ch = true := by
  cases t with
  | leaf t => simp [TTree.isDocument]
  | node r ch => cases r <;> simp [TTree.isDocument]

theorem getSingle_snoc_doc (d : Doc) :
    getSingle ([] ++ [(Key.rule .GherkinDocument, Val.doc d)]) (.rule .GherkinDocument) = .doc d := rfl

/-- whole documents, from a fresh builder -/
theorem ast_of_tree (t : TTree) (ht : t.isDocument = true) (n : Nat) :
    (∀ v n', (astOf (commentsOf t) t).run.run n = (.ok v, n') →
      ∃ β, applyOps (opsOf t) BState.reset n = (.ok (), β, n') ∧
        β.stack = [⟨.None_, [(.rule .GherkinDocument, v)]⟩] ∧ β.comments = commentsOf t ∧
        ∃ d, v = .doc d ∧ β.result = .ok (some d) ∧ d.comments = commentsOf t) ∧
    (∀ e n', (astOf (commentsOf t) t).run.run n = (.error e, n') →
      ∃ β, applyOps (opsOf t) BState.reset n = (.error e, β, n')) := by
  obtain ⟨ch, rfl, hd⟩ := (isDocument_iff t).1 ht
  have key := opsSpec_document ch hd BState.reset ⟨.None_, []⟩ [] n rfl
  simp only [BState.reset, List.nil_append] at key
  simp only [commentsOf]
  constructor
  · intro v n' h
    have h' := key.1 _ _ (itemsOf_node_ok _ _ ch n n' v h)
    refine ⟨_, h', rfl, rfl, ?_⟩
    rw [run_astOf_node] at h
    rcases h1 : (itemsOfList (commentsOfList ch) ch).run.run n with ⟨e | is, n₁⟩
    · rw [h1] at h; simp [res_inj] at h
    · rw [h1] at h
      simp only [document_eq] at h
      simp only [res_inj, Except.ok.injEq] at h
      obtain ⟨rfl, rfl⟩ := h
      exact ⟨_, rfl, rfl, rfl⟩
  · intro e n' h
    exact key.2 _ _ (itemsOf_node_error _ _ ch n n' e h)

/-! ### a small concrete document tree for the non-vacuity examples of the property files -/
namespace Ex

/-- the end-of-file token -/
def eofTok : Token := { line := none, lineNo := 13, col := some 1, mtype := some .EOF }
/-- a second comment line -/
def commentTok2 : Token := { commentTok with lineNo := 6, text := some (lit "# two") }

/-- a feature (a comment line after the feature line: it opens a description) with one tagged
    scenario outline: a step with a data table (a comment between its rows) and an examples
    table; the tree the parser builds for these twelve lines, see Props/C11Tree.lean -/
def docTree : TTree :=
  .node .GherkinDocument
    [.node .Feature
      [.node .FeatureHeader [.leaf featTok, .node .Description [.leaf commentTok]],
       .node .ScenarioDefinition
         [.node .Tags [.leaf tagTok1, .leaf tagTok2],
          .node .Scenario
            [.leaf scTok,
             .node .Step [.leaf stepTok, .node .DataTable [.leaf rowTok1, .leaf commentTok2, .leaf rowTok2]],
             .node .ExamplesDefinition
               [.node .Examples [.leaf exTok, .node .ExamplesTable [.leaf rowTok1, .leaf rowTok2]]]]]],
     .leaf eofTok]

/-- the document of a result, if it is one -/
def docOf : Except BErr Val × Nat → Option Doc
  | (.ok (.doc d), _) => some d
  | _ => none

end Ex

end Lemmas
end GV
