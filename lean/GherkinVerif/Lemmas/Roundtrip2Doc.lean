/-
  Lemmas/Roundtrip2Doc.lean — round trip, richer model (steps with data tables): table facts, the
  step block, the scenario block, the document.  Same block structure as the core model
  (Lemmas/RoundtripScen.lean); the states a scenario can follow now include state 13 (inside a table).
-/
import GherkinVerif.Lemmas.Roundtrip2Builder
set_option linter.unusedSectionVars false
set_option linter.unusedSimpArgs false
set_option linter.unusedVariables false
namespace GV
namespace Lemmas
open Spec

/-- builder in state 13: an open table (row tokens `toks`) under the open step -/
def st13 (sd fi : List (Key × Val)) (tk : Token) (L : List Step) (ts : Token) (toks : List Token) : BState :=
  ⟨⟨.DataTable, rowItems toks⟩ :: ⟨.Step, [(.tok .StepLine, .tok ts)]⟩ ::
    ⟨.Scenario, (.tok .ScenarioLine, .tok tk) :: stepItems L⟩ :: ⟨.ScenarioDefinition, sd⟩ :: ⟨.Feature, fi⟩ :: G0, []⟩

/-- the `end_rule` calls that close the open step (and its table) in states 10 / 12 / 13 -/
def pendOf : Nat → List Prod
  | 12 => [.end_ .Step]
  | 13 => [.end_ .DataTable, .end_ .Step]
  | _ => []

/-- inside a scenario (state 10, 12 or 13): closing the open step leaves the scenario node with the
    finished steps `L` and the counter at `i1` -/
def InSc2 (sd fi : List (Key × Val)) (tk : Token) (s : Nat) (β : BState) (i : Nat) (L : List Step) (i1 : Nat) : Prop :=
  (s = 10 ∨ s = 12 ∨ s = 13) ∧ ∀ t, applyOps (prodOps t (pendOf s)) β i = (.ok (), st10 sd fi tk L, i1)

def closeOf2 : Nat → List Prod
  | 3 => [.end_ .FeatureHeader]
  | s => pendOf s ++ [.end_ .Scenario, .end_ .ScenarioDefinition]

def Closes2 (s : Nat) (β : BState) (i : Nat) (fi : List (Key × Val)) (i0 : Nat) : Prop :=
  (s = 3 ∨ s = 10 ∨ s = 12 ∨ s = 13) ∧ ∀ t, applyOps (prodOps t (closeOf2 s)) β i = (.ok (), featStack fi, i0)

def midOK2 (T : Table) (s : Nat) : Bool :=
  rowHas T s fun row =>
    firstOf .ScenarioLine row.branches ==
      some ⟨.ScenarioLine, none, closeOf2 s ++ [.start .ScenarioDefinition, .start .Scenario, .build], 10⟩ &&
    firstTag0 row.branches ==
      some ⟨.TagLine, some 0, closeOf2 s ++ [.start .ScenarioDefinition, .start .Tags, .build], 9⟩ &&
    row.branches.head? == some ⟨.EOF, none, closeOf2 s ++ [.end_ .Feature, .build], 34⟩

def stepRowOK (T : Table) (s : Nat) : Bool :=
  rowHas T s fun row =>
    firstOf .StepLine row.branches == some ⟨.StepLine, none, pendOf s ++ [.start .Step, .build], 12⟩

/-- the table facts of the richer round trip: those of the core, and for states 3 / 10 / 12 / 13 the
    scenario / tag / EOF branches, for 10 / 12 / 13 the step branch, the `TableRow` branches of 12 and 13 -/
def rt2Facts (T : Table) : Bool :=
  rtFacts T && midOK2 T 3 && midOK2 T 10 && midOK2 T 12 && midOK2 T 13 &&
  stepRowOK T 10 && stepRowOK T 12 && stepRowOK T 13 &&
  rowHas T 12 (fun row => firstOf .TableRow row.branches == some ⟨.TableRow, none, [.start .DataTable, .build], 13⟩) &&
  rowHas T 13 (fun row => firstOf .TableRow row.branches == some ⟨.TableRow, none, [.build], 13⟩)

structure RtTable2 (T : Table) : Prop where
  base : RtTable T
  mid : ∀ s, s = 3 ∨ s = 10 ∨ s = 12 ∨ s = 13 → midOK2 T s = true
  step : ∀ s, s = 10 ∨ s = 12 ∨ s = 13 → stepRowOK T s = true
  t12 : ∃ row, T.row? 12 = some row ∧
    firstOf .TableRow row.branches = some ⟨.TableRow, none, [.start .DataTable, .build], 13⟩
  t13 : ∃ row, T.row? 13 = some row ∧ firstOf .TableRow row.branches = some ⟨.TableRow, none, [.build], 13⟩

theorem RtTable2.of_facts {T : Table} (h : rt2Facts T = true) : RtTable2 T := by
  simp only [rt2Facts, Bool.and_eq_true] at h
  obtain ⟨⟨⟨⟨⟨⟨⟨⟨⟨h0, h1⟩, h2⟩, h3⟩, h4⟩, h5⟩, h6⟩, h7⟩, h8⟩, h9⟩ := h
  refine ⟨RtTable.of_facts h0, ?_, ?_, ?_, ?_⟩
  · rintro s (rfl | rfl | rfl | rfl) <;> assumption
  · rintro s (rfl | rfl | rfl) <;> assumption
  · obtain ⟨row, hr, hp⟩ := rowHas_spec h8
    simp only [beq_iff_eq] at hp
    exact ⟨row, hr, hp⟩
  · obtain ⟨row, hr, hp⟩ := rowHas_spec h9
    simp only [beq_iff_eq] at hp
    exact ⟨row, hr, hp⟩

theorem tableOK_spec {rows : List (List Str)} (h : tableOK rows = true) :
    ∀ r ∈ rows, r.length = (rows.headD []).length ∧ ∀ c ∈ r, cellOK c = true := by
  simp only [tableOK, List.all_eq_true, Bool.and_eq_true, beq_iff_eq] at h
  exact fun r hr => ⟨(h r hr).1.2, (h r hr).2⟩

section scen2
variable {D' : List Dialect} (hf : keywordFacts D' = true) (hr : renderFacts D' = true)
variable (D : List Dialect) (stop : Bool) (T : Table) (RT2 : RtTable2 T)
variable {μ : MState} (hμ : μ.dialect ∈ D') (hsep : μ.activeSep = none)
include hf hr RT2 hμ hsep

/-- further table rows in state 13 -/
theorem rows_loop (sd fi : List (Key × Val)) (tk : Token) (L : List Step) (ts : Token) (i fuel : Nat)
    (rest : List Str) :
    ∀ (rs : List (List Str)) (hrs : ∀ r ∈ rs, ∀ c ∈ r, cellOK c = true) (toks : List Token) (n : Nat) (c : Ctx)
      (h : At c (rs.map (fun r => rowLineOf r ++ [10]) ++ rest) n μ (st13 sd fi tk L ts toks) i),
    ∃ c', At c' rest (n + rs.length) μ (st13 sd fi tk L ts (toks ++ rowToks μ (n + 1) rs)) i ∧
      run (parseLinesPure D T stop (fuel + rs.length) 13) c = run (parseLinesPure D T stop fuel 13) c' := by
  obtain ⟨row13, hrow13, hf13⟩ := RT2.t13
  intro rs
  induction rs with
  | nil => intro _ toks n c h; exact ⟨c, by simpa [rowToks] using h, rfl⟩
  | cons r rs ih =>
    intro hrs toks n c h
    simp only [List.map_cons, List.cons_append] at h
    obtain ⟨c1, h1, hrun1⟩ := lines_step D stop T (fuel + rs.length) 13 13 _ h
      (st13 sd fi tk L ts (toks ++ [rowTok μ (n + 1) r])) i
      (by
        intro c1 h1
        simp only [matchTokenPure, hrow13]
        exact try_first D stop T row13 _ (rowTok μ (n + 1) r) _ rfl .TableRow _ hf13 rfl h1
          (fun K' h1' h2' => row_others_no hr D μ hμ hsep r _ K' h1' h2')
          (row_match D μ r (hrs r (by simp)) _ (n + 1) rfl rfl) _ _
          (by simp only [st13, ← rowItems_snoc]; rfl))
    obtain ⟨c', hc', hrun'⟩ := ih (fun r' hr' => hrs r' (by simp [hr'])) _ (n + 1) c1 h1
    refine ⟨c', ?_, ?_⟩
    · have e : toks ++ [rowTok μ (n + 1) r] ++ rowToks μ (n + 1 + 1) rs = toks ++ rowToks μ (n + 1) (r :: rs) := by
        simp [rowToks]
      have e2 : n + 1 + rs.length = n + (r :: rs).length := by simp; omega
      rw [e, e2] at hc'
      exact hc'
    · have e : fuel + (r :: rs).length = fuel + rs.length + 1 := by simp; omega
      rw [e, hrun1, hrun']

/-- **the step block**: a step line and the rows of its table -/
theorem step_block2 (sd fi : List (Key × Val)) (tk : Token) (st : MStep2) (hst : stepOK2 μ.dialect st = true)
    (s : Nat) (β : BState) (i : Nat) (L : List Step) (i1 n fuel : Nat) (rest : List Str) (c : Ctx)
    (hin : InSc2 sd fi tk s β i L i1)
    (h : At c ((stepLines2 st).map (· ++ [10]) ++ rest) n μ β i) :
    ∃ s' β' c', InSc2 sd fi tk s' β' i1 (L ++ [expStep2 μ.dialect (n + 1) i1 st]) (i1 + stepIdCount st) ∧
      At c' rest (n + stepLineCount st) μ β' i1 ∧
      run (parseLinesPure D T stop (fuel + stepLineCount st) s) c = run (parseLinesPure D T stop fuel s') c' := by
  obtain ⟨kw, text, table⟩ := st
  simp only [stepOK2, Bool.and_eq_true] at hst
  obtain ⟨hcore, htab⟩ := hst
  have htab' := tableOK_spec htab
  obtain ⟨rowS, hrowS, hpS⟩ := rowHas_spec (RT2.step s hin.1)
  simp only [beq_iff_eq] at hpS
  obtain ⟨row12, hrow12, hf12⟩ := RT2.t12
  simp only [stepLines2, List.map_cons, List.cons_append, List.map_map] at h
  -- the step line
  obtain ⟨c1, h1, hrun1⟩ := lines_step D stop T (fuel + table.length) s 12 _ h
    (st12 sd fi tk L (stepTok μ (n + 1) ⟨kw, text⟩)) i1
    (by
      intro c1 h1
      simp only [matchTokenPure, hrowS]
      exact try_first D stop T rowS _ (stepTok μ (n + 1) ⟨kw, text⟩) _ rfl .StepLine _ hpS rfl h1
        (fun K' h1' h2' => step_others_no hf hr D T RT2.base hμ hsep ⟨kw, text⟩ hcore _ rfl K' h1' h2')
        (step_match hf hr D μ hμ ⟨kw, text⟩ hcore _ (n + 1) rfl rfl) _ _
        (by
          simp only [prodOps_append]
          rw [applyOps_append_ok _ _ _ _ _ _ (hin.2 _)]
          rfl))
  cases table with
  | nil =>
    refine ⟨12, _, c1, ⟨.inr (.inl rfl), fun t => ?_⟩, by simpa [stepLineCount] using h1,
      by simpa [stepLineCount] using hrun1⟩
    simp only [pendOf, prodOps, applyOps, applyOp, st12, endRule_step, List.cons_append, stepItems_snoc]
    simp [expStep2, expArg, st10, stepIdCount, MStep2.core]
  | cons r rs =>
    simp only [List.map_cons, List.cons_append, Function.comp_def] at h1
    have hcells : ∀ r' ∈ r :: rs, ∀ c ∈ r', cellOK c = true := fun r' hr' => (htab' r' hr').2
    -- the first row opens the table
    obtain ⟨c2, h2, hrun2⟩ := lines_step D stop T (fuel + rs.length) 12 13 _ h1
      (st13 sd fi tk L (stepTok μ (n + 1) ⟨kw, text⟩) [rowTok μ (n + 1 + 1) r]) i1
      (by
        intro c2 h2
        simp only [matchTokenPure, hrow12]
        exact try_first D stop T row12 _ (rowTok μ (n + 1 + 1) r) _ rfl .TableRow _ hf12 rfl h2
          (fun K' h1' h2' => row_others_no hr D μ hμ hsep r _ K' h1' h2')
          (row_match D μ r (hcells r (by simp)) _ (n + 1 + 1) rfl rfl) _ _ rfl)
    obtain ⟨c3, h3, hrun3⟩ := rows_loop hf hr D stop T RT2 hμ hsep sd fi tk L _ i1 fuel rest rs
      (fun r' hr' => hcells r' (by simp [hr'])) _ (n + 1 + 1) c2 h2
    refine ⟨13, st13 sd fi tk L (stepTok μ (n + 1) ⟨kw, text⟩) ([rowTok μ (n + 1 + 1) r] ++ rowToks μ (n + 1 + 1 + 1) rs), c3,
      ⟨.inr (.inr rfl), fun t => ?_⟩, ?_, ?_⟩
    · have hrect : ∀ t' ∈ rowToks μ (n + 1 + 1 + 1) rs, t'.items.length = (rowTok μ (n + 1 + 1) r).items.length := by
        have : ∀ (rs' : List (List Str)) (k : Nat), (∀ r' ∈ rs', r'.length = r.length) →
            ∀ t' ∈ rowToks μ k rs', t'.items.length = r.length := by
          intro rs'
          induction rs' with
          | nil => intro k _ t' ht'; cases ht'
          | cons a rs' ih' =>
            intro k hl t' ht'
            simp only [rowToks, List.mem_cons] at ht'
            rcases ht' with rfl | ht'
            · simp [rowTok, cellCols_length, hl a (by simp)]
            · exact ih' (k + 1) (fun r' hr' => hl r' (by simp [hr'])) t' ht'
        intro t' ht'
        rw [this rs _ (fun r' hr' => by
          have := (htab' r' (by simp [hr'])).1
          simpa using this) t' ht']
        simp [rowTok, cellCols_length]
      have e : [rowTok μ (n + 1 + 1) r] ++ rowToks μ (n + 1 + 1 + 1) rs = rowTok μ (n + 1 + 1) r :: rowToks μ (n + 1 + 1 + 1) rs := rfl
      simp only [pendOf, prodOps, applyOps, applyOp, st13, e, endRule_datatable _ _ hrect,
        List.cons_append, List.nil_append, endRule_step_table, stepItems_snoc]
      have e2 : rowTok μ (n + 1 + 1) r :: rowToks μ (n + 1 + 1 + 1) rs = rowToks μ (n + 1 + 1) (r :: rs) := rfl
      rw [e2, numberRows_rowToks]
      simp [expStep2, expArg, st10, stepIdCount, rowToks_length, getLocation, rowTok, Token.loc, Nat.add_assoc]
    · have e : n + 1 + 1 + rs.length = n + stepLineCount ⟨kw, text, r :: rs⟩ := by simp [stepLineCount]; omega
      rwa [e] at h3
    · have e : fuel + stepLineCount ⟨kw, text, r :: rs⟩ = fuel + (r :: rs).length + 1 := by simp [stepLineCount]; omega
      have e2 : fuel + (r :: rs).length = fuel + rs.length + 1 := by simp; omega
      rw [e, hrun1, e2, hrun2, hrun3]

/-- the steps of a scenario -/
theorem steps_loop2 (sd fi : List (Key × Val)) (tk : Token) (fuel : Nat) (rest : List Str) :
    ∀ (steps : List MStep2) (hok : ∀ st ∈ steps, stepOK2 μ.dialect st = true)
      (s : Nat) (β : BState) (i : Nat) (L : List Step) (i1 n : Nat) (c : Ctx)
      (hin : InSc2 sd fi tk s β i L i1)
      (h : At c ((steps.flatMap stepLines2).map (· ++ [10]) ++ rest) n μ β i),
    ∃ s' β' i' c', InSc2 sd fi tk s' β' i' (L ++ expSteps2 μ.dialect (n + 1) i1 steps) (i1 + stepsIds steps) ∧
      At c' rest (n + stepsLines steps) μ β' i' ∧
      run (parseLinesPure D T stop (fuel + stepsLines steps) s) c = run (parseLinesPure D T stop fuel s') c' := by
  intro steps
  induction steps with
  | nil =>
    intro _ s β i L i1 n c hin h
    exact ⟨s, β, i, c, by simpa [expSteps2, stepsIds] using hin, by simpa [stepsLines] using h, rfl⟩
  | cons st steps ih =>
    intro hok s β i L i1 n c hin h
    simp only [List.flatMap_cons, List.map_append, List.append_assoc] at h
    obtain ⟨s1, β1, c1, hin1, h1, hrun1⟩ := step_block2 hf hr D stop T RT2 hμ hsep sd fi tk st (hok st (by simp))
      s β i L i1 n (fuel + stepsLines steps) _ c hin h
    obtain ⟨s', β', i', c', hin', hc', hrun'⟩ := ih (fun x hx => hok x (by simp [hx])) s1 β1 i1 _ _ _ c1 hin1 h1
    refine ⟨s', β', i', c', ?_, ?_, ?_⟩
    · have e1 : L ++ [expStep2 μ.dialect (n + 1) i1 st] ++
            expSteps2 μ.dialect (n + stepLineCount st + 1) (i1 + stepIdCount st) steps =
          L ++ expSteps2 μ.dialect (n + 1) i1 (st :: steps) := by
        simp [expSteps2, Nat.add_right_comm]
      have e2 : i1 + stepIdCount st + stepsIds steps = i1 + stepsIds (st :: steps) := by simp [stepsIds]; omega
      rw [e1, e2] at hin'
      exact hin'
    · have e : n + stepLineCount st + stepsLines steps = n + stepsLines (st :: steps) := by simp [stepsLines]; omega
      rwa [e] at hc'
    · have e : fuel + stepsLines (st :: steps) = fuel + stepsLines steps + stepLineCount st := by
        simp [stepsLines]; omega
      rw [e, hrun1, hrun']

omit hf hr RT2 hμ hsep in
/-- closing an open scenario leaves the finished scenario in the `Feature` node -/
theorem insc2_closes (nt m : Nat) (tags : List Str) (kw nm : Str) (fi : List (Key × Val))
    (s : Nat) (β : BState) (i : Nat) (L : List Step) (i1 : Nat)
    (hin : InSc2 (tagsItem μ nt tags) fi (titleTok μ m .ScenarioLine kw nm) s β i L i1) :
    Closes2 s β i (fi ++ [(.rule .ScenarioDefinition, Val.scenario (mkSc nt m i1 tags kw nm L))])
      (i1 + tags.length + 1) := by
  have h10 := (insc_closes (μ := μ) nt m tags kw nm fi 10 _ i1 L i1 (.inl ⟨rfl, rfl, rfl⟩)).2
  refine ⟨.inr hin.1, fun t => ?_⟩
  have e : closeOf2 s = pendOf s ++ [.end_ .Scenario, .end_ .ScenarioDefinition] := by
    rcases hin.1 with rfl | rfl | rfl <;> rfl
  rw [e, prodOps_append, applyOps_append_ok _ _ _ _ _ _ (hin.2 t)]
  exact h10 t

/-- **The scenario block** of the richer model -/
theorem scenario_block2 (sc : MScenario2) (hok : scenarioOK2 μ.dialect sc = true)
    (s : Nat) (β : BState) (i : Nat) (fi : List (Key × Val)) (i0 n fuel : Nat) (rest : List Str) (c : Ctx)
    (hcl : Closes2 s β i fi i0)
    (h : At c ((scenarioLines2 sc).map (· ++ [10]) ++ rest) n μ β i) :
    ∃ s' β' i' c',
      Closes2 s' β' i' (fi ++ [(.rule .ScenarioDefinition, Val.scenario (expScenario2 μ.dialect (n + 1) i0 sc))])
        (i0 + scIds2 sc) ∧
      At c' rest (n + scLines2 sc) μ β' i' ∧
      run (parseLinesPure D T stop (fuel + scLines2 sc) s) c = run (parseLinesPure D T stop fuel s') c' := by
  have RTf := RT2.base
  obtain ⟨tags, kw, nm, steps⟩ := sc
  simp only [scenarioOK2, Bool.and_eq_true, List.all_eq_true, List.contains_eq_mem, decide_eq_true_eq] at hok
  obtain ⟨⟨⟨htags, hk⟩, hn⟩, hsteps⟩ := hok
  have hk' : kw ∈ μ.dialect.roleKeywords .ScenarioLine := hk
  obtain ⟨row, hrow, hp⟩ := rowHas_spec (RT2.mid s hcl.1)
  simp only [Bool.and_eq_true, beq_iff_eq] at hp
  obtain ⟨⟨hfs, hft⟩, -⟩ := hp
  obtain ⟨row9, hrow9, hf9⟩ := RTf.r9
  have hsno : ∀ (t : Token), t.line = some (titleLineOf kw nm ++ [10]) → ∀ K', K' ≠ .ScenarioLine → K' ≠ .Other →
      matchLine D K' μ t (titleLineOf kw nm ++ [10]) = ⟨t, μ, .no⟩ := fun t ht K' h1 h2 =>
    title_others_no hf hr D T RTf hμ hsep .ScenarioLine rfl kw nm hk' hn t ht K' h1 h2
  have hsyes : ∀ (t : Token) (k : Nat), t.line = some (titleLineOf kw nm ++ [10]) → t.lineNo = k →
      matchLine D .ScenarioLine μ t (titleLineOf kw nm ++ [10]) = ⟨titleTok μ k .ScenarioLine kw nm, μ, .matched⟩ :=
    fun t k ht hk2 => title_match hf hr D μ hμ .ScenarioLine rfl kw nm hk' hn t k ht hk2
  have key : ∃ c1, At c1 ((steps.flatMap stepLines2).map (· ++ [10]) ++ rest) (n + tagLines tags + 1) μ
        (st10 (tagsItem μ (n + 1) tags) fi (titleTok μ (n + tagLines tags + 1) .ScenarioLine kw nm) []) i0 ∧
      run (parseLinesPure D T stop (fuel + stepsLines steps + (tagLines tags + 1)) s) c =
        run (parseLinesPure D T stop (fuel + stepsLines steps) 10) c1 := by
    by_cases ht : tags = []
    · subst ht
      simp only [scenarioLines2, tagLineOf, List.isEmpty_nil, if_true, List.nil_append, List.map_cons,
        List.cons_append] at h
      obtain ⟨c1, h1, hrun1⟩ := lines_step D stop T (fuel + stepsLines steps) s 10 _ h
        (st10 [] fi (titleTok μ (n + 1) .ScenarioLine kw nm) []) i0
        (by
          intro c1 h1
          simp only [matchTokenPure, hrow]
          exact try_first D stop T row _ (titleTok μ (n + 1) .ScenarioLine kw nm) _ rfl .ScenarioLine _ hfs rfl h1
            (hsno _ rfl) (hsyes _ _ rfl rfl) _ _
            (by
              simp only [prodOps_append]
              rw [applyOps_append_ok _ _ _ _ _ _ (hcl.2 _)]
              rfl))
      exact ⟨c1, by simpa [tagLines, tagsItem] using h1, by simpa [tagLines] using hrun1⟩
    · have hemp : tags.isEmpty = false := by cases tags <;> simp_all
      have htl : tagLines tags = 1 := by simp [tagLines, hemp]
      simp only [scenarioLines2, tagLineOf, hemp, Bool.false_eq_true, if_false, List.singleton_append,
        List.map_cons, List.cons_append] at h
      obtain ⟨c1, h1, hrun1⟩ := lines_step D stop T (fuel + stepsLines steps + 1) s 9 _ h
        ⟨⟨.Tags, [(.tok .TagLine, .tok (tagTok μ (n + 1) tags))]⟩ :: ⟨.ScenarioDefinition, []⟩ :: ⟨.Feature, fi⟩ :: G0, []⟩ i0
        (by
          intro c1 h1
          simp only [matchTokenPure, hrow]
          exact try_tag0 D stop (titleLineOf kw nm ++ [10]) (titleTok μ (n + 1 + 1) .ScenarioLine kw nm)
            (hsno _ rfl) (hsyes _ _ rfl rfl) T row RTf.la _ (tagTok μ (n + 1) tags) rfl (n + 1) rfl
            (fun t K' h1' h2' => tagline_others_no hf hr D μ hμ tags ht htags hsep t K' h1' h2')
            (fun t ht' hn' => tag_match D μ tags ht htags t (n + 1) ht' hn') _ _ _ _ hft
            (by
              simp only [prodOps_append]
              rw [applyOps_append_ok _ _ _ _ _ _ (hcl.2 _)]
              rfl) _ c1 rfl rfl h1)
      obtain ⟨c2, h2, hrun2⟩ := lines_step D stop T (fuel + stepsLines steps) 9 10 _ h1
        (st10 (tagsItem μ (n + 1) tags) fi (titleTok μ (n + 1 + 1) .ScenarioLine kw nm) []) i0
        (by
          intro c2 h2
          simp only [matchTokenPure, hrow9]
          exact try_first D stop T row9 _ (titleTok μ (n + 1 + 1) .ScenarioLine kw nm) _ rfl .ScenarioLine _ hf9 rfl h2
            (hsno _ rfl) (hsyes _ _ rfl rfl) _ _
            (by
              simp only [prodOps, applyOps, applyOp, endRule_raw .Tags (.inr (.inl rfl))]
              simp [tagsItem, hemp, st10]
              rfl))
      refine ⟨c2, ?_, ?_⟩
      · rw [htl]; exact h2
      · rw [htl, hrun1, hrun2]
  obtain ⟨c1, h1, hrun1⟩ := key
  obtain ⟨s', β', i', c', hin', hc', hrun'⟩ := steps_loop2 hf hr D stop T RT2 hμ hsep _ fi _ fuel rest steps hsteps
    10 _ i0 [] i0 _ c1 ⟨.inl rfl, fun t => rfl⟩ h1
  have hcl' := insc2_closes (n + 1) (n + tagLines tags + 1) tags kw nm fi s' β' i' _ _ hin'
  refine ⟨s', β', i', c', ?_, ?_, ?_⟩
  · have e1 : mkSc (n + 1) (n + tagLines tags + 1) (i0 + stepsIds steps) tags kw nm
        ([] ++ expSteps2 μ.dialect (n + tagLines tags + 1 + 1) i0 steps) =
        expScenario2 μ.dialect (n + 1) i0 ⟨tags, kw, nm, steps⟩ := by
      simp [mkSc, expScenario2, Nat.add_assoc, Nat.add_comm, Nat.add_left_comm]
    have e2 : i0 + stepsIds steps + tags.length + 1 = i0 + scIds2 ⟨tags, kw, nm, steps⟩ := by
      simp [scIds2]; omega
    rw [e1, e2] at hcl'
    exact hcl'
  · have e : n + tagLines tags + 1 + stepsLines steps = n + scLines2 ⟨tags, kw, nm, steps⟩ := by
      simp [scLines2]; omega
    rwa [e] at hc'
  · have e : fuel + scLines2 ⟨tags, kw, nm, steps⟩ = fuel + stepsLines steps + (tagLines tags + 1) := by
      simp [scLines2]; omega
    rw [e, hrun1, hrun']

/-- the scenarios of a feature -/
theorem scenarios_loop2 (hd : Key × Val) (fuel : Nat) (rest : List Str) :
    ∀ (scs : List MScenario2) (hok : ∀ sc ∈ scs, scenarioOK2 μ.dialect sc = true)
      (s : Nat) (β : BState) (i : Nat) (S : List Scenario) (i0 n : Nat) (c : Ctx)
      (hcl : Closes2 s β i (hd :: scItems S) i0)
      (h : At c ((scs.flatMap scenarioLines2).map (· ++ [10]) ++ rest) n μ β i),
    ∃ s' β' i' c',
      Closes2 s' β' i' (hd :: scItems (S ++ expScenarios2 μ.dialect (n + 1) i0 scs)) (i0 + idsOfScenarios2 scs) ∧
      At c' rest (n + (scs.map scLines2).sum) μ β' i' ∧
      run (parseLinesPure D T stop (fuel + (scs.map scLines2).sum) s) c = run (parseLinesPure D T stop fuel s') c' := by
  intro scs
  induction scs with
  | nil =>
    intro _ s β i S i0 n c hcl h
    exact ⟨s, β, i, c, by simpa [expScenarios2, idsOfScenarios2] using hcl, by simpa using h, rfl⟩
  | cons sc scs ih =>
    intro hok s β i S i0 n c hcl h
    simp only [List.flatMap_cons, List.map_append, List.append_assoc] at h
    obtain ⟨s1, β1, i1, c1, hcl1, h1, hrun1⟩ := scenario_block2 hf hr D stop T RT2 hμ hsep sc (hok sc (by simp))
      s β i _ i0 n (fuel + (scs.map scLines2).sum) _ c hcl h
    rw [List.cons_append, scItems_snoc] at hcl1
    obtain ⟨s', β', i', c', hcl', hc', hrun'⟩ := ih (fun x hx => hok x (by simp [hx])) s1 β1 i1 _ _ _ c1 hcl1 h1
    refine ⟨s', β', i', c', ?_, ?_, ?_⟩
    · have e1 : S ++ [expScenario2 μ.dialect (n + 1) i0 sc] ++
            expScenarios2 μ.dialect (n + scLines2 sc + 1) (i0 + scIds2 sc) scs =
          S ++ expScenarios2 μ.dialect (n + 1) i0 (sc :: scs) := by
        simp [expScenarios2, Nat.add_right_comm]
      have e2 : i0 + scIds2 sc + idsOfScenarios2 scs = i0 + idsOfScenarios2 (sc :: scs) := by
        simp [idsOfScenarios2]; omega
      rw [e1, e2] at hcl'
      exact hcl'
    · have e : n + scLines2 sc + (scs.map scLines2).sum = n + ((sc :: scs).map scLines2).sum := by simp; omega
      rwa [e] at hc'
    · have e : fuel + ((sc :: scs).map scLines2).sum = fuel + (scs.map scLines2).sum + scLines2 sc := by simp; omega
      rw [e, hrun1, hrun']

/-- the end of file (as `finish`, with state 13 allowed) -/
theorem finish2 (s : Nat) (β : BState) (i i0 n fuel : Nat) (tags : List Str) (kw name : Str) (S : List Scenario)
    (hcl : Closes2 s β i (hdrItem μ tags kw name :: scItems S) i0) (c : Ctx) (h : At c [] n μ β i) :
    ∃ c' te, run (parseLinesPure D T stop (fuel + 1) s) c = (.ok 34, c') ∧
      At c' [] (n + 1) μ (docStack (mkFeat 1 (1 + tagLines tags) i0 tags μ.name kw name S) te) (i0 + tags.length) := by
  obtain ⟨row, hrow, hp⟩ := rowHas_spec (RT2.mid s hcl.1)
  simp only [Bool.and_eq_true, beq_iff_eq] at hp
  obtain ⟨-, hhead⟩ := hp
  obtain ⟨rest, hbs⟩ : ∃ rest, row.branches =
      ⟨.EOF, none, closeOf2 s ++ [.end_ .Feature, .build], 34⟩ :: rest := by
    cases hb : row.branches with
    | nil => rw [hb] at hhead; cases hhead
    | cons a r => rw [hb] at hhead; simp only [List.head?_cons, Option.some.injEq] at hhead; exact ⟨r, by rw [hhead]⟩
  obtain ⟨c', hrun, hc'⟩ := lines_eof D stop T fuel s 34 h _ _
    (by
      intro c1 h1
      simp only [matchTokenPure, hrow, hbs]
      exact try_eof D stop T row _ rfl _ rest rfl rfl h1 _ _
        (by
          simp only [prodOps_append]
          rw [applyOps_append_ok _ _ _ _ _ _ (hcl.2 _)]
          simp only [prodOps, applyOps, applyOp, featStack, G0, hdrItem, endRule_feature]
          rfl))
  exact ⟨c', _, hrun, hc'⟩

end scen2

theorem stepLines2_length (st : MStep2) : (stepLines2 st).length = stepLineCount st := by
  simp [stepLines2, stepLineCount]; omega

theorem flatMap_stepLines2_length (steps : List MStep2) : (steps.flatMap stepLines2).length = stepsLines steps := by
  induction steps with
  | nil => rfl
  | cons st steps ih => simp [List.flatMap_cons, stepLines2_length, ih, stepsLines]

theorem scenarioLines2_length (sc : MScenario2) : (scenarioLines2 sc).length = scLines2 sc := by
  simp only [scenarioLines2, scLines2, tagLineOf, tagLines, List.length_append, List.length_cons,
    flatMap_stepLines2_length]
  split <;> simp <;> omega

theorem flatMap_scenarioLines2_length (scs : List MScenario2) :
    (scs.flatMap scenarioLines2).length = (scs.map scLines2).sum := by
  induction scs with
  | nil => rfl
  | cons sc scs ih => simp [List.flatMap_cons, scenarioLines2_length, ih]

theorem scenarioLines2_noLF {D' : List Dialect} (hr : renderFacts D' = true) {d : Dialect} (hd : d ∈ D')
    (sc : MScenario2) (hok : scenarioOK2 d sc = true) : ∀ b ∈ scenarioLines2 sc, ∀ x ∈ b, x ≠ 10 := by
  simp only [scenarioOK2, Bool.and_eq_true, List.all_eq_true, List.contains_eq_mem, decide_eq_true_eq] at hok
  obtain ⟨⟨⟨htags, hk⟩, hn⟩, hsteps⟩ := hok
  intro b hb
  simp only [scenarioLines2, List.mem_append, List.mem_cons, List.mem_flatMap] at hb
  rcases hb with hb | rfl | ⟨st, hst, hb⟩
  · exact tagLine_noLF sc.tags htags b hb
  · exact title_noLF hr hd sc.kw sc.name
      (mem_allKeywords_title (mem_titleKeywords_of_role _ .ScenarioLine sc.kw hk)) hn
  · have hs := hsteps st hst
    simp only [stepOK2, Bool.and_eq_true] at hs
    obtain ⟨hcore, htab⟩ := hs
    simp only [stepLines2, List.mem_cons, List.mem_map] at hb
    rcases hb with rfl | ⟨r, hr', rfl⟩
    · simp only [stepOK, Bool.and_eq_true, beq_iff_eq, firstStepKeyword] at hcore
      obtain ⟨-, hk10⟩ := renderFacts_spec hr hd (mem_allKeywords_step (List.mem_of_find?_eq_some hcore.1))
      obtain ⟨-, -, ht10⟩ := cleanText_spec hcore.2
      intro x hx
      simp only [stepLineOf, MStep2.core, List.mem_append, List.mem_cons, List.not_mem_nil, or_false] at hx
      rcases hx with ((rfl | rfl) | hx) | hx
      · decide
      · decide
      · exact hk10 x hx
      · exact ht10 x hx
    · exact rowBody_noLF r fun c hc x hx => ((cellOK_spec ((tableOK_spec htab r hr').2 c hc)).2.2 x hx).2.2

/-- **Round trip of the richer model, queue-free parse**: outcome and final id counter -/
theorem roundtrip2_pure {D' : List Dialect} (hf : keywordFacts D' = true) (hr : renderFacts D' = true)
    (D : List Dialect) (T : Table) (RT2 : RtTable2 T) (stop : Bool) (μ0 : MState) (hμ : (μ0.reset D).dialect ∈ D')
    (ids : Nat) (m : MFeature2) (hwf : WF2 (μ0.reset D).dialect m = true) :
    (parseWithPure D T stop μ0 ids (render2 m)).1 =
      .ok (expectedDoc2 (μ0.reset D).dialect (μ0.reset D).name m ids) ∧
    (parseWithPure D T stop μ0 ids (render2 m)).2.ids = idsAfter2 m ids := by
  have RTf := RT2.base
  obtain ⟨tags, kw, name, scs⟩ := m
  simp only [WF2, Bool.and_eq_true, List.all_eq_true, List.contains_eq_mem, decide_eq_true_eq] at hwf
  obtain ⟨⟨⟨htags, hk⟩, hn⟩, hscs⟩ := hwf
  have hka : kw ∈ (μ0.reset D).dialect.allKeywords :=
    mem_allKeywords_title (mem_titleKeywords_of_role _ .FeatureLine kw hk)
  have hsplit : splitLines (render2 ⟨tags, kw, name, scs⟩) =
      (tagLineOf tags ++ [titleLineOf kw name]).map (· ++ [10]) ++ (scs.flatMap scenarioLines2).map (· ++ [10]) := by
    have : lineBodies2 ⟨tags, kw, name, scs⟩ = (tagLineOf tags ++ [titleLineOf kw name]) ++ scs.flatMap scenarioLines2 := by
      simp [lineBodies2]
    rw [render2, this, ← List.map_append]
    apply splitLines_flatMap
    intro b hb
    simp only [List.mem_append, List.mem_singleton, List.mem_flatMap] at hb
    rcases hb with (hb | rfl) | ⟨sc, hsc, hb⟩
    · exact tagLine_noLF tags htags b hb
    · exact title_noLF hr hμ kw name hka hn
    · exact scenarioLines2_noLF hr hμ sc (hscs sc hsc) b hb
  have hlen : (splitLines (render2 ⟨tags, kw, name, scs⟩)).length + 2 =
      (2 + (scs.map scLines2).sum) + (1 + tagLines tags) := by
    rw [hsplit]
    simp only [List.length_map, List.length_append, List.length_singleton, flatMap_scenarioLines2_length,
      tagLineOf, tagLines]
    split <;> simp <;> omega
  have hexp : expectedDoc2 (μ0.reset D).dialect (μ0.reset D).name ⟨tags, kw, name, scs⟩ ids =
      ⟨some (mkFeat 1 (1 + tagLines tags) (ids + idsOfScenarios2 scs) tags (μ0.reset D).name kw name
        (expScenarios2 (μ0.reset D).dialect (1 + tagLines tags + 1) ids scs)), []⟩ := by
    have : 2 + tagLines tags = 1 + tagLines tags + 1 := by omega
    simp [expectedDoc2, mkFeat, this]
  rw [hexp]
  have hid : idsAfter2 ⟨tags, kw, name, scs⟩ ids = ids + idsOfScenarios2 scs + tags.length := rfl
  rw [hid]
  apply pure_outcome_of_loop D T RTf.start
  intro c hc
  rw [hlen]
  rw [hsplit] at hc
  obtain ⟨c1, β1, h1, hcl, hrun1⟩ := feature_head hf hr D stop T RTf hμ (reset_activeSep D μ0) tags kw name htags hk hn
    _ ids (2 + (scs.map scLines2).sum) c hc
  have hcl2 : Closes2 3 β1 ids (hdrItem (μ0.reset D) tags kw name :: scItems []) ids := ⟨.inl rfl, hcl.2⟩
  have h1' : At c1 ((scs.flatMap scenarioLines2).map (· ++ [10]) ++ []) (1 + tagLines tags) (μ0.reset D) β1 ids := by
    rwa [List.append_nil]
  obtain ⟨s2, β2, i2, c2, hcl3, h2, hrun2⟩ := scenarios_loop2 hf hr D stop T RT2 hμ (reset_activeSep D μ0)
    (hdrItem (μ0.reset D) tags kw name) 2 [] scs hscs 3 β1 ids [] ids (1 + tagLines tags) c1 hcl2 h1'
  rw [List.nil_append] at hcl3
  obtain ⟨c3, te, hrun3, h3⟩ := finish2 hf hr D stop T RT2 hμ (reset_activeSep D μ0) s2 β2 i2 _ _ 1 tags kw name _
    hcl3 c2 h2
  exact ⟨c3, te, _, by rw [hrun1, hrun2, hrun3], h3⟩

end Lemmas
end GV
