/-
  Lemmas/GlueTerm.lean — the fuel of the parse loop and of the look-ahead loops always suffices.

  Measures: `N` = tokens queued + lines unread bounds a look-ahead (it stops at the first
  end-of-file token, and only an exhausted scanner makes one); `M` = queued tokens that are not
  end-of-file + lines unread is conserved by a look-ahead and decreases with every line the main
  loop reads.
-/
import GherkinVerif.Lemmas.GluePartition
namespace GV
namespace Lemmas

def cntNE (l : List Token) : Nat := l.countP fun t => t.line.isSome
def measM (c : Ctx) : Nat := cntNE c.queue + c.lines.length
def measN (c : Ctx) : Nat := c.queue.length + c.lines.length

theorem cntNE_append (a b : List Token) : cntNE (a ++ b) = cntNE a + cntNE b := List.countP_append
theorem cntNE_single_le (t : Token) : cntNE [t] ≤ 1 := by
  unfold cntNE; rw [List.countP_singleton]; split <;> omega
theorem cntNE_single_of_tok {t t' : Token} (h : t'.line = t.line) : cntNE [t'] = cntNE [t] := by
  unfold cntNE; rw [List.countP_singleton, List.countP_singleton, h]
theorem cntNE_single_eof {t : Token} (h : t.line = none) : cntNE [t] = 0 := by
  unfold cntNE; rw [List.countP_singleton, h]; rfl
theorem cntNE_single_line {t : Token} (h : t.line ≠ none) : cntNE [t] = 1 := by
  unfold cntNE; rw [List.countP_singleton]
  cases hl : t.line with
  | none => exact absurd hl h
  | some l => rfl

theorem ScanEq.measM {c c' : Ctx} (h : ScanEq c c') : measM c' = measM c := by
  unfold Lemmas.measM; rw [h.1, h.2.1]
theorem ScanEq.measN {c c' : Ctx} (h : ScanEq c c') : measN c' = measN c := by
  unfold Lemmas.measN; rw [h.1, h.2.1]
theorem FootB'.scan {c c' : Ctx} (h : FootB' c c') : ScanEq c c' := by
  obtain ⟨_, _, _, _, rfl⟩ := h; exact ⟨rfl, rfl, rfl⟩

/-- reading a token: `M` drops by one exactly when a line token comes out, and then so does `N` -/
theorem readToken_meas (c : Ctx) : ∃ t c1, run readToken c = (.ok t, c1) ∧
    measM c1 + cntNE [t] = measM c ∧ (t.line ≠ none → measN c1 + 1 = measN c) ∧
    c1.builds = c.builds ∧ c1.reads = c.reads ∧ c1.unexpected = c.unexpected ∧ c1.errors = c.errors := by
  obtain ⟨t, c1, hr, hcase⟩ := readToken_cases c
  refine ⟨t, c1, hr, ?_⟩
  rcases hcase with ⟨q, hq, rfl⟩ | ⟨hq, rfl, rfl⟩
  · unfold measM measN
    dsimp only
    rw [hq]
    refine ⟨?_, fun _ => by simp; omega, rfl, rfl, rfl, rfl⟩
    have : cntNE (t :: q) = cntNE [t] + cntNE q := cntNE_append [t] q
    omega
  · unfold measM measN
    dsimp only
    rw [hq]
    cases hl : c.lines with
    | nil =>
      refine ⟨?_, fun h => absurd rfl h, rfl, rfl, rfl, rfl⟩
      simp [cntNE]
    | cons l ls =>
      refine ⟨?_, fun _ => by simp, rfl, rfl, rfl, rfl⟩
      simp [cntNE]

/-! ### no operation other than the two loops throws `fuel` -/

def NoFuel (e : Abort) : Prop := e ≠ .fuel

theorem addError_nofuel (cap : Nat) (e : PErr) (c : Ctx) (a : Abort) (c' : Ctx)
    (h : run (addError cap e) c = (.error a, c')) : NoFuel a := by
  rw [run_addError] at h
  split at h
  · cases h
  · split at h <;> cases h
    intro h'; cases h'

theorem liftB_nofuel (cap : Nat) (stop : Bool) (x : Except BErr Unit) (c : Ctx) (a : Abort) (c' : Ctx)
    (h : run (liftB cap stop x) c = (.error a, c')) : NoFuel a := by
  rw [run_liftB] at h
  split at h
  · cases h
  · cases h; intro h'; cases h'
  · split at h
    · cases h; intro h'; cases h'
    · exact addError_nofuel _ _ _ _ _ h

theorem matchP_nofuel (D : List Dialect) (cap : Nat) (stop : Bool) (k : Kind) (t : Token) (c : Ctx)
    (a : Abort) (c' : Ctx) (h : run (matchP D cap stop k t) c = (.error a, c')) : NoFuel a := by
  rw [run_matchP] at h
  dsimp only at h
  split at h
  · cases h
  · cases h
  · split at h
    · cases h; intro h'; cases h'
    · rcases hr : run (addError cap _) _ with ⟨r2, c2⟩
      rw [hr] at h
      cases r2 with
      | ok _ => cases h
      | error e2 => cases h; exact addError_nofuel _ _ _ _ _ hr

theorem runProd_nofuel (cap : Nat) (stop : Bool) (t : Token) (p : Prod) (c : Ctx)
    (a : Abort) (c' : Ctx) (h : run (runProd cap stop t p) c = (.error a, c')) : NoFuel a := by
  rw [run_runProd] at h
  split at h
  · cases h
  · exact liftB_nofuel _ _ _ _ _ _ h
  · split at h
    · cases h
    · exact liftB_nofuel _ _ _ _ _ _ h

/-- a scanner-only predicate with `NoFuel` aborts, for an operation with a scan-preserving footprint -/
theorem Inv.of_scan {α} {m : PM α} {P : Ctx → Prop}
    (hscan : ∀ c r c', run m c = (r, c') → ScanEq c c')
    (hnf : ∀ c a c', run m c = (.error a, c') → NoFuel a)
    (hP : ∀ c c', ScanEq c c' → P c → P c') : Inv P (fun e _ => NoFuel e) m := by
  refine Triple.intro fun c r c' hc hr => ?_
  cases r with
  | ok a => exact hP _ _ (hscan _ _ _ hr) hc
  | error e => exact hnf _ _ _ hr

theorem matchAny_nofuel (D : List Dialect) (cap : Nat) (stop : Bool) (ks : List Kind) (t : Token) (c : Ctx)
    (a : Abort) (c' : Ctx) (h : run (matchAny D cap stop ks t) c = (.error a, c')) : NoFuel a :=
  ((Inv.matchAny (P := fun _ => True) (E := fun e _ => NoFuel e)
    (fun k t => Inv.of_scan (fun c r c' h => (matchP_foot D cap stop k t c r c' h).scan)
      (matchP_nofuel D cap stop k t) (fun _ _ _ h => h)) ks t) c trivial).2 _ _ h

/-! ### an end-of-file token matches nothing but `EOF` -/

theorem matchP_eof (D : List Dialect) (cap : Nat) (stop : Bool) (k : Kind) (hk : k ≠ .EOF) (t : Token)
    (ht : t.line = none) (c : Ctx) : ∃ c', run (matchP D cap stop k t) c = (.ok (false, t), c') := by
  rw [run_matchP]
  have h : matchTok D k c.μ t = (⟨t, c.μ, .no⟩, false) := by
    unfold matchTok
    rw [ht]
    simp [hk]
  rw [h]
  exact ⟨_, rfl⟩

theorem matchAny_eof (D : List Dialect) (cap : Nat) (stop : Bool) (ks : List Kind) (hks : Kind.EOF ∉ ks)
    (t : Token) (ht : t.line = none) (c : Ctx) :
    ∃ c', run (matchAny D cap stop ks t) c = (.ok (false, t), c') := by
  induction ks generalizing c with
  | nil => exact ⟨_, rfl⟩
  | cons k ks ih =>
    have hk : k ≠ .EOF := fun h => hks (h ▸ List.mem_cons_self ..)
    obtain ⟨c1, h1⟩ := matchP_eof D cap stop k hk t ht c
    rw [GV.matchAny, prun_bind, h1]
    dsimp only
    simp only [Bool.false_eq_true, if_false]
    exact ih (fun h => hks (List.mem_cons_of_mem _ h)) c1

/-! ### the look-ahead loop -/

theorem lookaheadLoop_term (D : List Dialect) (cap : Nat) (stop : Bool) (la : LookAhead)
    (h2 : Kind.EOF ∉ la.skip) :
    ∀ (fuel : Nat) (acc : List Token) (c : Ctx), measN c + 1 ≤ fuel →
      ∀ r c', run (lookaheadLoop D cap stop la fuel acc) c = (r, c') →
        match r with
        | .ok (_, read) => cntNE read + measM c' = cntNE acc + measM c
        | .error e => NoFuel e := by
  intro fuel
  induction fuel with
  | zero => intro acc c hN; exact absurd hN (Nat.not_succ_le_zero _)
  | succ n ih =>
    intro acc c hN r c' h
    rw [lookaheadLoop, prun_bind] at h
    obtain ⟨t, c1, hr0, hM, hNt, -⟩ := readToken_meas c
    rw [hr0] at h
    dsimp only at h
    rw [prun_bind] at h
    rcases hr1 : run (matchAny D cap stop la.expected t) c1 with ⟨r1, c2⟩
    rw [hr1] at h
    cases r1 with
    | error e => cases h; exact matchAny_nofuel _ _ _ _ _ _ _ _ hr1
    | ok r1 =>
      obtain ⟨m1, t1⟩ := r1
      have hs1 := (matchAny_foot D cap stop _ _ _ _ _ hr1).scan
      have ht1 := (matchAny_tok D cap stop _ _ _ _ _ hr1).1
      dsimp only at h ht1
      have hc1 : cntNE [t1] = cntNE [t] := cntNE_single_of_tok ht1
      split at h
      · rw [prun_pure] at h; cases h
        dsimp only
        rw [cntNE_append, hs1.measM]; omega
      · rename_i hm1
        rw [prun_bind] at h
        rcases hr2 : run (matchAny D cap stop la.skip t1) c2 with ⟨r2, c3⟩
        rw [hr2] at h
        cases r2 with
        | error e => cases h; exact matchAny_nofuel _ _ _ _ _ _ _ _ hr2
        | ok r2 =>
          obtain ⟨s, t2⟩ := r2
          have hs2 := hs1.trans (matchAny_foot D cap stop _ _ _ _ _ hr2).scan
          have ht2 := ((matchAny_tok D cap stop _ _ _ _ _ hr2).1).trans ht1
          dsimp only at h ht2
          have hc2 : cntNE [t2] = cntNE [t] := cntNE_single_of_tok ht2
          split at h
          · rename_i hs
            have hline : t.line ≠ none := by
              intro hnone
              obtain ⟨_, he⟩ := matchAny_eof D cap stop la.skip h2 t1 (ht1.trans hnone) c2
              rw [hr2] at he
              cases he
              cases hs
            have hN3 : measN c3 + 1 ≤ n := by
              rw [hs2.measN]; have := hNt hline; omega
            have := ih (acc ++ [t2]) c3 hN3 r c' h
            cases r with
            | error e => exact this
            | ok r =>
              obtain ⟨m, read⟩ := r
              dsimp only at this ⊢
              rw [this, cntNE_append, hs2.measM]; omega
          · rw [prun_pure] at h; cases h
            dsimp only
            rw [cntNE_append, hs2.measM]; omega

theorem lookahead_term (D : List Dialect) (cap : Nat) (stop : Bool) (la : LookAhead)
    (h2 : Kind.EOF ∉ la.skip) (k : Nat) :
    Inv (fun c => measM c = k) (fun e _ => NoFuel e) (lookahead D cap stop la) := by
  refine Triple.intro fun c r c' hc hr => ?_
  rw [lookahead, prun_bind, run_get] at hr
  dsimp only at hr
  rw [prun_bind] at hr
  rcases hl : run (lookaheadLoop D cap stop la (c.queue.length + c.lines.length + 2) []) c with ⟨r1, c1⟩
  rw [hl] at hr
  have := lookaheadLoop_term D cap stop la h2 _ [] c (by unfold measN; omega) _ _ hl
  cases r1 with
  | error e => cases hr; exact this
  | ok r1 =>
    obtain ⟨m, read⟩ := r1
    dsimp only at hr this
    rw [prun_bind, run_modify] at hr
    dsimp only at hr
    rw [prun_pure] at hr
    cases hr
    dsimp only
    unfold measM at *
    dsimp only
    rw [cntNE_append]
    have h0 : cntNE ([] : List Token) = 0 := rfl
    omega

theorem lookaheads_noEOF (T : Table) (hT : Spec.lookaheadsStopAtEOF T = true) (i : Nat) (la : LookAhead)
    (h : T.lookaheads[i]? = some la) : Kind.EOF ∉ la.expected ∧ Kind.EOF ∉ la.skip := by
  have hmem : la ∈ T.lookaheads := List.mem_of_getElem? h
  simp only [Spec.lookaheadsStopAtEOF, List.all_eq_true, Bool.and_eq_true] at hT
  have := (hT la hmem).1
  simp at this
  exact this

/-! ### the parse loop -/

theorem term_primsT (D : List Dialect) (T : Table) (hT : Spec.lookaheadsStopAtEOF T = true) (stop : Bool) (k : Nat) :
    PrimsT D T stop (fun c => measM c = k) (fun e _ => NoFuel e) where
  matchP kd t := Inv.of_scan (fun c r c' h => (matchP_foot D _ stop kd t c r c' h).scan)
    (matchP_nofuel D _ stop kd t) (fun c c' hs h => by rw [hs.measM]; exact h)
  lookahead i la hla := lookahead_term D _ stop la (lookaheads_noEOF T hT i la hla).2 k
  runProd t p := Inv.of_scan (fun c r c' h => (runProd_foot' _ stop t p c r c' h).scan)
    (runProd_nofuel _ stop t p) (fun c c' hs h => by rw [hs.measM]; exact h)
  crash w c _ := by intro h; cases h
  tail row t := by
    unfold GV.tryBranches
    refine Triple.bind (Q := fun _ c => measM c = k) (Triple.modify _ fun c hc => hc) fun _ => ?_
    split
    · exact Triple.throw _ fun _ _ h => by cases h
    · exact Inv.bind (Inv.of_scan (fun c r c' h => (addError_foot _ _ c r c' h).toM.scan)
        (addError_nofuel _ _) (fun c c' hs h => by rw [hs.measM]; exact h)) fun _ => Inv.pure _

/-- from "every value of the measure is kept" to any predicate of the measure -/
theorem Inv.of_meas {α} {m : PM α} {E : Abort → Ctx → Prop} (F : Nat → Prop)
    (h : ∀ k, Inv (fun c => measM c = k) E m) : Inv (fun c => F (measM c)) E m := by
  refine Triple.intro fun c r c' hc hr => ?_
  cases r with
  | ok a => have := (h (measM c) c rfl).1 _ _ hr; rw [this]; exact hc
  | error e => exact (h (measM c) c rfl).2 _ _ hr

theorem parseLoop_term (D : List Dialect) (T : Table) (hT : Spec.lookaheadsStopAtEOF T = true) (stop : Bool) :
    ∀ fuel state, Triple (fun c => measM c + 1 ≤ fuel) (parseLoop D T stop fuel state)
      (fun _ _ => True) (fun e _ => NoFuel e) := by
  intro fuel
  induction fuel with
  | zero => intro state c hc; exact absurd hc (Nat.not_succ_le_zero _)
  | succ n ih =>
    intro state
    unfold parseLoop
    refine Triple.bind (Q := fun t c => t.line = none ∨ measM c + 1 ≤ n) ?_ fun t => ?_
    · refine Triple.intro fun c r c' hc hr => ?_
      obtain ⟨t, c1, hr0, hM, -⟩ := readToken_meas c
      rw [hr0] at hr; cases hr
      dsimp only
      by_cases hl : t.line = none
      · exact .inl hl
      · rw [cntNE_single_line hl] at hM
        right; omega
    refine Triple.bind (Q := fun _ c => t.line = none ∨ measM c + 1 ≤ n) (Triple.modify _ fun c hc => hc) fun _ => ?_
    refine Triple.bind
      (Inv.of_meas (fun k => t.line = none ∨ k + 1 ≤ n) fun k => (term_primsT D T hT stop k).matchToken _ t)
      fun s => ?_
    split
    · exact Triple.pure _ fun _ _ => trivial
    · rename_i heof
      refine Triple.conseq (ih s) (fun c hc => ?_) (fun _ _ h => h) (fun _ _ h => h)
      rcases hc with hc | hc
      · simp [Token.eof, hc] at heof
      · exact hc

theorem parseBody_term (D : List Dialect) (T : Table) (hT : Spec.lookaheadsStopAtEOF T = true) (stop : Bool)
    (n : Nat) : Triple (fun c => measM c + 1 ≤ n + 2) (parseBody D T stop n) (fun _ _ => True)
      (fun e _ => NoFuel e) := by
  unfold parseBody
  refine Triple.bind (Q := fun _ c => measM c + 1 ≤ n + 2) (Triple.modify _ fun c hc => hc) fun _ => ?_
  refine Triple.bind (parseLoop_term D T hT stop _ _) fun _ => ?_
  refine Triple.bind (Q := fun _ _ => True)
    (Triple.intro fun c r c' _ hr => ?_) fun _ => ?_
  · cases r with
    | ok _ => trivial
    | error e => exact runProd_nofuel _ _ _ _ _ _ _ hr
  refine Triple.bind Triple.get fun c0 => ?_
  dsimp only
  split
  · exact Triple.bind (Q := fun _ _ => False) (Triple.throw _ fun _ _ h => by cases h) fun _ _ h => h.elim
  · split
    · exact Triple.pure _ fun _ _ => trivial
    · exact Triple.throw _ fun _ _ h => by cases h
    · exact Triple.throw _ fun _ _ h => by cases h
    · exact Triple.throw _ fun _ _ h => by cases h

theorem parse_terminates (D : List Dialect) (T : Table) (hT : Spec.lookaheadsStopAtEOF T = true)
    (stop : Bool) (μ : MState) (ids : Nat) (src : Str) :
    (parseWith D T stop μ ids src).1 ≠ .fuel := by
  have hb := parseBody_term D T hT stop (splitLines src).length (ctx0 D μ ids src)
    (by show measM (ctx0 D μ ids src) + 1 ≤ _; simp [measM, ctx0, cntNE])
  rw [parseWith_eq]
  rcases hr : run (parseBody D T stop (splitLines src).length) (ctx0 D μ ids src) with ⟨r, c⟩
  cases r with
  | ok d => intro h; cases h
  | error e =>
    have := hb.2 _ _ hr
    cases e with
    | fuel => exact absurd rfl this
    | single e => intro h; cases h
    | composite es => intro h; cases h
    | crash w => intro h; cases h

end Lemmas
end GV
