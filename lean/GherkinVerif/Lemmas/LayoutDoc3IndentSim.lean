/-
  Lemmas/LayoutDoc3IndentSim.lean — property C16, indentation: the lock-step simulation of the two
  runs of the queue-free parse, with an escape (`Bad`: the original run has built a moved line
  under a kind that is not indentable), built on the per-test lemma `matchTok_ind` of
  Lemmas/LayoutDoc3Indent.lean.
-/
import GherkinVerif.Lemmas.LayoutDoc3Indent
namespace GV
namespace Layout3
open Lemmas Spec

/-! ### tokens handed to the builder are only ever appended -/

def GrowsB {α} (m : PM α) : Prop := ∀ c, ∃ suf, (run m c).2.builds = c.builds ++ suf

theorem GrowsB.pure {α} (a : α) : GrowsB (pure a : PM α) := fun c => ⟨[], by simp [prun_pure]⟩
theorem GrowsB.throw {α} (e : Abort) : GrowsB (throw e : PM α) := fun c => ⟨[], by simp [prun_throw]⟩
theorem GrowsB.get : GrowsB (get : PM Ctx) := fun c => ⟨[], by simp [run_get]⟩
theorem GrowsB.modify {f : Ctx → Ctx} (h : ∀ c, (f c).builds = c.builds) : GrowsB (modify f : PM PUnit) :=
  fun c => ⟨[], by simp [run_modify, h]⟩

theorem GrowsB.bind {α β} {m : PM α} {f : α → PM β} (h1 : GrowsB m) (h2 : ∀ a, GrowsB (f a)) : GrowsB (m >>= f) := by
  intro c
  rw [prun_bind]
  obtain ⟨s1, e1⟩ := h1 c
  rcases hr : run m c with ⟨r, c'⟩
  rw [hr] at e1
  cases r with
  | error e => exact ⟨s1, e1⟩
  | ok a =>
    obtain ⟨s2, e2⟩ := h2 a c'
    exact ⟨s1 ++ s2, by simp only [e2]; rw [e1, List.append_assoc]⟩

theorem growsB_addError (cap : Nat) (e : PErr) : GrowsB (addError cap e) := by
  intro c
  rw [run_addError]
  split
  · exact ⟨[], by simp⟩
  · split <;> exact ⟨[], by simp⟩

theorem growsB_liftB (cap : Nat) (stop : Bool) (r : Except BErr Unit) : GrowsB (liftB cap stop r) := by
  intro c
  rw [run_liftB]
  split
  · exact ⟨[], by simp⟩
  · exact ⟨[], by simp⟩
  · split
    · exact ⟨[], by simp⟩
    · exact growsB_addError cap _ c

theorem growsB_matchP (D : List Dialect) (cap : Nat) (stop : Bool) (k : Kind) (t : Token) :
    GrowsB (matchP D cap stop k t) := by
  intro c
  rw [run_matchP]
  simp only []
  split
  · exact ⟨[], by simp⟩
  · exact ⟨[], by simp⟩
  · split
    · exact ⟨[], by simp⟩
    · rename_i e _ _
      obtain ⟨suf, hs⟩ := growsB_addError cap e
        { c with μ := (matchTok D k c.μ t).1.μ, calls := c.calls + (if (matchTok D k c.μ t).2 then 1 else 0) }
      rcases hr : run (addError cap e)
        { c with μ := (matchTok D k c.μ t).1.μ, calls := c.calls + (if (matchTok D k c.μ t).2 then 1 else 0) }
        with ⟨r, c2⟩
      rw [hr] at hs
      cases r <;> exact ⟨suf, hs⟩

theorem growsB_runProd (cap : Nat) (stop : Bool) (t : Token) (p : Prod) : GrowsB (runProd cap stop t p) := by
  intro c
  rw [run_runProd]
  cases p with
  | start r => exact ⟨[], by simp⟩
  | end_ r =>
    exact growsB_liftB cap stop _ { c with β := (c.β.endRule c.ids).2.1, ids := (c.β.endRule c.ids).2.2 }
  | build =>
    simp only []
    cases c.β.build t with
    | ok β' => exact ⟨[t], rfl⟩
    | error e => exact growsB_liftB cap stop _ c

theorem growsB_runProds (cap : Nat) (stop : Bool) (t : Token) (ps : List Prod) : GrowsB (runProds cap stop t ps) := by
  induction ps with
  | nil => exact GrowsB.pure _
  | cons p ps ih => unfold runProds; exact GrowsB.bind (growsB_runProd cap stop t p) fun _ => ih

theorem growsB_matchAny (D : List Dialect) (cap : Nat) (stop : Bool) (ks : List Kind) (t : Token) :
    GrowsB (matchAny D cap stop ks t) := by
  induction ks generalizing t with
  | nil => exact GrowsB.pure _
  | cons k ks ih =>
    unfold matchAny
    refine GrowsB.bind (growsB_matchP D cap stop k t) fun r => ?_
    obtain ⟨m, t'⟩ := r
    dsimp only
    split
    · exact GrowsB.pure _
    · exact ih _

theorem growsB_peekLoop (D : List Dialect) (cap : Nat) (stop : Bool) (la : LookAhead) (ls : List Str) (n : Nat) :
    GrowsB (peekLoop D cap stop la ls n) := by
  induction ls generalizing n with
  | nil =>
    unfold peekLoop
    refine GrowsB.bind (growsB_matchAny _ _ _ _ _) fun r => ?_
    obtain ⟨m, t1⟩ := r
    dsimp only
    split
    · exact GrowsB.pure _
    · exact GrowsB.bind (growsB_matchAny _ _ _ _ _) fun _ => GrowsB.pure _
  | cons l ls ih =>
    unfold peekLoop
    refine GrowsB.bind (growsB_matchAny _ _ _ _ _) fun r => ?_
    obtain ⟨m, t1⟩ := r
    dsimp only
    split
    · exact GrowsB.pure _
    · refine GrowsB.bind (growsB_matchAny _ _ _ _ _) fun r => ?_
      obtain ⟨s, t2⟩ := r
      dsimp only
      split
      · exact ih _
      · exact GrowsB.pure _

theorem growsB_lookaheadPure (D : List Dialect) (cap : Nat) (stop : Bool) (la : LookAhead) :
    GrowsB (lookaheadPure D cap stop la) := by
  unfold lookaheadPure
  exact GrowsB.bind GrowsB.get fun _ => growsB_peekLoop _ _ _ _ _ _

theorem growsB_tryBranchesPure (D : List Dialect) (T : Table) (stop : Bool) (row : StateRow) (bs : List Branch)
    (t : Token) : GrowsB (tryBranchesPure D T stop row bs t) := by
  induction bs generalizing t with
  | nil =>
    unfold tryBranchesPure
    refine GrowsB.bind (GrowsB.modify fun c => rfl) fun _ => ?_
    split
    · exact GrowsB.throw _
    · exact GrowsB.bind (growsB_addError _ _) fun _ => GrowsB.pure _
  | cons b bs ih =>
    unfold tryBranchesPure
    refine GrowsB.bind (growsB_matchP _ _ _ _ _) fun r => ?_
    obtain ⟨m, t'⟩ := r
    dsimp only
    have cont : ∀ ok : Bool, GrowsB (if ok = true then do
          runProds T.errorCap stop t' b.prods
          Pure.pure b.target
        else tryBranchesPure D T stop row bs t') := by
      intro ok
      split
      · exact GrowsB.bind (growsB_runProds _ _ _ _) fun _ => GrowsB.pure _
      · exact ih _
    split
    · split
      · exact GrowsB.bind (GrowsB.pure _) cont
      · split
        · exact GrowsB.bind (growsB_lookaheadPure _ _ _ _) cont
        · exact GrowsB.bind (GrowsB.throw _) cont
    · exact ih _

theorem growsB_matchTokenPure (D : List Dialect) (T : Table) (stop : Bool) (state : Nat) (t : Token) :
    GrowsB (matchTokenPure D T stop state t) := by
  unfold matchTokenPure
  split
  · exact growsB_tryBranchesPure _ _ _ _ _ _
  · exact GrowsB.throw _

theorem growsB_parseLinesPure (D : List Dialect) (T : Table) (stop : Bool) (fuel state : Nat) :
    GrowsB (parseLinesPure D T stop fuel state) := by
  induction fuel generalizing state with
  | zero => exact GrowsB.throw _
  | succ n ih =>
    intro c
    cases hl : c.lines with
    | nil =>
      rw [run_lines_nil T stop n state c hl]
      obtain ⟨suf, h⟩ := growsB_matchTokenPure D T stop state { line := none, lineNo := c.lineNo + 1 }
        { c with lineNo := c.lineNo + 1, reads := c.reads ++ [c.lineNo + 1] }
      exact ⟨suf, h⟩
    | cons l ls =>
      rw [run_lines_cons T stop n state c hl]
      obtain ⟨suf, h⟩ := growsB_matchTokenPure D T stop state { line := some l, lineNo := c.lineNo + 1 }
        { c with lines := ls, lineNo := c.lineNo + 1, reads := c.reads ++ [c.lineNo + 1] }
      rcases hr : run (matchTokenPure D T stop state { line := some l, lineNo := c.lineNo + 1 })
        { c with lines := ls, lineNo := c.lineNo + 1, reads := c.reads ++ [c.lineNo + 1] } with ⟨r, c'⟩
      rw [hr] at h
      cases r with
      | error e => exact ⟨suf, h⟩
      | ok s' =>
        obtain ⟨suf2, h2⟩ := ih s' c'
        exact ⟨suf ++ suf2, by simp only [h2]; rw [h]; simp⟩

/-! ### related contexts -/

/-- the original run has handed a moved line to the builder under a kind that is not indentable -/
def BadI (w : Nat → Nat) (c : Ctx) : Prop :=
  ∃ t ∈ c.builds, 0 < w (t.lineNo - 1) ∧ ∃ K, t.mtype = some K ∧ indentable K = false

theorem GrowsB.bad {α} {m : PM α} (h : GrowsB m) {w : Nat → Nat} {c : Ctx} (hb : BadI w c) : BadI w (run m c).2 := by
  obtain ⟨suf, e⟩ := h c
  obtain ⟨t, ht, h1, h2⟩ := hb
  exact ⟨t, by rw [e]; exact List.mem_append_left _ ht, h1, h2⟩

/-- what the two contexts have in common apart from the matcher state: renamed error list (no error
    has column 0), renamed builder state, same id counter, same reported lines -/
structure CtxW (w : Nat → Nat) (c1 c2 : Ctx) : Prop where
  errors : c2.errors = c1.errors.map (mapErr (indentMap w))
  errs0 : ∀ e ∈ c1.errors, e.loc.col ≠ some 0
  β : BMap (indentMap w) c1.β c2.β
  ids : c2.ids = c1.ids
  unexpected : c2.unexpected = c1.unexpected

/-- … and the same matcher state -/
structure CtxI (w : Nat → Nat) (c1 c2 : Ctx) : Prop extends CtxW w c1 c2 where
  μ : c2.μ = c1.μ

/-- unread lines: line `n + i` (0-based) of the second text is that of the first with `w (n + i)`
    blanks in front -/
inductive LinesInd (w : Nat → Nat) : Nat → List Str → List Str → Prop
  | nil (n : Nat) : LinesInd w n [] []
  | cons {n : Nat} {l : Str} {ls1 ls2 : List Str} (ws : Str) (hws : AllSpace ws) (hlen : ws.length = w n)
      (t : LinesInd w (n + 1) ls1 ls2) : LinesInd w n (l :: ls1) ((ws ++ l) :: ls2)

def LinesRel (w : Nat → Nat) (c1 c2 : Ctx) : Prop := c2.lineNo = c1.lineNo ∧ LinesInd w c1.lineNo c1.lines c2.lines

theorem LinesInd.length_eq {w : Nat → Nat} {n : Nat} {ls1 ls2 : List Str} (h : LinesInd w n ls1 ls2) :
    ls1.length = ls2.length := by
  induction h with
  | nil => rfl
  | cons _ _ _ _ ih => simp [ih]

theorem LinesRel.frame {w : Nat → Nat} {c1 c2 c1' c2' : Ctx} (h : LinesRel w c1 c2) (f1 : Frame c1 c1') (f2 : Frame c2 c2') :
    LinesRel w c1' c2' := by
  unfold LinesRel
  rw [f1.1, f1.2, f2.1, f2.2]; exact h

section simI
variable {w : Nat → Nat}

/-- outcome of two computations that touch neither scanner nor matcher -/
def PostW (w : Nat → Nat) {α} (R : α → α → Prop) (c1 c2 : Ctx) (x1 x2 : Except Abort α × Ctx) : Prop :=
  (∃ a1 a2 c1' c2', x1 = (.ok a1, c1') ∧ x2 = (.ok a2, c2') ∧ R a1 a2 ∧ CtxW w c1' c2' ∧
    Frame c1 c1' ∧ Frame c2 c2' ∧ c1'.μ = c1.μ ∧ c2'.μ = c2.μ) ∨
  (∃ e c1' c2', x1 = (.error e, c1') ∧ x2 = (.error (mapAbort (indentMap w) e), c2') ∧ CtxW w c1' c2')

def SimW (w : Nat → Nat) {α} (R : α → α → Prop) (m1 m2 : PM α) : Prop :=
  ∀ c1 c2, CtxW w c1 c2 → PostW w R c1 c2 (run m1 c1) (run m2 c2)

/-- … with the escape -/
def SimWU (w : Nat → Nat) {α} (R : α → α → Prop) (m1 m2 : PM α) : Prop :=
  ∀ c1 c2, CtxW w c1 c2 → PostW w R c1 c2 (run m1 c1) (run m2 c2) ∨ BadI w (run m1 c1).2

theorem SimW.toU {α} {R : α → α → Prop} {m1 m2 : PM α} (h : SimW w R m1 m2) : SimWU w R m1 m2 :=
  fun c1 c2 hc => .inl (h c1 c2 hc)

theorem SimW.pure {α} {R : α → α → Prop} {a1 a2 : α} (h : R a1 a2) : SimW w R (pure a1) (pure a2) :=
  fun c1 c2 hc => .inl ⟨a1, a2, c1, c2, rfl, rfl, h, hc, Frame.refl _, Frame.refl _, rfl, rfl⟩

theorem SimWU.bind {α β} {R : α → α → Prop} {S : β → β → Prop} {m1 m2 : PM α} {f1 f2 : α → PM β}
    (h1 : SimWU w R m1 m2) (hg : ∀ a, GrowsB (f1 a)) (h2 : ∀ a1 a2, R a1 a2 → SimWU w S (f1 a1) (f2 a2)) :
    SimWU w S (m1 >>= f1) (m2 >>= f2) := by
  intro c1 c2 hc
  rcases h1 c1 c2 hc with (⟨a1, a2, c1', c2', e1, e2, hr, hc', fr1, fr2, hm1, hm2⟩ | ⟨e, c1', c2', e1, e2, hc'⟩) | hbad
  · rw [prun_bind, prun_bind, e1, e2]
    rcases h2 a1 a2 hr c1' c2' hc' with (⟨b1, b2, c1'', c2'', e1', e2', hs, hc'', fr1', fr2', hm1', hm2'⟩ | h) | hbad
    · exact .inl (.inl ⟨b1, b2, c1'', c2'', e1', e2', hs, hc'', fr1.trans fr1', fr2.trans fr2',
        hm1'.trans hm1, hm2'.trans hm2⟩)
    · exact .inl (.inr h)
    · exact .inr hbad
  · rw [prun_bind, prun_bind, e1, e2]; exact .inl (.inr ⟨e, c1', c2', rfl, rfl, hc'⟩)
  · refine .inr ?_
    rw [prun_bind]
    rcases hr : run m1 c1 with ⟨r, c1'⟩
    rw [hr] at hbad
    cases r with
    | error e => exact hbad
    | ok a => exact (hg a).bad hbad

/-- de-duplication agrees on a renamed error list without column 0 -/
theorem any_msg_ind (w : Nat → Nat) (e : PErr) (he : e.loc.col ≠ some 0) :
    ∀ (es : List PErr), (∀ e' ∈ es, e'.loc.col ≠ some 0) →
      (es.map (mapErr (indentMap w))).any (fun e' => e'.message == (mapErr (indentMap w) e).message) =
      es.any (fun e' => e'.message == e.message)
  | [], _ => rfl
  | e' :: es, h => by
    simp only [List.map_cons, List.any_cons]
    rw [indentMap_msg w e e' he (h e' List.mem_cons_self),
      any_msg_ind w e he es fun x hx => h x (List.mem_cons_of_mem _ hx)]

theorem simW_addError (cap : Nat) (e : PErr) (he : e.loc.col ≠ some 0) :
    SimW w (fun _ _ => True) (addError cap e) (addError cap (mapErr (indentMap w) e)) := by
  intro c1 c2 hc
  rw [run_addError, run_addError, hc.errors, any_msg_ind w e he c1.errors hc.errs0]
  have hlen : (c1.errors.map (mapErr (indentMap w)) ++ [mapErr (indentMap w) e]).length =
      (c1.errors ++ [e]).length := by simp
  have hc' : CtxW w { c1 with errors := c1.errors ++ [e] }
      { c2 with errors := c1.errors.map (mapErr (indentMap w)) ++ [mapErr (indentMap w) e] } :=
    ⟨by simp, fun x hx => by
      rcases List.mem_append.1 hx with hx | hx
      · exact hc.errs0 x hx
      · simp only [List.mem_singleton] at hx; rw [hx]; exact he, hc.β, hc.ids, hc.unexpected⟩
  rw [hlen]
  split
  · exact .inl ⟨_, _, _, _, rfl, rfl, trivial, hc, Frame.refl _, Frame.refl _, rfl, rfl⟩
  · split
    · refine .inr ⟨_, _, _, rfl, ?_, hc'⟩
      simp [mapAbort]
    · exact .inl ⟨_, _, _, _, rfl, rfl, trivial, hc', ⟨rfl, rfl⟩, ⟨rfl, rfl⟩, rfl, rfl⟩

theorem simW_liftB (cap : Nat) (stop : Bool) (r : Except BErr Unit) (hr : ∀ e, r = .error e → BErrOk e) :
    SimW w (fun _ _ => True) (liftB cap stop r) (liftB cap stop (r.mapError (mapBErr (indentMap w)))) := by
  intro c1 c2 hc
  rw [run_liftB, run_liftB]
  rcases r with (x | e) | u
  · exact .inr ⟨_, _, _, rfl, rfl, hc⟩
  · simp only [Except.mapError, mapBErr]
    cases stop with
    | true => exact .inr ⟨_, _, _, rfl, rfl, hc⟩
    | false => exact simW_addError cap e (hr _ rfl) c1 c2 hc
  · exact .inl ⟨_, _, _, _, rfl, rfl, trivial, hc, Frame.refl _, Frame.refl _, rfl, rfl⟩

theorem PostW.frames {α} {R : α → α → Prop} {c1 c2 d1 d2 : Ctx} {x1 x2 : Except Abort α × Ctx}
    (h : PostW w R d1 d2 x1 x2) (f1 : Frame c1 d1) (f2 : Frame c2 d2) (m1 : d1.μ = c1.μ) (m2 : d2.μ = c2.μ) :
    PostW w R c1 c2 x1 x2 := by
  rcases h with ⟨a1, a2, c1', c2', e1, e2, hr, hc, fr1, fr2, hm1, hm2⟩ | h
  · exact .inl ⟨a1, a2, c1', c2', e1, e2, hr, hc, f1.trans fr1, f2.trans fr2, hm1.trans m1, hm2.trans m2⟩
  · exact .inr h

/-- a production other than `build`, or `build` of tokens the builder may be handed -/
theorem simW_runProd (cap : Nat) (stop : Bool) {t1 t2 : Token} (p : Prod) (ht : p = .build → BuildOK w t1 t2) :
    SimW w (fun _ _ => True) (runProd cap stop t1 p) (runProd cap stop t2 p) := by
  intro c1 c2 hc
  rw [run_runProd, run_runProd]
  cases p with
  | start r =>
    exact .inl ⟨_, _, _, _, rfl, rfl, trivial,
      ⟨hc.errors, hc.errs0, hc.β.startRule r, hc.ids, hc.unexpected⟩, ⟨rfl, rfl⟩, ⟨rfl, rfl⟩, rfl, rfl⟩
  | end_ r =>
    simp only []
    rw [hc.ids]
    obtain ⟨h1, h2, h3, h4⟩ := hc.β.endRule c1.ids
    rw [h1, h3]
    have hc' : CtxW w { c1 with β := (c1.β.endRule c1.ids).2.1, ids := (c1.β.endRule c1.ids).2.2 }
        { c2 with β := (c2.β.endRule c1.ids).2.1, ids := (c1.β.endRule c1.ids).2.2 } :=
      ⟨hc.errors, hc.errs0, h2, rfl, hc.unexpected⟩
    exact (simW_liftB cap stop _ h4 _ _ hc').frames ⟨rfl, rfl⟩ ⟨rfl, rfl⟩ rfl rfl
  | build =>
    simp only []
    have hb : (∃ x, c1.β.build t1 = .error (.crash x) ∧ c2.β.build t2 = .error (.crash x)) ∨
        (∃ β1' β2', c1.β.build t1 = .ok β1' ∧ c2.β.build t2 = .ok β2' ∧ BMap (indentMap w) β1' β2') := by
      rcases ht rfl with ht | ⟨k, hk, m1, m2⟩
      · exact hc.β.build ht
      · exact hc.β.build_free hk m1 m2
    rcases hb with ⟨x, e1, e2⟩ | ⟨β1, β2, e1, e2, hβ⟩
    · rw [e1, e2]
      exact simW_liftB cap stop (.error (.crash x)) (fun e he => by cases he; trivial) c1 c2 hc
    · rw [e1, e2]
      exact .inl ⟨_, _, _, _, rfl, rfl, trivial,
        ⟨hc.errors, hc.errs0, hβ, hc.ids, hc.unexpected⟩, ⟨rfl, rfl⟩, ⟨rfl, rfl⟩, rfl, rfl⟩

theorem SimW.bind {α β} {R : α → α → Prop} {S : β → β → Prop} {m1 m2 : PM α} {f1 f2 : α → PM β}
    (h1 : SimW w R m1 m2) (h2 : ∀ a1 a2, R a1 a2 → SimW w S (f1 a1) (f2 a2)) :
    SimW w S (m1 >>= f1) (m2 >>= f2) := by
  intro c1 c2 hc
  rcases h1 c1 c2 hc with ⟨a1, a2, c1', c2', e1, e2, hr, hc', fr1, fr2, hm1, hm2⟩ | ⟨e, c1', c2', e1, e2, hc'⟩
  · rw [prun_bind, prun_bind, e1, e2]
    exact (h2 a1 a2 hr c1' c2' hc').frames fr1 fr2 hm1 hm2
  · rw [prun_bind, prun_bind, e1, e2]; exact .inr ⟨e, c1', c2', rfl, rfl, hc'⟩

theorem simW_runProds (cap : Nat) (stop : Bool) {t1 t2 : Token} (ht : BuildOK w t1 t2) (ps : List Prod) :
    SimW w (fun _ _ => True) (runProds cap stop t1 ps) (runProds cap stop t2 ps) := by
  induction ps with
  | nil => exact SimW.pure trivial
  | cons p ps ih =>
    unfold runProds
    exact SimW.bind (simW_runProd cap stop p fun _ => ht) fun _ _ _ => ih

/-- the error half of `PostW` -/
def ErrW (w : Nat → Nat) {α} (x1 x2 : Except Abort α × Ctx) : Prop :=
  ∃ e c1' c2', x1 = (.error e, c1') ∧ x2 = (.error (mapAbort (indentMap w) e), c2') ∧ CtxW w c1' c2'

/-- `build` of a bad pair: the first run records the token (escape), unless both crash alike -/
theorem build_bad (cap : Nat) (stop : Bool) {t1 t2 : Token} (ht : BadPair w t1 t2) (c1 c2 : Ctx)
    (hc : CtxW w c1 c2) :
    ErrW w (run (runProd cap stop t1 .build) c1) (run (runProd cap stop t2 .build) c2) ∨
    BadI w (run (runProd cap stop t1 .build) c1).2 := by
  rw [run_runProd, run_runProd]
  simp only []
  obtain ⟨K, m1, m2, hK, hpos, htext⟩ := ht
  have bad : ∀ β', c1.β.build t1 = .ok β' →
      BadI w (match c1.β.build t1 with
        | .ok β' => ((.ok () : Except Abort Unit), { c1 with β := β', builds := c1.builds ++ [t1] })
        | .error e => run (liftB cap stop (.error e)) c1).2 := by
    intro β' hb
    rw [hb]
    exact ⟨t1, by simp, hpos, K, m1, hK⟩
  by_cases hKc : K = .Comment
  · subst hKc
    obtain ⟨x1, x2⟩ := htext rfl
    cases h1 : t1.text with
    | none => rw [h1] at x1; cases x1
    | some tx =>
      exact .inr (bad _ (by rw [layBuild_comment _ _ m1, h1]))
  · rw [layBuild_other _ _ K hKc m1, layBuild_other _ _ K hKc m2] at *
    have hst := hc.β.1
    revert hst bad
    generalize c1.β.stack = s1
    generalize c2.β.stack = s2
    intro bad hst
    cases hst with
    | nil =>
      left
      simp only [addToTop, run_liftB]
      exact ⟨_, c1, c2, rfl, rfl, hc⟩
    | cons _ _ => exact .inr (bad _ rfl)

/-- productions that hand a bad pair to the builder: both runs abort alike before that, or the
    first run records the token -/
theorem runProds_bad (cap : Nat) (stop : Bool) {t1 t2 : Token} (ht : BadPair w t1 t2) :
    ∀ (ps : List Prod), .build ∈ ps → ∀ c1 c2, CtxW w c1 c2 →
      ErrW w (run (runProds cap stop t1 ps) c1) (run (runProds cap stop t2 ps) c2) ∨
      BadI w (run (runProds cap stop t1 ps) c1).2 := by
  intro ps
  induction ps with
  | nil => intro h; cases h
  | cons p ps ih =>
    intro hmem c1 c2 hc
    unfold runProds
    rw [prun_bind, prun_bind]
    by_cases hp : p = .build
    · subst hp
      rcases build_bad cap stop ht c1 c2 hc with h | hbad
      · obtain ⟨e, c1', c2', e1, e2, hc'⟩ := h
        rw [e1, e2]
        exact .inl ⟨e, c1', c2', rfl, rfl, hc'⟩
      · right
        rcases hr : run (runProd cap stop t1 .build) c1 with ⟨r, c1'⟩
        rw [hr] at hbad
        cases r with
        | error e => exact hbad
        | ok a => exact (growsB_runProds cap stop t1 ps).bad hbad
    · have hmem' : .build ∈ ps := by
        rcases List.mem_cons.1 hmem with h | h
        · exact absurd h.symm hp
        · exact h
      rcases simW_runProd (w := w) cap stop (t1 := t1) (t2 := t2) p (fun h => absurd h hp) c1 c2 hc with
        ⟨a1, a2, c1', c2', e1, e2, -, hc', -⟩ | ⟨e, c1', c2', e1, e2, hc'⟩
      · rw [e1, e2]
        exact ih hmem' c1' c2' hc'
      · rw [e1, e2]
        exact .inl ⟨e, c1', c2', rfl, rfl, hc'⟩

/-! ### simulation with the matcher -/

def PostI (w : Nat → Nat) {α} (R : α → α → Prop) (c1 c2 : Ctx) (x1 x2 : Except Abort α × Ctx) : Prop :=
  (∃ a1 a2 c1' c2', x1 = (.ok a1, c1') ∧ x2 = (.ok a2, c2') ∧ R a1 a2 ∧ CtxI w c1' c2' ∧
    Frame c1 c1' ∧ Frame c2 c2') ∨
  ErrW w x1 x2

/-- strict simulation of computations that do not consume lines -/
def SimI (w : Nat → Nat) {α} (R : α → α → Prop) (m1 m2 : PM α) : Prop :=
  ∀ c1 c2, CtxI w c1 c2 → LinesRel w c1 c2 → PostI w R c1 c2 (run m1 c1) (run m2 c2)

/-- … with the escape -/
def SimU (w : Nat → Nat) {α} (R : α → α → Prop) (m1 m2 : PM α) : Prop :=
  ∀ c1 c2, CtxI w c1 c2 → LinesRel w c1 c2 → PostI w R c1 c2 (run m1 c1) (run m2 c2) ∨ BadI w (run m1 c1).2

theorem SimI.toU {α} {R : α → α → Prop} {m1 m2 : PM α} (h : SimI w R m1 m2) : SimU w R m1 m2 :=
  fun c1 c2 hc hl => .inl (h c1 c2 hc hl)

theorem PostW.toI {α} {R : α → α → Prop} {c1 c2 : Ctx} {x1 x2 : Except Abort α × Ctx}
    (h : PostW w R c1 c2 x1 x2) (hμ : c2.μ = c1.μ) : PostI w R c1 c2 x1 x2 := by
  rcases h with ⟨a1, a2, c1', c2', e1, e2, hr, hc, fr1, fr2, hm1, hm2⟩ | h
  · exact .inl ⟨a1, a2, c1', c2', e1, e2, hr, ⟨hc, by rw [hm2, hm1, hμ]⟩, fr1, fr2⟩
  · exact .inr h

theorem SimW.toI {α} {R : α → α → Prop} {m1 m2 : PM α} (h : SimW w R m1 m2) : SimI w R m1 m2 :=
  fun c1 c2 hc _ => (h c1 c2 hc.toCtxW).toI hc.μ

theorem SimI.pure {α} {R : α → α → Prop} {a1 a2 : α} (h : R a1 a2) : SimI w R (pure a1) (pure a2) :=
  fun c1 c2 hc _ => .inl ⟨a1, a2, c1, c2, rfl, rfl, h, hc, Frame.refl _, Frame.refl _⟩

theorem SimI.throw {α} {R : α → α → Prop} (e : Abort) :
    SimI w R (throw e : PM α) (throw (mapAbort (indentMap w) e)) :=
  fun c1 c2 hc _ => .inr ⟨e, c1, c2, rfl, rfl, hc.toCtxW⟩

theorem SimI.bind {α β} {R : α → α → Prop} {S : β → β → Prop} {m1 m2 : PM α} {f1 f2 : α → PM β}
    (h1 : SimI w R m1 m2) (h2 : ∀ a1 a2, R a1 a2 → SimI w S (f1 a1) (f2 a2)) :
    SimI w S (m1 >>= f1) (m2 >>= f2) := by
  intro c1 c2 hc hl
  rcases h1 c1 c2 hc hl with ⟨a1, a2, c1', c2', e1, e2, hr, hc', fr1, fr2⟩ | ⟨e, c1', c2', e1, e2, hc'⟩
  · rw [prun_bind, prun_bind, e1, e2]
    rcases h2 a1 a2 hr c1' c2' hc' (hl.frame fr1 fr2) with ⟨b1, b2, c1'', c2'', e1', e2', hs, hc'', fr1', fr2'⟩ | h
    · exact .inl ⟨b1, b2, c1'', c2'', e1', e2', hs, hc'', fr1.trans fr1', fr2.trans fr2'⟩
    · exact .inr h
  · rw [prun_bind, prun_bind, e1, e2]; exact .inr ⟨e, c1', c2', rfl, rfl, hc'⟩

/-- a strict step, then anything -/
theorem SimU.bindS {α β} {R : α → α → Prop} {S : β → β → Prop} {m1 m2 : PM α} {f1 f2 : α → PM β}
    (h1 : SimI w R m1 m2) (h2 : ∀ a1 a2, R a1 a2 → SimU w S (f1 a1) (f2 a2)) :
    SimU w S (m1 >>= f1) (m2 >>= f2) := by
  intro c1 c2 hc hl
  rcases h1 c1 c2 hc hl with ⟨a1, a2, c1', c2', e1, e2, hr, hc', fr1, fr2⟩ | ⟨e, c1', c2', e1, e2, hc'⟩
  · rw [prun_bind, prun_bind, e1, e2]
    rcases h2 a1 a2 hr c1' c2' hc' (hl.frame fr1 fr2) with (⟨b1, b2, c1'', c2'', e1', e2', hs, hc'', fr1', fr2'⟩ | h) | hb
    · exact .inl (.inl ⟨b1, b2, c1'', c2'', e1', e2', hs, hc'', fr1.trans fr1', fr2.trans fr2'⟩)
    · exact .inl (.inr h)
    · exact .inr hb
  · rw [prun_bind, prun_bind, e1, e2]; exact .inl (.inr ⟨e, c1', c2', rfl, rfl, hc'⟩)

/-- a step that may escape, then anything that only appends to the built tokens -/
theorem SimU.bindU {α β} {R : α → α → Prop} {S : β → β → Prop} {m1 m2 : PM α} {f1 f2 : α → PM β}
    (h1 : SimU w R m1 m2) (hg : ∀ a, GrowsB (f1 a)) (h2 : ∀ a1 a2, R a1 a2 → SimU w S (f1 a1) (f2 a2)) :
    SimU w S (m1 >>= f1) (m2 >>= f2) := by
  intro c1 c2 hc hl
  rcases h1 c1 c2 hc hl with (⟨a1, a2, c1', c2', e1, e2, hr, hc', fr1, fr2⟩ | ⟨e, c1', c2', e1, e2, hc'⟩) | hbad
  · rw [prun_bind, prun_bind, e1, e2]
    rcases h2 a1 a2 hr c1' c2' hc' (hl.frame fr1 fr2) with (⟨b1, b2, c1'', c2'', e1', e2', hs, hc'', fr1', fr2'⟩ | h) | hb
    · exact .inl (.inl ⟨b1, b2, c1'', c2'', e1', e2', hs, hc'', fr1.trans fr1', fr2.trans fr2'⟩)
    · exact .inl (.inr h)
    · exact .inr hb
  · rw [prun_bind, prun_bind, e1, e2]; exact .inl (.inr ⟨e, c1', c2', rfl, rfl, hc'⟩)
  · refine .inr ?_
    rw [prun_bind]
    rcases hr : run m1 c1 with ⟨r, c1'⟩
    rw [hr] at hbad
    cases r with
    | error e => exact hbad
    | ok a => exact (hg a).bad hbad

/-- what two related `match_<k>` calls return: the same verdict, and either everything stays
    related, or both succeeded with a kind that is not indentable on a moved line -/
def MatchPost (w : Nat → Nat) (K : Kind) (c1 c2 : Ctx) (x1 x2 : Except Abort (Bool × Token) × Ctx) : Prop :=
  (∃ m t1' t2' c1' c2', x1 = (.ok (m, t1'), c1') ∧ x2 = (.ok (m, t2'), c2') ∧ Frame c1 c1' ∧ Frame c2 c2' ∧
    CtxW w c1' c2' ∧
    ((c2'.μ = c1'.μ ∧ (m = false → TokInd w t1' t2') ∧ (m = true → BuildOK w t1' t2') ∧
        (m = true → K ∈ Spec.structural → TokInd w t1' t2')) ∨
      (m = true ∧ BadPair w t1' t2' ∧ indentable K = false ∧
        ((K ≠ .DocStringSeparator ∧ K ≠ .Language) → c2'.μ = c1'.μ)))) ∨
  ErrW w x1 x2

theorem ind_matchP {D : List Dialect} (cap : Nat) (stop : Bool) (K : Kind) {t1 t2 : Token} (ht : TokInd w t1 t2)
    (c1 c2 : Ctx) (hc : CtxI w c1 c2) :
    MatchPost w K c1 c2 (run (matchP D cap stop K t1) c1) (run (matchP D cap stop K t2) c2) := by
  rw [run_matchP, run_matchP, hc.μ]
  obtain ⟨hinv, hgb⟩ := matchTok_ind w D K c1.μ ht
  simp only []
  have hcW : ∀ μ1 μ2 n1 n2, CtxW w { c1 with μ := μ1, calls := n1 } { c2 with μ := μ2, calls := n2 } :=
    fun _ _ _ _ => ⟨hc.errors, hc.errs0, hc.β, hc.ids, hc.unexpected⟩
  rcases hgb with hg | ⟨m1, m2, hbp, hK, hμ⟩
  · cases hr : (matchTok D K c1.μ t1).1.res with
    | matched =>
      have hr2 := hg.res; rw [hr] at hr2
      rw [hr2]
      exact .inl ⟨true, _, _, _, _, rfl, rfl, ⟨rfl, rfl⟩, ⟨rfl, rfl⟩, hcW _ _ _ _,
        .inl ⟨hg.μ, fun h => (by cases h), fun _ => hg.build (by rw [hr]; rfl),
          fun _ hK => hg.tokS (by rw [hr]; rfl) hK⟩⟩
    | no =>
      have hr2 := hg.res; rw [hr] at hr2
      rw [hr2]
      exact .inl ⟨false, _, _, _, _, rfl, rfl, ⟨rfl, rfl⟩, ⟨rfl, rfl⟩, hcW _ _ _ _,
        .inl ⟨hg.μ, fun _ => hg.tok (by rw [hr]; rfl), fun h => (by cases h), fun h => (by cases h)⟩⟩
    | raised e =>
      have hr2 := hg.res; rw [hr] at hr2
      rw [hr2]
      simp only [mapRes]
      cases stop with
      | true => exact .inr ⟨_, _, _, rfl, rfl, hcW _ _ _ _⟩
      | false =>
        simp only [Bool.false_eq_true, ↓reduceIte]
        rcases simW_addError cap e (matchTok_raised_col0 D K c1.μ t1 e hr) _ _ (hcW (matchTok D K c1.μ t1).1.μ
            (matchTok D K c1.μ t2).1.μ (c1.calls + if (matchTok D K c1.μ t1).2 = true then 1 else 0)
            (c2.calls + if (matchTok D K c1.μ t2).2 = true then 1 else 0)) with
          ⟨_, _, c1', c2', e1, e2, -, hc', fr1, fr2, hm1, hm2⟩ | ⟨e', c1', c2', e1, e2, hc'⟩
        · rw [e1, e2]
          refine .inl ⟨false, _, _, _, _, rfl, rfl, fr1, fr2, hc',
            .inl ⟨?_, fun _ => hg.tok (by rw [hr]; rfl), fun h => (by cases h), fun h => (by cases h)⟩⟩
          rw [hm2, hm1]; exact hg.μ
        · rw [e1, e2]
          exact .inr ⟨_, _, _, rfl, rfl, hc'⟩
  · rw [m1, m2]
    exact .inl ⟨true, _, _, _, _, rfl, rfl, ⟨rfl, rfl⟩, ⟨rfl, rfl⟩, hcW _ _ _ _, .inr ⟨rfl, hbp, hK, hμ⟩⟩

theorem PostI.frames {α} {R : α → α → Prop} {c1 c2 d1 d2 : Ctx} {x1 x2 : Except Abort α × Ctx}
    (h : PostI w R d1 d2 x1 x2) (f1 : Frame c1 d1) (f2 : Frame c2 d2) : PostI w R c1 c2 x1 x2 := by
  rcases h with ⟨a1, a2, c1', c2', e1, e2, hr, hc, fr1, fr2⟩ | h
  · exact .inl ⟨a1, a2, c1', c2', e1, e2, hr, hc, f1.trans fr1, f2.trans fr2⟩
  · exact .inr h

/-- result of `matchAny`: same verdict; if none of the kinds matched, related tokens -/
def AnyRelI (w : Nat → Nat) (r1 r2 : Bool × Token) : Prop := r1.1 = r2.1 ∧ (r1.1 = false → TokInd w r1.2 r2.2)

theorem ind_matchAny {D : List Dialect} (cap : Nat) (stop : Bool) (ks : List Kind)
    (hks : ∀ K ∈ ks, K ≠ .DocStringSeparator ∧ K ≠ .Language) {t1 t2 : Token} (ht : TokInd w t1 t2) :
    SimI w (AnyRelI w) (matchAny D cap stop ks t1) (matchAny D cap stop ks t2) := by
  induction ks generalizing t1 t2 with
  | nil => exact SimI.pure ⟨rfl, fun _ => ht⟩
  | cons K ks ih =>
    intro c1 c2 hc hl
    unfold matchAny
    rw [prun_bind, prun_bind]
    rcases ind_matchP (D := D) cap stop K ht c1 c2 hc with
      ⟨m, t1', t2', c1', c2', e1, e2, fr1, fr2, hcW, hcase⟩ | ⟨e, c1', c2', e1, e2, hc'⟩
    · rw [e1, e2]
      simp only []
      have hμ : c2'.μ = c1'.μ := by
        rcases hcase with ⟨h, -⟩ | ⟨-, -, -, h⟩
        · exact h
        · exact h (hks K List.mem_cons_self)
      cases m with
      | true =>
        simp only [↓reduceIte, prun_pure]
        exact .inl ⟨_, _, _, _, rfl, rfl, ⟨rfl, fun h => by cases h⟩, ⟨hcW, hμ⟩, fr1, fr2⟩
      | false =>
        simp only [Bool.false_eq_true, ↓reduceIte]
        have ht' : TokInd w t1' t2' := by
          rcases hcase with ⟨-, h, -⟩ | ⟨h, -⟩
          · exact h rfl
          · cases h
        exact (ih (fun K' hK' => hks K' (List.mem_cons_of_mem _ hK')) ht' c1' c2' ⟨hcW, hμ⟩ (hl.frame fr1 fr2)).frames
          fr1 fr2
    · rw [e1, e2]
      exact .inr ⟨e, c1', c2', rfl, rfl, hc'⟩

theorem tokInd_fresh {n : Nat} {l ws : Str} (hws : AllSpace ws) (hlen : ws.length = w n) :
    TokInd w { line := some l, lineNo := n + 1 } { line := some (ws ++ l), lineNo := n + 1 } := by
  cases ws with
  | nil =>
    refine .inl ⟨rfl, .inl ⟨?_, by simp⟩⟩
    show w (n + 1 - 1) = 0
    rw [Nat.add_sub_cancel, ← hlen]; rfl
  | cons c cs =>
    refine .inr ⟨l, c :: cs, rfl, rfl, hws, by simp, ?_, rfl, .inl ⟨⟨rfl, rfl, rfl, rfl, rfl, rfl, rfl, rfl, rfl⟩, rfl⟩⟩
    show (c :: cs).length = w (n + 1 - 1)
    rw [Nat.add_sub_cancel]; exact hlen

theorem tokInd_eof (n : Nat) : TokInd w { line := none, lineNo := n } { line := none, lineNo := n } :=
  .inl ⟨rfl, .inr ⟨rfl, rfl⟩⟩

/-- a look-ahead: kinds that are neither `DocStringSeparator` nor `Language` -/
def LaOkI (la : LookAhead) : Prop :=
  (∀ K ∈ la.expected, K ≠ .DocStringSeparator ∧ K ≠ .Language) ∧ (∀ K ∈ la.skip, K ≠ .DocStringSeparator ∧ K ≠ .Language)

theorem ind_peek {D : List Dialect} (cap : Nat) (stop : Bool) {la : LookAhead} (hla : LaOkI la) :
    ∀ (n : Nat) (ls1 ls2 : List Str), LinesInd w n ls1 ls2 →
      SimI w Eq (peekLoop D cap stop la ls1 (n + 1)) (peekLoop D cap stop la ls2 (n + 1)) := by
  intro n ls1 ls2 h
  induction h with
  | nil n =>
    unfold peekLoop
    refine SimI.bind (ind_matchAny cap stop _ hla.1 (tokInd_eof (n + 1))) fun r1 r2 hr => ?_
    obtain ⟨m1, t1'⟩ := r1
    obtain ⟨m2, t2'⟩ := r2
    obtain ⟨hm, ht'⟩ := hr
    simp only at hm ht'
    subst hm
    dsimp only
    split
    · exact SimI.pure rfl
    · rename_i hm1
      have : m1 = false := by cases m1 <;> simp_all
      exact SimI.bind (ind_matchAny cap stop _ hla.2 (ht' this)) fun _ _ _ => SimI.pure rfl
  | cons ws hws hlen _ ih =>
    unfold peekLoop
    refine SimI.bind (ind_matchAny cap stop _ hla.1 (tokInd_fresh hws hlen)) fun r1 r2 hr => ?_
    obtain ⟨m1, t1'⟩ := r1
    obtain ⟨m2, t2'⟩ := r2
    obtain ⟨hm, ht'⟩ := hr
    simp only at hm ht'
    subst hm
    dsimp only
    split
    · exact SimI.pure rfl
    · rename_i hm1
      have : m1 = false := by cases m1 <;> simp_all
      refine SimI.bind (ind_matchAny cap stop _ hla.2 (ht' this)) fun r1 r2 hr => ?_
      obtain ⟨s1, t1''⟩ := r1
      obtain ⟨s2, t2''⟩ := r2
      obtain ⟨hs, -⟩ := hr
      simp only at hs
      subst hs
      dsimp only
      split
      · exact ih
      · exact SimI.pure rfl

theorem ind_lookaheadPure {D : List Dialect} (cap : Nat) (stop : Bool) {la : LookAhead} (hla : LaOkI la) :
    SimI w Eq (lookaheadPure D cap stop la) (lookaheadPure D cap stop la) := by
  intro c1 c2 hc hl
  unfold lookaheadPure
  rw [prun_bind, prun_bind, run_get, run_get]
  simp only []
  rw [hl.1]
  exact ind_peek cap stop hla c1.lineNo c1.lines c2.lines hl.2 c1 c2 hc hl

/-! ### `match_token` -/

theorem SimU.frames {α} {R : α → α → Prop} {c1 c2 d1 d2 : Ctx} {x1 x2 : Except Abort α × Ctx} {y : Ctx}
    (h : PostI w R d1 d2 x1 x2 ∨ BadI w y) (f1 : Frame c1 d1) (f2 : Frame c2 d2) :
    PostI w R c1 c2 x1 x2 ∨ BadI w y := by
  rcases h with h | h
  · exact .inl (h.frames f1 f2)
  · exact .inr h

/-- what the simulation needs of the branches of a row: guards only on indentable structural
    kinds; every branch builds its token -/
def BranchesOk (bs : List Branch) : Prop :=
  ∀ b ∈ bs, (b.guard ≠ none → b.kind ∈ Spec.structural ∧ indentable b.kind = true) ∧ .build ∈ b.prods

theorem ind_tryBranchesPure {D : List Dialect} {T : Table}
    (hL : ∀ (i : Nat) (la : LookAhead), T.lookaheads[i]? = some la → LaOkI la) (stop : Bool) (row : StateRow)
    (bs : List Branch) (hbs : BranchesOk bs) {t1 t2 : Token} (ht : TokInd w t1 t2) :
    SimU w Eq (tryBranchesPure D T stop row bs t1) (tryBranchesPure D T stop row bs t2) := by
  induction bs generalizing t1 t2 with
  | nil =>
    unfold tryBranchesPure
    obtain ⟨he, hcol, hno⟩ := unexpectedErr_ind (w := w) row ht
    rw [he, hno]
    refine (SimW.toI (SimW.bind (R := fun _ _ => True) ?_ fun _ _ _ => ?_)).toU
    · intro c1 c2 hc
      exact .inl ⟨⟨⟩, ⟨⟩, _, _, rfl, rfl, trivial,
        ⟨hc.errors, hc.errs0, hc.β, hc.ids, by simp [hc.unexpected]⟩, ⟨rfl, rfl⟩, ⟨rfl, rfl⟩, rfl, rfl⟩
    · cases stop with
      | true => exact fun c1 c2 hc => .inr ⟨_, c1, c2, rfl, rfl, hc⟩
      | false =>
        simp only [Bool.false_eq_true, ↓reduceIte]
        exact SimW.bind (simW_addError _ _ hcol) fun _ _ _ => SimW.pure rfl
  | cons br bs ih =>
    have hbs' : BranchesOk bs := fun b hb => hbs b (List.mem_cons_of_mem _ hb)
    obtain ⟨hguard, hbuild⟩ := hbs br List.mem_cons_self
    intro c1 c2 hc hl
    unfold tryBranchesPure
    rw [prun_bind, prun_bind]
    rcases ind_matchP (D := D) T.errorCap stop br.kind ht c1 c2 hc with
      ⟨m, t1', t2', c1', c2', e1, e2, fr1, fr2, hcW, hcase⟩ | ⟨e, c1', c2', e1, e2, hc'⟩
    · rw [e1, e2]
      simp only []
      have hl' := hl.frame fr1 fr2
      cases m with
      | false =>
        simp only [Bool.false_eq_true, ↓reduceIte]
        rcases hcase with ⟨hμ, htok, -, -⟩ | ⟨h, -⟩
        · exact SimU.frames (ih hbs' (htok rfl) c1' c2' ⟨hcW, hμ⟩ hl') fr1 fr2
        · cases h
      | true =>
        simp only [↓reduceIte]
        rcases hcase with ⟨hμ, -, hbuildOK, htokS⟩ | ⟨-, hbp, hK, -⟩
        · -- everything related: the guard, then the productions or the next test
          have hcI : CtxI w c1' c2' := ⟨hcW, hμ⟩
          have take : SimU w Eq (do runProds T.errorCap stop t1' br.prods; Pure.pure br.target : PM Nat)
              (do runProds T.errorCap stop t2' br.prods; Pure.pure br.target : PM Nat) :=
            (SimW.toI (SimW.bind (simW_runProds _ stop (hbuildOK rfl) _) fun _ _ _ => SimW.pure rfl)).toU
          refine SimU.frames ?_ fr1 fr2
          cases hg : br.guard with
          | none =>
            simp only []
            refine SimU.bindS (R := fun o1 o2 => o1 = true ∧ o2 = true) (SimI.pure ⟨rfl, rfl⟩)
              (fun o1 o2 ho => ?_) c1' c2' hcI hl'
            obtain ⟨rfl, rfl⟩ := ho
            simp only [↓reduceIte]
            exact take
          | some i =>
            simp only []
            have hks := (hguard (by rw [hg]; exact fun h => by cases h)).1
            cases hla : T.lookaheads[i]? with
            | none =>
              exact SimU.bindS (R := fun _ _ => False) (SimI.throw (.crash _)) (fun _ _ h => h.elim) c1' c2' hcI hl'
            | some la =>
              simp only []
              refine SimU.bindS (ind_lookaheadPure _ stop (hL i la hla)) (fun o1 o2 ho => ?_) c1' c2' hcI hl'
              subst ho
              split
              · exact take
              · exact ih hbs' (htokS rfl hks)
        · -- a kind that is not indentable has matched a moved line: unguarded, built
          have hg : br.guard = none := by
            cases hg : br.guard with
            | none => rfl
            | some i =>
              have := (hguard (by rw [hg]; exact fun h => by cases h)).2
              rw [hK] at this; cases this
          rw [hg]
          simp only []
          rw [prun_bind, prun_bind, prun_pure, prun_pure]
          simp only [↓reduceIte]
          rw [prun_bind, prun_bind]
          rcases runProds_bad T.errorCap stop hbp br.prods hbuild c1' c2' hcW with
            ⟨e, c1'', c2'', r1, r2, hc''⟩ | hbad
          · rw [r1, r2]
            exact .inl (.inr ⟨e, c1'', c2'', rfl, rfl, hc''⟩)
          · refine .inr ?_
            rcases hr : run (runProds T.errorCap stop t1' br.prods) c1' with ⟨r, c1''⟩
            rw [hr] at hbad
            cases r with
            | error e => exact hbad
            | ok a => exact hbad
    · rw [e1, e2]
      exact .inl (.inr ⟨e, c1', c2', rfl, rfl, hc'⟩)

/-- the table facts the simulation uses -/
structure TableOkInd (T : Table) : Prop where
  la : ∀ (i : Nat) (la : LookAhead), T.lookaheads[i]? = some la → LaOkI la
  rows : ∀ row ∈ T.rows, BranchesOk row.branches

theorem ind_matchTokenPure {D : List Dialect} {T : Table} (hT : TableOkInd T) (stop : Bool) (state : Nat)
    {t1 t2 : Token} (ht : TokInd w t1 t2) :
    SimU w Eq (matchTokenPure D T stop state t1) (matchTokenPure D T stop state t2) := by
  unfold matchTokenPure
  cases hrow : T.row? state with
  | none => exact (SimI.throw (.crash _)).toU
  | some row =>
    exact ind_tryBranchesPure hT.la stop row _ (hT.rows row (List.mem_of_find?_eq_some hrow)) ht

/-! ### the main loop -/

theorem LinesInd.nil_left {n : Nat} {ls2 : List Str} (h : LinesInd w n [] ls2) : ls2 = [] := by
  cases h; rfl

theorem LinesInd.cons_left {n : Nat} {l : Str} {ls1 ls2 : List Str} (h : LinesInd w n (l :: ls1) ls2) :
    ∃ ws ls2', ls2 = (ws ++ l) :: ls2' ∧ AllSpace ws ∧ ws.length = w n ∧ LinesInd w (n + 1) ls1 ls2' := by
  cases h with
  | cons ws hws hlen t => exact ⟨ws, _, rfl, hws, hlen, t⟩

/-- both loops end the same way -/
def PostLI (w : Nat → Nat) {α} (x1 x2 : Except Abort α × Ctx) : Prop :=
  (∃ a c1' c2', x1 = (.ok a, c1') ∧ x2 = (.ok a, c2') ∧ CtxI w c1' c2') ∨ ErrW w x1 x2

theorem ind_lines {D : List Dialect} {T : Table} (hT : TableOkInd T) (stop : Bool) :
    ∀ (fuel s : Nat) (c1 c2 : Ctx), CtxI w c1 c2 → LinesRel w c1 c2 →
      PostLI w (run (parseLinesPure D T stop fuel s) c1) (run (parseLinesPure D T stop fuel s) c2) ∨
      BadI w (run (parseLinesPure D T stop fuel s) c1).2 := by
  intro fuel
  induction fuel with
  | zero =>
    intro s c1 c2 hc _
    exact .inl (.inr ⟨.fuel, c1, c2, rfl, rfl, hc.toCtxW⟩)
  | succ fuel ih =>
    intro s c1 c2 hc hl
    obtain ⟨hno, hls⟩ := hl
    cases h1 : c1.lines with
    | nil =>
      rw [h1] at hls
      have h2 : c2.lines = [] := hls.nil_left
      rw [run_lines_nil T stop _ s c1 h1, run_lines_nil T stop _ s c2 h2, hno]
      have hc' : CtxI w { c1 with lineNo := c1.lineNo + 1, reads := c1.reads ++ [c1.lineNo + 1] }
          { c2 with lineNo := c1.lineNo + 1, reads := c2.reads ++ [c1.lineNo + 1] } :=
        ⟨⟨hc.errors, hc.errs0, hc.β, hc.ids, hc.unexpected⟩, hc.μ⟩
      have hl' : LinesRel w { c1 with lineNo := c1.lineNo + 1, reads := c1.reads ++ [c1.lineNo + 1] }
          { c2 with lineNo := c1.lineNo + 1, reads := c2.reads ++ [c1.lineNo + 1] } := by
        refine ⟨rfl, ?_⟩
        show LinesInd w (c1.lineNo + 1) c1.lines c2.lines
        rw [h1, h2]; exact .nil _
      rcases ind_matchTokenPure hT stop s (tokInd_eof (c1.lineNo + 1)) _ _ hc' hl' with
        (⟨s1, s2, c1', c2', e1, e2, hs, hc'', -, -⟩ | ⟨e, c1', c2', e1, e2, hc''⟩) | hbad
      · rw [e1, e2]; subst hs
        exact .inl (.inl ⟨s1, c1', c2', rfl, rfl, hc''⟩)
      · rw [e1, e2]
        exact .inl (.inr ⟨e, c1', c2', rfl, rfl, hc''⟩)
      · exact .inr hbad
    | cons l ls =>
      rw [h1] at hls
      obtain ⟨ws, ls2, h2, hws, hlen, hrest⟩ := hls.cons_left
      rw [run_lines_cons T stop _ s c1 h1, run_lines_cons T stop _ s c2 h2, hno]
      have hc' : CtxI w { c1 with lines := ls, lineNo := c1.lineNo + 1, reads := c1.reads ++ [c1.lineNo + 1] }
          { c2 with lines := ls2, lineNo := c1.lineNo + 1, reads := c2.reads ++ [c1.lineNo + 1] } :=
        ⟨⟨hc.errors, hc.errs0, hc.β, hc.ids, hc.unexpected⟩, hc.μ⟩
      have hl' : LinesRel w { c1 with lines := ls, lineNo := c1.lineNo + 1, reads := c1.reads ++ [c1.lineNo + 1] }
          { c2 with lines := ls2, lineNo := c1.lineNo + 1, reads := c2.reads ++ [c1.lineNo + 1] } :=
        ⟨rfl, hrest⟩
      rcases ind_matchTokenPure hT stop s (tokInd_fresh (l := l) hws hlen) _ _ hc' hl' with
        (⟨s1, s2, c1', c2', e1, e2, hs, hc'', fr1, fr2⟩ | ⟨e, c1', c2', e1, e2, hc''⟩) | hbad
      · rw [e1, e2]; subst hs
        exact ih s1 c1' c2' hc'' (LinesRel.frame hl' fr1 fr2)
      · rw [e1, e2]
        exact .inl (.inr ⟨e, c1', c2', rfl, rfl, hc''⟩)
      · refine .inr ?_
        rcases hr : run (matchTokenPure D T stop s { line := some l, lineNo := c1.lineNo + 1 })
          { c1 with lines := ls, lineNo := c1.lineNo + 1, reads := c1.reads ++ [c1.lineNo + 1] } with ⟨r, c1'⟩
        rw [hr] at hbad
        cases r with
        | error e => exact hbad
        | ok s' => exact (growsB_parseLinesPure D T stop fuel s').bad hbad

/-! ### the whole parse -/

theorem ind_body {D : List Dialect} {T : Table} (hT : TableOkInd T) (stop : Bool) (n : Nat) {c1 c2 : Ctx}
    (hc : CtxI w c1 c2) (hl : LinesRel w c1 c2) :
    ((∃ d c1' c2', run (parseBodyPure D T stop n) c1 = (.ok d, c1') ∧
        run (parseBodyPure D T stop n) c2 = (.ok (mapDoc (indentMap w) d), c2') ∧ CtxW w c1' c2') ∨
      ErrW w (run (parseBodyPure D T stop n) c1) (run (parseBodyPure D T stop n) c2)) ∨
    BadI w (run (parseBodyPure D T stop n) c1).2 := by
  unfold parseBodyPure
  rw [prun_bind, prun_bind, run_modify, run_modify]
  simp only []
  rw [prun_bind, prun_bind]
  have hc0 : CtxI w { c1 with β := c1.β.startRule T.startRule } { c2 with β := c2.β.startRule T.startRule } :=
    ⟨⟨hc.errors, hc.errs0, hc.β.startRule _, hc.ids, hc.unexpected⟩, hc.μ⟩
  have hl0 : LinesRel w { c1 with β := c1.β.startRule T.startRule } { c2 with β := c2.β.startRule T.startRule } := hl
  -- the rest of the body only appends to the built tokens
  have tail_grows : ∀ a : Nat, GrowsB (do
      runProd T.errorCap stop default (.end_ T.startRule)
      let ctx ← get
      if !ctx.errors.isEmpty then throw (.composite ctx.errors)
      match ctx.β.result with
      | .ok (some d) => Pure.pure d
      | .ok none => throw (.crash "get_result returned None")
      | .error (.crash w) => throw (.crash w)
      | .error (.ast e) => throw (.single e) : PM Doc) := by
    intro _
    refine GrowsB.bind (growsB_runProd _ _ _ _) fun _ => GrowsB.bind GrowsB.get fun ctx => ?_
    dsimp only
    split
    · exact GrowsB.bind (GrowsB.throw _) fun _ => by split <;> first | exact GrowsB.pure _ | exact GrowsB.throw _
    · split <;> first | exact GrowsB.pure _ | exact GrowsB.throw _
  rcases ind_lines hT stop (n + 2) 0 _ _ hc0 hl0 with (⟨a, c1', c2', r1, r2, hc'⟩ | ⟨e, c1', c2', r1, r2, hc'⟩) | hbad
  · rw [r1, r2]
    simp only []
    rw [prun_bind, prun_bind]
    rcases simW_runProd (w := w) T.errorCap stop (t1 := default) (t2 := default) (.end_ T.startRule)
        (fun h => by cases h) c1' c2' hc'.toCtxW with
      ⟨_, _, c1'', c2'', r1', r2', -, hc'', -, -, -, -⟩ | ⟨e, c1'', c2'', r1', r2', hc''⟩
    · rw [r1', r2']
      simp only []
      rw [prun_bind, prun_bind, run_get, run_get]
      simp only []
      have hemp : c2''.errors.isEmpty = c1''.errors.isEmpty := by rw [hc''.errors]; simp
      rw [hemp]
      by_cases he : (!c1''.errors.isEmpty) = true
      · rw [if_pos he, if_pos he, prun_bind, prun_bind, prun_throw, prun_throw]
        refine .inl (.inr ⟨_, _, _, rfl, ?_, hc''⟩)
        simp only [mapAbort, hc''.errors]
      · rw [if_neg he, if_neg he, hc''.β.result]
        cases hres : c1''.β.result with
        | error e =>
          cases e with
          | crash x => exact .inl (.inr ⟨_, _, _, rfl, rfl, hc''⟩)
          | ast e => exact absurd hres (result_not_ast _ _)
        | ok o =>
          cases o with
          | none => exact .inl (.inr ⟨_, _, _, rfl, rfl, hc''⟩)
          | some d => exact .inl (.inl ⟨_, _, _, rfl, rfl, hc''⟩)
    · rw [r1', r2']
      exact .inl (.inr ⟨_, _, _, rfl, rfl, hc''⟩)
  · rw [r1, r2]
    exact .inl (.inr ⟨_, _, _, rfl, rfl, hc'⟩)
  · refine .inr ?_
    rcases hr : run (parseLinesPure D T stop (n + 2) 0) { c1 with β := c1.β.startRule T.startRule } with ⟨r, c1'⟩
    rw [hr] at hbad
    cases r with
    | error e => exact hbad
    | ok a => exact (tail_grows a).bad hbad

/-- **Whole queue-free parse.**  The text whose lines are those of the original with blanks in
    front is parsed to the outcome of the original with the columns moved — or the original run
    has handed a moved line to the builder under a kind that is not indentable. -/
theorem parseWithPure_indent {D : List Dialect} {T : Table} (hT : TableOkInd T) (stop : Bool) (μ : MState)
    (ids : Nat) {src src' : Str} (hl : LinesInd w 0 (splitLines src) (splitLines src')) :
    ((parseWithPure D T stop μ ids src').1 = mapOutcome (indentMap w) (parseWithPure D T stop μ ids src).1 ∧
      CtxW w (parseWithPure D T stop μ ids src).2 (parseWithPure D T stop μ ids src').2) ∨
    BadI w (parseWithPure D T stop μ ids src).2 := by
  unfold parseWithPure
  simp only []
  rw [← hl.length_eq]
  have hc0 : CtxI w { lines := splitLines src, μ := μ.reset D, β := BState.reset, ids := ids }
      { lines := splitLines src', μ := μ.reset D, β := BState.reset, ids := ids } :=
    ⟨⟨rfl, fun e he => (by cases he), BMap.reset, rfl, rfl⟩, rfl⟩
  have hl0 : LinesRel w ({ lines := splitLines src, μ := μ.reset D, β := BState.reset, ids := ids } : Ctx)
      { lines := splitLines src', μ := μ.reset D, β := BState.reset, ids := ids } := ⟨rfl, hl⟩
  rcases ind_body hT stop (splitLines src).length hc0 hl0 with
    (⟨d, c1', c2', r1, r2, hc'⟩ | ⟨e, c1', c2', r1, r2, hc'⟩) | hbad
  · unfold run at r1 r2
    rw [r1, r2]
    exact .inl ⟨rfl, hc'⟩
  · unfold run at r1 r2
    rw [r1, r2]
    cases e <;> exact .inl ⟨rfl, hc'⟩
  · refine .inr ?_
    unfold run at hbad
    rcases hr : (parseBodyPure D T stop (splitLines src).length).run.run
      { lines := splitLines src, μ := μ.reset D, β := BState.reset, ids := ids } with ⟨r, c⟩
    rw [hr] at hbad
    cases r with
    | ok d => exact hbad
    | error e => cases e <;> exact hbad

end simI

/-- the lines relation from a statement about each line -/
theorem linesInd_of_index {w : Nat → Nat} : ∀ (n : Nat) (ls1 ls2 : List Str), ls1.length = ls2.length →
    (∀ i l1 l2, ls1[i]? = some l1 → ls2[i]? = some l2 →
      ∃ ws, l2 = ws ++ l1 ∧ AllSpace ws ∧ ws.length = w (n + i)) → LinesInd w n ls1 ls2
  | n, [], [], _, _ => .nil n
  | _, [], _ :: _, h, _ => by simp at h
  | _, _ :: _, [], h, _ => by simp at h
  | n, l1 :: ls1, l2 :: ls2, hlen, h => by
    obtain ⟨ws, rfl, hws, hl⟩ := h 0 l1 l2 rfl rfl
    refine .cons ws hws hl (linesInd_of_index (n + 1) ls1 ls2 (by simpa using hlen) fun i a b ha hb => ?_)
    have := h (i + 1) a b (by simpa using ha) (by simpa using hb)
    have e : n + (i + 1) = n + 1 + i := by omega
    rw [e] at this
    exact this

/-- the Boolean table facts of the indentation theorem: no look-ahead tests `DocStringSeparator` or
    `Language`; guards stand on indentable structural kinds only; every branch builds its token -/
def indentFacts (T : Table) : Bool :=
  (T.lookaheads.all fun la => (la.expected ++ la.skip).all fun K => K != .DocStringSeparator && K != .Language) &&
  T.rows.all fun r => r.branches.all fun b =>
    (b.guard.isNone || (Spec.structural.contains b.kind && indentable b.kind)) && b.prods.contains .build

theorem tableOkInd_of_facts {T : Table} (h : indentFacts T = true) : TableOkInd T := by
  unfold indentFacts at h
  simp only [Bool.and_eq_true, List.all_eq_true] at h
  obtain ⟨h1, h2⟩ := h
  constructor
  · intro i la hla
    have hmem : la ∈ T.lookaheads := List.mem_of_getElem? hla
    have := h1 la hmem
    constructor
    · intro K hK
      have := this K (List.mem_append_left _ hK)
      simp only [bne_iff_ne, ne_eq] at this
      exact this
    · intro K hK
      have := this K (List.mem_append_right _ hK)
      simp only [bne_iff_ne, ne_eq] at this
      exact this
  · intro row hrow b hb
    have := h2 row hrow b hb
    simp only [Bool.and_eq_true, Bool.or_eq_true, Option.isNone_iff_eq_none, List.contains_eq_mem,
      decide_eq_true_eq] at this
    obtain ⟨hg, hbuild⟩ := this
    refine ⟨fun hne => ?_, hbuild⟩
    rcases hg with hg | hg
    · exact absurd hg hne
    · exact hg

/-- **Indenting lines**, generic in the dialect table and the transition table. -/
theorem indent_parseWith {D : List Dialect} {T : Table}
    (hQD : Spec.queueDialectFacts D = true) (hQT : Spec.queueFacts T = true)
    (hCB : Spec.commentBlankTested T = true) (hT : TableOkInd T) (w : Nat → Nat) (stop : Bool) (μ : MState)
    (ids : Nat) {src src' : Str} (hl : LinesInd w 0 (splitLines src) (splitLines src'))
    (hμ : (μ.reset D).dialect ∈ D)
    (hok : ∀ t ∈ (parseWith D T stop μ ids src).2.builds, 0 < w (t.lineNo - 1) →
      ∃ K, t.mtype = some K ∧ indentable K = true) :
    (parseWith D T stop μ ids src').1 = mapOutcome (indentMap w) (parseWith D T stop μ ids src).1 ∧
    (parseWith D T stop μ ids src').2.errors = (parseWith D T stop μ ids src).2.errors.map (mapErr (indentMap w)) ∧
    (parseWith D T stop μ ids src').2.ids = (parseWith D T stop μ ids src).2.ids ∧
    (parseWith D T stop μ ids src').2.unexpected = (parseWith D T stop μ ids src).2.unexpected := by
  have q1 := queue_refines_peek D T hQD hQT hCB stop μ ids src hμ
  have q2 := queue_refines_peek D T hQD hQT hCB stop μ ids src' hμ
  have o1 := congrArg Spec.Observed.outcome q1
  have o2 := congrArg Spec.Observed.outcome q2
  have e1 := congrArg Spec.Observed.errors q1
  have e2 := congrArg Spec.Observed.errors q2
  have i1 := congrArg Spec.Observed.ids q1
  have i2 := congrArg Spec.Observed.ids q2
  have u1 := congrArg Spec.Observed.unexpected q1
  have u2 := congrArg Spec.Observed.unexpected q2
  have b1 := congrArg Spec.Observed.builds q1
  simp only [Spec.observe] at o1 o2 e1 e2 i1 i2 u1 u2 b1
  rcases parseWithPure_indent (w := w) hT stop μ ids hl with ⟨ho, hc⟩ | ⟨t, ht, hpos, K, hm, hK⟩
  · exact ⟨by rw [o1, o2]; exact ho, by rw [e1, e2]; exact hc.errors, by rw [i1, i2]; exact hc.ids,
      by rw [u1, u2]; exact hc.unexpected⟩
  · exfalso
    rw [← b1] at ht
    obtain ⟨K', hm', hK'⟩ := hok t ht hpos
    rw [hm] at hm'
    cases hm'
    rw [hK] at hK'
    cases hK'

end Layout3
end GV
