/-
  Lemmas/LayoutDoc3Indent.lean — property C16, whole document: indenting lines changes only columns.

  A lock-step simulation of two runs of the queue-free parse (`Spec.parseWithPure`): the original
  text and the text in which line `i` (0-based) has `w i` blanks put in front.  With
  `f = indentMap w` the contexts stay related as in Lemmas/LayoutDoc3.lean: error list and builder
  state of the second run are the `f`-images of those of the first, matcher state and id counter
  are equal.  A shifted line is matched alike — up to the shift of its columns — by every test but
  `Comment` (text keeps the indentation), `Other` (text depends on the indentation), an opening
  `DocStringSeparator` (records the indentation) and `Language`; when such a test succeeds in the
  main loop the first run hands the line to the builder under that kind, which the hypothesis on
  the ghost list `builds` of the original run excludes (`Bad`, an escape as in
  Lemmas/LayoutDoc2.lean).  Lines reported as unexpected and tag errors shift with the line.
-/
import GherkinVerif.Lemmas.LayoutDoc3
namespace GV
namespace Layout3
open Lemmas Spec

/-! ### the renaming `indentMap w` -/

theorem indentMap_loc (w : Nat → Nat) (l : Loc) :
    (indentMap w).loc l = ⟨l.line, l.col.map (· + w (l.line - 1))⟩ := rfl

theorem indentMap_shiftErr (w : Nat → Nat) (e : PErr) :
    mapErr (indentMap w) e = shiftErr (w (e.loc.line - 1)) e := rfl

/-- de-duplication of errors by message is insensitive to the renaming, for errors whose column
    is not 0 -/
theorem indentMap_msg (w : Nat → Nat) (e e' : PErr) (h : e.loc.col ≠ some 0) (h' : e'.loc.col ≠ some 0) :
    ((mapErr (indentMap w) e').message == (mapErr (indentMap w) e).message) = (e'.message == e.message) := by
  have key : (mapErr (indentMap w) e').message = (mapErr (indentMap w) e).message ↔ e'.message = e.message := by
    rw [message_eq_iff, message_eq_iff]
    simp only [mapErr, indentMap_loc]
    constructor
    · rintro ⟨h1, h2, h3⟩
      refine ⟨h1, ?_, h3⟩
      rw [h1] at h2
      revert h2 h h'
      cases e.loc.col <;> cases e'.loc.col <;> simp <;> omega
    · rintro ⟨h1, h2, h3⟩
      refine ⟨h1, ?_, h3⟩
      rw [h1]
      revert h2 h h'
      cases e.loc.col <;> cases e'.loc.col <;> simp <;> omega
  by_cases hm : e'.message = e.message
  · rw [beq_iff_eq.2 hm, beq_iff_eq.2 (key.2 hm)]
  · rw [beq_eq_false_iff_ne.2 hm, beq_eq_false_iff_ne.2 (fun h' => hm (key.1 h'))]

/-! ### columns start at 1 -/

theorem splitCells_pos : ∀ (n : Nat) (row : Str), row.length ≤ n → ∀ (col start : Nat) (cell : Str) (first : Bool),
    1 ≤ start → ∀ p ∈ splitCells row col start cell first, 1 ≤ p.2 := by
  intro n
  induction n with
  | zero =>
    intro row hn col start cell first _ p hp
    have : row = [] := List.eq_nil_of_length_eq_zero (Nat.le_zero.1 hn)
    subst this
    simp [splitCells] at hp
  | succ n ih =>
    intro row hn col start cell first hs p hp
    cases row with
    | nil => simp [splitCells] at hp
    | cons c rest =>
      have hr : rest.length ≤ n := by simp at hn; omega
      unfold splitCells at hp
      split at hp
      · split at hp
        · exact ih rest hr _ _ _ _ (by omega) p hp
        · rcases List.mem_cons.1 hp with rfl | hp
          · exact hs
          · exact ih rest hr _ _ _ _ (by omega) p hp
      · split at hp
        · cases rest with
          | nil => simp at hp
          | cons d rest' =>
            have hr' : rest'.length ≤ n := by simp at hr; omega
            simp only at hp
            split at hp
            · exact ih rest' hr' _ _ _ _ hs p hp
            · split at hp
              · exact ih rest' hr' _ _ _ _ hs p hp
              · exact ih rest' hr' _ _ _ _ hs p hp
        · exact ih rest hr _ _ _ _ hs p hp

theorem tableCells_pos (l : Str) : ∀ it ∈ tableCells l, it.1 ≠ 0 := by
  intro it hit
  unfold tableCells at hit
  obtain ⟨p, hp, rfl⟩ := List.mem_map.1 hit
  have := splitCells_pos _ _ (Nat.le_refl _) 0 1 [] true (Nat.le_refl _) p hp
  obtain ⟨cell, col⟩ := p
  simp only at this ⊢
  omega

theorem tagItems_pos : ∀ (items : List Str) (column : Nat) (ts : List (Nat × Str)),
    tagItems items column = .ok ts → ∀ it ∈ ts, column ≤ it.1 := by
  intro items
  induction items with
  | nil => intro column ts h it hit; cases h; cases hit
  | cons item rest ih =>
    intro column ts h it hit
    unfold tagItems at h
    simp only at h
    split at h
    · cases h
    · cases hr : tagItems rest (column + item.length + 1) with
      | error c => rw [hr] at h; cases h
      | ok ts' =>
        rw [hr] at h
        cases h
        rcases List.mem_cons.1 hit with rfl | hit
        · exact Nat.le_refl _
        · have := ih _ _ hr it hit
          omega

theorem lineTags_pos (l : Str) (ts : List (Nat × Str)) (h : lineTags l = .ok ts) : ∀ it ∈ ts, it.1 ≠ 0 := by
  intro it hit
  unfold lineTags at h
  have := tagItems_pos _ _ _ h it hit
  omega

/-! ### what a successful match writes -/

/-- what the simulation needs of a token that has just been matched as `K` -/
def Fresh (K : Kind) (t : Token) : Prop :=
  t.mtype = some K ∧ (∀ it ∈ t.items, it.1 ≠ 0) ∧ (K = .Comment → t.text.isSome = true) ∧ ∃ i, t.col = some (i + 1)

theorem fresh_setMatched (μ : MState) (t : Token) (K : Kind) (text keyword : Option Str)
    (ktype : Option KType) (indent : Option Nat) (items : List (Nat × Str))
    (hi : ∀ it ∈ items, it.1 ≠ 0) (ht : K = .Comment → text.isSome = true) :
    Fresh K (setMatched μ t K text keyword ktype indent items) := by
  refine ⟨rfl, hi, fun hK => ?_, _, rfl⟩
  have := ht hK
  simp only [setMatched, Option.isSome_map]
  exact this

theorem matchTitle_fresh {μ : MState} {t t' : Token} {l : Str} {ty : Kind} {kws : List Str}
    (hty : ty ≠ .Comment) (h : matchTitle μ t l ty kws = some t') : Fresh ty t' := by
  unfold matchTitle at h
  split at h
  · cases h; exact fresh_setMatched _ _ _ _ _ _ _ _ (fun _ h => by cases h) (fun e => absurd e hty)
  · cases h

theorem matchDocSep_fresh {μ μ' : MState} {t t' : Token} {l sep : Str} {o : Bool}
    (h : matchDocSep μ t l sep o = some (t', μ')) : Fresh .DocStringSeparator t' := by
  unfold matchDocSep at h
  split at h
  · split at h <;>
      (cases h; exact fresh_setMatched _ _ _ _ _ _ _ _ (fun _ h => by cases h) (fun e => by cases e))
  · cases h

theorem matchLine_fresh (D : List Dialect) (k : Kind) (μ : MState) (t : Token) (l : Str)
    (h : (matchLine D k μ t l).res = .matched) : Fresh k (matchLine D k μ t l).tok := by
  have hopt : ∀ (K : Kind) (o : Option Token), (∀ t', o = some t' → Fresh K t') →
      (match o with | some t' => (⟨t', μ, .matched⟩ : MOut) | none => ⟨t, μ, .no⟩).res = .matched →
      Fresh K (match o with | some t' => (⟨t', μ, .matched⟩ : MOut) | none => ⟨t, μ, .no⟩).tok := by
    intro K o ho hm
    cases o with
    | none => cases hm
    | some t' => exact ho t' rfl
  have hsepF : ∀ (o : Option (Token × MState)), (∀ x, o = some x → Fresh .DocStringSeparator x.1) →
      (match o with | some (t', μ') => (⟨t', μ', .matched⟩ : MOut) | none => ⟨t, μ, .no⟩).res = .matched →
      Fresh .DocStringSeparator
        (match o with | some (t', μ') => (⟨t', μ', .matched⟩ : MOut) | none => ⟨t, μ, .no⟩).tok := by
    intro o ho hm
    cases o with
    | none => cases hm
    | some x => exact ho x rfl
  have opening : ∀ x, ((matchDocSep μ t l dq3 true).orElse fun _ => matchDocSep μ t l bt3 true) = some x →
      Fresh .DocStringSeparator x.1 := by
    intro x hx
    cases h1 : matchDocSep μ t l dq3 true with
    | some y => rw [h1] at hx; simp only [Option.orElse] at hx; cases hx; exact matchDocSep_fresh h1
    | none => rw [h1] at hx; simp only [Option.orElse] at hx; exact matchDocSep_fresh hx
  have nil0 : ∀ it ∈ ([] : List (Nat × Str)), it.1 ≠ 0 := fun _ h => by cases h
  cases k with
  | EOF => cases h
  | FeatureLine => exact hopt _ _ (fun t' ht' => matchTitle_fresh (by decide) ht') h
  | RuleLine => exact hopt _ _ (fun t' ht' => matchTitle_fresh (by decide) ht') h
  | BackgroundLine => exact hopt _ _ (fun t' ht' => matchTitle_fresh (by decide) ht') h
  | ExamplesLine => exact hopt _ _ (fun t' ht' => matchTitle_fresh (by decide) ht') h
  | ScenarioLine =>
    simp only [matchLine] at h ⊢
    split
    · rename_i h1; exact matchTitle_fresh (by decide) h1
    · rename_i h1
      rw [h1] at h
      exact hopt _ _ (fun t' ht' => matchTitle_fresh (by decide) ht') h
  | TableRow =>
    simp only [matchLine] at h ⊢
    by_cases hc : lineStartsWith l [124] = true
    · rw [if_pos hc]
      exact fresh_setMatched _ _ _ _ _ _ _ _ (tableCells_pos l) (fun e => by cases e)
    · rw [if_neg hc] at h; cases h
  | StepLine =>
    simp only [matchLine] at h ⊢
    split
    · exact fresh_setMatched _ _ _ _ _ _ _ _ nil0 (fun e => by cases e)
    · rename_i hc; rw [hc] at h; cases h
  | Comment =>
    simp only [matchLine] at h ⊢
    by_cases hc : lineStartsWith l [35] = true
    · rw [if_pos hc]
      exact fresh_setMatched _ _ _ _ _ _ _ _ nil0 (fun _ => rfl)
    · rw [if_neg hc] at h; cases h
  | Empty =>
    simp only [matchLine] at h ⊢
    by_cases hc : lineIsEmpty l = true
    · rw [if_pos hc]
      exact fresh_setMatched _ _ _ _ _ _ _ _ nil0 (fun e => by cases e)
    · rw [if_neg hc] at h; cases h
  | Other => exact fresh_setMatched _ _ _ _ _ _ _ _ nil0 (fun e => by cases e)
  | Language =>
    simp only [matchLine] at h ⊢
    split
    · rename_i hc; rw [hc] at h; cases h
    · split
      · exact fresh_setMatched _ _ _ _ _ _ _ _ nil0 (fun e => by cases e)
      · rename_i hc1 _ hc2; rw [hc1] at h; simp only [hc2] at h; cases h
  | TagLine =>
    simp only [matchLine] at h ⊢
    by_cases hc1 : lineStartsWith l [64] = true
    · rw [if_pos hc1] at h ⊢
      cases hc2 : lineTags l with
      | ok items => exact fresh_setMatched _ _ _ _ _ _ _ _ (lineTags_pos l items hc2) (fun e => by cases e)
      | error col => rw [hc2] at h; cases h
    · rw [if_neg hc1] at h; cases h
  | DocStringSeparator =>
    simp only [matchLine] at h ⊢
    cases hsep : μ.activeSep with
    | none => rw [hsep] at h; exact hsepF _ (fun x hx => opening x hx) h
    | some sep =>
      rw [hsep] at h
      simp only [] at h ⊢
      cases he : sep.isEmpty with
      | true => rw [he] at h; simp only [↓reduceIte] at h ⊢; exact hsepF _ (fun x hx => opening x hx) h
      | false =>
        rw [he] at h
        simp only [Bool.false_eq_true, ↓reduceIte] at h ⊢
        exact hsepF _ (fun x hx => matchDocSep_fresh hx) h

/-! ### matching never changes the physical line of a token -/

theorem matchTitle_line' {μ : MState} {t t' : Token} {l : Str} {ty : Kind} {kws : List Str}
    (h : matchTitle μ t l ty kws = some t') : t'.line = t.line := by
  unfold matchTitle at h
  split at h
  · cases h; rfl
  · cases h

theorem matchDocSep_line' {μ μ' : MState} {t t' : Token} {l sep : Str} {o : Bool}
    (h : matchDocSep μ t l sep o = some (t', μ')) : t'.line = t.line := by
  unfold matchDocSep at h
  split at h
  · split at h <;> (cases h; rfl)
  · cases h

theorem matchLine_line' (D : List Dialect) (k : Kind) (μ : MState) (t : Token) (l : Str) :
    (matchLine D k μ t l).tok.line = t.line := by
  have hopt : ∀ (o : Option Token), (∀ t', o = some t' → t'.line = t.line) →
      (match o with | some t' => (⟨t', μ, .matched⟩ : MOut) | none => ⟨t, μ, .no⟩).tok.line = t.line := by
    intro o ho
    cases o with
    | none => rfl
    | some t' => exact ho t' rfl
  have opening : ∀ r, ((matchDocSep μ t l dq3 true).orElse fun _ => matchDocSep μ t l bt3 true) = r →
      (match r with | some (t', μ') => (⟨t', μ', .matched⟩ : MOut) | none => ⟨t, μ, .no⟩).tok.line = t.line := by
    intro r hr
    cases r with
    | none => rfl
    | some x =>
      obtain ⟨t', μ'⟩ := x
      cases h1 : matchDocSep μ t l dq3 true with
      | some y => rw [h1] at hr; simp only [Option.orElse] at hr; cases hr; exact matchDocSep_line' h1
      | none => rw [h1] at hr; simp only [Option.orElse] at hr; exact matchDocSep_line' hr
  cases k with
  | EOF => rfl
  | FeatureLine => exact hopt _ fun t' h => matchTitle_line' h
  | RuleLine => exact hopt _ fun t' h => matchTitle_line' h
  | BackgroundLine => exact hopt _ fun t' h => matchTitle_line' h
  | ExamplesLine => exact hopt _ fun t' h => matchTitle_line' h
  | ScenarioLine =>
    simp only [matchLine]
    split
    · rename_i h; exact matchTitle_line' h
    · exact hopt _ fun t' h => matchTitle_line' h
  | TableRow => simp only [matchLine]; split <;> rfl
  | StepLine => simp only [matchLine]; split <;> rfl
  | Comment => simp only [matchLine]; split <;> rfl
  | Empty => simp only [matchLine]; split <;> rfl
  | Other => rfl
  | Language =>
    simp only [matchLine]
    split
    · rfl
    · split <;> rfl
  | TagLine =>
    simp only [matchLine]
    split
    · split <;> rfl
    · rfl
  | DocStringSeparator =>
    simp only [matchLine]
    cases hsep : μ.activeSep with
    | none => exact opening _ rfl
    | some sep =>
      simp only []
      cases sep.isEmpty with
      | true => exact opening _ rfl
      | false =>
        simp only [Bool.false_eq_true, ↓reduceIte]
        cases hm : matchDocSep μ t l sep false with
        | none => rfl
        | some x => exact matchDocSep_line' hm

/-- a test that does not succeed leaves the token alone — except `Language` naming an unknown
    dialect, which raises after having written the token -/
theorem matchLine_unmatched_tok (D : List Dialect) (k : Kind) (μ : MState) (t : Token) (l : Str)
    (h : isMatched (matchLine D k μ t l).res = false) :
    (matchLine D k μ t l).tok = t ∨
    (k = .Language ∧ ∃ name, (matchLine D k μ t l).tok = setMatched μ t .Language (text := some name)) := by
  have hopt : ∀ (o : Option Token),
      isMatched (match o with | some t' => (⟨t', μ, .matched⟩ : MOut) | none => ⟨t, μ, .no⟩).res = false →
      (match o with | some t' => (⟨t', μ, .matched⟩ : MOut) | none => ⟨t, μ, .no⟩).tok = t := by
    intro o ho
    cases o with
    | none => rfl
    | some t' => cases ho
  have hsepF : ∀ (o : Option (Token × MState)),
      isMatched (match o with | some (t', μ') => (⟨t', μ', .matched⟩ : MOut) | none => ⟨t, μ, .no⟩).res = false →
      (match o with | some (t', μ') => (⟨t', μ', .matched⟩ : MOut) | none => ⟨t, μ, .no⟩).tok = t := by
    intro o ho
    cases o with
    | none => rfl
    | some x => cases ho
  cases k with
  | EOF => exact .inl rfl
  | FeatureLine => exact .inl (hopt _ h)
  | RuleLine => exact .inl (hopt _ h)
  | BackgroundLine => exact .inl (hopt _ h)
  | ExamplesLine => exact .inl (hopt _ h)
  | ScenarioLine =>
    simp only [matchLine] at h ⊢
    split
    · rename_i h1; rw [h1] at h; cases h
    · rename_i h1; rw [h1] at h; exact .inl (hopt _ h)
  | TableRow => simp only [matchLine] at h ⊢; split <;> first | exact .inl rfl | (rename_i hc; rw [if_pos hc] at h; cases h)
  | StepLine =>
    simp only [matchLine] at h ⊢
    split
    · rename_i hc; rw [hc] at h; cases h
    · exact .inl rfl
  | Comment => simp only [matchLine] at h ⊢; split <;> first | exact .inl rfl | (rename_i hc; rw [if_pos hc] at h; cases h)
  | Empty => simp only [matchLine] at h ⊢; split <;> first | exact .inl rfl | (rename_i hc; rw [if_pos hc] at h; cases h)
  | Other => cases h
  | Language =>
    cases hre : languageRe (lineText l none) with
    | none => left; simp only [matchLine, hre]
    | some name =>
      cases hfd : findDialect D name with
      | some d => simp only [matchLine, hre, hfd] at h; cases h
      | none => right; exact ⟨rfl, name, by simp only [matchLine, hre, hfd]⟩
  | TagLine =>
    simp only [matchLine] at h ⊢
    by_cases hc1 : lineStartsWith l [64] = true
    · rw [if_pos hc1] at h ⊢
      cases hc2 : lineTags l with
      | ok items => rw [hc2] at h; cases h
      | error col => exact .inl rfl
    · rw [if_neg hc1]; exact .inl rfl
  | DocStringSeparator =>
    simp only [matchLine] at h ⊢
    exact .inl (hsepF _ h)

/-! ### one test on a line and on the same line moved right -/

theorem withLine_self {t : Token} {s : Str} (h : t.line = some s) : withLine t s = t := by
  cases t; simp only at h; subst h; rfl

theorem tokSame_withLine_left (t : Token) (l : Str) : TokSame (withLine t l) t :=
  ⟨rfl, rfl, rfl, rfl, rfl, rfl, rfl, rfl, rfl⟩

theorem TokSame.shift {d : Nat} {a b c : Token} (h : TokSame a b) (g : TokShift d b c) : TokShift d a c := by
  obtain ⟨h1, h2, h3, h4, h5, h6, h7, h8, h9⟩ := h
  obtain ⟨g1, g2, g3, g4, g5, g6, g7, g8, g9⟩ := g
  exact ⟨by rw [g1, h1], by rw [g2, h2], by rw [g3, h3], by rw [g4, h4], by rw [g5, h5], by rw [g6, h6],
    by rw [g7, h7], by rw [g8, h8], by rw [g9, h9]⟩

theorem shiftRes_matched {d : Nat} {r : MRes} (h : isMatched r = true) : shiftRes d r = .matched := by
  cases r <;> first | rfl | cases h

theorem isMatched_shiftRes (d : Nat) (r : MRes) : isMatched (shiftRes d r) = isMatched r := by
  cases r <;> rfl

theorem muShift_zero_eq {ν ν' : MState} (h : MuShift 0 ν ν') : ν' = ν := by
  obtain ⟨h1, h2, h3, h4, h5⟩ := h
  cases ν; cases ν'
  simp only [Nat.add_zero] at h1 h2 h3 h4 h5
  subst h1 h2 h3 h4 h5
  rfl

/-- a structural test on `s` (token `t1`) and on `ws ++ s` (token `t2`, same line number) -/
theorem shift_struct (D : List Dialect) {K : Kind} (hK : K ∈ Spec.structural) (μ : MState) {t1 t2 : Token}
    {s ws : Str} (hs1 : t1.line = some s) (hs2 : t2.line = some (ws ++ s)) (hno : t2.lineNo = t1.lineNo)
    (hws : AllSpace ws) :
    (matchLine D K μ t2 (ws ++ s)).res = shiftRes ws.length (matchLine D K μ t1 s).res ∧
    MuShift (if K = .DocStringSeparator ∧ isMatched (matchLine D K μ t1 s).res = true ∧
        (matchLine D K μ t1 s).μ.activeSep.isSome = true then ws.length else 0)
      (matchLine D K μ t1 s).μ (matchLine D K μ t2 (ws ++ s)).μ ∧
    (isMatched (matchLine D K μ t1 s).res = true →
      TokShift ws.length (matchLine D K μ t1 s).tok (matchLine D K μ t2 (ws ++ s)).tok) ∧
    (isMatched (matchLine D K μ t1 s).res = false →
      TokSame (matchLine D K μ t1 s).tok (matchLine D K μ t2 (ws ++ s)).tok ∨
      ((matchLine D K μ t2 (ws ++ s)).tok = t2 ∧ TokSame (matchLine D K μ t1 s).tok t1)) := by
  have SM := shiftMatch_indent D K μ t1 ws s hws hK
  rw [withLine_self hs1] at SM
  obtain ⟨hμ, hres, htok⟩ := matchLine_rel D K μ (t := t2) (t' := withLine t1 (ws ++ s)) ⟨hs2, hno⟩ (ws ++ s)
  obtain ⟨S1, S2, S3⟩ := SM
  refine ⟨by rw [hres, S1], by rw [hμ]; exact S2, fun hm => ?_, fun hm => ?_⟩
  · rw [hm] at S3
    simp only [↓reduceIte] at S3
    rcases htok with e | ⟨hn, -, -⟩
    · rw [e]; exact S3
    · rw [hres, S1, shiftRes_matched hm] at hn; cases hn
  · rw [hm] at S3
    simp only [Bool.false_eq_true, ↓reduceIte] at S3
    rcases htok with e | ⟨-, e2, e1⟩
    · rw [e]; exact .inl S3
    · refine .inr ⟨e2, ?_⟩
      rw [e1] at S3
      exact S3.trans (tokSame_withLine_left t1 _)

/-- the test `Language` on `s` and on `ws ++ s` -/
theorem shift_language (D : List Dialect) (μ : MState) {t1 t2 : Token}
    {s ws : Str} (hs1 : t1.line = some s) (hs2 : t2.line = some (ws ++ s)) (hno : t2.lineNo = t1.lineNo)
    (hws : AllSpace ws) :
    (matchLine D .Language μ t2 (ws ++ s)).res = shiftRes ws.length (matchLine D .Language μ t1 s).res ∧
    (matchLine D .Language μ t2 (ws ++ s)).μ = (matchLine D .Language μ t1 s).μ ∧
    (isMatched (matchLine D .Language μ t1 s).res = true →
      TokShift ws.length (matchLine D .Language μ t1 s).tok (matchLine D .Language μ t2 (ws ++ s)).tok) ∧
    (isMatched (matchLine D .Language μ t1 s).res = false →
      ((matchLine D .Language μ t1 s).tok = t1 ∧ (matchLine D .Language μ t2 (ws ++ s)).tok = t2) ∨
      (TokShift ws.length (matchLine D .Language μ t1 s).tok (matchLine D .Language μ t2 (ws ++ s)).tok ∧
        ∃ i, (matchLine D .Language μ t1 s).tok.col = some (i + 1))) := by
  have hlt : lineText (ws ++ s) none = lineText s none := trimmed_indent hws s
  cases hre : languageRe (lineText s none) with
  | none =>
    have e1 : matchLine D .Language μ t1 s = ⟨t1, μ, .no⟩ := by simp only [matchLine, hre]
    have e2 : matchLine D .Language μ t2 (ws ++ s) = ⟨t2, μ, .no⟩ := by simp only [matchLine, hlt, hre]
    rw [e1, e2]
    refine ⟨rfl, rfl, ?_, ?_⟩
    · intro h; cases h
    · intro _; exact Or.inl ⟨rfl, rfl⟩
  | some name =>
    have hsh : TokShift ws.length (setMatched μ t1 .Language (text := some name))
        (setMatched μ t2 .Language (text := some name)) := by
      refine ⟨hno, ?_, rfl, rfl, rfl, rfl, ?_, rfl, rfl⟩
      · simp only [setMatched, hs1, hs2, lineIndent_indent hws, Option.map_some, Option.some.injEq]
        omega
      · simp only [setMatched, hs1, hs2, lineIndent_indent hws]
    cases hfd : findDialect D name with
    | some d =>
      have e1 : matchLine D .Language μ t1 s =
          ⟨setMatched μ t1 .Language (text := some name), { μ with name := name, dialect := d }, .matched⟩ := by
        simp only [matchLine, hre, hfd]
      have e2 : matchLine D .Language μ t2 (ws ++ s) =
          ⟨setMatched μ t2 .Language (text := some name), { μ with name := name, dialect := d }, .matched⟩ := by
        simp only [matchLine, hlt, hre, hfd]
      rw [e1, e2]
      refine ⟨rfl, rfl, ?_, ?_⟩
      · intro _; exact hsh
      · intro h; cases h
    | none =>
      have e1 : matchLine D .Language μ t1 s =
          ⟨setMatched μ t1 .Language (text := some name), μ,
            .raised ⟨.noSuchLanguage, (setMatched μ t1 .Language (text := some name)).loc,
              lit "Language not supported: " ++ name⟩⟩ := by
        simp only [matchLine, hre, hfd]
      have e2 : matchLine D .Language μ t2 (ws ++ s) =
          ⟨setMatched μ t2 .Language (text := some name), μ,
            .raised ⟨.noSuchLanguage, (setMatched μ t2 .Language (text := some name)).loc,
              lit "Language not supported: " ++ name⟩⟩ := by
        simp only [matchLine, hlt, hre, hfd]
      rw [e1, e2]
      refine ⟨?_, rfl, ?_, ?_⟩
      · simp only [shiftRes, shiftErr, shiftLoc, Token.loc, MRes.raised.injEq, PErr.mk.injEq, true_and, and_true]
        rw [hsh.1, hsh.2.1]
      · intro h; cases h
      · intro _; exact Or.inr ⟨hsh, _, rfl⟩

/-! ### related tokens; the outcome of one test -/

/-- the kinds under which an indented line may have been built -/
def indentable : Kind → Bool
  | .FeatureLine | .RuleLine | .BackgroundLine | .ScenarioLine | .ExamplesLine | .StepLine | .TagLine
  | .TableRow | .Empty => true
  | _ => false

/-- in-flight tokens of the two runs: the same token (line not moved; or end of file, untouched),
    or tokens of a line `s` and of `ws ++ s` whose matcher-written fields are equal or moved -/
def TokInd (w : Nat → Nat) (t1 t2 : Token) : Prop :=
  (t2 = t1 ∧ ((w (t1.lineNo - 1) = 0 ∧ t1.line ≠ none) ∨ (t1.line = none ∧ t1.col = none))) ∨
  (∃ s ws, t1.line = some s ∧ t2.line = some (ws ++ s) ∧ AllSpace ws ∧ ws ≠ [] ∧
    ws.length = w (t1.lineNo - 1) ∧ t2.lineNo = t1.lineNo ∧
    ((TokSame t1 t2 ∧ t1.col = none) ∨ (TokShift ws.length t1 t2 ∧ ∃ i, t1.col = some (i + 1))))

/-- tokens the builder may be handed: renamed ones, or tokens of a kind no transform reads -/
def BuildOK (w : Nat → Nat) (t1 t2 : Token) : Prop :=
  TokMap (indentMap w) t1 t2 ∨ ∃ k, freeKey (.tok k) = true ∧ t1.mtype = some k ∧ t2.mtype = some k

/-- both tokens have been matched, as a kind that is not indentable, on a line that is moved -/
def BadPair (w : Nat → Nat) (t1 t2 : Token) : Prop :=
  ∃ K, t1.mtype = some K ∧ t2.mtype = some K ∧ indentable K = false ∧ 0 < w (t1.lineNo - 1) ∧
    (K = .Comment → t1.text.isSome = true ∧ t2.text.isSome = true)

def mapRes (f : LocMap) : MRes → MRes
  | .raised e => .raised (mapErr f e)
  | r => r

/-- the second outcome is the renamed first one -/
structure GoodOut (w : Nat → Nat) (K : Kind) (o1 o2 : MOut) : Prop where
  res : o2.res = mapRes (indentMap w) o1.res
  μ : o2.μ = o1.μ
  tok : isMatched o1.res = false → TokInd w o1.tok o2.tok
  build : isMatched o1.res = true → BuildOK w o1.tok o2.tok
  tokS : isMatched o1.res = true → K ∈ Spec.structural → TokInd w o1.tok o2.tok

/-- both tests succeeded, on a moved line, with a kind that is not indentable -/
def BadOut (w : Nat → Nat) (K : Kind) (o1 o2 : MOut) : Prop :=
  o1.res = .matched ∧ o2.res = .matched ∧ BadPair w o1.tok o2.tok ∧ indentable K = false ∧
  ((K ≠ .DocStringSeparator ∧ K ≠ .Language) → o2.μ = o1.μ)

theorem tokMap_refl_of_zero {w : Nat → Nat} {t : Token} (h0 : w (t.lineNo - 1) = 0) (hc : t.col ≠ some 0) :
    TokMap (indentMap w) t t := by
  refine ⟨rfl, ?_, rfl, rfl, rfl, rfl, rfl, ?_, fun it _ => ?_, hc⟩
  · show t.col = t.col.map fun c => c + w (t.lineNo - 1)
    rw [h0]; cases t.col <;> rfl
  · show t.items = t.items.map fun it => (it.1 + w (t.lineNo - 1), it.2)
    rw [h0]; simp
  · show (it.1 + w (t.lineNo - 1) == 0) = (it.1 == 0)
    rw [h0]; rfl

theorem tokMap_of_shift {w : Nat → Nat} {d : Nat} {a b : Token} (h : TokShift d a b) (hd : d = w (a.lineNo - 1))
    (hi : ∀ it ∈ a.items, it.1 ≠ 0) (hc : a.col ≠ some 0) : TokMap (indentMap w) a b := by
  obtain ⟨h1, h2, h3, h4, h5, h6, -, h8, h9⟩ := h
  subst hd
  refine ⟨h1, h2, h3, h4, h5, h6, h9, h8, fun it hit => ?_, hc⟩
  show (it.1 + w (a.lineNo - 1) == 0) = (it.1 == 0)
  have := hi it hit
  have e1 : (it.1 == 0) = false := by simpa using this
  have e2 : (it.1 + w (a.lineNo - 1) == 0) = false := by
    simp only [beq_eq_false_iff_ne, ne_eq]; omega
  rw [e1, e2]

theorem mapRes_of_shift {w : Nat → Nat} {D : List Dialect} {K : Kind} {μ : MState} {t : Token} {d : Nat}
    (hd : d = w (t.lineNo - 1)) :
    shiftRes d (matchTok D K μ t).1.res = mapRes (indentMap w) (matchTok D K μ t).1.res := by
  cases hr : (matchTok D K μ t).1.res with
  | matched => rfl
  | no => rfl
  | raised e =>
    have := matchTok_raised_line D K μ t e hr
    simp only [shiftRes, mapRes, indentMap_shiftErr, this, hd]

theorem mapRes_id_of_zero {w : Nat → Nat} {D : List Dialect} {K : Kind} {μ : MState} {t : Token}
    (h0 : w (t.lineNo - 1) = 0) :
    mapRes (indentMap w) (matchTok D K μ t).1.res = (matchTok D K μ t).1.res := by
  cases hr : (matchTok D K μ t).1.res with
  | matched => rfl
  | no => rfl
  | raised e =>
    have := matchTok_raised_line D K μ t e hr
    obtain ⟨kind, ⟨line, col⟩, body⟩ := e
    simp only at this
    subst this
    simp only [mapRes, mapErr, indentMap_loc, h0]
    cases col <;> simp

theorem goodOut_no {w : Nat → Nat} {t1 t2 : Token} (ht : TokInd w t1 t2) (μ : MState) (K : Kind) :
    GoodOut w K ⟨t1, μ, .no⟩ ⟨t2, μ, .no⟩ :=
  ⟨rfl, rfl, fun _ => ht, fun h => (by cases h), fun h => (by cases h)⟩

theorem matchTok_line' (D : List Dialect) (k : Kind) (μ : MState) (t : Token) :
    (matchTok D k μ t).1.tok.line = t.line := by
  unfold matchTok
  split
  · split <;> rfl
  · exact matchLine_line' D k μ t _

/-- the outcome of one test on related tokens -/
theorem matchTok_ind (w : Nat → Nat) (D : List Dialect) (K : Kind) (μ : MState) {t1 t2 : Token}
    (ht : TokInd w t1 t2) :
    (matchTok D K μ t1).2 = (matchTok D K μ t2).2 ∧
    (GoodOut w K (matchTok D K μ t1).1 (matchTok D K μ t2).1 ∨ BadOut w K (matchTok D K μ t1).1 (matchTok D K μ t2).1) := by
  rcases ht with ⟨rfl, h0⟩ | ⟨s, ws, hs1, hs2, hws, hne, hlen, hno, hfld⟩
  · -- the same token
    refine ⟨rfl, .inl ⟨?_, rfl, fun hm => ?_, fun hm => ?_, fun hm hK => ?_⟩⟩
    rotate_right
    · rcases h0 with ⟨h0, hl⟩ | ⟨hl, hc⟩
      · exact .inl ⟨rfl, .inl ⟨by rw [matchTok_lineNo']; exact h0, by rw [matchTok_line']; exact hl⟩⟩
      · exfalso
        revert hm
        unfold matchTok; rw [hl]; simp only []
        split
        · rename_i hk; have : K = .EOF := by simpa using hk
          subst this; exact absurd hK (by decide)
        · intro hm; cases hm
    · rcases h0 with ⟨h0, -⟩ | ⟨hl, -⟩
      · exact (mapRes_id_of_zero h0).symm
      · unfold matchTok; rw [hl]; simp only []; split <;> rfl
    · rcases h0 with ⟨h0, hl⟩ | ⟨hl, hc⟩
      · exact .inl ⟨rfl, .inl ⟨by rw [matchTok_lineNo']; exact h0, by rw [matchTok_line']; exact hl⟩⟩
      · have e : (matchTok D K μ t2).1 = ⟨t2, μ, .no⟩ := by
          revert hm
          unfold matchTok; rw [hl]; simp only []
          split
          · intro hm; cases hm
          · intro _; rfl
        rw [e]
        exact .inl ⟨rfl, .inr ⟨hl, hc⟩⟩
    · have hm' : (matchTok D K μ t2).1.res = .matched := by
        revert hm; cases (matchTok D K μ t2).1.res <;> intro hm <;> first | rfl | cases hm
      rcases h0 with ⟨h0, -⟩ | ⟨hl, -⟩
      · exact .inl (tokMap_refl_of_zero (by rw [matchTok_lineNo']; exact h0) (matchTok_matched_col0 D K μ t2 hm'))
      · refine .inr ⟨.EOF, rfl, ?_⟩
        revert hm'
        unfold matchTok; rw [hl]; simp only []
        split
        · intro _; exact ⟨rfl, rfl⟩
        · intro hm'; cases hm'
  · -- a line and the same line moved right
    have ht : TokInd w t1 t2 := .inr ⟨s, ws, hs1, hs2, hws, hne, hlen, hno, hfld⟩
    have e1 : matchTok D K μ t1 = (matchLine D K μ t1 s, true) := by unfold matchTok; rw [hs1]
    have e2 : matchTok D K μ t2 = (matchLine D K μ t2 (ws ++ s), true) := by unfold matchTok; rw [hs2]
    have hpos : 0 < w (t1.lineNo - 1) := by
      rw [← hlen]; cases ws with
      | nil => exact absurd rfl hne
      | cons _ _ => simp
    have hln1 : (matchLine D K μ t1 s).tok.lineNo = t1.lineNo := by
      have := matchTok_lineNo' (D := D) K μ t1; rw [e1] at this; exact this
    have hres : shiftRes ws.length (matchLine D K μ t1 s).res = mapRes (indentMap w) (matchLine D K μ t1 s).res := by
      have := mapRes_of_shift (w := w) (D := D) (K := K) (μ := μ) (t := t1) hlen
      rw [e1] at this; exact this
    have hbad : ∀ K', indentable K' = false → (K' = .Comment → K = .Comment) →
        (matchLine D K μ t1 s).res = .matched → (matchLine D K μ t2 (ws ++ s)).res = .matched →
        (matchLine D K μ t1 s).tok.mtype = some K' → (matchLine D K μ t2 (ws ++ s)).tok.mtype = some K' →
        BadPair w (matchLine D K μ t1 s).tok (matchLine D K μ t2 (ws ++ s)).tok := by
      intro K' hK' hC m1 m2 t1' t2'
      refine ⟨K', t1', t2', hK', by rw [hln1]; exact hpos, fun hc => ?_⟩
      have := hC hc
      subst this
      exact ⟨(matchLine_fresh D _ μ t1 s m1).2.2.1 rfl, (matchLine_fresh D _ μ t2 _ m2).2.2.1 rfl⟩
    -- a test that fails on both and is not `Language` leaves both tokens alone
    have hunm : K ≠ .Language → isMatched (matchLine D K μ t1 s).res = false →
        (matchLine D K μ t2 (ws ++ s)).res = shiftRes ws.length (matchLine D K μ t1 s).res →
        TokInd w (matchLine D K μ t1 s).tok (matchLine D K μ t2 (ws ++ s)).tok := by
      intro hK hm hr
      have hm2 : isMatched (matchLine D K μ t2 (ws ++ s)).res = false := by rw [hr, isMatched_shiftRes]; exact hm
      rcases matchLine_unmatched_tok D K μ t1 s hm with h1 | ⟨h1, -⟩
      · rcases matchLine_unmatched_tok D K μ t2 _ hm2 with h2 | ⟨h2, -⟩
        · rw [h1, h2]; exact ht
        · exact absurd h2 hK
      · exact absurd h1 hK
    rw [e1, e2]
    refine ⟨rfl, ?_⟩
    simp only []
    have hstruct : K ∈ Spec.structural → (GoodOut w K (matchLine D K μ t1 s) (matchLine D K μ t2 (ws ++ s)) ∨
        BadOut w K (matchLine D K μ t1 s) (matchLine D K μ t2 (ws ++ s))) := by
      intro hK
      have hKL : K ≠ .Language := by intro e; subst e; revert hK; decide
      obtain ⟨R1, R2, R3, -⟩ := shift_struct D hK μ hs1 hs2 hno hws
      cases hm : isMatched (matchLine D K μ t1 s).res with
      | true =>
        have m1 : (matchLine D K μ t1 s).res = .matched := by
          revert hm; cases (matchLine D K μ t1 s).res <;> intro hm <;> first | rfl | cases hm
        have m2 : (matchLine D K μ t2 (ws ++ s)).res = .matched := by rw [R1, m1]; rfl
        by_cases hds : K = .DocStringSeparator
        · subst hds
          exact .inr ⟨m1, m2, hbad _ rfl (fun h => by cases h) m1 m2 (matchLine_fresh D _ μ t1 s m1).1
            (matchLine_fresh D _ μ t2 _ m2).1, rfl, fun h => absurd rfl h.1⟩
        · refine .inl ⟨by rw [R1, hres], ?_, fun h => (by rw [hm] at h; cases h), fun _ => ?_, fun _ _ => ?_⟩
          · simp only [hds, false_and, ↓reduceIte] at R2
            exact muShift_zero_eq R2
          · exact .inl (tokMap_of_shift (R3 hm) (by rw [hln1]; exact hlen) (matchLine_fresh D _ μ t1 s m1).2.1
              (matchLine_matched_col0 D K μ t1 s m1))
          · have hl1 : (matchLine D K μ t1 s).tok.line = some s := by rw [matchLine_line', hs1]
            have hl2 : (matchLine D K μ t2 (ws ++ s)).tok.line = some (ws ++ s) := by rw [matchLine_line', hs2]
            have hln2 : (matchLine D K μ t2 (ws ++ s)).tok.lineNo = t1.lineNo := by
              have := matchTok_lineNo' (D := D) K μ t2; rw [e2] at this; rw [this, hno]
            exact .inr ⟨s, ws, hl1, hl2, hws, hne, by rw [hln1]; exact hlen, by rw [hln1, hln2],
              .inr ⟨R3 hm, (matchLine_fresh D _ μ t1 s m1).2.2.2⟩⟩
      | false =>
        refine .inl ⟨by rw [R1, hres], ?_, fun _ => hunm hKL hm R1, fun h => (by rw [hm] at h; cases h),
          fun h => (by rw [hm] at h; cases h)⟩
        simp only [hm, Bool.false_eq_true, false_and, and_false, ↓reduceIte] at R2
        exact muShift_zero_eq R2
    cases K with
    | FeatureLine => exact hstruct (by decide)
    | RuleLine => exact hstruct (by decide)
    | BackgroundLine => exact hstruct (by decide)
    | ScenarioLine => exact hstruct (by decide)
    | ExamplesLine => exact hstruct (by decide)
    | StepLine => exact hstruct (by decide)
    | TagLine => exact hstruct (by decide)
    | TableRow => exact hstruct (by decide)
    | DocStringSeparator => exact hstruct (by decide)
    | EOF => exact .inl (goodOut_no ht μ _)
    | Language =>
      obtain ⟨R1, R2, R3, R4⟩ := shift_language D μ hs1 hs2 hno hws
      cases hm : isMatched (matchLine D .Language μ t1 s).res with
      | true =>
        have m1 : (matchLine D .Language μ t1 s).res = .matched := by
          revert hm; cases (matchLine D .Language μ t1 s).res <;> intro hm <;> first | rfl | cases hm
        have m2 : (matchLine D .Language μ t2 (ws ++ s)).res = .matched := by rw [R1, m1]; rfl
        exact .inr ⟨m1, m2, hbad _ rfl (fun h => by cases h) m1 m2 (matchLine_fresh D _ μ t1 s m1).1
          (matchLine_fresh D _ μ t2 _ m2).1, rfl, fun h => absurd rfl h.2⟩
      | false =>
        refine .inl ⟨by rw [R1, hres], R2, fun _ => ?_, fun h => (by rw [hm] at h; cases h),
          fun h => (by rw [hm] at h; cases h)⟩
        rcases R4 hm with ⟨h1, h2⟩ | h
        · rw [h1, h2]; exact ht
        · have hl1 : (matchLine D .Language μ t1 s).tok.line = some s := by rw [matchLine_line', hs1]
          have hl2 : (matchLine D .Language μ t2 (ws ++ s)).tok.line = some (ws ++ s) := by rw [matchLine_line', hs2]
          have hln2 : (matchLine D .Language μ t2 (ws ++ s)).tok.lineNo = t1.lineNo := by
            have := matchTok_lineNo' (D := D) .Language μ t2; rw [e2] at this; rw [this, hno]
          exact .inr ⟨s, ws, hl1, hl2, hws, hne, by rw [hln1]; exact hlen, by rw [hln1, hln2], .inr h⟩
    | Empty =>
      have he : lineIsEmpty (ws ++ s) = lineIsEmpty s := by unfold lineIsEmpty; rw [trimmed_indent hws]
      simp only [matchLine, he]
      split
      · exact .inl ⟨rfl, rfl, fun h => (by cases h), fun _ => Or.inr ⟨.Empty, rfl, rfl, rfl⟩,
          fun _ h => absurd h (by decide)⟩
      · exact .inl (goodOut_no ht μ _)
    | Comment =>
      by_cases hc : lineStartsWith s [35] = true
      · have m1 : (matchLine D .Comment μ t1 s).res = .matched := by simp only [matchLine, hc, ↓reduceIte]
        have m2 : (matchLine D .Comment μ t2 (ws ++ s)).res = .matched := by
          simp only [matchLine, lineStartsWith_indent hws, hc, ↓reduceIte]
        refine .inr ⟨m1, m2, hbad _ rfl (fun _ => rfl) m1 m2 (matchLine_fresh D _ μ t1 s m1).1
          (matchLine_fresh D _ μ t2 _ m2).1, rfl, fun _ => ?_⟩
        simp only [matchLine, lineStartsWith_indent hws, hc, ↓reduceIte]
      · have e1' : matchLine D .Comment μ t1 s = ⟨t1, μ, .no⟩ := by simp only [matchLine, hc]; rfl
        have e2' : matchLine D .Comment μ t2 (ws ++ s) = ⟨t2, μ, .no⟩ := by
          simp only [matchLine, lineStartsWith_indent hws, hc]; rfl
        rw [e1', e2']
        exact .inl (goodOut_no ht μ _)
    | Other =>
      exact .inr ⟨rfl, rfl, hbad _ rfl (fun h => by cases h) rfl rfl rfl rfl, rfl, fun _ => rfl⟩

/-! ### the errors: columns are never 0 -/

theorem tagItems_err_pos : ∀ (items : List Str) (column c : Nat), tagItems items column = .error c → column ≤ c := by
  intro items
  induction items with
  | nil => intro column c h; cases h
  | cons item rest ih =>
    intro column c h
    unfold tagItems at h
    simp only at h
    split at h
    · cases h; exact Nat.le_refl _
    · cases hr : tagItems rest (column + item.length + 1) with
      | error c' =>
        rw [hr] at h
        cases h
        have := ih _ _ hr
        omega
      | ok ts => rw [hr] at h; cases h

theorem matchLine_raised_col0 (D : List Dialect) (k : Kind) (μ : MState) (t : Token) (l : Str) (e : PErr)
    (h : (matchLine D k μ t l).res = .raised e) : e.loc.col ≠ some 0 := by
  cases k <;> simp only [matchLine] at h
  case FeatureLine => split at h <;> cases h
  case RuleLine => split at h <;> cases h
  case BackgroundLine => split at h <;> cases h
  case ExamplesLine => split at h <;> cases h
  case ScenarioLine => split at h <;> first | cases h | (split at h <;> cases h)
  case TableRow => split at h <;> cases h
  case StepLine => split at h <;> cases h
  case Comment => split at h <;> cases h
  case Empty => split at h <;> cases h
  case EOF => cases h
  case Other => cases h
  case Language =>
    split at h
    · cases h
    · split at h
      · cases h
      · cases h; simp [setMatched, Token.loc]
  case TagLine =>
    split at h
    · split at h
      · cases h
      · rename_i col hcol
        cases h
        unfold lineTags at hcol
        have := tagItems_err_pos _ _ _ hcol
        simp only [ne_eq, Option.some.injEq]
        omega
    · cases h
  case DocStringSeparator =>
    split at h <;> cases h

theorem matchTok_raised_col0 (D : List Dialect) (k : Kind) (μ : MState) (t : Token) (e : PErr)
    (h : (matchTok D k μ t).1.res = .raised e) : e.loc.col ≠ some 0 := by
  unfold matchTok at h
  split at h
  · split at h <;> cases h
  · exact matchLine_raised_col0 D k μ t _ e h

/-- a line reported as unexpected: the error of the second run is the renamed one, and its column
    is not 0 -/
theorem unexpectedErr_ind {w : Nat → Nat} (row : StateRow) {t1 t2 : Token} (ht : TokInd w t1 t2) :
    unexpectedErr row t2 = mapErr (indentMap w) (unexpectedErr row t1) ∧
    (unexpectedErr row t1).loc.col ≠ some 0 ∧ t2.lineNo = t1.lineNo := by
  rcases ht with ⟨rfl, h0⟩ | ⟨s, ws, hs1, hs2, hws, hne, hlen, hno, hfld⟩
  · obtain ⟨line, lineNo, col, a3, a4, a5, a6, a7, a8, a9⟩ := t2
    rcases h0 with ⟨h0, hl⟩ | ⟨hl, hc⟩
    · simp only at h0 hl
      cases line with
      | none => exact absurd rfl hl
      | some l =>
        simp only [unexpectedErr, Token.loc, mapErr, indentMap_loc]
        cases col with
        | none => simp [h0]
        | some c => by_cases hc : (c == 0) = true <;> simp [hc, h0] <;> simpa using hc
    · simp only at hl hc
      subst hl hc
      simp [unexpectedErr, Token.loc, mapErr, indentMap_loc]
  · obtain ⟨line1, lineNo1, col1, a3, a4, a5, a6, a7, a8, a9⟩ := t1
    obtain ⟨line2, lineNo2, col2, b3, b4, b5, b6, b7, b8, b9⟩ := t2
    simp only at hs1 hs2 hlen hno hfld
    subst hs1 hs2 hno
    have hI := lineIndent_indent hws s
    have hT := trimmed_indent hws s
    rcases hfld with ⟨hs, hc⟩ | ⟨hs, i, hc⟩
    · have hc2 : col2 = col1 := hs.2.1.symm
      subst hc2 hc
      simp [unexpectedErr, mapErr, indentMap_loc, hT, hI, ← hlen]
      omega
    · have hc2 : col2 = col1.map (· + ws.length) := hs.2.1
      subst hc2 hc
      have e2 : (i + 1 + ws.length == 0) = false := by simp only [beq_eq_false_iff_ne, ne_eq]; omega
      simp [unexpectedErr, Token.loc, mapErr, indentMap_loc, hT, ← hlen, e2]

end Layout3
end GV
