/-
  Lemmas/QueueLoop.lean — `match_token` and the main loop keep the first-in-first-out invariant
  of the look-ahead queue (C18) and the matcher-call budget (C01).
-/
import GherkinVerif.Lemmas.QueueFacts
namespace GV
namespace Lemmas
open Spec

theorem Triple.assume {α} {φ : Prop} {P : Ctx → Prop} {m : PM α} {Q : α → Ctx → Prop} {E}
    (h : φ → Triple P m Q E) : Triple (fun c => φ ∧ P c) m Q E := fun c hc => h hc.1 c hc.2

/-- the error tail of a state: reports the token, keeps everything the queue argument looks at -/
theorem tail_spec (D : List Dialect) (T : Table) (stop : Bool) (row : StateRow) (t : Token) {c : Ctx}
    {r : Except Abort Nat} {c' : Ctx} (h : run (tryBranches D T stop row [] t) c = (r, c')) :
    (∃ es un, c' = { c with errors := es, unexpected := un }) ∧ ∀ s, r = .ok s → s = row.errTarget := by
  rw [tryBranches, prun_bind, run_modify] at h
  dsimp only at h
  split at h
  · rw [prun_throw] at h; cases h
    exact ⟨⟨_, _, rfl⟩, fun s hs => by cases hs⟩
  · rw [prun_bind] at h
    rcases hr : run (addError T.errorCap (unexpectedErr row t)) _ with ⟨r2, c2⟩
    rw [hr] at h
    obtain ⟨es, hes⟩ := addError_foot _ _ _ _ _ hr
    cases r2 with
    | ok _ =>
      dsimp only at h
      rw [prun_pure] at h; cases h
      exact ⟨⟨_, _, hes⟩, fun s hs => by cases hs; rfl⟩
    | error e => cases h; exact ⟨⟨_, _, hes⟩, fun s hs => by cases hs⟩

theorem QS.tail {D : List Dialect} {L : List Str} {k : Nat} {c : Ctx} (h : QS D L k c) (es : List PErr) (un : List Nat) :
    QS D L k { c with errors := es, unexpected := un } :=
  ⟨h.reads, h.queue, h.lineNo, h.lines, h.mu, h.builds, h.bound⟩

section
variable {D : List Dialect} {T : Table} {stop : Bool} {L : List Str}

/-! ### a stepped-over token in a tag state: the next state is a tag state, the queue stays -/

/-- what a tag state keeps while it handles one token: the queue, the matcher state, the budget -/
def PA (D : List Dialect) (L : List Str) (k : Nat) (q0 : List Token) (μ0 : MState) (B : Nat) (c : Ctx) : Prop :=
  QS D L k c ∧ c.queue = q0 ∧ c.μ = μ0 ∧ c.calls ≤ B

theorem tb_tag (F : QF D T) (k : Nat) (row : StateRow) (herr : isTag T row.errTarget = true)
    (q0 : List Token) (μ0 : MState) (hμ0 : μ0.dialect ∈ D) (l0 : Option Str)
    (hskip : skipM D (skipList T) μ0 l0 = true) (B : Nat) :
    ∀ (bs : List Branch), (∀ b ∈ bs, b.guard = none ∧ stableKind b.kind = true ∧
        (isSkipKind b.kind = true → isTag T b.target = true)) →
      ∀ t : Token, t.line = l0 → (∃ i, key t = srcAt L i) →
        Triple (fun c => PA D L k q0 μ0 (B - bs.length) c ∧ bs.length ≤ B) (tryBranches D T stop row bs t)
          (fun s c => PA D L k q0 μ0 B c ∧ isTag T s = true) (fun _ c => PA D L k q0 μ0 B c) := by
  intro bs
  induction bs with
  | nil =>
    intro _ t _ _
    refine Triple.intro fun c r c' hc hr => ?_
    obtain ⟨⟨es, un, rfl⟩, hs⟩ := tail_spec D T stop row t hr
    obtain ⟨⟨hqs, hq, hμ, hcalls⟩, -⟩ := hc
    have hp : PA D L k q0 μ0 B { c with errors := es, unexpected := un } :=
      ⟨hqs.tail es un, hq, hμ, by simpa using hcalls⟩
    cases r with
    | ok s => rw [hs s rfl]; exact ⟨hp, herr⟩
    | error e => exact hp
  | cons b bs ih =>
    intro hbs t ht hkey
    obtain ⟨hguard, hstable, htarget⟩ := hbs b (List.mem_cons_self ..)
    have ih' := ih (fun b' hb' => hbs b' (List.mem_cons_of_mem _ hb'))
    unfold tryBranches
    refine Triple.bind
      (Q := fun r c => (r.2.line = l0 ∧ (∃ i, key r.2 = srcAt L i) ∧ r.1 = mm D b.kind μ0 l0) ∧
        (PA D L k q0 μ0 (B - bs.length) c ∧ bs.length ≤ B)) ?_ fun r => ?_
    · refine Triple.intro fun c r c' hc hr => ?_
      obtain ⟨hf, hμ', hcalls, hv⟩ := matchP_spec hr
      obtain ⟨⟨hqs, hq, hμ, hc1⟩, hlen⟩ := hc
      rw [matchTok_mu_stable D b.kind hstable] at hμ'
      simp only [List.length_cons] at hc1 hlen
      have hp : PA D L k q0 μ0 (B - bs.length) c' :=
        ⟨hqs.footM hf (by rw [hμ']; exact hqs.mu), hf.queue.trans hq, hμ'.trans hμ, by omega⟩
      cases r with
      | error e => exact ⟨hp.1, hp.2.1, hp.2.2.1, by have := hp.2.2.2; omega⟩
      | ok r =>
        obtain ⟨m, t'⟩ := r
        obtain ⟨hm, hl, hn⟩ := hv m t' rfl
        refine ⟨⟨hl.trans ht, ?_, by rw [hm, hμ, ht]⟩, hp, by omega⟩
        obtain ⟨i, hi⟩ := hkey
        exact ⟨i, (key_eq hl hn).trans hi⟩
    · obtain ⟨m, t'⟩ := r
      dsimp only
      refine Triple.assume fun hpure => ?_
      obtain ⟨hl', hkey', hm⟩ := hpure
      split
      · rename_i hmt
        -- the kind that matched is a skip kind
        have hsk : isSkipKind b.kind = true := by
          cases hk : isSkipKind b.kind with
          | true => rfl
          | false =>
            have htitle : b.kind.isTitle = true := by simpa [stableKind, hk] using hstable
            have := skipM_not_title D D F.plain μ0 hμ0 (skipList T) F.skAll b.kind htitle l0 hskip
            rw [← hm, hmt] at this
            cases this
        split
        · refine Triple.bind (Q := fun ok c => ok = true ∧ (PA D L k q0 μ0 (B - bs.length) c ∧ bs.length ≤ B))
            (Triple.pure _ fun c hc => ⟨rfl, hc⟩) fun ok => Triple.assume fun hok => ?_
          subst hok
          rw [if_pos rfl]
          refine Triple.bind (Q := fun _ c => PA D L k q0 μ0 B c) (Triple.intro fun c r c' hc hr => ?_)
            fun _ => Triple.pure _ fun c hc => ⟨hc, htarget hsk⟩
          obtain ⟨⟨hqs, hq, hμ, hc1⟩, hlen⟩ := hc
          obtain ⟨hqs', hq', hμ', hcalls'⟩ := hqs.runProds hkey' hr
          have hp : PA D L k q0 μ0 B c' := ⟨hqs', hq'.trans hq, hμ'.trans hμ, by omega⟩
          cases r <;> exact hp
        · rename_i i hg
          rw [hguard] at hg
          cases hg
      · refine Triple.conseq (ih' t' hl' hkey') (fun c hc => hc) (fun _ _ h => h) (fun _ _ h => h)

/-! ### a token read with an empty queue behind it: any state, look-aheads may start -/

theorem acctA {c0 c1 len g X R lc n Lc : Nat} (h0 : c0 + len + (g + 1) * X ≤ R) (h1 : c1 ≤ c0 + lc * n)
    (hlc : lc ≤ Lc) (hX : X = Lc * n) : c1 + len + g * X ≤ R := by
  have : lc * n ≤ Lc * n := Nat.mul_le_mul_right _ hlc
  rw [Nat.add_mul, Nat.one_mul] at h0
  omega

theorem acctB {c0 c1 len g B G lc n Lc : Nat} (h1 : c1 ≤ c0 + lc * n) (h0 : c0 + len ≤ B) (hlc : lc ≤ Lc)
    (hG : g + 1 ≤ G) : c1 + len + g * (Lc * n) ≤ B + G * (Lc * n) := by
  have h2 : lc * n ≤ Lc * n := Nat.mul_le_mul_right _ hlc
  have h3 : (g + 1) * (Lc * n) ≤ G * (Lc * n) := Nat.mul_le_mul_right _ hG
  rw [Nat.add_mul, Nat.one_mul] at h3
  omega

/-- after `match_token` on the token of line `j+1`: the queue continues with line `j+2`; if it is
    not empty the new state is a tag state and all queued tokens but the last are stepped over -/
def PostB (D : List Dialect) (T : Table) (L : List Str) (j B : Nat) (s : Nat) (c : Ctx) : Prop :=
  QS D L (j + 1) c ∧
  (c.queue ≠ [] → isTag T s = true ∧ AllButLast (skipM D (skipList T) c.μ) (c.queue.map (·.line))) ∧
  c.calls ≤ B + maxGuards T * (maxLookaheadTests T * c.queue.length)

/-- an abort inside `match_token` on the token of line `j+1` -/
def EB (T : Table) (L : List Str) (j B : Nat) (c : Ctx) : Prop :=
  c.reads = List.range' 1 (j + 1) ∧ c.lineNo ≤ L.length + 1 ∧ j + 1 ≤ c.lineNo ∧
  c.calls ≤ B + maxGuards T * (maxLookaheadTests T * (c.lineNo - (j + 1)))

theorem EB.of_QS {j B : Nat} {c : Ctx} (h : QS D L (j + 1) c)
    (hc : c.calls ≤ B + maxGuards T * (maxLookaheadTests T * c.queue.length)) : EB T L j B c := by
  have hl := h.lineNo
  have hsub : c.lineNo - (j + 1) = c.queue.length := by omega
  exact ⟨h.reads, h.bound, by omega, by rw [hsub]; exact hc⟩

/-- between two guarded tests of one state: the queue is what the last look-ahead made, the
    token is a tag line; `len` tests and `g` guarded tests are still to come -/
def S2 (D : List Dialect) (T : Table) (L : List Str) (j B len g : Nat) (l0 : Option Str) (c : Ctx) : Prop :=
  QS D L (j + 1) c ∧ Good (skipM D (skipList T) c.μ) (c.queue.map (·.line)) ∧ mm D .TagLine c.μ l0 = true ∧
  c.calls + len + g * (maxLookaheadTests T * c.queue.length) ≤
    B + maxGuards T * (maxLookaheadTests T * c.queue.length)

/-- before any look-ahead of this state has run: the queue is empty -/
def S1 (D : List Dialect) (T : Table) (L : List Str) (j B len g : Nat) (c : Ctx) : Prop :=
  QS D L (j + 1) c ∧ c.queue = [] ∧ c.calls + len ≤ B ∧ g ≤ maxGuards T

theorem S2.post {j B len g : Nat} {l0 : Option Str} {c : Ctx} (h : S2 D T L j B len g l0 c) (s : Nat)
    (hs : isTag T s = true) : PostB D T L j B s c :=
  ⟨h.1, fun _ => ⟨hs, h.2.1.allButLast⟩, by have := h.2.2.2; omega⟩

theorem S2.eb {j B len g : Nat} {l0 : Option Str} {c : Ctx} (h : S2 D T L j B len g l0 c) : EB T L j B c :=
  EB.of_QS h.1 (by have := h.2.2.2; omega)

theorem S2.runProds {j B len g : Nat} {l0 : Option Str} {c : Ctx} (h : S2 D T L j B len g l0 c)
    {cap : Nat} {t : Token} {ps : List Prod} {r : Except Abort Unit} {c' : Ctx} (ht : ∃ i, key t = srcAt L i)
    (hr : run (runProds cap stop t ps) c = (r, c')) : S2 D T L j B len g l0 c' := by
  obtain ⟨hqs', hq', hμ', hcalls'⟩ := h.1.runProds ht hr
  refine ⟨hqs', ?_, ?_, ?_⟩
  · rw [hq', hμ']; exact h.2.1
  · rw [hμ']; exact h.2.2.1
  · rw [hq', hcalls']; exact h.2.2.2

theorem tb2 (F : QF D T) (j B : Nat) (row : StateRow) (l0 : Option Str) :
    ∀ (bs : List Branch), guardTail T bs = true → tagNext T bs = true →
      ∀ t : Token, t.line = l0 → key t = srcAt L j →
        Triple (S2 D T L j B bs.length (nG bs) l0) (tryBranches D T stop row bs t)
          (PostB D T L j B) (fun _ => EB T L j B) := by
  intro bs
  induction bs with
  | nil => intro _ h; cases h
  | cons b bs ih =>
    intro hgt hnext t ht hkey
    simp only [tagNext, Bool.and_eq_true, beq_iff_eq] at hnext
    obtain ⟨hkind, htag⟩ := hnext
    simp only [guardTail, Bool.and_eq_true, Bool.or_eq_true, beq_iff_eq] at hgt
    obtain ⟨hhead, hgt'⟩ := hgt
    have hstable : stableKind b.kind = true := by rw [hkind]; rfl
    unfold tryBranches
    refine Triple.bind
      (Q := fun r c => (r.1 = true ∧ r.2.line = l0 ∧ key r.2 = srcAt L j) ∧
        S2 D T L j B bs.length (nG (b :: bs)) l0 c) ?_ fun r => ?_
    · refine Triple.intro fun c r c' hc hr => ?_
      obtain ⟨hf, hμ', hcalls, hv⟩ := matchP_spec hr
      obtain ⟨hqs, hgood, hmm, hacc⟩ := hc
      rw [matchTok_mu_stable D b.kind hstable] at hμ'
      simp only [List.length_cons] at hacc
      have hq' := hf.queue
      have hs2 : S2 D T L j B bs.length (nG (b :: bs)) l0 c' := by
        refine ⟨hqs.footM hf (by rw [hμ']; exact hqs.mu), ?_, ?_, ?_⟩
        · rw [hq', hμ']; exact hgood
        · rw [hμ']; exact hmm
        · rw [hq']; omega
      cases r with
      | error e => exact hs2.eb
      | ok r =>
        obtain ⟨m, t'⟩ := r
        obtain ⟨hm, hl, hn⟩ := hv m t' rfl
        refine ⟨⟨?_, hl.trans ht, (key_eq hl hn).trans hkey⟩, hs2⟩
        rw [hm, hkind, ht]; exact hmm
    · obtain ⟨m, t'⟩ := r
      dsimp only
      refine Triple.assume fun hpure => ?_
      obtain ⟨hm, hl', hkey'⟩ := hpure
      subst hm
      rw [if_pos rfl]
      split
      · rename_i hguard
        rw [nG_cons_none hguard]
        refine Triple.bind (Q := fun ok c => ok = true ∧ S2 D T L j B bs.length (nG bs) l0 c)
          (Triple.pure _ fun c hc => ⟨rfl, hc⟩) fun ok => Triple.assume fun hok => ?_
        subst hok
        rw [if_pos rfl]
        refine Triple.bind (Q := fun _ c => S2 D T L j B bs.length (nG bs) l0 c) (Triple.intro fun c r c' hc hr => ?_)
          fun _ => Triple.pure _ fun c hc => hc.post _ htag
        have := hc.runProds ⟨j, hkey'⟩ hr
        cases r with
        | ok _ => exact this
        | error e => exact this.eb
      · rename_i i hguard
        rw [nG_cons_some hguard]
        have hnext' : tagNext T bs = true := by
          rcases hhead with h | h
          · rw [hguard] at h; cases h
          · exact h.2
        split
        · rename_i la hla
          obtain ⟨hskipla, hexpla, hcost⟩ := F.la i la hla
          refine Triple.bind (Q := fun _ c => S2 D T L j B bs.length (nG bs) l0 c)
            (Triple.intro fun c r c' hc hr => ?_) fun ok => ?_
          · obtain ⟨hqs, hgood, hmm, hacc⟩ := hc
            have hne : c.queue ≠ [] := by
              intro h0; rw [h0] at hgood; exact hgood.ne_nil rfl
            obtain ⟨hreads, hbd, hge, hcalls, hlineq, hok⟩ :=
              lookahead_spec F.plain hskipla F.skAll hexpla hqs (.inr hgood) hr
            have hl := hqs.lineNo
            have hsub : c'.lineNo - (j + 1) = c.queue.length := by rw [hlineq hne]; omega
            rw [hsub] at hcalls
            cases r with
            | error e =>
              refine ⟨hreads.trans hqs.reads, hbd, hge, ?_⟩
              rw [hsub]
              have := acctA hacc hcalls hcost rfl
              omega
            | ok ok =>
              obtain ⟨hqs', hgood', hμ', hlen⟩ := hok ok rfl
              refine ⟨hqs', hgood', by rw [hμ']; exact hmm, ?_⟩
              rw [hlen hne]
              exact acctA hacc hcalls hcost rfl
          · split
            · refine Triple.bind (Q := fun _ c => S2 D T L j B bs.length (nG bs) l0 c)
                (Triple.intro fun c r c' hc hr => ?_) fun _ => Triple.pure _ fun c hc => hc.post _ htag
              have := hc.runProds ⟨j, hkey'⟩ hr
              cases r with
              | ok _ => exact this
              | error e => exact this.eb
            · exact ih hgt' hnext' t' hl' hkey'
        · exact Triple.bind (Q := fun _ _ => False) (Triple.throw _ fun c hc => hc.eb) fun _ _ h => h.elim

theorem S1.post {j B len g : Nat} {c : Ctx} (h : S1 D T L j B len g c) (s : Nat) : PostB D T L j B s c :=
  ⟨h.1, fun hne => absurd h.2.1 hne, by have := h.2.2.1; omega⟩

theorem S1.eb {j B len g : Nat} {c : Ctx} (h : S1 D T L j B len g c) : EB T L j B c :=
  EB.of_QS h.1 (by have := h.2.2.1; omega)

theorem S1.runProds {j B len g : Nat} {c : Ctx} (h : S1 D T L j B len g c)
    {cap : Nat} {t : Token} {ps : List Prod} {r : Except Abort Unit} {c' : Ctx} (ht : ∃ i, key t = srcAt L i)
    (hr : run (runProds cap stop t ps) c = (r, c')) : S1 D T L j B len g c' := by
  obtain ⟨hqs', hq', hμ', hcalls'⟩ := h.1.runProds ht hr
  exact ⟨hqs', hq'.trans h.2.1, by rw [hcalls']; exact h.2.2.1, h.2.2.2⟩

theorem tb1 (F : QF D T) (j B : Nat) (row : StateRow) :
    ∀ (bs : List Branch), guardTail T bs = true →
      ∀ t : Token, key t = srcAt L j →
        Triple (S1 D T L j B bs.length (nG bs)) (tryBranches D T stop row bs t)
          (PostB D T L j B) (fun _ => EB T L j B) := by
  intro bs
  induction bs with
  | nil =>
    intro _ t _
    refine Triple.intro fun c r c' hc hr => ?_
    obtain ⟨⟨es, un, rfl⟩, -⟩ := tail_spec D T stop row t hr
    have hs1 : S1 D T L j B 0 0 { c with errors := es, unexpected := un } :=
      ⟨hc.1.tail es un, hc.2.1, hc.2.2.1, Nat.zero_le _⟩
    cases r with
    | ok s => exact hs1.post s
    | error e => exact hs1.eb
  | cons b bs ih =>
    intro hgt t hkey
    simp only [guardTail, Bool.and_eq_true, Bool.or_eq_true, beq_iff_eq] at hgt
    obtain ⟨hhead, hgt'⟩ := hgt
    unfold tryBranches
    refine Triple.bind
      (Q := fun r c => (r.2.line = t.line ∧ key r.2 = srcAt L j) ∧
        (S1 D T L j B bs.length (nG (b :: bs)) c ∧
          (b.kind = .TagLine → r.1 = true → mm D .TagLine c.μ t.line = true))) ?_ fun r => ?_
    · refine Triple.intro fun c r c' hc hr => ?_
      obtain ⟨hf, hμ', hcalls, hv⟩ := matchP_spec hr
      obtain ⟨hqs, hq, hacc, hg⟩ := hc
      simp only [List.length_cons] at hacc
      have hs1 : S1 D T L j B bs.length (nG (b :: bs)) c' :=
        ⟨hqs.footM hf (by rw [hμ']; exact matchTok_dialect D b.kind c.μ t hqs.mu), hf.queue.trans hq, by omega, hg⟩
      cases r with
      | error e => exact hs1.eb
      | ok r =>
        obtain ⟨m, t'⟩ := r
        obtain ⟨hm, hl, hn⟩ := hv m t' rfl
        refine ⟨⟨hl, (key_eq hl hn).trans hkey⟩, hs1, fun hk hmt => ?_⟩
        dsimp only at hmt
        rw [hμ', hk, matchTok_mu_stable D .TagLine rfl, ← hk, ← hm, hmt]
    · obtain ⟨m, t'⟩ := r
      dsimp only
      refine Triple.assume fun hpure => ?_
      obtain ⟨hl', hkey'⟩ := hpure
      split
      · rename_i hmt
        split
        · rename_i hguard
          refine Triple.bind (Q := fun ok c => ok = true ∧ S1 D T L j B bs.length (nG (b :: bs)) c)
            (Triple.pure _ fun c hc => ⟨rfl, hc.1⟩) fun ok => Triple.assume fun hok => ?_
          subst hok
          rw [if_pos rfl]
          refine Triple.bind (Q := fun _ c => S1 D T L j B bs.length (nG (b :: bs)) c)
            (Triple.intro fun c r c' hc hr => ?_) fun _ => Triple.pure _ fun c hc => hc.post _
          have := hc.runProds ⟨j, hkey'⟩ hr
          cases r with
          | ok _ => exact this
          | error e => exact this.eb
        · rename_i i hguard
          obtain ⟨⟨hkind, htag⟩, hnext⟩ : (b.kind = .TagLine ∧ isTag T b.target = true) ∧ tagNext T bs = true := by
            rcases hhead with h | h
            · rw [hguard] at h; cases h
            · exact h
          split
          · rename_i la hla
            obtain ⟨hskipla, hexpla, hcost⟩ := F.la i la hla
            refine Triple.bind (Q := fun _ c => S2 D T L j B bs.length (nG bs) t.line c)
              (Triple.intro fun c r c' hc hr => ?_) fun ok => ?_
            · obtain ⟨⟨hqs, hq, hacc, hg⟩, hmm⟩ := hc
              have hmm' := hmm hkind hmt
              rw [nG_cons_some hguard] at hg
              have hj : j < L.length := by
                have h1 : t.line = L[j]? := congrArg Prod.fst hkey
                cases hx : L[j]? with
                | none => rw [h1, hx, mm_tagLine_none] at hmm'; cases hmm'
                | some x => exact (List.getElem?_eq_some_iff.1 hx).1
              obtain ⟨hreads, hbd, hge, hcalls, -, hok⟩ :=
                lookahead_spec F.plain hskipla F.skAll hexpla hqs (.inl ⟨hq, by omega⟩) hr
              cases r with
              | error e =>
                refine ⟨hreads.trans hqs.reads, hbd, hge, ?_⟩
                have := acctB (len := bs.length) hcalls hacc hcost hg
                omega
              | ok ok =>
                obtain ⟨hqs', hgood', hμ', -⟩ := hok ok rfl
                have hl := hqs'.lineNo
                have hsub : c'.lineNo - (j + 1) = c'.queue.length := by omega
                rw [hsub] at hcalls
                exact ⟨hqs', hgood', by rw [hμ']; exact hmm', acctB hcalls hacc hcost hg⟩
            · split
              · refine Triple.bind (Q := fun _ c => S2 D T L j B bs.length (nG bs) t.line c)
                  (Triple.intro fun c r c' hc hr => ?_) fun _ => Triple.pure _ fun c hc => hc.post _ htag
                have := hc.runProds ⟨j, hkey'⟩ hr
                cases r with
                | ok _ => exact this
                | error e => exact this.eb
              · exact tb2 F j B row t.line bs hgt' hnext t' hl' hkey'
          · exact Triple.bind (Q := fun _ _ => False) (Triple.throw _ fun c hc => hc.1.eb) fun _ _ h => h.elim
      · refine Triple.conseq (ih hgt' t' hkey') (fun c hc => ?_) (fun _ _ h => h) (fun _ _ h => h)
        exact ⟨hc.1.1, hc.1.2.1, hc.1.2.2.1, Nat.le_trans (nG_cons_le b bs) hc.1.2.2.2⟩

/-! ### `match_token` and the main loop -/

/-- the matcher-call budget after `n` tokens read with the scanner after line `ln` -/
def budget (T : Table) (n ln : Nat) : Nat := maxTests T * n + maxGuards T * (maxLookaheadTests T * ln)

theorem budget_mono (T : Table) (n : Nat) {a b : Nat} (h : a ≤ b) : budget T n a ≤ budget T n b :=
  Nat.add_le_add_left (Nat.mul_le_mul_left _ (Nat.mul_le_mul_left _ h)) _

theorem budget_merge (T : Table) (j : Nat) {a x : Nat} (h : a ≤ x) :
    budget T j a + maxTests T + maxGuards T * (maxLookaheadTests T * (x - a)) = budget T (j + 1) x := by
  unfold budget
  have h1 : maxGuards T * (maxLookaheadTests T * x) =
      maxGuards T * (maxLookaheadTests T * a) + maxGuards T * (maxLookaheadTests T * (x - a)) := by
    rw [← Nat.mul_add, ← Nat.mul_add]
    congr 2
    omega
  rw [h1, Nat.mul_add, Nat.mul_one]
  omega

/-- what holds of the final context however the parse ends -/
def Fin (T : Table) (L : List Str) (c : Ctx) : Prop :=
  ∃ n, c.reads = List.range' 1 n ∧ n ≤ L.length + 1 ∧ c.lineNo ≤ L.length + 1 ∧ c.calls ≤ budget T n c.lineNo

/-- loop head, `k` tokens read -/
def Head (D : List Dialect) (T : Table) (L : List Str) (k s : Nat) (c : Ctx) : Prop :=
  QS D L k c ∧ k ≤ L.length ∧
  (c.queue ≠ [] → isTag T s = true ∧ AllButLast (skipM D (skipList T) c.μ) (c.queue.map (·.line))) ∧
  c.calls ≤ budget T k c.lineNo

/-- the token `t` of line `j+1` has been read and recorded -/
def Mid (D : List Dialect) (T : Table) (L : List Str) (j : Nat) (t : Token) (s : Nat) (c : Ctx) : Prop :=
  QS D L (j + 1) c ∧ j ≤ L.length ∧
  (c.queue ≠ [] → isTag T s = true ∧ skipM D (skipList T) c.μ t.line = true ∧
    AllButLast (skipM D (skipList T) c.μ) (c.queue.map (·.line))) ∧
  c.calls ≤ budget T j c.lineNo

/-- `match_token` done on the token of line `j+1` -/
def PostH (D : List Dialect) (T : Table) (L : List Str) (j s : Nat) (c : Ctx) : Prop :=
  QS D L (j + 1) c ∧
  (c.queue ≠ [] → isTag T s = true ∧ AllButLast (skipM D (skipList T) c.μ) (c.queue.map (·.line))) ∧
  c.calls ≤ budget T (j + 1) c.lineNo

theorem EB.fin {j B : Nat} {c : Ctx} (h : EB T L j B c) (hj : j ≤ L.length)
    (hB : B = budget T j (j + 1) + maxTests T) : Fin T L c := by
  obtain ⟨h1, h2, h3, h4⟩ := h
  refine ⟨j + 1, h1, by omega, h2, ?_⟩
  rw [← budget_merge T j h3, ← hB]
  exact h4

theorem mt (F : QF D T) (j s : Nat) (t : Token) (hkey : key t = srcAt L j) :
    Triple (Mid D T L j t s) (matchToken D T stop s t) (PostH D T L j) (fun _ => Fin T L) := by
  refine Triple.of_forall fun c0 hc0 => ?_
  obtain ⟨hqs0, hj, htag0, hcalls0⟩ := hc0
  unfold matchToken
  split
  · rename_i row hrow
    obtain ⟨hgt, hlen, hng⟩ := F.rows s row hrow
    by_cases hq : c0.queue = []
    · have hl0 := hqs0.lineNo
      rw [hq] at hl0
      simp only [List.length_nil, Nat.add_zero] at hl0
      refine Triple.conseq (tb1 F j (budget T j (j + 1) + maxTests T) row row.branches hgt t hkey)
        (fun c hc => ?_) (fun s' c hc => ?_) (fun _ c hc => hc.fin hj rfl)
      · subst hc
        exact ⟨hqs0, hq, by rw [hl0] at hcalls0; omega, hng⟩
      · obtain ⟨hqs, htag, hcalls⟩ := hc
        refine ⟨hqs, htag, ?_⟩
        have hl := hqs.lineNo
        have hsub : c.queue.length = c.lineNo - (j + 1) := by omega
        rw [hsub] at hcalls
        rw [← budget_merge T j (show j + 1 ≤ c.lineNo by omega)]
        exact hcalls
    · obtain ⟨hs, hskip, habl⟩ := htag0 hq
      obtain ⟨hbr, herr⟩ := F.tagRow s row hs hrow
      refine Triple.conseq
        (tb_tag F (j + 1) row herr c0.queue c0.μ hqs0.mu t.line hskip (c0.calls + row.branches.length)
          row.branches hbr t rfl ⟨j, hkey⟩)
        (fun c hc => ?_) (fun s' c hc => ?_) (fun _ c hc => ?_)
      · subst hc
        exact ⟨⟨hqs0, rfl, rfl, by omega⟩, Nat.le_add_left _ _⟩
      · obtain ⟨⟨hqs, hq', hμ', hcalls⟩, hs'⟩ := hc
        have hl : c.lineNo = c0.lineNo := by
          have h1 := hqs.lineNo; have h2 := hqs0.lineNo; rw [hq'] at h1; omega
        refine ⟨hqs, fun _ => ⟨hs', by rw [hq', hμ']; exact habl⟩, ?_⟩
        rw [hl]
        unfold budget at hcalls0 ⊢
        rw [Nat.mul_add, Nat.mul_one]
        omega
      · obtain ⟨hqs, hq', hμ', hcalls⟩ := hc
        have hl : c.lineNo = c0.lineNo := by
          have h1 := hqs.lineNo; have h2 := hqs0.lineNo; rw [hq'] at h1; omega
        refine ⟨j + 1, hqs.reads, by omega, hqs.bound, ?_⟩
        rw [hl]
        unfold budget at hcalls0 ⊢
        rw [Nat.mul_add, Nat.mul_one]
        omega
  · refine Triple.throw _ fun c hc => ?_
    subst hc
    refine ⟨j + 1, hqs0.reads, by omega, hqs0.bound, Nat.le_trans hcalls0 ?_⟩
    unfold budget
    rw [Nat.mul_add, Nat.mul_one]
    omega

theorem allButLast_cons {P : Option Str → Bool} {a b : Option Str} {r : List (Option Str)}
    (h : AllButLast P (a :: b :: r)) : P a = true ∧ AllButLast P (b :: r) := by
  unfold AllButLast at *
  rw [List.dropLast_cons_cons] at h
  exact ⟨h a (List.mem_cons_self ..), fun x hx => h x (List.mem_cons_of_mem _ hx)⟩

/-- reading the next token and recording its line number -/
theorem read_step (j s : Nat) :
    Triple (Head D T L j s) readToken
      (fun t c => key t = srcAt L j ∧ Mid D T L j t s { c with reads := c.reads ++ [t.lineNo] })
      (fun _ => Fin T L) := by
  refine Triple.intro fun c r c' hc hr => ?_
  obtain ⟨hqs, hj, htag, hcalls⟩ := hc
  have hrange : List.range' 1 j ++ [j + 1] = List.range' 1 (j + 1) := by
    rw [List.range'_1_concat, Nat.add_comm 1 j]
  cases hq : c.queue with
  | nil =>
    rw [run_readToken_nil hq] at hr
    cases hr
    have hl := hqs.lineNo
    rw [hq] at hl
    simp only [List.length_nil, Nat.add_zero] at hl
    have hkey : key ({ line := c.lines.head?, lineNo := c.lineNo + 1 } : Token) = srcAt L j := by
      unfold key srcAt
      dsimp only
      rw [hqs.lines, List.head?_drop, hl]
    refine ⟨hkey, ⟨?_, ?_, ?_, ?_, hqs.mu, hqs.builds, ?_⟩, hj, fun hne => absurd hq hne, ?_⟩
    · dsimp only; rw [hqs.reads, hl, hrange]
    · dsimp only; rw [hq]; rfl
    · dsimp only; rw [hq, hl]; rfl
    · dsimp only; rw [hqs.lines, List.tail_drop]
    · dsimp only; omega
    · dsimp only
      exact Nat.le_trans hcalls (budget_mono T j (Nat.le_succ _))
  | cons t q =>
    rw [run_readToken_cons hq] at hr
    cases hr
    have hqq := hqs.queue
    rw [hq, List.map_cons, List.length_cons, List.range'_succ, List.map_cons, List.cons.injEq] at hqq
    obtain ⟨hkey, hrest⟩ := hqq
    have hl := hqs.lineNo
    rw [hq, List.length_cons] at hl
    have hn : t.lineNo = j + 1 := congrArg Prod.snd hkey
    refine ⟨hkey, ⟨?_, hrest, ?_, hqs.lines, hqs.mu, hqs.builds, hqs.bound⟩, hj, fun hne => ?_, hcalls⟩
    · dsimp only; rw [hqs.reads, hn, hrange]
    · dsimp only; omega
    · dsimp only at hne ⊢
      obtain ⟨hs, habl⟩ := htag (by rw [hq]; exact List.cons_ne_nil _ _)
      rw [hq, List.map_cons] at habl
      cases q with
      | nil => exact absurd rfl hne
      | cons b q =>
        rw [List.map_cons] at habl
        obtain ⟨h1, h2⟩ := allButLast_cons habl
        exact ⟨hs, h1, by rw [List.map_cons]; exact h2⟩

theorem loop (F : QF D T) : ∀ (fuel j s : Nat),
    Triple (Head D T L j s) (parseLoop D T stop fuel s)
      (fun _ c => QS D L (L.length + 1) c ∧ c.calls ≤ budget T (L.length + 1) c.lineNo) (fun _ => Fin T L) := by
  intro fuel
  induction fuel with
  | zero =>
    intro j s
    refine Triple.throw _ fun c hc => ?_
    exact ⟨j, hc.1.reads, by have := hc.2.1; omega, hc.1.bound, hc.2.2.2⟩
  | succ fuel ih =>
    intro j s
    unfold parseLoop
    refine Triple.bind (read_step j s) fun t => Triple.assume fun hkey => ?_
    refine Triple.bind (Q := fun _ c => Mid D T L j t s c) (Triple.modify _ fun c hc => hc) fun _ => ?_
    refine Triple.bind (mt F j s t hkey) fun s' => ?_
    have hline : t.line = L[j]? := congrArg Prod.fst hkey
    split
    · rename_i heof
      refine Triple.pure _ fun c hc => ?_
      have hnone : L[j]? = none := by
        rw [← hline]; simpa [Token.eof] using heof
      have hge := List.getElem?_eq_none_iff.1 hnone
      have hjl : j = L.length := by
        -- `j ≤ |L|` follows from `lineNo ≤ |L| + 1` and `lineNo = j + 1 + |queue|`
        have h1 := hc.1.lineNo
        have h2 := hc.1.bound
        omega
      rw [← hjl]
      exact ⟨hc.1, hc.2.2⟩
    · rename_i heof
      refine Triple.conseq (ih (j + 1) s') (fun c hc => ?_) (fun _ _ h => h) (fun _ _ h => h)
      have hsome : L[j]? ≠ none := by
        rw [← hline]
        intro h0
        exact heof (by simp [Token.eof, h0])
      have hlt : j < L.length := by
        rcases Nat.lt_or_ge j L.length with h | h
        · exact h
        · exact absurd (List.getElem?_eq_none_iff.2 h) hsome
      exact ⟨hc.1, hlt, hc.2.1, hc.2.2⟩

/-- all tokens read: `|L| + 1` of them, the last being the end-of-file token -/
def Done (D : List Dialect) (T : Table) (L : List Str) (c : Ctx) : Prop :=
  QS D L (L.length + 1) c ∧ c.calls ≤ budget T (L.length + 1) c.lineNo

theorem Done.fin {c : Ctx} (h : Done D T L c) : Fin T L c :=
  ⟨L.length + 1, h.1.reads, Nat.le_refl _, h.1.bound, h.2⟩

theorem body (F : QF D T) (n : Nat) :
    Triple (Head D T L 0 0) (parseBody D T stop n) (fun _ => Done D T L) (fun _ => Fin T L) := by
  unfold parseBody
  refine Triple.bind (Q := fun _ => Head D T L 0 0) (Triple.modify _ fun c hc => ?_) fun _ => ?_
  · obtain ⟨h, h2, h3, h4⟩ := hc
    exact ⟨⟨h.reads, h.queue, h.lineNo, h.lines, h.mu, h.builds, h.bound⟩, h2, h3, h4⟩
  refine Triple.bind (loop F _ 0 0) fun _ => ?_
  refine Triple.bind (Q := fun _ => Done D T L) (Triple.intro fun c r c' hc hr => ?_) fun _ => ?_
  · have hf := runProd_foot T.errorCap stop default (.end_ T.startRule) (by simp) c r c' hr
    obtain ⟨h, h2⟩ := hc
    have hd : Done D T L c' := by
      obtain ⟨_, _, _, rfl⟩ := hf
      exact ⟨⟨h.reads, h.queue, h.lineNo, h.lines, h.mu, h.builds, h.bound⟩, h2⟩
    cases r with
    | ok _ => exact hd
    | error e => exact hd.fin
  refine Triple.bind Triple.get fun c0 => ?_
  dsimp only
  split
  · exact Triple.bind (Q := fun _ _ => False) (Triple.throw _ fun c hc => hc.2.fin) fun _ _ h => h.elim
  · split
    · exact Triple.pure _ fun c hc => hc.2
    · exact Triple.throw _ fun c hc => hc.2.fin
    · exact Triple.throw _ fun c hc => hc.2.fin
    · exact Triple.throw _ fun c hc => hc.2.fin

end

/-! ### the statements -/

theorem head_ctx0 (D : List Dialect) (T : Table) (μ : MState) (ids : Nat) (src : Str)
    (hμ : (μ.reset D).dialect ∈ D) : Head D T (splitLines src) 0 0 (ctx0 D μ ids src) :=
  ⟨⟨rfl, rfl, rfl, rfl, hμ, (fun t ht => by cases ht), Nat.zero_le _⟩, Nat.zero_le _, fun h => absurd rfl h,
    Nat.zero_le _⟩

theorem parse_fin (D : List Dialect) (T : Table) (F : QF D T) (stop : Bool) (μ : MState) (ids : Nat) (src : Str)
    (hμ : (μ.reset D).dialect ∈ D) :
    Fin T (splitLines src) (parseWith D T stop μ ids src).2 ∧
    ∀ d, (parseWith D T stop μ ids src).1 = .ok d → Done D T (splitLines src) (parseWith D T stop μ ids src).2 := by
  have hb := body (stop := stop) F (splitLines src).length (ctx0 D μ ids src) (head_ctx0 D T μ ids src hμ)
  rw [parseWith_snd, parseWith_eq]
  rcases hr : run (parseBody D T stop (splitLines src).length) (ctx0 D μ ids src) with ⟨r, c⟩
  cases r with
  | ok d => exact ⟨(hb.1 _ _ hr).fin, fun _ _ => hb.1 _ _ hr⟩
  | error e =>
    refine ⟨hb.2 _ _ hr, fun d hd => ?_⟩
    cases e <;> cases hd

/-- the main loop reads the tokens of lines 1, 2, 3, … in order -/
theorem reads_in_order (D : List Dialect) (T : Table) (hD : queueDialectFacts D = true) (hT : queueFacts T = true)
    (stop : Bool) (μ : MState) (ids : Nat) (src : Str) (hμ : (μ.reset D).dialect ∈ D) :
    (parseWith D T stop μ ids src).2.reads = List.range' 1 (parseWith D T stop μ ids src).2.reads.length := by
  obtain ⟨n, hn, -⟩ := (parse_fin D T (QF.of_facts hD hT) stop μ ids src hμ).1
  rw [hn, List.length_range']

/-- linear matching work -/
theorem calls_linear (D : List Dialect) (T : Table) (hD : queueDialectFacts D = true) (hT : queueFacts T = true)
    (stop : Bool) (μ : MState) (ids : Nat) (src : Str) (hμ : (μ.reset D).dialect ∈ D) :
    (parseWith D T stop μ ids src).2.calls ≤ workPerToken T * ((splitLines src).length + 1) := by
  obtain ⟨n, -, hn, hl, hc⟩ := (parse_fin D T (QF.of_facts hD hT) stop μ ids src hμ).1
  refine Nat.le_trans hc ?_
  unfold budget workPerToken
  rw [Nat.add_mul, Nat.mul_assoc]
  exact Nat.add_le_add (Nat.mul_le_mul_left _ hn) (Nat.mul_le_mul_left _ (Nat.mul_le_mul_left _ hl))

theorem map_getElem?_range (L : List Str) :
    (List.range' 1 (L.length + 1)).map (fun n => L[n - 1]?) = L.map some ++ [none] := by
  apply List.ext_getElem (by simp)
  intro i h1 h2
  simp only [List.getElem_map, List.getElem_range', Nat.one_mul, Nat.add_sub_cancel_left]
  by_cases hi : i < L.length
  · rw [List.getElem_append_left (by simpa using hi), List.getElem_map, List.getElem?_eq_getElem hi]
  · have hlen : i = L.length := by simp at h1; omega
    subst hlen
    rw [List.getElem_append_right (by simp)]
    simp

/-- for an accepted document the builder receives each physical line once, in order, with its own
    text and number, then exactly one end-of-file token -/
theorem accepted_sequence (D : List Dialect) (T : Table) (hD : queueDialectFacts D = true)
    (hT : queueFacts T = true) (hB : oneBuildLast T = true)
    (stop : Bool) (μ : MState) (ids : Nat) (src : Str) (hμ : (μ.reset D).dialect ∈ D) (d : Doc)
    (h : (parseWith D T stop μ ids src).1 = .ok d) :
    (parseWith D T stop μ ids src).2.builds.map (·.lineNo) = List.range' 1 ((splitLines src).length + 1) ∧
    (parseWith D T stop μ ids src).2.builds.map (·.line) = (splitLines src).map some ++ [none] := by
  obtain ⟨hqs, -⟩ := (parse_fin D T (QF.of_facts hD hT) stop μ ids src hμ).2 d h
  obtain ⟨hbr, -⟩ := accepted_builds_eq_reads D T hB stop μ ids src d h
  have hno : (parseWith D T stop μ ids src).2.builds.map (·.lineNo) = List.range' 1 ((splitLines src).length + 1) := by
    rw [hbr, hqs.reads]
  refine ⟨hno, ?_⟩
  have hline : (parseWith D T stop μ ids src).2.builds.map (·.line) =
      ((parseWith D T stop μ ids src).2.builds.map (·.lineNo)).map (fun n => (splitLines src)[n - 1]?) := by
    rw [List.map_map]
    apply List.map_congr_left
    intro t ht
    obtain ⟨i, hi⟩ := hqs.builds t ht
    have h1 : t.line = (splitLines src)[i]? := congrArg Prod.fst hi
    have h2 : t.lineNo = i + 1 := congrArg Prod.snd hi
    simp only [Function.comp_apply, h1, h2, Nat.add_sub_cancel]
  rw [hline, hno, map_getElem?_range]

/-! ### the dialect hypothesis holds for every matcher state a constructor call or a parse made -/

theorem reset_dialect_mem (D : List Dialect) (μ : MState) (h : μ.dialect ∈ D) : (μ.reset D).dialect ∈ D := by
  unfold MState.reset
  dsimp only
  split
  · split
    · rename_i d hd
      exact List.mem_of_find?_eq_some hd
    · exact h
  · exact h

theorem init_dialect_mem (D : List Dialect) (name : Str) (μ : MState) (h : MState.init D name = some μ) :
    μ.dialect ∈ D := by
  unfold MState.init at h
  cases hd : findDialect D name with
  | none => rw [hd] at h; cases h
  | some d =>
    rw [hd] at h
    cases h
    exact List.mem_of_find?_eq_some hd

end Lemmas
end GV
