/-
  Lemmas/LayoutDoc4Builder.lean — the builder under the insertion of a comment line (property C16,
  goal G3).  The stacks of the two runs stay related node by node as in
  Lemmas/LayoutDoc3Builder.lean (`NodeMap`); the comment lists differ: that of the second run is the
  renamed list of the first with the inserted comment at its source-order position (`CommRel`).
  The list of comments is read by one transform only — that of the `GherkinDocument` node, which is
  the node of the start rule and is closed by the final `end_rule` of `parse` — so the relation has
  to know where that node is: `StackRel` keeps it (`dn`) apart from the open nodes above it (`u`,
  none of them a `GherkinDocument`, no item under the key `GherkinDocument` anywhere) and from the
  root node below it.
-/
import GherkinVerif.Lemmas.LayoutDoc3Builder
namespace GV
namespace Layout4
open Lemmas Spec Layout3

variable {f : LocMap}

theorem nomem {α} {P : α → Prop} : ∀ n ∈ ([] : List α), P n := fun _ h => nomatch h

/-- the root node of the builder -/
def root0 : Node := ⟨.None_, []⟩

def noDocItem (n : Node) : Prop := getItems n.items (.rule .GherkinDocument) = []

/-- the two stacks: related open nodes `u` (no `GherkinDocument` among them) above the related
    nodes `dn` of the start rule, above the untouched root; no node holds a finished document -/
def StackRel (f : LocMap) (s1 s2 : List Node) : Prop :=
  ∃ u1 u2 dn1 dn2, s1 = u1 ++ [dn1, root0] ∧ s2 = u2 ++ [dn2, root0] ∧ All2 (NodeMap f) u1 u2 ∧
    (∀ n ∈ u1, n.rt ≠ .GherkinDocument) ∧ NodeMap f dn1 dn2 ∧ (∀ n ∈ u1, noDocItem n) ∧ noDocItem dn1

/-- the comment lists: before the insertion (`none`) the renamed list, all comments on lines `≤ k`;
    afterwards the inserted comment `x` sits between those of the lines `≤ k` and the later ones -/
def CommRel (f : LocMap) (k : Nat) : Option Comment → List Comment → List Comment → Prop
  | none, cs1, cs2 => cs2 = cs1.map (mapComment f) ∧ ∀ c ∈ cs1, c.loc.line ≤ k
  | some x, cs1, cs2 => ∃ A B, cs1 = A ++ B ∧ cs2 = A.map (mapComment f) ++ x :: B.map (mapComment f) ∧
      (∀ a ∈ A, a.loc.line ≤ k) ∧ (∀ b ∈ B, k < b.loc.line)

def BRel (f : LocMap) (k : Nat) (xo : Option Comment) (β1 β2 : BState) : Prop :=
  StackRel f β1.stack β2.stack ∧ CommRel f k xo β1.comments β2.comments

theorem BRel.start0 (k : Nat) (r : RuleType) : BRel f k none (BState.reset.startRule r) (BState.reset.startRule r) :=
  ⟨⟨[], [], ⟨r, []⟩, ⟨r, []⟩, rfl, rfl, .nil, nomem, ⟨rfl, .nil⟩, nomem, rfl⟩,
    rfl, nomem⟩

theorem BRel.stack_ne_nil {k : Nat} {xo : Option Comment} {β1 β2 : BState} (h : BRel f k xo β1 β2) :
    β1.stack ≠ [] := by
  obtain ⟨⟨u1, u2, dn1, dn2, e1, -⟩, -⟩ := h
  rw [e1]; simp

theorem BRel.startRule {k : Nat} {xo : Option Comment} {β1 β2 : BState} (h : BRel f k xo β1 β2) {r : RuleType}
    (hr : r ≠ .GherkinDocument) : BRel f k xo (β1.startRule r) (β2.startRule r) := by
  obtain ⟨⟨u1, u2, dn1, dn2, e1, e2, hu, hrt, hdn, hnd, hnd'⟩, hc⟩ := h
  refine ⟨⟨⟨r, []⟩ :: u1, ⟨r, []⟩ :: u2, dn1, dn2, ?_, ?_, .cons ⟨rfl, .nil⟩ hu, ?_, hdn, ?_, hnd'⟩, hc⟩
  · simp [BState.startRule, e1]
  · simp [BState.startRule, e2]
  · intro n hn
    rcases List.mem_cons.1 hn with rfl | hn
    · exact hr
    · exact hrt n hn
  · intro n hn
    rcases List.mem_cons.1 hn with rfl | hn
    · rfl
    · exact hnd n hn

theorem noDocItem_append {n : Node} (h : noDocItem n) {key : Key} (hk : key ≠ .rule .GherkinDocument) (v : Val) :
    noDocItem { n with items := n.items ++ [(key, v)] } := by
  unfold noDocItem getItems at h ⊢
  have : (key == Key.rule RuleType.GherkinDocument) = false := by simpa using hk
  simp only [List.filter_append, List.filter_cons, this, Bool.false_eq_true, ↓reduceIte, List.filter_nil,
    List.append_nil]
  exact h

/-- related values appended to the top nodes, under a key other than `GherkinDocument` -/
theorem StackRel.push {s1 s2 : List Node} (h : StackRel f s1 s2) {key : Key}
    (hk : key ≠ .rule .GherkinDocument) {v w : Val} (hv : ValMap f v w) :
    ∃ s1' s2', addToTop s1 key v = some s1' ∧ addToTop s2 key w = some s2' ∧ StackRel f s1' s2' := by
  obtain ⟨u1, u2, dn1, dn2, e1, e2, hu, hrt, hdn, hnd, hnd'⟩ := h
  subst e1 e2
  cases hu with
  | nil =>
    exact ⟨_, _, rfl, rfl, [], [], _, _, rfl, rfl, .nil, nomem,
      ⟨hdn.1, hdn.2.append (.cons key hv .nil)⟩, nomem, noDocItem_append hnd' hk v⟩
  | cons hab ht =>
    rename_i a b as bs
    refine ⟨_, _, rfl, rfl, { a with items := a.items ++ [(key, v)] } :: as,
      { b with items := b.items ++ [(key, w)] } :: bs, dn1, dn2, rfl, rfl,
      .cons ⟨hab.1, hab.2.append (.cons key hv .nil)⟩ ht, ?_, hdn, ?_, hnd'⟩
    · intro n hn
      rcases List.mem_cons.1 hn with rfl | hn
      · exact hrt a List.mem_cons_self
      · exact hrt n (List.mem_cons_of_mem _ hn)
    · intro n hn
      rcases List.mem_cons.1 hn with rfl | hn
      · exact noDocItem_append (hnd a List.mem_cons_self) hk v
      · exact hnd n (List.mem_cons_of_mem _ hn)

/-- a token no transform reads, built by both runs -/
theorem StackRel.push_free {s1 s2 : List Node} (h : StackRel f s1 s2) {kd : Kind}
    (hk : freeKey (.tok kd) = true) (v w : Val) :
    ∃ s1' s2', addToTop s1 (.tok kd) v = some s1' ∧ addToTop s2 (.tok kd) w = some s2' ∧ StackRel f s1' s2' := by
  obtain ⟨u1, u2, dn1, dn2, e1, e2, hu, hrt, hdn, hnd, hnd'⟩ := h
  subst e1 e2
  have hkey : Key.tok kd ≠ .rule .GherkinDocument := (fun h => nomatch h)
  cases hu with
  | nil =>
    exact ⟨_, _, rfl, rfl, [], [], _, _, rfl, rfl, .nil, nomem,
      ⟨hdn.1, hdn.2.append (.free _ hk v w .nil)⟩, nomem, noDocItem_append hnd' hkey v⟩
  | cons hab ht =>
    rename_i a b as bs
    refine ⟨_, _, rfl, rfl, { a with items := a.items ++ [(.tok kd, v)] } :: as,
      { b with items := b.items ++ [(.tok kd, w)] } :: bs, dn1, dn2, rfl, rfl,
      .cons ⟨hab.1, hab.2.append (.free _ hk v w .nil)⟩ ht, ?_, hdn, ?_, hnd'⟩
    · intro n hn
      rcases List.mem_cons.1 hn with rfl | hn
      · exact hrt a List.mem_cons_self
      · exact hrt n (List.mem_cons_of_mem _ hn)
    · intro n hn
      rcases List.mem_cons.1 hn with rfl | hn
      · exact noDocItem_append (hnd a List.mem_cons_self) hkey v
      · exact hnd n (List.mem_cons_of_mem _ hn)

/-- the line condition for a comment built by both runs: before the insertion its line is `≤ k`,
    afterwards `> k` -/
def LineOk (k : Nat) (xo : Option Comment) (n : Nat) : Prop :=
  match xo with
  | none => n ≤ k
  | some _ => k < n

theorem BRel.build {k : Nat} {xo : Option Comment} {β1 β2 : BState} (h : BRel f k xo β1 β2) {t1 t2 : Token}
    (ht : TokMap f t1 t2) (hl : LineOk k xo t1.lineNo) :
    (∃ w, β1.build t1 = .error (.crash w) ∧ β2.build t2 = .error (.crash w)) ∨
    (∃ β1' β2', β1.build t1 = .ok β1' ∧ β2.build t2 = .ok β2' ∧ BRel f k xo β1' β2') := by
  cases hm : t1.mtype with
  | none =>
    rw [layBuild_unmatched _ _ hm, layBuild_unmatched _ _ (ht.mtype ▸ hm)]
    exact .inl ⟨_, rfl, rfl⟩
  | some K =>
    have hm2 : t2.mtype = some K := ht.mtype ▸ hm
    by_cases hk : K = .Comment
    · subst hk
      rw [layBuild_comment _ _ hm, layBuild_comment _ _ hm2, ht.text, ht.getLocation_none]
      cases t1.text with
      | none => exact .inl ⟨_, rfl, rfl⟩
      | some tx =>
        refine .inr ⟨_, _, rfl, rfl, h.1, ?_⟩
        have hline : (getLocation t1).line = t1.lineNo := rfl
        cases xo with
        | none =>
          obtain ⟨e, hle⟩ := h.2
          refine ⟨by simp only [e, List.map_append, List.map_cons, List.map_nil, mapComment], fun c hc => ?_⟩
          rcases List.mem_append.1 hc with hc | hc
          · exact hle c hc
          · simp only [List.mem_singleton] at hc; rw [hc]; exact hl
        | some x =>
          obtain ⟨A, B, e1, e2, hA, hB⟩ := h.2
          refine ⟨A, B ++ [⟨getLocation t1, tx⟩], by simp only [e1, List.append_assoc], ?_, hA, fun b hb => ?_⟩
          · simp only [e2, List.map_append, List.map_cons, List.map_nil, mapComment, List.append_assoc,
              List.cons_append]
          · rcases List.mem_append.1 hb with hb | hb
            · exact hB b hb
            · simp only [List.mem_singleton] at hb; rw [hb]; exact hl
    · rw [layBuild_other _ _ K hk hm, layBuild_other _ _ K hk hm2]
      obtain ⟨s1, s2, e1, e2, hs⟩ := h.1.push (key := .tok K) (fun h => nomatch h) (.tok ht)
      rw [e1, e2]
      exact .inr ⟨_, _, rfl, rfl, hs, h.2⟩

theorem BRel.build_free {k : Nat} {xo : Option Comment} {β1 β2 : BState} (h : BRel f k xo β1 β2) {t1 t2 : Token}
    {kd : Kind} (hk : freeKey (.tok kd) = true) (h1 : t1.mtype = some kd) (h2 : t2.mtype = some kd) :
    ∃ β1' β2', β1.build t1 = .ok β1' ∧ β2.build t2 = .ok β2' ∧ BRel f k xo β1' β2' := by
  have hkc : kd ≠ .Comment := by intro e; subst e; cases hk
  rw [layBuild_other _ _ kd hkc h1, layBuild_other _ _ kd hkc h2]
  obtain ⟨s1, s2, e1, e2, hs⟩ := h.1.push_free hk (.tok t1) (.tok t2)
  rw [e1, e2]
  exact ⟨_, _, rfl, rfl, hs, h.2⟩

/-- the second run builds the inserted comment -/
theorem BRel.build_extra {k : Nat} {β1 β2 : BState} (h : BRel f k none β1 β2) {t : Token} {tx : Str}
    (hm : t.mtype = some .Comment) (htx : t.text = some tx) :
    ∃ β2', β2.build t = .ok β2' ∧ BRel f k (some ⟨getLocation t, tx⟩) β1 β2' := by
  rw [layBuild_comment _ _ hm, htx]
  obtain ⟨e, hle⟩ := h.2
  exact ⟨_, rfl, h.1, β1.comments, [], by simp, by simp [e], hle, nomem⟩

theorem transformNode_comments (cs cs' : List Comment) {rt : RuleType} (h : rt ≠ .GherkinDocument)
    (xs : List (Key × Val)) : transformNode cs ⟨rt, xs⟩ = transformNode cs' ⟨rt, xs⟩ := by
  cases rt <;> first | rfl | exact absurd rfl h

/-- `end_rule` of an open node above the node of the start rule -/
theorem BRel.endRule {k : Nat} {xo : Option Comment} {β1 β2 : BState} (h : BRel f k xo β1 β2)
    (hlen : 3 ≤ β1.stack.length) (n : Nat) :
    (β2.endRule n).1 = (β1.endRule n).1.mapError (mapBErr f) ∧ BRel f k xo (β1.endRule n).2.1 (β2.endRule n).2.1 ∧
    (β2.endRule n).2.2 = (β1.endRule n).2.2 ∧ (∀ e, (β1.endRule n).1 = .error e → BErrOk e) := by
  obtain ⟨s1, c1⟩ := β1
  obtain ⟨s2, c2⟩ := β2
  obtain ⟨⟨u1, u2, dn1, dn2, e1, e2, hu, hrt, hdn, hnd, hnd'⟩, hc⟩ := h
  simp only at e1 e2 hc hlen
  subst e1 e2
  cases hu with
  | nil => simp at hlen
  | cons hab ht =>
    rename_i a b as bs
    obtain ⟨rt, xs⟩ := a
    obtain ⟨rt', ys⟩ := b
    obtain ⟨hrt', hxy⟩ := hab
    simp only at hrt' hxy
    subst hrt'
    have hne : rt ≠ .GherkinDocument := hrt ⟨rt, xs⟩ List.mem_cons_self
    have hrest : StackRel f (as ++ [dn1, root0]) (bs ++ [dn2, root0]) :=
      ⟨as, bs, dn1, dn2, rfl, rfl, ht, fun n hn => hrt n (List.mem_cons_of_mem _ hn), hdn,
        fun n hn => hnd n (List.mem_cons_of_mem _ hn), hnd'⟩
    simp only [BState.endRule, List.cons_append]
    rw [transformNode_comments c2 (c1.map (mapComment f)) hne]
    rcases transformNode_map c1 rt hxy n with ⟨v, w, n', r1, r2, hvw⟩ | ⟨e, n', r1, r2, hok⟩
    · rw [r1, r2]
      simp only []
      obtain ⟨s1', s2', q1, q2, hs⟩ := hrest.push (key := .rule rt) (by intro h; cases h; exact hne rfl) hvw
      rw [q1, q2]
      exact ⟨rfl, ⟨hs, hc⟩, rfl, fun e he => nomatch he⟩
    · rw [r1, r2]
      exact ⟨rfl, ⟨hrest, hc⟩, rfl, fun e' he => by cases he; exact hok⟩

/-- what `get_result` yields while the node of the start rule is open: nothing -/
theorem BRel.result_none {k : Nat} {xo : Option Comment} {β1 β2 : BState} (h : BRel f k xo β1 β2) :
    β1.result = .ok none ∧ β2.result = .ok none := by
  obtain ⟨⟨u1, u2, dn1, dn2, e1, e2, hu, hrt, hdn, hnd, hnd'⟩, hc⟩ := h
  unfold BState.result
  rw [e1, e2]
  have key : ∀ a b : Node, NodeMap f a b → noDocItem a →
      getSingle a.items (.rule .GherkinDocument) = .none ∧ getSingle b.items (.rule .GherkinDocument) = .none := by
    intro a b hab hno
    have h2 := getItems_map hab.2 (.rule .GherkinDocument) rfl
    unfold noDocItem at hno
    unfold getSingle
    rw [hno] at h2 ⊢
    have : getItems b.items (.rule .GherkinDocument) = [] := by
      revert h2
      generalize getItems b.items (.rule .GherkinDocument) = l
      intro h2; cases h2; rfl
    rw [this]
    exact ⟨rfl, rfl⟩
  cases hu with
  | nil =>
    obtain ⟨k1, k2⟩ := key dn1 dn2 hdn hnd'
    simp only [List.nil_append, k1, k2, and_self]
  | cons hab ht =>
    rename_i a b as bs
    obtain ⟨k1, k2⟩ := key a b hab (hnd a List.mem_cons_self)
    simp only [List.cons_append, k1, k2, and_self]

/-- the final `end_rule`, of the node of the start rule, and `get_result`: both runs yield no
    document, or documents with corresponding features and comment lists -/
theorem BRel.endRule_last {k : Nat} {xo : Option Comment} {β1 β2 : BState} (h : BRel f k xo β1 β2)
    (hlen : β1.stack.length = 2) (n : Nat) :
    (β2.endRule n).1 = (β1.endRule n).1.mapError (mapBErr f) ∧
    (β2.endRule n).2.2 = (β1.endRule n).2.2 ∧ (∀ e, (β1.endRule n).1 = .error e → BErrOk e) ∧
    (((β1.endRule n).2.1.result = .ok none ∧ (β2.endRule n).2.1.result = .ok none) ∨
      ∃ d1 d2, (β1.endRule n).2.1.result = .ok (some d1) ∧ (β2.endRule n).2.1.result = .ok (some d2) ∧
        d2.feature = d1.feature.map (mapFeature f) ∧ CommRel f k xo d1.comments d2.comments) := by
  obtain ⟨s1, c1⟩ := β1
  obtain ⟨s2, c2⟩ := β2
  obtain ⟨⟨u1, u2, dn1, dn2, e1, e2, hu, hrt, hdn, hnd, hnd'⟩, hc⟩ := h
  simp only at e1 e2 hc hlen
  subst e1 e2
  cases hu with
  | cons hab ht => simp at hlen
  | nil =>
    obtain ⟨rt, xs⟩ := dn1
    obtain ⟨rt', ys⟩ := dn2
    obtain ⟨hrt', hxy⟩ := hdn
    simp only at hrt' hxy
    subst hrt'
    simp only [BState.endRule, List.nil_append]
    by_cases hd : rt = .GherkinDocument
    · subst hd
      have hfeat := getSingle_map hxy (.rule .Feature) rfl
      have t1 : ∀ (cs : List Comment) (zs : List (Key × Val)), (transformNode cs ⟨.GherkinDocument, zs⟩).run.run n =
          (.ok (.doc { feature := (match getSingle zs (.rule .Feature) with | .feature x => some x | _ => none),
                       comments := cs }), n) := fun _ _ => rfl
      rw [t1, t1]
      refine ⟨rfl, rfl, ?_, ?_⟩
      · intro e he; cases he
      right
      refine ⟨_, _, rfl, rfl, ?_, hc⟩
      simp only []
      revert hfeat
      generalize getSingle xs (.rule .Feature) = v
      generalize getSingle ys (.rule .Feature) = w
      intro hvw
      cases hvw <;> rfl
    · rw [transformNode_comments c2 (c1.map (mapComment f)) hd]
      have hkey : (Key.rule rt == Key.rule RuleType.GherkinDocument) = false := by
        simpa using hd
      rcases transformNode_map c1 rt hxy n with ⟨v, w, n', r1, r2, hvw⟩ | ⟨e, n', r1, r2, hok⟩
      · rw [r1, r2]
        refine ⟨rfl, rfl, ?_, ?_⟩
        · intro e he; cases he
        left
        simp only [addToTop, root0, List.nil_append, BState.result, getSingle, getItems, List.filter_cons, hkey,
          Bool.false_eq_true, ↓reduceIte, List.filter_nil, List.map_nil, and_self]
      · rw [r1, r2]
        refine ⟨rfl, rfl, fun e' he => ?_, ?_⟩
        · cases he; exact hok
        · left
          simp only [root0, BState.result, getSingle, getItems, List.filter_nil, List.map_nil, and_self]

/-- what the two final results have in common -/
def ResRel (f : LocMap) (k : Nat) (xo : Option Comment) (r1 r2 : Except BErr (Option Doc)) : Prop :=
  (r1 = .ok none ∧ r2 = .ok none) ∨
  ∃ d1 d2, r1 = .ok (some d1) ∧ r2 = .ok (some d2) ∧ d2.feature = d1.feature.map (mapFeature f) ∧
    CommRel f k xo d1.comments d2.comments

/-- the final `end_rule` followed by `get_result`, whatever node is on top -/
theorem BRel.endRule_result {k : Nat} {xo : Option Comment} {β1 β2 : BState} (h : BRel f k xo β1 β2) (n : Nat) :
    (β2.endRule n).1 = (β1.endRule n).1.mapError (mapBErr f) ∧
    (β2.endRule n).2.2 = (β1.endRule n).2.2 ∧ (∀ e, (β1.endRule n).1 = .error e → BErrOk e) ∧
    ResRel f k xo (β1.endRule n).2.1.result (β2.endRule n).2.1.result := by
  by_cases hlen : β1.stack.length = 2
  · exact h.endRule_last hlen n
  · have h3 : 3 ≤ β1.stack.length := by
      obtain ⟨⟨u1, u2, dn1, dn2, e1, -⟩, -⟩ := h
      rw [e1] at hlen ⊢
      simp only [List.length_append, List.length_cons, List.length_nil] at hlen ⊢
      omega
    obtain ⟨q1, q2, q3, q4⟩ := h.endRule h3 n
    exact ⟨q1, q3, q4, .inl q2.result_none⟩

end Layout4
end GV
