/-
  Lemmas/C02Tree.lean — the typed-stack check of property C02 on the regenerated table and
  grammar.  `typedCheck` (Lemmas/TypedStack.lean) computes the typing of the 42 states by
  exploration from the start state and verifies it; the kernel evaluates it (`decide +kernel`).
  `attachCheck` is the fact about the grammar's right-hand sides behind `C02_tags_attach_forward`.
  Nothing here is specific to today's table: the typing is computed, then checked.
-/
import GherkinVerif.Lemmas.TypedStack
import GherkinVerif.Gen.ParserTable
import GherkinVerif.Gen.Grammar
import GherkinVerif.KDecide
namespace GV.Lemmas

open GV.Spec

/-- the kernel-evaluated certificate -/
theorem typedCheck_gen : typedCheck Gen.grammar Gen.parserTable 100000 = true := by
  kdecide

theorem startRule_gen : Gen.parserTable.startRule = .GherkinDocument := by kdecide

theorem events_valid_tree (ks : List Kind) (h : Kind.EOF ∉ ks) (evs : List Ev)
    (he : eventsAbs Gen.parserTable ks = some evs) :
    ∃ t, treeOf evs = some t ∧ ValidTree Gen.grammar .GherkinDocument t ∧
      ReadsAs (ks ++ [.EOF]) t.leaves := by
  have := events_valid_tree_gen typedCheck_gen ks h evs he
  rwa [startRule_gen] at this

/-- in the grammar's right-hand sides (rules without `!` inlined), `Tags` is preceded by at most
    the `# language` line, is never last, and is followed by what `Spec.tagsAttach` says -/
theorem attachCheck_gen : attachCheck Gen.grammar .Tags tagsAttach [.Language] = true := by
  kdecide

theorem tags_attach_forward {t : Tree} (hv : ValidTree Gen.grammar .GherkinDocument t) :
    TagsAttachForward Gen.grammar t := by
  intro r cs hsub pre ts post hcs
  obtain ⟨hpre, hpost⟩ := attach_tree attachCheck_gen hv r cs hsub pre ts post hcs
  refine ⟨?_, hpost⟩
  intro c hc
  obtain ⟨k, hk, h⟩ := hpre c hc
  exact ⟨k, hk, h.imp (by simp) id⟩

end GV.Lemmas
