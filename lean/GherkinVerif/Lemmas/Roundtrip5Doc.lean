/-
  Lemmas/Roundtrip5Doc.lean — round trip, fifth model: entering a rule (from a feature-level or a
  rule-level state), the rule block, the rules loop, the end of file, the document.
-/
import GherkinVerif.Lemmas.Roundtrip5Builder
set_option linter.unusedSectionVars false
set_option linter.unusedSimpArgs false
set_option linter.unusedVariables false
namespace GV
namespace Lemmas
open Spec

def ruleItems (Rs : List Rule) : List (Key × Val) := Rs.map fun r => (Key.rule .Rule, Val.rule r)

theorem ruleItems_snoc (Rs : List Rule) (r : Rule) :
    ruleItems Rs ++ [(Key.rule .Rule, Val.rule r)] = ruleItems (Rs ++ [r]) := by simp [ruleItems]


def mkFeat5 (n m i : Nat) (tags : List Str) (lang kwd nm : Str) (bg : Option Background) (S : List Scenario)
    (Rs : List Rule) : Feature :=
  { tags := expTags n i tags, loc := ⟨m, some 1⟩, language := lang, keyword := kwd, name := nm, description := [], children := bgChild bg ++ S.map FeatureChild.scenario ++ Rs.map FeatureChild.rule }

theorem getItems_ruleItems_ne (Rs : List Rule) (k : Key) (hk : (Key.rule .Rule == k) = false) :
    getItems (ruleItems Rs) k = [] := getItems_map_ne k _ _ Rs hk

theorem getItems_feat5 (hd : Key × Val) (bg : Option Background) (S : List Scenario) (Rs : List Rule) (k : Key) :
    getItems (hd :: (bgItems bg ++ scItems S ++ ruleItems Rs)) k =
      getItems [hd] k ++ getItems (bgItems bg) k ++ getItems (scItems S) k ++ getItems (ruleItems Rs) k := by
  have := getItems_append [hd] (bgItems bg ++ scItems S ++ ruleItems Rs) k
  simp only [List.singleton_append] at this
  rw [this, getItems_append, getItems_append]
  simp [List.append_assoc]

/-- the value of the finished `Feature` node, with or without a background -/
theorem transform_feature5 (cm : List Comment) (μ : MState) (n m : Nat) (tags : List Str) (lang kwd nm : Str)
    (tk : Token) (hk : tk.keyword = some kwd) (ht : tk.text = some nm) (hloc : tk.loc = ⟨m, some 1⟩)
    (hd : tk.dialect = lang) (bg : Option Background) (S : List Scenario) (Rs : List Rule) (i : Nat) :
    (transformNode cm ⟨.Feature, (.rule .FeatureHeader, .raw .FeatureHeader
        (tagsItem μ n tags ++ [(.tok .FeatureLine, .tok tk)])) :: (bgItems bg ++ scItems S ++ ruleItems Rs)⟩).run.run i =
      (.ok (Val.feature (mkFeat5 n m i tags lang kwd nm bg S Rs)), i + tags.length) := by
  have hsingle : getSingle ((Key.rule .FeatureHeader, Val.raw .FeatureHeader
        (tagsItem μ n tags ++ [(.tok .FeatureLine, .tok tk)])) :: (bgItems bg ++ scItems S ++ ruleItems Rs)) (.rule .FeatureHeader) =
      Val.raw .FeatureHeader (tagsItem μ n tags ++ [(.tok .FeatureLine, .tok tk)]) := by
    simp [getSingle, getItems]
  have htags := getTags_tagsItem μ n i tags [(Key.tok .FeatureLine, Val.tok tk)] rfl
  have hline : getSingle (tagsItem μ n tags ++ [(Key.tok .FeatureLine, Val.tok tk)]) (.tok .FeatureLine) = .tok tk := by
    simp only [getSingle, getItems_append, getItems_tagsItem μ n tags (.tok .FeatureLine) (by decide)]
    rfl
  have hdesc : (getDescription (tagsItem μ n tags ++ [(Key.tok .FeatureLine, Val.tok tk)])).run.run
      (i + tags.length) = (.ok [], i + tags.length) := by
    apply run_getDescription_some
    unfold descOf
    rw [getItems_append, getItems_tagsItem μ n tags _ (by decide)]
    rfl
  have hrules : getItems ((Key.rule .FeatureHeader, Val.raw .FeatureHeader
        (tagsItem μ n tags ++ [(.tok .FeatureLine, .tok tk)])) :: (bgItems bg ++ scItems S ++ ruleItems Rs)) (.rule .Rule) =
      Rs.map Val.rule := by
    rw [getItems_feat5, getItems_bgItems bg _ (by decide), getItems_scItems_ne S _ (by decide), ruleItems,
      getItems_map_eq]
    simp [getItems]
  have hfm : ∀ f : Val → Option Rule, (∀ r, f (Val.rule r) = some r) → List.filterMap f (Rs.map Val.rule) = Rs := by
    intro f hf
    clear hrules hsingle
    induction Rs with
    | nil => rfl
    | cons a Rs ih => simp [hf, ih]
  have hbg : getBackground ((Key.rule .FeatureHeader, Val.raw .FeatureHeader
        (tagsItem μ n tags ++ [(.tok .FeatureLine, .tok tk)])) :: (bgItems bg ++ scItems S ++ ruleItems Rs)) = bg := by
    unfold getBackground getSingle
    rw [getItems_feat5, getItems_scItems_ne S _ (by decide), getItems_ruleItems_ne Rs _ (by decide)]
    cases bg <;> rfl
  have hsc : getScenarios ((Key.rule .FeatureHeader, Val.raw .FeatureHeader
        (tagsItem μ n tags ++ [(.tok .FeatureLine, .tok tk)])) :: (bgItems bg ++ scItems S ++ ruleItems Rs)) = S := by
    unfold getScenarios
    have hitems : getItems ((Key.rule .FeatureHeader, Val.raw .FeatureHeader
        (tagsItem μ n tags ++ [(.tok .FeatureLine, .tok tk)])) :: (bgItems bg ++ scItems S ++ ruleItems Rs))
        (.rule .ScenarioDefinition) = S.map Val.scenario := by
      rw [getItems_feat5, getItems_bgItems bg _ (by decide), getItems_ruleItems_ne Rs _ (by decide), scItems, getItems_map_eq]
      simp [getItems]
    rw [hitems]
    clear hitems hbg hfm hrules hdesc hline htags hsingle
    induction S with
    | nil => rfl
    | cons a S ih => simpa using ih
  simp only [transformNode, run_bind, htags, hsingle, hline, hdesc, hrules, hbg, hsc, List.filterMap_nil,
    hk, ht, run_need_some, run_pure, getLocation, hloc, hd, mkFeat5, bgChild]
  rw [hfm]
  · cases bg <;> rfl
  · intro r; rfl

theorem endRule_feature5 (cm : List Comment) (μ : MState) (n m : Nat) (tags : List Str) (kwd nm : Str)
    (bg : Option Background) (S : List Scenario) (Rs : List Rule) (rt : RuleType) (items : List (Key × Val)) (rest : List Node) (i : Nat) :
    (⟨⟨.Feature, (.rule .FeatureHeader, .raw .FeatureHeader
        (tagsItem μ n tags ++ [(.tok .FeatureLine, .tok (titleTok μ m .FeatureLine kwd nm))])) ::
          (bgItems bg ++ scItems S ++ ruleItems Rs)⟩ :: ⟨rt, items⟩ :: rest, cm⟩ : BState).endRule i =
      (.ok (), ⟨⟨rt, items ++ [(.rule .Feature, Val.feature (mkFeat5 n m i tags μ.name kwd nm bg S Rs))]⟩ :: rest, cm⟩,
        i + tags.length) := by
  have h := transform_feature5 cm μ n m tags μ.name kwd nm (titleTok μ m .FeatureLine kwd nm) rfl rfl rfl rfl bg S Rs i
  simp only [BState.endRule, h]
  rfl

/-- a row whose `ScenarioLine` branch is `cl ++ [start ScenarioDefinition, start Scenario, build] → 10`
    (a feature-level state a scenario can follow) enters a rule with the same `cl` -/
def entryRowOK (row : StateRow) : Bool :=
  match firstOf .ScenarioLine row.branches with
  | some b =>
    if b.target == 10 && b.prods.drop (b.prods.length - 3) == [.start .ScenarioDefinition, .start .Scenario, .build] then
      firstOf .RuleLine row.branches ==
        some ⟨.RuleLine, none, b.prods.take (b.prods.length - 3) ++ [.start .Rule, .start .RuleHeader, .build], 19⟩ &&
      firstTagU row.branches ==
        some ⟨.TagLine, none, b.prods.take (b.prods.length - 3) ++ [.start .Rule, .start .RuleHeader, .start .Tags, .build], 18⟩
    else true
  | none => true

/-- table-wide entry facts, and the rule line after a rule's tag line -/
def rt5EntryAll (T : Table) : Bool :=
  T.rows.all entryRowOK && tblRow T 18 .RuleLine ⟨.RuleLine, none, [.end_ .Tags, .build], 19⟩

/-- from state `s` a rule or the end of file may follow; `clr` closes everything down to the feature node -/
def REntryRow (T : Table) (s : Nat) (clr : List Prod) : Prop :=
  ∃ row, T.row? s = some row ∧
    firstOf .RuleLine row.branches = some ⟨.RuleLine, none, clr ++ [.start .Rule, .start .RuleHeader, .build], 19⟩ ∧
    firstTagU row.branches =
      some ⟨.TagLine, none, clr ++ [.start .Rule, .start .RuleHeader, .start .Tags, .build], 18⟩ ∧
    row.branches.head? = some ⟨.EOF, none, clr ++ [.end_ .Feature, .build], 34⟩

def REntry (T : Table) (s : Nat) (β : BState) (i : Nat) (ff : List (Key × Val)) (i0 : Nat) : Prop :=
  ∃ clr, REntryRow T s clr ∧ ∀ t, applyOps (prodOps t clr) β i = (.ok (), featStack ff, i0)

theorem REntry.ofG {T : Table} (hT : T.rows.all entryRowOK = true) {s : Nat} {β : BState} {i : Nat}
    {fi : List (Key × Val)} {i0 : Nat} (h : ClosesG T s β i fi i0) : REntry T s β i fi i0 := by
  obtain ⟨cl, ⟨row, hrow, hfs, -, hhead⟩, hops⟩ := h
  have hmem : row ∈ T.rows := List.mem_of_find?_eq_some hrow
  have := (List.all_eq_true.1 hT) row hmem
  have e1 : (cl ++ [Prod.start .ScenarioDefinition, .start .Scenario, .build]).length - 3 = cl.length := by simp
  simp only [entryRowOK, hfs, e1, List.take_left', List.drop_left', beq_self_eq_true, Bool.and_self, if_true,
    Bool.and_eq_true, beq_iff_eq] at this
  exact ⟨cl, ⟨row, hrow, this.1, this.2, hhead⟩, hops⟩

/-- the header item of a rule node -/
def hdrR (μ : MState) (nt m : Nat) (tags : List Str) (kw nm : Str) : Key × Val :=
  (.rule .RuleHeader, .raw .RuleHeader (tagsItem μ nt tags ++ [(.tok .RuleLine, .tok (titleTok μ m .RuleLine kw nm))]))

theorem REntry.ofR {T : Table} {ff : List (Key × Val)} {μ : MState} {s : Nat} {β : BState} {i : Nat} (nt m : Nat)
    (tags : List Str) (kw nm : Str) (bg : Option Background) (S : List Scenario) {i0 : Nat}
    (h : RClosesG ff T s β i (hdrR μ nt m tags kw nm :: (bgItems bg ++ scItems S)) i0) :
    REntry T s β i (ff ++ [(.rule .Rule, Val.rule (mkRule nt m i0 tags kw nm bg S))]) (i0 + tags.length + 1) := by
  obtain ⟨cl, ⟨row, hrow, -, -, hhead, hrl, htu⟩, hops⟩ := h
  refine ⟨cl ++ [.end_ .Rule], ⟨row, hrow, ?_, ?_, ?_⟩, fun t => ?_⟩
  · simpa [List.append_assoc] using hrl
  · simpa [List.append_assoc] using htu
  · simpa [List.append_assoc] using hhead
  · rw [prodOps_append, applyOps_append_ok _ _ _ _ _ _ (hops t)]
    simp only [prodOps, applyOps, applyOp, rfeatStack, hdrR, endRule_rule]
    rfl

section doc5
variable {D' : List Dialect} (hf : keywordFacts D' = true) (hr : renderFacts D' = true)
variable (D : List Dialect) (stop : Bool) (T : Table) (RR : RtR T)
  (h18 : tblRow T 18 .RuleLine ⟨.RuleLine, none, [.end_ .Tags, .build], 19⟩ = true)
variable {μ : MState} (hμ : μ.dialect ∈ D') (hsep : μ.activeSep = none)
include hf hr RR h18 hμ hsep

/-- the tag line (if any) and keyword line of a rule, from any state a rule may follow: to state 19 -/
theorem rule_head (tags : List Str) (kw nm : Str) (htags : ∀ t ∈ tags, tagOK t = true)
    (hk : kw ∈ μ.dialect.roleKeywords .RuleLine) (hn : cleanText nm = true) (tail : List Str)
    (s : Nat) (β : BState) (i : Nat) (ff : List (Key × Val)) (i0 n fuel : Nat) (c : Ctx)
    (hcl : REntry T s β i ff i0)
    (h : At c ((tagLineOf tags ++ [titleLineOf kw nm]).map (· ++ [10]) ++ tail) n μ β i) :
    ∃ c1 β1, At c1 tail (n + tagLines tags + 1) μ β1 i0 ∧
      (∀ t, applyOps (prodOps t [.end_ .RuleHeader]) β1 i0 =
        (.ok (), rfeatStack ff [hdrR μ (n + 1) (n + tagLines tags + 1) tags kw nm], i0)) ∧
      run (parseLinesPure D T stop (fuel + (tagLines tags + 1)) s) c = run (parseLinesPure D T stop fuel 19) c1 := by
  have RTf := RR.f0
  obtain ⟨cl, ⟨row, hrow, hfr, hftu, -⟩, hcl2⟩ := hcl
  obtain ⟨row18, hrow18, hf18⟩ := tblRow_spec h18
  have hrno : ∀ (t : Token), t.line = some (titleLineOf kw nm ++ [10]) → ∀ K', K' ≠ .RuleLine → K' ≠ .Other →
      matchLine D K' μ t (titleLineOf kw nm ++ [10]) = ⟨t, μ, .no⟩ := fun t ht K' h1 h2 =>
    title_others_no hf hr D T RTf hμ hsep .RuleLine rfl kw nm hk hn t ht K' h1 h2
  have hryes : ∀ (t : Token) (k : Nat), t.line = some (titleLineOf kw nm ++ [10]) → t.lineNo = k →
      matchLine D .RuleLine μ t (titleLineOf kw nm ++ [10]) = ⟨titleTok μ k .RuleLine kw nm, μ, .matched⟩ :=
    fun t k ht hk2 => title_match hf hr D μ hμ .RuleLine rfl kw nm hk hn t k ht hk2
  by_cases ht : tags = []
  · subst ht
    simp only [tagLineOf, List.isEmpty_nil, if_true, List.nil_append, List.map_cons, List.map_nil,
      List.cons_append] at h
    obtain ⟨c1, h1, hrun1⟩ := lines_step D stop T fuel s 19 _ h
      ⟨⟨.RuleHeader, [(.tok .RuleLine, .tok (titleTok μ (n + 1) .RuleLine kw nm))]⟩ :: ⟨.Rule, []⟩ ::
        ⟨.Feature, ff⟩ :: G0, []⟩ i0
      (by
        intro c1 h1
        simp only [matchTokenPure, hrow]
        exact try_first D stop T row _ (titleTok μ (n + 1) .RuleLine kw nm) _ rfl .RuleLine _ hfr rfl h1
          (hrno _ rfl) (hryes _ _ rfl rfl) _ _
          (by
            simp only [prodOps_append]
            rw [applyOps_append_ok _ _ _ _ _ _ (hcl2 _)]
            rfl))
    refine ⟨c1, _, by simpa [tagLines] using h1, fun t => ?_, by simpa [tagLines] using hrun1⟩
    simp only [prodOps, applyOps, applyOp, endRule_raw_ruleheader]
    simp [rfeatStack, hdrR, tagsItem, tagLines]
  · have hemp : tags.isEmpty = false := by cases tags <;> simp_all
    have htl : tagLines tags = 1 := by simp [tagLines, hemp]
    simp only [tagLineOf, hemp, Bool.false_eq_true, if_false, List.singleton_append,
      List.map_cons, List.map_nil, List.cons_append, List.nil_append] at h
    obtain ⟨c1, h1, hrun1⟩ := lines_step D stop T (fuel + 1) s 18 _ h
      ⟨⟨.Tags, [(.tok .TagLine, .tok (tagTok μ (n + 1) tags))]⟩ :: ⟨.RuleHeader, []⟩ :: ⟨.Rule, []⟩ ::
        ⟨.Feature, ff⟩ :: G0, []⟩ i0
      (by
        intro c1 h1
        simp only [matchTokenPure, hrow]
        exact try_tagU D stop (titleLineOf kw nm ++ [10]) (hrno _ rfl) T row RTf.la _ (tagTok μ (n + 1) tags) rfl
          (n + 1) rfl
          (fun t K' h1' h2' => tagline_others_no hf hr D μ hμ tags ht htags hsep t K' h1' h2')
          (fun t ht' hn' => tag_match D μ tags ht htags t (n + 1) ht' hn') _ _ _ _ hftu
          (by
            simp only [prodOps_append]
            rw [applyOps_append_ok _ _ _ _ _ _ (hcl2 _)]
            rfl) _ c1 rfl rfl h1)
    obtain ⟨c2, h2, hrun2⟩ := lines_step D stop T fuel 18 19 _ h1
      ⟨⟨.RuleHeader, [(.rule .Tags, .raw .Tags [(.tok .TagLine, .tok (tagTok μ (n + 1) tags))]),
          (.tok .RuleLine, .tok (titleTok μ (n + 1 + 1) .RuleLine kw nm))]⟩ :: ⟨.Rule, []⟩ ::
        ⟨.Feature, ff⟩ :: G0, []⟩ i0
      (by
        intro c2 h2
        simp only [matchTokenPure, hrow18]
        exact try_first D stop T row18 _ (titleTok μ (n + 1 + 1) .RuleLine kw nm) _ rfl .RuleLine _ hf18 rfl h2
          (hrno _ rfl) (hryes _ _ rfl rfl) _ _
          (by simp only [prodOps, applyOps, applyOp, endRule_raw .Tags (.inr (.inl rfl))]; rfl))
    refine ⟨c2, _, by rw [htl]; exact h2, fun t => ?_, by rw [htl, hrun1, hrun2]⟩
    simp only [prodOps, applyOps, applyOp, endRule_raw_ruleheader]
    simp [rfeatStack, hdrR, tagsItem, hemp, htl]

/-- **the rule block**: tag line, rule line, optional background, scenarios -/
theorem rule_block (r : MRule) (hok : ruleOK μ.dialect r = true)
    (s : Nat) (β : BState) (i : Nat) (ff : List (Key × Val)) (i0 n fuel : Nat) (rest : List Str) (c : Ctx)
    (hcl : REntry T s β i ff i0)
    (h : At c ((ruleLines r).map (· ++ [10]) ++ rest) n μ β i) :
    ∃ s' β' i' c',
      REntry T s' β' i' (ff ++ [(.rule .Rule, Val.rule (expRule μ.dialect (n + 1) i0 r))]) (i0 + ruleIdCount r) ∧
      At c' rest (n + ruleLineCount r) μ β' i' ∧
      run (parseLinesPure D T stop (fuel + ruleLineCount r) s) c = run (parseLinesPure D T stop fuel s') c' := by
  obtain ⟨tags, kw, nm, bg, scs⟩ := r
  simp only [ruleOK, Bool.and_eq_true, List.all_eq_true, List.contains_eq_mem, decide_eq_true_eq] at hok
  obtain ⟨⟨⟨⟨htags, hk⟩, hn⟩, hbg⟩, hscs⟩ := hok
  have h' : At c ((tagLineOf tags ++ [titleLineOf kw nm]).map (· ++ [10]) ++
      ((bgLinesOf bg).map (· ++ [10]) ++ ((scs.flatMap scenarioLines4).map (· ++ [10]) ++ rest))) n μ β i := by
    simpa [ruleLines, List.map_append, List.append_assoc] using h
  obtain ⟨c1, β1, h1, hcl1, hrun1⟩ := rule_head hf hr D stop T RR h18 hμ hsep tags kw nm htags hk hn _ s β i ff i0 n
    (fuel + (scs.map scLines4).sum + bgLineCount bg) c hcl h'
  let bgA : Option Background := bg.map (expBackground μ.dialect (n + tagLines tags + 1 + 1) i0)
  have hb : ∃ s2 β2 i2 c2, RClosesG ff T s2 β2 i2
        (hdrR μ (n + 1) (n + tagLines tags + 1) tags kw nm :: (bgItems bgA ++ scItems [])) (i0 + bgIdCount bg) ∧
      At c2 ((scs.flatMap scenarioLines4).map (· ++ [10]) ++ rest) (n + tagLines tags + 1 + bgLineCount bg) μ β2 i2 ∧
      run (parseLinesPure D T stop (fuel + (scs.map scLines4).sum + bgLineCount bg) 19) c1 =
        run (parseLinesPure D T stop (fuel + (scs.map scLines4).sum) s2) c2 := by
    cases bg with
    | none =>
      refine ⟨19, β1, i0, c1, ⟨[.end_ .RuleHeader], MidGR.of_bool RR.hmid, hcl1⟩, ?_, rfl⟩
      simpa [bgLinesOf, bgLineCount] using h1
    | some b =>
      obtain ⟨s', β', i', c', hcl', hc', hrun'⟩ := Rbackground_block hf hr D stop T RR hμ hsep b hbg
        β1 i0 _ (n + tagLines tags + 1) (fuel + (scs.map scLines4).sum) _ c1 hcl1 h1
      exact ⟨s', β', i', c', hcl', by simpa [bgLineCount] using hc', hrun'⟩
  obtain ⟨s2, β2, i2, c2, hcl2, h2, hrun2⟩ := hb
  obtain ⟨s3, β3, i3, c3, hcl3, h3, hrun3⟩ := Rscenarios_loop4 hf hr D stop T RR hμ hsep
    (hdrR μ (n + 1) (n + tagLines tags + 1) tags kw nm :: bgItems bgA) fuel rest scs hscs s2 β2 i2 []
    (i0 + bgIdCount bg) (n + tagLines tags + 1 + bgLineCount bg) c2 hcl2 h2
  rw [List.nil_append] at hcl3
  have hent := REntry.ofR (n + 1) (n + tagLines tags + 1) tags kw nm bgA _ hcl3
  refine ⟨s3, β3, i3, c3, ?_, ?_, ?_⟩
  · have e1 : mkRule (n + 1) (n + tagLines tags + 1) (i0 + bgIdCount bg + idsOfScenarios4 scs) tags kw nm bgA
        (expScenarios4 μ.dialect (n + tagLines tags + 1 + bgLineCount bg + 1) (i0 + bgIdCount bg) scs) =
        expRule μ.dialect (n + 1) i0 ⟨tags, kw, nm, bg, scs⟩ := by
      have ea : n + 1 + tagLines tags = n + tagLines tags + 1 := by omega
      have eb : ∀ k, n + tagLines tags + 1 + 1 + k = n + tagLines tags + 1 + k + 1 := by intro k; omega
      cases bg <;> simp [mkRule, expRule, bgA, bgRuleChild, expBgRuleChild, ea, eb]
    have e2 : i0 + bgIdCount bg + idsOfScenarios4 scs + tags.length + 1 = i0 + ruleIdCount ⟨tags, kw, nm, bg, scs⟩ := by
      simp [ruleIdCount]; omega
    rw [e1, e2] at hent
    exact hent
  · have e : n + tagLines tags + 1 + bgLineCount bg + (scs.map scLines4).sum =
        n + ruleLineCount ⟨tags, kw, nm, bg, scs⟩ := by simp [ruleLineCount]; omega
    rwa [e] at h3
  · have e : fuel + ruleLineCount ⟨tags, kw, nm, bg, scs⟩ =
        fuel + (scs.map scLines4).sum + bgLineCount bg + (tagLines tags + 1) := by simp [ruleLineCount]; omega
    rw [e, hrun1, hrun2, hrun3]

/-- the rules of a feature -/
theorem rules_loop (pre : List (Key × Val)) (fuel : Nat) (rest : List Str) :
    ∀ (rs : List MRule) (hok : ∀ r ∈ rs, ruleOK μ.dialect r = true)
      (s : Nat) (β : BState) (i : Nat) (Rs : List Rule) (i0 n : Nat) (c : Ctx)
      (hcl : REntry T s β i (pre ++ ruleItems Rs) i0)
      (h : At c ((rs.flatMap ruleLines).map (· ++ [10]) ++ rest) n μ β i),
    ∃ s' β' i' c',
      REntry T s' β' i' (pre ++ ruleItems (Rs ++ expRules μ.dialect (n + 1) i0 rs)) (i0 + idsOfRules rs) ∧
      At c' rest (n + (rs.map ruleLineCount).sum) μ β' i' ∧
      run (parseLinesPure D T stop (fuel + (rs.map ruleLineCount).sum) s) c = run (parseLinesPure D T stop fuel s') c' := by
  intro rs
  induction rs with
  | nil =>
    intro _ s β i Rs i0 n c hcl h
    exact ⟨s, β, i, c, by simpa [expRules, idsOfRules] using hcl, by simpa using h, rfl⟩
  | cons r rs ih =>
    intro hok s β i Rs i0 n c hcl h
    simp only [List.flatMap_cons, List.map_append, List.append_assoc] at h
    obtain ⟨s1, β1, i1, c1, hcl1, h1, hrun1⟩ := rule_block hf hr D stop T RR h18 hμ hsep r (hok r (by simp))
      s β i _ i0 n (fuel + (rs.map ruleLineCount).sum) _ c hcl h
    rw [List.append_assoc, ruleItems_snoc] at hcl1
    obtain ⟨s', β', i', c', hcl', hc', hrun'⟩ := ih (fun x hx => hok x (by simp [hx])) s1 β1 i1 _ _ _ c1 hcl1 h1
    refine ⟨s', β', i', c', ?_, ?_, ?_⟩
    · have e1 : Rs ++ [expRule μ.dialect (n + 1) i0 r] ++
            expRules μ.dialect (n + ruleLineCount r + 1) (i0 + ruleIdCount r) rs =
          Rs ++ expRules μ.dialect (n + 1) i0 (r :: rs) := by
        simp [expRules, Nat.add_right_comm]
      have e2 : i0 + ruleIdCount r + idsOfRules rs = i0 + idsOfRules (r :: rs) := by
        simp [idsOfRules]; omega
      rw [e1, e2] at hcl'
      exact hcl'
    · have e : n + ruleLineCount r + (rs.map ruleLineCount).sum = n + ((r :: rs).map ruleLineCount).sum := by
        simp; omega
      rwa [e] at hc'
    · have e : fuel + ((r :: rs).map ruleLineCount).sum = fuel + (rs.map ruleLineCount).sum + ruleLineCount r := by
        simp; omega
      rw [e, hrun1, hrun']

/-- the end of file after the feature's scenarios and rules -/
theorem finish5 (s : Nat) (β : BState) (i i0 n fuel : Nat) (tags : List Str) (kw name : Str)
    (bg : Option Background) (S : List Scenario) (Rs : List Rule)
    (hcl : REntry T s β i ((hdrItem μ tags kw name :: (bgItems bg ++ scItems S)) ++ ruleItems Rs) i0) (c : Ctx)
    (h : At c [] n μ β i) :
    ∃ c' te, run (parseLinesPure D T stop (fuel + 1) s) c = (.ok 34, c') ∧
      At c' [] (n + 1) μ (docStack (mkFeat5 1 (1 + tagLines tags) i0 tags μ.name kw name bg S Rs) te) (i0 + tags.length) := by
  obtain ⟨cl, ⟨row, hrow, -, -, hhead⟩, hcl2⟩ := hcl
  obtain ⟨rest, hbs⟩ : ∃ rest, row.branches = ⟨.EOF, none, cl ++ [.end_ .Feature, .build], 34⟩ :: rest := by
    cases hb : row.branches with
    | nil => rw [hb] at hhead; cases hhead
    | cons a r => rw [hb] at hhead; simp only [List.head?_cons, Option.some.injEq] at hhead; exact ⟨r, by rw [hhead]⟩
  obtain ⟨c', hrun, hc'⟩ := lines_eof D stop T fuel s 34 h _ _
    (by
      intro c1 h1
      simp only [matchTokenPure, hrow, hbs]
      exact try_eof D stop T row _ rfl _ rest rfl rfl h1 _ _
        (by
          simp only [prodOps_append]
          rw [applyOps_append_ok _ _ _ _ _ _ (hcl2 _)]
          simp only [prodOps, applyOps, applyOp, featStack, G0, hdrItem, List.cons_append, endRule_feature5]
          rfl))
  exact ⟨c', _, hrun, hc'⟩

end doc5

theorem ruleLines_length (r : MRule) : (ruleLines r).length = ruleLineCount r := by
  simp only [ruleLines, ruleLineCount, tagLineOf, tagLines, List.length_append, List.length_cons, bgLinesOf_length,
    flatMap_scenarioLines4_length]
  split <;> simp <;> omega

theorem flatMap_ruleLines_length (rs : List MRule) : (rs.flatMap ruleLines).length = (rs.map ruleLineCount).sum := by
  induction rs with
  | nil => rfl
  | cons r rs ih => simp [List.flatMap_cons, ruleLines_length, ih]

theorem ruleLines_noLF {D' : List Dialect} (hr : renderFacts D' = true) {d : Dialect} (hd : d ∈ D')
    (r : MRule) (hok : ruleOK d r = true) : ∀ b ∈ ruleLines r, ∀ x ∈ b, x ≠ 10 := by
  simp only [ruleOK, Bool.and_eq_true, List.all_eq_true, List.contains_eq_mem, decide_eq_true_eq] at hok
  obtain ⟨⟨⟨⟨htags, hk⟩, hn⟩, hbg⟩, hscs⟩ := hok
  intro b hb
  simp only [ruleLines, List.mem_append, List.mem_cons, List.mem_flatMap] at hb
  rcases hb with hb | rfl | hb | ⟨sc, hsc, hb⟩
  · exact tagLine_noLF r.tags htags b hb
  · exact title_noLF hr hd r.kw r.name (mem_allKeywords_title (mem_titleKeywords_of_role _ .RuleLine r.kw hk)) hn
  · exact bgLines_noLF hr hd r.background hbg b hb
  · exact scenarioLines4_noLF hr hd sc (hscs sc hsc) b hb

/-- **Round trip of the fifth model (rules), queue-free parse** -/
theorem roundtrip5_pure {D' : List Dialect} (hf : keywordFacts D' = true) (hr : renderFacts D' = true)
    (D : List Dialect) (T : Table) (RT4 : RtTable4 T) (RR : RtR T) (hall : rt5EntryAll T = true) (stop : Bool) (μ0 : MState) (hμ : (μ0.reset D).dialect ∈ D')
    (ids : Nat) (m : MFeature5) (hwf : WF5 (μ0.reset D).dialect m = true) :
    (parseWithPure D T stop μ0 ids (render5 m)).1 =
      .ok (expectedDoc5 (μ0.reset D).dialect (μ0.reset D).name m ids) ∧
    (parseWithPure D T stop μ0 ids (render5 m)).2.ids = idsAfter5 m ids := by
  have RT3 := RT4.base3
  have RT2 := RT3.base2
  have RTf := RT2.base
  obtain ⟨tags, kw, name, bg, scs, rls⟩ := m
  simp only [WF5, WF4, MFeature5.core, Bool.and_eq_true, List.all_eq_true, List.contains_eq_mem, decide_eq_true_eq] at hwf
  obtain ⟨⟨⟨⟨⟨htags, hk⟩, hn⟩, hbg⟩, hscs⟩, hrls⟩ := hwf
  have hka : kw ∈ (μ0.reset D).dialect.allKeywords :=
    mem_allKeywords_title (mem_titleKeywords_of_role _ .FeatureLine kw hk)
  have hsplit : splitLines (render5 ⟨tags, kw, name, bg, scs, rls⟩) =
      (tagLineOf tags ++ [titleLineOf kw name]).map (· ++ [10]) ++
        ((bgLinesOf bg).map (· ++ [10]) ++ ((scs.flatMap scenarioLines4).map (· ++ [10]) ++
          (rls.flatMap ruleLines).map (· ++ [10]))) := by
    have : lineBodies5 ⟨tags, kw, name, bg, scs, rls⟩ =
        (tagLineOf tags ++ [titleLineOf kw name]) ++ (bgLinesOf bg ++ (scs.flatMap scenarioLines4 ++ rls.flatMap ruleLines)) := by
      simp [lineBodies5, lineBodies4, MFeature5.core]
    rw [render5, this, ← List.map_append, ← List.map_append, ← List.map_append]
    apply splitLines_flatMap
    intro b hb
    simp only [List.mem_append, List.mem_singleton, List.mem_flatMap] at hb
    rcases hb with (hb | rfl) | hb | ⟨sc, hsc, hb⟩ | ⟨r, hrm, hb⟩
    · exact tagLine_noLF tags htags b hb
    · exact title_noLF hr hμ kw name hka hn
    · exact bgLines_noLF hr hμ bg hbg b hb
    · exact scenarioLines4_noLF hr hμ sc (hscs sc hsc) b hb
    · exact ruleLines_noLF hr hμ r (hrls r hrm) b hb
  have hlen : (splitLines (render5 ⟨tags, kw, name, bg, scs, rls⟩)).length + 2 =
      (2 + (rls.map ruleLineCount).sum + (scs.map scLines4).sum + bgLineCount bg) + (1 + tagLines tags) := by
    rw [hsplit]
    simp only [List.length_map, List.length_append, List.length_singleton, flatMap_scenarioLines4_length, flatMap_ruleLines_length,
      bgLinesOf_length, tagLineOf, tagLines]
    split <;> simp <;> omega
  -- the expected background of the AST
  let bgA : Option Background := bg.map (expBackground (μ0.reset D).dialect (1 + tagLines tags + 1) ids)
  have hexp : expectedDoc5 (μ0.reset D).dialect (μ0.reset D).name ⟨tags, kw, name, bg, scs, rls⟩ ids =
      ⟨some (mkFeat5 1 (1 + tagLines tags) (ids + bgIdCount bg + idsOfScenarios4 scs + idsOfRules rls) tags (μ0.reset D).name kw name
        bgA (expScenarios4 (μ0.reset D).dialect (1 + tagLines tags + bgLineCount bg + 1) (ids + bgIdCount bg) scs)
        (expRules (μ0.reset D).dialect (1 + tagLines tags + bgLineCount bg + (scs.map scLines4).sum + 1)
          (ids + bgIdCount bg + idsOfScenarios4 scs) rls)), []⟩ := by
    have e1 : 2 + tagLines tags = 1 + tagLines tags + 1 := by omega
    have e2 : ∀ k, 1 + tagLines tags + 1 + k = 1 + tagLines tags + k + 1 := by intro k; omega
    have e3 : ∀ k j, 1 + tagLines tags + 1 + k + j = 1 + tagLines tags + k + j + 1 := by intro k j; omega
    cases bg <;> simp [expectedDoc5, mkFeat5, e1, e2, e3, bgA, bgChild, expBgChild] <;> rw [Nat.add_right_comm]
  rw [hexp]
  have hid : idsAfter5 ⟨tags, kw, name, bg, scs, rls⟩ ids = ids + bgIdCount bg + idsOfScenarios4 scs + idsOfRules rls + tags.length := rfl
  rw [hid]
  apply pure_outcome_of_loop D T RTf.start
  intro c hc
  rw [hlen]
  rw [hsplit] at hc
  obtain ⟨c1, β1, h1, hcl, hrun1⟩ := feature_head hf hr D stop T RTf hμ (reset_activeSep D μ0) tags kw name htags hk hn
    _ ids (2 + (rls.map ruleLineCount).sum + (scs.map scLines4).sum + bgLineCount bg) c hc
  -- the background, if any
  have hb : ∃ s1' β1' i1' c1', ClosesG T s1' β1' i1' (hdrItem (μ0.reset D) tags kw name :: (bgItems bgA ++ scItems []))
        (ids + bgIdCount bg) ∧
      At c1' ((scs.flatMap scenarioLines4).map (· ++ [10]) ++ ((rls.flatMap ruleLines).map (· ++ [10]) ++ []))
        (1 + tagLines tags + bgLineCount bg) (μ0.reset D) β1' i1' ∧
      run (parseLinesPure D T stop (2 + (rls.map ruleLineCount).sum + (scs.map scLines4).sum + bgLineCount bg) 3) c1 =
        run (parseLinesPure D T stop (2 + (rls.map ruleLineCount).sum + (scs.map scLines4).sum) s1') c1' := by
    cases bg with
    | none =>
      refine ⟨3, β1, ids, c1, ClosesG.of2 RT2 ⟨.inl rfl, hcl.2⟩, ?_, rfl⟩
      simpa [bgLinesOf, bgLineCount] using h1
    | some b =>
      obtain ⟨s', β', i', c', hcl', hc', hrun'⟩ := background_block hf hr D stop T RT3 hμ (reset_activeSep D μ0) b hbg
        β1 ids _ (1 + tagLines tags) (2 + (rls.map ruleLineCount).sum + (scs.map scLines4).sum) _ c1 hcl.2 h1
      exact ⟨s', β', i', c', hcl', by simpa [bgLineCount] using hc', hrun'⟩
  obtain ⟨s1', β1', i1', c1', hcl1, h1', hrunb⟩ := hb
  obtain ⟨s2, β2, i2, c2, hcl2, h2, hrun2⟩ := scenarios_loop4 hf hr D stop T RT4 hμ (reset_activeSep D μ0)
    (hdrItem (μ0.reset D) tags kw name :: bgItems bgA) (2 + (rls.map ruleLineCount).sum) _ scs hscs s1' β1' i1' [] (ids + bgIdCount bg)
    (1 + tagLines tags + bgLineCount bg) c1' hcl1 h1'
  rw [List.nil_append] at hcl2
  simp only [rt5EntryAll, Bool.and_eq_true] at hall
  have hent := REntry.ofG hall.1 hcl2
  have hent' : REntry T s2 β2 i2 ((hdrItem (μ0.reset D) tags kw name :: (bgItems bgA ++ scItems
      (expScenarios4 (μ0.reset D).dialect (1 + tagLines tags + bgLineCount bg + 1) (ids + bgIdCount bg) scs))) ++
      ruleItems []) (ids + bgIdCount bg + idsOfScenarios4 scs) := by
    simpa [ruleItems] using hent
  obtain ⟨s3, β3, i3, c3, hcl3, h3, hrun3⟩ := rules_loop hf hr D stop T RR hall.2 hμ (reset_activeSep D μ0) _ 2 [] rls hrls
    s2 β2 i2 [] _ _ c2 hent' h2
  rw [List.nil_append] at hcl3
  obtain ⟨c4, te, hrun4, h4⟩ := finish5 hf hr D stop T RR hall.2 hμ (reset_activeSep D μ0) s3 β3 i3 _ _ 1 tags kw name bgA _ _
    hcl3 c3 h3
  exact ⟨c4, te, _, by rw [hrun1, hrunb, hrun2, hrun3, hrun4], h4⟩

end Lemmas
end GV
