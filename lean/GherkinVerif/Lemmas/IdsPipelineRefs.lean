/-
  Lemmas/IdsPipelineRefs.lean — property C11, referential integrity: every id a pickle mentions
  is the id of an AST node of the right kind (Spec/Refs.lean), and it occurs in the canonical
  id list of the document.  From the refinement `compile = Spec.pickles` (Lemmas/Compile.lean).
-/
import GherkinVerif.Lemmas.Compile
import GherkinVerif.Spec.Refs
import GherkinVerif.Spec.AstOf
namespace GV
namespace Lemmas
namespace IdsP
open Spec

/-! ### lists -/

theorem allSome_mem {α} (l : List (Option α)) (r : List α) (h : allSome l = some r) :
    ∀ a ∈ r, some a ∈ l := by
  induction l generalizing r with
  | nil => simp [allSome] at h; subst h; simp
  | cons o l ih =>
    cases o with
    | none => simp [allSome] at h
    | some v =>
      simp only [allSome, Option.map_eq_some_iff] at h
      obtain ⟨r', hr', rfl⟩ := h
      intro a ha
      rcases List.mem_cons.1 ha with rfl | ha
      · simp
      · exact List.mem_cons_of_mem _ (ih r' hr' a ha)

theorem map_eq_map_mem {α β γ} (f : α → γ) (g : β → γ) (l : List α) (m : List β)
    (h : l.map f = m.map g) : ∀ a ∈ l, ∃ b ∈ m, f a = g b := by
  intro a ha
  have : f a ∈ m.map g := h ▸ List.mem_map_of_mem ha
  obtain ⟨b, hb, e⟩ := List.mem_map.1 this
  exact ⟨b, hb, e.symm⟩

/-! ### scopes, in terms of membership -/

theorem mem_featureBgBefore (cs : List FeatureChild) (i : Nat) (x : Step) (h : x ∈ featureBgBefore cs i) :
    ∃ b, FeatureChild.background b ∈ cs ∧ x ∈ b.steps := by
  simp only [featureBgBefore, List.mem_flatMap] at h
  obtain ⟨c, hc, hx⟩ := h
  have hc' := List.mem_of_mem_take hc
  cases c with
  | background b => exact ⟨b, hc', hx⟩
  | scenario s => simp at hx
  | rule r => simp at hx

theorem mem_ruleBgBefore (cs : List RuleChild) (i : Nat) (x : Step) (h : x ∈ ruleBgBefore cs i) :
    ∃ b, RuleChild.background b ∈ cs ∧ x ∈ b.steps := by
  simp only [ruleBgBefore, List.mem_flatMap] at h
  obtain ⟨c, hc, hx⟩ := h
  have hc' := List.mem_of_mem_take hc
  cases c with
  | background b => exact ⟨b, hc', hx⟩
  | scenario s => simp at hx

/-- a scenario the specification enumerates sits somewhere in the feature, and its scope holds
    the feature's tags, the enclosing rule's tags and steps of in-scope backgrounds only -/
theorem scope_resolves (f : Feature) (x : Scope × Scenario) (h : x ∈ featureScenarios f) :
    ∃ ro, ScenarioIn f ro x.2 ∧ x.1.ftags = f.tags ∧
      (∀ t ∈ x.1.rtags, ∃ r, ro = some r ∧ t ∈ r.tags) ∧
      (∀ st ∈ x.1.bg, BgStepInScope f ro st) := by
  rcases mem_featureScenarios f x h with ⟨i, hi, hs⟩ | ⟨i, r, j, hi, hj, hs⟩
  · refine ⟨none, List.mem_of_getElem? hi, by rw [hs], by rw [hs]; simp, ?_⟩
    rw [hs]
    intro st hst
    exact .inl (mem_featureBgBefore _ _ _ hst)
  · refine ⟨some r, ⟨List.mem_of_getElem? hi, List.mem_of_getElem? hj⟩, by rw [hs], ?_, ?_⟩
    · rw [hs]; intro t ht; exact ⟨r, rfl, ht⟩
    · rw [hs]
      intro st hst
      rcases List.mem_append.1 hst with h1 | h1
      · exact .inl (mem_featureBgBefore _ _ _ h1)
      · obtain ⟨b, hb, hx⟩ := mem_ruleBgBefore _ _ _ h1
        exact .inr ⟨r, b, rfl, hb, hx⟩

/-! ### one specified pickle -/

theorem scenarioPickle_steps (uri language : Str) (sc : Scope) (s : Scenario) (p : Pickle)
    (h : scenarioPickle uri language sc s = some p) : steps sc s none = some p.steps := by
  simp only [scenarioPickle, Option.map_eq_some_iff] at h
  obtain ⟨st, hst, rfl⟩ := h
  exact hst

theorem rowPickle_steps (uri language : Str) (sc : Scope) (s : Scenario) (ex : Examples) (hd row : Row)
    (p : Pickle) (h : rowPickle uri language sc s ex hd row = some p) :
    steps sc s (some (row.id, hd.cells.map (·.value), row.cells.map (·.value))) = some p.steps := by
  simp only [rowPickle] at h
  split at h
  · rename_i st name hst hname
    simp only [Option.some.injEq] at h
    subst h
    exact hst
  · simp at h

/-- the steps of a specified pickle point at background steps in scope (alone) or at own steps
    (with the row, if any) -/
theorem steps_refs (sc : Scope) (s : Scenario) (sub : Option (Nat × List Str × List Str))
    (st : List PickleStep) (h : steps sc s sub = some st) :
    ∀ ps ∈ st, (∃ x ∈ sc.bg, ps.astNodeIds = [x.id]) ∨ (∃ x ∈ s.steps, ps.astNodeIds = srcIds sub x) := by
  by_cases he : s.steps = []
  · rw [steps_nil sc s sub he] at h
    simp only [Option.some.injEq] at h
    subst h
    intro ps hps; cases hps
  · obtain ⟨a, b, rfl, -, -, -, ha, hb⟩ := steps_some sc s sub _ he h
    intro ps hps
    rcases List.mem_append.1 hps with h1 | h1
    · obtain ⟨x, hx, e⟩ := map_eq_map_mem _ _ _ _ ha ps h1
      exact .inl ⟨x, hx, e⟩
    · obtain ⟨x, hx, e⟩ := map_eq_map_mem _ _ _ _ hb ps h1
      exact .inr ⟨x, hx, e⟩

theorem tags_resolve (f : Feature) (ro : Option Rule) (s : Scenario) (eo : Option Examples) (p : Pickle)
    (tags : List Tag) (hp : p.tags = tags.map (fun t => ⟨t.id, t.name⟩))
    (ht : ∀ t ∈ tags, TagInScope f ro s eo t) : TagsResolve f ro s eo p := by
  intro pt hpt
  rw [hp] at hpt
  obtain ⟨t, htm, rfl⟩ := List.mem_map.1 hpt
  exact ⟨t, ht t htm, rfl, rfl⟩

/-- every pickle of the specification resolves -/
theorem spec_pickle_resolves (uri : Str) (f : Feature) (x : Scope × Scenario) (hx : x ∈ featureScenarios f)
    (q : Pickle) (hq : some q ∈ scenarioPickles uri f.language x.1 x.2) : PickleResolves f q := by
  obtain ⟨sc, s⟩ := x
  obtain ⟨ro, hin, hft, hrt, hbg⟩ := scope_resolves f (sc, s) hx
  dsimp only at hin hft hrt hbg hq
  refine ⟨ro, s, hin, ?_⟩
  unfold scenarioPickles at hq
  split at hq
  · rename_i hex
    simp only [List.mem_singleton] at hq
    have hq := hq.symm
    refine .inl ⟨hex, ((spec_fields uri f.language sc s q).1 hq).1, ?_, ?_⟩
    · intro ps hps
      rcases steps_refs sc s none q.steps (scenarioPickle_steps _ _ _ _ _ hq) ps hps with
        ⟨y, hy, e⟩ | ⟨y, hy, e⟩
      · exact ⟨y, .inr (hbg y hy), e⟩
      · exact ⟨y, .inl hy, e⟩
    · refine tags_resolve f ro s none q _ (spec_tags_scenario uri f.language sc s q hq) ?_
      intro t ht
      rcases List.mem_append.1 ht with h1 | h1
      · rcases List.mem_append.1 h1 with h2 | h2
        · exact .inl (hft ▸ h2)
        · exact .inr (.inl (hrt t h2))
      · exact .inr (.inr (.inl h1))
  · obtain ⟨e, he, hq⟩ := List.mem_flatMap.1 hq
    split at hq
    · cases hq
    · rename_i hd hhd
      obtain ⟨row, hrow, hq⟩ := List.mem_map.1 hq
      refine .inr ⟨e, he, row, hrow, by rw [hhd]; rfl,
        ((spec_fields uri f.language sc s q).2 e hd row hq).1, ?_, ?_⟩
      · intro ps hps
        rcases steps_refs sc s _ q.steps (rowPickle_steps _ _ _ _ _ _ _ _ hq) ps hps with
          ⟨y, hy, e⟩ | ⟨y, hy, e⟩
        · exact .inr ⟨y, hbg y hy, e⟩
        · exact .inl ⟨y, hy, e⟩
      · refine tags_resolve f ro s (some e) q _ (spec_tags_row uri f.language sc s e hd row q hq) ?_
        intro t ht
        rcases List.mem_append.1 ht with h1 | h1
        · rcases List.mem_append.1 h1 with h1 | h1
          · rcases List.mem_append.1 h1 with h2 | h2
            · exact .inl (hft ▸ h2)
            · exact .inr (.inl (hrt t h2))
          · exact .inr (.inr (.inl h1))
        · exact .inr (.inr (.inr ⟨e, rfl, h1⟩))

/-! ### erasing the compiler's ids does not touch the references -/

theorem resolves_of_erase (f : Feature) (p : Pickle) (h : PickleResolves f (eraseIds p)) :
    PickleResolves f p := by
  obtain ⟨ro, s, hin, h⟩ := h
  refine ⟨ro, s, hin, ?_⟩
  have hsteps : ∀ ps ∈ p.steps, eraseStep ps ∈ (eraseIds p).steps := by
    intro ps hps
    rw [eraseIds_eq]
    exact List.mem_map_of_mem hps
  rcases h with ⟨hex, hid, hst, htg⟩ | ⟨e, he, r, hr, hh, hid, hst, htg⟩
  · exact .inl ⟨hex, hid, fun ps hps => hst (eraseStep ps) (hsteps ps hps), htg⟩
  · exact .inr ⟨e, he, r, hr, hh, hid, fun ps hps => hst (eraseStep ps) (hsteps ps hps), htg⟩

/-- **every pickle the compiler returns resolves into the document's feature** -/
theorem compile_resolves (uri : Str) (d : Doc) (n : Nat) (ps : List Pickle) (n' : Nat)
    (h : compile uri d n = some (ps, n')) :
    ∀ p ∈ ps, ∃ f, d.feature = some f ∧ PickleResolves f p := by
  intro p hp
  have hs := compile_eq_spec uri d n ps n' h
  unfold pickles at hs
  split at hs
  · simp only [Option.some.injEq] at hs
    have : ps = [] := by simpa using hs.symm
    subst this
    cases hp
  · rename_i f hf
    refine ⟨f, hf, resolves_of_erase f p ?_⟩
    have hm := allSome_mem _ _ hs (eraseIds p) (List.mem_map_of_mem hp)
    obtain ⟨x, hx, hq⟩ := List.mem_flatMap.1 hm
    exact spec_pickle_resolves uri f x hx _ hq

/-! ### the referenced nodes' ids are in the canonical id list -/

theorem scenarioIds_sub (f : Feature) (ro : Option Rule) (s : Scenario) (h : ScenarioIn f ro s) :
    ∀ i ∈ scenarioIds s, i ∈ featureIds f := by
  intro i hi
  unfold featureIds
  refine List.mem_append_left _ (List.mem_flatMap.2 ?_)
  cases ro with
  | none => exact ⟨_, h, hi⟩
  | some r =>
    refine ⟨_, h.1, ?_⟩
    show i ∈ ruleIds r
    unfold ruleIds
    exact List.mem_append_left _ (List.mem_append_left _ (List.mem_flatMap.2 ⟨_, h.2, hi⟩))

theorem step_id_mem (x : Step) : x.id ∈ stepIds x := by simp [stepIds]

theorem mem_scenarioIds_self (s : Scenario) : s.id ∈ scenarioIds s := by simp [scenarioIds]

theorem mem_scenarioIds_step (s : Scenario) (x : Step) (h : x ∈ s.steps) : x.id ∈ scenarioIds s := by
  unfold scenarioIds
  exact List.mem_append_left _ (List.mem_append_left _ (List.mem_append_left _
    (List.mem_flatMap.2 ⟨x, h, step_id_mem x⟩)))

theorem mem_scenarioIds_tag (s : Scenario) (t : Tag) (h : t ∈ s.tags) : t.id ∈ scenarioIds s := by
  unfold scenarioIds
  exact List.mem_append_left _ (List.mem_append_right _ (List.mem_map_of_mem h))

theorem mem_scenarioIds_row (s : Scenario) (e : Examples) (r : Row) (he : e ∈ s.examples) (hr : r ∈ e.body) :
    r.id ∈ scenarioIds s := by
  unfold scenarioIds
  refine List.mem_append_left _ (List.mem_append_left _ (List.mem_append_right _
    (List.mem_flatMap.2 ⟨e, he, ?_⟩)))
  unfold examplesIds rowIds
  exact List.mem_append_left _ (List.mem_append_left _ (List.mem_append_right _ (List.mem_map_of_mem hr)))

theorem mem_scenarioIds_extag (s : Scenario) (e : Examples) (t : Tag) (he : e ∈ s.examples) (ht : t ∈ e.tags) :
    t.id ∈ scenarioIds s := by
  unfold scenarioIds
  refine List.mem_append_left _ (List.mem_append_left _ (List.mem_append_right _
    (List.mem_flatMap.2 ⟨e, he, ?_⟩)))
  unfold examplesIds
  exact List.mem_append_left _ (List.mem_append_right _ (List.mem_map_of_mem ht))

theorem mem_backgroundIds_step (b : Background) (x : Step) (h : x ∈ b.steps) : x.id ∈ backgroundIds b := by
  unfold backgroundIds
  exact List.mem_append_left _ (List.mem_flatMap.2 ⟨x, h, step_id_mem x⟩)

theorem bgStep_id_mem (f : Feature) (ro : Option Rule) (s : Scenario) (hin : ScenarioIn f ro s) (x : Step)
    (h : BgStepInScope f ro x) : x.id ∈ featureIds f := by
  unfold featureIds
  refine List.mem_append_left _ (List.mem_flatMap.2 ?_)
  rcases h with ⟨b, hb, hx⟩ | ⟨r, b, rfl, hb, hx⟩
  · exact ⟨_, hb, mem_backgroundIds_step b x hx⟩
  · refine ⟨_, hin.1, ?_⟩
    show x.id ∈ ruleIds r
    unfold ruleIds
    exact List.mem_append_left _ (List.mem_append_left _
      (List.mem_flatMap.2 ⟨_, hb, mem_backgroundIds_step b x hx⟩))

theorem tag_id_mem (f : Feature) (ro : Option Rule) (s : Scenario) (hin : ScenarioIn f ro s)
    (eo : Option Examples) (heo : ∀ e, eo = some e → e ∈ s.examples) (t : Tag)
    (h : TagInScope f ro s eo t) : t.id ∈ featureIds f := by
  rcases h with h | ⟨r, rfl, h⟩ | h | ⟨e, rfl, h⟩
  · unfold featureIds
    exact List.mem_append_right _ (List.mem_map_of_mem h)
  · unfold featureIds
    refine List.mem_append_left _ (List.mem_flatMap.2 ⟨_, hin.1, ?_⟩)
    show t.id ∈ ruleIds r
    unfold ruleIds
    exact List.mem_append_left _ (List.mem_append_right _ (List.mem_map_of_mem h))
  · exact scenarioIds_sub f ro s hin _ (mem_scenarioIds_tag s t h)
  · exact scenarioIds_sub f ro s hin _ (mem_scenarioIds_extag s e t (heo e rfl) h)

/-- all references of a resolving pickle are ids of the feature -/
theorem refs_mem (f : Feature) (p : Pickle) (h : PickleResolves f p) :
    ∀ i ∈ pickleRefs p, i ∈ featureIds f := by
  obtain ⟨ro, s, hin, h⟩ := h
  have hs := scenarioIds_sub f ro s hin
  intro i hi
  unfold pickleRefs at hi
  rcases h with ⟨-, hid, hst, htg⟩ | ⟨e, he, r, hr, -, hid, hst, htg⟩
  · rcases List.mem_append.1 hi with hi | hi
    · rcases List.mem_append.1 hi with hi | hi
      · rw [hid] at hi
        simp only [List.mem_singleton] at hi
        subst hi
        exact hs _ (mem_scenarioIds_self s)
      · obtain ⟨ps, hps, hi⟩ := List.mem_flatMap.1 hi
        obtain ⟨x, hx, e⟩ := hst ps hps
        rw [e] at hi
        simp only [List.mem_singleton] at hi
        subst hi
        rcases hx with hx | hx
        · exact hs _ (mem_scenarioIds_step s x hx)
        · exact bgStep_id_mem f ro s hin x hx
    · obtain ⟨pt, hpt, rfl⟩ := List.mem_map.1 hi
      obtain ⟨t, ht, e, -⟩ := htg pt hpt
      rw [e]
      exact tag_id_mem f ro s hin none (fun _ h => by cases h) t ht
  · rcases List.mem_append.1 hi with hi | hi
    · rcases List.mem_append.1 hi with hi | hi
      · rw [hid] at hi
        simp only [List.mem_cons, List.not_mem_nil, or_false] at hi
        rcases hi with rfl | rfl
        · exact hs _ (mem_scenarioIds_self s)
        · exact hs _ (mem_scenarioIds_row s e r he hr)
      · obtain ⟨ps, hps, hi⟩ := List.mem_flatMap.1 hi
        rcases hst ps hps with ⟨x, hx, e'⟩ | ⟨x, hx, e'⟩
        · rw [e'] at hi
          simp only [List.mem_cons, List.not_mem_nil, or_false] at hi
          rcases hi with rfl | rfl
          · exact hs _ (mem_scenarioIds_step s x hx)
          · exact hs _ (mem_scenarioIds_row s e r he hr)
        · rw [e'] at hi
          simp only [List.mem_singleton] at hi
          subst hi
          exact bgStep_id_mem f ro s hin x hx
    · obtain ⟨pt, hpt, rfl⟩ := List.mem_map.1 hi
      obtain ⟨t, ht, e', -⟩ := htg pt hpt
      rw [e']
      exact tag_id_mem f ro s hin (some e) (fun _ h => by cases h; exact he) t ht

/-- … so, when the canonical ids are pairwise distinct, each reference names exactly one node -/
theorem refs_unique (d : Doc) (f : Feature) (hf : d.feature = some f) (hnd : (canonicalIds d).Nodup)
    (p : Pickle) (h : PickleResolves f p) : ∀ i ∈ pickleRefs p, (canonicalIds d).count i = 1 := by
  intro i hi
  have hm : i ∈ canonicalIds d := by
    unfold canonicalIds
    rw [hf]
    exact refs_mem f p h i hi
  rw [hnd.count, if_pos hm]

end IdsP
end Lemmas
end GV
