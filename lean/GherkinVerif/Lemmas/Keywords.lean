/-
  Lemmas/Keywords.lean — helper lemmas for property C05 (and shared by C19): Python string
  primitives on whitespace-indented lines, uniqueness of the title keyword by colon-freeness,
  first-prefix rule for steps, keyword types, the language header pattern, and the lifting of
  the Boolean dialect-table facts of Spec/DialectFacts.lean to `∀ d ∈ D, ∀ k ∈ …` statements.
-/
import GherkinVerif.Spec.DialectFacts

-- decidable equality of dialect records, for `C05_tables_identical`
deriving instance DecidableEq for GV.Dialect

namespace GV.Lemmas
open GV Spec

/-! ### string primitives -/

theorem startsWith_iff (p s : Str) : startsWith p s = true ↔ ∃ r, s = p ++ r := by
  induction p generalizing s with
  | nil => simp [startsWith]
  | cons a p ih =>
    cases s with
    | nil => simp [startsWith]
    | cons b s =>
      simp only [startsWith, Bool.and_eq_true, beq_iff_eq, ih, List.cons_append, List.cons.injEq]
      constructor
      · rintro ⟨rfl, r, rfl⟩; exact ⟨r, rfl, rfl⟩
      · rintro ⟨r, rfl, rfl⟩; exact ⟨rfl, r, rfl⟩

theorem startsWith_append (p r : Str) : startsWith p (p ++ r) = true :=
  (startsWith_iff p (p ++ r)).2 ⟨r, rfl⟩

theorem startsWith_nil_right (p : Str) : startsWith p [] = true ↔ p = [] := by
  cases p <;> simp [startsWith]

theorem drop_length_append (k r : Str) : (k ++ r).drop k.length = r := by
  induction k with
  | nil => rfl
  | cons a k ih => simp [ih]

theorem drop_length_succ_append (k r : Str) (c : Nat) : (k ++ c :: r).drop (k.length + 1) = r := by
  induction k with
  | nil => rfl
  | cons a k ih => simp [ih]

theorem noWsStart_cons {c : Nat} {r : Str} : noWsStart (c :: r) = !isSpace c := rfl

theorem noWsStart_append_cons (k r : Str) (c : Nat) (hk : noWsStart k = true) (hc : isSpace c = false) :
    noWsStart (k ++ c :: r) = true := by
  cases k with
  | nil => simp [noWsStart, hc]
  | cons a k => simpa [noWsStart] using hk

theorem noWsStart_append (k r : Str) (hk : noWsStart k = true) (hne : k ≠ []) :
    noWsStart (k ++ r) = true := by
  cases k with
  | nil => exact absurd rfl hne
  | cons a k => simpa [noWsStart] using hk

theorem lstrip_of_noWsStart (x : Str) (h : noWsStart x = true) : lstrip x = x := by
  cases x with
  | nil => rfl
  | cons c cs =>
    have : isSpace c = false := by simpa [noWsStart] using h
    simp [lstrip, this]

theorem lstrip_ws_append (ws x : Str) (hws : ∀ c ∈ ws, isSpace c = true) :
    lstrip (ws ++ x) = lstrip x := by
  induction ws with
  | nil => rfl
  | cons c cs ih =>
    have hc : isSpace c = true := hws c (by simp)
    simp only [List.cons_append, lstrip, hc, if_true]
    exact ih fun c h => hws c (by simp [h])

theorem lstrip_ws (ws : Str) (hws : ∀ c ∈ ws, isSpace c = true) : lstrip ws = [] := by
  have := lstrip_ws_append ws [] hws
  rwa [List.append_nil] at this

theorem noWsStart_lstrip (s : Str) : noWsStart (lstrip s) = true := by
  induction s with
  | nil => rfl
  | cons c cs ih =>
    simp only [lstrip]
    split
    · exact ih
    · next h => simpa [noWsStart] using h

theorem lstrip_lstrip (s : Str) : lstrip (lstrip s) = lstrip s :=
  lstrip_of_noWsStart _ (noWsStart_lstrip s)

theorem trimmed_ws_append (ws x : Str) (hws : ∀ c ∈ ws, isSpace c = true) (hx : noWsStart x = true) :
    trimmed (ws ++ x) = x := by
  rw [trimmed, lstrip_ws_append ws x hws, lstrip_of_noWsStart x hx]

theorem indentOf_ws_append (ws x : Str) (hws : ∀ c ∈ ws, isSpace c = true) (hx : noWsStart x = true) :
    indentOf (ws ++ x) = ws.length := by
  induction ws with
  | nil =>
    cases x with
    | nil => rfl
    | cons c cs =>
      have : isSpace c = false := by simpa [noWsStart] using hx
      simp [indentOf, this]
  | cons c cs ih =>
    have hc : isSpace c = true := hws c (by simp)
    simp only [List.cons_append, indentOf, hc, if_true, List.length_cons]
    rw [ih fun c h => hws c (by simp [h])]

/-- every line splits into its leading whitespace and a rest that does not start with whitespace -/
theorem indent_split (l : Str) :
    l = l.take (indentOf l) ++ lstrip l ∧ (∀ c ∈ l.take (indentOf l), isSpace c = true) ∧
    (l.take (indentOf l)).length = indentOf l ∧ l.drop (indentOf l) = lstrip l := by
  induction l with
  | nil => simp [indentOf, lstrip]
  | cons c cs ih =>
    by_cases hc : isSpace c = true
    · simp only [indentOf, lstrip, hc, if_true, List.take_succ_cons, List.cons_append,
        List.length_cons, List.drop_succ_cons, List.mem_cons]
      obtain ⟨h1, h2, h3, h4⟩ := ih
      refine ⟨by rw [← h1], ?_, by rw [h3], h4⟩
      rintro x (rfl | hx)
      · exact hc
      · exact h2 x hx
    · simp [indentOf, lstrip, hc]

theorem dropWhileEnd_idem (p q : Nat → Bool) (h : ∀ c, q c = true → p c = true) (s : Str) :
    dropWhileEnd q (dropWhileEnd p s) = dropWhileEnd p s := by
  induction s with
  | nil => rfl
  | cons c cs ih =>
    simp only [dropWhileEnd]
    split
    · next heq =>
      split
      · rfl
      · next hp =>
        have : q c = false := by
          cases hq : q c with
          | false => rfl
          | true => exact absurd (h c hq) hp
        simp [dropWhileEnd, this]
    · next r hne =>
      simp only [dropWhileEnd]
      rw [ih]
      split
      · next heq => exact absurd heq hne
      · rfl

/-- `strip` already removed any trailing CR/LF, so the `rstrip("\r\n")` of `_set_token_matched`
    leaves a stripped text unchanged -/
theorem rstripCRLF_strip (s : Str) : rstripCRLF (strip s) = strip s := by
  unfold rstripCRLF strip rstrip
  apply dropWhileEnd_idem
  intro c hc
  simp only [Bool.or_eq_true, beq_iff_eq] at hc
  rcases hc with rfl | rfl <;> decide

theorem takeWhile_dropWhile_append (p : Nat → Bool) (a b : Str) (ha : ∀ c ∈ a, p c = true)
    (hb : ∀ c ∈ b, p c = false) : (a ++ b).takeWhile p = a ∧ (a ++ b).dropWhile p = b := by
  induction a with
  | nil =>
    cases b with
    | nil => simp
    | cons c cs => simp [hb c (by simp)]
  | cons c cs ih =>
    have hc := ha c (by simp)
    have := ih fun c h => ha c (by simp [h])
    simp [hc, this]

/-! ### title lines: the keyword is determined by colon-freeness -/

theorem title_prefix_unique (k' k rest : Str) (hk' : 58 ∉ k') (hk : 58 ∉ k)
    (h : startsWith (k' ++ [58]) (k ++ 58 :: rest) = true) : k' = k := by
  induction k' generalizing k with
  | nil =>
    cases k with
    | nil => rfl
    | cons c k =>
      simp only [List.nil_append, List.cons_append, startsWith, Bool.and_eq_true, beq_iff_eq] at h
      exact absurd (by simp [← h.1]) hk
  | cons a k' ih =>
    cases k with
    | nil =>
      simp only [List.nil_append, List.cons_append, startsWith, Bool.and_eq_true, beq_iff_eq] at h
      exact absurd (by simp [h.1]) hk'
    | cons c k =>
      simp only [List.cons_append, startsWith, Bool.and_eq_true, beq_iff_eq] at h
      rw [h.1, ih k (fun hm => hk' (by simp [hm])) (fun hm => hk (by simp [hm])) h.2]

/-- in a colon-free keyword list the only keyword `k'` with `k' + ":"` a prefix of `k + ":" + rest`
    is `k` itself, whatever the order of the list -/
theorem find_title (kws : List Str) (k rest : Str) (hk : k ∈ kws) (hcf : ∀ k' ∈ kws, 58 ∉ k') :
    kws.find? (fun k' => startsWith (k' ++ [58]) (k ++ 58 :: rest)) = some k := by
  induction kws with
  | nil => simp at hk
  | cons a kws ih =>
    rw [List.find?_cons]
    split
    · next h =>
      rw [title_prefix_unique a k rest (hcf a (by simp)) (hcf k hk) h]
    · next h =>
      have hne : k ≠ a := by
        rintro rfl
        have := startsWith_append (k ++ [58]) rest
        simp only [List.append_assoc, List.singleton_append] at this
        rw [this] at h; cases h
      have hk2 : k ∈ kws := by
        rcases List.mem_cons.1 hk with rfl | h2
        · exact absurd rfl hne
        · exact h2
      exact ih hk2 fun k' h' => hcf k' (by simp [h'])

/-- `C05_title`, generic form -/
theorem matchTitle_keyword (μ : MState) (t : Token) (ty : Kind) (kws : List Str) (ws k rest : Str)
    (hk : k ∈ kws) (hcf : ∀ k' ∈ kws, 58 ∉ k') (hws : ∀ c ∈ ws, isSpace c = true)
    (hns : noWsStart k = true) :
    matchTitle μ t (ws ++ k ++ [58] ++ rest) ty kws =
      some (setMatched μ t ty (text := some (strip rest)) (keyword := some k)) := by
  have hx : noWsStart (k ++ 58 :: rest) = true := noWsStart_append_cons k rest 58 hns (by decide)
  have htr : trimmed (ws ++ k ++ [58] ++ rest) = k ++ 58 :: rest := by
    simp only [List.append_assoc, List.singleton_append]
    exact trimmed_ws_append ws _ hws hx
  unfold matchTitle
  simp only [lineStartsWithTitle, htr, find_title kws k rest hk hcf, restTrimmed,
    drop_length_succ_append]

/-- what the matched title token carries, when the token is the line itself -/
theorem title_token_fields (μ : MState) (t : Token) (ty : Kind) (ws k rest : Str)
    (hws : ∀ c ∈ ws, isSpace c = true) (hns : noWsStart k = true)
    (hl : t.line = some (ws ++ k ++ [58] ++ rest)) :
    let t' := setMatched μ t ty (text := some (strip rest)) (keyword := some k)
    t'.mtype = some ty ∧ t'.keyword = some k ∧ t'.text = some (strip rest) ∧
    t'.col = some (ws.length + 1) ∧ t'.dialect = μ.name ∧ t'.line = t.line ∧ t'.lineNo = t.lineNo := by
  have hx : noWsStart (k ++ 58 :: rest) = true := noWsStart_append_cons k rest 58 hns (by decide)
  have hi : lineIndent (ws ++ (k ++ 58 :: rest)) = ws.length :=
    indentOf_ws_append ws _ hws hx
  simp [setMatched, hl, hi, rstripCRLF_strip]

/-- the five title kinds of `matchLine` are `matchTitle` on the role's keyword list -/
theorem matchLine_title (D : List Dialect) (ty : Kind) (hty : ty.isTitle = true) (μ : MState)
    (t : Token) (l : Str) :
    matchLine D ty μ t l =
      match matchTitle μ t l ty (μ.dialect.roleKeywords ty) with
      | some t' => ⟨t', μ, .matched⟩
      | none => ⟨t, μ, .no⟩ := by
  cases ty <;> first
    | exact absurd hty (by decide)
    | (simp only [matchLine, Dialect.roleKeywords]
       cases matchTitle μ t l _ _ <;> rfl)
    | skip
  simp only [matchLine, Dialect.roleKeywords, matchTitle, List.find?_append]
  cases List.find? (fun k => lineStartsWithTitle l k) μ.dialect.scenario with
  | some k => rfl
  | none =>
    cases List.find? (fun k => lineStartsWithTitle l k) μ.dialect.scenarioOutline <;> rfl

/-- `C05_title` for the title kinds of `matchLine` -/
theorem matchLine_title_keyword (D : List Dialect) (ty : Kind) (hty : ty.isTitle = true)
    (μ : MState) (t : Token) (ws k rest : Str) (hk : k ∈ μ.dialect.roleKeywords ty)
    (hcf : ∀ k' ∈ μ.dialect.roleKeywords ty, 58 ∉ k') (hws : ∀ c ∈ ws, isSpace c = true)
    (hns : noWsStart k = true) :
    matchLine D ty μ t (ws ++ k ++ [58] ++ rest) =
      ⟨setMatched μ t ty (text := some (strip rest)) (keyword := some k), μ, .matched⟩ := by
  rw [matchLine_title D ty hty, matchTitle_keyword μ t ty _ ws k rest hk hcf hws hns]

theorem matchTitle_none (μ : MState) (t : Token) (l : Str) (ty : Kind) (kws : List Str)
    (h : ∀ k ∈ kws, startsWith (k ++ [58]) (trimmed l) = false) : matchTitle μ t l ty kws = none := by
  unfold matchTitle
  have : kws.find? (fun k => lineStartsWithTitle l k) = none := by
    rw [List.find?_eq_none]
    intro k hk
    simp [lineStartsWithTitle, h k hk]
  simp [this]

theorem matchTitle_some (μ : MState) (t : Token) (l : Str) (ty : Kind) (kws : List Str) (t' : Token)
    (h : matchTitle μ t l ty kws = some t') :
    ∃ k ∈ kws, startsWith (k ++ [58]) (trimmed l) = true ∧ t'.keyword = some k ∧
      t'.dialect = μ.name ∧ t'.mtype = some ty := by
  unfold matchTitle at h
  split at h
  · next k hf =>
    refine ⟨k, List.mem_of_find?_eq_some hf, ?_, ?_⟩
    · simpa [lineStartsWithTitle] using List.find?_some hf
    · cases h; simp [setMatched]
  · cases h

/-- `C05_foreign_plain`, title kinds -/
theorem matchLine_title_none (D : List Dialect) (ty : Kind) (hty : ty.isTitle = true) (μ : MState)
    (t : Token) (l : Str)
    (h : ∀ k ∈ μ.dialect.roleKeywords ty, startsWith (k ++ [58]) (trimmed l) = false) :
    matchLine D ty μ t l = ⟨t, μ, .no⟩ := by
  rw [matchLine_title D ty hty, matchTitle_none μ t l ty _ h]

/-- a title kind matches only if some keyword of its role, followed by `:`, prefixes the trimmed
    line; the token then carries that keyword and the dialect in force -/
theorem matchLine_title_matched (D : List Dialect) (ty : Kind) (hty : ty.isTitle = true) (μ : MState)
    (t : Token) (l : Str) :
    (∃ t', matchLine D ty μ t l = ⟨t', μ, .matched⟩ ∧
      ∃ k ∈ μ.dialect.roleKeywords ty, startsWith (k ++ [58]) (trimmed l) = true ∧
        t'.keyword = some k ∧ t'.dialect = μ.name ∧ t'.mtype = some ty) ∨
    (matchLine D ty μ t l = ⟨t, μ, .no⟩ ∧
      ∀ k ∈ μ.dialect.roleKeywords ty, startsWith (k ++ [58]) (trimmed l) = false) := by
  rw [matchLine_title D ty hty]
  cases h : matchTitle μ t l ty (μ.dialect.roleKeywords ty) with
  | some t' => exact .inl ⟨t', rfl, matchTitle_some μ t l ty _ t' h⟩
  | none =>
    refine .inr ⟨rfl, fun k hk => ?_⟩
    unfold matchTitle at h
    split at h
    · cases h
    · next hf =>
      rw [List.find?_eq_none] at hf
      simpa [lineStartsWithTitle] using hf k hk

/-! ### step lines: first listed keyword that prefixes the line -/

/-- `C05_step_first_prefix`: the keyword found is the first one, in list order, prefixing the line -/
theorem matchLine_step_first (D : List Dialect) (μ : MState) (t : Token) (l : Str)
    (pre post : List Str) (kw : Str) (hsplit : μ.dialect.stepKeywords = pre ++ kw :: post)
    (hkw : startsWith kw (trimmed l) = true) (hpre : ∀ k' ∈ pre, startsWith k' (trimmed l) = false) :
    matchLine D .StepLine μ t l =
      ⟨setMatched μ t .StepLine (text := some (strip ((trimmed l).drop kw.length))) (keyword := some kw)
        (ktype := some (stepKType μ.dialect kw)), μ, .matched⟩ := by
  have hf : μ.dialect.stepKeywords.find? (fun kw => lineStartsWith l kw) = some kw := by
    rw [List.find?_eq_some_iff_append]
    refine ⟨by simpa [lineStartsWith] using hkw, pre, post, hsplit, fun a ha => ?_⟩
    simp [lineStartsWith, hpre a ha]
  simp only [matchLine, hf, restTrimmed]

theorem matchLine_step_none (D : List Dialect) (μ : MState) (t : Token) (l : Str)
    (h : ∀ k ∈ μ.dialect.stepKeywords, startsWith k (trimmed l) = false) :
    matchLine D .StepLine μ t l = ⟨t, μ, .no⟩ := by
  have hf : μ.dialect.stepKeywords.find? (fun kw => lineStartsWith l kw) = none := by
    rw [List.find?_eq_none]
    intro k hk
    simp [lineStartsWith, h k hk]
  simp only [matchLine, hf]

/-- exhaustive form: every line is in exactly one of the two situations -/
theorem matchLine_step_cases (D : List Dialect) (μ : MState) (t : Token) (l : Str) :
    (∃ pre kw post, μ.dialect.stepKeywords = pre ++ kw :: post ∧ startsWith kw (trimmed l) = true ∧
      (∀ k' ∈ pre, startsWith k' (trimmed l) = false) ∧
      matchLine D .StepLine μ t l =
        ⟨setMatched μ t .StepLine (text := some (strip ((trimmed l).drop kw.length))) (keyword := some kw)
          (ktype := some (stepKType μ.dialect kw)), μ, .matched⟩) ∨
    ((∀ k ∈ μ.dialect.stepKeywords, startsWith k (trimmed l) = false) ∧
      matchLine D .StepLine μ t l = ⟨t, μ, .no⟩) := by
  cases hf : μ.dialect.stepKeywords.find? (fun kw => startsWith kw (trimmed l)) with
  | some kw =>
    rw [List.find?_eq_some_iff_append] at hf
    obtain ⟨hkw, pre, post, hsplit, hpre⟩ := hf
    have hpre' : ∀ k' ∈ pre, startsWith k' (trimmed l) = false := fun k' hk' => by
      simpa using hpre k' hk'
    exact .inl ⟨pre, kw, post, hsplit, hkw, hpre', matchLine_step_first D μ t l pre post kw hsplit hkw hpre'⟩
  | none =>
    rw [List.find?_eq_none] at hf
    have h : ∀ k ∈ μ.dialect.stepKeywords, startsWith k (trimmed l) = false := fun k hk => by
      simpa using hf k hk
    exact .inr ⟨h, matchLine_step_none D μ t l h⟩

/-- a step line written out: indentation, keyword, rest -/
theorem matchLine_step_line (D : List Dialect) (μ : MState) (t : Token) (ws kw rest : Str)
    (pre post : List Str) (hsplit : μ.dialect.stepKeywords = pre ++ kw :: post)
    (hws : ∀ c ∈ ws, isSpace c = true) (hns : noWsStart kw = true) (hne : kw ≠ [])
    (hpre : ∀ k' ∈ pre, startsWith k' (kw ++ rest) = false) :
    matchLine D .StepLine μ t (ws ++ kw ++ rest) =
      ⟨setMatched μ t .StepLine (text := some (strip rest)) (keyword := some kw)
        (ktype := some (stepKType μ.dialect kw)), μ, .matched⟩ := by
  have htr : trimmed (ws ++ kw ++ rest) = kw ++ rest := by
    rw [List.append_assoc]
    exact trimmed_ws_append ws _ hws (noWsStart_append kw rest hns hne)
  rw [matchLine_step_first D μ t _ pre post kw hsplit (by rw [htr]; exact startsWith_append kw rest)
    (by rw [htr]; exact hpre), htr, drop_length_append]

theorem step_token_fields (μ : MState) (t : Token) (ws kw rest : Str) (kt : KType)
    (hws : ∀ c ∈ ws, isSpace c = true) (hns : noWsStart kw = true) (hne : kw ≠ [])
    (hl : t.line = some (ws ++ kw ++ rest)) :
    let t' := setMatched μ t .StepLine (text := some (strip rest)) (keyword := some kw) (ktype := some kt)
    t'.mtype = some .StepLine ∧ t'.keyword = some kw ∧ t'.text = some (strip rest) ∧
    t'.ktype = some kt ∧ t'.col = some (ws.length + 1) := by
  have hi : lineIndent (ws ++ (kw ++ rest)) = ws.length :=
    indentOf_ws_append ws _ hws (noWsStart_append kw rest hns hne)
  simp [setMatched, hl, hi, rstripCRLF_strip]

/-! ### keyword types -/

theorem keywordTypes_eq (d : Dialect) (kw : Str) :
    d.keywordTypes kw =
      List.replicate (d.given.filter (· == kw)).length KType.Context ++
      List.replicate (d.when_.filter (· == kw)).length KType.Action ++
      List.replicate (d.then_.filter (· == kw)).length KType.Outcome ++
      List.replicate ((d.and_ ++ d.but_).filter (· == kw)).length KType.Conjunction := by
  simp only [Dialect.keywordTypes, List.map_const']

theorem stepCount_eq (d : Dialect) (kw : Str) :
    stepCount d kw = (d.given.filter (· == kw)).length + (d.when_.filter (· == kw)).length +
      (d.then_.filter (· == kw)).length + ((d.and_ ++ d.but_).filter (· == kw)).length := by
  simp only [stepCount, Dialect.stepKeywords, List.filter_append, List.length_append]
  omega

theorem filter_length_pos (l : List Str) (kw : Str) (h : kw ∈ l) : 0 < (l.filter (· == kw)).length := by
  apply List.length_pos_of_mem (a := kw)
  simp [h]

theorem length_keywordTypes (d : Dialect) (kw : Str) : (d.keywordTypes kw).length = stepCount d kw := by
  rw [keywordTypes_eq, stepCount_eq]
  simp only [List.length_append, List.length_replicate]

/-- `C05_keyword_type`: a keyword listed exactly once gets the type of the list it is in -/
theorem stepKType_once (d : Dialect) (kw : Str) (h : stepCount d kw = 1) :
    (kw ∈ d.given → stepKType d kw = .Context) ∧ (kw ∈ d.when_ → stepKType d kw = .Action) ∧
    (kw ∈ d.then_ → stepKType d kw = .Outcome) ∧
    (kw ∈ d.and_ ∨ kw ∈ d.but_ → stepKType d kw = .Conjunction) := by
  rw [stepCount_eq] at h
  unfold stepKType
  rw [keywordTypes_eq]
  refine ⟨fun hm => ?_, fun hm => ?_, fun hm => ?_, fun hm => ?_⟩
  · have := filter_length_pos _ kw hm
    have h1 : (d.given.filter (· == kw)).length = 1 := by omega
    have h2 : (d.when_.filter (· == kw)).length = 0 := by omega
    have h3 : (d.then_.filter (· == kw)).length = 0 := by omega
    have h4 : ((d.and_ ++ d.but_).filter (· == kw)).length = 0 := by omega
    rw [h1, h2, h3, h4]; rfl
  · have := filter_length_pos _ kw hm
    have h1 : (d.given.filter (· == kw)).length = 0 := by omega
    have h2 : (d.when_.filter (· == kw)).length = 1 := by omega
    have h3 : (d.then_.filter (· == kw)).length = 0 := by omega
    have h4 : ((d.and_ ++ d.but_).filter (· == kw)).length = 0 := by omega
    rw [h1, h2, h3, h4]; rfl
  · have := filter_length_pos _ kw hm
    have h1 : (d.given.filter (· == kw)).length = 0 := by omega
    have h2 : (d.when_.filter (· == kw)).length = 0 := by omega
    have h3 : (d.then_.filter (· == kw)).length = 1 := by omega
    have h4 : ((d.and_ ++ d.but_).filter (· == kw)).length = 0 := by omega
    rw [h1, h2, h3, h4]; rfl
  · have := filter_length_pos (d.and_ ++ d.but_) kw (by simpa using hm)
    have h1 : (d.given.filter (· == kw)).length = 0 := by omega
    have h2 : (d.when_.filter (· == kw)).length = 0 := by omega
    have h3 : (d.then_.filter (· == kw)).length = 0 := by omega
    have h4 : ((d.and_ ++ d.but_).filter (· == kw)).length = 1 := by omega
    rw [h1, h2, h3, h4]; rfl

/-- … and a keyword listed several times (or not at all) gets `Unknown` -/
theorem stepKType_not_once (d : Dialect) (kw : Str) (h : stepCount d kw ≠ 1) :
    stepKType d kw = .Unknown := by
  have hl := length_keywordTypes d kw
  unfold stepKType
  split
  · next ty heq => rw [heq] at hl; exact absurd hl.symm h
  · rfl

theorem mem_stepKeywords (d : Dialect) (kw : Str) :
    kw ∈ d.stepKeywords ↔ kw ∈ d.given ∨ kw ∈ d.when_ ∨ kw ∈ d.then_ ∨ kw ∈ d.and_ ∨ kw ∈ d.but_ := by
  simp [Dialect.stepKeywords]

/-! ### the language header -/

theorem isSpace_of_isLangChar {c : Nat} (h : isLangChar c = true) : isSpace c = false := by
  simp only [isLangChar, isSpace, Bool.or_eq_true, Bool.and_eq_true, decide_eq_true_eq, beq_iff_eq,
    Bool.or_eq_false_iff, Bool.and_eq_false_iff, decide_eq_false_iff_not, beq_eq_false_iff_ne] at *
  omega

theorem isLangChar_of_isSpace {c : Nat} (h : isSpace c = true) : isLangChar c = false := by
  cases hl : isLangChar c with
  | false => rfl
  | true => rw [isSpace_of_isLangChar hl] at h; cases h

theorem lit_language : lit "language" = [108, 97, 110, 103, 117, 97, 103, 101] := by decide

/-- `C05_language_header`, the pattern: `# language : name` with any whitespace around the pieces -/
theorem languageRe_header (w1 w2 w3 w4 w5 name : Str)
    (h1 : ∀ c ∈ w1, isSpace c = true) (h2 : ∀ c ∈ w2, isSpace c = true)
    (h3 : ∀ c ∈ w3, isSpace c = true) (h4 : ∀ c ∈ w4, isSpace c = true)
    (h5 : ∀ c ∈ w5, isSpace c = true) (hne : name ≠ []) (hn : ∀ c ∈ name, isLangChar c = true) :
    languageRe (w1 ++ [35] ++ w2 ++ lit "language" ++ w3 ++ [58] ++ w4 ++ name ++ w5) = some name := by
  have hname : noWsStart (name ++ w5) = true := by
    cases name with
    | nil => exact absurd rfl hne
    | cons c cs => simpa [noWsStart] using isSpace_of_isLangChar (hn c (by simp))
  have htd := takeWhile_dropWhile_append isLangChar name w5 hn fun c hc => isLangChar_of_isSpace (h5 c hc)
  have e1 : lstrip (w1 ++ 35 :: (w2 ++ (108 :: 97 :: 110 :: 103 :: 117 :: 97 :: 103 :: 101 :: (w3 ++ 58 :: (w4 ++ (name ++ w5))))))
      = 35 :: (w2 ++ (108 :: 97 :: 110 :: 103 :: 117 :: 97 :: 103 :: 101 :: (w3 ++ 58 :: (w4 ++ (name ++ w5))))) := by
    rw [lstrip_ws_append _ _ h1]; exact lstrip_of_noWsStart _ (by simp [noWsStart, isSpace])
  have e2 : lstrip (w2 ++ (108 :: 97 :: 110 :: 103 :: 117 :: 97 :: 103 :: 101 :: (w3 ++ 58 :: (w4 ++ (name ++ w5)))))
      = 108 :: 97 :: 110 :: 103 :: 117 :: 97 :: 103 :: 101 :: (w3 ++ 58 :: (w4 ++ (name ++ w5))) := by
    rw [lstrip_ws_append _ _ h2]; exact lstrip_of_noWsStart _ (by simp [noWsStart, isSpace])
  have e3 : lstrip (w3 ++ 58 :: (w4 ++ (name ++ w5))) = 58 :: (w4 ++ (name ++ w5)) := by
    rw [lstrip_ws_append _ _ h3]; exact lstrip_of_noWsStart _ (by simp [noWsStart, isSpace])
  have e4 : lstrip (w4 ++ (name ++ w5)) = name ++ w5 := by
    rw [lstrip_ws_append _ _ h4]; exact lstrip_of_noWsStart _ hname
  have e5 : name.isEmpty = false := by cases name with
    | nil => exact absurd rfl hne
    | cons c cs => rfl
  simp only [lit_language, List.append_assoc, List.cons_append, List.nil_append]
  unfold languageRe
  simp only [e1, e2, lit_language, startsWith, beq_self_eq_true, Bool.and_self, if_true, List.drop_succ_cons,
    List.drop_zero, e3, e4, htd.1, htd.2, e5, lstrip_ws w5 h5, List.isEmpty_nil, Bool.false_eq_true, if_false]

theorem languageRe_lstrip (s : Str) : languageRe (lstrip s) = languageRe s := by
  unfold languageRe; rw [lstrip_lstrip]

theorem findDialect_some (D : List Dialect) (name : Str) (d : Dialect) (h : findDialect D name = some d) :
    d ∈ D ∧ d.name = name := by
  unfold findDialect at h
  exact ⟨List.mem_of_find?_eq_some h, by simpa using List.find?_some h⟩

theorem findDialect_none (D : List Dialect) (name : Str) :
    findDialect D name = none ↔ ∀ d ∈ D, d.name ≠ name := by
  simp [findDialect, List.find?_eq_none]

theorem findDialect_of_mem (D : List Dialect) (h : namesDistinct D = true) (d : Dialect) (hd : d ∈ D) :
    findDialect D d.name = some d := by
  induction D with
  | nil => simp at hd
  | cons a D ih =>
    simp only [namesDistinct, Bool.and_eq_true, Bool.not_eq_true', List.any_eq_false, beq_iff_eq] at h
    unfold findDialect
    rw [List.find?_cons]
    rcases List.mem_cons.1 hd with rfl | hd'
    · simp
    · have : (a.name == d.name) = false := by
        simpa using fun heq => h.1 d hd' heq.symm
      rw [this]
      exact ih h.2 hd'

/-- `match_Language` on a header naming a dialect of the table: the matcher switches to it -/
theorem matchLine_language_known (D : List Dialect) (μ : MState) (t : Token) (l name : Str) (d : Dialect)
    (h : languageRe l = some name) (hd : findDialect D name = some d) :
    matchLine D .Language μ t l =
      ⟨setMatched μ t .Language (text := some name), { μ with name := name, dialect := d }, .matched⟩ := by
  have h' : languageRe (lineText l none) = some name := by
    simpa [lineText, trimmed, languageRe_lstrip] using h
  simp only [matchLine, h', hd]

/-- … on a header naming no dialect of the table: error at the header, matcher unchanged -/
theorem matchLine_language_unknown (D : List Dialect) (μ : MState) (t : Token) (l name : Str)
    (h : languageRe l = some name) (hd : findDialect D name = none) (hl : t.line = some l) :
    matchLine D .Language μ t l =
      ⟨setMatched μ t .Language (text := some name), μ,
        .raised ⟨.noSuchLanguage, ⟨t.lineNo, some (lineIndent l + 1)⟩, lit "Language not supported: " ++ name⟩⟩ := by
  have h' : languageRe (lineText l none) = some name := by
    simpa [lineText, trimmed, languageRe_lstrip] using h
  simp only [matchLine, h', hd, Token.loc, setMatched, hl]

theorem matchLine_language_no (D : List Dialect) (μ : MState) (t : Token) (l : Str)
    (h : languageRe l = none) : matchLine D .Language μ t l = ⟨t, μ, .no⟩ := by
  have h' : languageRe (lineText l none) = none := by
    simpa [lineText, trimmed, languageRe_lstrip] using h
  simp only [matchLine, h']

/-! ### lifting the Boolean table facts -/

theorem mem_titleKeywords_of_role (d : Dialect) (ty : Kind) (k : Str) (h : k ∈ d.roleKeywords ty) :
    k ∈ d.titleKeywords := by
  simp only [Dialect.titleKeywords, List.mem_append]
  cases ty <;> simp only [Dialect.roleKeywords, List.not_mem_nil, List.mem_append] at h <;> grind

theorem titleColonFree_spec {D : List Dialect} (h : titleColonFree D = true) {d : Dialect} (hd : d ∈ D)
    {k : Str} (hk : k ∈ d.titleKeywords) : 58 ∉ k := by
  simp only [titleColonFree, List.all_eq_true, colonFree, Bool.not_eq_true', List.contains_eq_mem,
    decide_eq_false_iff_not] at h
  exact h d hd k hk

theorem keywordsPlainStart_spec {D : List Dialect} (h : keywordsPlainStart D = true) {d : Dialect}
    (hd : d ∈ D) {k : Str} (hk : k ∈ d.allKeywords) : plainStart k = true := by
  simp only [keywordsPlainStart, List.all_eq_true] at h
  exact h d hd k hk

theorem noWsStart_of_plainStart {k : Str} (h : plainStart k = true) : noWsStart k = true := by
  simp only [plainStart, Bool.and_eq_true] at h
  exact h.1.1.1.1.1

theorem noEmptyKeyword_spec {D : List Dialect} (h : noEmptyKeyword D = true) {d : Dialect}
    (hd : d ∈ D) {k : Str} (hk : k ∈ d.allKeywords) : k ≠ [] := by
  simp only [noEmptyKeyword, List.all_eq_true, Bool.not_eq_true', List.isEmpty_eq_false_iff] at h
  exact h d hd k hk

theorem mem_allKeywords_title {d : Dialect} {k : Str} (h : k ∈ d.titleKeywords) : k ∈ d.allKeywords := by
  simp [Dialect.allKeywords, h]

theorem mem_allKeywords_step {d : Dialect} {k : Str} (h : k ∈ d.stepKeywords) : k ∈ d.allKeywords := by
  simp [Dialect.allKeywords, h]

theorem onlyStarRepeated_spec {D : List Dialect} (h : onlyStarRepeated D = true) {d : Dialect}
    (hd : d ∈ D) {k : Str} (hk : k ∈ d.stepKeywords) (hstar : k ≠ [42, 32]) : stepCount d k = 1 := by
  simp only [onlyStarRepeated, List.all_eq_true, Bool.or_eq_true, beq_iff_eq] at h
  rcases h d hd k hk with h1 | h1
  · exact h1
  · exact absurd h1 hstar

theorem starNotOnce_spec {D : List Dialect} (h : starNotOnce D = true) {d : Dialect} (hd : d ∈ D) :
    stepCount d [42, 32] ≠ 1 := by
  simp only [starNotOnce, List.all_eq_true, bne_iff_ne] at h
  exact h d hd

/-- unpacking of the combined checker -/
theorem keywordFacts_spec {D : List Dialect} (h : keywordFacts D = true) :
    noEmptyKeyword D = true ∧ keywordsPlainStart D = true ∧ titleColonFree D = true ∧
    namesDistinct D = true ∧ onlyStarRepeated D = true ∧ starNotOnce D = true ∧
    noStepTitleClash D = true ∧ noCrossRoleClash D = true := by
  simp only [keywordFacts, Bool.and_eq_true] at h
  obtain ⟨⟨⟨⟨⟨⟨⟨a, b⟩, c⟩, e⟩, f⟩, g⟩, i⟩, j⟩ := h
  exact ⟨a, b, c, e, f, g, i, j⟩

theorem markdownFacts_spec {D : List Dialect} (h : markdownFacts D = true) :
    titleColonFree D = true ∧ keywordsPlainStart D = true ∧ noEmptyKeyword D = true := by
  simpa [markdownFacts, and_assoc] using h

/-- `C05_title` for a dialect of a table that passed the checks -/
theorem title_in_table (D D' : List Dialect) (hf : keywordFacts D' = true) (ty : Kind)
    (hty : ty.isTitle = true) (μ : MState) (hμ : μ.dialect ∈ D') (t : Token) (ws k rest : Str)
    (hk : k ∈ μ.dialect.roleKeywords ty) (hws : ∀ c ∈ ws, isSpace c = true) :
    matchLine D ty μ t (ws ++ k ++ [58] ++ rest) =
      ⟨setMatched μ t ty (text := some (strip rest)) (keyword := some k), μ, .matched⟩ := by
  obtain ⟨_, hps, hcf, _⟩ := keywordFacts_spec hf
  exact matchLine_title_keyword D ty hty μ t ws k rest hk
    (fun k' hk' => titleColonFree_spec hcf hμ (mem_titleKeywords_of_role _ ty k' hk')) hws
    (noWsStart_of_plainStart (keywordsPlainStart_spec hps hμ
      (mem_allKeywords_title (mem_titleKeywords_of_role _ ty k hk))))

/-- `C05_keyword_type` for a dialect of a table that passed the checks -/
theorem ktype_in_table (D : List Dialect) (hf : keywordFacts D = true) (d : Dialect) (hd : d ∈ D) (kw : Str) :
    (kw ≠ [42, 32] →
      (kw ∈ d.given → stepKType d kw = .Context) ∧ (kw ∈ d.when_ → stepKType d kw = .Action) ∧
      (kw ∈ d.then_ → stepKType d kw = .Outcome) ∧
      (kw ∈ d.and_ ∨ kw ∈ d.but_ → stepKType d kw = .Conjunction)) ∧
    stepKType d [42, 32] = .Unknown := by
  obtain ⟨_, _, _, _, hor, hst, _⟩ := keywordFacts_spec hf
  refine ⟨fun hne => ?_, stepKType_not_once d _ (starNotOnce_spec hst hd)⟩
  have hc : kw ∈ d.stepKeywords → stepCount d kw = 1 := fun hm => onlyStarRepeated_spec hor hd hm hne
  refine ⟨fun hm => ?_, fun hm => ?_, fun hm => ?_, fun hm => ?_⟩
  · exact (stepKType_once d kw (hc ((mem_stepKeywords d kw).2 (by simp [hm])))).1 hm
  · exact (stepKType_once d kw (hc ((mem_stepKeywords d kw).2 (by simp [hm])))).2.1 hm
  · exact (stepKType_once d kw (hc ((mem_stepKeywords d kw).2 (by simp [hm])))).2.2.1 hm
  · exact (stepKType_once d kw (hc ((mem_stepKeywords d kw).2 (by simp [hm])))).2.2.2 hm

/-- `C05_dialect_reported` (all title kinds): a matched title token carries the dialect in force
    and the matcher state is unchanged -/
theorem matchLine_title_dialect (D : List Dialect) (ty : Kind) (hty : ty.isTitle = true) (μ μ' : MState)
    (t t' : Token) (l : Str) (h : matchLine D ty μ t l = ⟨t', μ', .matched⟩) :
    t'.dialect = μ.name ∧ μ' = μ ∧ t'.mtype = some ty ∧
    ∃ k ∈ μ.dialect.roleKeywords ty, t'.keyword = some k := by
  rcases matchLine_title_matched D ty hty μ t l with ⟨t'', h1, k, hk, _, hkw, hdi, hmt⟩ | ⟨h1, _⟩
  · rw [h1] at h
    cases h
    exact ⟨hdi, rfl, hmt, k, hk, hkw⟩
  · rw [h1] at h
    cases h

/-- `C05_foreign_plain`: no keyword of the dialect in force prefixes the line ⇒ neither a title
    kind nor a step matches -/
theorem matchLine_foreign (D : List Dialect) (μ : MState) (t : Token) (l : Str)
    (htitle : ∀ k ∈ μ.dialect.titleKeywords, startsWith (k ++ [58]) (trimmed l) = false)
    (hstep : ∀ k ∈ μ.dialect.stepKeywords, startsWith k (trimmed l) = false)
    (ty : Kind) (hty : ty.isTitle = true ∨ ty = .StepLine) :
    matchLine D ty μ t l = ⟨t, μ, .no⟩ := by
  rcases hty with hty | rfl
  · exact matchLine_title_none D ty hty μ t l fun k hk =>
      htitle k (mem_titleKeywords_of_role _ ty k hk)
  · exact matchLine_step_none D μ t l hstep

/-! ### a line has at most one of the keyword kinds (facts `noStepTitleClash`, `noCrossRoleClash`) -/

theorem prefix_comparable (a b s : Str) (ha : startsWith a s = true) (hb : startsWith b s = true) :
    startsWith a b = true ∨ startsWith b a = true := by
  induction a generalizing b s with
  | nil => exact .inl (by simp [startsWith])
  | cons x a ih =>
    cases b with
    | nil => exact .inr (by simp [startsWith])
    | cons y b =>
      cases s with
      | nil => simp [startsWith] at ha
      | cons z s =>
        simp only [startsWith, Bool.and_eq_true, beq_iff_eq] at ha hb ⊢
        obtain ⟨rfl, ha⟩ := ha
        obtain ⟨rfl, hb⟩ := hb
        rcases ih b s ha hb with h | h
        · exact .inl ⟨rfl, h⟩
        · exact .inr ⟨rfl, h⟩

theorem noStepTitleClash_spec {D : List Dialect} (h : noStepTitleClash D = true) {d : Dialect} (hd : d ∈ D)
    {s k : Str} (hs : s ∈ d.stepKeywords) (hk : k ∈ d.titleKeywords) :
    startsWith s (k ++ [58]) = false ∧ startsWith (k ++ [58]) s = false := by
  simp only [noStepTitleClash, List.all_eq_true, Bool.and_eq_true, Bool.not_eq_true'] at h
  exact h d hd s hs k hk

/-- a line prefixed by a step keyword is prefixed by no title keyword + `:` and vice versa -/
theorem step_title_disjoint {D : List Dialect} (h : noStepTitleClash D = true) {d : Dialect} (hd : d ∈ D)
    (x : Str) {s k : Str} (hs : s ∈ d.stepKeywords) (hk : k ∈ d.titleKeywords)
    (h1 : startsWith s x = true) (h2 : startsWith (k ++ [58]) x = true) : False := by
  obtain ⟨c1, c2⟩ := noStepTitleClash_spec h hd hs hk
  rcases prefix_comparable s (k ++ [58]) x h1 h2 with h3 | h3
  · rw [c1] at h3; cases h3
  · rw [c2] at h3; cases h3

theorem mem_titleRoles (d : Dialect) (ty : Kind) (hty : ty.isTitle = true) (k : Str)
    (hk : k ∈ d.roleKeywords ty) : (roleNo ty, k) ∈ titleRoles d := by
  cases ty <;> first
    | exact absurd hty (by decide)
    | (simp only [Dialect.roleKeywords, List.mem_append] at hk
       simp only [titleRoles, roleNo, List.mem_append, List.mem_map, Prod.mk.injEq]
       grind)

theorem roleNo_inj (a b : Kind) (ha : a.isTitle = true) (hb : b.isTitle = true)
    (h : roleNo a = roleNo b) : a = b := by
  cases a <;> cases b <;> first | rfl | exact absurd ha (by decide) | exact absurd hb (by decide) | exact absurd h (by decide)

/-- keywords + `:` of two different title kinds never prefix the same line -/
theorem title_title_disjoint {D : List Dialect} (h : noCrossRoleClash D = true) {d : Dialect} (hd : d ∈ D)
    (x : Str) (ty1 ty2 : Kind) (h1 : ty1.isTitle = true) (h2 : ty2.isTitle = true) (hne : ty1 ≠ ty2)
    {k1 k2 : Str} (hk1 : k1 ∈ d.roleKeywords ty1) (hk2 : k2 ∈ d.roleKeywords ty2)
    (hp1 : startsWith (k1 ++ [58]) x = true) (hp2 : startsWith (k2 ++ [58]) x = true) : False := by
  simp only [noCrossRoleClash, List.all_eq_true, Bool.or_eq_true, beq_iff_eq, Bool.not_eq_true'] at h
  have m1 := mem_titleRoles d ty1 h1 k1 hk1
  have m2 := mem_titleRoles d ty2 h2 k2 hk2
  have hno : roleNo ty1 ≠ roleNo ty2 := fun e => hne (roleNo_inj ty1 ty2 h1 h2 e)
  rcases prefix_comparable _ _ x hp1 hp2 with h3 | h3
  · rcases h d hd _ m1 _ m2 with e | e
    · exact hno e
    · rw [e] at h3; cases h3
  · rcases h d hd _ m2 _ m1 with e | e
    · exact hno e.symm
    · rw [e] at h3; cases h3

/-- in a dialect of a checked table a line matches at most one of StepLine and the five title
    kinds: if `ty1` matches, every other kind `ty2` among them does not -/
theorem keyword_kinds_exclusive (D D' : List Dialect) (hf : keywordFacts D' = true) (μ : MState)
    (hμ : μ.dialect ∈ D') (t : Token) (l : Str) (ty1 ty2 : Kind)
    (h1 : ty1.isTitle = true ∨ ty1 = .StepLine) (h2 : ty2.isTitle = true ∨ ty2 = .StepLine)
    (hne : ty1 ≠ ty2) (t' : Token) (μ' : MState) (hm : matchLine D ty1 μ t l = ⟨t', μ', .matched⟩) :
    matchLine D ty2 μ t l = ⟨t, μ, .no⟩ := by
  obtain ⟨_, _, _, _, _, _, hst, hcr⟩ := keywordFacts_spec hf
  -- what made `ty1` match
  have w1 : (ty1 = .StepLine ∧ ∃ s ∈ μ.dialect.stepKeywords, startsWith s (trimmed l) = true) ∨
      (ty1.isTitle = true ∧ ∃ k ∈ μ.dialect.roleKeywords ty1, startsWith (k ++ [58]) (trimmed l) = true) := by
    rcases h1 with h1 | rfl
    · right
      rcases matchLine_title_matched D ty1 h1 μ t l with ⟨_, _, k, hk, hp, _⟩ | ⟨hno, _⟩
      · exact ⟨h1, k, hk, hp⟩
      · rw [hno] at hm; cases hm
    · left
      rcases matchLine_step_cases D μ t l with ⟨pre, kw, post, hsp, hp, _, _⟩ | ⟨_, hno⟩
      · exact ⟨rfl, kw, by simp [hsp], hp⟩
      · rw [hno] at hm; cases hm
  rcases h2 with h2 | rfl
  · apply matchLine_title_none D ty2 h2
    intro k2 hk2
    cases hp2 : startsWith (k2 ++ [58]) (trimmed l) with
    | false => rfl
    | true =>
      exfalso
      rcases w1 with ⟨_, s, hs, hp⟩ | ⟨ht1, k1, hk1, hp1⟩
      · exact step_title_disjoint hst hμ _ hs (mem_titleKeywords_of_role _ ty2 k2 hk2) hp hp2
      · exact title_title_disjoint hcr hμ _ ty1 ty2 ht1 h2 hne hk1 hk2 hp1 hp2
  · apply matchLine_step_none
    intro s hs
    cases hp : startsWith s (trimmed l) with
    | false => rfl
    | true =>
      exfalso
      rcases w1 with ⟨e, _⟩ | ⟨ht1, k1, hk1, hp1⟩
      · exact hne e
      · exact step_title_disjoint hst hμ _ hs (mem_titleKeywords_of_role _ ty1 k1 hk1) hp hp1

end GV.Lemmas
