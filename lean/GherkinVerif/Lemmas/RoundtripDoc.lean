/-
  Lemmas/RoundtripDoc.lean — property C03, round trip: the main loop of the queue-free parse over the
  rendered lines, the look-ahead on a scenario's tag line, and the induction over the model.
-/
import GherkinVerif.Lemmas.RoundtripRun
set_option linter.unusedSectionVars false
set_option linter.unusedSimpArgs false
set_option linter.unusedVariables false
namespace GV
namespace Lemmas
open Spec

section loop
variable (D : List Dialect) (stop : Bool) (T : Table)
variable {c : Ctx} {ls : List Str} {n : Nat} {μ : MState} {β : BState} {i : Nat}

/-- one iteration of the main loop on a line -/
theorem lines_step (fuel s s' : Nat) (l : Str) (h : At c (l :: ls) n μ β i) (β' : BState) (i' : Nat)
    (hstep : ∀ c1, At c1 ls (n + 1) μ β i →
      ∃ c', run (matchTokenPure D T stop s { line := some l, lineNo := n + 1 }) c1 = (.ok s', c') ∧
        At c' ls (n + 1) μ β' i') :
    ∃ c', At c' ls (n + 1) μ β' i' ∧
      run (parseLinesPure D T stop (fuel + 1) s) c = run (parseLinesPure D T stop fuel s') c' := by
  obtain ⟨c', hr, hc'⟩ := hstep
    { c with lines := ls, lineNo := n + 1, reads := c.reads ++ [n + 1] }
    ⟨rfl, rfl, h.mu, h.beta, h.ids, h.errs⟩
  refine ⟨c', hc', ?_⟩
  rw [parseLinesPure]
  simp only [prun_bind, run_get, h.lines, h.lineNo, run_set, prun_pure, run_modify, hr, Token.eof,
    Option.isNone_some, Bool.false_eq_true, if_false]

/-- the last iteration: the end-of-file token -/
theorem lines_eof (fuel s s' : Nat) (h : At c [] n μ β i) (β' : BState) (i' : Nat)
    (hstep : ∀ c1, At c1 [] (n + 1) μ β i →
      ∃ c', run (matchTokenPure D T stop s { line := none, lineNo := n + 1 }) c1 = (.ok s', c') ∧
        At c' [] (n + 1) μ β' i') :
    ∃ c', run (parseLinesPure D T stop (fuel + 1) s) c = (.ok s', c') ∧ At c' [] (n + 1) μ β' i' := by
  obtain ⟨c', hr, hc'⟩ := hstep
    { c with lines := [], lineNo := n + 1, reads := c.reads ++ [n + 1] }
    ⟨rfl, rfl, h.mu, h.beta, h.ids, h.errs⟩
  refine ⟨c', ?_, hc'⟩
  rw [parseLinesPure]
  simp only [prun_bind, run_get, h.lines, h.lineNo, run_set, prun_pure, run_modify, hr, Token.eof,
    Option.isNone_none, if_true]

end loop

/-! ### the look-ahead on a scenario's tag line -/

def la0 : LookAhead := ⟨[.ScenarioLine], [.Empty, .Comment, .TagLine]⟩
def la1 : LookAhead := ⟨[.ExamplesLine], [.Empty, .Comment, .TagLine]⟩

section peek
variable (D : List Dialect) (cap : Nat) (stop : Bool)
variable {c : Ctx} {ls : List Str} {n : Nat} {μ : MState} {β : BState} {i : Nat}
variable (l2 : Str) (t2 : Token)
variable (hno2 : ∀ K', K' ≠ .ScenarioLine → K' ≠ .Other →
  matchLine D K' μ { line := some l2, lineNo := n + 1 } l2 = ⟨{ line := some l2, lineNo := n + 1 }, μ, .no⟩)
variable (hyes2 : matchLine D .ScenarioLine μ { line := some l2, lineNo := n + 1 } l2 = ⟨t2, μ, .matched⟩)
include hno2 hyes2

/-- peeking for an `Examples` line at a scenario line: no -/
theorem peek_examples_false (h : At c (l2 :: ls) n μ β i) :
    ∃ c', run (lookaheadPure D cap stop la1) c = (.ok false, c') ∧ At c' (l2 :: ls) n μ β i := by
  obtain ⟨c1, r1, h1⟩ := matchP_line D cap stop h .ExamplesLine _ _ l2 rfl false (hno2 _ (by decide) (by decide))
  obtain ⟨c2, r2, h2⟩ := matchP_line D cap stop h1 .Empty _ _ l2 rfl false (hno2 _ (by decide) (by decide))
  obtain ⟨c3, r3, h3⟩ := matchP_line D cap stop h2 .Comment _ _ l2 rfl false (hno2 _ (by decide) (by decide))
  obtain ⟨c4, r4, h4⟩ := matchP_line D cap stop h3 .TagLine _ _ l2 rfl false (hno2 _ (by decide) (by decide))
  refine ⟨c4, ?_, h4⟩
  rw [lookaheadPure, prun_bind, run_get]
  simp only [h.lines, h.lineNo, la1, peekLoop, matchAny, prun_bind, r1, r2, r3, r4, prun_pure,
    Bool.false_eq_true, if_false]

/-- peeking for a scenario line at a scenario line: yes -/
theorem peek_scenario_true (h : At c (l2 :: ls) n μ β i) :
    ∃ c', run (lookaheadPure D cap stop la0) c = (.ok true, c') ∧ At c' (l2 :: ls) n μ β i := by
  obtain ⟨c1, r1, h1⟩ := matchP_line D cap stop h .ScenarioLine _ _ l2 rfl true hyes2
  refine ⟨c1, ?_, h1⟩
  rw [lookaheadPure, prun_bind, run_get]
  simp only [h.lines, h.lineNo, la0, peekLoop, matchAny, prun_bind, r1, prun_pure, if_true]

/-- the `TagLine` branch guarded by look-ahead 0, provided only specific non-tag tests and `TagLine`
    tests guarded by look-ahead 1 come before it -/
def firstTag0 : List Branch → Option Branch
  | [] => none
  | b :: bs =>
    if b.kind == .TagLine then
      (if b.guard == some 0 then some b else if b.guard == some 1 then firstTag0 bs else none)
    else if b.kind == .Other then none else firstTag0 bs

omit hno2 hyes2 in
theorem firstTag0_guard : ∀ (bs : List Branch) (b : Branch), firstTag0 bs = some b → b.guard = some 0 := by
  intro bs
  induction bs with
  | nil => intro b h; cases h
  | cons a bs ih =>
    intro b h
    simp only [firstTag0] at h
    split at h
    · split at h
      · next hg => cases h; simpa using hg
      · split at h
        · exact ih b h
        · cases h
    · split at h
      · cases h
      · exact ih b h

/-- a tag line followed by a scenario line takes the `TagLine` branch guarded by look-ahead 0 -/
theorem try_tag0 (T : Table) (row : StateRow) (hla : T.lookaheads = [la0, la1]) (l : Str) (tt : Token)
    (htt : tt.line = some l) (m : Nat) (httn : tt.lineNo = m)
    (hno : ∀ t K', K' ≠ .TagLine → K' ≠ .Other → matchLine D K' μ t l = ⟨t, μ, .no⟩)
    (hyes : ∀ t, t.line = some l → t.lineNo = m → matchLine D .TagLine μ t l = ⟨tt, μ, .matched⟩)
    (β' : BState) (i' : Nat) :
    ∀ (bs : List Branch) (b : Branch), firstTag0 bs = some b →
      applyOps (prodOps tt b.prods) β i = (.ok (), β', i') →
      ∀ (t : Token) (c : Ctx), t.line = some l → t.lineNo = m → At c (l2 :: ls) n μ β i →
      ∃ c', run (tryBranchesPure D T stop row bs t) c = (.ok b.target, c') ∧ At c' (l2 :: ls) n μ β' i' := by
  intro bs
  induction bs with
  | nil => intro b h; cases h
  | cons a bs ih =>
    intro b hb hops t c hl hln h
    have hbg := firstTag0_guard _ _ hb
    simp only [firstTag0] at hb
    split at hb
    · next hk =>
      have hk' : a.kind = .TagLine := by simpa using hk
      obtain ⟨c1, r1, h1⟩ := matchP_line D T.errorCap stop h a.kind t tt l hl true (hk' ▸ hyes t hl hln)
      split at hb
      · next hg =>
        cases hb
        have hg' : a.guard = some 0 := by simpa using hg
        obtain ⟨c2, r2, h2⟩ := peek_scenario_true D T.errorCap stop l2 t2 hno2 hyes2 h1
        obtain ⟨c', r3, hc'⟩ := runProds_ok T.errorCap stop tt a.prods h2 β' i' hops
        refine ⟨c', ?_, hc'⟩
        rw [tryBranchesPure, prun_bind, r1]
        simp only [hg', hla, if_true, prun_bind, prun_pure, List.getElem?_cons_zero, r2, r3]
      · split at hb
        · next hg =>
          have hg' : a.guard = some 1 := by simpa using hg
          obtain ⟨c2, r2, h2⟩ := peek_examples_false D T.errorCap stop l2 t2 hno2 hyes2 h1
          obtain ⟨c', r3, hc'⟩ := ih b hb hops tt c2 htt httn h2
          refine ⟨c', ?_, hc'⟩
          rw [tryBranchesPure, prun_bind, r1]
          simp only [hg', hla, if_true, prun_bind, prun_pure, List.getElem?_cons_succ, List.getElem?_cons_zero,
            r2, Bool.false_eq_true, if_false, r3]
        · cases hb
    · next hk =>
      split at hb
      · cases hb
      · next ho =>
        obtain ⟨c1, r1, h1⟩ := matchP_line D T.errorCap stop h a.kind t t l hl false
          (hno t _ (by simpa using hk) (by simpa using ho))
        obtain ⟨c', r3, hc'⟩ := ih b hb hops t c1 hl hln h1
        refine ⟨c', ?_, hc'⟩
        rw [tryBranchesPure, prun_bind, r1]
        simp only [Bool.false_eq_true, if_false, r3]

end peek

/-! ### builder stacks of a rendered document, table facts -/

def G0 : List Node := [⟨.GherkinDocument, []⟩, ⟨.None_, []⟩]
def featStack (fi : List (Key × Val)) : BState := ⟨⟨.Feature, fi⟩ :: G0, []⟩

/-- the `end_rule` calls that close what is open in the three states a scenario can follow -/
def closeOf : Nat → List Prod
  | 3 => [.end_ .FeatureHeader]
  | 10 => [.end_ .Scenario, .end_ .ScenarioDefinition]
  | 12 => [.end_ .Step, .end_ .Scenario, .end_ .ScenarioDefinition]
  | _ => []

/-- in state `s` with builder `β` and counter `i`, closing what is open leaves the `Feature` node with
    items `fi` on top and the counter at `i0` -/
def Closes (s : Nat) (β : BState) (i : Nat) (fi : List (Key × Val)) (i0 : Nat) : Prop :=
  (s = 3 ∨ s = 10 ∨ s = 12) ∧ ∀ t, applyOps (prodOps t (closeOf s)) β i = (.ok (), featStack fi, i0)

theorem prodOps_append (t : Token) (a b : List Prod) : prodOps t (a ++ b) = prodOps t a ++ prodOps t b := by
  induction a with
  | nil => rfl
  | cons p a ih => cases p <;> simp [prodOps, ih]

def rowHas (T : Table) (s : Nat) (p : StateRow → Bool) : Bool :=
  match T.row? s with
  | some row => p row
  | none => false

theorem rowHas_spec {T : Table} {s : Nat} {p : StateRow → Bool} (h : rowHas T s p = true) :
    ∃ row, T.row? s = some row ∧ p row = true := by
  unfold rowHas at h
  split at h
  · next row hr => exact ⟨row, hr, h⟩
  · cases h

/-- a state a scenario (or the end of file) can follow: the `ScenarioLine`, look-ahead-0 `TagLine` and
    `EOF` branches close what is open (`closeOf`) and then open the scenario / finish the feature -/
def midOK (T : Table) (s : Nat) : Bool :=
  rowHas T s fun row =>
    firstOf .ScenarioLine row.branches ==
      some ⟨.ScenarioLine, none, closeOf s ++ [.start .ScenarioDefinition, .start .Scenario, .build], 10⟩ &&
    firstTag0 row.branches ==
      some ⟨.TagLine, some 0, closeOf s ++ [.start .ScenarioDefinition, .start .Tags, .build], 9⟩ &&
    row.branches.head? == some ⟨.EOF, none, closeOf s ++ [.end_ .Feature, .build], 34⟩

/-- the facts about the parser table the round trip uses (evaluated by the kernel on the regenerated table) -/
def rtFacts (T : Table) : Bool :=
  T.lookaheads == [la0, la1] && T.startRule == .GherkinDocument && midOK T 3 && midOK T 10 && midOK T 12 &&
  rowHas T 9 (fun row => firstOf .ScenarioLine row.branches ==
    some ⟨.ScenarioLine, none, [.end_ .Tags, .start .Scenario, .build], 10⟩) &&
  rowHas T 10 (fun row => firstOf .StepLine row.branches == some ⟨.StepLine, none, [.start .Step, .build], 12⟩) &&
  rowHas T 12 (fun row => firstOf .StepLine row.branches ==
    some ⟨.StepLine, none, [.end_ .Step, .start .Step, .build], 12⟩) &&
  rowHas T 0 (fun row =>
    firstOf .FeatureLine row.branches ==
      some ⟨.FeatureLine, none, [.start .Feature, .start .FeatureHeader, .build], 3⟩ &&
    firstOf .TagLine row.branches ==
      some ⟨.TagLine, none, [.start .Feature, .start .FeatureHeader, .start .Tags, .build], 2⟩) &&
  rowHas T 2 (fun row => firstOf .FeatureLine row.branches == some ⟨.FeatureLine, none, [.end_ .Tags, .build], 3⟩)

structure RtTable (T : Table) : Prop where
  la : T.lookaheads = [la0, la1]
  start : T.startRule = .GherkinDocument
  mid : ∀ s, s = 3 ∨ s = 10 ∨ s = 12 → midOK T s = true
  r0 : ∃ row, T.row? 0 = some row ∧
    firstOf .FeatureLine row.branches =
      some ⟨.FeatureLine, none, [.start .Feature, .start .FeatureHeader, .build], 3⟩ ∧
    firstOf .TagLine row.branches =
      some ⟨.TagLine, none, [.start .Feature, .start .FeatureHeader, .start .Tags, .build], 2⟩
  r2 : ∃ row, T.row? 2 = some row ∧
    firstOf .FeatureLine row.branches = some ⟨.FeatureLine, none, [.end_ .Tags, .build], 3⟩
  r9 : ∃ row, T.row? 9 = some row ∧
    firstOf .ScenarioLine row.branches = some ⟨.ScenarioLine, none, [.end_ .Tags, .start .Scenario, .build], 10⟩
  r10 : ∃ row, T.row? 10 = some row ∧
    firstOf .StepLine row.branches = some ⟨.StepLine, none, [.start .Step, .build], 12⟩
  r12 : ∃ row, T.row? 12 = some row ∧
    firstOf .StepLine row.branches = some ⟨.StepLine, none, [.end_ .Step, .start .Step, .build], 12⟩

theorem RtTable.of_facts {T : Table} (h : rtFacts T = true) : RtTable T := by
  simp only [rtFacts, Bool.and_eq_true, beq_iff_eq] at h
  obtain ⟨⟨⟨⟨⟨⟨⟨⟨⟨h1, h2⟩, h3⟩, h4⟩, h5⟩, h6⟩, h7⟩, h8⟩, h9⟩, h10⟩ := h
  refine ⟨h1, h2, ?_, ?_, ?_, ?_, ?_, ?_⟩
  · rintro s (rfl | rfl | rfl) <;> assumption
  · obtain ⟨row, hr, hp⟩ := rowHas_spec h9
    simp only [Bool.and_eq_true, beq_iff_eq] at hp
    exact ⟨row, hr, hp.1, hp.2⟩
  · obtain ⟨row, hr, hp⟩ := rowHas_spec h10
    simp only [beq_iff_eq] at hp
    exact ⟨row, hr, hp⟩
  · obtain ⟨row, hr, hp⟩ := rowHas_spec h6
    simp only [beq_iff_eq] at hp
    exact ⟨row, hr, hp⟩
  · obtain ⟨row, hr, hp⟩ := rowHas_spec h7
    simp only [beq_iff_eq] at hp
    exact ⟨row, hr, hp⟩
  · obtain ⟨row, hr, hp⟩ := rowHas_spec h8
    simp only [beq_iff_eq] at hp
    exact ⟨row, hr, hp⟩

/-! ### the feature's own lines, and the end of file -/

section doc
variable {D' : List Dialect} (hf : keywordFacts D' = true) (hr : renderFacts D' = true)
variable (D : List Dialect) (stop : Bool) (T : Table) (RTf : RtTable T)
variable {μ : MState} (hμ : μ.dialect ∈ D') (hsep : μ.activeSep = none)
include hf hr RTf hμ hsep

theorem title_others_no (ty : Kind) (hty : ty.isTitle = true) (kw name : Str)
    (hk : kw ∈ μ.dialect.roleKeywords ty) (hn : cleanText name = true) (t : Token)
    (hl : t.line = some (titleLineOf kw name ++ [10])) (K : Kind) (hK : K ≠ ty) (hO : K ≠ .Other) :
    matchLine D K μ t (titleLineOf kw name ++ [10]) = ⟨t, μ, .no⟩ := by
  have hka : kw ∈ μ.dialect.allKeywords := mem_allKeywords_title (mem_titleKeywords_of_role _ ty kw hk)
  obtain ⟨c, r, htr, hc⟩ := kwline_head hf hr μ hμ kw hka [] ([58] ++ ([32] ++ name) ++ [10]) (by simp)
  have e : titleLineOf kw name ++ [10] = [] ++ kw ++ ([58] ++ ([32] ++ name) ++ [10]) := by simp [titleLineOf]
  rw [← e] at htr
  exact kwline_others_no hf hr D μ hμ hsep t _ c r htr hc ty (.inl hty) _ _
    (title_match hf hr D μ hμ ty hty kw name hk hn t t.lineNo hl rfl) K hK hO

/-- the header item of the `Feature` node of a rendered document -/
def hdrItem (μ : MState) (tags : List Str) (kw name : Str) : Key × Val :=
  (.rule .FeatureHeader, .raw .FeatureHeader
    (tagsItem μ 1 tags ++ [(.tok .FeatureLine, .tok (titleTok μ (1 + tagLines tags) .FeatureLine kw name))]))

/-- from the start state over the feature's tag line (if any) and keyword line to state 3 -/
theorem feature_head (tags : List Str) (kw name : Str) (htags : ∀ t ∈ tags, tagOK t = true)
    (hk : kw ∈ μ.dialect.feature) (hn : cleanText name = true) (rest : List Str) (i fuel : Nat) (c : Ctx)
    (h : At c ((tagLineOf tags ++ [titleLineOf kw name]).map (· ++ [10]) ++ rest) 0 μ ⟨G0, []⟩ i) :
    ∃ c' β', At c' rest (1 + tagLines tags) μ β' i ∧ Closes 3 β' i [hdrItem μ tags kw name] i ∧
      run (parseLinesPure D T stop (fuel + (1 + tagLines tags)) 0) c = run (parseLinesPure D T stop fuel 3) c' := by
  obtain ⟨row0, hrow0, hfl0, htl0⟩ := RTf.r0
  obtain ⟨row2, hrow2, hfl2⟩ := RTf.r2
  by_cases ht : tags = []
  · subst ht
    simp only [tagLineOf, List.isEmpty_nil, if_true, List.nil_append, List.map_cons, List.map_nil,
      List.singleton_append] at h
    obtain ⟨c', hc', hrun⟩ := lines_step D stop T fuel 0 3 _ h
      ⟨⟨.FeatureHeader, [(.tok .FeatureLine, .tok (titleTok μ 1 .FeatureLine kw name))]⟩ :: ⟨.Feature, []⟩ :: G0, []⟩ i
      (by
        intro c1 h1
        simp only [matchTokenPure, hrow0]
        exact try_first D stop T row0 _ (titleTok μ 1 .FeatureLine kw name) _ rfl .FeatureLine _ hfl0 rfl h1
          (fun K' h1' h2' => title_others_no hf hr D T RTf hμ hsep .FeatureLine rfl kw name hk hn _ rfl K' h1' h2')
          (title_match hf hr D μ hμ .FeatureLine rfl kw name hk hn _ 1 rfl rfl) _ _ rfl)
    refine ⟨c', _, hc', ⟨.inl rfl, fun t => ?_⟩, ?_⟩
    · simp only [closeOf, prodOps, applyOps, applyOp, endRule_raw .FeatureHeader (.inr (.inr rfl))]
      rfl
    · simpa [tagLines] using hrun
  · have hemp : tags.isEmpty = false := by cases tags <;> simp_all
    simp only [tagLineOf, hemp, Bool.false_eq_true, if_false, List.singleton_append, List.map_cons, List.map_nil,
      List.cons_append, List.nil_append] at h
    obtain ⟨c1, hc1, hrun1⟩ := lines_step D stop T (fuel + 1) 0 2 _ h
      ⟨⟨.Tags, [(.tok .TagLine, .tok (tagTok μ 1 tags))]⟩ :: ⟨.FeatureHeader, []⟩ :: ⟨.Feature, []⟩ :: G0, []⟩ i
      (by
        intro c1 h1
        simp only [matchTokenPure, hrow0]
        exact try_first D stop T row0 _ (tagTok μ 1 tags) _ rfl .TagLine _ htl0 rfl h1
          (fun K' h1' h2' => tagline_others_no hf hr D μ hμ tags ht htags hsep _ K' h1' h2')
          (tag_match D μ tags ht htags _ 1 rfl rfl) _ _ rfl)
    obtain ⟨c', hc', hrun⟩ := lines_step D stop T fuel 2 3 _ hc1
      ⟨⟨.FeatureHeader, [(.rule .Tags, .raw .Tags [(.tok .TagLine, .tok (tagTok μ 1 tags))]),
        (.tok .FeatureLine, .tok (titleTok μ 2 .FeatureLine kw name))]⟩ :: ⟨.Feature, []⟩ :: G0, []⟩ i
      (by
        intro c2 h2
        simp only [matchTokenPure, hrow2]
        exact try_first D stop T row2 _ (titleTok μ 2 .FeatureLine kw name) _ rfl .FeatureLine _ hfl2 rfl h2
          (fun K' h1' h2' => title_others_no hf hr D T RTf hμ hsep .FeatureLine rfl kw name hk hn _ rfl K' h1' h2')
          (title_match hf hr D μ hμ .FeatureLine rfl kw name hk hn _ 2 rfl rfl) _ _
          (by simp only [prodOps, applyOps, applyOp, endRule_raw .Tags (.inr (.inl rfl))]; rfl))
    have htl : tagLines tags = 1 := by simp [tagLines, hemp]
    refine ⟨c', _, by rw [htl]; exact hc', ⟨.inl rfl, fun t => ?_⟩, ?_⟩
    · simp only [closeOf, prodOps, applyOps, applyOp, endRule_raw .FeatureHeader (.inr (.inr rfl))]
      simp [hdrItem, tagsItem, hemp, htl, featStack]
    · rw [htl, hrun1, hrun]

/-- the end of file in a state a scenario can follow: the feature is finished and handed to the
    document node together with the end-of-file token -/
theorem finish (s : Nat) (β : BState) (i i0 n fuel : Nat) (tags : List Str) (kw name : Str) (S : List Scenario)
    (hcl : Closes s β i (hdrItem μ tags kw name :: scItems S) i0) (c : Ctx) (h : At c [] n μ β i) :
    ∃ c' te, run (parseLinesPure D T stop (fuel + 1) s) c = (.ok 34, c') ∧
      At c' [] (n + 1) μ ⟨[⟨.GherkinDocument, [(.rule .Feature,
        .feature (mkFeat 1 (1 + tagLines tags) i0 tags μ.name kw name S)), (.tok .EOF, .tok te)]⟩, ⟨.None_, []⟩], []⟩
        (i0 + tags.length) := by
  obtain ⟨row, hrow, hp⟩ := rowHas_spec (RTf.mid s hcl.1)
  simp only [Bool.and_eq_true, beq_iff_eq] at hp
  obtain ⟨-, hhead⟩ := hp
  obtain ⟨rest, hbs⟩ : ∃ rest, row.branches =
      ⟨.EOF, none, closeOf s ++ [.end_ .Feature, .build], 34⟩ :: rest := by
    cases hb : row.branches with
    | nil => rw [hb] at hhead; cases hhead
    | cons a r => rw [hb] at hhead; simp only [List.head?_cons, Option.some.injEq] at hhead; exact ⟨r, by rw [hhead]⟩
  obtain ⟨c', hrun, hc'⟩ := lines_eof D stop T fuel s 34 h _ _
    (by
      intro c1 h1
      simp only [matchTokenPure, hrow, hbs]
      exact try_eof D stop T row _ rfl _ rest rfl rfl h1 _ _
        (by
          simp only [prodOps_append]
          rw [applyOps_append_ok _ _ _ _ _ _ (hcl.2 _)]
          simp only [prodOps, applyOps, applyOp, featStack, G0, hdrItem, endRule_feature]
          rfl))
  exact ⟨c', _, hrun, hc'⟩

end doc

/-! ### from the main loop to the outcome -/

def docStack (f : Feature) (te : Token) : BState :=
  ⟨[⟨.GherkinDocument, [(.rule .Feature, .feature f), (.tok .EOF, .tok te)]⟩, ⟨.None_, []⟩], []⟩

theorem endRule_docStack (f : Feature) (te : Token) (i : Nat) :
    (docStack f te).endRule i =
      (.ok (), ⟨[⟨.None_, [(.rule .GherkinDocument, .doc ⟨some f, []⟩)]⟩], []⟩, i) := rfl

/-- if the main loop, started on the lines of `src` with a fresh builder, ends with the finished
    feature `f` in the document node, the queue-free parse returns the document with feature `f` -/
theorem pure_outcome_of_loop (D : List Dialect) (T : Table) (hstart : T.startRule = .GherkinDocument)
    (stop : Bool) (μ0 : MState) (ids : Nat) (src : Str) (f : Feature) (ids' : Nat)
    (hloop : ∀ c, At c (splitLines src) 0 (μ0.reset D) ⟨G0, []⟩ ids →
      ∃ c' te N, run (parseLinesPure D T stop ((splitLines src).length + 2) 0) c = (.ok 34, c') ∧
        At c' [] N (μ0.reset D) (docStack f te) ids') :
    (parseWithPure D T stop μ0 ids src).1 = .ok ⟨some f, []⟩ ∧
    (parseWithPure D T stop μ0 ids src).2.ids = ids' := by
  unfold parseWithPure
  simp only
  obtain ⟨c', te, N, hrun, hc'⟩ := hloop
    { lines := splitLines src, μ := μ0.reset D, β := ⟨G0, []⟩, ids := ids }
    ⟨rfl, rfl, rfl, rfl, rfl, rfl⟩
  have hbody : run (parseBodyPure D T stop (splitLines src).length)
      { lines := splitLines src, μ := μ0.reset D, β := BState.reset, ids := ids } =
      (.ok ⟨some f, []⟩, { c' with β := ⟨[⟨.None_, [(.rule .GherkinDocument, .doc ⟨some f, []⟩)]⟩], []⟩, ids := ids' }) := by
    unfold parseBodyPure
    simp only [prun_bind, run_modify, hstart]
    have e : ({ lines := splitLines src, μ := μ0.reset D, β := BState.reset.startRule .GherkinDocument, ids := ids } : Ctx) =
        { lines := splitLines src, μ := μ0.reset D, β := ⟨G0, []⟩, ids := ids } := rfl
    rw [e, hrun]
    simp only [run_runProd, hc'.beta, hc'.ids, endRule_docStack, run_liftB, run_get, hc'.errs, List.isEmpty_nil,
      Bool.not_true, Bool.false_eq_true, if_false, result_doc, prun_pure]
  have hbody' : (parseBodyPure D T stop (splitLines src).length).run.run
      { lines := splitLines src, μ := μ0.reset D, β := BState.reset, ids := ids } = _ := hbody
  rw [hbody']
  exact ⟨rfl, rfl⟩

theorem reset_activeSep (D : List Dialect) (μ : MState) : (μ.reset D).activeSep = none := rfl

/-- the rendered lines contain no line feed -/
theorem title_noLF {D' : List Dialect} (hr : renderFacts D' = true) {d : Dialect} (hd : d ∈ D') (kw name : Str)
    (hk : kw ∈ d.allKeywords) (hn : cleanText name = true) : ∀ x ∈ titleLineOf kw name, x ≠ 10 := by
  obtain ⟨-, hk10⟩ := renderFacts_spec hr hd hk
  obtain ⟨-, -, hn10⟩ := cleanText_spec hn
  intro x hx
  simp only [titleLineOf, List.mem_append, List.mem_singleton] at hx
  rcases hx with (hx | rfl) | (rfl | hx)
  · exact hk10 x hx
  · decide
  · decide
  · exact hn10 x hx

theorem tagLine_noLF (tags : List Str) (h : ∀ t ∈ tags, tagOK t = true) : ∀ b ∈ tagLineOf tags, ∀ x ∈ b, x ≠ 10 := by
  intro b hb
  unfold tagLineOf at hb
  split at hb
  · cases hb
  · next he =>
    simp only [List.mem_singleton] at hb
    subst hb
    exact (join_noWs tags (by intro h0; subst h0; simp at he) h).2.2

/-- **Round trip, queue-free parse, a feature without scenarios.** -/
theorem roundtrip_feature_only_pure {D' : List Dialect} (hf : keywordFacts D' = true) (hr : renderFacts D' = true)
    (D : List Dialect) (T : Table) (RTf : RtTable T) (stop : Bool) (μ0 : MState) (hμ : (μ0.reset D).dialect ∈ D')
    (ids : Nat) (m : MFeature) (hwf : WF (μ0.reset D).dialect m = true) (hs : m.scenarios = []) :
    (parseWithPure D T stop μ0 ids (render m)).1 =
      .ok (expectedDoc (μ0.reset D).dialect (μ0.reset D).name m ids) := by
  obtain ⟨tags, kw, name, scs⟩ := m
  simp only at hs
  subst hs
  simp only [WF, Bool.and_eq_true, List.all_eq_true, List.contains_eq_mem, decide_eq_true_eq, List.all_nil] at hwf
  obtain ⟨⟨⟨htags, hk⟩, hn⟩, -⟩ := hwf
  have hka : kw ∈ (μ0.reset D).dialect.allKeywords :=
    mem_allKeywords_title (mem_titleKeywords_of_role _ .FeatureLine kw hk)
  have hsplit : splitLines (render ⟨tags, kw, name, []⟩) =
      (tagLineOf tags ++ [titleLineOf kw name]).map (· ++ [10]) := by
    have : lineBodies ⟨tags, kw, name, []⟩ = tagLineOf tags ++ [titleLineOf kw name] := by simp [lineBodies]
    rw [render, this]
    apply splitLines_flatMap
    intro b hb
    simp only [List.mem_append, List.mem_singleton] at hb
    rcases hb with hb | rfl
    · exact tagLine_noLF tags htags b hb
    · exact title_noLF hr hμ kw name hka hn
  have hlen : (splitLines (render ⟨tags, kw, name, []⟩)).length + 2 = 2 + (1 + tagLines tags) := by
    rw [hsplit]
    simp only [List.length_map, List.length_append, List.length_singleton, tagLineOf, tagLines]
    split <;> simp <;> omega
  have hexp : expectedDoc (μ0.reset D).dialect (μ0.reset D).name ⟨tags, kw, name, []⟩ ids =
      ⟨some (mkFeat 1 (1 + tagLines tags) ids tags (μ0.reset D).name kw name []), []⟩ := by
    simp [expectedDoc, mkFeat, idsOfScenarios, expScenarios]
  rw [hexp]
  refine (pure_outcome_of_loop D T RTf.start stop μ0 ids _ _ (ids + tags.length) ?_).1
  intro c hc
  rw [hlen]
  rw [hsplit] at hc
  have hc0 : At c ((tagLineOf tags ++ [titleLineOf kw name]).map (· ++ [10]) ++ []) 0 (μ0.reset D) ⟨G0, []⟩ ids := by
    rwa [List.append_nil]
  obtain ⟨c1, β1, h1, hcl, hrun1⟩ := feature_head hf hr D stop T RTf hμ (reset_activeSep D μ0) tags kw name htags hk hn
    [] ids 2 c hc0
  obtain ⟨c2, te, hrun2, h2⟩ := finish hf hr D stop T RTf hμ (reset_activeSep D μ0) 3 β1 ids ids _ 1 tags kw name []
    hcl c1 h1
  exact ⟨c2, te, _, by rw [hrun1, hrun2], h2⟩

end Lemmas
end GV
