/-
  Lemmas/ParseTree.lean — from the builder calls of a parse to the token tree (the link between
  the parser run and the tree-level theorems C03_ast_of_tree / C11_accepted_ast / C01 builder side).

  * `Spec.prodOps t ps`: the builder calls (`Spec.BOp`) one branch of the table makes for its token.
  * `Spec.opToks ops`: the tokens a call sequence hands to `build`, in order.
  * `Spec.ttreeOf ops`: the token-level analogue of `Spec.treeOf`: rebuild the `TTree` from a call
    sequence with a stack of open nodes.
  * unflatten / flatten: `ttreeOf ops = some t → opsOf t = ops ∧ leaves t = opToks ops`; if the calls
    project to the kind-level events `evs` and `treeOf evs = some tk` then `ttreeOf ops = some t`
    with `t.kinds = tk`.
  * doc strings: if every `start_rule(DocString)` call is directly followed by the `build` of a
    separator token whose text is set, the tree has `DocStringsOpened`.
  Table-independent.
-/
import GherkinVerif.Lemmas.NoCrash
import GherkinVerif.Lemmas.AstShape
namespace GV
namespace Spec

/-- the builder calls one branch makes for its token `t`: its productions in order -/
def prodOps (t : Token) : List Prod → List BOp
  | [] => []
  | .start r :: ps => .start r :: prodOps t ps
  | .end_ _ :: ps => .end_ :: prodOps t ps
  | .build :: ps => .build t :: prodOps t ps

/-- the tokens a call sequence hands to `build`, in order -/
def opToks : List BOp → List Token
  | [] => []
  | .build t :: ops => t :: opToks ops
  | .start _ :: ops => opToks ops
  | .end_ :: ops => opToks ops

/-- rebuild the token tree from a call sequence with a stack of open nodes (children in order);
    the token-level analogue of `treeOfAux` -/
def ttreeOfAux : List BOp → List (RuleType × List TTree) → Option TTree
  | [], _ => none
  | .start r :: es, stack => ttreeOfAux es ((r, []) :: stack)
  | .build t :: es, (r, cs) :: stack => ttreeOfAux es ((r, cs ++ [.leaf t]) :: stack)
  | .build _ :: _, [] => none
  | .end_ :: es, (r, cs) :: (p, ps) :: stack => ttreeOfAux es ((p, ps ++ [.node r cs]) :: stack)
  | .end_ :: es, [(r, cs)] => if es.isEmpty then some (.node r cs) else none
  | .end_ :: _, [] => none

/-- the token tree of a call sequence (`none` if not well bracketed into one root) -/
def ttreeOf (ops : List BOp) : Option TTree := ttreeOfAux ops []

/-- a builder call and the kind-level event it is seen as -/
inductive OpEv : BOp → Ev → Prop
  | start (r : RuleType) : OpEv (.start r) (.start r)
  | end_ (r : RuleType) : OpEv .end_ (.end_ r)
  | build (t : Token) (k : Kind) : t.mtype = some k → OpEv (.build t) (.build k)

/-- call sequence and event sequence correspond call by call -/
inductive OpsEvs : List BOp → List Ev → Prop
  | nil : OpsEvs [] []
  | cons {o e os es} : OpEv o e → OpsEvs os es → OpsEvs (o :: os) (e :: es)

/-- a separator token as an OPENING `match_DocStringSeparator` leaves it -/
def openingSep (t : Token) : Prop := t.mtype = some .DocStringSeparator ∧ t.text.isSome = true

/-- every `start_rule(DocString)` is directly followed by the `build` of an opening separator -/
def adjOK : List BOp → Prop
  | [] => True
  | .start r :: rest =>
    (r = .DocString → ∃ t rest', rest = .build t :: rest' ∧ openingSep t) ∧ adjOK rest
  | .build _ :: rest => adjOK rest
  | .end_ :: rest => adjOK rest

end Spec

namespace Lemmas
open Spec

/-! ### small list facts about the mutual folds -/

theorem opsOfList_append (a b : List TTree) : opsOfList (a ++ b) = opsOfList a ++ opsOfList b := by
  induction a with
  | nil => rfl
  | cons c a ih => simp only [List.cons_append, opsOfList, ih, List.append_assoc]

theorem ttLeavesList_append (a b : List TTree) : leavesList (a ++ b) = leavesList a ++ leavesList b := by
  induction a with
  | nil => rfl
  | cons c a ih => simp only [List.cons_append, leavesList, ih, List.append_assoc]

theorem openedList_append (a b : List TTree) : openedList (a ++ b) = (openedList a && openedList b) := by
  induction a with
  | nil => simp [openedList]
  | cons c a ih => simp only [List.cons_append, openedList, ih, Bool.and_assoc]

theorem opToks_append (a b : List BOp) : opToks (a ++ b) = opToks a ++ opToks b := by
  induction a with
  | nil => rfl
  | cons o a ih => cases o <;> simp [opToks, ih]

theorem opToks_prodOps_mem (t : Token) (ps : List Prod) : ∀ x ∈ opToks (prodOps t ps), x = t := by
  induction ps with
  | nil => intro x hx; cases hx
  | cons p ps ih =>
    intro x hx
    cases p with
    | start r => exact ih x hx
    | end_ r => exact ih x hx
    | build =>
      simp only [prodOps, opToks, List.mem_cons] at hx
      rcases hx with rfl | hx
      · rfl
      · exact ih x hx

theorem OpsEvs.append {a b : List BOp} {x y : List Ev} (h1 : OpsEvs a x) (h2 : OpsEvs b y) :
    OpsEvs (a ++ b) (x ++ y) := by
  induction h1 with
  | nil => exact h2
  | cons h _ ih => exact .cons h ih

theorem opsEvs_prod (t : Token) (k : Kind) (hk : t.mtype = some k) (ps : List Prod) :
    OpsEvs (prodOps t ps) (prodEvents k ps) := by
  induction ps with
  | nil => exact .nil
  | cons p ps ih =>
    cases p with
    | start r => exact .cons (.start r) ih
    | end_ r => exact .cons (.end_ r) ih
    | build => exact .cons (.build t k hk) ih

theorem adjOK_append {a b : List BOp} (ha : adjOK a) (hb : adjOK b) : adjOK (a ++ b) := by
  induction a with
  | nil => exact hb
  | cons o a ih =>
    cases o with
    | start r =>
      obtain ⟨h1, h2⟩ := ha
      refine ⟨fun hr => ?_, ih h2⟩
      obtain ⟨t, rest', hrest, ht⟩ := h1 hr
      exact ⟨t, rest' ++ b, by rw [hrest]; rfl, ht⟩
    | end_ => exact ih ha
    | build t => exact ih ha

/-! ### flatten: the calls and the leaves of the rebuilt tree -/

/-- the calls that led to a stack of open nodes (outermost node last in the list) -/
def stackOps : List (RuleType × List TTree) → List BOp
  | [] => []
  | (r, cs) :: rest => stackOps rest ++ (.start r :: opsOfList cs)

/-- the tokens built so far -/
def stackToks : List (RuleType × List TTree) → List Token
  | [] => []
  | (_, cs) :: rest => stackToks rest ++ leavesList cs

theorem ttreeOfAux_flat : ∀ (ops : List BOp) (stack : List (RuleType × List TTree)) (t : TTree),
    ttreeOfAux ops stack = some t →
      opsOf t = stackOps stack ++ ops ∧ leaves t = stackToks stack ++ opToks ops := by
  intro ops
  induction ops with
  | nil => intro stack t h; cases h
  | cons o ops ih =>
    intro stack t h
    cases o with
    | start r =>
      simp only [ttreeOfAux] at h
      obtain ⟨h1, h2⟩ := ih _ t h
      refine ⟨?_, ?_⟩
      · rw [h1]; simp [stackOps, opsOfList]
      · rw [h2]; simp [stackToks, leavesList, opToks]
    | build tk =>
      cases stack with
      | nil => simp [ttreeOfAux] at h
      | cons top rest =>
        obtain ⟨r, cs⟩ := top
        simp only [ttreeOfAux] at h
        obtain ⟨h1, h2⟩ := ih _ t h
        refine ⟨?_, ?_⟩
        · rw [h1]; simp [stackOps, opsOfList_append, opsOfList, opsOf]
        · rw [h2]; simp [stackToks, ttLeavesList_append, leavesList, leaves, opToks]
    | end_ =>
      cases stack with
      | nil => simp [ttreeOfAux] at h
      | cons top rest =>
        obtain ⟨r, cs⟩ := top
        cases rest with
        | nil =>
          simp only [ttreeOfAux] at h
          split at h
          · rename_i he
            cases h
            have : ops = [] := by simpa using he
            subst this
            exact ⟨by simp [stackOps, opsOf], by simp [stackToks, leaves, opToks]⟩
          · cases h
        | cons top2 rest2 =>
          obtain ⟨p, ps⟩ := top2
          simp only [ttreeOfAux] at h
          obtain ⟨h1, h2⟩ := ih _ t h
          refine ⟨?_, ?_⟩
          · rw [h1]; simp [stackOps, opsOfList_append, opsOfList, opsOf]
          · rw [h2]; simp [stackToks, ttLeavesList_append, leavesList, leaves, opToks]

/-- **flatten.**  The rebuilt tree has exactly the given calls and its leaves are the built tokens. -/
theorem ttreeOf_flat (ops : List BOp) (t : TTree) (h : ttreeOf ops = some t) :
    opsOf t = ops ∧ leaves t = opToks ops := by
  have := ttreeOfAux_flat ops [] t h
  simpa [stackOps, stackToks] using this

/-! ### unflatten: the token tree exists whenever the kind tree does, and projects to it -/

/-- the kind-level stack of a token-level stack -/
def kstack (stack : List (RuleType × List TTree)) : List (RuleType × List Tree) :=
  stack.map fun p => (p.1, kindsList p.2)

theorem kindsList_append (a b : List TTree) : kindsList (a ++ b) = kindsList a ++ kindsList b := by
  rw [kindsList_eq_map, kindsList_eq_map, kindsList_eq_map, List.map_append]

theorem ttreeOfAux_kinds : ∀ (ops : List BOp) (evs : List Ev), OpsEvs ops evs →
    ∀ (stack : List (RuleType × List TTree)) (tk : Tree), treeOfAux evs (kstack stack) = some tk →
      ∃ t, ttreeOfAux ops stack = some t ∧ t.kinds = tk := by
  intro ops evs hoe
  induction hoe with
  | nil => intro stack tk h; cases h
  | @cons o e os es hoe _ ih =>
    intro stack tk h
    cases hoe with
    | start r =>
      simp only [treeOfAux] at h
      exact ih ((r, []) :: stack) tk h
    | end_ r' =>
      cases stack with
      | nil => simp [kstack, treeOfAux] at h
      | cons top rest =>
        obtain ⟨r, cs⟩ := top
        cases rest with
        | nil =>
          simp only [kstack, List.map_cons, List.map_nil, treeOfAux] at h
          split at h
          · rename_i he
            cases h
            have hes : es = [] := by simpa using he
            subst hes
            cases ‹OpsEvs os []›
            exact ⟨.node r cs, by simp [ttreeOfAux], by simp [TTree.kinds]⟩
          · cases h
        | cons top2 rest2 =>
          obtain ⟨p, ps⟩ := top2
          simp only [kstack, List.map_cons, treeOfAux] at h
          refine ih ((p, ps ++ [.node r cs]) :: rest2) tk ?_
          simpa [kstack, kindsList_append, kindsList, TTree.kinds] using h
    | build t k hk =>
      cases stack with
      | nil => simp [kstack, treeOfAux] at h
      | cons top rest =>
        obtain ⟨r, cs⟩ := top
        simp only [kstack, List.map_cons, treeOfAux] at h
        refine ih ((r, cs ++ [.leaf t]) :: rest) tk ?_
        simpa [kstack, kindsList_append, kindsList, TTree.kinds, hk] using h

/-- **unflatten.**  If the calls project to the events `evs` and the events rebuild into the kind
    tree `tk`, the calls rebuild into a token tree whose kind projection is `tk`. -/
theorem ttreeOf_kinds (ops : List BOp) (evs : List Ev) (h : OpsEvs ops evs) (tk : Tree)
    (ht : treeOf evs = some tk) : ∃ t, ttreeOf ops = some t ∧ t.kinds = tk :=
  ttreeOfAux_kinds ops evs h [] tk ht

/-! ### doc strings are opened -/

/-- an open `DocString` node already has its opening separator as first child -/
def DocHead (p : RuleType × List TTree) : Prop :=
  p.1 = .DocString → ∃ t rest, p.2 = .leaf t :: rest ∧ openingSep t

theorem DocHead.snoc {r : RuleType} {cs : List TTree} (h : DocHead (r, cs)) (c : TTree) : DocHead (r, cs ++ [c]) := by
  intro hr
  obtain ⟨t, rest, hcs, ht⟩ := h hr
  have hcs' : cs = .leaf t :: rest := hcs
  exact ⟨t, rest ++ [c], by show cs ++ [c] = _; rw [hcs']; rfl, ht⟩

theorem nodeOpened_of_docHead {r : RuleType} {cs : List TTree} (h : DocHead (r, cs)) : nodeOpened r cs = true := by
  unfold nodeOpened
  by_cases hr : r = .DocString
  · obtain ⟨t, rest, hcs, hm, htx⟩ := h hr
    have hcs' : cs = .leaf t :: rest := hcs
    subst hcs'
    simp [childTokens, hm, htx]
  · cases r <;> first | exact absurd rfl hr | rfl

/-- the invariant of the stack of open nodes against the calls still to come -/
def SInv : List (RuleType × List TTree) → List BOp → Prop
  | [], _ => True
  | (r, cs) :: rest, ops =>
    openedList cs = true ∧
    (DocHead (r, cs) ∨ (r = .DocString ∧ cs = [] ∧ ∃ t rest', ops = .build t :: rest' ∧ openingSep t)) ∧
    ∀ p ∈ rest, openedList p.2 = true ∧ DocHead p

theorem ttreeOfAux_opened : ∀ (ops : List BOp) (stack : List (RuleType × List TTree)) (t : TTree),
    adjOK ops → SInv stack ops → ttreeOfAux ops stack = some t → opened t = true := by
  intro ops
  induction ops with
  | nil => intro stack t _ _ h; cases h
  | cons o ops ih =>
    intro stack t hadj hinv h
    cases o with
    | start r =>
      simp only [ttreeOfAux] at h
      obtain ⟨hnext, hadj'⟩ := hadj
      refine ih ((r, []) :: stack) t hadj' ?_ h
      refine ⟨rfl, ?_, ?_⟩
      · by_cases hr : r = .DocString
        · exact .inr ⟨hr, rfl, hnext hr⟩
        · exact .inl fun h' => absurd h' hr
      · intro p hp
        cases stack with
        | nil => cases hp
        | cons top rest =>
          obtain ⟨r0, cs0⟩ := top
          obtain ⟨ho, hd, hrest⟩ := hinv
          rcases List.mem_cons.1 hp with rfl | hp
          · refine ⟨ho, ?_⟩
            rcases hd with hd | ⟨-, -, t', rest', hops, -⟩
            · exact hd
            · cases hops
          · exact hrest p hp
    | build tk =>
      cases stack with
      | nil => simp [ttreeOfAux] at h
      | cons top rest =>
        obtain ⟨r, cs⟩ := top
        simp only [ttreeOfAux] at h
        obtain ⟨ho, hd, hrest⟩ := hinv
        refine ih ((r, cs ++ [.leaf tk]) :: rest) t hadj ⟨?_, .inl ?_, hrest⟩ h
        · rw [openedList_append, ho]; rfl
        · rcases hd with hd | ⟨hr, hcs, t', rest', hops, ht'⟩
          · exact hd.snoc _
          · cases hops
            subst hcs
            intro _
            exact ⟨tk, [], rfl, ht'⟩
    | end_ =>
      cases stack with
      | nil => simp [ttreeOfAux] at h
      | cons top rest =>
        obtain ⟨r, cs⟩ := top
        obtain ⟨ho, hd, hrest⟩ := hinv
        have hd' : DocHead (r, cs) := by
          rcases hd with hd | ⟨-, -, t', rest', hops, -⟩
          · exact hd
          · cases hops
        have hnode : opened (.node r cs) = true := by
          simp only [opened, nodeOpened_of_docHead hd', ho, Bool.and_self]
        cases rest with
        | nil =>
          simp only [ttreeOfAux] at h
          split at h
          · cases h; exact hnode
          · cases h
        | cons top2 rest2 =>
          obtain ⟨p, ps⟩ := top2
          simp only [ttreeOfAux] at h
          obtain ⟨hpo, hpd⟩ := hrest (p, ps) (List.mem_cons_self ..)
          refine ih ((p, ps ++ [.node r cs]) :: rest2) t hadj
            ⟨?_, .inl (hpd.snoc _), fun q hq => hrest q (List.mem_cons_of_mem _ hq)⟩ h
          rw [openedList_append, hpo]
          simp [openedList, hnode]

/-- **doc strings opened.**  If every `start_rule(DocString)` call is directly followed by the
    `build` of an opening separator, the rebuilt tree satisfies `DocStringsOpened`. -/
theorem ttreeOf_opened (ops : List BOp) (t : TTree) (hadj : adjOK ops) (h : ttreeOf ops = some t) :
    DocStringsOpened t :=
  ttreeOfAux_opened ops [] t hadj trivial h

end Lemmas
end GV
