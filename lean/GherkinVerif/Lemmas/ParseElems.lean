/-
  Lemmas/ParseElems.lean — document-level form of property C03 "with exact text": every element of
  the AST of an accepted document — keyword line, step, tag, table row, doc string — with its
  fields is read off ONE physical line of the source by the matcher, under the matcher state in
  force at that line.

  Composition of
  * `elems_once_in_order` (Lemmas/AstElems.lean): `srcElems d = elemsOfTree t` for the tree of the link;
  * `elemsOfTree_sub`: the elements of a tree come from its leaves (`leafElems`), a doc string from
    an OPENING separator (`DocStringsOpened`);
  * `parse_tokens` (`LineToks`): the leaves are the matcher's outputs on the physical lines, under
    the state `Spec.stateAt` in force;
  * `matched_leafElems`: the per-line theorems of the matcher (properties C04, C05, C12, C13) — what
    the elements of a matched line are in terms of the text of the line (`Spec.ElemFromLine`).
-/
import GherkinVerif.Lemmas.AstElems
import GherkinVerif.Lemmas.ParseLocs
import GherkinVerif.Lemmas.ParseLang
import GherkinVerif.Lemmas.ParseDocNode
import GherkinVerif.Lemmas.Keywords
import GherkinVerif.Lemmas.Cells
namespace GV
namespace Spec

/-- `e` is an element carried by the physical line `l`, the `n`-th line of the document, read
    under the matcher state `μ` (whose `μ.dialect` is the dialect in force):
    * a Feature / Rule / Background / Scenario / Examples line: the keyword `kw` is one of the
      dialect's keywords for that role, the line after its indentation reads `kw` followed by `:`,
      the name is the rest of the line with surrounding whitespace removed; column `indent + 1`;
    * a step: `kw` is the FIRST step keyword of the dialect (in the order given, when, then, and,
      but) that the line after its indentation starts with; the text is the rest of the line with
      surrounding whitespace removed; the keyword type is the dialect's for `kw`; column `indent + 1`;
    * a tag: at its column `c` (at or after `indent + 1`, in a line whose first non-blank code point
      is `@`) the line reads `@` followed by some text `item`, and the name is `@` + `item` stripped;
    * a table row: the line after its indentation starts with `|`; the cells are those of the
      two-phase reading `Spec.cells` of the line (texts unescaped and trimmed, each at its column);
    * a doc string: the matcher is outside a doc string, the line after its indentation starts
      with the delimiter `sep` (`"""` or three backticks), the media type is the rest of the line
      with surrounding whitespace removed, absent when empty; column `indent + 1`. -/
inductive ElemFromLine (μ : MState) (l : Str) (n : Nat) : Elem → Prop
  | keywordLine (K : Kind) (kw : Str) : K.isTitle = true → kw ∈ μ.dialect.roleKeywords K →
      startsWith (kw ++ [58]) (trimmed l) = true →
      ElemFromLine μ l n (.keywordLine K ⟨n, some (lineIndent l + 1)⟩ kw (restTrimmed l (kw.length + 1)))
  | step (pre : List Str) (kw : Str) (post : List Str) : μ.dialect.stepKeywords = pre ++ kw :: post →
      startsWith kw (trimmed l) = true → (∀ k' ∈ pre, startsWith k' (trimmed l) = false) →
      ElemFromLine μ l n
        (.step ⟨n, some (lineIndent l + 1)⟩ kw (stepKType μ.dialect kw) (restTrimmed l kw.length))
  | tag (c : Nat) (item : Str) : lineStartsWith l [64] = true → lineIndent l + 1 ≤ c →
      (64 :: item) <+: l.drop (c - 1) → ElemFromLine μ l n (.tag ⟨n, some c⟩ (64 :: strip item))
  | row : lineStartsWith l [124] = true →
      ElemFromLine μ l n
        (.row ⟨n, some (lineIndent l + 1)⟩ ((Spec.cells l).map fun p => (⟨n, some p.1⟩, p.2)))
  | docString (sep : Str) : sep = dq3 ∨ sep = bt3 → μ.inDocString = false →
      startsWith sep (trimmed l) = true →
      ElemFromLine μ l n (.docString ⟨n, some (lineIndent l + 1)⟩ sep (mediaOf (restTrimmed l 3)))

/-- the matcher state in force when line `i` (0-based) is reached: from `μ`, moved on line by line
    by the test that was taken on each earlier line (`muAfter`; the kind of the test is the kind
    recorded on the line's token) -/
def stateAt (D : List Dialect) (μ : MState) : List Str → List Token → Nat → MState
  | l :: ls, t :: ts, i + 1 => stateAt D (muAfter D μ l (t.mtype.getD .Other)) ls ts i
  | _, _, _ => μ

/-- a doc-string separator token is an opening one (its text, the media type, is set) -/
def OpenSep (tk : Token) : Prop := tk.mtype = some .DocStringSeparator → tk.text.isSome = true


/-! ### table facts and tree predicate for `Description` nodes -/

/-- the states entered by a branch that opens a `Description` node -/
def descStates (T : Table) : List Nat :=
  T.rows.flatMap fun r => (r.branches.filter fun b => b.prods.contains (.start .Description)).map (·.target)

/-- every `start Description` in a production list is followed by exactly `build`, which ends the list -/
def startsDescLast : List Prod → Bool
  | [] => true
  | p :: rest => (p != .start .Description || rest == [.build]) && startsDescLast rest

/-- `start_rule(Description)` is always directly followed by the `build` that ends the production
    list; it occurs only in `Other` / `Comment` tests, of states that are not doc-string content
    states, leading to states that are not content states either -/
def descStartFacts (T : Table) : Bool :=
  T.rows.all fun r => r.branches.all fun b =>
    startsDescLast b.prods &&
    (!b.prods.contains (.start .Description) ||
      ((b.kind == .Other || b.kind == .Comment) && !(contentStates T).contains r.id &&
        !(contentStates T).contains b.target))

/-- in a state entered by opening a `Description` node every test either starts with an `end_rule` (of
    the `Description` node) or is an `Other` / `Comment` test that only builds and stays -/
def descBodyFacts (T : Table) : Bool :=
  T.rows.all fun r => !(descStates T).contains r.id ||
    r.branches.all fun b => isEndProd b.prods.head? ||
      (b.prods == [.build] && b.target == r.id && (b.kind == .Other || b.kind == .Comment))

/-- a line of a description: a comment line, or a free-text line whose text is the physical line
    VERBATIM (indentation included) minus its line break -/
def DescTok (x : Token) : Prop :=
  x.mtype = some .Comment ∨ ∃ lx, x.line = some lx ∧ x.mtype = some .Other ∧ x.text = some (rstripCRLF lx)

mutual
/-- every `Description` node of the tree has only leaves as children, and they are description lines -/
def descNodesP : TTree → Prop
  | .leaf _ => True
  | .node r ch => (r = .Description → ∃ bs : List Token, ch = bs.map .leaf ∧ ∀ b ∈ bs, DescTok b) ∧ descNodesListP ch
def descNodesListP : List TTree → Prop
  | [] => True
  | c :: cs => descNodesP c ∧ descNodesListP cs
end

/-- in a call sequence every `start_rule(Description)` is followed by the `build`s of description lines
    and then an `end_rule` -/
def descOps : List BOp → Prop
  | [] => True
  | .start r :: rest =>
    (r = .Description → ∃ (bs : List Token) (rest' : List BOp), rest = bs.map .build ++ .end_ :: rest' ∧ ∀ b ∈ bs, DescTok b) ∧
      descOps rest
  | .build _ :: rest => descOps rest
  | .end_ :: rest => descOps rest

/-- the elements ONE line of the document contributes to the AST, read off its token: those the
    token carries (`leafElems`) — except that a CLOSING doc-string separator (text not set) carries
    none, the doc string being the element of its opening separator -/
def lineElems (tk : Token) : List Elem :=
  if tk.mtype = some .DocStringSeparator ∧ tk.text = none then [] else leafElems tk

end Spec

namespace Lemmas
open Spec

/-! ### the elements of a tree come from its leaves -/

theorem mem_childTokens {k : Kind} {ch : List TTree} {tk : Token} (h : tk ∈ childTokens k ch) :
    tk ∈ leavesList ch ∧ tk.mtype = some k := by
  induction ch with
  | nil => simp [childTokens] at h
  | cons c cs ih =>
    simp only [childTokens, List.filterMap_cons] at h
    cases c with
    | node r ch' =>
      simp only at h
      obtain ⟨h1, h2⟩ := ih h
      exact ⟨by simp only [leavesList, List.mem_append]; exact .inr h1, h2⟩
    | leaf t =>
      simp only at h
      by_cases hm : t.mtype = some k
      · rw [if_pos hm] at h
        simp only [List.mem_cons] at h
        rcases h with rfl | h
        · exact ⟨by simp [leavesList, leaves], hm⟩
        · obtain ⟨h1, h2⟩ := ih h
          exact ⟨by simp only [leavesList, List.mem_append]; exact .inr h1, h2⟩
      · rw [if_neg hm] at h
        obtain ⟨h1, h2⟩ := ih h
        exact ⟨by simp only [leavesList, List.mem_append]; exact .inr h1, h2⟩

/-- what `nodeOK` says about one child -/
theorem nodeOK_child {r : RuleType} {ch : List TTree} (h : nodeOK r ch = true) (c : TTree) (hc : c ∈ ch) :
    (∀ r' ch', c = .node r' ch' → r' ∈ (nodeShape r).allowed) ∧
    (∀ t k, c = .leaf t → t.mtype = some k → k ∈ elemKinds → k ∈ (nodeShape r).lines) := by
  simp only [nodeOK, Bool.and_eq_true, List.all_eq_true] at h
  have := h.1.1 c hc
  refine ⟨?_, ?_⟩
  · rintro r' ch' rfl
    simpa using this
  · rintro t k rfl hm hel
    simp only [hm] at this
    simp only [Bool.or_eq_true, Bool.not_eq_true', List.contains_eq_mem, decide_eq_true_eq, decide_eq_false_iff_not] at this
    rcases this with h1 | h1
    · exact absurd hel h1
    · exact h1

/-- the children of a `DocString` node are lines, and only the separators among them carry elements -/
theorem docString_children_elems (ch : List TTree)
    (h : ∀ c ∈ ch, (∀ r' ch', c ≠ .node r' ch') ∧
      (∀ t k, c = .leaf t → t.mtype = some k → k ∈ elemKinds → k = .DocStringSeparator)) :
    elemsOfTreeList ch = (childTokens .DocStringSeparator ch).flatMap leafElems := by
  induction ch with
  | nil => rw [elemsOfTreeList]; rfl
  | cons c cs ih =>
    have ih' := ih fun c' hc' => h c' (List.mem_cons_of_mem _ hc')
    obtain ⟨h1, h2⟩ := h c List.mem_cons_self
    cases c with
    | node r' ch' => exact absurd rfl (h1 r' ch')
    | leaf t =>
      rw [elemsOfTreeList, elemsOfTree, ih']
      simp only [childTokens, List.filterMap_cons]
      by_cases hm : t.mtype = some .DocStringSeparator
      · simp only [hm, if_true, List.flatMap_cons]
      · simp only [hm, if_false]
        cases hk : t.mtype with
        | none => rw [leafElems_none t hk]; rfl
        | some k =>
          by_cases hel : k ∈ elemKinds
          · exact absurd (by rw [hk, h2 t k rfl hk hel]) hm
          · rw [leafElems_nonElem t k hk hel]; rfl

mutual
/-- every element of a grammar-shaped tree whose doc strings are opened is carried by one of its
    leaves; the leaf behind a doc string is an opening separator -/
theorem elemsOfTree_sub : ∀ (t : TTree) (r : RuleType) (ch : List TTree), t = .node r ch →
    shaped t = true → opened t = true → ∀ e ∈ elemsOfTree t,
      ∃ tk ∈ leaves t, e ∈ leafElems tk ∧ OpenSep tk
  | .leaf _, _, _, h, _, _, _, _ => by cases h
  | .node r ch, _, _, _, hs, ho, e, he => by
    simp only [shaped, Bool.and_eq_true] at hs
    simp only [opened, Bool.and_eq_true] at ho
    rw [leaves]
    by_cases hr : r = .DocString
    · subst hr
      rw [elemsOfTree, if_pos rfl] at he
      have hch : ∀ c ∈ ch, (∀ r' ch', c ≠ .node r' ch') ∧
          (∀ t k, c = .leaf t → t.mtype = some k → k ∈ elemKinds → k = .DocStringSeparator) := by
        intro c hc
        obtain ⟨a, b⟩ := nodeOK_child hs.1 c hc
        refine ⟨fun r' ch' e => ?_, fun t k e hm hel => ?_⟩
        · have := a r' ch' e; simp [nodeShape] at this
        · have := b t k e hm hel; simpa [nodeShape] using this
      rw [docString_children_elems ch hch] at he
      have hno := ho.1
      simp only [nodeOpened, bne_self_eq_false, Bool.false_or] at hno
      cases hct : childTokens .DocStringSeparator ch with
      | nil => rw [hct] at he; simp at he
      | cons sep rest =>
        rw [hct] at he hno
        simp only [List.head?_cons] at hno
        obtain ⟨hmem, hmt⟩ := mem_childTokens (k := .DocStringSeparator) (ch := ch) (tk := sep)
          (by rw [hct]; exact List.mem_cons_self)
        cases hkw : sep.keyword with
        | none =>
          -- still a single element; the head of the list is it
          have hle : ∃ x, leafElems sep = [x] := by unfold leafElems; rw [hmt]; exact ⟨_, rfl⟩
          obtain ⟨x, hx⟩ := hle
          rw [List.flatMap_cons, hx] at he
          simp only [List.singleton_append, List.head?_cons, Option.toList_some, List.mem_singleton] at he
          exact ⟨sep, hmem, by rw [hx, he]; exact List.mem_singleton_self _, fun _ => hno⟩
        | some dl =>
          have hle : ∃ x, leafElems sep = [x] := by unfold leafElems; rw [hmt]; exact ⟨_, rfl⟩
          obtain ⟨x, hx⟩ := hle
          rw [List.flatMap_cons, hx] at he
          simp only [List.singleton_append, List.head?_cons, Option.toList_some, List.mem_singleton] at he
          exact ⟨sep, hmem, by rw [hx, he]; exact List.mem_singleton_self _, fun _ => hno⟩
    · rw [elemsOfTree, if_neg hr] at he
      exact elemsOfTreeList_sub ch r hr (fun c hc => (nodeOK_child hs.1 c hc).2) hs.2 ho.2 e he
theorem elemsOfTreeList_sub : ∀ (ts : List TTree) (r : RuleType), r ≠ .DocString →
    (∀ c ∈ ts, ∀ t k, c = .leaf t → t.mtype = some k → k ∈ elemKinds → k ∈ (nodeShape r).lines) →
    shapedList ts = true → openedList ts = true → ∀ e ∈ elemsOfTreeList ts,
      ∃ tk ∈ leavesList ts, e ∈ leafElems tk ∧ OpenSep tk
  | [], _, _, _, _, _, e, he => by simp [elemsOfTreeList] at he
  | c :: cs, r, hr, hl, hs, ho, e, he => by
    simp only [shapedList, Bool.and_eq_true] at hs
    simp only [openedList, Bool.and_eq_true] at ho
    simp only [elemsOfTreeList, List.mem_append] at he
    rcases he with he | he
    · cases c with
      | leaf t =>
        rw [elemsOfTree] at he
        refine ⟨t, by simp [leavesList, leaves], he, fun hm => ?_⟩
        have := hl _ List.mem_cons_self t _ rfl hm (by decide)
        exfalso
        cases r <;> first | exact hr rfl | simp [nodeShape] at this
      | node r' ch' =>
        obtain ⟨tk, h1, h2⟩ := elemsOfTree_sub (.node r' ch') r' ch' rfl hs.1 ho.1 e he
        exact ⟨tk, by simp only [leavesList, List.mem_append]; exact .inl h1, h2⟩
    · obtain ⟨tk, h1, h2⟩ := elemsOfTreeList_sub cs r hr (fun c' hc' => hl c' (List.mem_cons_of_mem _ hc')) hs.2 ho.2 e he
      exact ⟨tk, by simp only [leavesList, List.mem_append]; exact .inr h1, h2⟩
end

/-! ### the elements carried by one matched line -/

theorem titleKws_eq_role (d : Dialect) (K : Kind) : titleKws d K = d.roleKeywords K := by
  cases K <;> rfl

theorem isTitle_cases {K : Kind} (h : K.isTitle = true) :
    K = .FeatureLine ∨ K = .RuleLine ∨ K = .BackgroundLine ∨ K = .ScenarioLine ∨ K = .ExamplesLine := by
  cases K <;> first | exact absurd h (by decide) | simp

theorem tok_loc_eq {tk : Token} {n c : Nat} (hno : tk.lineNo = n) (hcol : tk.col = some c) : tk.loc = ⟨n, some c⟩ := by
  unfold Token.loc; rw [hno, hcol]

/-- The elements of the token a successful test makes of the fresh token of a line, in terms of the
    text of the line: `ElemFromLine` under the matcher state the test ran in.  (A separator token
    is considered only when it is an opening one.) -/
theorem matched_leafElems (D : List Dialect) (K : Kind) (μ : MState) (l : Str) (n : Nat)
    (hm : (matchLine D K μ (freshTok l n) l).res = .matched) :
    ∀ e ∈ leafElems (matchLine D K μ (freshTok l n) l).tok, OpenSep (matchLine D K μ (freshTok l n) l).tok →
      ElemFromLine μ l n e := by
  have hmt := (match_well_matched D K μ (freshTok l n) l hm).1
  have hno : (matchLine D K μ (freshTok l n) l).tok.lineNo = n := (matchLine_tok D K μ (freshTok l n) l).2
  have ht : (freshTok l n).line = some l := rfl
  intro e he hopen
  by_cases htitle : K.isTitle = true
  · obtain ⟨kw, hmem, hst, hkw, hcol, hmt', htx⟩ := title_col D K μ (freshTok l n) l ht (isTitle_cases htitle) hm
    rw [leafElems_title _ K kw _ (by rcases isTitle_cases htitle with h | h | h | h | h <;> simp [h]) hmt' hkw htx,
      List.mem_singleton] at he
    subst he
    rw [tok_loc_eq hno hcol, rstripCRLF_strip, ← trimmed_eq_drop]
    rw [titleKws_eq_role] at hmem
    rw [← trimmed_eq_drop] at hst
    exact .keywordLine K kw htitle hmem hst
  · cases K <;> first | exact absurd rfl htitle | skip
    case EOF => rw [leafElems_nonElem _ _ hmt (by decide)] at he; cases he
    case Empty => rw [leafElems_nonElem _ _ hmt (by decide)] at he; cases he
    case Comment => rw [leafElems_nonElem _ _ hmt (by decide)] at he; cases he
    case Language => rw [leafElems_nonElem _ _ hmt (by decide)] at he; cases he
    case Other => rw [leafElems_nonElem _ _ hmt (by decide)] at he; cases he
    case TagLine =>
      obtain ⟨hs, hts, -⟩ := tagline_tok D μ (freshTok l n) l ht hm
      obtain ⟨-, hall⟩ := tag_cols l hs _ hts
      rw [leafElems_tagLine _ hmt, List.mem_map] at he
      obtain ⟨it, hit, rfl⟩ := he
      obtain ⟨h1, -, -, -⟩ := hall it hit
      obtain ⟨item, hpre, hname⟩ := tag_name_stripped l hs _ hts it hit
      rw [getLocation_item _ it.1 (by omega), hno, hname]
      exact .tag it.1 item hs h1 hpre
    case StepLine =>
      rcases matchLine_step_cases D μ (freshTok l n) l with ⟨pre, kw, post, hsplit, hst, hpre, heq⟩ | ⟨-, heq⟩
      · rw [heq] at he
        have hle : leafElems (setMatched μ (freshTok l n) .StepLine (text := some (strip ((trimmed l).drop kw.length)))
            (keyword := some kw) (ktype := some (stepKType μ.dialect kw))) =
            [.step ⟨n, some (lineIndent l + 1)⟩ kw (stepKType μ.dialect kw) (restTrimmed l kw.length)] := by
          rw [leafElems_step _ kw (rstripCRLF (strip ((trimmed l).drop kw.length))) (stepKType μ.dialect kw) rfl rfl rfl rfl,
            rstripCRLF_strip]
          rfl
        rw [hle, List.mem_singleton] at he
        subst he
        exact .step pre kw post hsplit hst hpre
      · rw [heq] at hm; cases hm
    case TableRow =>
      obtain ⟨hcol, hst, hitems⟩ := row_col D μ (freshTok l n) l ht hm
      rw [leafElems_row _ hmt, List.mem_singleton] at he
      subst he
      rw [tok_loc_eq hno hcol]
      have hpairs : itemPairs (matchLine D .TableRow μ (freshTok l n) l).tok =
          (Spec.cells l).map fun p => ((⟨n, some p.1⟩ : Loc), p.2) := by
        rw [itemPairs, hitems, tableCells_eq_spec]
        apply List.map_congr_left
        intro p hp
        obtain ⟨o, len, h1, -, -, h4, -⟩ := cell_cols l p hp
        rw [getLocation_item _ p.1 (by omega), hno]
      rw [hpairs]
      rw [← trimmed_eq_drop] at hst
      exact .row hst
    case DocStringSeparator =>
      have htx := hopen hmt
      by_cases ho : opening μ
      · obtain ⟨sep, hsep, hst, -, htext, hkw, -⟩ := docsep_open D μ (freshTok l n) l ho hm
        obtain ⟨sep', -, -, hkw', hcol⟩ := docsep_col D μ (freshTok l n) l ht hm
        rw [leafElems_docSep _ sep _ hmt hkw htext, List.mem_singleton] at he
        subst he
        rw [tok_loc_eq hno hcol, rstripCRLF_strip]
        have hin : μ.inDocString = false := by
          unfold MState.inDocString
          rcases ho with h | h <;> rw [h] <;> rfl
        exact .docString sep hsep hin hst
      · exfalso
        cases ha : μ.activeSep with
        | none => exact ho (.inl ha)
        | some sep =>
          have hne : sep ≠ [] := fun h => ho (.inr (by rw [ha, h]))
          obtain ⟨-, hnone, -, -⟩ := docsep_close D μ (freshTok l n) l sep ha hne hm
          rw [hnone] at htx
          cases htx

theorem leafElems_eof {e : Token} (h : e.mtype = some .EOF) : leafElems e = [] :=
  leafElems_nonElem e _ h (by decide)

/-- a line reads at most one colon-free keyword followed by `:` at its start -/
theorem title_keyword_unique {kw kw' s : Str} (h : 58 ∉ kw) (h' : 58 ∉ kw')
    (hs : startsWith (kw ++ [58]) s = true) (hs' : startsWith (kw' ++ [58]) s = true) : kw = kw' := by
  rw [startsWith_iff_prefix] at hs hs'
  obtain ⟨r, hr⟩ := hs
  obtain ⟨r', hr'⟩ := hs'
  have e : kw ++ (58 :: r) = kw' ++ (58 :: r') := by
    simpa [List.append_assoc] using hr.trans hr'.symm
  rcases List.append_eq_append_iff.1 e with ⟨a, ha, hb⟩ | ⟨c, hc, hd⟩
  · cases a with
    | nil => simpa using ha.symm
    | cons x a =>
      simp only [List.cons_append, List.cons.injEq] at hb
      exact absurd (by rw [ha]; simp [← hb.1]) h'
  · cases c with
    | nil => simpa using hc
    | cons x c =>
      simp only [List.cons_append, List.cons.injEq] at hd
      exact absurd (by rw [hc]; simp [← hd.1]) h
/-! ### the matcher state in force -/

/-- every token of the list comes from some line, matched under the state in force there -/
theorem LineToks.memState {D : List Dialect} {μ μf : MState} {n : Nat} {ls : List Str} {toks : List Token}
    (h : LineToks D μ n ls toks μf) : ∀ tk ∈ toks, ∃ (i : Nat) (l : Str) (K : Kind),
      ls[i]? = some l ∧ toks[i]? = some tk ∧ (stateAt D μ ls toks i).dialect ∈ D ∧
      sepOK (stateAt D μ ls toks i) = true ∧
      (matchLine D K (stateAt D μ ls toks i) (freshTok l (n + i)) l).res = .matched ∧
      tk = (matchLine D K (stateAt D μ ls toks i) (freshTok l (n + i)) l).tok ∧ tk.mtype = some K := by
  induction h with
  | nil => intro tk hk; cases hk
  | @cons μ n l0 ls toks μf K hd hs hres hp _ _ ih =>
    intro tk hk
    have hmt := (match_well_matched D K μ _ _ hres).1
    rcases List.mem_cons.1 hk with rfl | hk
    · exact ⟨0, l0, K, rfl, rfl, hd, hs, hres, rfl, hmt⟩
    · obtain ⟨i, l, K', h0, h0', h1, h2, h3, h4, h5⟩ := ih tk hk
      have : n + 1 + i = n + (i + 1) := by omega
      rw [this] at h3 h4
      have hst : stateAt D μ (l0 :: ls) ((matchLine D K μ (freshTok l0 n) l0).tok :: toks) (i + 1) =
          stateAt D (muAfter D μ l0 K) ls toks i := by
        rw [stateAt, hmt]; rfl
      refine ⟨i + 1, l, K', by simpa using h0, by simpa using h0', ?_, ?_, ?_, ?_, h5⟩
      · rw [hst]; exact h1
      · rw [hst]; exact h2
      · rw [hst]; exact h3
      · rw [hst]; exact h4

/-- the name of the dialect in force is the one `Spec.nameAt` computes from the language headers -/
theorem LineToks.stateAt_name {D : List Dialect} {μ μf : MState} {n : Nat} {ls : List Str} {toks : List Token}
    (h : LineToks D μ n ls toks μf) : ∀ i, i < ls.length → (stateAt D μ ls toks i).name = Spec.nameAt μ.name ls toks i := by
  induction h with
  | nil => intro i hi; cases hi
  | @cons μ n l0 ls toks μf K hd hs hres hp _ _ ih =>
    intro i hi
    cases i with
    | zero => rfl
    | succ i =>
      have hmt := (match_well_matched D K μ (freshTok l0 n) l0 hres).1
      have hst : stateAt D μ (l0 :: ls) ((matchLine D K μ (freshTok l0 n) l0).tok :: toks) (i + 1) =
          stateAt D (muAfter D μ l0 K) ls toks i := by
        rw [stateAt, hmt]; rfl
      rw [hst, ih i (by simpa using hi)]
      have hname : (muAfter D μ l0 K).name = if K = .Language then (languageRe l0).getD μ.name else μ.name := by
        have hpr : (matchLine D K μ (probe l0) l0).res = .matched := by
          have hsh := (matchLine_indep D K μ (freshTok l0 n) (probe l0) l0).2
          rw [hres] at hsh
          cases hr : (matchLine D K μ (probe l0) l0).res with
          | matched => rfl
          | no => rw [hr] at hsh; cases hsh
          | raised e => rw [hr] at hsh; cases hsh
        exact matchLine_name D K μ (probe l0) l0 hpr
      rw [hname]
      show _ = Spec.nameAt (if (matchLine D K μ (freshTok l0 n) l0).tok.mtype = some Kind.Language then _ else _) ls toks i
      rw [hmt]
      by_cases hK : K = .Language
      · simp [hK]
      · have : ¬ (some K = some Kind.Language) := fun e => hK (Option.some.inj e)
        simp [hK, this]

/-! ### the document -/

/-- **C03 with exact text, at document level.**  For an accepted document the tokens handed to the
    builder are `toks ++ [eof]` with `LineToks` (one token per physical line, each the matcher's
    output on its line), and every element of the AST (`srcElems d`: keyword lines, steps, tags, table
    rows with their cells, doc strings) is `ElemFromLine μᵢ l (i + 1)` for a physical line
    `l = lines[i]` and the matcher state `μᵢ = stateAt … i` in force at that line. -/
theorem fields_in_document {D : List Dialect} {T : Table} {G : Grammar} {fuel : Nat} (L : LinkFacts D T G fuel)
    (hB : oneBuildLast T = true)
    (hCR : ((contentStates T).all fun s => (T.row? s).any isContentRow) = true)
    (μ : MState) (ids : Nat) (src : Str) (hμ : (μ.reset D).dialect ∈ D) (d : Doc)
    (h : (parseWith D T false μ ids src).1 = .ok d) :
    ∃ toks e μf, (parseWith D T false μ ids src).2.builds = toks ++ [e] ∧
      LineToks D (μ.reset D) 1 (splitLines src) toks μf ∧
      ∀ el ∈ srcElems d, ∃ (i : Nat) (l : Str), (splitLines src)[i]? = some l ∧
        (stateAt D (μ.reset D) (splitLines src) toks i).dialect ∈ D ∧
        ElemFromLine (stateAt D (μ.reset D) (splitLines src) toks i) l (i + 1) el := by
  obtain ⟨t, ht⟩ := parse_link L μ ids src hμ d h
  have hs := ht.shaped L.shape
  obtain ⟨hdoc, hlv, -, -, -, hop, hast⟩ := ht
  obtain ⟨toks, e, μf, hbuilds, hlt, -, -, he, -⟩ := parse_tokens L hB hCR μ ids src hμ d h
  have hleaves : leaves t = toks ++ [e] := hlv.trans hbuilds
  refine ⟨toks, e, μf, hbuilds, hlt, fun el hel => ?_⟩
  rw [elems_once_in_order t hs _ _ _ d hast] at hel
  obtain ⟨ch, rfl, -⟩ := (isDocument_iff t).1 hdoc
  obtain ⟨tk, htk, hin, hopen⟩ := elemsOfTree_sub _ _ ch rfl hs hop el hel
  rw [hleaves, List.mem_append, List.mem_singleton] at htk
  rcases htk with htk | rfl
  · obtain ⟨i, l, K, hi, -, hd, -, hres, rfl, -⟩ := LineToks.memState hlt tk htk
    have := matched_leafElems D K _ l (1 + i) hres el hin hopen
    rw [Nat.add_comm] at this
    exact ⟨i, l, hi, hd, this⟩
  · rw [leafElems_eof he] at hin; cases hin

/-! ### line by line -/

theorem lineElems_of_ne {tk : Token} (h : tk.mtype ≠ some .DocStringSeparator) : lineElems tk = leafElems tk := by
  unfold lineElems; rw [if_neg (fun hh => h hh.1)]

theorem lineElems_nil_of {tk : Token} (h : leafElems tk = []) : lineElems tk = [] := by
  unfold lineElems; split <;> simp [h]

theorem elemsOfTreeList_leaves (bs : List Token) : elemsOfTreeList (bs.map .leaf) = bs.flatMap leafElems := by
  induction bs with
  | nil => rw [List.map_nil, elemsOfTreeList]; rfl
  | cons b bs ih => rw [List.map_cons, elemsOfTreeList, elemsOfTree, ih, List.flatMap_cons]

/-- the tokens of one doc string: the opening separator carries the doc string, nothing else does -/
theorem docSeq_elems {bs : List Token} (h : DocSeq bs) :
    (bs.flatMap leafElems).head?.toList = bs.flatMap lineElems := by
  obtain ⟨o, xs, c, ys, sep, lo, rfl, ho, hxs, hc, hys⟩ := h
  obtain ⟨-, -, -, hom, hok, hot, -⟩ := ho
  have hxs' : xs.flatMap lineElems = [] := by
    rw [List.flatMap_eq_nil_iff]
    intro x hx
    obtain ⟨lx, -, -, hm, -⟩ := hxs x hx
    exact lineElems_nil_of (leafElems_nonElem x _ hm (by decide))
  have hys' : ys.flatMap lineElems = [] := by
    rw [List.flatMap_eq_nil_iff]
    intro y hy
    rcases (hys y hy).1 with hm | hm <;> exact lineElems_nil_of (leafElems_nonElem y _ hm (by decide))
  have hc' : lineElems c = [] := by
    unfold lineElems; rw [if_pos ⟨hc.2.1, hc.2.2.1⟩]
  have ho' : lineElems o = leafElems o := by
    unfold lineElems; rw [if_neg (fun hh => by rw [hot] at hh; cases hh.2)]
  simp only [List.flatMap_cons, List.flatMap_append]
  rw [hxs', hc', hys', ho',
    leafElems_docSep o sep _ hom hok hot]
  rfl

mutual
/-- in a grammar-shaped tree whose `DocString` nodes hold the tokens of one doc string each, the
    elements of the tree are the elements of its leaves, leaf by leaf -/
theorem elemsOfTree_flat (P : List Token → Prop) (hP : ∀ bs, P bs → DocSeq bs) :
    ∀ (t : TTree) (r : RuleType) (ch : List TTree), t = .node r ch →
    shaped t = true → docNodesP P t → elemsOfTree t = (leaves t).flatMap lineElems
  | .leaf _, _, _, h, _, _ => by cases h
  | .node r ch, _, _, _, hs, hd => by
    simp only [shaped, Bool.and_eq_true] at hs
    rw [docNodesP] at hd
    rw [leaves]
    by_cases hr : r = .DocString
    · subst hr
      obtain ⟨bs, rfl, hbs⟩ := hd.1 rfl
      rw [elemsOfTree, if_pos rfl, elemsOfTreeList_leaves, leavesList_leaves]
      exact docSeq_elems (hP bs hbs)
    · rw [elemsOfTree, if_neg hr]
      exact elemsOfTreeList_flat P hP ch r hr (fun c hc => (nodeOK_child hs.1 c hc).2) hs.2 hd.2
theorem elemsOfTreeList_flat (P : List Token → Prop) (hP : ∀ bs, P bs → DocSeq bs) :
    ∀ (ts : List TTree) (r : RuleType), r ≠ .DocString →
    (∀ c ∈ ts, ∀ t k, c = .leaf t → t.mtype = some k → k ∈ elemKinds → k ∈ (nodeShape r).lines) →
    shapedList ts = true → docNodesListP P ts → elemsOfTreeList ts = (leavesList ts).flatMap lineElems
  | [], _, _, _, _, _ => by rw [elemsOfTreeList, leavesList]; rfl
  | c :: cs, r, hr, hl, hs, hd => by
    simp only [shapedList, Bool.and_eq_true] at hs
    rw [docNodesListP] at hd
    rw [elemsOfTreeList, leavesList, List.flatMap_append,
      elemsOfTreeList_flat P hP cs r hr (fun c' hc' => hl c' (List.mem_cons_of_mem _ hc')) hs.2 hd.2]
    congr 1
    cases c with
    | leaf t =>
      rw [elemsOfTree, leaves, List.flatMap_cons, List.flatMap_nil, List.append_nil]
      refine (lineElems_of_ne fun hm => ?_).symm
      have := hl _ List.mem_cons_self t _ rfl hm (by decide)
      cases r <;> first | exact hr rfl | simp [nodeShape] at this
    | node r' ch' => exact elemsOfTree_flat P hP (.node r' ch') r' ch' rfl hs.1 hd.1
end

/-- the elements of one matched line, in terms of the text of the line -/
theorem matched_lineElems (D : List Dialect) (K : Kind) (μ : MState) (l : Str) (n : Nat)
    (hm : (matchLine D K μ (freshTok l n) l).res = .matched) :
    ∀ e ∈ lineElems (matchLine D K μ (freshTok l n) l).tok, ElemFromLine μ l n e := by
  intro e he
  unfold lineElems at he
  split at he
  · cases he
  · rename_i hno
    refine matched_leafElems D K μ l n hm e he fun hmt => ?_
    cases htx : (matchLine D K μ (freshTok l n) l).tok.text with
    | none => exact absurd ⟨hmt, htx⟩ hno
    | some _ => rfl

/-- the `i`-th token: the output of a successful test on line `i` under the state in force there -/
theorem LineToks.atState {D : List Dialect} {μ μf : MState} {n : Nat} {ls : List Str} {toks : List Token}
    (h : LineToks D μ n ls toks μf) : ∀ (i : Nat) (l : Str), ls[i]? = some l →
      ∃ K, (stateAt D μ ls toks i).dialect ∈ D ∧ sepOK (stateAt D μ ls toks i) = true ∧
        (matchLine D K (stateAt D μ ls toks i) (freshTok l (n + i)) l).res = .matched ∧
        toks[i]? = some (matchLine D K (stateAt D μ ls toks i) (freshTok l (n + i)) l).tok ∧
        passes (intrinsicKind D (stateAt D μ ls toks i) l) K = true ∧
        (matchLine D K (stateAt D μ ls toks i) (freshTok l (n + i)) l).tok.mtype = some K := by
  induction h with
  | nil => intro i l hi; simp at hi
  | @cons μ n l0 ls toks μf K hd hs hres hp _ _ ih =>
    intro i l hi
    have hmt := (match_well_matched D K μ _ _ hres).1
    cases i with
    | zero =>
      simp only [List.getElem?_cons_zero, Option.some.injEq] at hi
      subst hi
      exact ⟨K, hd, hs, hres, rfl, hp, hmt⟩
    | succ i =>
      simp only [List.getElem?_cons_succ] at hi
      obtain ⟨K', h1, h2, h3, h4, h5, h6⟩ := ih i l hi
      have : n + 1 + i = n + (i + 1) := by omega
      rw [this] at h3 h4 h6
      have hst : stateAt D μ (l0 :: ls) ((matchLine D K μ (freshTok l0 n) l0).tok :: toks) (i + 1) =
          stateAt D (muAfter D μ l0 K) ls toks i := by
        rw [stateAt, hmt]; rfl
      refine ⟨K', ?_, ?_, ?_, ?_, ?_, ?_⟩
      · rw [hst]; exact h1
      · rw [hst]; exact h2
      · rw [hst]; exact h3
      · rw [hst]; simpa using h4
      · rw [hst]; exact h5
      · rw [hst]; exact h6

/-- **C03 with exact text, line by line.**  For an accepted document, with `toks ++ [eof]` the
    tokens handed to the builder (one per physical line, `LineToks`): the elements of the AST in
    source order are exactly the concatenation, line by line, of the elements of each line's token
    (`lineElems`) — every element once, in order, nothing else — and the elements of the token of
    line `i` are read off the text of that line under the matcher state in force (`ElemFromLine`). -/
theorem fields_line_by_line {D : List Dialect} {T : Table} {G : Grammar} {fuel : Nat} (L : LinkFacts D T G fuel)
    (F : DocFacts D T) (hB : oneBuildLast T = true)
    (μ : MState) (ids : Nat) (src : Str) (hμ : (μ.reset D).dialect ∈ D) (d : Doc)
    (h : (parseWith D T false μ ids src).1 = .ok d) :
    ∃ toks e μf, (parseWith D T false μ ids src).2.builds = toks ++ [e] ∧
      LineToks D (μ.reset D) 1 (splitLines src) toks μf ∧
      srcElems d = toks.flatMap lineElems ∧
      ∀ (i : Nat) (l : Str) (tk : Token), (splitLines src)[i]? = some l → toks[i]? = some tk →
        (stateAt D (μ.reset D) (splitLines src) toks i).dialect ∈ D ∧
        ∃ K, tk.mtype = some K ∧
          tk = (matchLine D K (stateAt D (μ.reset D) (splitLines src) toks i) (freshTok l (i + 1)) l).tok ∧
          ∀ el ∈ lineElems tk, ElemFromLine (stateAt D (μ.reset D) (splitLines src) toks i) l (i + 1) el := by
  obtain ⟨t, ht, hdn⟩ := parse_link_doc L F hB μ ids src hμ d h
  have hs := ht.shaped L.shape
  obtain ⟨hdoc, hlv, -, -, -, -, hast⟩ := ht
  obtain ⟨toks, e, μf, hbuilds, hlt, -, -, he, -⟩ := parse_tokens L hB F.contentRows μ ids src hμ d h
  have hleaves : leaves t = toks ++ [e] := hlv.trans hbuilds
  refine ⟨toks, e, μf, hbuilds, hlt, ?_, fun i l tk hi htk => ?_⟩
  · obtain ⟨ch, rfl, -⟩ := (isDocument_iff t).1 hdoc
    rw [elems_once_in_order _ hs _ _ _ d hast, elemsOfTree_flat DocSeqNo (fun _ hb => hb.1) _ _ ch rfl hs hdn,
      hleaves, List.flatMap_append, List.flatMap_cons, List.flatMap_nil, List.append_nil,
      lineElems_nil_of (leafElems_eof he), List.append_nil]
  · obtain ⟨K, hd, -, hres, htok, -, hmt⟩ := LineToks.atState hlt i l hi
    rw [Nat.add_comm] at hres htok hmt
    rw [htk] at htok
    cases htok
    exact ⟨hd, K, hmt, rfl, matched_lineElems D K _ l (i + 1) hres⟩

/-! ### free text: descriptions and doc-string contents -/

/-- outside a doc string no indentation is being removed -/
def indOK (μ : MState) : Prop := μ.activeSep = none → μ.indentToRemove = 0

theorem reset_indOK (D : List Dialect) (μ : MState) : indOK (μ.reset D) := by
  intro _
  unfold MState.reset
  rfl

theorem matchLine_indOK (D : List Dialect) (K : Kind) (μ : MState) (t : Token) (l : Str) (h : indOK μ) :
    indOK (matchLine D K μ t l).μ := by
  by_cases hK : K = .DocStringSeparator
  · subst hK
    by_cases ho : opening μ
    · rw [matchLine_docsep_opening D μ t l ho]
      split
      · intro hh; cases hh
      · split
        · intro hh; cases hh
        · exact h
    · cases ha : μ.activeSep with
      | none => exact absurd (.inl ha) ho
      | some sep =>
        have hne : sep ≠ [] := fun h => ho (.inr (by rw [ha, h]))
        rw [matchLine_docsep_active D μ t l sep ha hne]
        split
        · intro _; rfl
        · exact h
  · obtain ⟨h1, h2⟩ := matchLine_keeps_docstate D K μ t l hK
    intro hh
    rw [h2]
    exact h (h1 ▸ hh)

theorem stateAt_nil (D : List Dialect) (μ : MState) (toks : List Token) (i : Nat) : stateAt D μ [] toks i = μ := by
  unfold stateAt; rfl

theorem LineToks.stateAt_indOK {D : List Dialect} {μ μf : MState} {n : Nat} {ls : List Str} {toks : List Token}
    (h : LineToks D μ n ls toks μf) (h0 : indOK μ) : ∀ i, indOK (stateAt D μ ls toks i) := by
  induction h with
  | nil μ n => intro i; rw [stateAt_nil]; exact h0
  | @cons μ n l0 ls toks μf K hd hs hres hp _ _ ih =>
    intro i
    cases i with
    | zero => exact h0
    | succ i =>
      have hmt := (match_well_matched D K μ (freshTok l0 n) l0 hres).1
      have hst : stateAt D μ (l0 :: ls) ((matchLine D K μ (freshTok l0 n) l0).tok :: toks) (i + 1) =
          stateAt D (muAfter D μ l0 K) ls toks i := by
        rw [stateAt, hmt]; rfl
      rw [hst]
      exact ih (matchLine_indOK D K μ (probe l0) l0 h0) i

/-- the text of a line read as free text: the line without its line break — minus, inside a doc
    string, the opening line's indentation, and with the escaped delimiter unescaped
    (`C13_content_line`); outside a doc string the line VERBATIM, indentation included -/
theorem other_line_text (D : List Dialect) (μ : MState) (l : Str) (n : Nat) :
    (matchLine D .Other μ (freshTok l n) l).tok.text =
      some (rstripCRLF (unescapeDoc μ.activeSep (l.drop (min μ.indentToRemove (lineIndent l))))) ∧
    (sepOK μ = true → indOK μ → μ.inDocString = false →
      (matchLine D .Other μ (freshTok l n) l).tok.text = some (rstripCRLF l)) := by
  refine ⟨other_text D μ _ l, fun hs hi hin => ?_⟩
  have ha := sepOK_notInDoc hs hin
  rw [other_text, ha, hi ha, unescapeDoc_none, Nat.zero_min, List.drop_zero]


/-! ### the lines of a description are read outside doc strings

  As for `DocString` nodes (Lemmas/ParseDocTree.lean): along a `Trace` the calls after a
  `start_rule(Description)` are `build`s of description lines up to the next `end_rule`
  (`trace_descOps`; table facts `Spec.descStartFacts`, `Spec.descBodyFacts`), so the rebuilt tree has
  the `Description` nodes described (`ttreeOfAux_descNodes`). -/

theorem descNodesListP_append (a b : List TTree) :
    descNodesListP (a ++ b) ↔ descNodesListP a ∧ descNodesListP b := by
  induction a with
  | nil => simp [descNodesListP]
  | cons c a ih => simp only [List.cons_append, descNodesListP, ih, and_assoc]

/-- the invariant of the stack of open nodes against the calls still to come -/
def SInvDesc : List (RuleType × List TTree) → List BOp → Prop
  | [], _ => True
  | (r, cs) :: rest, ops =>
    descNodesListP cs ∧
    (r = .Description → ∃ (pre bs : List Token) (rest' : List BOp), cs = pre.map .leaf ∧
      ops = bs.map .build ++ .end_ :: rest' ∧ ∀ b ∈ pre ++ bs, DescTok b) ∧
    ∀ p ∈ rest, descNodesListP p.2 ∧ p.1 ≠ .Description

theorem ttreeOfAux_descNodes : ∀ (ops : List BOp) (stack : List (RuleType × List TTree)) (t : TTree),
    descOps ops → SInvDesc stack ops → ttreeOfAux ops stack = some t → descNodesP t := by
  intro ops
  induction ops with
  | nil => intro stack t _ _ h; cases h
  | cons o ops ih =>
    intro stack t hdo hinv h
    cases o with
    | start r =>
      simp only [ttreeOfAux] at h
      obtain ⟨hnext, hdo'⟩ := hdo
      refine ih ((r, []) :: stack) t hdo' ?_ h
      refine ⟨trivial, fun hr => ?_, ?_⟩
      · obtain ⟨bs, rest', h1, h2⟩ := hnext hr
        exact ⟨[], bs, rest', rfl, h1, by simpa using h2⟩
      · intro p hp
        cases stack with
        | nil => cases hp
        | cons top rest =>
          obtain ⟨r0, cs0⟩ := top
          obtain ⟨hd, htop, hrest⟩ := hinv
          rcases List.mem_cons.1 hp with rfl | hp
          · refine ⟨hd, fun hr0 => ?_⟩
            obtain ⟨pre, bs, rest', -, hops, -⟩ := htop hr0
            cases bs <;> simp at hops
          · exact hrest p hp
    | build tk =>
      cases stack with
      | nil => simp [ttreeOfAux] at h
      | cons top rest =>
        obtain ⟨r, cs⟩ := top
        simp only [ttreeOfAux] at h
        obtain ⟨hd, htop, hrest⟩ := hinv
        refine ih ((r, cs ++ [.leaf tk]) :: rest) t hdo ⟨?_, fun hr => ?_, hrest⟩ h
        · exact (descNodesListP_append _ _).2 ⟨hd, trivial, trivial⟩
        · obtain ⟨pre, bs, rest', hcs, hops, hseq⟩ := htop hr
          obtain ⟨bs', rfl, hes⟩ := builds_cons_inv hops.symm
          refine ⟨pre ++ [tk], bs', rest', by rw [hcs]; simp, hes, ?_⟩
          simpa using hseq
    | end_ =>
      cases stack with
      | nil => simp [ttreeOfAux] at h
      | cons top rest =>
        obtain ⟨r, cs⟩ := top
        obtain ⟨hd, htop, hrest⟩ := hinv
        have hnode : descNodesP (.node r cs) := by
          refine ⟨fun hr => ?_, hd⟩
          obtain ⟨pre, bs, rest', hcs, hops, hseq⟩ := htop hr
          cases bs with
          | nil => exact ⟨pre, hcs, by simpa using hseq⟩
          | cons b bs => simp at hops
        cases rest with
        | nil =>
          simp only [ttreeOfAux] at h
          split at h
          · cases h; exact hnode
          · cases h
        | cons top2 rest2 =>
          obtain ⟨p, ps⟩ := top2
          simp only [ttreeOfAux] at h
          obtain ⟨hpd, hpne⟩ := hrest (p, ps) (List.mem_cons_self ..)
          refine ih ((p, ps ++ [.node r cs]) :: rest2) t hdo
            ⟨(descNodesListP_append _ _).2 ⟨hpd, hnode, trivial⟩, fun hp => absurd hp hpne,
             fun q hq => hrest q (List.mem_cons_of_mem _ hq)⟩ h

theorem ttreeOf_descNodes (ops : List BOp) (t : TTree) (hdo : descOps ops) (h : ttreeOf ops = some t) :
    descNodesP t :=
  ttreeOfAux_descNodes ops [] t hdo trivial h

theorem descOps_append {a b : List BOp} (ha : descOps a) (hb : descOps b) : descOps (a ++ b) := by
  induction a with
  | nil => exact hb
  | cons o a ih =>
    cases o with
    | start r =>
      obtain ⟨h1, h2⟩ := ha
      refine ⟨fun hr => ?_, ih h2⟩
      obtain ⟨bs, rest', hrest, hseq⟩ := h1 hr
      exact ⟨bs, rest' ++ b, by rw [hrest]; simp, hseq⟩
    | end_ => exact ih ha
    | build t => exact ih ha

theorem descOps_prodOps (tok : Token) (ps : List Prod) (X : List BOp) (hsl : startsDescLast ps = true)
    (hX : descOps X)
    (hdoc : Prod.start .Description ∈ ps →
      ∃ (bs : List Token) (rest' : List BOp), X = bs.map .build ++ .end_ :: rest' ∧ ∀ b ∈ tok :: bs, DescTok b) :
    descOps (prodOps tok ps ++ X) := by
  induction ps with
  | nil => exact hX
  | cons p ps ih =>
    simp only [startsDescLast, Bool.and_eq_true, Bool.or_eq_true, bne_iff_ne, ne_eq, beq_iff_eq] at hsl
    have ih' := ih hsl.2 fun hm => hdoc (List.mem_cons_of_mem _ hm)
    cases p with
    | end_ r => exact ih'
    | build => exact ih'
    | start r =>
      refine ⟨fun hr => ?_, ih'⟩
      subst hr
      rcases hsl.1 with h1 | h1
      · exact absurd rfl h1
      · subst h1
        obtain ⟨bs, rest', hXe, hseq⟩ := hdoc (List.mem_cons_self ..)
        exact ⟨tok :: bs, rest', by simp [prodOps, hXe], hseq⟩

/-- the facts about the tables used for the `Description` nodes -/
structure DescFacts (T : Table) : Prop where
  start : descStartFacts T = true
  body : descBodyFacts T = true

theorem muAfter_other_comment (D : List Dialect) (μ : MState) (l : Str) (K : Kind)
    (hK : K = .Other ∨ K = .Comment) : muAfter D μ l K = μ := by
  rcases hK with rfl | rfl
  · rfl
  · unfold muAfter
    simp only [matchLine]
    split <;> rfl

theorem other_text_verbatim (D : List Dialect) (μ : MState) (t : Token) (l : Str)
    (hs : sepOK μ = true) (hi : indOK μ) (hin : μ.inDocString = false) :
    (matchLine D .Other μ t l).tok.text = some (rstripCRLF l) := by
  have ha := sepOK_notInDoc hs hin
  rw [other_text, ha, hi ha, unescapeDoc_none, Nat.zero_min, List.drop_zero]

/-- the token of an `Other` / `Comment` test outside a doc string is a description line -/
theorem descTok_of_match {D : List Dialect} {μ : MState} {t0 : Token} {l : Str} {K : Kind}
    (hK : K = .Other ∨ K = .Comment) (ht0 : t0.line = some l)
    (hres : (matchTok D K μ t0).1.res = .matched)
    (hs : sepOK μ = true) (hi : indOK μ) (hin : μ.inDocString = false) :
    DescTok (matchTok D K μ t0).1.tok := by
  obtain ⟨hmt, -⟩ := matchTok_well_matched D _ _ _ hres
  rcases hK with rfl | rfl
  · refine .inr ⟨l, ?_, hmt, ?_⟩
    · rw [(matchTok_tok D .Other μ t0).1]; exact ht0
    · rw [matchTok_line ht0]; exact other_text_verbatim D μ t0 l hs hi hin
  · exact .inl hmt

theorem descState_branch {T : Table} (hBF : descBodyFacts T = true) {p : Nat} {row : StateRow}
    (hrow : T.row? p = some row) (hp : (descStates T).contains p = true) {b : Branch} (hb : b ∈ row.branches) :
    (∃ x ps, b.prods = .end_ x :: ps) ∨
    (b.prods = [.build] ∧ b.target = p ∧ (b.kind = .Other ∨ b.kind = .Comment)) := by
  obtain ⟨hid, hmem⟩ := row_id_of_row? hrow
  simp only [descBodyFacts, List.all_eq_true, Bool.or_eq_true, Bool.not_eq_true', Bool.and_eq_true,
    beq_iff_eq] at hBF
  rcases hBF row hmem with h | h
  · rw [hid, hp] at h; cases h
  · rcases h b hb with h | ⟨⟨h1, h2⟩, h3⟩
    · left
      cases hps : b.prods with
      | nil => rw [hps] at h; cases h
      | cons q ps =>
        rw [hps] at h
        cases q with
        | end_ x => exact ⟨x, ps, rfl⟩
        | start x => cases h
        | build => cases h
    · exact .inr ⟨h1, h2.trans hid, h3⟩

/-- inside a `Description` node: description lines are built, then comes an `end_rule` -/
theorem trace_descBody {D : List Dialect} {T : Table} (hBF : descBodyFacts T = true)
    {p : Nat} {μ : MState} {ls : List Str} {sf : Nat} {steps : List (Branch × Token)}
    (h : Trace D T p μ ls sf steps) (hp : (descStates T).contains p = true)
    (hs : sepOK μ = true) (hi : indOK μ) (hin : μ.inDocString = false) :
    ∃ (ys : List Token) (rest' : List BOp), stepsOps steps = ys.map .build ++ .end_ :: rest' ∧ ∀ y ∈ ys, DescTok y := by
  induction h with
  | @eof s μ row b t0 hrow hpick ht0 hres =>
    obtain ⟨hbm, hpass, -⟩ := pick_mem hpick
    rcases descState_branch hBF hrow hp hbm with ⟨x, ps, hps⟩ | ⟨-, -, hk⟩
    · exact ⟨[], prodOps (matchTok D b.kind μ t0).1.tok ps ++ [], by simp [stepsOps, hps, prodOps], fun y hy => by cases hy⟩
    · rw [passes_EOF] at hpass
      rcases hk with hk | hk <;> (rw [hk] at hpass; cases hpass)
  | @line s μ l ls row b t0 sf rest hrow hpick ht0 hres _ ih =>
    obtain ⟨hbm, -, -⟩ := pick_mem hpick
    rcases descState_branch hBF hrow hp hbm with ⟨x, ps, hps⟩ | ⟨hps, htgt, hk⟩
    · exact ⟨[], prodOps (matchTok D b.kind μ t0).1.tok ps ++ stepsOps rest, by simp [stepsOps, hps, prodOps], fun y hy => by cases hy⟩
    · have hmu := muAfter_other_comment D μ l b.kind hk
      rw [hmu] at ih
      obtain ⟨ys, rest', hops, hys⟩ := ih (by rw [htgt]; exact hp) hs hi hin
      refine ⟨(matchTok D b.kind μ t0).1.tok :: ys, rest', ?_, ?_⟩
      · simp only [stepsOps, List.flatMap_cons, hps, prodOps, List.map_cons, List.cons_append, List.nil_append]
        simp only [stepsOps] at hops
        rw [hops]
      · intro y hy
        rcases List.mem_cons.1 hy with rfl | hy
        · exact descTok_of_match hk ht0 hres hs hi hin
        · exact hys y hy

theorem mem_descStates {T : Table} {row : StateRow} {b : Branch} (hmem : row ∈ T.rows) (hb : b ∈ row.branches)
    (hm : Prod.start .Description ∈ b.prods) : (descStates T).contains b.target = true := by
  rw [List.contains_iff_mem]
  unfold descStates
  exact List.mem_flatMap.2 ⟨row, hmem, List.mem_map.2 ⟨b, List.mem_filter.2 ⟨hb, List.contains_iff_mem.2 hm⟩, rfl⟩⟩

theorem trace_descOps {D : List Dialect} {T : Table} (hf : textDialectFacts D = true) (hCE : contentEntry T = true)
    (F : DescFacts T)
    {s : Nat} {μ : MState} {ls : List Str} {sf : Nat} {steps : List (Branch × Token)}
    (h : Trace D T s μ ls sf steps) (hμ : MuOK D μ) (hi : indOK μ)
    (hinv : μ.inDocString = (contentStates T).contains s) : descOps (stepsOps steps) := by
  have hSF := F.start
  simp only [descStartFacts, List.all_eq_true, Bool.and_eq_true, Bool.or_eq_true, Bool.not_eq_true',
    beq_iff_eq] at hSF
  induction h with
  | @eof s μ row b t0 hrow hpick ht0 hres =>
    obtain ⟨hid, hmem⟩ := row_id_of_row? hrow
    obtain ⟨hbm, hpass, -⟩ := pick_mem hpick
    simp only [stepsOps, List.flatMap_cons, List.flatMap_nil]
    refine descOps_prodOps _ _ _ (hSF row hmem b hbm).1 trivial fun hm => ?_
    exfalso
    rcases (hSF row hmem b hbm).2 with hds | hds
    · rw [List.contains_iff_mem.2 hm] at hds; cases hds
    · rw [passes_EOF] at hpass
      rcases hds.1.1 with hk | hk <;> (rw [hk] at hpass; cases hpass)
  | @line s μ l ls row b t0 sf rest hrow hpick ht0 hres htail ih =>
    obtain ⟨hid, hmem⟩ := row_id_of_row? hrow
    obtain ⟨hbm, hpass, -⟩ := pick_mem hpick
    have hμ' := muAfter_ok D μ hμ l b.kind
    have hinv' := inv_next hf hCE hrow hbm hμ hpass hinv
    have hi' : indOK (muAfter D μ l b.kind) := matchLine_indOK D b.kind μ (probe l) l hi
    simp only [stepsOps, List.flatMap_cons]
    refine descOps_prodOps _ _ _ (hSF row hmem b hbm).1 (ih hμ' hi' hinv') fun hm => ?_
    rcases (hSF row hmem b hbm).2 with hds | hds
    · rw [List.contains_iff_mem.2 hm] at hds; cases hds
    · obtain ⟨⟨hk, hnc⟩, hnt⟩ := hds
      rw [hid] at hnc
      have hin : μ.inDocString = false := by rw [hinv]; exact hnc
      have hin' : (muAfter D μ l b.kind).inDocString = false := by rw [hinv']; exact hnt
      obtain ⟨ys, rest', hops, hys⟩ := trace_descBody F.body htail (mem_descStates hmem hbm hm) hμ'.2 hi' hin'
      refine ⟨ys, rest', hops, fun y hy => ?_⟩
      rcases List.mem_cons.1 hy with rfl | hy
      · exact descTok_of_match hk ht0 hres hμ.2 hi hin
      · exact hys y hy

/-- the link, with the `DocString` AND the `Description` nodes described (the proof of
    `pure_link_doc`, with one more predicate carried from the call sequence to the tree) -/
theorem pure_link_desc {D : List Dialect} {T : Table} {G : Grammar} {fuel : Nat} (L : LinkFacts D T G fuel)
    (F : DocFacts D T) (F' : DescFacts T) (μ : MState) (ids : Nat) (src : Str) (hμ : (μ.reset D).dialect ∈ D) (d : Doc)
    (h : (parseWithPure D T false μ ids src).1 = .ok d) :
    ∃ t, LinkTree D T G (μ.reset D) (splitLines src) d (parseWithPure D T false μ ids src).2.builds ids
      (parseWithPure D T false μ ids src).2.ids t ∧ docNodesP DocSeq t ∧ descNodesP t := by
  have QFf := QF.of_facts (queueDialectFacts_of_text L.dialects) L.queue
  have hpw := parseWithPure_eq D T false μ ids src
  rcases hr : run (parseBodyPure D T false (splitLines src).length) (ctx0 D μ ids src) with ⟨r, c⟩
  rw [hr] at hpw
  have hμ0 : MuOK D (ctx0 D μ ids src).μ := ⟨hμ, reset_sepOK D μ⟩
  cases r with
  | error e =>
    exfalso
    rw [hpw] at h
    cases e <;> cases h
  | ok d' =>
    dsimp only at hpw
    rw [hpw] at h ⊢
    dsimp only at h ⊢
    cases h
    obtain ⟨steps, sf, htr, hops, hbuilds, hres⟩ := body_clean L.dialects QFf _ _ hμ0 hr
    have htr' : Trace D T 0 (μ.reset D) (splitLines src) sf steps := htr
    have hops' : applyOps (.start T.startRule :: (stepsOps steps ++ [.end_])) BState.reset ids = (.ok (), c.β, c.ids) := hops
    have hbuilds' : c.builds = opToks (stepsOps steps) := by
      rw [hbuilds]; rfl
    have hrun := trace_runAbs QFf htr'
    have heva : eventsAbs T (textKinds D T 0 (μ.reset D) (splitLines src)) =
        some ([.start T.startRule] ++ stepsEvs steps ++ [.end_ T.startRule]) := by
      unfold eventsAbs; rw [hrun]; rfl
    obtain ⟨tk, htree, hvalid, -⟩ := events_valid_tree_gen L.typed _
      (textKinds_no_EOF D T (splitLines src) 0 (μ.reset D)) _ heva
    have htoks := trace_tokens htr'
    have hoe : OpsEvs (.start T.startRule :: (stepsOps steps ++ [.end_]))
        ([.start T.startRule] ++ stepsEvs steps ++ [.end_ T.startRule]) := by
      have h1 := opsEvs_steps steps fun p hp => (htoks p hp).1
      have h2 : OpsEvs [.end_] [.end_ T.startRule] := .cons (.end_ _) .nil
      simpa using OpsEvs.cons (.start T.startRule) (OpsEvs.append h1 h2)
    obtain ⟨t, ht, hk⟩ := ttreeOf_kinds _ _ hoe tk htree
    obtain ⟨hopsOf, hleaves⟩ := ttreeOf_flat _ t ht
    have hleaves' : leaves t = opToks (stepsOps steps) := by
      rw [hleaves]; simp [opToks, opToks_append]
    have hv : ValidTree G .GherkinDocument t.kinds := by rw [hk, ← L.start]; exact hvalid
    have hs : shaped t = true := shaped_of_validTree L.shape _ t hv
    have hdoc : t.isDocument = true := by
      obtain ⟨ch, rfl⟩ := root_of_validTree t hv
      exact isDocument_of_shaped ch hs
    have hinv : (μ.reset D).inDocString = (contentStates T).contains 0 := by
      rw [reset_inDocString]
      have := L.docOpens
      simp only [docStringOpens, Bool.and_eq_true, Bool.not_eq_true'] at this
      exact this.1.symm
    have hadj : adjOK (.start T.startRule :: (stepsOps steps ++ [.end_])) := by
      refine ⟨fun hr => ?_, adjOK_append (adjOK_steps steps (trace_adj L.dialects L.content L.docOpens htr' hμ0 hinv)) trivial⟩
      rw [L.start] at hr; cases hr
    have hdo : docOps (.start T.startRule :: (stepsOps steps ++ [.end_])) := by
      refine ⟨fun hr => ?_, docOps_append (trace_docOps F htr' hμ0 hinv) trivial⟩
      rw [L.start] at hr; cases hr
    have hde : descOps (.start T.startRule :: (stepsOps steps ++ [.end_])) := by
      refine ⟨fun hr => ?_, descOps_append (trace_descOps L.dialects L.content F' htr' hμ0 (reset_indOK D μ) hinv) trivial⟩
      rw [L.start] at hr; cases hr
    refine ⟨t, ⟨hdoc, by rw [hleaves', hbuilds'], hv, ⟨_, heva, by rw [hk]; exact htree⟩, ?_,
      ttreeOf_opened _ t hadj ht, ?_⟩, ttreeOf_docNodes _ t hdo ht, ttreeOf_descNodes _ t hde ht⟩
    · intro x hx
      rw [hleaves'] at hx
      obtain ⟨p, hp, rfl⟩ := mem_opToks_steps steps x hx
      exact (htoks p hp).2
    · rw [← hopsOf] at hops'
      obtain ⟨hok, herr⟩ := ast_of_tree t hdoc ids
      rcases hra : (astOf (commentsOf t) t).run.run ids with ⟨ra, n'⟩
      cases ra with
      | error e =>
        obtain ⟨β, hβ⟩ := herr e n' hra
        rw [hops'] at hβ
        cases hβ
      | ok v =>
        obtain ⟨β, hβ, -, -, d', rfl, hres', -⟩ := hok v n' hra
        rw [hops'] at hβ
        cases hβ
        rw [hres] at hres'
        cases hres'
        rfl

theorem parse_link_desc {D : List Dialect} {T : Table} {G : Grammar} {fuel : Nat} (L : LinkFacts D T G fuel)
    (F : DocFacts D T) (F' : DescFacts T) (hB : oneBuildLast T = true)
    (μ : MState) (ids : Nat) (src : Str) (hμ : (μ.reset D).dialect ∈ D) (d : Doc)
    (h : (parseWith D T false μ ids src).1 = .ok d) :
    ∃ t, LinkTree D T G (μ.reset D) (splitLines src) d (parseWith D T false μ ids src).2.builds ids
      (parseWith D T false μ ids src).2.ids t ∧ docNodesP DocSeqNo t ∧ descNodesP t := by
  have hD := queueDialectFacts_of_text L.dialects
  have hobs := queue_refines_peek D T hD L.queue L.commentBlank false μ ids src hμ
  have ho : (parseWith D T false μ ids src).1 = (parseWithPure D T false μ ids src).1 := congrArg Spec.Observed.outcome hobs
  have hb : (parseWith D T false μ ids src).2.builds = (parseWithPure D T false μ ids src).2.builds :=
    congrArg Spec.Observed.builds hobs
  have hi : (parseWith D T false μ ids src).2.ids = (parseWithPure D T false μ ids src).2.ids :=
    congrArg Spec.Observed.ids hobs
  have hseq := (accepted_sequence D T hD L.queue hB false μ ids src hμ d h).1
  rw [hb] at hseq ⊢
  rw [hi]
  obtain ⟨t, hlt, hdn, hde⟩ := pure_link_desc L F F' μ ids src hμ d (ho ▸ h)
  refine ⟨t, hlt, docNodes_lineNo DocSeq t 1 hdn ?_, hde⟩
  have hlen : (parseWithPure D T false μ ids src).2.builds.length = (splitLines src).length + 1 := by
    have := congrArg List.length hseq
    simpa using this
  rw [hlt.2.1, hseq, hlen]

theorem childToks_eq_childTokens (k : Kind) (cs : List TTree) : childToks k cs = childTokens k cs := rfl

theorem descNodesListP_mem {cs : List TTree} (h : descNodesListP cs) : ∀ c ∈ cs, descNodesP c := by
  induction cs with
  | nil => intro c hc; cases hc
  | cons a cs ih =>
    intro c hc
    rcases List.mem_cons.1 hc with rfl | hc
    · exact h.1
    · exact ih h.2 c hc

theorem descNodesP_sub {s t : TTree} (h : SubT s t) (ht : descNodesP t) : descNodesP s := by
  induction h with
  | refl => exact ht
  | child hc _ ih => exact ih (descNodesListP_mem ht.2 _ hc)

/-- every `Description` node anywhere in the tree -/
theorem descNodesP_at {t : TTree} (ht : descNodesP t) {ch : List TTree}
    (h : SubT (.node .Description ch) t) : ∃ bs : List Token, ch = bs.map .leaf ∧ ∀ b ∈ bs, DescTok b :=
  (descNodesP_sub h ht).1 rfl

/-- the texts of the free-text lines of a `Description` node whose children are description lines:
    the physical lines read as `Other`, each VERBATIM minus its line break (comment lines left out) -/
theorem otherTexts_descLines (bs : List Token) (h : ∀ b ∈ bs, DescTok b) :
    otherTexts (bs.map .leaf) =
      (bs.filter fun b => decide (b.mtype = some .Other)).map fun b => rstripCRLF (b.line.getD []) := by
  unfold otherTexts
  rw [childToks_eq_childTokens, childTokens_leaves]
  refine List.map_congr_left fun b hb => ?_
  obtain ⟨hb1, hb2⟩ := List.mem_filter.1 hb
  rcases h b hb1 with hc | ⟨lx, hl, -, htx⟩
  · rw [hc] at hb2; simp at hb2
  · rw [htx, hl]; rfl

/-- **Descriptions and doc-string contents, at document level.**  For an accepted document there is
    a token tree `t` over the built tokens `toks ++ [eof]` (one per physical line, `LineToks`),
    projecting to a derivation tree of the grammar, whose `DocString` nodes hold exactly the lines
    of one doc string each (`DocSeqNo`) and whose `Description` nodes hold comment lines and free-text
    lines read OUTSIDE a doc string — text = the physical line verbatim minus its line break
    (`descNodesP`) —, such that the descriptions and doc-string contents of the AST are what the
    nodes of `t` own (`textsOfTree`: the `Other` lines of the `Description` / `DocString` child,
    joined by line feeds) and its elements are those of `t`; and the text of every line read as
    free text is the line without its line break — verbatim when the matcher is outside a doc
    string. -/
theorem texts_in_document {D : List Dialect} {T : Table} {G : Grammar} {fuel : Nat} (L : LinkFacts D T G fuel)
    (F : DocFacts D T) (F' : DescFacts T) (hB : oneBuildLast T = true)
    (μ : MState) (ids : Nat) (src : Str) (hμ : (μ.reset D).dialect ∈ D) (d : Doc)
    (h : (parseWith D T false μ ids src).1 = .ok d) :
    ∃ (t : TTree) (toks : List Token) (e : Token) (μf : MState),
      (parseWith D T false μ ids src).2.builds = toks ++ [e] ∧ leaves t = toks ++ [e] ∧
      LineToks D (μ.reset D) 1 (splitLines src) toks μf ∧
      ValidTree G .GherkinDocument t.kinds ∧ docNodesP DocSeqNo t ∧ descNodesP t ∧
      srcTexts d = textsOfTree t ∧ srcElems d = elemsOfTree t ∧
      ∀ (i : Nat) (l : Str) (tk : Token), (splitLines src)[i]? = some l → toks[i]? = some tk →
        tk.mtype = some .Other →
        tk.text = some (rstripCRLF (unescapeDoc (stateAt D (μ.reset D) (splitLines src) toks i).activeSep
          (l.drop (min (stateAt D (μ.reset D) (splitLines src) toks i).indentToRemove (lineIndent l))))) ∧
        ((stateAt D (μ.reset D) (splitLines src) toks i).inDocString = false → tk.text = some (rstripCRLF l)) := by
  obtain ⟨t, ht, hdn, hde⟩ := parse_link_desc L F F' hB μ ids src hμ d h
  have hs := ht.shaped L.shape
  obtain ⟨hdoc, hlv, hv, -, -, -, hast⟩ := ht
  obtain ⟨toks, e, μf, hbuilds, hlt, -, -, he, -⟩ := parse_tokens L hB F.contentRows μ ids src hμ d h
  refine ⟨t, toks, e, μf, hbuilds, hlv.trans hbuilds, hlt, hv, hdn, hde, texts_once_in_order t hs _ _ _ d hast,
    elems_once_in_order t hs _ _ _ d hast, fun i l tk hi htk hmt => ?_⟩
  obtain ⟨K, -, hsep, -, htok, -, hK⟩ := LineToks.atState hlt i l hi
  rw [htk] at htok
  cases htok
  rw [hK] at hmt
  cases hmt
  obtain ⟨h1, h2⟩ := other_line_text D (stateAt D (μ.reset D) (splitLines src) toks i) l (1 + i)
  exact ⟨h1, h2 hsep (LineToks.stateAt_indOK hlt (reset_indOK D μ) i)⟩

end Lemmas
end GV
