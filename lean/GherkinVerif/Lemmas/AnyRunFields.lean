/-
  Lemmas/AnyRunFields.lean — what `Spec.LineTok` (Lemmas/AnyRun.lean) says about the fields of a
  built token (cells and column of its own physical line, by the per-line theorems of
  Lemmas/Locations.lean), and the list arithmetic that turns "built and reported line numbers
  partition `1 … n`" into order and disjointness statements.
-/
import GherkinVerif.Lemmas.AnyRun
import GherkinVerif.Lemmas.Locations
namespace GV
namespace AnyRun
open Lemmas Spec

/-! ### fields of a built line token -/

/-- the fields of a token that is the matcher's output on the fresh token of its own line `l`:
    a table row carries the cells of `l`; rows, steps, tag lines, doc-string separators and the
    five keyword lines are located at column indent + 1; comments, blank lines and `Other` lines
    at column 1; the items of a tag line are the tags of `l` -/
theorem lineTok_fields {D : List Dialect} {L : List Str} {t : Token} (h : LineTok D L t) :
    ∃ l, L[t.lineNo - 1]? = some l ∧ t.line = some l ∧
      (t.mtype = some .TableRow → t.items = tableCells l ∧ t.col = some (lineIndent l + 1)) ∧
      (t.mtype = some .TagLine → lineTags l = .ok t.items ∧ t.col = some (lineIndent l + 1)) ∧
      (t.mtype = some .StepLine ∨ t.mtype = some .DocStringSeparator ∨ t.mtype = some .FeatureLine ∨
        t.mtype = some .RuleLine ∨ t.mtype = some .BackgroundLine ∨ t.mtype = some .ScenarioLine ∨
        t.mtype = some .ExamplesLine → t.col = some (lineIndent l + 1)) ∧
      (t.mtype = some .Comment ∨ t.mtype = some .Empty ∨ t.mtype = some .Other → t.col = some 1) := by
  obtain ⟨l, hL, -, hl, K, μi, -, hres, ht, hK⟩ := h
  refine ⟨l, hL, hl, ?_⟩
  generalize t.lineNo = n at hres ht
  subst ht
  have hfl : (freshTok l n).line = some l := rfl
  have hKeq : ∀ K', (matchLine D K μi (freshTok l n) l).tok.mtype = some K' → K = K' := by
    intro K' h'
    rw [hK] at h'
    exact Option.some.inj h'
  have title : ∀ kws, (K, kws) ∈ [(Kind.FeatureLine, μi.dialect.feature), (.RuleLine, μi.dialect.rule),
      (.BackgroundLine, μi.dialect.background), (.ScenarioLine, μi.dialect.scenario ++ μi.dialect.scenarioOutline),
      (.ExamplesLine, μi.dialect.examples)] →
      (matchLine D K μi (freshTok l n) l).tok.col = some (lineIndent l + 1) := by
    intro kws hk
    obtain ⟨kw, c, -, -, hc, hce, -⟩ := title_col_list D K kws μi (freshTok l n) l hfl hk hres
    rw [hc, hce]
  refine ⟨fun hm => ?_, fun hm => ?_, fun hm => ?_, fun hm => ?_⟩
  · have := hKeq _ hm; subst this
    obtain ⟨h1, -, h3⟩ := row_col D μi (freshTok l n) l hfl hres
    exact ⟨h3, h1⟩
  · have := hKeq _ hm; subst this
    obtain ⟨-, h2, h3⟩ := tagline_tok D μi (freshTok l n) l hfl hres
    exact ⟨h2, h3⟩
  · rcases hm with hm | hm | hm | hm | hm | hm | hm <;> (have := hKeq _ hm; subst this)
    · obtain ⟨kw, -, -, -, h, -⟩ := step_col D μi (freshTok l n) l hfl hres
      exact h
    · obtain ⟨sep, -, -, -, h⟩ := docsep_col D μi (freshTok l n) l hfl hres
      exact h
    · exact title μi.dialect.feature (by simp)
    · exact title μi.dialect.rule (by simp)
    · exact title μi.dialect.background (by simp)
    · exact title (μi.dialect.scenario ++ μi.dialect.scenarioOutline) (by simp)
    · exact title μi.dialect.examples (by simp)
  · rcases hm with hm | hm | hm <;> (have := hKeq _ hm; subst this)
    · exact (comment_col D μi (freshTok l n) l hres).1
    · exact empty_col D μi (freshTok l n) l hres
    · exact other_col D μi (freshTok l n) l

/-! ### list arithmetic -/

/-- built and reported line numbers are sublists of `1 … n` that together are a permutation of
    `1 … n` or of `1 … n - 1`: both are strictly increasing, disjoint, and within `1 … n` -/
theorem order_of_partition {bl un reads : List Nat} {n : Nat} (hr : reads = List.range' 1 n)
    (hp : (bl ++ un).Perm reads ∨ (bl ++ un).Perm reads.dropLast) (hs1 : bl.Sublist reads)
    (hs2 : un.Sublist reads) :
    bl.Pairwise (· < ·) ∧ un.Pairwise (· < ·) ∧ (∀ k ∈ bl, k ∉ un) ∧ (∀ k ∈ bl ++ un, 1 ≤ k ∧ k ≤ n) := by
  have hpw : reads.Pairwise (· < ·) := by rw [hr]; exact List.pairwise_lt_range'
  have hnd : reads.Nodup := by rw [hr]; exact List.nodup_range'
  have hnd' : (bl ++ un).Nodup := by
    rcases hp with hp | hp
    · exact hp.nodup_iff.2 hnd
    · exact hp.nodup_iff.2 ((List.dropLast_sublist reads).nodup hnd)
  refine ⟨hpw.sublist hs1, hpw.sublist hs2, fun k hk hk' => ?_, fun k hk => ?_⟩
  · exact (List.nodup_append.1 hnd').2.2 k hk k hk' rfl
  · have hm : k ∈ reads := by
      rcases List.mem_append.1 hk with h | h
      · exact hs1.subset h
      · exact hs2.subset h
    rw [hr, List.mem_range'_1] at hm
    omega

/-- … and when they are a permutation of `1 … n`, every number of `1 … n` is in exactly one -/
theorem xor_of_full {bl un : List Nat} {n : Nat} (hp : (bl ++ un).Perm (List.range' 1 n))
    (hdis : ∀ k ∈ bl, k ∉ un) (k : Nat) (h1 : 1 ≤ k) (h2 : k ≤ n) :
    (k ∈ bl ∧ k ∉ un) ∨ (k ∉ bl ∧ k ∈ un) := by
  have hm : k ∈ bl ++ un := hp.mem_iff.2 (by rw [List.mem_range'_1]; omega)
  rcases List.mem_append.1 hm with h | h
  · exact .inl ⟨h, hdis k h⟩
  · exact .inr ⟨fun hb => hdis k hb h, h⟩

end AnyRun
end GV
