/-
  Lemmas/RoundtripBuilder.lean — property C03, round trip: the AST builder's `end_rule` on the
  stacks that arise while the rendered document is parsed, computed symbolically.
-/
import GherkinVerif.Lemmas.RoundtripTags
import GherkinVerif.Lemmas.ParseTree
set_option linter.unusedSectionVars false
set_option linter.unusedSimpArgs false
namespace GV
namespace Lemmas
open Spec

/-! ### item lists -/

theorem getItems_map_ne {α} (k k' : Key) (f : α → Val) (L : List α) (h : (k' == k) = false) :
    getItems (L.map fun a => (k', f a)) k = [] := by
  induction L with
  | nil => rfl
  | cons a L ih =>
    simp only [getItems, List.map_cons, List.filter_cons, h] at ih ⊢
    simpa using ih

theorem getItems_map_eq {α} (k : Key) (f : α → Val) (L : List α) :
    getItems (L.map fun a => (k, f a)) k = L.map f := by
  induction L with
  | nil => rfl
  | cons a L ih =>
    simp only [getItems, List.map_cons, List.filter_cons, beq_self_eq_true, if_true] at ih ⊢
    rw [ih]

def stepItems (L : List Step) : List (Key × Val) := L.map fun s => (Key.rule .Step, Val.step s)
def scItems (L : List Scenario) : List (Key × Val) :=
  L.map fun s => (Key.rule .ScenarioDefinition, Val.scenario s)

theorem stepItems_snoc (L : List Step) (s : Step) :
    stepItems L ++ [(Key.rule .Step, Val.step s)] = stepItems (L ++ [s]) := by simp [stepItems]
theorem scItems_snoc (L : List Scenario) (s : Scenario) :
    scItems L ++ [(Key.rule .ScenarioDefinition, Val.scenario s)] = scItems (L ++ [s]) := by simp [scItems]

/-! ### `end_rule` -/

/-- a finished step line -/
theorem endRule_step (μ : MState) (n : Nat) (s : MStep) (rt : RuleType) (items : List (Key × Val))
    (rest : List Node) (cm : List Comment) (i : Nat) :
    (⟨⟨.Step, [(.tok .StepLine, .tok (stepTok μ n s))]⟩ :: ⟨rt, items⟩ :: rest, cm⟩ : BState).endRule i =
      (.ok (), ⟨⟨rt, items ++ [(.rule .Step, .step
          { id := i, loc := ⟨n, some 3⟩, keyword := s.kw, ktype := stepKType μ.dialect s.kw, text := s.text,
            arg := .none })]⟩ :: rest, cm⟩, i + 1) := rfl

/-- nodes `transform_node` returns unchanged -/
theorem endRule_raw (r : RuleType) (hr : r = .Scenario ∨ r = .Tags ∨ r = .FeatureHeader)
    (its : List (Key × Val)) (rt : RuleType) (items : List (Key × Val))
    (rest : List Node) (cm : List Comment) (i : Nat) :
    (⟨⟨r, its⟩ :: ⟨rt, items⟩ :: rest, cm⟩ : BState).endRule i =
      (.ok (), ⟨⟨rt, items ++ [(.rule r, .raw r its)]⟩ :: rest, cm⟩, i) := by
  rcases hr with rfl | rfl | rfl <;> rfl

/-- the `Tags` item of an element: absent without tags, else the raw node of the one tag line -/
def tagsItem (μ : MState) (n : Nat) (tags : List Str) : List (Key × Val) :=
  if tags.isEmpty then [] else [(.rule .Tags, .raw .Tags [(.tok .TagLine, .tok (tagTok μ n tags))])]

theorem tagCols_pos (tags : List Str) : ∀ c, 0 < c → ∀ p ∈ tagCols c tags, (p.1 == 0) = false := by
  induction tags with
  | nil => intro c _ p hp; cases hp
  | cons t r ih =>
    intro c hc p hp
    simp only [tagCols, List.mem_cons] at hp
    rcases hp with rfl | hp
    · simp; omega
    · exact ih _ (by omega) p hp

theorem tagCols_length (tags : List Str) : ∀ c, (tagCols c tags).length = tags.length := by
  induction tags with
  | nil => intro c; rfl
  | cons t r ih => intro c; simp [tagCols, ih]

theorem numberTags_aux (t : Token) (n : Nat) (ht : t.lineNo = n) (L : List (Nat × Str))
    (hL : ∀ p ∈ L, (p.1 == 0) = false) : ∀ i,
    (L.zipIdx i).map (fun p => ({ id := p.2, loc := getLocation t (some p.1.1), name := p.1.2 } : Tag)) =
    (L.zipIdx i).map (fun p => ({ id := p.2, loc := ⟨n, some p.1.1⟩, name := p.1.2 } : Tag)) := by
  induction L with
  | nil => intro i; rfl
  | cons a L ih =>
    intro i
    have ha := hL a (by simp)
    rw [List.zipIdx_cons, List.map_cons, List.map_cons, ih (fun p hp => hL p (by simp [hp]))]
    congr 1
    simp [getLocation, ha, ht]

theorem numberTags_tagTok (μ : MState) (n i : Nat) (tags : List Str) :
    numberTags [tagTok μ n tags] i = expTags n i tags := by
  rw [numberTags_cons, numberTags_nil, List.append_nil]
  exact numberTags_aux _ n rfl _ (tagCols_pos tags 1 (by omega)) i

theorem getTags_tagsItem (μ : MState) (n i : Nat) (tags : List Str) (post : List (Key × Val))
    (hpost : getItems post (.rule .Tags) = []) :
    (getTags (tagsItem μ n tags ++ post)).run.run i = (.ok (expTags n i tags), i + tags.length) := by
  by_cases ht : tags.isEmpty = true
  · have : tags = [] := by simpa using ht
    subst this
    rw [run_getTags_some _ [] i]
    · rfl
    · simp [tagTokens, tagsItem, getSingle, hpost]
  · rw [run_getTags_some _ [tagTok μ n tags] i]
    · rw [numberTags_tagTok]
      congr 2
      simp [tagCount, tagPairs, tagTok, tagCols_length]
    · simp only [tagTokens, tagsItem, ht, getSingle, getItems_append, hpost]
      rfl

theorem getItems_tagsItem (μ : MState) (n : Nat) (tags : List Str) (k : Key) (hk : (Key.rule .Tags == k) = false) :
    getItems (tagsItem μ n tags) k = [] := by
  unfold tagsItem
  split
  · rfl
  · simp [getItems, hk]

theorem getItems_stepItems_ne (L : List Step) (k : Key) (hk : (Key.rule .Step == k) = false) :
    getItems (stepItems L) k = [] := getItems_map_ne k _ _ L hk

theorem getItems_scItems_ne (L : List Scenario) (k : Key) (hk : (Key.rule .ScenarioDefinition == k) = false) :
    getItems (scItems L) k = [] := getItems_map_ne k _ _ L hk

theorem getSteps_items (hd : Key × Val) (hhd : (hd.1 == Key.rule .Step) = false) (L : List Step) :
    getSteps (hd :: stepItems L) = L := by
  unfold getSteps
  have : getItems (hd :: stepItems L) (.rule .Step) = L.map Val.step := by
    have := getItems_append [hd] (stepItems L) (.rule .Step)
    simp only [List.singleton_append] at this
    rw [this, stepItems, getItems_map_eq]
    simp [getItems, hhd]
  rw [this]
  clear this
  induction L with
  | nil => rfl
  | cons a L ih => simpa using ih

def mkSc (n m i : Nat) (tags : List Str) (kwd nm : Str) (L : List Step) : Scenario :=
  { id := i + tags.length, tags := expTags n i tags, loc := ⟨m, some 1⟩, keyword := kwd, name := nm, description := [], steps := L, examples := [] }

/-- the value of a finished `ScenarioDefinition` node -/
theorem transform_scdef (cm : List Comment) (μ : MState) (n m : Nat) (tags : List Str) (kwd nm : Str)
    (tk : Token) (hk : tk.keyword = some kwd) (ht : tk.text = some nm) (hloc : tk.loc = ⟨m, some 1⟩)
    (L : List Step) (i : Nat) :
    (transformNode cm ⟨.ScenarioDefinition, tagsItem μ n tags ++ [(.rule .Scenario, .raw .Scenario
        ((.tok .ScenarioLine, .tok tk) :: stepItems L))]⟩).run.run i =
      (.ok (Val.scenario (mkSc n m i tags kwd nm L)), i + tags.length + 1) := by
  have hsingle : getSingle (tagsItem μ n tags ++ [(Key.rule .Scenario, Val.raw .Scenario
        ((.tok .ScenarioLine, .tok tk) :: stepItems L))]) (.rule .Scenario) =
      Val.raw .Scenario ((.tok .ScenarioLine, .tok tk) :: stepItems L) := by
    simp only [getSingle, getItems_append, getItems_tagsItem μ n tags (.rule .Scenario) (by decide)]
    rfl
  have hdesc : (getDescription ((Key.tok .ScenarioLine, Val.tok tk) :: stepItems L)).run.run
      (i + tags.length) = (.ok [], i + tags.length) := by
    apply run_getDescription_some
    unfold descOf
    have := getItems_append [(Key.tok .ScenarioLine, Val.tok tk)] (stepItems L) (.rule .Description)
    simp only [List.singleton_append] at this
    rw [this, getItems_stepItems_ne L _ (by decide)]
    rfl
  have hex : getItems ((Key.tok .ScenarioLine, Val.tok tk) :: stepItems L)
      (.rule .ExamplesDefinition) = [] := by
    have := getItems_append [(Key.tok .ScenarioLine, Val.tok tk)] (stepItems L) (.rule .ExamplesDefinition)
    simp only [List.singleton_append] at this
    rw [this, getItems_stepItems_ne L _ (by decide)]
    rfl
  have htags := getTags_tagsItem μ n i tags [(Key.rule .Scenario, Val.raw .Scenario
        ((.tok .ScenarioLine, .tok tk) :: stepItems L))] rfl
  have htok := run_needToken_tok ((Key.tok .ScenarioLine, Val.tok tk) :: stepItems L) .ScenarioLine tk
    (i + tags.length) rfl
  have hst := getSteps_items (Key.tok .ScenarioLine, Val.tok tk) rfl L
  simp only [transformNode, run_bind, htags, hsingle, htok, hdesc, hex, hst, List.filterMap_nil, run_nextId,
    hk, ht, run_need_some, run_pure, getLocation, hloc, mkSc]

theorem endRule_scdef (cm : List Comment) (μ : MState) (n m : Nat) (tags : List Str) (kwd nm : Str)
    (L : List Step) (rt : RuleType) (items : List (Key × Val)) (rest : List Node) (i : Nat) :
    (⟨⟨.ScenarioDefinition, tagsItem μ n tags ++ [(.rule .Scenario, .raw .Scenario
        ((.tok .ScenarioLine, .tok (titleTok μ m .ScenarioLine kwd nm)) :: stepItems L))]⟩ ::
          ⟨rt, items⟩ :: rest, cm⟩ : BState).endRule i =
      (.ok (), ⟨⟨rt, items ++ [(.rule .ScenarioDefinition, Val.scenario (mkSc n m i tags kwd nm L))]⟩ :: rest, cm⟩,
        i + tags.length + 1) := by
  have h := transform_scdef cm μ n m tags kwd nm (titleTok μ m .ScenarioLine kwd nm) rfl rfl rfl L i
  simp only [BState.endRule, h]
  rfl

def mkFeat (n m i : Nat) (tags : List Str) (lang kwd nm : Str) (S : List Scenario) : Feature :=
  { tags := expTags n i tags, loc := ⟨m, some 1⟩, language := lang, keyword := kwd, name := nm, description := [], children := S.map FeatureChild.scenario }

theorem getScenarios_items (hd : Key × Val) (hhd : (hd.1 == Key.rule .ScenarioDefinition) = false) (S : List Scenario) :
    getScenarios (hd :: scItems S) = S := by
  unfold getScenarios
  have : getItems (hd :: scItems S) (.rule .ScenarioDefinition) = S.map Val.scenario := by
    have := getItems_append [hd] (scItems S) (.rule .ScenarioDefinition)
    simp only [List.singleton_append] at this
    rw [this, scItems, getItems_map_eq]
    simp [getItems, hhd]
  rw [this]
  clear this
  induction S with
  | nil => rfl
  | cons a S ih => simpa using ih

theorem getItems_hd_scItems (hd : Key × Val) (S : List Scenario) (k : Key) (h1 : (hd.1 == k) = false)
    (h2 : (Key.rule .ScenarioDefinition == k) = false) : getItems (hd :: scItems S) k = [] := by
  have := getItems_append [hd] (scItems S) k
  simp only [List.singleton_append] at this
  rw [this, getItems_scItems_ne S _ h2]
  simp [getItems, h1]

/-- the value of the finished `Feature` node -/
theorem transform_feature (cm : List Comment) (μ : MState) (n m : Nat) (tags : List Str) (lang kwd nm : Str)
    (tk : Token) (hk : tk.keyword = some kwd) (ht : tk.text = some nm) (hloc : tk.loc = ⟨m, some 1⟩)
    (hd : tk.dialect = lang) (S : List Scenario) (i : Nat) :
    (transformNode cm ⟨.Feature, (.rule .FeatureHeader, .raw .FeatureHeader
        (tagsItem μ n tags ++ [(.tok .FeatureLine, .tok tk)])) :: scItems S⟩).run.run i =
      (.ok (Val.feature (mkFeat n m i tags lang kwd nm S)), i + tags.length) := by
  have hsingle : getSingle ((Key.rule .FeatureHeader, Val.raw .FeatureHeader
        (tagsItem μ n tags ++ [(.tok .FeatureLine, .tok tk)])) :: scItems S) (.rule .FeatureHeader) =
      Val.raw .FeatureHeader (tagsItem μ n tags ++ [(.tok .FeatureLine, .tok tk)]) := by
    simp [getSingle, getItems]
  have htags := getTags_tagsItem μ n i tags [(Key.tok .FeatureLine, Val.tok tk)] rfl
  have hline : getSingle (tagsItem μ n tags ++ [(Key.tok .FeatureLine, Val.tok tk)]) (.tok .FeatureLine) = .tok tk := by
    simp only [getSingle, getItems_append, getItems_tagsItem μ n tags (.tok .FeatureLine) (by decide)]
    rfl
  have hdesc : (getDescription (tagsItem μ n tags ++ [(Key.tok .FeatureLine, Val.tok tk)])).run.run
      (i + tags.length) = (.ok [], i + tags.length) := by
    apply run_getDescription_some
    unfold descOf
    rw [getItems_append, getItems_tagsItem μ n tags _ (by decide)]
    rfl
  have hrules := getItems_hd_scItems (Key.rule .FeatureHeader, Val.raw .FeatureHeader
        (tagsItem μ n tags ++ [(.tok .FeatureLine, .tok tk)])) S (.rule .Rule) rfl rfl
  have hbg : getBackground ((Key.rule .FeatureHeader, Val.raw .FeatureHeader
        (tagsItem μ n tags ++ [(.tok .FeatureLine, .tok tk)])) :: scItems S) = none := by
    have := getItems_hd_scItems (Key.rule .FeatureHeader, Val.raw .FeatureHeader
        (tagsItem μ n tags ++ [(.tok .FeatureLine, .tok tk)])) S (.rule .Background) rfl rfl
    simp only [getBackground, getSingle, this]
  have hsc := getScenarios_items (Key.rule .FeatureHeader, Val.raw .FeatureHeader
        (tagsItem μ n tags ++ [(.tok .FeatureLine, .tok tk)])) rfl S
  simp only [transformNode, run_bind, htags, hsingle, hline, hdesc, hrules, hbg, hsc, List.filterMap_nil,
    hk, ht, run_need_some, run_pure, getLocation, hloc, hd, mkFeat, List.map_nil, List.append_nil, List.nil_append]

theorem endRule_feature (cm : List Comment) (μ : MState) (n m : Nat) (tags : List Str) (kwd nm : Str)
    (S : List Scenario) (rt : RuleType) (items : List (Key × Val)) (rest : List Node) (i : Nat) :
    (⟨⟨.Feature, (.rule .FeatureHeader, .raw .FeatureHeader
        (tagsItem μ n tags ++ [(.tok .FeatureLine, .tok (titleTok μ m .FeatureLine kwd nm))])) :: scItems S⟩ ::
          ⟨rt, items⟩ :: rest, cm⟩ : BState).endRule i =
      (.ok (), ⟨⟨rt, items ++ [(.rule .Feature, Val.feature (mkFeat n m i tags μ.name kwd nm S))]⟩ :: rest, cm⟩,
        i + tags.length) := by
  have h := transform_feature cm μ n m tags μ.name kwd nm (titleTok μ m .FeatureLine kwd nm) rfl rfl rfl rfl S i
  simp only [BState.endRule, h]
  rfl

/-- the finished document -/
theorem endRule_doc (f : Feature) (i : Nat) :
    (⟨[⟨.GherkinDocument, [(.rule .Feature, .feature f)]⟩, ⟨.None_, []⟩], []⟩ : BState).endRule i =
      (.ok (), ⟨[⟨.None_, [(.rule .GherkinDocument, .doc ⟨some f, []⟩)]⟩], []⟩, i) := rfl

theorem result_doc (d : Doc) :
    (⟨[⟨.None_, [(.rule .GherkinDocument, .doc d)]⟩], []⟩ : BState).result = .ok (some d) := rfl

end Lemmas
end GV
