/-
  Lemmas/Roundtrip2Builder.lean — round trip, richer model: the builder on data tables.
-/
import GherkinVerif.Lemmas.Roundtrip2Rows
set_option linter.unusedSectionVars false
set_option linter.unusedSimpArgs false
set_option linter.unusedVariables false
namespace GV
namespace Lemmas
open Spec

def rowItems (toks : List Token) : List (Key × Val) := toks.map fun t => (Key.tok .TableRow, Val.tok t)

theorem rowItems_snoc (toks : List Token) (t : Token) :
    rowItems toks ++ [(Key.tok .TableRow, Val.tok t)] = rowItems (toks ++ [t]) := by simp [rowItems]

theorem getTokens_rowItems (toks : List Token) : getTokens (rowItems toks) .TableRow = toks := by
  unfold getTokens
  rw [rowItems, getItems_map_eq]
  induction toks with
  | nil => rfl
  | cons a L ih => simpa using ih

def rowToks (μ : MState) : Nat → List (List Str) → List Token
  | _, [] => []
  | n, r :: rs => rowTok μ n r :: rowToks μ (n + 1) rs

theorem rowToks_length (μ : MState) (rows : List (List Str)) : ∀ n, (rowToks μ n rows).length = rows.length := by
  induction rows with
  | nil => intro n; rfl
  | cons r rs ih => intro n; simp [rowToks, ih]

theorem rowToks_append (μ : MState) (a b : List (List Str)) : ∀ n,
    rowToks μ n (a ++ b) = rowToks μ n a ++ rowToks μ (n + a.length) b := by
  induction a with
  | nil => intro n; simp [rowToks]
  | cons r rs ih => intro n; simp [rowToks, ih, Nat.add_assoc, Nat.add_comm 1]

theorem cellCols_length (cells : List Str) : ∀ p, (cellCols p cells).length = cells.length := by
  induction cells with
  | nil => intro p; rfl
  | cons c cs ih => intro p; simp [cellCols, ih]

theorem cellCols_pos (cells : List Str) : ∀ p, ∀ q ∈ cellCols p cells, (q.1 == 0) = false := by
  induction cells with
  | nil => intro p q hq; cases hq
  | cons c cs ih =>
    intro p q hq
    simp only [cellCols, List.mem_cons] at hq
    rcases hq with rfl | hq
    · split <;> simp
    · exact ih _ q hq

theorem getCells_rowTok (μ : MState) (n : Nat) (cells : List Str) :
    getCells (rowTok μ n cells) = (cellCols 6 cells).map fun p => ⟨⟨n, some p.1⟩, p.2⟩ := by
  unfold getCells
  apply List.map_congr_left
  intro p hp
  have := cellCols_pos cells 6 p hp
  simp [getLocation, this, rowTok]

theorem numberRows_rowToks (μ : MState) (rows : List (List Str)) : ∀ n i,
    numberRows (rowToks μ n rows) i = expRows n i rows := by
  induction rows with
  | nil => intro n i; rfl
  | cons r rs ih =>
    intro n i
    rw [rowToks, numberRows_cons, ih, expRows, expRow, getCells_rowTok]
    rfl

/-- a finished data table -/
theorem endRule_datatable (t0 : Token) (ts : List Token) (hrect : ∀ t ∈ ts, t.items.length = t0.items.length)
    (rt : RuleType) (items : List (Key × Val)) (rest : List Node) (cm : List Comment) (i : Nat) :
    (⟨⟨.DataTable, rowItems (t0 :: ts)⟩ :: ⟨rt, items⟩ :: rest, cm⟩ : BState).endRule i =
      (.ok (), ⟨⟨rt, items ++ [(.rule .DataTable, .dataTable ⟨getLocation t0, numberRows (t0 :: ts) i⟩)]⟩ :: rest, cm⟩,
        i + (t0 :: ts).length) := by
  have h : (transformNode cm ⟨.DataTable, rowItems (t0 :: ts)⟩).run.run i =
      (.ok (.dataTable ⟨getLocation t0, numberRows (t0 :: ts) i⟩), i + (t0 :: ts).length) := by
    simp only [transformNode, run_bind, run_getTableRows, getTokens_rowItems,
      raggedRow_numberRows_none t0 ts i hrect]
    rw [numberRows_cons]
    rfl
  simp only [BState.endRule, h]
  rfl

/-- a finished step with a data table -/
theorem endRule_step_table (μ : MState) (n : Nat) (s : MStep) (dt : DataTable) (rt : RuleType)
    (items : List (Key × Val)) (rest : List Node) (cm : List Comment) (i : Nat) :
    (⟨⟨.Step, [(.tok .StepLine, .tok (stepTok μ n s)), (.rule .DataTable, .dataTable dt)]⟩ ::
        ⟨rt, items⟩ :: rest, cm⟩ : BState).endRule i =
      (.ok (), ⟨⟨rt, items ++ [(.rule .Step, .step
          { id := i, loc := ⟨n, some 3⟩, keyword := s.kw, ktype := stepKType μ.dialect s.kw, text := s.text,
            arg := .table dt })]⟩ :: rest, cm⟩, i + 1) := rfl

end Lemmas
end GV
