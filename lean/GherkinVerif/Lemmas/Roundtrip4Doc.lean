/-
  Lemmas/Roundtrip4Doc.lean — round trip, fourth model (examples blocks on a scenario): table facts,
  the look-ahead-1 tag branch, the examples block, the scenario block, the document.
-/
import GherkinVerif.Lemmas.Roundtrip4Builder
set_option linter.unusedSectionVars false
set_option linter.unusedSimpArgs false
set_option linter.unusedVariables false
namespace GV
namespace Lemmas
open Spec

/-- builder in state 10 with finished steps `L` and finished examples blocks `E` -/
def st10E (sd fi : List (Key × Val)) (tk : Token) (L : List Step) (E : List Examples) : BState :=
  ⟨⟨.Scenario, (.tok .ScenarioLine, .tok tk) :: (stepItems L ++ exItems E)⟩ :: ⟨.ScenarioDefinition, sd⟩ ::
    ⟨.Feature, fi⟩ :: G0, []⟩

theorem st10_eq (sd fi : List (Key × Val)) (tk : Token) (L : List Step) : st10 sd fi tk L = st10E sd fi tk L [] := by
  simp [st10, st10E, exItems]

/-- state 15: an open examples block (definition items `et`, keyword line `etk`) -/
def st15 (sd fi : List (Key × Val)) (tk : Token) (L : List Step) (E : List Examples) (et : List (Key × Val))
    (etk : Token) : BState :=
  ⟨⟨.Examples, [(.tok .ExamplesLine, .tok etk)]⟩ :: ⟨.ExamplesDefinition, et⟩ ::
    ⟨.Scenario, (.tok .ScenarioLine, .tok tk) :: (stepItems L ++ exItems E)⟩ :: ⟨.ScenarioDefinition, sd⟩ ::
    ⟨.Feature, fi⟩ :: G0, []⟩

/-- state 17: additionally its open table -/
def st17 (sd fi : List (Key × Val)) (tk : Token) (L : List Step) (E : List Examples) (et : List (Key × Val))
    (etk : Token) (toks : List Token) : BState :=
  ⟨⟨.ExamplesTable, rowItems toks⟩ :: ⟨.Examples, [(.tok .ExamplesLine, .tok etk)]⟩ :: ⟨.ExamplesDefinition, et⟩ ::
    ⟨.Scenario, (.tok .ScenarioLine, .tok tk) :: (stepItems L ++ exItems E)⟩ :: ⟨.ScenarioDefinition, sd⟩ ::
    ⟨.Feature, fi⟩ :: G0, []⟩

def pendE : Nat → List Prod
  | 15 => [.end_ .Examples, .end_ .ExamplesDefinition]
  | 17 => [.end_ .ExamplesTable, .end_ .Examples, .end_ .ExamplesDefinition]
  | s => pendOf s

/-- inside a scenario after its steps (states 10 / 12 / 13) or in an examples block (15 / 17): closing
    what is open leaves the scenario node with steps `L`, examples `E`, counter `i1` -/
def InEx (sd fi : List (Key × Val)) (tk : Token) (L : List Step) (s : Nat) (β : BState) (i : Nat)
    (E : List Examples) (i1 : Nat) : Prop :=
  (s = 10 ∨ s = 12 ∨ s = 13 ∨ s = 15 ∨ s = 17) ∧
    ∀ t, applyOps (prodOps t (pendE s)) β i = (.ok (), st10E sd fi tk L E, i1)

def exRowOK (T : Table) (s : Nat) : Bool :=
  rowHas T s fun row =>
    firstOf .ExamplesLine row.branches ==
      some ⟨.ExamplesLine, none, pendE s ++ [.start .ExamplesDefinition, .start .Examples, .build], 15⟩ &&
    firstOf .TagLine row.branches ==
      some ⟨.TagLine, some 1, pendE s ++ [.start .ExamplesDefinition, .start .Tags, .build], 14⟩ &&
    midG T s (pendE s ++ [.end_ .Scenario, .end_ .ScenarioDefinition])

/-- the table facts of the fourth round trip: those of the third; for the states 10 / 12 / 13 / 15 / 17
    the `ExamplesLine` branch, the look-ahead-1 `TagLine` branch and the scenario / tag / EOF branches; the
    `ExamplesLine` branch of state 14; the `TableRow` branches of states 15 and 17 -/
def rt4Facts (T : Table) : Bool :=
  rt3Facts T && exRowOK T 10 && exRowOK T 12 && exRowOK T 13 && exRowOK T 15 && exRowOK T 17 &&
  rowHas T 14 (fun row => firstOf .ExamplesLine row.branches ==
    some ⟨.ExamplesLine, none, [.end_ .Tags, .start .Examples, .build], 15⟩) &&
  rowHas T 15 (fun row => firstOf .TableRow row.branches == some ⟨.TableRow, none, [.start .ExamplesTable, .build], 17⟩) &&
  rowHas T 17 (fun row => firstOf .TableRow row.branches == some ⟨.TableRow, none, [.build], 17⟩)

structure RtTable4 (T : Table) : Prop where
  base3 : RtTable3 T
  ex : ∀ s, s = 10 ∨ s = 12 ∨ s = 13 ∨ s = 15 ∨ s = 17 → exRowOK T s = true
  r14 : ∃ row, T.row? 14 = some row ∧ firstOf .ExamplesLine row.branches =
    some ⟨.ExamplesLine, none, [.end_ .Tags, .start .Examples, .build], 15⟩
  t15 : ∃ row, T.row? 15 = some row ∧
    firstOf .TableRow row.branches = some ⟨.TableRow, none, [.start .ExamplesTable, .build], 17⟩
  t17 : ∃ row, T.row? 17 = some row ∧ firstOf .TableRow row.branches = some ⟨.TableRow, none, [.build], 17⟩

theorem RtTable4.of_facts {T : Table} (h : rt4Facts T = true) : RtTable4 T := by
  simp only [rt4Facts, Bool.and_eq_true] at h
  obtain ⟨⟨⟨⟨⟨⟨⟨⟨h0, h1⟩, h2⟩, h3⟩, h4⟩, h5⟩, h6⟩, h7⟩, h8⟩ := h
  refine ⟨RtTable3.of_facts h0, ?_, ?_, ?_, ?_⟩
  · rintro s (rfl | rfl | rfl | rfl | rfl) <;> assumption
  · obtain ⟨row, hr, hp⟩ := rowHas_spec h6
    simp only [beq_iff_eq] at hp
    exact ⟨row, hr, hp⟩
  · obtain ⟨row, hr, hp⟩ := rowHas_spec h7
    simp only [beq_iff_eq] at hp
    exact ⟨row, hr, hp⟩
  · obtain ⟨row, hr, hp⟩ := rowHas_spec h8
    simp only [beq_iff_eq] at hp
    exact ⟨row, hr, hp⟩

/-- peeking for an `Examples` line at an examples line: yes -/
theorem peek_examples_true (D : List Dialect) (cap : Nat) (stop : Bool) {c : Ctx} {ls : List Str} {n : Nat}
    {μ : MState} {β : BState} {i : Nat} (l2 : Str) (t2 : Token)
    (hyes2 : matchLine D .ExamplesLine μ { line := some l2, lineNo := n + 1 } l2 = ⟨t2, μ, .matched⟩)
    (h : At c (l2 :: ls) n μ β i) :
    ∃ c', run (lookaheadPure D cap stop la1) c = (.ok true, c') ∧ At c' (l2 :: ls) n μ β i := by
  obtain ⟨c1, r1, h1⟩ := matchP_line D cap stop h .ExamplesLine _ _ l2 rfl true hyes2
  refine ⟨c1, ?_, h1⟩
  rw [lookaheadPure, prun_bind, run_get]
  simp only [h.lines, h.lineNo, la1, peekLoop, matchAny, prun_bind, r1, prun_pure, if_true]

/-- a tag line followed by an examples line takes the first `TagLine` branch, guarded by look-ahead 1 -/
theorem try_tag1 (D : List Dialect) (stop : Bool) (T : Table) (row : StateRow) (hla : T.lookaheads = [la0, la1])
    {c : Ctx} {ls : List Str} {n : Nat} {μ : MState} {β : BState} {i : Nat} (l2 : Str) (t2 : Token)
    (hyes2 : matchLine D .ExamplesLine μ { line := some l2, lineNo := n + 1 } l2 = ⟨t2, μ, .matched⟩)
    (t tt : Token) (l : Str) (hl : t.line = some l) (b : Branch)
    (hfirst : firstOf .TagLine row.branches = some b) (hg : b.guard = some 1) (h : At c (l2 :: ls) n μ β i)
    (hno : ∀ K', K' ≠ .TagLine → K' ≠ .Other → matchLine D K' μ t l = ⟨t, μ, .no⟩)
    (hm : matchLine D .TagLine μ t l = ⟨tt, μ, .matched⟩)
    (β' : BState) (i' : Nat) (hops : applyOps (prodOps tt b.prods) β i = (.ok (), β', i')) :
    ∃ c', run (tryBranchesPure D T stop row row.branches t) c = (.ok b.target, c') ∧ At c' (l2 :: ls) n μ β' i' := by
  obtain ⟨pre, post, hbs, hpre, hb⟩ := firstOf_spec .TagLine _ _ hfirst
  obtain ⟨c1, h1, hr⟩ := try_skip D stop T row t l hl pre (b :: post) h
    fun b' hb' => hno _ (hpre b' hb').1 (hpre b' hb').2
  obtain ⟨c2, r2, h2⟩ := matchP_line D T.errorCap stop h1 b.kind t tt l hl true (hb ▸ hm)
  obtain ⟨c3, r3, h3⟩ := peek_examples_true D T.errorCap stop l2 t2 hyes2 h2
  obtain ⟨c', r4, hc'⟩ := runProds_ok T.errorCap stop tt b.prods h3 β' i' hops
  refine ⟨c', ?_, hc'⟩
  rw [hbs, hr, tryBranchesPure, prun_bind, r2]
  simp only [hg, hla, if_true, prun_bind, prun_pure, List.getElem?_cons_succ, List.getElem?_cons_zero, r3, r4]

section ex4
variable {D' : List Dialect} (hf : keywordFacts D' = true) (hr : renderFacts D' = true)
variable (D : List Dialect) (stop : Bool) (T : Table) (RT4 : RtTable4 T)
variable {μ : MState} (hμ : μ.dialect ∈ D') (hsep : μ.activeSep = none)
include hf hr RT4 hμ hsep

/-- further table rows in state 17 -/
theorem rows_loop17 (sd fi : List (Key × Val)) (tk : Token) (L : List Step) (E : List Examples) (et : List (Key × Val)) (ts : Token) (i fuel : Nat)
    (rest : List Str) :
    ∀ (rs : List (List Str)) (hrs : ∀ r ∈ rs, ∀ c ∈ r, cellOK c = true) (toks : List Token) (n : Nat) (c : Ctx)
      (h : At c (rs.map (fun r => rowLineOf r ++ [10]) ++ rest) n μ (st17 sd fi tk L E et ts toks) i),
    ∃ c', At c' rest (n + rs.length) μ (st17 sd fi tk L E et ts (toks ++ rowToks μ (n + 1) rs)) i ∧
      run (parseLinesPure D T stop (fuel + rs.length) 17) c = run (parseLinesPure D T stop fuel 17) c' := by
  obtain ⟨row13, hrow13, hf13⟩ := RT4.t17
  intro rs
  induction rs with
  | nil => intro _ toks n c h; exact ⟨c, by simpa [rowToks] using h, rfl⟩
  | cons r rs ih =>
    intro hrs toks n c h
    simp only [List.map_cons, List.cons_append] at h
    obtain ⟨c1, h1, hrun1⟩ := lines_step D stop T (fuel + rs.length) 17 17 _ h
      (st17 sd fi tk L E et ts (toks ++ [rowTok μ (n + 1) r])) i
      (by
        intro c1 h1
        simp only [matchTokenPure, hrow13]
        exact try_first D stop T row13 _ (rowTok μ (n + 1) r) _ rfl .TableRow _ hf13 rfl h1
          (fun K' h1' h2' => row_others_no hr D μ hμ hsep r _ K' h1' h2')
          (row_match D μ r (hrs r (by simp)) _ (n + 1) rfl rfl) _ _
          (by simp only [st17, ← rowItems_snoc]; rfl))
    obtain ⟨c', hc', hrun'⟩ := ih (fun r' hr' => hrs r' (by simp [hr'])) _ (n + 1) c1 h1
    refine ⟨c', ?_, ?_⟩
    · have e : toks ++ [rowTok μ (n + 1) r] ++ rowToks μ (n + 1 + 1) rs = toks ++ rowToks μ (n + 1) (r :: rs) := by
        simp [rowToks]
      have e2 : n + 1 + rs.length = n + (r :: rs).length := by simp; omega
      rw [e, e2] at hc'
      exact hc'
    · have e : fuel + (r :: rs).length = fuel + rs.length + 1 := by simp; omega
      rw [e, hrun1, hrun']

/-- **the examples block**: optional tag line, keyword line, table rows -/
theorem examples_block (sd fi : List (Key × Val)) (tk : Token) (L : List Step) (e : MExamples)
    (hok : examplesOK μ.dialect e = true)
    (s : Nat) (β : BState) (i : Nat) (E : List Examples) (i1 n fuel : Nat) (rest : List Str) (c : Ctx)
    (hin : InEx sd fi tk L s β i E i1)
    (h : At c ((examplesLines e).map (· ++ [10]) ++ rest) n μ β i) :
    ∃ s' β' c', InEx sd fi tk L s' β' i1 (E ++ [expExamples (n + 1) i1 e]) (i1 + exIdCount e) ∧
      At c' rest (n + exLineCount e) μ β' i1 ∧
      run (parseLinesPure D T stop (fuel + exLineCount e) s) c = run (parseLinesPure D T stop fuel s') c' := by
  have RTf := RT4.base3.base2.base
  obtain ⟨tags, kw, nm, table⟩ := e
  simp only [examplesOK, Bool.and_eq_true, List.all_eq_true, List.contains_eq_mem, decide_eq_true_eq] at hok
  obtain ⟨⟨⟨htags, hk⟩, hn⟩, htab⟩ := hok
  have htab' := tableOK_spec htab
  have hk' : kw ∈ μ.dialect.roleKeywords .ExamplesLine := hk
  obtain ⟨row, hrow, hp⟩ := rowHas_spec (RT4.ex s hin.1)
  simp only [Bool.and_eq_true, beq_iff_eq] at hp
  obtain ⟨⟨hfe, hft⟩, -⟩ := hp
  obtain ⟨row14, hrow14, hf14⟩ := RT4.r14
  obtain ⟨row15, hrow15, hf15⟩ := RT4.t15
  have heno : ∀ (t : Token), t.line = some (titleLineOf kw nm ++ [10]) → ∀ K', K' ≠ .ExamplesLine → K' ≠ .Other →
      matchLine D K' μ t (titleLineOf kw nm ++ [10]) = ⟨t, μ, .no⟩ := fun t ht K' h1 h2 =>
    title_others_no hf hr D T RTf hμ hsep .ExamplesLine rfl kw nm hk' hn t ht K' h1 h2
  have heyes : ∀ (t : Token) (k : Nat), t.line = some (titleLineOf kw nm ++ [10]) → t.lineNo = k →
      matchLine D .ExamplesLine μ t (titleLineOf kw nm ++ [10]) = ⟨titleTok μ k .ExamplesLine kw nm, μ, .matched⟩ :=
    fun t k ht hk2 => title_match hf hr D μ hμ .ExamplesLine rfl kw nm hk' hn t k ht hk2
  -- after the keyword line: state 15
  have key : ∃ c1, At c1 (table.map (fun r => rowLineOf r ++ [10]) ++ rest) (n + tagLines tags + 1) μ
        (st15 sd fi tk L E (tagsItem μ (n + 1) tags) (titleTok μ (n + tagLines tags + 1) .ExamplesLine kw nm)) i1 ∧
      run (parseLinesPure D T stop (fuel + table.length + (tagLines tags + 1)) s) c =
        run (parseLinesPure D T stop (fuel + table.length) 15) c1 := by
    by_cases ht : tags = []
    · subst ht
      simp only [examplesLines, tagLineOf, List.isEmpty_nil, if_true, List.nil_append, List.map_cons,
        List.cons_append, List.map_map, Function.comp_def] at h
      obtain ⟨c1, h1, hrun1⟩ := lines_step D stop T (fuel + table.length) s 15 _ h
        (st15 sd fi tk L E [] (titleTok μ (n + 1) .ExamplesLine kw nm)) i1
        (by
          intro c1 h1
          simp only [matchTokenPure, hrow]
          exact try_first D stop T row _ (titleTok μ (n + 1) .ExamplesLine kw nm) _ rfl .ExamplesLine _ hfe rfl h1
            (heno _ rfl) (heyes _ _ rfl rfl) _ _
            (by
              simp only [prodOps_append]
              rw [applyOps_append_ok _ _ _ _ _ _ (hin.2 _)]
              rfl))
      exact ⟨c1, by simpa [tagLines, tagsItem] using h1, by simpa [tagLines] using hrun1⟩
    · have hemp : tags.isEmpty = false := by cases tags <;> simp_all
      have htl : tagLines tags = 1 := by simp [tagLines, hemp]
      simp only [examplesLines, tagLineOf, hemp, Bool.false_eq_true, if_false, List.singleton_append,
        List.map_cons, List.cons_append, List.map_map, Function.comp_def] at h
      obtain ⟨c1, h1, hrun1⟩ := lines_step D stop T (fuel + table.length + 1) s 14 _ h
        ⟨⟨.Tags, [(.tok .TagLine, .tok (tagTok μ (n + 1) tags))]⟩ :: ⟨.ExamplesDefinition, []⟩ ::
          (st10E sd fi tk L E).stack, []⟩ i1
        (by
          intro c1 h1
          simp only [matchTokenPure, hrow]
          exact try_tag1 D stop T row RTf.la (titleLineOf kw nm ++ [10]) (titleTok μ (n + 1 + 1) .ExamplesLine kw nm)
            (heyes _ _ rfl rfl) _ (tagTok μ (n + 1) tags) _ rfl _ hft rfl h1
            (fun K' h1' h2' => tagline_others_no hf hr D μ hμ tags ht htags hsep _ K' h1' h2')
            (tag_match D μ tags ht htags _ (n + 1) rfl rfl) _ _
            (by
              simp only [prodOps_append]
              rw [applyOps_append_ok _ _ _ _ _ _ (hin.2 _)]
              rfl))
      obtain ⟨c2, h2, hrun2⟩ := lines_step D stop T (fuel + table.length) 14 15 _ h1
        (st15 sd fi tk L E (tagsItem μ (n + 1) tags) (titleTok μ (n + 1 + 1) .ExamplesLine kw nm)) i1
        (by
          intro c2 h2
          simp only [matchTokenPure, hrow14]
          exact try_first D stop T row14 _ (titleTok μ (n + 1 + 1) .ExamplesLine kw nm) _ rfl .ExamplesLine _ hf14 rfl h2
            (heno _ rfl) (heyes _ _ rfl rfl) _ _
            (by
              simp only [prodOps, applyOps, applyOp, st10E, endRule_raw .Tags (.inr (.inl rfl))]
              simp [tagsItem, hemp, st15]
              rfl))
      refine ⟨c2, ?_, ?_⟩
      · rw [htl]; simpa [List.map_map, Function.comp_def] using h2
      · rw [htl, hrun1, hrun2]
  obtain ⟨c1, h1, hrun1⟩ := key
  have hmk : ∀ R, R = expRows (n + tagLines tags + 1 + 1) i1 table →
      mkEx (n + 1) (n + tagLines tags + 1) (i1 + table.length) tags kw nm R = expExamples (n + 1) i1 ⟨tags, kw, nm, table⟩ := by
    intro R hR
    subst hR
    simp [mkEx, expExamples, Nat.add_assoc, Nat.add_comm, Nat.add_left_comm]
  cases table with
  | nil =>
    have ea : n + exLineCount ⟨tags, kw, nm, []⟩ = n + tagLines tags + 1 := by simp [exLineCount]; omega
    have eb : fuel + exLineCount ⟨tags, kw, nm, []⟩ = fuel + ([] : List (List Str)).length + (tagLines tags + 1) := by
      simp [exLineCount]
    refine ⟨15, _, c1, ⟨.inr (.inr (.inr (.inl rfl))), fun t => ?_⟩, by rw [ea]; simpa using h1,
      by rw [eb]; simpa using hrun1⟩
    have e0 : [(Key.tok .ExamplesLine, Val.tok (titleTok μ (n + tagLines tags + 1) .ExamplesLine kw nm))] =
        (Key.tok .ExamplesLine, Val.tok (titleTok μ (n + tagLines tags + 1) .ExamplesLine kw nm)) :: tbItem [] := rfl
    simp only [pendE, prodOps, applyOps, applyOp, st15, endRule_raw_examples, e0, endRule_exdef,
      List.cons_append, List.append_assoc, exItems_snoc]
    have hm0 := hmk [] rfl
    simp only [List.length_nil, Nat.add_zero] at hm0
    rw [hm0]
    simp [st10E, exIdCount, Nat.add_assoc]
  | cons r rs =>
    simp only [List.map_cons, List.cons_append] at h1
    have hcells : ∀ r' ∈ r :: rs, ∀ c ∈ r', cellOK c = true := fun r' hr' => (htab' r' hr').2
    obtain ⟨c2, h2, hrun2⟩ := lines_step D stop T (fuel + rs.length) 15 17 _ h1
      (st17 sd fi tk L E (tagsItem μ (n + 1) tags) (titleTok μ (n + tagLines tags + 1) .ExamplesLine kw nm)
        [rowTok μ (n + tagLines tags + 1 + 1) r]) i1
      (by
        intro c2 h2
        simp only [matchTokenPure, hrow15]
        exact try_first D stop T row15 _ (rowTok μ (n + tagLines tags + 1 + 1) r) _ rfl .TableRow _ hf15 rfl h2
          (fun K' h1' h2' => row_others_no hr D μ hμ hsep r _ K' h1' h2')
          (row_match D μ r (hcells r (by simp)) _ (n + tagLines tags + 1 + 1) rfl rfl) _ _ rfl)
    obtain ⟨c3, h3, hrun3⟩ := rows_loop17 hf hr D stop T RT4 hμ hsep sd fi tk L E _ _ i1 fuel rest rs
      (fun r' hr' => hcells r' (by simp [hr'])) _ (n + tagLines tags + 1 + 1) c2 h2
    refine ⟨17, st17 sd fi tk L E (tagsItem μ (n + 1) tags) (titleTok μ (n + tagLines tags + 1) .ExamplesLine kw nm)
      ([rowTok μ (n + tagLines tags + 1 + 1) r] ++ rowToks μ (n + tagLines tags + 1 + 1 + 1) rs), c3,
      ⟨.inr (.inr (.inr (.inr rfl))), fun t => ?_⟩, ?_, ?_⟩
    · have hrect : ∀ t' ∈ rowToks μ (n + tagLines tags + 1 + 1 + 1) rs,
          t'.items.length = (rowTok μ (n + tagLines tags + 1 + 1) r).items.length := by
        have : ∀ (rs' : List (List Str)) (k : Nat), (∀ r' ∈ rs', r'.length = r.length) →
            ∀ t' ∈ rowToks μ k rs', t'.items.length = r.length := by
          intro rs'
          induction rs' with
          | nil => intro k _ t' ht'; cases ht'
          | cons a rs' ih' =>
            intro k hl t' ht'
            simp only [rowToks, List.mem_cons] at ht'
            rcases ht' with rfl | ht'
            · simp [rowTok, cellCols_length, hl a (by simp)]
            · exact ih' (k + 1) (fun r' hr' => hl r' (by simp [hr'])) t' ht'
        intro t' ht'
        rw [this rs _ (fun r' hr' => by
          have := (htab' r' (by simp [hr'])).1
          simpa using this) t' ht']
        simp [rowTok, cellCols_length]
      have e : [rowTok μ (n + tagLines tags + 1 + 1) r] ++ rowToks μ (n + tagLines tags + 1 + 1 + 1) rs =
          rowTok μ (n + tagLines tags + 1 + 1) r :: rowToks μ (n + tagLines tags + 1 + 1 + 1) rs := rfl
      have e2 : rowTok μ (n + tagLines tags + 1 + 1) r :: rowToks μ (n + tagLines tags + 1 + 1 + 1) rs =
          rowToks μ (n + tagLines tags + 1 + 1) (r :: rs) := rfl
      simp only [pendE, prodOps, applyOps, applyOp, st17, e, endRule_extable _ _ hrect, endRule_raw_examples,
        List.cons_append, List.nil_append]
      rw [e2, numberRows_rowToks]
      have e3 : [(Key.tok .ExamplesLine, Val.tok (titleTok μ (n + tagLines tags + 1) .ExamplesLine kw nm)),
            (Key.rule .ExamplesTable, Val.rows (expRows (n + tagLines tags + 1 + 1) i1 (r :: rs)))] =
          (Key.tok .ExamplesLine, Val.tok (titleTok μ (n + tagLines tags + 1) .ExamplesLine kw nm)) ::
            tbItem (expRows (n + tagLines tags + 1 + 1) i1 (r :: rs)) := rfl
      have e4 : i1 + (rowToks μ (n + tagLines tags + 1 + 1) (r :: rs)).length = i1 + (r :: rs).length := by
        rw [rowToks_length]
      simp only [e3, e4, endRule_exdef, List.cons_append, List.append_assoc, exItems_snoc]
      rw [hmk _ rfl]
      simp [st10E, exIdCount, Nat.add_assoc]
    · have e : n + tagLines tags + 1 + 1 + rs.length = n + exLineCount ⟨tags, kw, nm, r :: rs⟩ := by
        simp [exLineCount]; omega
      rwa [e] at h3
    · have e : fuel + exLineCount ⟨tags, kw, nm, r :: rs⟩ = fuel + (r :: rs).length + (tagLines tags + 1) := by
        simp [exLineCount]; omega
      have e2 : fuel + (r :: rs).length = fuel + rs.length + 1 := by simp; omega
      rw [e, hrun1, e2, hrun2, hrun3]

/-- the examples blocks of a scenario -/
theorem examples_loop (sd fi : List (Key × Val)) (tk : Token) (L : List Step) (fuel : Nat) (rest : List Str) :
    ∀ (es : List MExamples) (hok : ∀ e ∈ es, examplesOK μ.dialect e = true)
      (s : Nat) (β : BState) (i : Nat) (E : List Examples) (i1 n : Nat) (c : Ctx)
      (hin : InEx sd fi tk L s β i E i1)
      (h : At c ((es.flatMap examplesLines).map (· ++ [10]) ++ rest) n μ β i),
    ∃ s' β' i' c', InEx sd fi tk L s' β' i' (E ++ expExamplesList (n + 1) i1 es) (i1 + exsIds es) ∧
      At c' rest (n + exsLines es) μ β' i' ∧
      run (parseLinesPure D T stop (fuel + exsLines es) s) c = run (parseLinesPure D T stop fuel s') c' := by
  intro es
  induction es with
  | nil =>
    intro _ s β i E i1 n c hin h
    exact ⟨s, β, i, c, by simpa [expExamplesList, exsIds] using hin, by simpa [exsLines] using h, rfl⟩
  | cons e es ih =>
    intro hok s β i E i1 n c hin h
    simp only [List.flatMap_cons, List.map_append, List.append_assoc] at h
    obtain ⟨s1, β1, c1, hin1, h1, hrun1⟩ := examples_block hf hr D stop T RT4 hμ hsep sd fi tk L e (hok e (by simp))
      s β i E i1 n (fuel + exsLines es) _ c hin h
    obtain ⟨s', β', i', c', hin', hc', hrun'⟩ := ih (fun x hx => hok x (by simp [hx])) s1 β1 i1 _ _ _ c1 hin1 h1
    refine ⟨s', β', i', c', ?_, ?_, ?_⟩
    · have e1 : E ++ [expExamples (n + 1) i1 e] ++ expExamplesList (n + exLineCount e + 1) (i1 + exIdCount e) es =
          E ++ expExamplesList (n + 1) i1 (e :: es) := by
        simp [expExamplesList, Nat.add_right_comm]
      have e2 : i1 + exIdCount e + exsIds es = i1 + exsIds (e :: es) := by simp [exsIds]; omega
      rw [e1, e2] at hin'
      exact hin'
    · have e : n + exLineCount e + exsLines es = n + exsLines (e :: es) := by simp [exsLines]; omega
      rwa [e] at hc'
    · have e : fuel + exsLines (e :: es) = fuel + exsLines es + exLineCount e := by simp [exsLines]; omega
      rw [e, hrun1, hrun']

omit hf hr hμ hsep in
/-- closing a scenario with its examples leaves the finished scenario in the `Feature` node -/
theorem inex_closes (nt m : Nat) (tags : List Str) (kw nm : Str) (fi : List (Key × Val)) (L : List Step)
    (s : Nat) (β : BState) (i : Nat) (E : List Examples) (i1 : Nat)
    (hin : InEx (tagsItem μ nt tags) fi (titleTok μ m .ScenarioLine kw nm) L s β i E i1) :
    ClosesG T s β i (fi ++ [(.rule .ScenarioDefinition, Val.scenario (mkSc4 nt m i1 tags kw nm L E))])
      (i1 + tags.length + 1) := by
  obtain ⟨row, hrow, hp⟩ := rowHas_spec (RT4.ex s hin.1)
  simp only [Bool.and_eq_true] at hp
  refine ⟨pendE s ++ [.end_ .Scenario, .end_ .ScenarioDefinition], MidG.of_bool hp.2, fun t => ?_⟩
  rw [prodOps_append, applyOps_append_ok _ _ _ _ _ _ (hin.2 t)]
  simp only [prodOps, applyOps, applyOp, st10E, endRule_raw .Scenario (.inl rfl), endRule_scdef4]
  rfl

/-- the tag line (if any) and keyword line of a scenario, from any state it may follow -/
theorem scenario_head (tags : List Str) (kw nm : Str) (htags : ∀ t ∈ tags, tagOK t = true)
    (hk : kw ∈ μ.dialect.roleKeywords .ScenarioLine) (hn : cleanText nm = true) (tail : List Str)
    (s : Nat) (β : BState) (i : Nat) (fi : List (Key × Val)) (i0 n fuel : Nat) (c : Ctx)
    (hcl : ClosesG T s β i fi i0)
    (h : At c ((tagLineOf tags ++ [titleLineOf kw nm]).map (· ++ [10]) ++ tail) n μ β i) :
    ∃ c1, At c1 tail (n + tagLines tags + 1) μ
        (st10 (tagsItem μ (n + 1) tags) fi (titleTok μ (n + tagLines tags + 1) .ScenarioLine kw nm) []) i0 ∧
      run (parseLinesPure D T stop (fuel + (tagLines tags + 1)) s) c = run (parseLinesPure D T stop fuel 10) c1 := by
  have RTf := RT4.base3.base2.base
  obtain ⟨cl, ⟨row, hrow, hfs, hft, -⟩, hcl2⟩ := hcl
  obtain ⟨row9, hrow9, hf9⟩ := RTf.r9
  have hsno : ∀ (t : Token), t.line = some (titleLineOf kw nm ++ [10]) → ∀ K', K' ≠ .ScenarioLine → K' ≠ .Other →
      matchLine D K' μ t (titleLineOf kw nm ++ [10]) = ⟨t, μ, .no⟩ := fun t ht K' h1 h2 =>
    title_others_no hf hr D T RTf hμ hsep .ScenarioLine rfl kw nm hk hn t ht K' h1 h2
  have hsyes : ∀ (t : Token) (k : Nat), t.line = some (titleLineOf kw nm ++ [10]) → t.lineNo = k →
      matchLine D .ScenarioLine μ t (titleLineOf kw nm ++ [10]) = ⟨titleTok μ k .ScenarioLine kw nm, μ, .matched⟩ :=
    fun t k ht hk2 => title_match hf hr D μ hμ .ScenarioLine rfl kw nm hk hn t k ht hk2
  by_cases ht : tags = []
  · subst ht
    simp only [tagLineOf, List.isEmpty_nil, if_true, List.nil_append, List.map_cons, List.map_nil,
      List.cons_append] at h
    obtain ⟨c1, h1, hrun1⟩ := lines_step D stop T fuel s 10 _ h
      (st10 [] fi (titleTok μ (n + 1) .ScenarioLine kw nm) []) i0
      (by
        intro c1 h1
        simp only [matchTokenPure, hrow]
        exact try_first D stop T row _ (titleTok μ (n + 1) .ScenarioLine kw nm) _ rfl .ScenarioLine _ hfs rfl h1
          (hsno _ rfl) (hsyes _ _ rfl rfl) _ _
          (by
            simp only [prodOps_append]
            rw [applyOps_append_ok _ _ _ _ _ _ (hcl2 _)]
            rfl))
    exact ⟨c1, by simpa [tagLines, tagsItem] using h1, by simpa [tagLines] using hrun1⟩
  · have hemp : tags.isEmpty = false := by cases tags <;> simp_all
    have htl : tagLines tags = 1 := by simp [tagLines, hemp]
    simp only [tagLineOf, hemp, Bool.false_eq_true, if_false, List.singleton_append,
      List.map_cons, List.map_nil, List.cons_append, List.nil_append] at h
    obtain ⟨c1, h1, hrun1⟩ := lines_step D stop T (fuel + 1) s 9 _ h
      ⟨⟨.Tags, [(.tok .TagLine, .tok (tagTok μ (n + 1) tags))]⟩ :: ⟨.ScenarioDefinition, []⟩ :: ⟨.Feature, fi⟩ :: G0, []⟩ i0
      (by
        intro c1 h1
        simp only [matchTokenPure, hrow]
        exact try_tag0 D stop (titleLineOf kw nm ++ [10]) (titleTok μ (n + 1 + 1) .ScenarioLine kw nm)
          (hsno _ rfl) (hsyes _ _ rfl rfl) T row RTf.la _ (tagTok μ (n + 1) tags) rfl (n + 1) rfl
          (fun t K' h1' h2' => tagline_others_no hf hr D μ hμ tags ht htags hsep t K' h1' h2')
          (fun t ht' hn' => tag_match D μ tags ht htags t (n + 1) ht' hn') _ _ _ _ hft
          (by
            simp only [prodOps_append]
            rw [applyOps_append_ok _ _ _ _ _ _ (hcl2 _)]
            rfl) _ c1 rfl rfl h1)
    obtain ⟨c2, h2, hrun2⟩ := lines_step D stop T fuel 9 10 _ h1
      (st10 (tagsItem μ (n + 1) tags) fi (titleTok μ (n + 1 + 1) .ScenarioLine kw nm) []) i0
      (by
        intro c2 h2
        simp only [matchTokenPure, hrow9]
        exact try_first D stop T row9 _ (titleTok μ (n + 1 + 1) .ScenarioLine kw nm) _ rfl .ScenarioLine _ hf9 rfl h2
          (hsno _ rfl) (hsyes _ _ rfl rfl) _ _
          (by
            simp only [prodOps, applyOps, applyOp, endRule_raw .Tags (.inr (.inl rfl))]
            simp [tagsItem, hemp, st10]
            rfl))
    refine ⟨c2, ?_, ?_⟩
    · rw [htl]; exact h2
    · rw [htl, hrun1, hrun2]

/-- **The scenario block** of the fourth model: tag line, keyword line, steps, examples blocks -/
theorem scenario_block4 (sc : MScenario4) (hok : scenarioOK4 μ.dialect sc = true)
    (s : Nat) (β : BState) (i : Nat) (fi : List (Key × Val)) (i0 n fuel : Nat) (rest : List Str) (c : Ctx)
    (hcl : ClosesG T s β i fi i0)
    (h : At c ((scenarioLines4 sc).map (· ++ [10]) ++ rest) n μ β i) :
    ∃ s' β' i' c',
      ClosesG T s' β' i' (fi ++ [(.rule .ScenarioDefinition, Val.scenario (expScenario4 μ.dialect (n + 1) i0 sc))])
        (i0 + scIds4 sc) ∧
      At c' rest (n + scLines4 sc) μ β' i' ∧
      run (parseLinesPure D T stop (fuel + scLines4 sc) s) c = run (parseLinesPure D T stop fuel s') c' := by
  obtain ⟨tags, kw, nm, steps, es⟩ := sc
  simp only [scenarioOK4, scenarioOK2, MScenario4.core, Bool.and_eq_true, List.all_eq_true, List.contains_eq_mem,
    decide_eq_true_eq] at hok
  obtain ⟨⟨⟨⟨htags, hk⟩, hn⟩, hsteps⟩, hes⟩ := hok
  have h' : At c ((tagLineOf tags ++ [titleLineOf kw nm]).map (· ++ [10]) ++
      ((steps.flatMap stepLines2).map (· ++ [10]) ++ ((es.flatMap examplesLines).map (· ++ [10]) ++ rest))) n μ β i := by
    simpa [scenarioLines4, scenarioLines2, MScenario4.core, List.map_append, List.append_assoc] using h
  obtain ⟨c1, h1, hrun1⟩ := scenario_head hf hr D stop T RT4 hμ hsep tags kw nm htags hk hn _ s β i fi i0 n
    (fuel + exsLines es + stepsLines steps) c hcl h'
  obtain ⟨s2, β2, i2, c2, hin2, h2, hrun2⟩ := steps_loop2 hf hr D stop T RT4.base3.base2 hμ hsep _ fi _
    (fuel + exsLines es) _ steps hsteps 10 _ i0 [] i0 _ c1 ⟨.inl rfl, fun t => rfl⟩ h1
  have hin2' : InEx (tagsItem μ (n + 1) tags) fi (titleTok μ (n + tagLines tags + 1) .ScenarioLine kw nm)
      ([] ++ expSteps2 μ.dialect (n + tagLines tags + 1 + 1) i0 steps) s2 β2 i2 [] (i0 + stepsIds steps) := by
    refine ⟨?_, fun t => ?_⟩
    · rcases hin2.1 with h | h | h
      · exact .inl h
      · exact .inr (.inl h)
      · exact .inr (.inr (.inl h))
    · have e : pendE s2 = pendOf s2 := by rcases hin2.1 with rfl | rfl | rfl <;> rfl
      rw [e, hin2.2 t, st10_eq]
  obtain ⟨s3, β3, i3, c3, hin3, h3, hrun3⟩ := examples_loop hf hr D stop T RT4 hμ hsep _ fi _ _ fuel rest es hes
    s2 β2 i2 [] _ _ c2 hin2' h2
  have hcl' := inex_closes T RT4 (n + 1) (n + tagLines tags + 1) tags kw nm fi _ s3 β3 i3 _ _ hin3
  refine ⟨s3, β3, i3, c3, ?_, ?_, ?_⟩
  · have e1 : mkSc4 (n + 1) (n + tagLines tags + 1) (i0 + stepsIds steps + exsIds es) tags kw nm
        ([] ++ expSteps2 μ.dialect (n + tagLines tags + 1 + 1) i0 steps)
        ([] ++ expExamplesList (n + tagLines tags + 1 + stepsLines steps + 1) (i0 + stepsIds steps) es) =
        expScenario4 μ.dialect (n + 1) i0 ⟨tags, kw, nm, steps, es⟩ := by
      simp [mkSc4, expScenario4, Nat.add_assoc, Nat.add_comm, Nat.add_left_comm]
    have e2 : i0 + stepsIds steps + exsIds es + tags.length + 1 = i0 + scIds4 ⟨tags, kw, nm, steps, es⟩ := by
      simp [scIds4]; omega
    rw [e1, e2] at hcl'
    exact hcl'
  · have e : n + tagLines tags + 1 + stepsLines steps + exsLines es = n + scLines4 ⟨tags, kw, nm, steps, es⟩ := by
      simp [scLines4]; omega
    rwa [e] at h3
  · have e : fuel + scLines4 ⟨tags, kw, nm, steps, es⟩ =
        fuel + exsLines es + stepsLines steps + (tagLines tags + 1) := by simp [scLines4]; omega
    rw [e, hrun1, hrun2, hrun3]

/-- the scenarios of a feature -/
theorem scenarios_loop4 (pre : List (Key × Val)) (fuel : Nat) (rest : List Str) :
    ∀ (scs : List MScenario4) (hok : ∀ sc ∈ scs, scenarioOK4 μ.dialect sc = true)
      (s : Nat) (β : BState) (i : Nat) (S : List Scenario) (i0 n : Nat) (c : Ctx)
      (hcl : ClosesG T s β i (pre ++ scItems S) i0)
      (h : At c ((scs.flatMap scenarioLines4).map (· ++ [10]) ++ rest) n μ β i),
    ∃ s' β' i' c',
      ClosesG T s' β' i' (pre ++ scItems (S ++ expScenarios4 μ.dialect (n + 1) i0 scs)) (i0 + idsOfScenarios4 scs) ∧
      At c' rest (n + (scs.map scLines4).sum) μ β' i' ∧
      run (parseLinesPure D T stop (fuel + (scs.map scLines4).sum) s) c = run (parseLinesPure D T stop fuel s') c' := by
  intro scs
  induction scs with
  | nil =>
    intro _ s β i S i0 n c hcl h
    exact ⟨s, β, i, c, by simpa [expScenarios4, idsOfScenarios4] using hcl, by simpa using h, rfl⟩
  | cons sc scs ih =>
    intro hok s β i S i0 n c hcl h
    simp only [List.flatMap_cons, List.map_append, List.append_assoc] at h
    obtain ⟨s1, β1, i1, c1, hcl1, h1, hrun1⟩ := scenario_block4 hf hr D stop T RT4 hμ hsep sc (hok sc (by simp))
      s β i _ i0 n (fuel + (scs.map scLines4).sum) _ c hcl h
    rw [List.append_assoc, scItems_snoc] at hcl1
    obtain ⟨s', β', i', c', hcl', hc', hrun'⟩ := ih (fun x hx => hok x (by simp [hx])) s1 β1 i1 _ _ _ c1 hcl1 h1
    refine ⟨s', β', i', c', ?_, ?_, ?_⟩
    · have e1 : S ++ [expScenario4 μ.dialect (n + 1) i0 sc] ++
            expScenarios4 μ.dialect (n + scLines4 sc + 1) (i0 + scIds4 sc) scs =
          S ++ expScenarios4 μ.dialect (n + 1) i0 (sc :: scs) := by
        simp [expScenarios4, Nat.add_right_comm]
      have e2 : i0 + scIds4 sc + idsOfScenarios4 scs = i0 + idsOfScenarios4 (sc :: scs) := by
        simp [idsOfScenarios4]; omega
      rw [e1, e2] at hcl'
      exact hcl'
    · have e : n + scLines4 sc + (scs.map scLines4).sum = n + ((sc :: scs).map scLines4).sum := by simp; omega
      rwa [e] at hc'
    · have e : fuel + ((sc :: scs).map scLines4).sum = fuel + (scs.map scLines4).sum + scLines4 sc := by simp; omega
      rw [e, hrun1, hrun']

end ex4

theorem examplesLines_length (e : MExamples) : (examplesLines e).length = exLineCount e := by
  simp only [examplesLines, exLineCount, tagLineOf, tagLines, List.length_append, List.length_cons, List.length_map]
  split <;> simp <;> omega

theorem flatMap_examplesLines_length (es : List MExamples) : (es.flatMap examplesLines).length = exsLines es := by
  induction es with
  | nil => rfl
  | cons e es ih => simp [List.flatMap_cons, examplesLines_length, ih, exsLines]

theorem scenarioLines4_length (sc : MScenario4) : (scenarioLines4 sc).length = scLines4 sc := by
  simp only [scenarioLines4, List.length_append, scenarioLines2_length, flatMap_examplesLines_length, scLines4, scLines2,
    MScenario4.core]

theorem flatMap_scenarioLines4_length (scs : List MScenario4) :
    (scs.flatMap scenarioLines4).length = (scs.map scLines4).sum := by
  induction scs with
  | nil => rfl
  | cons sc scs ih => simp [List.flatMap_cons, scenarioLines4_length, ih]

theorem scenarioLines4_noLF {D' : List Dialect} (hr : renderFacts D' = true) {d : Dialect} (hd : d ∈ D')
    (sc : MScenario4) (hok : scenarioOK4 d sc = true) : ∀ b ∈ scenarioLines4 sc, ∀ x ∈ b, x ≠ 10 := by
  simp only [scenarioOK4, Bool.and_eq_true, List.all_eq_true] at hok
  obtain ⟨hcore, hes⟩ := hok
  intro b hb
  simp only [scenarioLines4, List.mem_append, List.mem_flatMap] at hb
  rcases hb with hb | ⟨e, he, hb⟩
  · exact scenarioLines2_noLF hr hd sc.core hcore b hb
  · have hok := hes e he
    simp only [examplesOK, Bool.and_eq_true, List.all_eq_true, List.contains_eq_mem, decide_eq_true_eq] at hok
    obtain ⟨⟨⟨htags, hk⟩, hn⟩, htab⟩ := hok
    simp only [examplesLines, List.mem_append, List.mem_cons, List.mem_map] at hb
    rcases hb with hb | rfl | ⟨r, hr', rfl⟩
    · exact tagLine_noLF e.tags htags b hb
    · exact title_noLF hr hd e.kw e.name
        (mem_allKeywords_title (mem_titleKeywords_of_role _ .ExamplesLine e.kw hk)) hn
    · exact rowBody_noLF r fun c hc x hx => ((cellOK_spec ((tableOK_spec htab r hr').2 c hc)).2.2 x hx).2.2

/-- **Round trip of the fourth model (examples blocks), queue-free parse** -/
theorem roundtrip4_pure {D' : List Dialect} (hf : keywordFacts D' = true) (hr : renderFacts D' = true)
    (D : List Dialect) (T : Table) (RT4 : RtTable4 T) (stop : Bool) (μ0 : MState) (hμ : (μ0.reset D).dialect ∈ D')
    (ids : Nat) (m : MFeature4) (hwf : WF4 (μ0.reset D).dialect m = true) :
    (parseWithPure D T stop μ0 ids (render4 m)).1 =
      .ok (expectedDoc4 (μ0.reset D).dialect (μ0.reset D).name m ids) ∧
    (parseWithPure D T stop μ0 ids (render4 m)).2.ids = idsAfter4 m ids := by
  have RT3 := RT4.base3
  have RT2 := RT3.base2
  have RTf := RT2.base
  obtain ⟨tags, kw, name, bg, scs⟩ := m
  simp only [WF4, Bool.and_eq_true, List.all_eq_true, List.contains_eq_mem, decide_eq_true_eq] at hwf
  obtain ⟨⟨⟨⟨htags, hk⟩, hn⟩, hbg⟩, hscs⟩ := hwf
  have hka : kw ∈ (μ0.reset D).dialect.allKeywords :=
    mem_allKeywords_title (mem_titleKeywords_of_role _ .FeatureLine kw hk)
  have hsplit : splitLines (render4 ⟨tags, kw, name, bg, scs⟩) =
      (tagLineOf tags ++ [titleLineOf kw name]).map (· ++ [10]) ++
        ((bgLinesOf bg).map (· ++ [10]) ++ (scs.flatMap scenarioLines4).map (· ++ [10])) := by
    have : lineBodies4 ⟨tags, kw, name, bg, scs⟩ =
        (tagLineOf tags ++ [titleLineOf kw name]) ++ (bgLinesOf bg ++ scs.flatMap scenarioLines4) := by
      simp [lineBodies4]
    rw [render4, this, ← List.map_append, ← List.map_append]
    apply splitLines_flatMap
    intro b hb
    simp only [List.mem_append, List.mem_singleton, List.mem_flatMap] at hb
    rcases hb with (hb | rfl) | hb | ⟨sc, hsc, hb⟩
    · exact tagLine_noLF tags htags b hb
    · exact title_noLF hr hμ kw name hka hn
    · exact bgLines_noLF hr hμ bg hbg b hb
    · exact scenarioLines4_noLF hr hμ sc (hscs sc hsc) b hb
  have hlen : (splitLines (render4 ⟨tags, kw, name, bg, scs⟩)).length + 2 =
      (2 + (scs.map scLines4).sum + bgLineCount bg) + (1 + tagLines tags) := by
    rw [hsplit]
    simp only [List.length_map, List.length_append, List.length_singleton, flatMap_scenarioLines4_length,
      bgLinesOf_length, tagLineOf, tagLines]
    split <;> simp <;> omega
  -- the expected background of the AST
  let bgA : Option Background := bg.map (expBackground (μ0.reset D).dialect (1 + tagLines tags + 1) ids)
  have hexp : expectedDoc4 (μ0.reset D).dialect (μ0.reset D).name ⟨tags, kw, name, bg, scs⟩ ids =
      ⟨some (mkFeat3 1 (1 + tagLines tags) (ids + bgIdCount bg + idsOfScenarios4 scs) tags (μ0.reset D).name kw name
        bgA (expScenarios4 (μ0.reset D).dialect (1 + tagLines tags + bgLineCount bg + 1) (ids + bgIdCount bg) scs)), []⟩ := by
    have e1 : 2 + tagLines tags = 1 + tagLines tags + 1 := by omega
    have e2 : ∀ k, 1 + tagLines tags + 1 + k = 1 + tagLines tags + k + 1 := by intro k; omega
    cases bg <;> simp [expectedDoc4, mkFeat3, e1, e2, bgA, bgChild, expBgChild]
  rw [hexp]
  have hid : idsAfter4 ⟨tags, kw, name, bg, scs⟩ ids = ids + bgIdCount bg + idsOfScenarios4 scs + tags.length := rfl
  rw [hid]
  apply pure_outcome_of_loop D T RTf.start
  intro c hc
  rw [hlen]
  rw [hsplit] at hc
  obtain ⟨c1, β1, h1, hcl, hrun1⟩ := feature_head hf hr D stop T RTf hμ (reset_activeSep D μ0) tags kw name htags hk hn
    _ ids (2 + (scs.map scLines4).sum + bgLineCount bg) c hc
  -- the background, if any
  have hb : ∃ s1' β1' i1' c1', ClosesG T s1' β1' i1' (hdrItem (μ0.reset D) tags kw name :: (bgItems bgA ++ scItems []))
        (ids + bgIdCount bg) ∧
      At c1' ((scs.flatMap scenarioLines4).map (· ++ [10]) ++ []) (1 + tagLines tags + bgLineCount bg) (μ0.reset D) β1' i1' ∧
      run (parseLinesPure D T stop (2 + (scs.map scLines4).sum + bgLineCount bg) 3) c1 =
        run (parseLinesPure D T stop (2 + (scs.map scLines4).sum) s1') c1' := by
    cases bg with
    | none =>
      refine ⟨3, β1, ids, c1, ClosesG.of2 RT2 ⟨.inl rfl, hcl.2⟩, ?_, rfl⟩
      simpa [bgLinesOf, bgLineCount] using h1
    | some b =>
      obtain ⟨s', β', i', c', hcl', hc', hrun'⟩ := background_block hf hr D stop T RT3 hμ (reset_activeSep D μ0) b hbg
        β1 ids _ (1 + tagLines tags) (2 + (scs.map scLines4).sum) _ c1 hcl.2 h1
      exact ⟨s', β', i', c', hcl', by simpa [bgLineCount] using hc', hrun'⟩
  obtain ⟨s1', β1', i1', c1', hcl1, h1', hrunb⟩ := hb
  obtain ⟨s2, β2, i2, c2, hcl2, h2, hrun2⟩ := scenarios_loop4 hf hr D stop T RT4 hμ (reset_activeSep D μ0)
    (hdrItem (μ0.reset D) tags kw name :: bgItems bgA) 2 [] scs hscs s1' β1' i1' [] (ids + bgIdCount bg)
    (1 + tagLines tags + bgLineCount bg) c1' hcl1 h1'
  rw [List.nil_append] at hcl2
  obtain ⟨c3, te, hrun3, h3⟩ := finishG hf hr D stop T RT3 hμ (reset_activeSep D μ0) s2 β2 i2 _ _ 1 tags kw name bgA _
    hcl2 c2 h2
  exact ⟨c3, te, _, by rw [hrun1, hrunb, hrun2, hrun3], h3⟩

end Lemmas
end GV
