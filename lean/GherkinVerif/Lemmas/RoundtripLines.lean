/-
  Lemmas/RoundtripLines.lean — property C03, round trip: string-level and per-line matcher lemmas
  for the lines `Spec.render` writes.  Each rendered line is matched as its intended kind with the
  intended fields and is NOT matched (token and matcher untouched) by any other specific test.
-/
import GherkinVerif.Spec.Render
import GherkinVerif.Lemmas.Keywords
set_option linter.unusedSectionVars false
set_option linter.unusedSimpArgs false
namespace GV
namespace Spec

/-- head of a keyword: present, not whitespace, none of `#`, `@`, `|`, `"`, backtick -/
def kwHeadOK : Str → Bool
  | [] => false
  | c :: _ => !isSpace c && c != 35 && c != 64 && c != 124 && c != 34 && c != 96

/-- table fact used by the round trip: every keyword has a plain head and contains no line feed -/
def renderFacts (D : List Dialect) : Bool :=
  D.all fun d => d.allKeywords.all fun k => kwHeadOK k && k.all (· != 10)

end Spec

namespace Lemmas
open Spec

/-! ### strings -/

theorem dropWhileEnd_append_single (p : Nat → Bool) (s : Str) (c : Nat) (hc : p c = true) :
    dropWhileEnd p (s ++ [c]) = dropWhileEnd p s := by
  induction s with
  | nil => simp [dropWhileEnd, hc]
  | cons a s ih => simp only [List.cons_append, dropWhileEnd, ih]

theorem dropWhileEnd_noWsEnd (s : Str) (h : noWsEnd s = true) : dropWhileEnd isSpace s = s := by
  induction s with
  | nil => rfl
  | cons a s ih =>
    cases s with
    | nil =>
      have : isSpace a = false := by simpa [noWsEnd] using h
      simp [dropWhileEnd, this]
    | cons c r =>
      have h' : noWsEnd (c :: r) = true := by simpa [noWsEnd] using h
      simp only [dropWhileEnd] at ih ⊢
      rw [ih h']

theorem isSpace_10 : isSpace 10 = true := by decide
theorem isSpace_32 : isSpace 32 = true := by decide

/-- `strip` of a clean text between leading whitespace and one trailing whitespace code point
    (the line feed, or the blank between two tags) is the text -/
theorem strip_clean (ws s : Str) (x : Nat) (hx : isSpace x = true) (hws : ∀ c ∈ ws, isSpace c = true)
    (h1 : noWsStart s = true) (h2 : noWsEnd s = true) : strip (ws ++ (s ++ [x])) = s := by
  unfold strip rstrip
  rw [lstrip_ws_append ws _ hws]
  cases s with
  | nil => simp [lstrip, hx, dropWhileEnd]
  | cons c r =>
    have hc : isSpace c = false := by simpa [noWsStart] using h1
    have : lstrip ((c :: r) ++ [x]) = (c :: r) ++ [x] := by simp [lstrip, hc]
    rw [this, dropWhileEnd_append_single _ _ _ hx, dropWhileEnd_noWsEnd _ h2]

theorem strip_id (s : Str) (h1 : noWsStart s = true) (h2 : noWsEnd s = true) : strip s = s := by
  unfold strip rstrip
  rw [lstrip_of_noWsStart _ h1, dropWhileEnd_noWsEnd _ h2]

theorem splitLines_line (b rest : Str) (hb : ∀ c ∈ b, c ≠ 10) :
    splitLines (b ++ [10] ++ rest) = (b ++ [10]) :: splitLines rest := by
  induction b with
  | nil => simp [splitLines]
  | cons c b ih =>
    have hc : c ≠ 10 := hb c (by simp)
    have ih' := ih fun x hx => hb x (by simp [hx])
    simp only [List.cons_append, List.append_assoc] at ih' ⊢
    simp only [splitLines, beq_iff_eq, hc, if_false, ih', Bool.false_eq_true]

theorem splitLines_flatMap (bs : List Str) (h : ∀ b ∈ bs, ∀ c ∈ b, c ≠ 10) :
    splitLines (bs.flatMap (· ++ [10])) = bs.map (· ++ [10]) := by
  induction bs with
  | nil => rfl
  | cons b bs ih =>
    rw [List.flatMap_cons, List.map_cons, splitLines_line b _ (h b (by simp)),
      ih fun b' hb' => h b' (by simp [hb'])]

/-! ### tests that fail by the first code point of the trimmed line -/

section head
variable (D : List Dialect) (μ : MState) (t : Token) (l : Str) (c : Nat) (r : Str)

theorem no_EOF : matchLine D .EOF μ t l = ⟨t, μ, .no⟩ := rfl

theorem no_Empty (hl : trimmed l = c :: r) : matchLine D .Empty μ t l = ⟨t, μ, .no⟩ := by
  simp [matchLine, lineIsEmpty, hl]

theorem no_Comment (hl : trimmed l = c :: r) (hc : c ≠ 35) : matchLine D .Comment μ t l = ⟨t, μ, .no⟩ := by
  simp [matchLine, lineStartsWith, hl, startsWith, Ne.symm hc]

theorem no_TagLine (hl : trimmed l = c :: r) (hc : c ≠ 64) : matchLine D .TagLine μ t l = ⟨t, μ, .no⟩ := by
  simp [matchLine, lineStartsWith, hl, startsWith, Ne.symm hc]

theorem no_TableRow (hl : trimmed l = c :: r) (hc : c ≠ 124) : matchLine D .TableRow μ t l = ⟨t, μ, .no⟩ := by
  simp [matchLine, lineStartsWith, hl, startsWith, Ne.symm hc]

theorem no_Language (hl : trimmed l = c :: r) (hc : c ≠ 35) : matchLine D .Language μ t l = ⟨t, μ, .no⟩ := by
  apply matchLine_language_no
  have hns : noWsStart (c :: r) = true := hl ▸ noWsStart_lstrip l
  rw [← languageRe_lstrip, show lstrip l = c :: r from hl]
  unfold languageRe
  rw [lstrip_of_noWsStart _ hns]
  split
  · next s1 h => cases h; exact absurd rfl hc
  · rfl

theorem no_DocSep (hsep : μ.activeSep = none) (hl : trimmed l = c :: r) (h1 : c ≠ 34) (h2 : c ≠ 96) :
    matchLine D .DocStringSeparator μ t l = ⟨t, μ, .no⟩ := by
  simp [matchLine, hsep, matchDocSep, lineStartsWith, hl, startsWith, dq3, bt3, Ne.symm h1, Ne.symm h2,
    Option.orElse]

end head

/-! ### keyword facts -/

theorem renderFacts_spec {D : List Dialect} (h : renderFacts D = true) {d : Dialect} (hd : d ∈ D)
    {k : Str} (hk : k ∈ d.allKeywords) :
    (∃ c r, k = c :: r ∧ isSpace c = false ∧ c ≠ 35 ∧ c ≠ 64 ∧ c ≠ 124 ∧ c ≠ 34 ∧ c ≠ 96) ∧
    ∀ x ∈ k, x ≠ 10 := by
  simp only [renderFacts, List.all_eq_true, Bool.and_eq_true, bne_iff_ne, ne_eq] at h
  obtain ⟨h1, h2⟩ := h d hd k hk
  refine ⟨?_, h2⟩
  cases k with
  | nil => simp [kwHeadOK] at h1
  | cons c r =>
    refine ⟨c, r, rfl, ?_⟩
    simpa [kwHeadOK, and_assoc] using h1

theorem startsWith_snoc (k s : Str) (h : ∀ x ∈ k, x ≠ 10) : startsWith k (s ++ [10]) = startsWith k s := by
  induction k generalizing s with
  | nil => simp [startsWith]
  | cons a k ih =>
    have ha : a ≠ 10 := h a (by simp)
    cases s with
    | nil =>
      cases k <;> simp [startsWith, ha]
    | cons b s =>
      simp only [List.cons_append, startsWith]
      rw [ih s fun x hx => h x (by simp [hx])]

/-! ### the expected tokens -/

def titleTok (μ : MState) (n : Nat) (ty : Kind) (kw name : Str) : Token :=
  { line := some (titleLineOf kw name ++ [10]), lineNo := n, col := some 1, mtype := some ty,
    text := some name, keyword := some kw, ktype := none, indent := 0, items := [], dialect := μ.name }

def stepTok (μ : MState) (n : Nat) (s : MStep) : Token :=
  { line := some (stepLineOf s ++ [10]), lineNo := n, col := some 3, mtype := some .StepLine,
    text := some s.text, keyword := some s.kw, ktype := some (stepKType μ.dialect s.kw), indent := 2,
    items := [], dialect := μ.name }

def tagTok (μ : MState) (n : Nat) (tags : List Str) : Token :=
  { line := some (joinWith [32] tags ++ [10]), lineNo := n, col := some 1, mtype := some .TagLine,
    text := none, keyword := none, ktype := none, indent := 0, items := tagCols 1 tags, dialect := μ.name }

theorem cleanText_spec {s : Str} (h : cleanText s = true) :
    noWsStart s = true ∧ noWsEnd s = true ∧ ∀ x ∈ s, x ≠ 10 := by
  simp only [cleanText, Bool.and_eq_true, List.all_eq_true, bne_iff_ne, ne_eq] at h
  exact ⟨h.1.1, h.1.2, h.2⟩

section kw
variable {D' : List Dialect} (hf : keywordFacts D' = true) (hr : renderFacts D' = true)
variable (D : List Dialect) (μ : MState) (hμ : μ.dialect ∈ D')
include hf hr hμ

/-- a rendered title line is matched as its kind -/
theorem title_match (ty : Kind) (hty : ty.isTitle = true) (kw name : Str) (hk : kw ∈ μ.dialect.roleKeywords ty)
    (hn : cleanText name = true) (t : Token) (n : Nat) (hl : t.line = some (titleLineOf kw name ++ [10]))
    (hno : t.lineNo = n) :
    matchLine D ty μ t (titleLineOf kw name ++ [10]) = ⟨titleTok μ n ty kw name, μ, .matched⟩ := by
  obtain ⟨hn1, hn2, -⟩ := cleanText_spec hn
  have hka : kw ∈ μ.dialect.allKeywords := mem_allKeywords_title (mem_titleKeywords_of_role _ ty kw hk)
  obtain ⟨⟨c, r, rfl, hc, -⟩, -⟩ := renderFacts_spec hr hμ hka
  have e : titleLineOf (c :: r) name ++ [10] = [] ++ (c :: r) ++ [58] ++ ([32] ++ (name ++ [10])) := by
    simp [titleLineOf]
  have hind : lineIndent (titleLineOf (c :: r) name ++ [10]) = 0 := by
    simp [titleLineOf, lineIndent, indentOf, hc]
  rw [e, title_in_table D D' hf ty hty μ hμ t [] (c :: r) _ hk (by simp)]
  rw [strip_clean [32] name 10 isSpace_10 (by simp [isSpace_32]) hn1 hn2]
  have hs : rstripCRLF name = name := by
    have := rstripCRLF_strip name
    rwa [strip_id name hn1 hn2] at this
  cases t
  simp only at hl hno
  subst hl hno
  simp [setMatched, titleTok, hind, hs]

/-- a rendered step line is matched as a step with its keyword -/
theorem step_match (s : MStep) (hs : stepOK μ.dialect s = true) (t : Token) (n : Nat)
    (hl : t.line = some (stepLineOf s ++ [10])) (hno : t.lineNo = n) :
    matchLine D .StepLine μ t (stepLineOf s ++ [10]) = ⟨stepTok μ n s, μ, .matched⟩ := by
  simp only [stepOK, Bool.and_eq_true, beq_iff_eq, firstStepKeyword] at hs
  obtain ⟨hfind, hclean⟩ := hs
  obtain ⟨hn1, hn2, -⟩ := cleanText_spec hclean
  rw [List.find?_eq_some_iff_append] at hfind
  obtain ⟨-, pre, post, hsplit, hpre⟩ := hfind
  have hkm : s.kw ∈ μ.dialect.stepKeywords := by rw [hsplit]; simp
  obtain ⟨⟨c, r, hkw, hc, -⟩, -⟩ := renderFacts_spec hr hμ (mem_allKeywords_step hkm)
  have hns : noWsStart s.kw = true := by rw [hkw]; simp [noWsStart, hc]
  have hne : s.kw ≠ [] := by rw [hkw]; simp
  have e : stepLineOf s ++ [10] = [32, 32] ++ s.kw ++ (s.text ++ [10]) := by simp [stepLineOf]
  have hws : ∀ c ∈ ([32, 32] : Str), isSpace c = true := by
    intro c hc; simp at hc; subst hc; exact isSpace_32
  have hind : lineIndent (stepLineOf s ++ [10]) = 2 := by
    rw [e, List.append_assoc]
    exact indentOf_ws_append [32, 32] _ hws (noWsStart_append s.kw _ hns hne)
  have hpre' : ∀ k' ∈ pre, startsWith k' (s.kw ++ (s.text ++ [10])) = false := by
    intro k' hk'
    have hk'm : k' ∈ μ.dialect.stepKeywords := by rw [hsplit]; simp [hk']
    obtain ⟨-, h10⟩ := renderFacts_spec hr hμ (mem_allKeywords_step hk'm)
    rw [← List.append_assoc, startsWith_snoc _ _ h10]
    simpa using hpre k' hk'
  rw [e, matchLine_step_line D μ t [32, 32] s.kw _ pre post hsplit hws hns hne hpre']
  have h0 := strip_clean [] s.text 10 isSpace_10 (by simp) hn1 hn2
  rw [List.nil_append] at h0
  rw [h0]
  have hs : rstripCRLF s.text = s.text := by
    have := rstripCRLF_strip s.text
    rwa [strip_id s.text hn1 hn2] at this
  cases t
  simp only at hl hno
  subst hl hno
  simp [setMatched, stepTok, hind, hs]

/-- the trimmed rendered keyword line starts with the keyword's head -/
theorem kwline_head (k : Str) (hk : k ∈ μ.dialect.allKeywords) (ws rest : Str)
    (hws : ∀ c ∈ ws, isSpace c = true) :
    ∃ c r, trimmed (ws ++ k ++ rest) = c :: r ∧ c ≠ 35 ∧ c ≠ 64 ∧ c ≠ 124 ∧ c ≠ 34 ∧ c ≠ 96 := by
  obtain ⟨⟨c, r, rfl, hc, h⟩, -⟩ := renderFacts_spec hr hμ hk
  refine ⟨c, r ++ rest, ?_, h⟩
  rw [List.append_assoc]
  exact trimmed_ws_append ws _ hws (by simp [noWsStart, hc])

/-- a line matched as a title line or step line of the dialect in force fails every other specific
    test, token and matcher untouched -/
theorem kwline_others_no (hsep : μ.activeSep = none) (t : Token) (l : Str) (c : Nat) (r : Str)
    (hl : trimmed l = c :: r) (hc : c ≠ 35 ∧ c ≠ 64 ∧ c ≠ 124 ∧ c ≠ 34 ∧ c ≠ 96)
    (ty : Kind) (hty : ty.isTitle = true ∨ ty = .StepLine) (t' : Token) (μ' : MState)
    (hm : matchLine D ty μ t l = ⟨t', μ', .matched⟩) (K : Kind) (hK : K ≠ ty) (hO : K ≠ .Other) :
    matchLine D K μ t l = ⟨t, μ, .no⟩ := by
  obtain ⟨h1, h2, h3, h4, h5⟩ := hc
  by_cases hK2 : K.isTitle = true ∨ K = .StepLine
  · exact keyword_kinds_exclusive D D' hf μ hμ t l ty K hty hK2 (Ne.symm hK) t' μ' hm
  · cases K
    case EOF => rfl
    case Empty => exact no_Empty D μ t l c r hl
    case Comment => exact no_Comment D μ t l c r hl h1
    case TagLine => exact no_TagLine D μ t l c r hl h2
    case TableRow => exact no_TableRow D μ t l c r hl h3
    case Language => exact no_Language D μ t l c r hl h1
    case DocStringSeparator => exact no_DocSep D μ t l c r hsep hl h4 h5
    case Other => exact absurd rfl hO
    all_goals exact absurd (by simp [Kind.isTitle]) hK2

end kw

end Lemmas
end GV
