/-
  Lemmas/RecoverDoc.lean — property C14, recovery at document level: the one-step lemma (a line that
  every test of the current state refuses records one error and changes nothing else), the three
  phases of the simulation (before, at, after the unexpected line), the whole queue-free parse and
  the transfer to the parser with the token queue.
-/
import GherkinVerif.Lemmas.RecoverSim
import GherkinVerif.Lemmas.QueuePureLoop
namespace GV
namespace Recover
open Lemmas Spec Layout3

/-! ### the one-step lemma -/

theorem matchLine_no (D : List Dialect) (k : Kind) (μ : MState) (t : Token) (l : Str)
    (h : (matchLine D k μ t l).res = .no) : matchLine D k μ t l = ⟨t, μ, .no⟩ := by
  cases k <;> simp only [matchLine] at h ⊢
  all_goals (repeat' split at h) <;> (try cases h) <;> simp_all

/-- a test that says "no" to the line leaves token and matcher state alone, whatever the line number -/
theorem matchTok_no (D : List Dialect) (K : Kind) (μ : MState) (u : Str) (n : Nat)
    (h : resIsNo (matchTok D K μ { line := some u, lineNo := 0 }).1.res = true) :
    matchTok D K μ { line := some u, lineNo := n } = (⟨{ line := some u, lineNo := n }, μ, .no⟩, true) := by
  have h0 : (matchLine D K μ { line := some u, lineNo := 0 } u).res = .no := by
    have : (matchTok D K μ { line := some u, lineNo := 0 }).1.res = (matchLine D K μ { line := some u, lineNo := 0 } u).res := rfl
    rw [this] at h
    cases hr : (matchLine D K μ { line := some u, lineNo := 0 } u).res <;> rw [hr] at h <;> first | rfl | cases h
  have hn : (matchLine D K μ { line := some u, lineNo := n } u).res = .no := by
    have := matchLine_reNo D K μ { line := some u, lineNo := 0 } u n
    have e : reNo n ({ line := some u, lineNo := 0 } : Token) = { line := some u, lineNo := n } := rfl
    rw [e] at this
    rw [this, reOut, h0]; rfl
  show (matchLine D K μ { line := some u, lineNo := n } u, true) = _
  rw [matchLine_no D K μ _ u hn]

/-- tests that all say "no": `match_token` falls through to the error tail, only the call counter moves -/
theorem tryBranchesPure_no {D : List Dialect} (T : Table) (stop : Bool) (row : StateRow) (u : Str) (n : Nat) :
    ∀ (bs : List Branch) (c : Ctx),
      (bs.all fun b => resIsNo (matchTok D b.kind c.μ { line := some u, lineNo := 0 }).1.res) = true →
      run (tryBranchesPure D T stop row bs { line := some u, lineNo := n }) c =
        run (tryBranchesPure D T stop row [] { line := some u, lineNo := n }) { c with calls := c.calls + bs.length } := by
  intro bs
  induction bs with
  | nil => intro c _; rfl
  | cons b bs ih =>
    intro c h
    rw [List.all_cons, Bool.and_eq_true] at h
    conv => lhs; unfold tryBranchesPure
    rw [prun_bind, run_matchP]
    simp only [matchTok_no D b.kind c.μ u n h.1, ↓reduceIte, Bool.false_eq_true]
    have ec : ({ c with μ := c.μ, calls := c.calls + 1 } : Ctx) = { c with calls := c.calls + 1 } := rfl
    rw [ec, ih { c with calls := c.calls + 1 } h.2]
    simp only [List.length_cons]
    have : c.calls + 1 + bs.length = c.calls + (bs.length + 1) := by omega
    rw [this]

/-- **One-step lemma** (collecting mode).  In a state whose tests all say "no" to the line `u` and
    whose error tail returns the state itself, `match_token` returns the same state; the builder,
    the matcher state, the id counter and the unread lines are untouched (nothing is handed to the
    builder); the line is recorded in `unexpected`; and the error list grows by exactly the
    unexpected-token error of the row (`addError`: unless an identical message is already there;
    and the run aborts if the list now exceeds the cap). -/
theorem unexpected_line_step {D : List Dialect} (T : Table) (s : Nat) (u : Str) (n : Nat) (c : Ctx)
    (h : lineUnexpectedAt D T s c.μ u = true) :
    ∃ row j, T.row? s = some row ∧
      run (matchTokenPure D T false s { line := some u, lineNo := n }) c =
        match run (addError T.errorCap (unexpectedErr row { line := some u, lineNo := n }))
            { c with calls := c.calls + j, unexpected := c.unexpected ++ [n] } with
        | (.ok _, c') => (.ok s, c')
        | (.error e, c') => (.error e, c') := by
  unfold lineUnexpectedAt at h
  cases hrow : T.row? s with
  | none => rw [hrow] at h; cases h
  | some row =>
    rw [hrow] at h
    simp only [Bool.and_eq_true, beq_iff_eq] at h
    refine ⟨row, row.branches.length, rfl, ?_⟩
    unfold matchTokenPure
    rw [hrow]
    simp only []
    rw [tryBranchesPure_no T false row u n row.branches c h.1]
    unfold tryBranchesPure
    rw [prun_bind, run_modify]
    simp only [Bool.false_eq_true, ↓reduceIte]
    rw [prun_bind]
    rcases run (addError T.errorCap (unexpectedErr row { line := some u, lineNo := n })) _ with ⟨r, c'⟩
    cases r with
    | ok a => simp only [prun_pure, h.2]
    | error e => rfl

theorem unexpectedErr_line (row : StateRow) (u : Str) (n : Nat) :
    (unexpectedErr row { line := some u, lineNo := n }).loc.line = n :=
  ((unexpectedErr_form row { line := some u, lineNo := n }).1 u rfl).2

/-! ### the main loop -/

section loop
variable {D : List Dialect} {u : Str} {k : Nat} {cap : Nat}

def PostLU (D : List Dialect) (k : Nat) (x : Option Extra) (cap : Nat) {α} (Q : α → Ctx → Ctx → Prop)
    (x1 x2 : Except Abort α × Ctx) : Prop :=
  (∃ a c1' c2', x1 = (.ok a, c1') ∧ x2 = (.ok a, c2') ∧ CtxU D k x c1' c2' ∧ Q a c1' c2') ∨
  (∃ e c1' c2', x1 = (.error e, c1') ∧ x2 = (.error (mapAbortU k x e), c2') ∧ CtxU D k x c1' c2') ∨
  (∃ e c2', x2 = (.error e, c2') ∧ cap < c2'.errors.length)

/-- phase A: both runs consume the lines before the insertion point -/
theorem sim_prefix {T : Table} (hcap : T.errorCap = cap) (hT : TableOkU T) (stop : Bool) (q : List Str) :
    ∀ (p : List Str) (s : Nat) (c1 c2 : Ctx), CtxU D k none c1 c2 → c1.lines = p ++ q → c2.lines = p ++ u :: q →
      c2.lineNo = c1.lineNo → c1.lineNo + p.length = k → (∀ l, p.getLast? = some l → barrierLine l = true) →
      PostLU D k none cap (fun a c1' c2' => a.2 = false ∧ c1'.lines = q ∧ c2'.lines = u :: q ∧ c1'.lineNo = k ∧ c2'.lineNo = k)
        (run (parsePrefixPure D T stop p.length s) c1) (run (parsePrefixPure D T stop p.length s) c2) := by
  intro p
  induction p with
  | nil =>
    intro s c1 c2 hc h1 h2 hn hk _
    exact .inl ⟨(s, false), c1, c2, rfl, rfl, hc, rfl, h1, h2, by simpa using hk, by rw [hn]; simpa using hk⟩
  | cons l p ih =>
    intro s c1 c2 hc h1 h2 hn hk hbar
    simp only [List.length_cons, List.cons_append] at hk h1 h2 ⊢
    rw [run_prefix_cons T stop _ s c1 h1, run_prefix_cons T stop _ s c2 h2, hn]
    have ht : TokIns k { line := some l, lineNo := c1.lineNo + 1 } { line := some l, lineNo := c1.lineNo + 1 } := by
      unfold TokIns reNo; simp only [insertMap_ln_le k (show c1.lineNo + 1 ≤ k by omega)]
    have hc' : CtxU D k none
        { c1 with lines := p ++ q, lineNo := c1.lineNo + 1, reads := c1.reads ++ [c1.lineNo + 1] }
        { c2 with lines := p ++ u :: q, lineNo := c1.lineNo + 1, reads := c2.reads ++ [c1.lineNo + 1] } :=
      ⟨hc.errors, hc.μ, hc.β, hc.ids, hc.unexpected, hc.builds, hc.sane, fun y hy => by cases hy⟩
    have hbar' : ∀ z, p.getLast? = some z → barrierLine z = true := by
      intro z hz
      cases p with
      | nil => cases hz
      | cons l' p' => exact hbar z (by rw [List.getLast?_cons_cons]; exact hz)
    have hl : LinesU u k (∀ μ, mm D .TagLine μ (some l) = false)
        (p ++ q) (c1.lineNo + 1) (p ++ u :: q) (c1.lineNo + 1) :=
      .inl ⟨rfl, p, q, rfl, rfl, by omega, fun hp μ => by
        subst hp
        exact barrier_not_skip (hbar l rfl) .TagLine rfl μ, hbar'⟩
    rcases sim_matchTokenPure (x := none) hcap hT stop s ht (fun h => h) _ _ hc' hl with
      ⟨s1, s2, c1', c2', e1, e2, hs, hc'', fr1, fr2⟩ | ⟨e, c1', c2', e1, e2, hc''⟩ | ⟨e, c2', e2, hcp⟩
    · rw [e1, e2]
      subst hs
      exact ih s1 c1' c2' hc'' fr1.1 fr2.1 (by rw [fr1.2, fr2.2]) (by rw [fr1.2]; simp only; omega) hbar'
    · rw [e1, e2]
      exact .inr (.inl ⟨e, c1', c2', rfl, rfl, hc''⟩)
    · rw [e2]
      exact .inr (.inr ⟨e, c2', rfl, hcp⟩)

/-- phase C: both runs consume the lines after the inserted one, numbered one higher in the second -/
theorem sim_rest {T : Table} (hcap : T.errorCap = cap) (hT : TableOkU T) (stop : Bool) (x : Option Extra) :
    ∀ (fuel s : Nat) (c1 c2 : Ctx), CtxU D k x c1 c2 → c2.lines = c1.lines → c2.lineNo = c1.lineNo + 1 →
      k ≤ c1.lineNo →
      PostLU D k x cap (fun _ c1' c2' => LinesU u k False c1'.lines c1'.lineNo c2'.lines c2'.lineNo)
        (run (parseLinesPure D T stop fuel s) c1) (run (parseLinesPure D T stop fuel s) c2) := by
  intro fuel
  induction fuel with
  | zero =>
    intro s c1 c2 hc _ _ _
    exact .inr (.inl ⟨.fuel, c1, c2, rfl, rfl, hc⟩)
  | succ fuel ih =>
    intro s c1 c2 hc hls hn hk
    cases h1 : c1.lines with
    | nil =>
      have h2 : c2.lines = [] := by rw [hls, h1]
      rw [run_lines_nil T stop _ s c1 h1, run_lines_nil T stop _ s c2 h2, hn]
      have ht : TokIns k { line := none, lineNo := c1.lineNo + 1 } { line := none, lineNo := c1.lineNo + 1 + 1 } := by
        unfold TokIns reNo; simp only [insertMap_ln_gt k (show k < c1.lineNo + 1 by omega)]
      have hc' : CtxU D k x
          { c1 with lineNo := c1.lineNo + 1, reads := c1.reads ++ [c1.lineNo + 1] }
          { c2 with lineNo := c1.lineNo + 1 + 1, reads := c2.reads ++ [c1.lineNo + 1 + 1] } :=
        ⟨hc.errors, hc.μ, hc.β, hc.ids, hc.unexpected, hc.builds, hc.sane, hc.valid⟩
      have hl' : LinesU u k False c1.lines (c1.lineNo + 1) c2.lines (c1.lineNo + 1 + 1) :=
        .inr ⟨rfl, by omega, hls⟩
      rcases sim_matchTokenPure hcap hT stop s ht (fun h => h.elim) _ _ hc' hl' with
        ⟨s1, s2, c1', c2', e1, e2, hs, hc'', fr1, fr2⟩ | ⟨e, c1', c2', e1, e2, hc''⟩ | ⟨e, c2', e2, hcp⟩
      · rw [e1, e2]
        subst hs
        refine .inl ⟨s1, c1', c2', rfl, rfl, hc'', ?_⟩
        show LinesU u k False c1'.lines c1'.lineNo c2'.lines c2'.lineNo
        rw [fr1.1, fr1.2, fr2.1, fr2.2]; exact hl'
      · rw [e1, e2]
        exact .inr (.inl ⟨e, c1', c2', rfl, rfl, hc''⟩)
      · rw [e2]
        exact .inr (.inr ⟨e, c2', rfl, hcp⟩)
    | cons l ls =>
      have h2 : c2.lines = l :: ls := by rw [hls, h1]
      rw [run_lines_cons T stop _ s c1 h1, run_lines_cons T stop _ s c2 h2, hn]
      have ht : TokIns k { line := some l, lineNo := c1.lineNo + 1 } { line := some l, lineNo := c1.lineNo + 1 + 1 } := by
        unfold TokIns reNo; simp only [insertMap_ln_gt k (show k < c1.lineNo + 1 by omega)]
      have hc' : CtxU D k x
          { c1 with lines := ls, lineNo := c1.lineNo + 1, reads := c1.reads ++ [c1.lineNo + 1] }
          { c2 with lines := ls, lineNo := c1.lineNo + 1 + 1, reads := c2.reads ++ [c1.lineNo + 1 + 1] } :=
        ⟨hc.errors, hc.μ, hc.β, hc.ids, hc.unexpected, hc.builds, hc.sane, hc.valid⟩
      rcases sim_matchTokenPure hcap hT stop s ht (fun h => h.elim) _ _ hc'
          (.inr ⟨rfl, by show k ≤ c1.lineNo + 1; omega, rfl⟩ : LinesU u k False _ _ _ _) with
        ⟨s1, s2, c1', c2', e1, e2, hs, hc'', fr1, fr2⟩ | ⟨e, c1', c2', e1, e2, hc''⟩ | ⟨e, c2', e2, hcp⟩
      · rw [e1, e2]
        subst hs
        exact ih s1 c1' c2' hc'' (by rw [fr1.1, fr2.1]) (by rw [fr1.2, fr2.2]) (by rw [fr1.2]; simp only; omega)
      · rw [e1, e2]
        exact .inr (.inl ⟨e, c1', c2', rfl, rfl, hc''⟩)
      · rw [e2]
        exact .inr (.inr ⟨e, c2', rfl, hcp⟩)

/-- phase B: the second run reads the unexpected line: it stays in its state, with one error more -/
theorem unexpected_step {T : Table} (hcap : T.errorCap = cap) {s : Nat} (fuel : Nat) {c1 c2 : Ctx}
    (hc : CtxU D k none c1 c2) {q : List Str} (h2 : c2.lines = u :: q) (hn : c2.lineNo = k)
    (hun : lineUnexpectedAt D T s c2.μ u = true) :
    (∃ c2', run (parseLinesPure D T false (fuel + 1) s) c2 = run (parseLinesPure D T false fuel s) c2' ∧
      CtxU D k (some ⟨c1.errors.length, c1.unexpected.length, skippedError T s k u⟩) c1 c2' ∧
      c2'.lines = q ∧ c2'.lineNo = k + 1) ∨
    (∃ e c2', run (parseLinesPure D T false (fuel + 1) s) c2 = (.error e, c2') ∧ cap < c2'.errors.length) := by
  subst hcap
  rw [run_lines_cons T false fuel s c2 h2]
  obtain ⟨row, j, hrow, hstep⟩ := unexpected_line_step (D := D) T s u (c2.lineNo + 1)
    { c2 with lines := q, lineNo := c2.lineNo + 1, reads := c2.reads ++ [c2.lineNo + 1] } hun
  rw [hstep, run_addError]
  simp only []
  have hsk : skippedError T s k u = unexpectedErr row { line := some u, lineNo := c2.lineNo + 1 } := by
    unfold skippedError; rw [hrow, hn]
  have hline : (unexpectedErr row { line := some u, lineNo := c2.lineNo + 1 }).loc.line = k + 1 := by
    rw [unexpectedErr_line, hn]
  have hany : c2.errors.any (fun e' => e'.message ==
      (unexpectedErr row { line := some u, lineNo := c2.lineNo + 1 }).message) = false := by
    rw [hc.errors, List.any_eq_false]
    intro e' he'
    simp only [insErrs, List.mem_map] at he'
    obtain ⟨e0, -, rfl⟩ := he'
    rw [beq_iff_eq]
    intro h
    have := ((message_eq_iff _ _).1 h).1
    simp only [mapErr, insertMap_loc] at this
    rw [hline] at this
    exact insertMap_ln_ne k _ this
  rw [hany]
  simp only [Bool.false_eq_true, ↓reduceIte]
  by_cases hl : (c2.errors ++ [unexpectedErr row { line := some u, lineNo := c2.lineNo + 1 }]).length > T.errorCap
  · rw [if_pos hl]
    exact .inr ⟨_, _, rfl, hl⟩
  · rw [if_neg hl]
    refine .inl ⟨_, rfl, ⟨?_, hc.μ, hc.β, hc.ids, ?_, hc.builds, hc.sane, ?_⟩, rfl, by show c2.lineNo + 1 = k + 1; rw [hn]⟩
    · show c2.errors ++ [_] = insertErr k c1.errors.length (skippedError T s k u) c1.errors
      rw [hc.errors, hsk]
      simp [insErrs, insertErr]
    · show c2.unexpected ++ [c2.lineNo + 1] = insertLine k c1.unexpected.length c1.unexpected
      rw [hc.unexpected, hn]
      simp [insUn, insertLine]
    · intro y hy
      cases hy
      exact ⟨Nat.le_refl _, Nat.le_refl _, by rw [hsk]; exact hline⟩

end loop

/-! ### the whole parse -/

theorem TableOkU.of_facts {D : List Dialect} {T : Table} (F : QF D T)
    (hG : (T.rows.all fun r => r.branches.all fun b => b.guard.isNone || b.kind == .TagLine) = true) :
    TableOkU T := by
  refine ⟨fun s row hrow b hb => ?_, fun i la hla => ?_⟩
  · have hmem : row ∈ T.rows := List.mem_of_find?_eq_some hrow
    rw [List.all_eq_true] at hG
    have := hG row hmem
    rw [List.all_eq_true] at this
    have := this b hb
    simp only [Bool.or_eq_true, Option.isNone_iff_eq_none, beq_iff_eq] at this
    exact this
  · rw [(F.la i la hla).1]; exact F.skAll

/-- how the results of the two bodies correspond -/
def BodyRel (k : Nat) (X : Extra) (r1 r2 : Except Abort Doc) : Prop :=
  (∀ d, r1 = .ok d → r2 = .error (.composite [X.e])) ∧
  (∀ es, r1 = .error (.composite es) → r2 = .error (.composite (insertErr k X.je X.e es)))

theorem sim_body {D : List Dialect} {u : Str} {T : Table} (hT : TableOkU T)
    (pre post : List Str) {c1 c2 : Ctx} (hc : CtxU D pre.length none c1 c2)
    (h1 : c1.lines = pre ++ post) (h2 : c2.lines = pre ++ u :: post) (hn1 : c1.lineNo = 0) (hn2 : c2.lineNo = 0)
    (hbar : barrierBefore pre = true) {s : Nat} {cr : Ctx}
    (hrun : ∃ flag, run (parsePrefixPure D T false pre.length 0) { c2 with β := c2.β.startRule T.startRule } =
      (.ok (s, flag), cr))
    (hun : lineUnexpectedAt D T s cr.μ u = true) :
    (∃ r1 r2 c1' c2', run (parseBodyPure D T false (pre ++ post).length) c1 = (r1, c1') ∧
      run (parseBodyPure D T false (pre ++ u :: post).length) c2 = (r2, c2') ∧
      CtxU D pre.length (some ⟨cr.errors.length, cr.unexpected.length, skippedError T s pre.length u⟩) c1' c2' ∧
      BodyRel pre.length ⟨cr.errors.length, cr.unexpected.length, skippedError T s pre.length u⟩ r1 r2) ∨
    (∃ e c2', run (parseBodyPure D T false (pre ++ u :: post).length) c2 = (.error e, c2') ∧
      T.errorCap < c2'.errors.length) := by
  obtain ⟨flag, hrun⟩ := hrun
  unfold parseBodyPure
  rw [prun_bind, prun_bind, run_modify, run_modify]
  simp only []
  rw [prun_bind, prun_bind]
  have hc0 : CtxU D pre.length none { c1 with β := c1.β.startRule T.startRule }
      { c2 with β := c2.β.startRule T.startRule } :=
    ⟨hc.errors, hc.μ, hc.β.startRule _, hc.ids, hc.unexpected, hc.builds, hc.sane, fun y hy => by cases hy⟩
  have e1 : (pre ++ post).length + 2 = pre.length + (post.length + 2) := by simp; omega
  have e2 : (pre ++ u :: post).length + 2 = pre.length + (post.length + 2 + 1) := by simp; omega
  rw [e1, e2, parseLinesPure_split, parseLinesPure_split, prun_bind, prun_bind]
  have hbar' : ∀ l, pre.getLast? = some l → barrierLine l = true := by
    intro l hl
    unfold barrierBefore at hbar
    rw [hl] at hbar
    exact hbar
  rcases sim_prefix (u := u) (cap := T.errorCap) rfl hT false post pre 0 _ _ hc0 h1 h2 (by rw [hn1, hn2])
      (by rw [hn1]; simp) hbar' with
    ⟨a, c1', c2', r1, r2, hc', hflag, hl1, hl2, hno1, hno2⟩ | ⟨e, c1', c2', r1, r2, hc'⟩ | ⟨e, c2', r2, hcp⟩
  · rw [hrun] at r2
    cases r2
    rw [r1, hrun]
    simp only at hflag
    simp only [hflag, Bool.false_eq_true, if_false]
    have hel : cr.errors.length = c1'.errors.length := by rw [hc'.errors]; simp [insErrs]
    have hul : cr.unexpected.length = c1'.unexpected.length := by rw [hc'.unexpected]; simp [insUn]
    rw [hel, hul]
    rcases unexpected_step (D := D) (u := u) (cap := T.errorCap) rfl (post.length + 2) hc' hl2 hno2 hun with
      ⟨c2'', hr, hc'', hl2', hno2'⟩ | ⟨e, c2'', hr, hcp⟩
    · rw [hr]
      rcases sim_rest (u := u) (cap := T.errorCap) rfl hT false _ _ _ c1' c2'' hc'' (by rw [hl2', hl1])
          (by rw [hno2', hno1]) (by rw [hno1]; exact Nat.le_refl _) with
        ⟨a, c1e, c2e, r1, r2, hce, hle⟩ | ⟨e, c1e, c2e, r1, r2, hce⟩ | ⟨e, c2e, r2, hcp⟩
      · rw [r1, r2]
        simp only []
        rw [prun_bind, prun_bind]
        rcases sim_runProd (D := D) (u := u) (k := pre.length) (cap := T.errorCap) (NT := False) false
            (t1 := default) (t2 := default) (.end_ T.startRule) (fun h => by cases h) c1e c2e hce hle with
          ⟨_, _, c1'', c2f, r1', r2', -, hcf, -, -⟩ | ⟨e, c1'', c2f, r1', r2', hcf⟩ | ⟨e, c2f, r2', hcp⟩
        · rw [r1', r2']
          simp only []
          rw [prun_bind, prun_bind, run_get, run_get]
          simp only []
          have hne2 : (!c2f.errors.isEmpty) = true := by
            rw [hcf.errors]; simp [insErrs, insertErr]
          rw [if_pos hne2, prun_bind (m := throw _), prun_throw]
          by_cases he : (!c1''.errors.isEmpty) = true
          · rw [if_pos he, prun_bind, prun_throw]
            refine .inl ⟨_, _, _, _, rfl, rfl, hcf, ?_, ?_⟩
            · intro d hd; cases hd
            · intro es hes
              cases hes
              rw [hcf.errors]; rfl
          · rw [if_neg he]
            have hemp : c1''.errors = [] := by
              cases hce' : c1''.errors with
              | nil => rfl
              | cons a as => rw [hce'] at he; simp at he
            cases hres : c1''.β.result with
            | error e =>
              cases e with
              | crash w => refine .inl ⟨_, _, _, _, rfl, rfl, hcf, ?_, ?_⟩ <;> intro _ h <;> cases h
              | ast e => refine .inl ⟨_, _, _, _, rfl, rfl, hcf, ?_, ?_⟩ <;> intro _ h <;> cases h
            | ok o =>
              cases o with
              | none => refine .inl ⟨_, _, _, _, rfl, rfl, hcf, ?_, ?_⟩ <;> intro _ h <;> cases h
              | some d =>
                refine .inl ⟨_, _, _, _, rfl, rfl, hcf, ?_, ?_⟩
                · intro d' _
                  rw [hcf.errors, hemp]; simp [insErrs, insertErr]
                · intro es h; cases h
        · rw [r1', r2']
          refine .inl ⟨_, _, _, _, rfl, rfl, hcf, ?_, ?_⟩
          · intro d hd; cases hd
          · intro es hes; cases hes; rfl
        · rw [r2']
          exact .inr ⟨_, _, rfl, hcp⟩
      · rw [r1, r2]
        refine .inl ⟨_, _, _, _, rfl, rfl, hce, ?_, ?_⟩
        · intro d hd; cases hd
        · intro es hes; cases hes; rfl
      · rw [r2]
        exact .inr ⟨_, _, rfl, hcp⟩
    · rw [hr]
      exact .inr ⟨_, _, rfl, hcp⟩
  · rw [hrun] at r2; cases r2
  · rw [hrun] at r2; cases r2

end Recover
end GV
