/-
  Lemmas/FormatterSim.lean — the parse with the AST builder against the parse with the
  token-formatter builder (Model/Formatter.lean), in lock step.

  A simulation between the two runs of the same glue from contexts that agree on everything but
  the builder state and the id counter (`Eqv`):
    * either both runs do the same thing (related results, contexts still `Eqv`),
    * or the AST builder has failed in the first run (`Bad`): it crashed, or raised its
      ragged-table error — in stop mode the run then ends with that error, in collecting mode the
      error list from then on contains an error with the builder's message body (`HasB`, an
      invariant of every glue operation: errors only accumulate).
  The structure follows Lemmas/StopFirst.lean.
-/
import GherkinVerif.Lemmas.FormatterGlue
import GherkinVerif.Lemmas.TextErrors
import GherkinVerif.Lemmas.StopFirst
namespace GV
namespace Lemmas
namespace Fmt

/-- the context with another builder state and id counter -/
def wB (c : Ctx) (b : BState) (i : Nat) : Ctx := { c with β := b, ids := i }

/-- same context up to the builder state and the id counter -/
def Eqv (c cF : Ctx) : Prop := ∃ b i, cF = wB c b i

theorem Eqv.ofCtx {c cF : Ctx} (h : Eqv c cF) : CtxF.ofCtx c = CtxF.ofCtx cF := by
  obtain ⟨b, i, rfl⟩ := h; rfl

/-- the error list contains an error with the message body of the builder's error -/
def HasB (c : Ctx) : Prop := ∃ e ∈ c.errors, e.body = RB

/-- an abort caused by the builder: its error (stop mode) or a crash -/
def BadAbort {α} : Except Abort α → Prop
  | .error (.single e) => e.body = RB
  | .error (.crash _) => True
  | _ => False

/-- the AST builder has failed somewhere in this run -/
def Bad {α} (x : Except Abort α × Ctx) : Prop := HasB x.2 ∨ BadAbort x.1

/-- related results: both return (related values) or both abort the same way -/
def Res {α β} (R : α → β → Prop) : Except Abort α → Except Abort β → Prop
  | .ok a, .ok b => R a b
  | .error e, .error e' => e = e'
  | _, _ => False

theorem Res.refl {α} (x : Except Abort α) : Res Eq x x := by
  cases x <;> exact rfl

def Agree {α β} (R : α → β → Prop) (x : Except Abort α × Ctx) (y : Except Abort β × Ctx) : Prop :=
  Res R x.1 y.1 ∧ Eqv x.2 y.2

/-- AST-builder run `mA` from `c` against formatter run `mF` from `cF` -/
def SimAt {α β} (R : α → β → Prop) (c cF : Ctx) (mA : PM α) (mF : PM β) : Prop :=
  Agree R (run mA c) (run mF cF) ∨ Bad (run mA c)

/-! ### once the builder's error is in the list it stays there -/

def KeepsB {α} (m : PM α) : Prop := ∀ c, HasB c → HasB (run m c).2

theorem addError_hasB (cap : Nat) (e : PErr) : Inv HasB (fun _ => HasB) (addError cap e) := by
  refine Triple.intro fun c r c' hc hr => ?_
  obtain ⟨x, hx, hb⟩ := hc
  obtain ⟨-, -, hcase⟩ := addError_spec hr
  have : HasB c' := by
    rcases hcase with ⟨h1, -⟩ | h1
    · exact ⟨x, by rw [h1]; exact hx, hb⟩
    · exact ⟨x, by rw [h1]; exact List.mem_append_left _ hx, hb⟩
  cases r <;> exact this

/-- the builder's error, reported: afterwards the list contains its message body -/
theorem addError_good_hasB (cap : Nat) (e : PErr) (he : e.body = RB) (c : Ctx) :
    HasB (run (addError cap e) c).2 := by
  rcases hr : run (addError cap e) c with ⟨r, c'⟩
  obtain ⟨-, -, hcase⟩ := addError_spec hr
  rcases hcase with ⟨h1, e', he', hm⟩ | h1
  · exact ⟨e', by rw [h1]; exact he', (body_of_message hm).trans he⟩
  · exact ⟨e, by rw [h1]; simp, he⟩

theorem hasB_prims (D : List Dialect) (T : Table) (stop : Bool) : Prims D T stop HasB (fun _ => HasB) := by
  refine Prims.of_errOnly (fun c c' h1 _ h => ?_) (fun _ e' => addError_hasB _ e') (fun _ _ _ h => h)
    (fun _ _ h => h) (fun _ h => h) (fun row t => ?_)
  · obtain ⟨e, he, hb⟩ := h
    exact ⟨e, by rw [h1]; exact he, hb⟩
  · unfold GV.tryBranches
    refine Triple.bind (Q := fun _ => HasB) (Triple.modify _ fun c hc => hc) fun _ => ?_
    cases stop
    · exact Inv.bind (addError_hasB _ _) fun _ => Inv.pure _
    · exact Triple.throw _ fun _ h => h

theorem KeepsB.of_inv {α} {m : PM α} (h : Inv HasB (fun _ => HasB) m) : KeepsB m := by
  intro c hc
  rcases hr : run m c with ⟨r, c'⟩
  cases r with
  | ok a => exact (h c hc).1 _ _ hr
  | error a => exact (h c hc).2 _ _ hr

theorem KeepsB.bind {α β} {m : PM α} {f : α → PM β} (h1 : KeepsB m) (h2 : ∀ a, KeepsB (f a)) :
    KeepsB (m >>= f) := by
  intro c hc
  rw [prun_bind]
  have := h1 c hc
  rcases hr : run m c with ⟨r, c'⟩
  rw [hr] at this
  cases r with
  | ok a => exact h2 a c' this
  | error a => exact this

theorem Bad.bind {α β} {m : PM α} {f : α → PM β} {c : Ctx} (h : Bad (run m c)) (hk : ∀ a, KeepsB (f a)) :
    Bad (run (m >>= f) c) := by
  rw [prun_bind]
  rcases hr : run m c with ⟨r, c'⟩
  rw [hr] at h
  cases r with
  | ok a =>
    rcases h with h | h
    · exact .inl (hk a c' h)
    · exact h.elim
  | error a =>
    dsimp only
    rcases h with h | h
    · exact .inl h
    · cases a <;> exact .inr h

/-! ### the simulation -/

theorem SimAt.bind {α β α' β'} {R1 : α → β → Prop} {R2 : α' → β' → Prop} {mA : PM α} {mF : PM β}
    {fA : α → PM α'} {fF : β → PM β'} {c cF : Ctx} (h1 : SimAt R1 c cF mA mF)
    (h2 : ∀ a b c' cF', R1 a b → Eqv c' cF' → SimAt R2 c' cF' (fA a) (fF b))
    (hk : ∀ a, KeepsB (fA a)) : SimAt R2 c cF (mA >>= fA) (mF >>= fF) := by
  rcases h1 with ⟨hr, he⟩ | hb
  · rcases hA : run mA c with ⟨rA, cA⟩
    rcases hF : run mF cF with ⟨rF, cF'⟩
    rw [hA, hF] at hr
    rw [hA, hF] at he
    unfold SimAt
    rw [prun_bind, prun_bind, hA, hF]
    cases rA with
    | ok a =>
      cases rF with
      | ok b => exact h2 a b cA cF' hr he
      | error e => exact (hr : False).elim
    | error e =>
      cases rF with
      | ok b => exact (hr : False).elim
      | error e' => exact .inl ⟨hr, he⟩
  · exact .inr (hb.bind hk)

structure Sim {α β} (R : α → β → Prop) (mA : PM α) (mF : PM β) : Prop where
  sim : ∀ c cF, Eqv c cF → SimAt R c cF mA mF
  keeps : KeepsB mA

theorem Sim.bind {α β α' β'} {R1 : α → β → Prop} {R2 : α' → β' → Prop} {mA : PM α} {mF : PM β}
    {fA : α → PM α'} {fF : β → PM β'} (h1 : Sim R1 mA mF) (h2 : ∀ a b, R1 a b → Sim R2 (fA a) (fF b))
    (hk : ∀ a, KeepsB (fA a)) : Sim R2 (mA >>= fA) (mF >>= fF) :=
  ⟨fun c cF hc => (h1.sim c cF hc).bind (fun a b c' cF' hab hc' => (h2 a b hab).sim c' cF' hc') hk,
   h1.keeps.bind hk⟩

/-- the usual case: equal intermediate results -/
theorem Sim.bindEq {α α' β'} {R2 : α' → β' → Prop} {mA mF : PM α}
    {fA : α → PM α'} {fF : α → PM β'} (h1 : Sim Eq mA mF) (h2 : ∀ a, Sim R2 (fA a) (fF a)) :
    Sim R2 (mA >>= fA) (mF >>= fF) :=
  h1.bind (fun a b hab => by subst hab; exact h2 a) fun a => (h2 a).keeps

theorem Sim.pure {α β} {R : α → β → Prop} {a : α} {b : β} (h : R a b) : Sim R (pure a : PM α) (pure b : PM β) :=
  ⟨fun _ _ hc => .inl ⟨h, hc⟩, fun _ hc => hc⟩

theorem Sim.throw {α β} {R : α → β → Prop} (e : Abort) : Sim R (throw e : PM α) (throw e : PM β) :=
  ⟨fun _ _ hc => .inl ⟨rfl, hc⟩, fun _ hc => hc⟩

theorem Sim.get : Sim Eqv (get : PM Ctx) get :=
  ⟨fun _ _ hc => .inl ⟨hc, hc⟩, fun _ hc => hc⟩

theorem Sim.modify (f : Ctx → Ctx) (hf : ∀ c b i, f (wB c b i) = wB (f c) b i) (he : ∀ c, (f c).errors = c.errors) :
    Sim Eq (modify f : PM PUnit) (modify f) := by
  refine ⟨fun c cF hc => .inl ⟨rfl, ?_⟩, fun c hc => ?_⟩
  · obtain ⟨b, i, rfl⟩ := hc
    exact ⟨b, i, hf c b i⟩
  · obtain ⟨e, h1, h2⟩ := hc
    exact ⟨e, by rw [run_modify]; dsimp only; rw [he]; exact h1, h2⟩

/-- an operation that neither reads nor writes the builder state and the id counter -/
def Frame {α} (m : PM α) : Prop := ∀ c b i, run m (wB c b i) = ((run m c).1, wB (run m c).2 b i)

theorem Sim.of_frame {α} {m : PM α} (h : Frame m) (hk : KeepsB m) : Sim Eq m m := by
  refine ⟨fun c cF hc => .inl ?_, hk⟩
  obtain ⟨b, i, rfl⟩ := hc
  rw [h]
  exact ⟨Res.refl _, b, i, rfl⟩

theorem readToken_frame : Frame readToken := by
  intro c b i
  rw [run_readToken, run_readToken]
  simp only [wB]
  cases c.queue with
  | cons t q => rfl
  | nil => cases c.lines <;> rfl

theorem addError_frame (cap : Nat) (e : PErr) : Frame (addError cap e) := by
  intro c b i
  rw [run_addError, run_addError]
  by_cases h1 : (c.errors.any fun e' => e'.message == e.message) = true
  · have h1' : ((wB c b i).errors.any fun e' => e'.message == e.message) = true := h1
    rw [if_pos h1, if_pos h1']
  · have h1' : ¬ ((wB c b i).errors.any fun e' => e'.message == e.message) = true := h1
    rw [if_neg h1, if_neg h1']
    by_cases h2 : (c.errors ++ [e]).length > cap
    · have h2' : ((wB c b i).errors ++ [e]).length > cap := h2
      rw [if_pos h2, if_pos h2']; rfl
    · have h2' : ¬ ((wB c b i).errors ++ [e]).length > cap := h2
      rw [if_neg h2, if_neg h2']; rfl

theorem matchP_frame_aux (cap : Nat) (e : PErr) (c1 : Ctx) (b : BState) (i : Nat) (tok : Token) :
    (match run (addError cap e) (wB c1 b i) with
      | (.ok _, c2) => ((.ok (false, tok) : Except Abort (Bool × Token)), c2)
      | (.error e, c2) => (.error e, c2)) =
    ((match run (addError cap e) c1 with
      | (.ok _, c2) => ((.ok (false, tok) : Except Abort (Bool × Token)), c2)
      | (.error e, c2) => (.error e, c2)).1,
     wB (match run (addError cap e) c1 with
      | (.ok _, c2) => ((.ok (false, tok) : Except Abort (Bool × Token)), c2)
      | (.error e, c2) => (.error e, c2)).2 b i) := by
  rw [addError_frame]
  rcases run (addError cap e) c1 with ⟨r2, c2⟩
  cases r2 <;> rfl

theorem matchP_frame (D : List Dialect) (cap : Nat) (stop : Bool) (k : Kind) (t : Token) :
    Frame (matchP D cap stop k t) := by
  intro c b i
  rw [run_matchP, run_matchP]
  dsimp only [wB]
  cases (matchTok D k c.μ t).1.res with
  | matched => rfl
  | no => rfl
  | raised e =>
    cases stop
    · exact matchP_frame_aux cap e
        { c with μ := (matchTok D k c.μ t).1.μ,
                 calls := c.calls + (if (matchTok D k c.μ t).2 then 1 else 0) } b i _
    · rfl

theorem Sim.readToken : Sim Eq readToken readToken :=
  Sim.of_frame readToken_frame (KeepsB.of_inv (hasB_prims [] default false).readToken)

section glue
variable (D : List Dialect) (T : Table) (stop : Bool)

theorem matchP_simF (k : Kind) (t : Token) :
    Sim Eq (matchP D T.errorCap stop k t) (matchP D T.errorCap stop k t) :=
  Sim.of_frame (matchP_frame D _ stop k t) (KeepsB.of_inv ((hasB_prims D T stop).matchP k t))

theorem addError_simF (e : PErr) : Sim Eq (addError T.errorCap e) (addError T.errorCap e) :=
  Sim.of_frame (addError_frame _ e) (KeepsB.of_inv (addError_hasB _ e))

/-- one production: the AST builder's operation against the formatter's -/
theorem runProd_simF (t : Token) (p : Prod) :
    Sim Eq (runProd T.errorCap stop t p) (runProdG fmtBuilder t p) := by
  refine ⟨fun c cF hc => ?_, KeepsB.of_inv ((hasB_prims [] T stop).runProd t p)⟩
  unfold SimAt
  rw [run_runProd]
  cases p with
  | start r =>
    obtain ⟨b, i, rfl⟩ := hc
    exact .inl ⟨rfl, _, _, rfl⟩
  | end_ r =>
    dsimp only
    rw [run_liftB]
    cases hr : (c.β.endRule c.ids).1 with
    | ok u =>
      obtain ⟨b, i, rfl⟩ := hc
      exact .inl ⟨rfl, _, _, rfl⟩
    | error e =>
      cases e with
      | crash w => exact .inr (.inr True.intro)
      | ast e =>
        have hg := (endRule_good _ _ _ hr).2
        dsimp only
        cases stop
        · exact .inr (.inl (addError_good_hasB _ e hg _))
        · exact .inr (.inr hg)
  | build =>
    dsimp only
    cases hb : c.β.build t with
    | ok β' =>
      obtain ⟨b, i, rfl⟩ := hc
      exact .inl ⟨rfl, _, _, rfl⟩
    | error e =>
      obtain ⟨w, rfl⟩ := build_error _ _ _ hb
      dsimp only
      rw [run_liftB]
      exact .inr (.inr True.intro)

theorem runProds_simF (t : Token) (ps : List Prod) :
    Sim Eq (runProds T.errorCap stop t ps) (runProdsG fmtBuilder t ps) := by
  induction ps with
  | nil => exact Sim.pure rfl
  | cons p ps ih => exact Sim.bindEq (runProd_simF T stop t p) fun _ => ih

theorem tail_simF (row : StateRow) (t : Token) :
    Sim Eq (tryBranches D T stop row [] t) (tryBranchesG fmtBuilder D T stop row [] t) := by
  rw [tryBranchesG_nil]
  unfold GV.tryBranches
  refine Sim.bindEq (Sim.modify _ (fun _ _ _ => rfl) fun _ => rfl) fun _ => ?_
  cases stop
  · exact Sim.bindEq (addError_simF T _) fun _ => Sim.pure rfl
  · exact Sim.throw _

theorem matchAny_simF (ks : List Kind) (t : Token) :
    Sim Eq (matchAny D T.errorCap stop ks t) (matchAny D T.errorCap stop ks t) := by
  induction ks generalizing t with
  | nil => exact Sim.pure rfl
  | cons k ks ih =>
    unfold GV.matchAny
    refine Sim.bindEq (matchP_simF D T stop k t) fun r => ?_
    obtain ⟨m, t'⟩ := r
    cases m
    · exact ih _
    · exact Sim.pure rfl

theorem lookaheadLoop_simF (la : LookAhead) (fuel : Nat) (acc : List Token) :
    Sim Eq (lookaheadLoop D T.errorCap stop la fuel acc) (lookaheadLoop D T.errorCap stop la fuel acc) := by
  induction fuel generalizing acc with
  | zero => exact Sim.throw _
  | succ n ih =>
    unfold GV.lookaheadLoop
    refine Sim.bindEq Sim.readToken fun t => Sim.bindEq (matchAny_simF D T stop _ _) fun r => ?_
    obtain ⟨m, t1⟩ := r
    cases m
    · refine Sim.bindEq (matchAny_simF D T stop _ _) fun r => ?_
      obtain ⟨s, t2⟩ := r
      cases s
      · exact Sim.pure rfl
      · exact ih _
    · exact Sim.pure rfl

theorem lookahead_simF (la : LookAhead) :
    Sim Eq (lookahead D T.errorCap stop la) (lookahead D T.errorCap stop la) := by
  unfold GV.lookahead
  refine Sim.bind Sim.get (fun a b hab => ?_) fun a => ?_
  · obtain ⟨b', i, rfl⟩ := hab
    refine Sim.bindEq (lookaheadLoop_simF D T stop la _ _) fun r => ?_
    obtain ⟨m, read⟩ := r
    exact Sim.bindEq (Sim.modify _ (fun _ _ _ => rfl) fun _ => rfl) fun _ => Sim.pure rfl
  · refine KeepsB.bind (lookaheadLoop_simF D T stop la _ _).keeps fun r => ?_
    obtain ⟨m, read⟩ := r
    exact KeepsB.bind (Sim.modify _ (fun _ _ _ => rfl) fun _ => rfl).keeps fun _ _ h => h

theorem tryBranches_simF (row : StateRow) (bs : List Branch) (t : Token) :
    Sim Eq (tryBranches D T stop row bs t) (tryBranchesG fmtBuilder D T stop row bs t) := by
  induction bs generalizing t with
  | nil => exact tail_simF D T stop row t
  | cons b bs ih =>
    rw [GV.tryBranches, GV.tryBranchesG]
    refine Sim.bindEq (matchP_simF D T stop _ _) fun r => ?_
    obtain ⟨m, t'⟩ := r
    dsimp only
    cases m
    · exact ih _
    · simp only [if_true]
      have cont : ∀ ok : Bool, Sim Eq
          (if ok = true then do
            GV.runProds T.errorCap stop t' b.prods
            pure b.target
          else GV.tryBranches D T stop row bs t')
          (if ok = true then do
            GV.runProdsG fmtBuilder t' b.prods
            pure b.target
          else GV.tryBranchesG fmtBuilder D T stop row bs t') := by
        intro ok
        cases ok
        · exact ih _
        · exact Sim.bindEq (runProds_simF T stop _ _) fun _ => Sim.pure rfl
      cases b.guard with
      | none => exact Sim.bindEq (Sim.pure rfl) cont
      | some i =>
        dsimp only
        cases T.lookaheads[i]? with
        | some la => exact Sim.bindEq (lookahead_simF D T stop la) cont
        | none => exact Sim.bindEq (Sim.throw _) cont

theorem matchToken_simF (state : Nat) (t : Token) :
    Sim Eq (matchToken D T stop state t) (matchTokenG fmtBuilder D T stop state t) := by
  unfold GV.matchToken GV.matchTokenG
  cases T.row? state with
  | some row => exact tryBranches_simF D T stop row _ t
  | none => exact Sim.throw _

theorem parseLoop_simF (fuel state : Nat) :
    Sim Eq (parseLoop D T stop fuel state) (parseLoopG fmtBuilder D T stop fuel state) := by
  induction fuel generalizing state with
  | zero => exact Sim.throw _
  | succ n ih =>
    rw [GV.parseLoop, GV.parseLoopG]
    refine Sim.bindEq Sim.readToken fun t => Sim.bindEq (Sim.modify _ (fun _ _ _ => rfl) fun _ => rfl) fun _ =>
      Sim.bindEq (matchToken_simF D T stop _ _) fun s => ?_
    cases t.eof
    · exact ih _
    · exact Sim.pure rfl

/-- whole bodies; the results (a document, a listing) are unrelated -/
theorem parseBody_simF (n : Nat) :
    Sim (fun _ _ => True) (parseBody D T stop n) (parseBodyG fmtBuilder D T stop n) := by
  unfold GV.parseBody GV.parseBodyG
  have hstart : Sim Eq (modify fun c => { c with β := c.β.startRule T.startRule } : PM PUnit)
      (fmtBuilder.startRule T.startRule) := by
    refine ⟨fun c cF hc => .inl ⟨rfl, ?_⟩, fun c hc => hc⟩
    obtain ⟨b, i, rfl⟩ := hc
    exact ⟨_, _, rfl⟩
  refine Sim.bindEq hstart fun _ => Sim.bindEq (parseLoop_simF D T stop _ _) fun _ =>
    Sim.bindEq (runProd_simF T stop default (.end_ T.startRule)) fun _ => ?_
  have hk : ∀ a : Ctx, KeepsB (do
      if !a.errors.isEmpty then throw (.composite a.errors)
      match a.β.result with
      | .ok (some d) => pure d
      | .ok none => throw (.crash "get_result returned None")
      | .error (.crash w) => throw (.crash w)
      | .error (.ast e) => throw (.single e) : PM Doc) := by
    intro a c hc
    dsimp only
    by_cases he : (!a.errors.isEmpty) = true
    · rw [if_pos he, prun_bind, prun_throw]; exact hc
    · rw [if_neg he]
      split <;> exact hc
  refine Sim.bind Sim.get (fun a b hab => ⟨fun c cF hc => ?_, hk a⟩) hk
  obtain ⟨b', i, rfl⟩ := hab
  unfold SimAt
  dsimp only
  by_cases he : (!a.errors.isEmpty) = true
  · have he' : (!(wB a b' i).errors.isEmpty) = true := he
    rw [if_pos he, if_pos he', prun_bind, prun_throw, prun_bind, prun_throw]
    exact .inl ⟨rfl, hc⟩
  · have he' : ¬ (!(wB a b' i).errors.isEmpty) = true := he
    rw [if_neg he, if_neg he']
    split
    · exact .inl ⟨True.intro, hc⟩
    · exact .inr (.inr True.intro)
    · exact .inr (.inr True.intro)
    · rename_i e hres
      exact absurd hres (result_not_ast _ _)

end glue

/-! ### whole parses -/

/-- same class of outcome: both accept, or both reject with the same errors in the same way, or
    both crash the same way -/
def SameClass : Outcome → OutcomeF → Prop
  | .ok _, .ok _ => True
  | .rejected es comp, .rejected es' comp' => es = es' ∧ comp = comp'
  | .crash w, .crash w' => w = w'
  | .fuel, .fuel => True
  | _, _ => False

/-- the AST builder has failed in a run with this outcome and final context: a crash, its error in
    the final error list, or (stop mode) its error as the outcome -/
def BuilderFailed (o : Outcome) (c : Ctx) : Prop :=
  (∃ w, o = .crash w) ∨ (∃ e ∈ c.errors, e.body = RB) ∨ (∃ e, o = .rejected [e] false ∧ e.body = RB)

theorem parse_lockstep (D : List Dialect) (T : Table) (stop : Bool) (μ : MState) (ids : Nat) (src : Str) :
    (SameClass (parseWith D T stop μ ids src).1 (parseWithF D T stop μ src).1 ∧
      CtxF.ofCtx (parseWith D T stop μ ids src).2 = (parseWithF D T stop μ src).2) ∨
    BuilderFailed (parseWith D T stop μ ids src).1 (parseWith D T stop μ ids src).2 := by
  have hsim := (parseBody_simF D T stop (splitLines src).length).sim (ctx0 D μ ids src) (ctx0F D μ src)
    ⟨{}, 0, rfl⟩
  rw [parseWith_eq, parseWithF_eq]
  rcases hA : run (parseBody D T stop (splitLines src).length) (ctx0 D μ ids src) with ⟨rA, cA⟩
  rcases hF : run (parseBodyG fmtBuilder D T stop (splitLines src).length) (ctx0F D μ src) with ⟨rF, cF⟩
  unfold SimAt at hsim
  rw [hA, hF] at hsim
  rcases hsim with ⟨hr, he⟩ | hb
  · refine .inl ?_
    cases rA with
    | ok d =>
      cases rF with
      | ok s => exact ⟨True.intro, he.ofCtx⟩
      | error e => exact (hr : False).elim
    | error e =>
      cases rF with
      | ok s => exact (hr : False).elim
      | error e' =>
        have : e = e' := hr
        subst this
        cases e <;> exact ⟨by first | exact ⟨rfl, rfl⟩ | exact rfl | exact True.intro, he.ofCtx⟩
  · refine .inr ?_
    rcases hb with hb | hb
    · refine .inr (.inl ?_)
      cases rA with
      | ok d => exact hb
      | error e => cases e <;> exact hb
    · cases rA with
      | ok d => exact (hb : False).elim
      | error e =>
        cases e with
        | single e => exact .inr (.inr ⟨e, rfl, hb⟩)
        | composite es => exact (hb : False).elim
        | crash w => exact .inl ⟨w, rfl⟩
        | fuel => exact (hb : False).elim

/-- what the AST-builder parse accepts the formatter parse accepts, with the same final context
    (tokens built, lines read, matcher state, calls) -/
theorem accepted_same_tokens (D : List Dialect) (T : Table) (stop : Bool) (μ : MState) (ids : Nat) (src : Str)
    (d : Doc) (h : (parseWith D T stop μ ids src).1 = .ok d) :
    (∃ s, (parseWithF D T stop μ src).1 = .ok s) ∧
    (parseWithF D T stop μ src).2 = CtxF.ofCtx (parseWith D T stop μ ids src).2 := by
  have herr : (parseWith D T stop μ ids src).2.errors = [] := by
    rw [parseWith_eq] at h ⊢
    rcases hA : run (parseBody D T stop (splitLines src).length) (ctx0 D μ ids src) with ⟨rA, cA⟩
    rw [hA] at h
    cases rA with
    | ok d' => exact parseBody_ok_errors D T stop μ ids src d' cA hA
    | error e => cases e <;> cases h
  rcases parse_lockstep D T stop μ ids src with ⟨hc, hctx⟩ | ⟨w, hw⟩ | ⟨e, he, -⟩ | ⟨e, he, -⟩
  · refine ⟨?_, hctx.symm⟩
    rw [h] at hc
    cases hF : (parseWithF D T stop μ src).1 with
    | ok s => exact ⟨s, rfl⟩
    | rejected es comp => rw [hF] at hc; exact (hc : False).elim
    | crash w => rw [hF] at hc; exact (hc : False).elim
    | fuel => rw [hF] at hc; exact (hc : False).elim
  · rw [h] at hw; cases hw
  · rw [herr] at he; cases he
  · rw [h] at he; cases he

end Fmt
end Lemmas
end GV
