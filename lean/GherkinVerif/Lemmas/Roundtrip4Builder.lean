/-
  Lemmas/Roundtrip4Builder.lean — round trip, fourth model: the builder on examples blocks and on a
  scenario with examples.
-/
import GherkinVerif.Spec.Render4
import GherkinVerif.Lemmas.Roundtrip3Doc
set_option linter.unusedSectionVars false
set_option linter.unusedSimpArgs false
set_option linter.unusedVariables false
namespace GV
namespace Lemmas
open Spec

/-- a finished examples table -/
theorem endRule_extable (t0 : Token) (ts : List Token) (hrect : ∀ t ∈ ts, t.items.length = t0.items.length)
    (rt : RuleType) (items : List (Key × Val)) (rest : List Node) (cm : List Comment) (i : Nat) :
    (⟨⟨.ExamplesTable, rowItems (t0 :: ts)⟩ :: ⟨rt, items⟩ :: rest, cm⟩ : BState).endRule i =
      (.ok (), ⟨⟨rt, items ++ [(.rule .ExamplesTable, .rows (numberRows (t0 :: ts) i))]⟩ :: rest, cm⟩,
        i + (t0 :: ts).length) := by
  have h : (transformNode cm ⟨.ExamplesTable, rowItems (t0 :: ts)⟩).run.run i =
      (.ok (.rows (numberRows (t0 :: ts) i)), i + (t0 :: ts).length) := by
    simp only [transformNode, run_bind, run_getTableRows, getTokens_rowItems,
      raggedRow_numberRows_none t0 ts i hrect]
    rfl
  simp only [BState.endRule, h]
  rfl

theorem endRule_raw_examples (its : List (Key × Val)) (rt : RuleType) (items : List (Key × Val))
    (rest : List Node) (cm : List Comment) (i : Nat) :
    (⟨⟨.Examples, its⟩ :: ⟨rt, items⟩ :: rest, cm⟩ : BState).endRule i =
      (.ok (), ⟨⟨rt, items ++ [(.rule .Examples, .raw .Examples its)]⟩ :: rest, cm⟩, i) := rfl

/-- the `ExamplesTable` item of an `Examples` node: absent without a table -/
def tbItem (R : List Row) : List (Key × Val) := if R.isEmpty then [] else [(.rule .ExamplesTable, .rows R)]

def mkEx (n m i : Nat) (tags : List Str) (kwd nm : Str) (R : List Row) : Examples :=
  { id := i + tags.length, tags := expTags n i tags, loc := ⟨m, some 1⟩, keyword := kwd, name := nm, description := [], header := R.head?, body := R.drop 1 }

/-- the value of a finished `ExamplesDefinition` node -/
theorem transform_exdef (cm : List Comment) (μ : MState) (n m : Nat) (tags : List Str) (kwd nm : Str)
    (tk : Token) (hk : tk.keyword = some kwd) (ht : tk.text = some nm) (hloc : tk.loc = ⟨m, some 1⟩)
    (R : List Row) (i : Nat) :
    (transformNode cm ⟨.ExamplesDefinition, tagsItem μ n tags ++ [(.rule .Examples, .raw .Examples
        ((.tok .ExamplesLine, .tok tk) :: tbItem R))]⟩).run.run i =
      (.ok (Val.examples (mkEx n m i tags kwd nm R)), i + tags.length + 1) := by
  have hsingle : getSingle (tagsItem μ n tags ++ [(Key.rule .Examples, Val.raw .Examples
        ((.tok .ExamplesLine, .tok tk) :: tbItem R))]) (.rule .Examples) =
      Val.raw .Examples ((.tok .ExamplesLine, .tok tk) :: tbItem R) := by
    simp only [getSingle, getItems_append, getItems_tagsItem μ n tags (.rule .Examples) (by decide)]
    rfl
  have hdesc : (getDescription ((Key.tok .ExamplesLine, Val.tok tk) :: tbItem R)).run.run
      (i + tags.length) = (.ok [], i + tags.length) := by
    apply run_getDescription_some
    unfold descOf
    cases hR : R.isEmpty <;> simp [tbItem, hR, getItems]
  have htags := getTags_tagsItem μ n i tags [(Key.rule .Examples, Val.raw .Examples
        ((.tok .ExamplesLine, .tok tk) :: tbItem R))] rfl
  have htok := run_needToken_tok ((Key.tok .ExamplesLine, Val.tok tk) :: tbItem R) .ExamplesLine tk
    (i + tags.length) rfl
  simp only [transformNode, run_bind, htags, hsingle, htok, hdesc, run_nextId,
    hk, ht, run_need_some, run_pure, getLocation, hloc, mkEx]
  cases hR : R.isEmpty
  · simp [tbItem, hR, getSingle, getItems]
  · have : R = [] := List.isEmpty_iff.1 hR
    subst this
    simp [tbItem, getSingle, getItems]

theorem endRule_exdef (cm : List Comment) (μ : MState) (n m : Nat) (tags : List Str) (kwd nm : Str)
    (R : List Row) (rt : RuleType) (items : List (Key × Val)) (rest : List Node) (i : Nat) :
    (⟨⟨.ExamplesDefinition, tagsItem μ n tags ++ [(.rule .Examples, .raw .Examples
        ((.tok .ExamplesLine, .tok (titleTok μ m .ExamplesLine kwd nm)) :: tbItem R))]⟩ ::
          ⟨rt, items⟩ :: rest, cm⟩ : BState).endRule i =
      (.ok (), ⟨⟨rt, items ++ [(.rule .ExamplesDefinition, Val.examples (mkEx n m i tags kwd nm R))]⟩ :: rest, cm⟩,
        i + tags.length + 1) := by
  have h := transform_exdef cm μ n m tags kwd nm (titleTok μ m .ExamplesLine kwd nm) rfl rfl rfl R i
  simp only [BState.endRule, h]
  rfl

def exItems (E : List Examples) : List (Key × Val) := E.map fun e => (Key.rule .ExamplesDefinition, Val.examples e)

theorem exItems_snoc (E : List Examples) (e : Examples) :
    exItems E ++ [(Key.rule .ExamplesDefinition, Val.examples e)] = exItems (E ++ [e]) := by simp [exItems]

def mkSc4 (n m i : Nat) (tags : List Str) (kwd nm : Str) (L : List Step) (E : List Examples) : Scenario :=
  { id := i + tags.length, tags := expTags n i tags, loc := ⟨m, some 1⟩, keyword := kwd, name := nm, description := [], steps := L, examples := E }

theorem getItems_sc4 (hd : Key × Val) (L : List Step) (E : List Examples) (k : Key) :
    getItems (hd :: (stepItems L ++ exItems E)) k = getItems [hd] k ++ getItems (stepItems L) k ++ getItems (exItems E) k := by
  have := getItems_append [hd] (stepItems L ++ exItems E) k
  simp only [List.singleton_append] at this
  rw [this, getItems_append, List.append_assoc]

theorem getItems_exItems_ne (E : List Examples) (k : Key) (hk : (Key.rule .ExamplesDefinition == k) = false) :
    getItems (exItems E) k = [] := getItems_map_ne k _ _ E hk

/-- the value of a finished `ScenarioDefinition` node whose scenario has examples -/
theorem transform_scdef4 (cm : List Comment) (μ : MState) (n m : Nat) (tags : List Str) (kwd nm : Str)
    (tk : Token) (hk : tk.keyword = some kwd) (ht : tk.text = some nm) (hloc : tk.loc = ⟨m, some 1⟩)
    (L : List Step) (E : List Examples) (i : Nat) :
    (transformNode cm ⟨.ScenarioDefinition, tagsItem μ n tags ++ [(.rule .Scenario, .raw .Scenario
        ((.tok .ScenarioLine, .tok tk) :: (stepItems L ++ exItems E)))]⟩).run.run i =
      (.ok (Val.scenario (mkSc4 n m i tags kwd nm L E)), i + tags.length + 1) := by
  have hsingle : getSingle (tagsItem μ n tags ++ [(Key.rule .Scenario, Val.raw .Scenario
        ((.tok .ScenarioLine, .tok tk) :: (stepItems L ++ exItems E)))]) (.rule .Scenario) =
      Val.raw .Scenario ((.tok .ScenarioLine, .tok tk) :: (stepItems L ++ exItems E)) := by
    simp only [getSingle, getItems_append, getItems_tagsItem μ n tags (.rule .Scenario) (by decide)]
    rfl
  have hdesc : (getDescription ((Key.tok .ScenarioLine, Val.tok tk) :: (stepItems L ++ exItems E))).run.run
      (i + tags.length) = (.ok [], i + tags.length) := by
    apply run_getDescription_some
    unfold descOf
    rw [getItems_sc4, getItems_stepItems_ne L _ (by decide), getItems_exItems_ne E _ (by decide)]
    rfl
  have hsteps : getSteps ((Key.tok .ScenarioLine, Val.tok tk) :: (stepItems L ++ exItems E)) = L := by
    unfold getSteps
    have hitems : getItems ((Key.tok .ScenarioLine, Val.tok tk) :: (stepItems L ++ exItems E)) (.rule .Step) =
        L.map Val.step := by
      rw [getItems_sc4, getItems_exItems_ne E _ (by decide), stepItems, getItems_map_eq]
      simp [getItems]
    rw [hitems]
    clear hitems hdesc hsingle
    induction L with
    | nil => rfl
    | cons a L ih => simpa using ih
  have hitemsE : getItems ((Key.tok .ScenarioLine, Val.tok tk) :: (stepItems L ++ exItems E))
      (.rule .ExamplesDefinition) = E.map Val.examples := by
    rw [getItems_sc4, getItems_stepItems_ne L _ (by decide), exItems, getItems_map_eq]
    simp [getItems]
  have hfm : ∀ f : Val → Option Examples, (∀ e, f (Val.examples e) = some e) →
      List.filterMap f (E.map Val.examples) = E := by
    intro f hf
    clear hitemsE hsteps hdesc hsingle
    induction E with
    | nil => rfl
    | cons a E ih => simp [hf, ih]
  have htags := getTags_tagsItem μ n i tags [(Key.rule .Scenario, Val.raw .Scenario
        ((.tok .ScenarioLine, .tok tk) :: (stepItems L ++ exItems E)))] rfl
  have htok := run_needToken_tok ((Key.tok .ScenarioLine, Val.tok tk) :: (stepItems L ++ exItems E)) .ScenarioLine tk
    (i + tags.length) rfl
  simp only [transformNode, run_bind, htags, hsingle, htok, hdesc, hitemsE, hsteps, run_nextId,
    hk, ht, run_need_some, run_pure, getLocation, hloc, mkSc4]
  rw [hfm]
  intro e
  rfl

theorem endRule_scdef4 (cm : List Comment) (μ : MState) (n m : Nat) (tags : List Str) (kwd nm : Str)
    (L : List Step) (E : List Examples) (rt : RuleType) (items : List (Key × Val)) (rest : List Node) (i : Nat) :
    (⟨⟨.ScenarioDefinition, tagsItem μ n tags ++ [(.rule .Scenario, .raw .Scenario
        ((.tok .ScenarioLine, .tok (titleTok μ m .ScenarioLine kwd nm)) :: (stepItems L ++ exItems E)))]⟩ ::
          ⟨rt, items⟩ :: rest, cm⟩ : BState).endRule i =
      (.ok (), ⟨⟨rt, items ++ [(.rule .ScenarioDefinition, Val.scenario (mkSc4 n m i tags kwd nm L E))]⟩ :: rest, cm⟩,
        i + tags.length + 1) := by
  have h := transform_scdef4 cm μ n m tags kwd nm (titleTok μ m .ScenarioLine kwd nm) rfl rfl rfl L E i
  simp only [BState.endRule, h]
  rfl

end Lemmas
end GV
