/-
  Lemmas/LayoutBuilder.lean — the AST builder never reads the physical line of a token.

  `ValSame` / `ItemsSame` / `BSame` relate builder values, node contents and builder states that
  agree on everything except the `line` field of the tokens stored in them (`TokSame`,
  Lemmas/Layout.lean).  Every builder operation (`start_rule`, `build`, `end_rule` with all of
  `transform_node`, `get_result`) takes related states to related states and produces EQUAL
  documents, errors and id counters.  Used by Lemmas/LayoutDoc.lean (property C16, whole parse).
-/
import GherkinVerif.Lemmas.Layout
import GherkinVerif.Lemmas.Builder
namespace GV
namespace Lemmas

/-! ### the relation -/

/-- two lists related element by element -/
inductive All2 {α β} (R : α → β → Prop) : List α → List β → Prop
  | nil : All2 R [] []
  | cons {a b as bs} (h : R a b) (t : All2 R as bs) : All2 R (a :: as) (b :: bs)

theorem All2.length_eq {α β} {R : α → β → Prop} {as : List α} {bs : List β} (h : All2 R as bs) :
    as.length = bs.length := by
  induction h with
  | nil => rfl
  | cons _ _ ih => simp [ih]

theorem All2.append {α β} {R : α → β → Prop} {as as' : List α} {bs bs' : List β}
    (h : All2 R as bs) (h' : All2 R as' bs') : All2 R (as ++ as') (bs ++ bs') := by
  induction h with
  | nil => exact h'
  | cons hab _ ih => exact .cons hab ih

theorem All2.refl {α} {R : α → α → Prop} (hR : ∀ a, R a a) : ∀ as : List α, All2 R as as
  | [] => .nil
  | a :: as => .cons (hR a) (All2.refl hR as)

mutual
/-- two builder values agree up to the physical lines carried by the tokens inside them -/
inductive ValSame : Val → Val → Prop
  | refl (v : Val) : ValSame v v
  | tok {a b : Token} (h : TokSame a b) : ValSame (.tok a) (.tok b)
  | raw (rt : RuleType) {xs ys : List (Key × Val)} (h : ItemsSame xs ys) : ValSame (.raw rt xs) (.raw rt ys)
/-- two item lists of a node: same keys in the same order, values related -/
inductive ItemsSame : List (Key × Val) → List (Key × Val) → Prop
  | nil : ItemsSame [] []
  | cons (k : Key) {v w : Val} {xs ys : List (Key × Val)} (h : ValSame v w) (t : ItemsSame xs ys) :
      ItemsSame ((k, v) :: xs) ((k, w) :: ys)
end

theorem ItemsSame.refl : ∀ xs : List (Key × Val), ItemsSame xs xs
  | [] => .nil
  | (k, v) :: xs => .cons k (.refl v) (ItemsSame.refl xs)

theorem ItemsSame.append {xs ys xs' ys' : List (Key × Val)} (h : ItemsSame xs ys) (h' : ItemsSame xs' ys') :
    ItemsSame (xs ++ xs') (ys ++ ys') := by
  induction xs generalizing ys with
  | nil => cases h; exact h'
  | cons x xs ih =>
    cases h with
    | cons k hv ht => exact .cons k hv (ih ht)

theorem TokSame.lineNo_eq {a b : Token} (h : TokSame a b) : a.lineNo = b.lineNo := h.1
theorem TokSame.col_eq {a b : Token} (h : TokSame a b) : a.col = b.col := h.2.1
theorem TokSame.mtype_eq {a b : Token} (h : TokSame a b) : a.mtype = b.mtype := h.2.2.1
theorem TokSame.text_eq {a b : Token} (h : TokSame a b) : a.text = b.text := h.2.2.2.1
theorem TokSame.keyword_eq {a b : Token} (h : TokSame a b) : a.keyword = b.keyword := h.2.2.2.2.1
theorem TokSame.ktype_eq {a b : Token} (h : TokSame a b) : a.ktype = b.ktype := h.2.2.2.2.2.1
theorem TokSame.indent_eq {a b : Token} (h : TokSame a b) : a.indent = b.indent := h.2.2.2.2.2.2.1
theorem TokSame.items_eq {a b : Token} (h : TokSame a b) : a.items = b.items := h.2.2.2.2.2.2.2.1
theorem TokSame.dialect_eq {a b : Token} (h : TokSame a b) : a.dialect = b.dialect := h.2.2.2.2.2.2.2.2

theorem TokSame.loc_eq {a b : Token} (h : TokSame a b) : a.loc = b.loc := by
  unfold Token.loc; rw [h.lineNo_eq, h.col_eq]

theorem TokSame.getLocation_eq {a b : Token} (h : TokSame a b) (c : Option Nat) :
    getLocation a c = getLocation b c := by
  unfold getLocation; rw [h.loc_eq, h.lineNo_eq]

theorem TokSame.getCells_eq {a b : Token} (h : TokSame a b) : getCells a = getCells b := by
  unfold getCells; rw [h.items_eq]; simp only [h.getLocation_eq]

/-! ### reading a node's items -/

theorem getItems_same {xs ys : List (Key × Val)} (h : ItemsSame xs ys) (k : Key) :
    All2 ValSame (getItems xs k) (getItems ys k) := by
  induction xs generalizing ys with
  | nil => cases h; exact .nil
  | cons x xs ih =>
    cases h with
    | cons k' hv ht =>
      unfold getItems
      simp only [List.filter_cons]
      by_cases hk : (k' == k) = true
      · simp only [hk, ↓reduceIte, List.map_cons]
        exact .cons hv (ih ht)
      · simp only [hk, Bool.false_eq_true, ↓reduceIte]
        exact ih ht

theorem getSingle_same {xs ys : List (Key × Val)} (h : ItemsSame xs ys) (k : Key) :
    ValSame (getSingle xs k) (getSingle ys k) := by
  unfold getSingle
  have := getItems_same h k
  revert this
  generalize getItems xs k = vs
  generalize getItems ys k = ws
  intro hvw
  cases hvw with
  | nil => exact .refl _
  | cons hv _ => exact hv

theorem filterMap_same {α} {f : Val → Option α} (hf : ∀ v w, ValSame v w → f v = f w) {vs ws : List Val}
    (h : All2 ValSame vs ws) : vs.filterMap f = ws.filterMap f := by
  induction h with
  | nil => rfl
  | cons hv _ ih => simp only [List.filterMap_cons, hf _ _ hv, ih]

theorem getTokens_same {xs ys : List (Key × Val)} (h : ItemsSame xs ys) (k : Kind) :
    All2 TokSame (getTokens xs k) (getTokens ys k) := by
  unfold getTokens
  have := getItems_same h (.tok k)
  revert this
  generalize getItems xs (.tok k) = vs
  generalize getItems ys (.tok k) = ws
  intro hvw
  induction hvw with
  | nil => exact .nil
  | cons hv _ ih =>
    cases hv with
    | refl =>
      simp only [List.filterMap_cons]
      split
      · exact ih
      · exact .cons (TokSame.refl _) ih
    | tok ht => simp only [List.filterMap_cons]; exact .cons ht ih
    | raw rt hi => simp only [List.filterMap_cons]; exact ih

theorem getSteps_same {xs ys : List (Key × Val)} (h : ItemsSame xs ys) : getSteps xs = getSteps ys := by
  unfold getSteps
  exact filterMap_same (fun v w hvw => by cases hvw <;> rfl) (getItems_same h (.rule .Step))

theorem getScenarios_same {xs ys : List (Key × Val)} (h : ItemsSame xs ys) : getScenarios xs = getScenarios ys := by
  unfold getScenarios
  exact filterMap_same (fun v w hvw => by cases hvw <;> rfl) (getItems_same h (.rule .ScenarioDefinition))

theorem getBackground_same {xs ys : List (Key × Val)} (h : ItemsSame xs ys) : getBackground xs = getBackground ys := by
  unfold getBackground
  have := getSingle_same h (.rule .Background)
  revert this
  generalize getSingle xs (.rule .Background) = v
  generalize getSingle ys (.rule .Background) = w
  intro hvw
  cases hvw <;> rfl

theorem getDescription_same {xs ys : List (Key × Val)} (h : ItemsSame xs ys) :
    getDescription xs = getDescription ys := by
  unfold getDescription
  have := getItems_same h (.rule .Description)
  revert this
  generalize getItems xs (.rule .Description) = vs
  generalize getItems ys (.rule .Description) = ws
  intro hvw
  cases hvw with
  | nil => rfl
  | cons hv _ =>
    cases hv with
    | refl => rename_i a _ _ _; cases a <;> rfl
    | tok _ => rfl
    | raw _ _ => rfl

/-! ### builder computations on related inputs -/

/-- two builder computations fail with the same error or succeed with related values, and draw
    the same ids either way -/
def BSim {α} (R : α → α → Prop) (m1 m2 : BM α) : Prop :=
  ∀ n, (∃ a b n', m1.run.run n = (.ok a, n') ∧ m2.run.run n = (.ok b, n') ∧ R a b) ∨
       (∃ e n', m1.run.run n = (.error e, n') ∧ m2.run.run n = (.error e, n'))

theorem BSim.of_eq {α} {R : α → α → Prop} (hR : ∀ a, R a a) {m1 m2 : BM α} (h : m1 = m2) : BSim R m1 m2 := by
  subst h; intro n
  rcases h : m1.run.run n with ⟨e | a, n'⟩
  · exact .inr ⟨e, n', rfl, rfl⟩
  · exact .inl ⟨a, a, n', rfl, rfl, hR a⟩

theorem BSim.pure {α} {R : α → α → Prop} {a b : α} (h : R a b) : BSim R (pure a) (pure b) :=
  fun n => .inl ⟨a, b, n, rfl, rfl, h⟩

theorem BM_ext {α} {m1 m2 : BM α} (h : ∀ n, m1.run.run n = m2.run.run n) : m1 = m2 := funext h

theorem BM_pure_bind {α β} (a : α) (f : α → BM β) : (pure a >>= f) = f a :=
  BM_ext fun n => by rw [run_bind, run_pure]

theorem mapM'_congr {α β} {R : α → α → Prop} {f : α → BM β} (hf : ∀ a b, R a b → f a = f b)
    {as bs : List α} (h : All2 R as bs) : mapM' f as = mapM' f bs := by
  induction h with
  | nil => rfl
  | cons hab _ ih => simp only [mapM', hf _ _ hab, ih]

theorem needToken_bind_congr {β} {xs ys : List (Key × Val)} (h : ItemsSame xs ys) (k : Kind)
    {F : Token → BM β} (hF : ∀ a b, TokSame a b → F a = F b) :
    needToken xs k >>= F = needToken ys k >>= F := by
  unfold needToken
  have := getSingle_same h (.tok k)
  revert this
  generalize getSingle xs (.tok k) = v
  generalize getSingle ys (.tok k) = w
  intro hvw
  cases hvw with
  | refl => rfl
  | tok ht => simp only [BM_pure_bind]; exact hF _ _ ht
  | raw _ _ => rfl

theorem getTags_same {xs ys : List (Key × Val)} (h : ItemsSame xs ys) : getTags xs = getTags ys := by
  unfold getTags
  have := getSingle_same h (.rule .Tags)
  revert this
  generalize getSingle xs (.rule .Tags) = v
  generalize getSingle ys (.rule .Tags) = w
  intro hvw
  cases hvw with
  | refl => rfl
  | tok _ => rfl
  | raw rt hi =>
    simp only []
    rw [mapM'_congr (R := TokSame) (fun a b hab => by simp only [hab.items_eq, hab.getLocation_eq])
      (getTokens_same hi .TagLine)]

theorem getTableRows_same {xs ys : List (Key × Val)} (h : ItemsSame xs ys) : getTableRows xs = getTableRows ys := by
  unfold getTableRows
  rw [mapM'_congr (R := TokSame) (fun a b hab => by simp only [hab.getLocation_eq, hab.getCells_eq])
    (getTokens_same h .TableRow)]

theorem getSingle_cases {xs ys : List (Key × Val)} (h : ItemsSame xs ys) (k : Key) :
    getSingle xs k = getSingle ys k ∨
    (∃ a b, TokSame a b ∧ getSingle xs k = .tok a ∧ getSingle ys k = .tok b) ∨
    (∃ rt is js, ItemsSame is js ∧ getSingle xs k = .raw rt is ∧ getSingle ys k = .raw rt js) := by
  have := getSingle_same h k
  revert this
  generalize getSingle xs k = v
  generalize getSingle ys k = w
  intro hvw
  cases hvw with
  | refl => exact .inl rfl
  | tok ht => exact .inr (.inl ⟨_, _, ht, rfl, rfl⟩)
  | raw rt hi => exact .inr (.inr ⟨rt, _, _, hi, rfl, rfl⟩)

theorem bind_congr_right {α β} (m : BM α) {f g : α → BM β} (h : ∀ a, f a = g a) : m >>= f = m >>= g := by
  rw [funext h]

theorem needToken_bind_congr' {β} {xs ys : List (Key × Val)} (h : ItemsSame xs ys) (k : Kind)
    {F G : Token → BM β} (hF : ∀ a b, TokSame a b → F a = G b) :
    needToken xs k >>= F = needToken ys k >>= G := by
  have e : F = G := funext fun a => hF a a (TokSame.refl a)
  subst e
  exact needToken_bind_congr h k hF

theorem transformNode_same (cs : List Comment) (rt : RuleType) {xs ys : List (Key × Val)} (h : ItemsSame xs ys) :
    BSim ValSame (transformNode cs ⟨rt, xs⟩) (transformNode cs ⟨rt, ys⟩) := by
  cases rt <;> simp only [transformNode]
  case None_ => exact BSim.pure (.raw _ h)
  case FeatureHeader => exact BSim.pure (.raw _ h)
  case RuleHeader => exact BSim.pure (.raw _ h)
  case Scenario => exact BSim.pure (.raw _ h)
  case Examples => exact BSim.pure (.raw _ h)
  case StepArg => exact BSim.pure (.raw _ h)
  case Tags => exact BSim.pure (.raw _ h)
  case DescriptionHelper => exact BSim.pure (.raw _ h)
  case GherkinDocument =>
    refine BSim.of_eq ValSame.refl ?_
    rcases getSingle_cases h (.rule .Feature) with e | ⟨_, _, _, e1, e2⟩ | ⟨_, _, _, _, e1, e2⟩
    · rw [e]
    · simp only [e1, e2]
    · simp only [e1, e2]
  case ExamplesTable =>
    refine BSim.of_eq ValSame.refl ?_
    rw [getTableRows_same h]
  case DataTable =>
    refine BSim.of_eq ValSame.refl ?_
    rw [getTableRows_same h]
  case Description =>
    refine BSim.of_eq ValSame.refl ?_
    rw [mapM'_congr (R := TokSame) (fun a b hab => by rw [hab.text_eq]) (getTokens_same h .Other)]
  case DocString =>
    refine BSim.of_eq ValSame.refl ?_
    rw [mapM'_congr (R := TokSame) (fun a b hab => by rw [hab.text_eq]) (getTokens_same h .Other)]
    have hs := getTokens_same h .DocStringSeparator
    revert hs
    generalize getTokens xs .DocStringSeparator = l1
    generalize getTokens ys .DocStringSeparator = l2
    intro hs
    cases hs with
    | nil => rfl
    | cons hab _ => simp only []; rw [hab.text_eq, hab.keyword_eq, hab.getLocation_eq]
  case Step =>
    refine BSim.of_eq ValSame.refl (bind_congr_right _ fun id => needToken_bind_congr' h _ fun a b hab => ?_)
    rw [hab.keyword_eq, hab.ktype_eq, hab.text_eq, hab.getLocation_eq]
    rcases getSingle_cases h (.rule .DataTable) with e | ⟨_, _, _, e1, e2⟩ | ⟨_, _, _, _, e1, e2⟩ <;>
    rcases getSingle_cases h (.rule .DocString) with e' | ⟨_, _, _, e1', e2'⟩ | ⟨_, _, _, _, e1', e2'⟩ <;>
    simp only [*]
  case Background =>
    refine BSim.of_eq ValSame.refl (needToken_bind_congr' h _ fun a b hab => ?_)
    rw [hab.keyword_eq, hab.text_eq, hab.getLocation_eq, getDescription_same h, getSteps_same h]
  case ScenarioDefinition =>
    refine BSim.of_eq ValSame.refl ?_
    rw [getTags_same h]
    refine bind_congr_right _ fun tags => ?_
    rcases getSingle_cases h (.rule .Scenario) with e | ⟨_, _, _, e1, e2⟩ | ⟨_, sc, sc', hsc, e1, e2⟩
    · rw [e]
    · simp only [e1, e2]
    · simp only [e1, e2]
      refine needToken_bind_congr' hsc _ fun a b hab => ?_
      rw [hab.keyword_eq, hab.text_eq, hab.getLocation_eq, getDescription_same hsc, getSteps_same hsc,
        filterMap_same ?_ (getItems_same hsc (.rule .ExamplesDefinition))]
      intro v w hvw; cases hvw <;> rfl
  case ExamplesDefinition =>
    refine BSim.of_eq ValSame.refl ?_
    rw [getTags_same h]
    refine bind_congr_right _ fun tags => ?_
    rcases getSingle_cases h (.rule .Examples) with e | ⟨_, _, _, e1, e2⟩ | ⟨_, ex, ex', hex, e1, e2⟩
    · rw [e]
    · simp only [e1, e2]
    · simp only [e1, e2]
      refine needToken_bind_congr' hex _ fun a b hab => ?_
      rw [hab.keyword_eq, hab.text_eq, hab.getLocation_eq, getDescription_same hex]
      rcases getSingle_cases hex (.rule .ExamplesTable) with e | ⟨_, _, _, e1, e2⟩ | ⟨_, _, _, _, e1, e2⟩
      · rw [e]
      · simp only [e1, e2]
      · simp only [e1, e2]
  case Rule =>
    refine BSim.of_eq ValSame.refl ?_
    rw [getBackground_same h, getScenarios_same h]
    rcases getSingle_cases h (.rule .RuleHeader) with e | ⟨_, _, _, e1, e2⟩ | ⟨_, hd, hd', hhd, e1, e2⟩
    · rw [e]
    · simp only [e1, e2]
    · simp only [e1, e2]
      rw [getTags_same hhd, getDescription_same hhd]
      refine bind_congr_right _ fun tags => ?_
      rcases getSingle_cases hhd (.tok .RuleLine) with e | ⟨a, b, hab, e1, e2⟩ | ⟨_, _, _, _, e1, e2⟩
      · rw [e]
      · simp only [e1, e2]
        rw [hab.keyword_eq, hab.text_eq, hab.getLocation_eq]
      · simp only [e1, e2]
  case Feature =>
    refine BSim.of_eq ValSame.refl ?_
    rw [getBackground_same h, getScenarios_same h, filterMap_same ?_ (getItems_same h (.rule .Rule))]
    · rcases getSingle_cases h (.rule .FeatureHeader) with e | ⟨_, _, _, e1, e2⟩ | ⟨_, hd, hd', hhd, e1, e2⟩
      · rw [e]
      · simp only [e1, e2]
      · simp only [e1, e2]
        rw [getTags_same hhd, getDescription_same hhd]
        refine bind_congr_right _ fun tags => ?_
        rcases getSingle_cases hhd (.tok .FeatureLine) with e | ⟨a, b, hab, e1, e2⟩ | ⟨_, _, _, _, e1, e2⟩
        · rw [e]
        · simp only [e1, e2]
          rw [hab.keyword_eq, hab.text_eq, hab.getLocation_eq, hab.dialect_eq]
        · simp only [e1, e2]
    · intro v w hvw; cases hvw <;> rfl

/-! ### builder states -/

def NodeSame (a b : Node) : Prop := a.rt = b.rt ∧ ItemsSame a.items b.items

/-- two builder states agree up to the physical lines of the tokens on the stack -/
def BSame (β1 β2 : BState) : Prop := All2 NodeSame β1.stack β2.stack ∧ β1.comments = β2.comments

theorem NodeSame.refl (a : Node) : NodeSame a a := ⟨rfl, ItemsSame.refl _⟩

theorem BSame.refl (β : BState) : BSame β β := ⟨All2.refl NodeSame.refl _, rfl⟩

theorem BSame.startRule {β1 β2 : BState} (h : BSame β1 β2) (r : RuleType) :
    BSame (β1.startRule r) (β2.startRule r) :=
  ⟨.cons ⟨rfl, .nil⟩ h.1, h.2⟩

theorem addToTop_same {s1 s2 : List Node} (h : All2 NodeSame s1 s2) (k : Key) {v w : Val} (hv : ValSame v w) :
    (addToTop s1 k v = none ∧ addToTop s2 k w = none) ∨
    ∃ s1' s2', addToTop s1 k v = some s1' ∧ addToTop s2 k w = some s2' ∧ All2 NodeSame s1' s2' := by
  cases h with
  | nil => exact .inl ⟨rfl, rfl⟩
  | cons hab ht =>
    exact .inr ⟨_, _, rfl, rfl, .cons ⟨hab.1, hab.2.append (.cons k hv .nil)⟩ ht⟩

theorem layBuild_unmatched (β : BState) (t : Token) (hm : t.mtype = none) :
    β.build t = .error (.crash "build of unmatched token") := by
  unfold BState.build; rw [hm]

theorem layBuild_comment (β : BState) (t : Token) (hm : t.mtype = some .Comment) :
    β.build t = match t.text with
      | some tx => .ok { β with comments := β.comments ++ [{ loc := getLocation t, text := tx }] }
      | Option.none => .error (.crash "comment without text") := by
  unfold BState.build; rw [hm]; cases t.text <;> rfl

theorem layBuild_other (β : BState) (t : Token) (k : Kind) (hk : k ≠ .Comment) (hm : t.mtype = some k) :
    β.build t = match addToTop β.stack (.tok k) (.tok t) with
      | some st => .ok { β with stack := st }
      | Option.none => .error (.crash "IndexError: current_node of empty stack") := by
  unfold BState.build; rw [hm]
  cases k <;> first | rfl | exact absurd rfl hk

theorem BSame.build {β1 β2 : BState} (h : BSame β1 β2) {t1 t2 : Token} (ht : TokSame t1 t2) :
    (∃ e, β1.build t1 = .error e ∧ β2.build t2 = .error e) ∨
    (∃ β1' β2', β1.build t1 = .ok β1' ∧ β2.build t2 = .ok β2' ∧ BSame β1' β2') := by
  cases hm : t1.mtype with
  | none =>
    rw [layBuild_unmatched _ _ hm, layBuild_unmatched _ _ (ht.mtype_eq ▸ hm)]
    exact .inl ⟨_, rfl, rfl⟩
  | some k =>
    have hm2 : t2.mtype = some k := ht.mtype_eq ▸ hm
    by_cases hk : k = .Comment
    · subst hk
      rw [layBuild_comment _ _ hm, layBuild_comment _ _ hm2, ← ht.text_eq, ← ht.getLocation_eq]
      cases t1.text with
      | none => exact .inl ⟨_, rfl, rfl⟩
      | some tx => exact .inr ⟨_, _, rfl, rfl, h.1, by simp only [h.2]⟩
    · rw [layBuild_other _ _ k hk hm, layBuild_other _ _ k hk hm2]
      rcases addToTop_same h.1 (.tok k) (.tok ht) with ⟨e1, e2⟩ | ⟨s1, s2, e1, e2, hs⟩
      · rw [e1, e2]; exact .inl ⟨_, rfl, rfl⟩
      · rw [e1, e2]; exact .inr ⟨_, _, rfl, rfl, hs, h.2⟩

theorem BSame.endRule {β1 β2 : BState} (h : BSame β1 β2) (n : Nat) :
    (β1.endRule n).1 = (β2.endRule n).1 ∧ BSame (β1.endRule n).2.1 (β2.endRule n).2.1 ∧
    (β1.endRule n).2.2 = (β2.endRule n).2.2 := by
  obtain ⟨s1, c1⟩ := β1
  obtain ⟨s2, c2⟩ := β2
  obtain ⟨hs, hc⟩ := h
  simp only at hs hc
  subst hc
  cases hs with
  | nil => exact ⟨rfl, ⟨.nil, rfl⟩, rfl⟩
  | cons hab ht =>
    rename_i a b as bs
    obtain ⟨rt, xs⟩ := a
    obtain ⟨rt', ys⟩ := b
    obtain ⟨hrt, hxy⟩ := hab
    simp only at hrt hxy
    subst hrt
    simp only [BState.endRule]
    rcases transformNode_same c1 rt hxy n with ⟨v, w, n', e1, e2, hvw⟩ | ⟨e, n', e1, e2⟩
    · rw [e1, e2]
      simp only []
      rcases addToTop_same ht (.rule rt) hvw with ⟨e1, e2⟩ | ⟨s1, s2, e1, e2, hs⟩
      · rw [e1, e2]; exact ⟨rfl, ⟨ht, rfl⟩, rfl⟩
      · rw [e1, e2]; exact ⟨rfl, ⟨hs, rfl⟩, rfl⟩
    · rw [e1, e2]
      exact ⟨rfl, ⟨ht, rfl⟩, rfl⟩

theorem BSame.result {β1 β2 : BState} (h : BSame β1 β2) : β1.result = β2.result := by
  unfold BState.result
  obtain ⟨hs, hc⟩ := h
  revert hs
  generalize β1.stack = s1
  generalize β2.stack = s2
  intro hs
  cases hs with
  | nil => rfl
  | cons hab ht =>
    simp only []
    rcases getSingle_cases hab.2 (.rule .GherkinDocument) with e | ⟨_, _, _, e1, e2⟩ | ⟨_, _, _, _, e1, e2⟩
    · rw [e]
    · simp only [e1, e2]
    · simp only [e1, e2]

end Lemmas
end GV
