/-
  Lemmas/LayoutDoc6Flags.lean — soundness of the abstract interpretation `Spec.descStacksOk`
  (Spec/LayoutChecks6.lean) as a loop invariant of the queue-free parse: whenever the main loop stands
  in state `s`, the builder's open nodes have the rule types the table fact assigns to `s`, and a
  node whose flag is `false` holds no `Description` item.  Consequences: in a description-opening
  state the top node holds no `Description` item; an `end_rule` that closes a `Description` node never
  puts a second `Description` item into the node below.
-/
import GherkinVerif.Lemmas.LayoutDoc6Base
import GherkinVerif.Spec.LayoutChecks6
namespace GV
namespace Layout6
open Lemmas Spec Layout3 Layout4 Layout5

/-- the open node `n` is of the abstract node's type, and holds no `Description` item if its flag says so -/
def NodeA (n : Node) (a : ANode) : Prop := n.rt = a.1 ∧ (a.2 = false → getItems n.items (.rule .Description) = [])

/-- the stack of open nodes is described by the abstract stack `fs` -/
def StackA (st : List Node) (fs : List ANode) : Prop := All2 NodeA st fs

theorem StackA.mono {st : List Node} {fs : List ANode} (h : StackA st fs) :
    ∀ {fs' : List ANode}, leA fs fs' = true → StackA st fs' := by
  induction h with
  | nil =>
    intro fs' hle
    cases fs' with
    | nil => exact .nil
    | cons _ _ => simp [leA] at hle
  | @cons n a st fs hab _ ih =>
    intro fs' hle
    obtain ⟨r, x⟩ := a
    cases fs' with
    | nil => simp [leA] at hle
    | cons a' fs' =>
      obtain ⟨r', y⟩ := a'
      simp only [leA, Bool.and_eq_true, decide_eq_true_eq, Bool.or_eq_true, Bool.not_eq_true'] at hle
      obtain ⟨⟨hr, hxy⟩, hrest⟩ := hle
      refine .cons ⟨hab.1.trans hr, fun hy => hab.2 ?_⟩ (ih hrest)
      rcases hxy with h | h
      · exact h
      · simp only at hy; rw [hy] at h; cases h

theorem getItems_snoc_ne (xs : List (Key × Val)) (k k' : Key) (v : Val) (h : (k == k') = false) :
    getItems (xs ++ [(k, v)]) k' = getItems xs k' := by
  unfold getItems
  simp [List.filter_append, h]

theorem build_stackA {β β' : BState} {t : Token} (h : β.build t = .ok β') {fs : List ANode}
    (hA : StackA β.stack fs) : StackA β'.stack fs := by
  unfold BState.build at h
  split at h
  · split at h
    · cases h; exact hA
    · cases h
  · split at h
    · rename_i k _ st hst
      cases h
      unfold addToTop at hst
      split at hst
      · rename_i top rest hstack
        cases hst
        simp only
        rw [hstack] at hA
        cases hA with
        | cons hab ht =>
          refine .cons ⟨hab.1, fun hf => ?_⟩ ht
          simp only
          rw [getItems_snoc_ne _ _ _ _ rfl]
          exact hab.2 hf
      · cases hst
    · cases h
  · cases h

/-- what `applyProdA (.end_ X)` being defined says -/
theorem applyProdA_end {X : RuleType} {fs fs' : List ANode} (h : applyProdA (.end_ X) fs = some fs') :
    ∃ f r' g rest, fs = (X, f) :: (r', g) :: rest ∧
      ((X = .Description ∧ g = false ∧ fs' = (r', true) :: rest) ∨ (X ≠ .Description ∧ fs' = (r', g) :: rest)) := by
  match fs, h with
  | (r, f) :: (r', g) :: rest, h =>
    simp only [applyProdA] at h
    by_cases hr : (r == X) = true
    · rw [if_pos hr] at h
      have hrX : r = X := by simpa using hr
      subst hrX
      refine ⟨f, r', g, rest, rfl, ?_⟩
      by_cases hX : (r == RuleType.Description) = true
      · rw [if_pos hX] at h
        have : r = .Description := by simpa using hX
        cases g with
        | true => simp at h
        | false =>
          simp only [Bool.false_eq_true, ↓reduceIte, Option.some.injEq] at h
          exact .inl ⟨this, rfl, h.symm⟩
      · rw [if_neg hX] at h
        simp only [Option.some.injEq] at h
        exact .inr ⟨by simpa using hX, h.symm⟩
    · rw [if_neg hr] at h; cases h

/-- **no node receives a second `Description` item**: where the abstract `end_ X` is defined, the node
    that receives a closed `Description` node holds no `Description` item yet -/
theorem endRule_safe {β : BState} {fs : List ANode} (hA : StackA β.stack fs) {X : RuleType}
    (hp : (applyProdA (.end_ X) fs).isSome = true) :
    ∀ a b rest, β.stack = a :: b :: rest → a.rt = .Description → getItems b.items (.rule .Description) = [] := by
  intro a b rest hs ha
  obtain ⟨fs', hfs'⟩ := Option.isSome_iff_exists.1 hp
  obtain ⟨f, r', g, rest', rfl, hcase⟩ := applyProdA_end hfs'
  rw [hs] at hA
  cases hA with
  | cons hab ht =>
    cases ht with
    | cons hcd _ =>
      have hX : X = .Description := by rw [← ha]; exact hab.1.symm
      rcases hcase with ⟨-, hg, -⟩ | ⟨hne, -⟩
      · exact hcd.2 hg
      · exact absurd hX hne

theorem endRule_stackA {β : BState} {fs fs' : List ANode} (hA : StackA β.stack fs) {X : RuleType}
    (hp : applyProdA (.end_ X) fs = some fs') (n : Nat) : StackA (β.endRule n).2.1.stack fs' := by
  obtain ⟨f, r', g, rest', rfl, hcase⟩ := applyProdA_end hp
  obtain ⟨st, cm⟩ := β
  simp only at hA
  cases hA with
  | @cons a _ _ _ hab ht =>
    cases ht with
    | @cons b _ bs _ hcd ht' =>
      have hb' : ∀ fl, StackA (b :: bs) ((r', fl) :: rest') → StackA (b :: bs) fs' := by
        intro fl h
        rcases hcase with ⟨-, -, e⟩ | ⟨-, e⟩
        · rw [e]
          cases h with
          | cons h1 h2 => exact .cons ⟨h1.1, fun hf => by cases hf⟩ h2
        · rw [e]
          cases h with
          | cons h1 h2 => exact .cons ⟨hcd.1, hcd.2⟩ h2
      simp only [BState.endRule]
      generalize (transformNode cm a).run.run n = x
      obtain ⟨r, n'⟩ := x
      cases r with
      | error e => exact hb' g (.cons hcd ht')
      | ok v =>
        simp only [addToTop]
        rcases hcase with ⟨-, -, e⟩ | ⟨hne, e⟩
        · rw [e]
          exact .cons ⟨hcd.1, fun hf => by cases hf⟩ ht'
        · rw [e]
          refine .cons ⟨hcd.1, fun hf => ?_⟩ ht'
          simp only
          rw [getItems_snoc_ne]
          · exact hcd.2 hf
          · have : a.rt = X := hab.1
            rw [this]
            simpa using hne

theorem stackA_runProd (cap : Nat) (stop : Bool) (t : Token) (p : Prod) {c c' : Ctx} {u : Unit}
    {fs fs' : List ANode} (hA : StackA c.β.stack fs) (hp : applyProdA p fs = some fs')
    (hr : run (runProd cap stop t p) c = (.ok u, c')) : StackA c'.β.stack fs' := by
  rw [run_runProd] at hr
  cases p with
  | start r =>
    simp only [Prod.mk.injEq] at hr
    rw [← hr.2]
    simp only [applyProdA, Option.some.injEq] at hp
    rw [← hp]
    exact .cons ⟨rfl, fun _ => rfl⟩ hA
  | end_ X =>
    simp only [] at hr
    have hk := keepsB_liftB cap stop (c.β.endRule c.ids).1
      { c with β := (c.β.endRule c.ids).2.1, ids := (c.β.endRule c.ids).2.2 }
    rw [hr] at hk
    simp only at hk
    rw [hk]
    exact endRule_stackA hA hp c.ids
  | build =>
    simp only [applyProdA, Option.some.injEq] at hp
    subst hp
    simp only [] at hr
    cases hb : c.β.build t with
    | ok β' =>
      rw [hb] at hr
      simp only [Prod.mk.injEq] at hr
      rw [← hr.2]
      exact build_stackA hb hA
    | error e =>
      rw [hb] at hr
      simp only [] at hr
      have hk := keepsB_liftB cap stop (.error e) c
      rw [hr] at hk
      simp only at hk
      rw [hk]; exact hA

theorem stackA_runProds (cap : Nat) (stop : Bool) (t : Token) : ∀ (ps : List Prod) {c c' : Ctx} {u : Unit}
    {fs fs' : List ANode}, StackA c.β.stack fs → applyProdsA ps fs = some fs' →
    run (runProds cap stop t ps) c = (.ok u, c') → StackA c'.β.stack fs'
  | [], c, c', u, fs, fs', hA, hp, hr => by
    simp only [applyProdsA, Option.some.injEq] at hp
    subst hp
    cases hr
    exact hA
  | p :: ps, c, c', u, fs, fs', hA, hp, hr => by
    simp only [applyProdsA] at hp
    cases h1 : applyProdA p fs with
    | none => rw [h1] at hp; cases hp
    | some fs1 =>
      rw [h1] at hp
      simp only [Option.bind_some] at hp
      unfold runProds at hr
      rw [prun_bind] at hr
      rcases hm : run (runProd cap stop t p) c with ⟨r, c1⟩
      rw [hm] at hr
      cases r with
      | error e => cases hr
      | ok u1 =>
        simp only at hr
        exact stackA_runProds cap stop t ps (stackA_runProd cap stop t p hA h1 hm) hp hr

/-- `match_token` in a row, as far as the builder is concerned: the productions of one of the
    branches have run from the builder state before, or the error tail has left it alone -/
theorem trace_tryBranchesPure (D : List Dialect) (T : Table) (stop : Bool) (row : StateRow) (bs : List Branch) (t : Token) :
    ∀ c s' c', run (tryBranchesPure D T stop row bs t) c = (.ok s', c') →
      (∃ b ∈ bs, ∃ (t' : Token) (c0 : Ctx) (u : Unit), c0.β = c.β ∧
        run (runProds T.errorCap stop t' b.prods) c0 = (.ok u, c') ∧ s' = b.target) ∨
      (s' = row.errTarget ∧ c'.β = c.β) := by
  induction bs generalizing t with
  | nil =>
    intro c s' c' hr
    unfold tryBranchesPure at hr
    rw [prun_bind, run_modify] at hr
    simp only [] at hr
    cases stop with
    | true => simp only [↓reduceIte, prun_throw] at hr; cases hr
    | false =>
      simp only [Bool.false_eq_true, ↓reduceIte] at hr
      rw [prun_bind] at hr
      have hk := keepsB_addError T.errorCap (unexpectedErr row t) { c with unexpected := c.unexpected ++ [t.lineNo] }
      rcases ha : run (addError T.errorCap (unexpectedErr row t)) { c with unexpected := c.unexpected ++ [t.lineNo] }
        with ⟨r, c1⟩
      rw [ha] at hr hk
      cases r with
      | error e => cases hr
      | ok u =>
        simp only [prun_pure] at hr
        cases hr
        exact .inr ⟨rfl, hk⟩
  | cons b bs ih =>
    intro c s' c' hr
    unfold tryBranchesPure at hr
    rw [prun_bind] at hr
    have hk := keepsB_matchP D T.errorCap stop b.kind t c
    rcases hm : run (matchP D T.errorCap stop b.kind t) c with ⟨r, c1⟩
    rw [hm] at hr hk
    cases r with
    | error e => cases hr
    | ok mt =>
      obtain ⟨m, t'⟩ := mt
      simp only at hr hk
      have hrec : ∀ c2, c2.β = c.β →
          run (tryBranchesPure D T stop row bs t') c2 = (.ok s', c') →
          (∃ b' ∈ b :: bs, ∃ (t'' : Token) (c0 : Ctx) (u : Unit), c0.β = c.β ∧
            run (runProds T.errorCap stop t'' b'.prods) c0 = (.ok u, c') ∧ s' = b'.target) ∨
          (s' = row.errTarget ∧ c'.β = c.β) := by
        intro c2 hc2 hr2
        rcases ih t' c2 s' c' hr2 with ⟨b', hb', t'', c0, u, h0, h1, h2⟩ | ⟨h1, h2⟩
        · exact .inl ⟨b', List.mem_cons_of_mem _ hb', t'', c0, u, h0.trans hc2, h1, h2⟩
        · exact .inr ⟨h1, h2.trans hc2⟩
      have htake : ∀ c2, c2.β = c.β →
          run (do runProds T.errorCap stop t' b.prods; Pure.pure b.target : PM Nat) c2 = (.ok s', c') →
          (∃ b' ∈ b :: bs, ∃ (t'' : Token) (c0 : Ctx) (u : Unit), c0.β = c.β ∧
            run (runProds T.errorCap stop t'' b'.prods) c0 = (.ok u, c') ∧ s' = b'.target) ∨
          (s' = row.errTarget ∧ c'.β = c.β) := by
        intro c2 hc2 hr2
        rw [prun_bind] at hr2
        rcases hp : run (runProds T.errorCap stop t' b.prods) c2 with ⟨r, c3⟩
        rw [hp] at hr2
        cases r with
        | error e => cases hr2
        | ok u =>
          simp only [prun_pure] at hr2
          cases hr2
          exact .inl ⟨b, List.mem_cons_self, t', c2, u, hc2, hp, rfl⟩
      cases m with
      | false => exact hrec c1 hk (by simpa using hr)
      | true =>
        simp only [↓reduceIte] at hr
        cases hg : b.guard with
        | none =>
          rw [hg] at hr
          simp only [] at hr
          rw [prun_bind, prun_pure] at hr
          simp only [↓reduceIte] at hr
          exact htake c1 hk hr
        | some i =>
          rw [hg] at hr
          simp only [] at hr
          cases hla : T.lookaheads[i]? with
          | none =>
            rw [hla] at hr
            simp only [] at hr
            rw [prun_bind, prun_throw] at hr
            cases hr
          | some la =>
            rw [hla] at hr
            simp only [] at hr
            rw [prun_bind] at hr
            have hk2 := keepsB_lookaheadPure D T.errorCap stop la c1
            rcases hl : run (lookaheadPure D T.errorCap stop la) c1 with ⟨r, c2⟩
            rw [hl] at hr hk2
            cases r with
            | error e => cases hr
            | ok ok =>
              simp only at hr hk2
              cases ok with
              | true => exact htake c2 (hk2.trans hk) (by simpa using hr)
              | false => exact hrec c2 (hk2.trans hk) (by simpa using hr)

/-- what the table fact says about one row -/
theorem descStacksOk_row {T : Table} {fl : List (Nat × List ANode)} (h : descStacksOk T fl = true) {s : Nat}
    {row : StateRow} (hrow : T.row? s = some row) :
    leA (absAt fl s) (absAt fl row.errTarget) = true ∧ topOkA (absAt fl s) = true ∧
    (commentOpensDescription T s = true → (absAt fl s).head?.map (·.2) = some false) ∧
    ∀ b ∈ row.branches, ∃ d, applyProdsA b.prods (absAt fl s) = some d ∧ leA d (absAt fl b.target) = true := by
  have hmem : row ∈ T.rows := List.mem_of_find?_eq_some hrow
  have hid : row.id = s := by
    have := List.find?_some hrow
    simpa using this
  unfold descStacksOk at h
  simp only [Bool.and_eq_true, List.all_eq_true, decide_eq_true_eq, Bool.or_eq_true, Bool.not_eq_true'] at h
  obtain ⟨⟨⟨h1, h2⟩, h3⟩, h4⟩ := h.2 row hmem
  rw [hid] at h1 h2 h3 h4
  refine ⟨h1, h2, fun hc => ?_, fun b hb => ?_⟩
  · rcases h3 with h3 | h3
    · rw [h3] at hc; cases hc
    · exact h3
  · have := h4 b hb
    cases hd : applyProdsA b.prods (absAt fl s) with
    | none => rw [hd] at this; cases this
    | some d => rw [hd] at this; exact ⟨d, rfl, this⟩

theorem descStacksOk_start {T : Table} {fl : List (Nat × List ANode)} (h : descStacksOk T fl = true) :
    absAt fl 0 = [(T.startRule, false), (.None_, false)] := by
  unfold descStacksOk at h
  simp only [Bool.and_eq_true, decide_eq_true_eq] at h
  exact h.1.1

theorem topOkA_absAt {T : Table} {fl : List (Nat × List ANode)} (h : descStacksOk T fl = true) (s : Nat) :
    topOkA (absAt fl s) = true := by
  unfold descStacksOk at h
  simp only [Bool.and_eq_true, List.all_eq_true] at h
  have h2 := h.1.2
  unfold absAt
  cases hf : fl.find? (·.1 == s) with
  | none => rfl
  | some e => exact h2 e (List.mem_of_find?_eq_some hf)

/-- an open `Description` node sits on a node without `Description` item -/
theorem topOk_safe {β : BState} {fs : List ANode} (hA : StackA β.stack fs) (ht : topOkA fs = true) :
    ∀ a b rest, β.stack = a :: b :: rest → a.rt = .Description → getItems b.items (.rule .Description) = [] := by
  intro a b rest hs ha
  rw [hs] at hA
  cases hA with
  | @cons _ x _ _ hab ht' =>
    cases ht' with
    | @cons _ y _ _ hcd _ =>
      obtain ⟨r, f⟩ := x
      obtain ⟨r', g⟩ := y
      simp only [topOkA, Bool.or_eq_true, Bool.not_eq_true', decide_eq_false_iff_not] at ht
      rcases ht with ht | ht
      · exact absurd (hab.1.symm.trans ha) ht
      · exact hcd.2 ht

/-- **the invariant is kept by `match_token`** -/
theorem stackA_matchTokenPure (D : List Dialect) {T : Table} {fl : List (Nat × List ANode)}
    (h : descStacksOk T fl = true) (stop : Bool) (s : Nat) (t : Token) (c : Ctx) (s' : Nat) (c' : Ctx)
    (hA : StackA c.β.stack (absAt fl s)) (hr : run (matchTokenPure D T stop s t) c = (.ok s', c')) :
    StackA c'.β.stack (absAt fl s') := by
  unfold matchTokenPure at hr
  cases hrow : T.row? s with
  | none => rw [hrow] at hr; cases hr
  | some row =>
    rw [hrow] at hr
    simp only [] at hr
    obtain ⟨h1, -, -, h4⟩ := descStacksOk_row h hrow
    rcases trace_tryBranchesPure D T stop row _ t c s' c' hr with ⟨b, hb, t', c0, u, e0, e1, e2⟩ | ⟨e1, e2⟩
    · obtain ⟨d, hd, hle⟩ := h4 b hb
      rw [e2]
      exact (stackA_runProds T.errorCap stop t' b.prods (by rw [e0]; exact hA) hd e1).mono hle
    · rw [e1, e2]
      exact hA.mono h1

theorem stackA_prefix (D : List Dialect) {T : Table} {fl : List (Nat × List ANode)} (h : descStacksOk T fl = true)
    (stop : Bool) : ∀ (j s : Nat) (c : Ctx) (r : Nat × Bool) (c' : Ctx), StackA c.β.stack (absAt fl s) →
      run (parsePrefixPure D T stop j s) c = (.ok r, c') → StackA c'.β.stack (absAt fl r.1) := by
  intro j
  induction j with
  | zero =>
    intro s c r c' hd hr
    cases hr
    exact hd
  | succ j ih =>
    intro s c r c' hd hr
    cases hl : c.lines with
    | nil =>
      rw [run_prefix_nil T stop j s c hl] at hr
      rcases hm : run (matchTokenPure D T stop s { line := none, lineNo := c.lineNo + 1 })
        { c with lineNo := c.lineNo + 1, reads := c.reads ++ [c.lineNo + 1] } with ⟨x, c1⟩
      rw [hm] at hr
      cases x with
      | error e => cases hr
      | ok s1 =>
        cases hr
        exact stackA_matchTokenPure D h stop s _ { c with lineNo := c.lineNo + 1, reads := c.reads ++ [c.lineNo + 1] } s1 _ hd hm
    | cons l ls =>
      rw [run_prefix_cons T stop j s c hl] at hr
      rcases hm : run (matchTokenPure D T stop s { line := some l, lineNo := c.lineNo + 1 })
        { c with lines := ls, lineNo := c.lineNo + 1, reads := c.reads ++ [c.lineNo + 1] } with ⟨x, c1⟩
      rw [hm] at hr
      cases x with
      | error e => cases hr
      | ok s1 =>
        simp only at hr
        exact ih s1 c1 r c' (stackA_matchTokenPure D h stop s _
          { c with lines := ls, lineNo := c.lineNo + 1, reads := c.reads ++ [c.lineNo + 1] } s1 _ hd hm) hr

theorem stackA_start (T : Table) {fl : List (Nat × List ANode)} (h : descStacksOk T fl = true) :
    StackA (BState.reset.startRule T.startRule).stack (absAt fl 0) := by
  rw [descStacksOk_start h]
  exact .cons ⟨rfl, fun _ => rfl⟩ (.cons ⟨rfl, fun _ => rfl⟩ .nil)

/-- **Soundness of the abstract interpretation.**  Along every prefix run of the queue-free parse —
    any text, either error mode, any incoming matcher state and id counter — the builder's open
    nodes are described by the abstract stack the table fact assigns to the state reached. -/
theorem descStacks_sound {D : List Dialect} {T : Table} {fl : List (Nat × List ANode)} (h : descStacksOk T fl = true)
    (stop : Bool) (μ : MState) (ids : Nat) (src : Str) (k s : Nat) (c : Ctx)
    (hr : runAfter D T stop μ ids src k = some (s, c)) : StackA c.β.stack (absAt fl s) := by
  unfold runAfter at hr
  rcases hp : (parsePrefixPure D T stop k 0).run.run (startCtx D T μ ids src) with ⟨x, c'⟩
  rw [hp] at hr
  cases x with
  | error e => cases hr
  | ok r =>
    simp only [Option.some.injEq, Prod.mk.injEq] at hr
    obtain ⟨rfl, rfl⟩ := hr
    exact stackA_prefix D h stop k 0 (startCtx D T μ ids src) r c' (stackA_start T h) hp

/-- … in particular: in a description-opening state the open top node holds no `Description` item -/
theorem descOpening_top_noDescription {D : List Dialect} {T : Table} {fl : List (Nat × List ANode)}
    (h : descStacksOk T fl = true) (stop : Bool) (μ : MState) (ids : Nat) (src : Str) (k s : Nat) (c : Ctx)
    (hr : runAfter D T stop μ ids src k = some (s, c)) (hs : commentOpensDescription T s = true) :
    ∃ top rest, c.β.stack = top :: rest ∧ getItems top.items (.rule .Description) = [] := by
  have hA := descStacks_sound h stop μ ids src k s c hr
  cases hrow : T.row? s with
  | none => unfold commentOpensDescription at hs; rw [hrow] at hs; cases hs
  | some row =>
    obtain ⟨-, -, h3, -⟩ := descStacksOk_row h hrow
    have h3' := h3 hs
    revert hA h3'
    generalize absAt fl s = fs
    generalize c.β.stack = st0
    intro hA h3'
    cases hA with
    | nil => simp at h3'
    | @cons n a st fs0 hab _ =>
      refine ⟨n, st, rfl, hab.2 ?_⟩
      simpa using h3'

end Layout6
end GV
