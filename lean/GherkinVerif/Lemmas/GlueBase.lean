/-
  Lemmas/GlueBase.lean — reasoning kit for the parser glue model (Model/Parser.lean):
  `run` equations for the monad stack, Hoare triples with a normal and an abort postcondition,
  the run equations of the primitive glue operations, and generic "the same invariant all the
  way through" lemmas for the compound operations.
-/
import GherkinVerif.Model.Stream
import GherkinVerif.Spec.TableFacts
namespace GV
namespace Lemmas

/-- run a glue computation from a context -/
def run {α} (m : PM α) (c : Ctx) : Except Abort α × Ctx := m.run.run c

theorem prun_pure {α} (a : α) (c : Ctx) : run (pure a : PM α) c = (.ok a, c) := rfl
theorem prun_bind {α β} (m : PM α) (f : α → PM β) (c : Ctx) :
    run (m >>= f) c = match run m c with
      | (.ok a, c') => run (f a) c'
      | (.error e, c') => (.error e, c') := by
  simp only [run, bind, ExceptT.bind, ExceptT.mk, ExceptT.run, ExceptT.bindCont, StateT.bind, StateT.run]
  rcases h : m c with ⟨r, c'⟩
  cases r <;> rfl
theorem run_get (c : Ctx) : run (get : PM Ctx) c = (.ok c, c) := rfl
theorem run_set (c' c : Ctx) : run (set c' : PM PUnit) c = (.ok ⟨⟩, c') := rfl
theorem run_modify (f : Ctx → Ctx) (c : Ctx) : run (modify f : PM PUnit) c = (.ok ⟨⟩, f c) := rfl
theorem prun_throw {α} (e : Abort) (c : Ctx) : run (throw e : PM α) c = (.error e, c) := rfl

/-- Hoare triple with a normal and an abort postcondition -/
def Triple {α} (P : Ctx → Prop) (m : PM α) (Q : α → Ctx → Prop) (E : Abort → Ctx → Prop) : Prop :=
  ∀ c, P c → (∀ a c', run m c = (.ok a, c') → Q a c') ∧ (∀ e c', run m c = (.error e, c') → E e c')

theorem Triple.pure {α} {P : Ctx → Prop} {Q : α → Ctx → Prop} {E} (a : α) (h : ∀ c, P c → Q a c) :
    Triple P (pure a : PM α) Q E := by
  intro c hc
  refine ⟨fun a' c' hr => ?_, fun e c' hr => ?_⟩
  · rw [prun_pure] at hr; cases hr; exact h _ hc
  · rw [prun_pure] at hr; cases hr

theorem Triple.throw {α} {P : Ctx → Prop} {Q : α → Ctx → Prop} {E} (e : Abort) (h : ∀ c, P c → E e c) :
    Triple P (throw e : PM α) Q E := by
  intro c hc
  refine ⟨fun a' c' hr => ?_, fun e c' hr => ?_⟩
  · rw [prun_throw] at hr; cases hr
  · rw [prun_throw] at hr; cases hr; exact h _ hc

theorem Triple.bind {α β} {P : Ctx → Prop} {m : PM α} {Q : α → Ctx → Prop} {E} {f : α → PM β}
    {R : β → Ctx → Prop} (h1 : Triple P m Q E) (h2 : ∀ a, Triple (Q a) (f a) R E) :
    Triple P (m >>= f) R E := by
  intro c hc
  have h1' := h1 c hc
  rw [prun_bind]
  rcases hr : run m c with ⟨r, c1⟩
  cases r with
  | error e =>
    refine ⟨fun a' c' hr' => ?_, fun e' c' hr' => ?_⟩
    · cases hr'
    · cases hr'; exact h1'.2 _ _ hr
  | ok a => exact h2 a c1 (h1'.1 _ _ hr)

theorem Triple.get {P : Ctx → Prop} {E} : Triple P (get : PM Ctx) (fun a c => a = c ∧ P c) E := by
  intro c hc
  refine ⟨fun a' c' hr => ?_, fun e c' hr => ?_⟩
  · rw [run_get] at hr; cases hr; exact ⟨rfl, hc⟩
  · rw [run_get] at hr; cases hr

theorem Triple.modify {P : Ctx → Prop} {Q : PUnit → Ctx → Prop} {E} (f : Ctx → Ctx) (h : ∀ c, P c → Q ⟨⟩ (f c)) :
    Triple P (modify f : PM PUnit) Q E := by
  intro c hc
  refine ⟨fun a' c' hr => ?_, fun e c' hr => ?_⟩
  · rw [run_modify] at hr; cases hr; exact h _ hc
  · rw [run_modify] at hr; cases hr

theorem Triple.conseq {α} {P P' : Ctx → Prop} {m : PM α} {Q Q' : α → Ctx → Prop} {E E'}
    (h : Triple P m Q E) (hp : ∀ c, P' c → P c) (hq : ∀ a c, Q a c → Q' a c) (he : ∀ e c, E e c → E' e c) :
    Triple P' m Q' E' := fun c hc =>
  ⟨fun a c' hr => hq _ _ ((h c (hp c hc)).1 a c' hr), fun e c' hr => he _ _ ((h c (hp c hc)).2 e c' hr)⟩

theorem Triple.and {α} {P P' : Ctx → Prop} {m : PM α} {Q Q' : α → Ctx → Prop} {E E'}
    (h : Triple P m Q E) (h' : Triple P' m Q' E') :
    Triple (fun c => P c ∧ P' c) m (fun a c => Q a c ∧ Q' a c) (fun e c => E e c ∧ E' e c) := fun c hc =>
  ⟨fun a c' hr => ⟨(h c hc.1).1 a c' hr, (h' c hc.2).1 a c' hr⟩,
   fun e c' hr => ⟨(h c hc.1).2 e c' hr, (h' c hc.2).2 e c' hr⟩⟩

theorem Triple.ite {α} {P : Ctx → Prop} {Q : α → Ctx → Prop} {E} {b : Prop} [Decidable b] {m1 m2 : PM α}
    (h1 : b → Triple P m1 Q E) (h2 : ¬ b → Triple P m2 Q E) : Triple P (if b then m1 else m2) Q E := by
  split
  · exact h1 ‹_›
  · exact h2 ‹_›

/-- precondition may be assumed inhabited by a concrete context -/
theorem Triple.of_forall {α} {P : Ctx → Prop} {m : PM α} {Q : α → Ctx → Prop} {E}
    (h : ∀ c0, P c0 → Triple (fun c => c = c0) m Q E) : Triple P m Q E :=
  fun c hc => h c hc c rfl

theorem run_readToken (c : Ctx) : run readToken c =
    match c.queue with
    | t :: q => (.ok t, { c with queue := q })
    | [] => match c.lines with
      | l :: ls => (.ok { line := some l, lineNo := c.lineNo + 1 }, { c with lines := ls, lineNo := c.lineNo + 1 })
      | [] => (.ok { line := none, lineNo := c.lineNo + 1 }, { c with lineNo := c.lineNo + 1 }) := by
  unfold readToken
  simp only [prun_bind, run_get]
  cases c.queue with
  | cons t q => simp only [prun_bind, run_set, prun_pure]
  | nil => cases c.lines <;> simp only [prun_bind, run_set, prun_pure]

theorem run_addError (cap : Nat) (e : PErr) (c : Ctx) : run (addError cap e) c =
    if c.errors.any (fun e' => e'.message == e.message) then (.ok (), c)
    else if (c.errors ++ [e]).length > cap then
      (.error (.composite (c.errors ++ [e])), { c with errors := c.errors ++ [e] })
    else (.ok (), { c with errors := c.errors ++ [e] }) := by
  unfold addError
  simp only [prun_bind, run_get]
  split
  · rfl
  · simp only [prun_bind, run_set]
    split <;> rfl

theorem run_matchP (D : List Dialect) (cap : Nat) (stop : Bool) (k : Kind) (t : Token) (c : Ctx) :
    run (matchP D cap stop k t) c =
      let out := (matchTok D k c.μ t).1
      let c1 : Ctx := { c with μ := out.μ, calls := c.calls + (if (matchTok D k c.μ t).2 then 1 else 0) }
      match out.res with
      | .matched => (.ok (true, out.tok), c1)
      | .no => (.ok (false, out.tok), c1)
      | .raised e =>
        if stop then (.error (.single e), c1)
        else match run (addError cap e) c1 with
          | (.ok _, c2) => (.ok (false, out.tok), c2)
          | (.error e, c2) => (.error e, c2) := by
  unfold matchP
  simp only [prun_bind, run_get, run_set]
  cases h : (matchTok D k c.μ t).1.res with
  | matched => simp only [prun_pure]
  | no => simp only [prun_pure]
  | raised e =>
    cases stop
    · simp only [prun_bind, Bool.false_eq_true, if_false]
      rcases run (addError cap e) _ with ⟨r, c2⟩
      cases r <;> simp [prun_pure]
    · simp [prun_throw]

theorem run_liftB (cap : Nat) (stop : Bool) (r : Except BErr Unit) (c : Ctx) :
    run (liftB cap stop r) c = match r with
      | .ok () => (.ok (), c)
      | .error (.crash w) => (.error (.crash w), c)
      | .error (.ast e) => if stop then (.error (.single e), c) else run (addError cap e) c := by
  unfold liftB
  split
  · rfl
  · rfl
  · cases stop <;> simp [prun_throw]

theorem run_runProd (cap : Nat) (stop : Bool) (t : Token) (p : Prod) (c : Ctx) :
    run (runProd cap stop t p) c = match p with
      | .start r => (.ok (), { c with β := c.β.startRule r })
      | .end_ _ => run (liftB cap stop (c.β.endRule c.ids).1)
          { c with β := (c.β.endRule c.ids).2.1, ids := (c.β.endRule c.ids).2.2 }
      | .build => match c.β.build t with
        | .ok β' => (.ok (), { c with β := β', builds := c.builds ++ [t] })
        | .error e => run (liftB cap stop (.error e)) c := by
  unfold runProd
  simp only [prun_bind, run_get]
  cases p with
  | start r => simp only [run_set]
  | end_ r => simp only [prun_bind, run_set]
  | build =>
    simp only []
    cases c.β.build t <;> simp only [run_set]

theorem Triple.intro {α} {P : Ctx → Prop} {m : PM α} {Q : α → Ctx → Prop} {E}
    (h : ∀ c r c', P c → run m c = (r, c') → match r with | .ok a => Q a c' | .error e => E e c') :
    Triple P m Q E := fun c hc =>
  ⟨fun a c' hr => h c (.ok a) c' hc hr, fun e c' hr => h c (.error e) c' hc hr⟩

/-! ### One invariant through all the glue -/

/-- `P` holds after `m` whenever it held before and `m` returned; aborts satisfy `E`. -/
def Inv {α} (P : Ctx → Prop) (E : Abort → Ctx → Prop) (m : PM α) : Prop := Triple P m (fun _ => P) E

theorem Inv.bind {α β} {P : Ctx → Prop} {E} {m : PM α} {f : α → PM β}
    (h1 : Inv P E m) (h2 : ∀ a, Inv P E (f a)) : Inv P E (m >>= f) := Triple.bind h1 h2

theorem Inv.pure {α} {P : Ctx → Prop} {E} (a : α) : Inv P E (pure a : PM α) := Triple.pure a fun _ h => h

/-- what the scanner-side primitives must satisfy for `P`/`E` to go through a look-ahead -/
structure PrimsL (D : List Dialect) (cap : Nat) (stop : Bool) (P : Ctx → Prop) (E : Abort → Ctx → Prop) : Prop where
  readToken : Inv P E readToken
  matchP : ∀ k t, Inv P E (matchP D cap stop k t)
  modQ : ∀ q c, P c → P { c with queue := c.queue ++ q }
  fuel : ∀ c, P c → E .fuel c

/-- what the primitive operations must satisfy for `P`/`E` to go through the whole parse loop -/
structure Prims (D : List Dialect) (T : Table) (stop : Bool) (P : Ctx → Prop) (E : Abort → Ctx → Prop) : Prop
    extends PrimsL D T.errorCap stop P E where
  runProd : ∀ t p, Inv P E (runProd T.errorCap stop t p)
  modR : ∀ n c, P c → P { c with reads := c.reads ++ [n] }
  crash : ∀ w c, P c → E (.crash w) c
  tail : ∀ row t, Inv P E (tryBranches D T stop row [] t)

section generic
variable {D : List Dialect} {T : Table} {cap : Nat} {stop : Bool} {P : Ctx → Prop} {E : Abort → Ctx → Prop}

theorem Inv.matchAny (h : ∀ k t, Inv P E (matchP D cap stop k t)) (ks : List Kind) (t : Token) :
    Inv P E (matchAny D cap stop ks t) := by
  induction ks generalizing t with
  | nil => exact Inv.pure _
  | cons k ks ih =>
    unfold GV.matchAny
    refine Inv.bind (h k t) fun r => ?_
    obtain ⟨m, t'⟩ := r
    dsimp only
    split
    · exact Inv.pure _
    · exact ih _

theorem PrimsL.matchAny (h : PrimsL D cap stop P E) (ks : List Kind) (t : Token) :
    Inv P E (GV.matchAny D cap stop ks t) := Inv.matchAny h.matchP ks t

theorem PrimsL.lookaheadLoop (h : PrimsL D cap stop P E) (la : LookAhead) (fuel : Nat) (acc : List Token) :
    Inv P E (lookaheadLoop D cap stop la fuel acc) := by
  induction fuel generalizing acc with
  | zero => exact Triple.throw _ h.fuel
  | succ n ih =>
    unfold GV.lookaheadLoop
    refine Inv.bind h.readToken fun t => Inv.bind (h.matchAny _ _) fun r => ?_
    obtain ⟨m, t1⟩ := r
    dsimp only
    split
    · exact Inv.pure _
    · refine Inv.bind (h.matchAny _ _) fun r => ?_
      obtain ⟨s, t2⟩ := r
      dsimp only
      split
      · exact ih _
      · exact Inv.pure _

theorem PrimsL.lookahead (h : PrimsL D cap stop P E) (la : LookAhead) :
    Inv P E (lookahead D cap stop la) := by
  unfold GV.lookahead
  refine Triple.bind Triple.get fun c0 => ?_
  refine Triple.bind (Triple.conseq (h.lookaheadLoop la _ _) (fun _ hc => hc.2) (fun _ _ hc => hc) (fun _ _ he => he)) fun r => ?_
  exact Triple.bind (Triple.modify _ fun c hc => h.modQ _ c hc) fun _ => Inv.pure _

theorem Inv.runProds {t : Token} (ps : List Prod) (h : ∀ p ∈ ps, Inv P E (runProd cap stop t p)) :
    Inv P E (runProds cap stop t ps) := by
  induction ps with
  | nil => exact Inv.pure _
  | cons p ps ih =>
    exact Inv.bind (h p (List.mem_cons_self ..)) fun _ => ih fun p hp => h p (List.mem_cons_of_mem _ hp)

theorem Prims.matchAny (h : Prims D T stop P E) (ks : List Kind) (t : Token) :
    Inv P E (GV.matchAny D T.errorCap stop ks t) := h.toPrimsL.matchAny ks t

theorem Prims.lookahead (h : Prims D T stop P E) (la : LookAhead) :
    Inv P E (GV.lookahead D T.errorCap stop la) := h.toPrimsL.lookahead la

theorem Prims.runProds (h : Prims D T stop P E) (t : Token) (ps : List Prod) :
    Inv P E (runProds T.errorCap stop t ps) := by
  exact Inv.runProds ps fun p _ => h.runProd t p

/-- what `match_token` needs: the look-aheads of the table as a whole, no fuel clause -/
structure PrimsT (D : List Dialect) (T : Table) (stop : Bool) (P : Ctx → Prop) (E : Abort → Ctx → Prop) : Prop where
  matchP : ∀ k t, Inv P E (GV.matchP D T.errorCap stop k t)
  lookahead : ∀ (i : Nat) (la : LookAhead), T.lookaheads[i]? = some la → Inv P E (GV.lookahead D T.errorCap stop la)
  runProd : ∀ t p, Inv P E (GV.runProd T.errorCap stop t p)
  crash : ∀ w c, P c → E (.crash w) c
  tail : ∀ row t, Inv P E (GV.tryBranches D T stop row [] t)

theorem Prims.toPrimsT (h : Prims D T stop P E) : PrimsT D T stop P E :=
  { matchP := h.matchP, lookahead := fun _ la _ => h.lookahead la, runProd := h.runProd,
    crash := h.crash, tail := h.tail }

theorem PrimsT.tryBranches (h : PrimsT D T stop P E) (row : StateRow) (bs : List Branch) (t : Token) :
    Inv P E (tryBranches D T stop row bs t) := by
  induction bs generalizing t with
  | nil => exact h.tail row t
  | cons b bs ih =>
    unfold GV.tryBranches
    refine Inv.bind (h.matchP _ _) fun r => ?_
    obtain ⟨m, t'⟩ := r
    dsimp only
    split
    · have cont : ∀ ok : Bool, Inv P E (if ok = true then do
            GV.runProds T.errorCap stop t' b.prods
            pure b.target
          else GV.tryBranches D T stop row bs t') := by
        intro ok
        split
        · exact Inv.bind (Inv.runProds _ fun p _ => h.runProd _ p) fun _ => Inv.pure _
        · exact ih _
      split
      · exact Inv.bind (Inv.pure _) cont
      · split
        · rename_i hla
          exact Inv.bind (h.lookahead _ _ hla) cont
        · exact Inv.bind (Triple.throw _ (h.crash _)) cont
    · exact ih _

theorem PrimsT.matchToken (h : PrimsT D T stop P E) (state : Nat) (t : Token) :
    Inv P E (matchToken D T stop state t) := by
  unfold GV.matchToken
  split
  · exact h.tryBranches _ _ _
  · exact Triple.throw _ (h.crash _)

theorem Prims.tryBranches (h : Prims D T stop P E) (row : StateRow) (bs : List Branch) (t : Token) :
    Inv P E (tryBranches D T stop row bs t) := h.toPrimsT.tryBranches row bs t

theorem Prims.matchToken (h : Prims D T stop P E) (state : Nat) (t : Token) :
    Inv P E (matchToken D T stop state t) := h.toPrimsT.matchToken state t

theorem Prims.parseLoop (h : Prims D T stop P E) (fuel state : Nat) :
    Inv P E (parseLoop D T stop fuel state) := by
  induction fuel generalizing state with
  | zero => exact Triple.throw _ h.fuel
  | succ n ih =>
    unfold GV.parseLoop
    refine Inv.bind h.readToken fun t => ?_
    refine Inv.bind (Triple.modify _ fun c hc => h.modR _ c hc) fun _ => ?_
    refine Inv.bind (h.matchToken _ _) fun s => ?_
    split
    · exact Inv.pure _
    · exact ih _

theorem result_not_ast (β : BState) (e : PErr) : β.result ≠ .error (.ast e) := by
  unfold BState.result
  intro h
  split at h
  · split at h <;> cases h
  · cases h

theorem Prims.parseBody (h : Prims D T stop P E)
    (modB : ∀ r c, P c → P { c with β := c.β.startRule r })
    (hcomp : ∀ c, P c → c.errors ≠ [] → E (.composite c.errors) c) (n : Nat) :
    Triple P (parseBody D T stop n) (fun _ c => P c ∧ c.errors = []) E := by
  unfold GV.parseBody
  refine Triple.bind (Q := fun _ => P) (Triple.modify _ fun c hc => modB _ c hc) fun _ => ?_
  refine Triple.bind (h.parseLoop _ _) fun _ => ?_
  refine Triple.bind (h.runProd _ _) fun _ => ?_
  refine Triple.bind Triple.get fun c0 => ?_
  dsimp only
  split
  · rename_i hne
    refine Triple.bind (Q := fun _ _ => False) (Triple.throw _ fun c hc => ?_) fun _ _ hf => hf.elim
    obtain ⟨rfl, hc⟩ := hc
    refine hcomp _ hc ?_
    intro h0; simp [h0] at hne
  · rename_i hne
    have he : c0.errors = [] := by
      cases he : c0.errors with
      | nil => rfl
      | cons a l => simp [he] at hne
    split
    · exact Triple.pure _ fun c hc => by obtain ⟨rfl, hc⟩ := hc; exact ⟨hc, he⟩
    · exact Triple.throw _ fun c hc => h.crash _ c hc.2
    · exact Triple.throw _ fun c hc => h.crash _ c hc.2
    · rename_i e he
      exact absurd he (result_not_ast _ _)

/-- primitives for an invariant that only looks at the error list and the `unexpected` ghost -/
theorem Prims.of_errOnly
    (hdep : ∀ c c' : Ctx, c'.errors = c.errors → c'.unexpected = c.unexpected → P c → P c')
    (hadd : stop = false → ∀ e, Inv P E (addError T.errorCap e))
    (hsingle : stop = true → ∀ e c, P c → E (.single e) c)
    (hcrash : ∀ w c, P c → E (.crash w) c) (hfuel : ∀ c, P c → E .fuel c)
    (htail : ∀ row t, Inv P E (GV.tryBranches D T stop row [] t)) : Prims D T stop P E := by
  have hlift : ∀ r, Inv P E (liftB T.errorCap stop r) := by
    intro r
    unfold liftB
    split
    · exact Inv.pure _
    · exact Triple.throw _ (hcrash _)
    · cases hs : stop
      · exact hadd hs _
      · exact Triple.throw _ (hsingle hs _)
  have hset : ∀ c0 c1 : Ctx, c1.errors = c0.errors → c1.unexpected = c0.unexpected →
      Triple (fun c => c0 = c ∧ P c) (set c1 : PM PUnit) (fun _ => P) E := by
    intro c0 c1 h1 h2
    refine Triple.intro fun c r c' hc hr => ?_
    rw [run_set] at hr; cases hr; obtain ⟨rfl, hc⟩ := hc
    exact hdep c0 _ h1 h2 hc
  exact {
    modQ := fun q c h => hdep c _ rfl rfl h
    fuel := hfuel
    readToken := by
      refine Triple.intro fun c r c' hc hr => ?_
      rw [run_readToken] at hr
      split at hr
      · cases hr; exact hdep c _ rfl rfl hc
      · split at hr <;> (cases hr; exact hdep c _ rfl rfl hc)
    matchP := fun k t => by
      unfold GV.matchP
      refine Triple.bind Triple.get fun c0 => ?_
      dsimp only
      refine Triple.bind (hset c0 _ rfl rfl) fun _ => ?_
      split
      · exact Inv.pure _
      · exact Inv.pure _
      · cases hs : stop
        · exact Inv.bind (hadd hs _) fun _ => Inv.pure _
        · exact Triple.throw _ (hsingle hs _)
    runProd := fun t p => by
      unfold GV.runProd
      refine Triple.bind Triple.get fun c0 => ?_
      split
      · exact hset _ _ rfl rfl
      · dsimp only
        exact Triple.bind (hset _ _ rfl rfl) fun _ => hlift _
      · split
        · exact hset _ _ rfl rfl
        · exact Triple.conseq (hlift _) (fun _ h => h.2) (fun _ _ h => h) (fun _ _ h => h)
    modR := fun n c h => hdep c _ rfl rfl h
    crash := hcrash
    tail := htail }

end generic

/-! ### Footprints: which fields an operation can change -/

def FootE (c0 c : Ctx) : Prop := ∃ es, c = { c0 with errors := es }
def FootM (c0 c : Ctx) : Prop := ∃ μ n es, c = { c0 with μ := μ, calls := n, errors := es }
def FootL (c0 c : Ctx) : Prop :=
  ∃ μ n es q ls ln, c = { c0 with μ := μ, calls := n, errors := es, queue := q, lines := ls, lineNo := ln }
def FootB (c0 c : Ctx) : Prop := ∃ β i es, c = { c0 with β := β, ids := i, errors := es }
def FootB' (c0 c : Ctx) : Prop := ∃ β i es b, c = { c0 with β := β, ids := i, errors := es, builds := b }

theorem FootE.refl (c : Ctx) : FootE c c := ⟨_, rfl⟩
theorem FootM.refl (c : Ctx) : FootM c c := ⟨_, _, _, rfl⟩
theorem FootL.refl (c : Ctx) : FootL c c := ⟨_, _, _, _, _, _, rfl⟩
theorem FootB.refl (c : Ctx) : FootB c c := ⟨_, _, _, rfl⟩
theorem FootB'.refl (c : Ctx) : FootB' c c := ⟨_, _, _, _, rfl⟩
theorem FootM.trans {a b c : Ctx} (h1 : FootM a b) (h2 : FootM b c) : FootM a c := by
  obtain ⟨_, _, _, rfl⟩ := h1; obtain ⟨_, _, _, rfl⟩ := h2; exact ⟨_, _, _, rfl⟩
theorem FootL.trans {a b c : Ctx} (h1 : FootL a b) (h2 : FootL b c) : FootL a c := by
  obtain ⟨_, _, _, _, _, _, rfl⟩ := h1; obtain ⟨_, _, _, _, _, _, rfl⟩ := h2; exact ⟨_, _, _, _, _, _, rfl⟩
theorem FootB.trans {a b c : Ctx} (h1 : FootB a b) (h2 : FootB b c) : FootB a c := by
  obtain ⟨_, _, _, rfl⟩ := h1; obtain ⟨_, _, _, rfl⟩ := h2; exact ⟨_, _, _, rfl⟩
theorem FootB'.trans {a b c : Ctx} (h1 : FootB' a b) (h2 : FootB' b c) : FootB' a c := by
  obtain ⟨_, _, _, _, rfl⟩ := h1; obtain ⟨_, _, _, _, rfl⟩ := h2; exact ⟨_, _, _, _, rfl⟩
theorem FootE.toM {a b : Ctx} (h : FootE a b) : FootM a b := by obtain ⟨_, rfl⟩ := h; exact ⟨_, _, _, rfl⟩
theorem FootE.toB {a b : Ctx} (h : FootE a b) : FootB a b := by obtain ⟨_, rfl⟩ := h; exact ⟨_, _, _, rfl⟩
theorem FootM.toL {a b : Ctx} (h : FootM a b) : FootL a b := by
  obtain ⟨_, _, _, rfl⟩ := h; exact ⟨_, _, _, _, _, _, rfl⟩
theorem FootB.toB' {a b : Ctx} (h : FootB a b) : FootB' a b := by
  obtain ⟨_, _, _, rfl⟩ := h; exact ⟨_, _, _, _, rfl⟩

/-- a reflexive, transitive footprint goes through any computation whose steps have it -/
theorem Inv.of_foot {α} (R : Ctx → Ctx → Prop) (htrans : ∀ a b c, R a b → R b c → R a c) {m : PM α}
    (h : ∀ c r c', run m c = (r, c') → R c c') (c0 : Ctx) : Inv (R c0) (fun _ => R c0) m := by
  refine Triple.intro fun c r c' hc hr => ?_
  cases r <;> exact htrans _ _ _ hc (h _ _ _ hr)

theorem foot_of_inv {α} (R : Ctx → Ctx → Prop) (hrefl : ∀ c, R c c) {m : PM α}
    (h : ∀ c0, Inv (R c0) (fun _ => R c0) m) : ∀ c r c', run m c = (r, c') → R c c' := by
  intro c r c' hr
  cases r with
  | ok a => exact ((h c) c (hrefl c)).1 _ _ hr
  | error e => exact ((h c) c (hrefl c)).2 _ _ hr

theorem readToken_foot (c : Ctx) (r : Except Abort Token) (c' : Ctx) (h : run readToken c = (r, c')) :
    FootL c c' := by
  rw [run_readToken] at h
  split at h
  · cases h; exact ⟨_, _, _, _, _, _, rfl⟩
  · split at h <;> (cases h; exact ⟨_, _, _, _, _, _, rfl⟩)

/-- the two ways of reading a token: from the queue, or a fresh one from the lines -/
theorem readToken_cases (c : Ctx) : ∃ t c', run readToken c = (.ok t, c') ∧
    ((∃ q, c.queue = t :: q ∧ c' = { c with queue := q }) ∨
     (c.queue = [] ∧ t = { line := c.lines.head?, lineNo := c.lineNo + 1 } ∧
      c' = { c with lines := c.lines.tail, lineNo := c.lineNo + 1 })) := by
  rw [run_readToken]
  split
  · rename_i t q hq
    exact ⟨_, _, rfl, .inl ⟨q, hq, rfl⟩⟩
  · rename_i hq
    split
    · rename_i l ls hl
      refine ⟨_, _, rfl, .inr ⟨hq, ?_, ?_⟩⟩
      · rw [hl]; rfl
      · rw [hl]; rfl
    · rename_i hl
      refine ⟨_, _, rfl, .inr ⟨hq, ?_, ?_⟩⟩
      · rw [hl]; rfl
      · rw [hl]; rfl

theorem readToken_ok (c : Ctx) : ∃ t c', run readToken c = (.ok t, c') := by
  rw [run_readToken]
  split
  · exact ⟨_, _, rfl⟩
  · split <;> exact ⟨_, _, rfl⟩

theorem addError_foot (cap : Nat) (e : PErr) (c : Ctx) (r : Except Abort Unit) (c' : Ctx)
    (h : run (addError cap e) c = (r, c')) : FootE c c' := by
  rw [run_addError] at h
  split at h
  · cases h; exact ⟨_, rfl⟩
  · split at h <;> (cases h; exact ⟨_, rfl⟩)

theorem matchP_foot (D : List Dialect) (cap : Nat) (stop : Bool) (k : Kind) (t : Token) (c : Ctx)
    (r : Except Abort (Bool × Token)) (c' : Ctx) (h : run (matchP D cap stop k t) c = (r, c')) : FootM c c' := by
  rw [run_matchP] at h
  dsimp only at h
  split at h
  · cases h; exact ⟨_, _, _, rfl⟩
  · cases h; exact ⟨_, _, _, rfl⟩
  · split at h
    · cases h; exact ⟨_, _, _, rfl⟩
    · rcases hr : run (addError cap _) _ with ⟨r2, c2⟩
      rw [hr] at h
      obtain ⟨es, rfl⟩ := addError_foot _ _ _ _ _ hr
      cases r2 <;> (cases h; exact ⟨_, _, _, rfl⟩)

theorem liftB_foot (cap : Nat) (stop : Bool) (x : Except BErr Unit) (c : Ctx) (r : Except Abort Unit) (c' : Ctx)
    (h : run (liftB cap stop x) c = (r, c')) : FootE c c' := by
  rw [run_liftB] at h
  split at h
  · cases h; exact FootE.refl _
  · cases h; exact FootE.refl _
  · split at h
    · cases h; exact FootE.refl _
    · exact addError_foot _ _ _ _ _ h

theorem build_error (β : BState) (t : Token) (e : BErr) (h : β.build t = .error e) : ∃ w, e = .crash w := by
  unfold BState.build at h
  split at h
  · split at h <;> cases h; exact ⟨_, rfl⟩
  · split at h <;> cases h; exact ⟨_, rfl⟩
  · cases h; exact ⟨_, rfl⟩

theorem runProd_foot (cap : Nat) (stop : Bool) (t : Token) (p : Prod) (hp : p ≠ .build) (c : Ctx)
    (r : Except Abort Unit) (c' : Ctx) (h : run (runProd cap stop t p) c = (r, c')) : FootB c c' := by
  rw [run_runProd] at h
  split at h
  · cases h; exact ⟨_, _, _, rfl⟩
  · obtain ⟨es, rfl⟩ := liftB_foot _ _ _ _ _ _ h
    exact ⟨_, _, _, rfl⟩
  · exact absurd rfl hp

theorem runProd_foot' (cap : Nat) (stop : Bool) (t : Token) (p : Prod) (c : Ctx)
    (r : Except Abort Unit) (c' : Ctx) (h : run (runProd cap stop t p) c = (r, c')) : FootB' c c' := by
  by_cases hp : p = .build
  · subst hp
    rw [run_runProd] at h
    dsimp only at h
    split at h
    · cases h; exact ⟨_, _, _, _, rfl⟩
    · obtain ⟨es, rfl⟩ := liftB_foot _ _ _ _ _ _ h
      exact ⟨_, _, _, _, rfl⟩
  · exact (runProd_foot cap stop t p hp c r c' h).toB'

theorem matchAny_foot (D : List Dialect) (cap : Nat) (stop : Bool) (ks : List Kind) (t : Token) :
    ∀ c r c', run (matchAny D cap stop ks t) c = (r, c') → FootM c c' :=
  foot_of_inv FootM FootM.refl fun c0 =>
    Inv.matchAny (fun k t => Inv.of_foot FootM (fun _ _ _ => FootM.trans) (matchP_foot D cap stop k t) c0) ks t

theorem lookahead_foot (D : List Dialect) (cap : Nat) (stop : Bool) (la : LookAhead) :
    ∀ c r c', run (lookahead D cap stop la) c = (r, c') → FootL c c' :=
  foot_of_inv FootL FootL.refl fun c0 =>
    PrimsL.lookahead
      { readToken := Inv.of_foot FootL (fun _ _ _ => FootL.trans) readToken_foot c0
        matchP := fun k t => Inv.of_foot FootL (fun _ _ _ => FootL.trans) (fun c r c' h => (matchP_foot D cap stop k t c r c' h).toL) c0
        modQ := fun q c h => by obtain ⟨_, _, _, _, _, _, rfl⟩ := h; exact ⟨_, _, _, _, _, _, rfl⟩
        fuel := fun c h => h } la

theorem runProds_foot' (cap : Nat) (stop : Bool) (t : Token) (ps : List Prod) :
    ∀ c r c', run (runProds cap stop t ps) c = (r, c') → FootB' c c' :=
  foot_of_inv FootB' FootB'.refl fun c0 =>
    Inv.runProds ps fun p _ => Inv.of_foot FootB' (fun _ _ _ => FootB'.trans) (runProd_foot' cap stop t p) c0

theorem runProds_foot (cap : Nat) (stop : Bool) (t : Token) (ps : List Prod) (hps : ∀ p ∈ ps, p ≠ .build) :
    ∀ c r c', run (runProds cap stop t ps) c = (r, c') → FootB c c' :=
  foot_of_inv FootB FootB.refl fun c0 =>
    Inv.runProds ps fun p hp => Inv.of_foot FootB (fun _ _ _ => FootB.trans) (runProd_foot cap stop t p (hps p hp)) c0

/-! ### Matching never changes the line or the line number of a token -/

theorem matchTitle_tok {μ : MState} {t t' : Token} {l : Str} {ty : Kind} {kws : List Str}
    (h : matchTitle μ t l ty kws = some t') : t'.line = t.line ∧ t'.lineNo = t.lineNo := by
  unfold matchTitle at h
  split at h
  · cases h; exact ⟨rfl, rfl⟩
  · cases h

theorem matchDocSep_tok {μ μ' : MState} {t t' : Token} {l sep : Str} {o : Bool}
    (h : matchDocSep μ t l sep o = some (t', μ')) : t'.line = t.line ∧ t'.lineNo = t.lineNo := by
  unfold matchDocSep at h
  split at h
  · split at h <;> (cases h; exact ⟨rfl, rfl⟩)
  · cases h

theorem matchLine_tok (D : List Dialect) (k : Kind) (μ : MState) (t : Token) (l : Str) :
    (matchLine D k μ t l).tok.line = t.line ∧ (matchLine D k μ t l).tok.lineNo = t.lineNo := by
  have hopt : ∀ (o : Option Token), (∀ t', o = some t' → t'.line = t.line ∧ t'.lineNo = t.lineNo) →
      (match o with | some t' => (⟨t', μ, .matched⟩ : MOut) | none => ⟨t, μ, .no⟩).tok.line = t.line ∧
      (match o with | some t' => (⟨t', μ, .matched⟩ : MOut) | none => ⟨t, μ, .no⟩).tok.lineNo = t.lineNo := by
    intro o ho
    cases o with
    | none => exact ⟨rfl, rfl⟩
    | some t' => exact ho t' rfl
  cases k
  case EOF => exact ⟨rfl, rfl⟩
  case FeatureLine => exact hopt _ fun t' h => matchTitle_tok h
  case RuleLine => exact hopt _ fun t' h => matchTitle_tok h
  case BackgroundLine => exact hopt _ fun t' h => matchTitle_tok h
  case ExamplesLine => exact hopt _ fun t' h => matchTitle_tok h
  case ScenarioLine =>
    simp only [matchLine]
    split
    · rename_i h; exact matchTitle_tok h
    · exact hopt _ fun t' h => matchTitle_tok h
  case TableRow => simp only [matchLine]; split <;> exact ⟨rfl, rfl⟩
  case StepLine => simp only [matchLine]; split <;> exact ⟨rfl, rfl⟩
  case Comment => simp only [matchLine]; split <;> exact ⟨rfl, rfl⟩
  case Empty => simp only [matchLine]; split <;> exact ⟨rfl, rfl⟩
  case Other => exact ⟨rfl, rfl⟩
  case Language =>
    simp only [matchLine]
    split
    · exact ⟨rfl, rfl⟩
    · split <;> exact ⟨rfl, rfl⟩
  case TagLine =>
    simp only [matchLine]
    split
    · split <;> exact ⟨rfl, rfl⟩
    · exact ⟨rfl, rfl⟩
  case DocStringSeparator =>
    simp only [matchLine]
    split
    · rename_i t' μ' h
      split at h
      · cases h1 : matchDocSep μ t l dq3 true with
        | some x => rw [h1] at h; simp only [Option.orElse] at h; cases h; exact matchDocSep_tok h1
        | none => rw [h1] at h; simp only [Option.orElse] at h; exact matchDocSep_tok h
      · split at h
        · cases h1 : matchDocSep μ t l dq3 true with
          | some x => rw [h1] at h; simp only [Option.orElse] at h; cases h; exact matchDocSep_tok h1
          | none => rw [h1] at h; simp only [Option.orElse] at h; exact matchDocSep_tok h
        · exact matchDocSep_tok h
    · exact ⟨rfl, rfl⟩

theorem matchTok_tok (D : List Dialect) (k : Kind) (μ : MState) (t : Token) :
    (matchTok D k μ t).1.tok.line = t.line ∧ (matchTok D k μ t).1.tok.lineNo = t.lineNo := by
  unfold matchTok
  split
  · split <;> exact ⟨rfl, rfl⟩
  · exact matchLine_tok D k μ t _

/-- result-only postcondition -/
def TokKeep (t : Token) (r : Bool × Token) : Prop := r.2.line = t.line ∧ r.2.lineNo = t.lineNo

theorem matchP_tok (D : List Dialect) (cap : Nat) (stop : Bool) (k : Kind) (t : Token) (c : Ctx)
    (r : Bool × Token) (c' : Ctx) (h : run (matchP D cap stop k t) c = (.ok r, c')) : TokKeep t r := by
  rw [run_matchP] at h
  dsimp only at h
  have ht := matchTok_tok D k c.μ t
  split at h
  · cases h; exact ht
  · cases h; exact ht
  · split at h
    · cases h
    · rcases hr : run (addError cap _) _ with ⟨r2, c2⟩
      rw [hr] at h
      cases r2 <;> cases h
      exact ht

theorem matchAny_tok (D : List Dialect) (cap : Nat) (stop : Bool) (ks : List Kind) (t : Token) (c : Ctx)
    (r : Bool × Token) (c' : Ctx) (h : run (matchAny D cap stop ks t) c = (.ok r, c')) : TokKeep t r := by
  induction ks generalizing t c with
  | nil => rw [GV.matchAny, prun_pure] at h; cases h; exact ⟨rfl, rfl⟩
  | cons k ks ih =>
    rw [GV.matchAny, prun_bind] at h
    rcases hr : run (matchP D cap stop k t) c with ⟨r1, c1⟩
    rw [hr] at h
    cases r1 with
    | error e => cases h
    | ok r1 =>
      obtain ⟨m, t'⟩ := r1
      have h1 := matchP_tok D cap stop k t c _ c1 hr
      dsimp only at h
      split at h
      · rw [prun_pure] at h; cases h; exact h1
      · have h2 := ih _ _ h
        exact ⟨h2.1.trans h1.1, h2.2.trans h1.2⟩

end Lemmas
end GV
