/-
  Lemmas/LayoutDoc6Builder.lean — an EMPTY `Description` item is invisible to the builder.

  Groundwork for the main remaining case of goal G3 of property C16 (a comment line inserted
  directly after a keyword line and followed by a structural line: the run closes an empty
  `Description` node, which leaves an item `(.rule .Description, .descr "")` in the open node).
  `ItemsD` / `ValD` relate node contents and values that are equal except for such extra items in
  the second — at the top level of a node that has no `Description` item behind that position, and
  anywhere inside finished raw nodes.  `transform_node` on related contents draws the same ids and
  yields the same error or related values — EQUAL ones for every typed result (step, background,
  scenario, examples, rule, feature, document, tables, doc string, description).
-/
import GherkinVerif.Lemmas.LayoutBuilder
namespace GV
namespace Layout6
open Lemmas Spec

/-- item lists equal up to extra empty-description items in the second; such an item may stand only
    where the first list has no `Description` item from there on -/
inductive ItemsD (R : Val → Val → Prop) : List (Key × Val) → List (Key × Val) → Prop
  | nil : ItemsD R [] []
  | cons (k : Key) {v w : Val} {xs ys : List (Key × Val)} (h : R v w) (t : ItemsD R xs ys) :
      ItemsD R ((k, v) :: xs) ((k, w) :: ys)
  | extraD {xs ys : List (Key × Val)} (t : ItemsD R xs ys) (hd : getItems xs (.rule .Description) = []) :
      ItemsD R xs ((.rule .Description, .descr []) :: ys)

/-- values equal up to extra empty-description items inside raw nodes -/
inductive ValD : Val → Val → Prop
  | refl (v : Val) : ValD v v
  | raw (rt : RuleType) {xs ys : List (Key × Val)} (h : ItemsD ValD xs ys) : ValD (.raw rt xs) (.raw rt ys)

theorem ItemsD.refl : ∀ xs : List (Key × Val), ItemsD ValD xs xs
  | [] => .nil
  | (k, v) :: xs => .cons k (.refl v) (ItemsD.refl xs)

theorem getItems_append (xs xs' : List (Key × Val)) (k : Key) : getItems (xs ++ xs') k = getItems xs k ++ getItems xs' k := by
  unfold getItems; simp

/-- appending related items: no `Description` item may be appended behind a pending extra one -/
theorem ItemsD.append {R : Val → Val → Prop} {xs ys xs' ys' : List (Key × Val)} (h : ItemsD R xs ys)
    (h' : ItemsD R xs' ys') (hd : getItems xs' (.rule .Description) = []) : ItemsD R (xs ++ xs') (ys ++ ys') := by
  induction h with
  | nil => exact h'
  | cons k hv _ ih => exact .cons k hv ih
  | extraD _ hd0 ih => exact .extraD ih (by rw [getItems_append, hd0, hd]; rfl)

/-- … unless the second list has no `Description` item at all (then nothing is pending) -/
theorem ItemsD.append_noDesc {R : Val → Val → Prop} {xs ys xs' ys' : List (Key × Val)} (h : ItemsD R xs ys)
    (h' : ItemsD R xs' ys') (hn : getItems ys (.rule .Description) = []) : ItemsD R (xs ++ xs') (ys ++ ys') := by
  induction h with
  | nil => exact h'
  | cons k hv _ ih =>
    refine .cons k hv (ih ?_)
    unfold getItems at hn ⊢
    simp only [List.filter_cons] at hn
    split at hn
    · simp at hn
    · exact hn
  | extraD _ _ _ =>
    unfold getItems at hn
    simp at hn

theorem getItems_D {R : Val → Val → Prop} {xs ys : List (Key × Val)} (h : ItemsD R xs ys) (k : Key)
    (hk : (Key.rule .Description == k) = false) : All2 R (getItems xs k) (getItems ys k) := by
  induction h with
  | nil => exact .nil
  | cons k' hv _ ih =>
    unfold getItems at ih ⊢
    simp only [List.filter_cons]
    by_cases hk' : (k' == k) = true
    · simp only [hk', ↓reduceIte, List.map_cons]
      exact .cons hv ih
    · simp only [hk', Bool.false_eq_true, ↓reduceIte]
      exact ih
  | extraD _ _ ih =>
    unfold getItems at ih ⊢
    simp only [List.filter_cons, hk, Bool.false_eq_true, ↓reduceIte]
    exact ih

theorem getSingle_D {xs ys : List (Key × Val)} (h : ItemsD ValD xs ys) (k : Key)
    (hk : (Key.rule .Description == k) = false) : ValD (getSingle xs k) (getSingle ys k) := by
  unfold getSingle
  have := getItems_D h k hk
  revert this
  generalize getItems xs k = vs
  generalize getItems ys k = ws
  intro hvw
  cases hvw with
  | nil => exact .refl _
  | cons hv _ => exact hv

theorem getSingle_cases_D {xs ys : List (Key × Val)} (h : ItemsD ValD xs ys) (k : Key)
    (hk : (Key.rule .Description == k) = false) :
    getSingle xs k = getSingle ys k ∨
    (∃ rt is js, ItemsD ValD is js ∧ getSingle xs k = .raw rt is ∧ getSingle ys k = .raw rt js) := by
  have := getSingle_D h k hk
  revert this
  generalize getSingle xs k = v
  generalize getSingle ys k = w
  intro hvw
  cases hvw with
  | refl => exact .inl rfl
  | raw rt hi => exact .inr ⟨rt, _, _, hi, rfl, rfl⟩

theorem filterMap_D {α} {g : Val → Option α} (hg : ∀ rt is, g (.raw rt is) = none) {vs ws : List Val}
    (h : All2 ValD vs ws) : vs.filterMap g = ws.filterMap g := by
  induction h with
  | nil => rfl
  | cons hv _ ih =>
    cases hv with
    | refl => simp only [List.filterMap_cons, ih]
    | raw rt hi => simp only [List.filterMap_cons, hg, ih]

theorem getTokens_D {xs ys : List (Key × Val)} (h : ItemsD ValD xs ys) (k : Kind) : getTokens xs k = getTokens ys k := by
  unfold getTokens
  exact filterMap_D (fun _ _ => rfl) (getItems_D h (.tok k) rfl)

theorem needToken_D {xs ys : List (Key × Val)} (h : ItemsD ValD xs ys) (k : Kind) : needToken xs k = needToken ys k := by
  unfold needToken
  rcases getSingle_cases_D h (.tok k) rfl with e | ⟨_, _, _, _, e1, e2⟩
  · rw [e]
  · simp only [e1, e2]

theorem getSteps_D {xs ys : List (Key × Val)} (h : ItemsD ValD xs ys) : getSteps xs = getSteps ys := by
  unfold getSteps
  exact filterMap_D (fun _ _ => rfl) (getItems_D h (.rule .Step) rfl)

theorem getScenarios_D {xs ys : List (Key × Val)} (h : ItemsD ValD xs ys) : getScenarios xs = getScenarios ys := by
  unfold getScenarios
  exact filterMap_D (fun _ _ => rfl) (getItems_D h (.rule .ScenarioDefinition) rfl)

theorem getBackground_D {xs ys : List (Key × Val)} (h : ItemsD ValD xs ys) : getBackground xs = getBackground ys := by
  unfold getBackground
  rcases getSingle_cases_D h (.rule .Background) rfl with e | ⟨_, _, _, _, e1, e2⟩
  · rw [e]
  · simp only [e1, e2]

theorem getTags_D {xs ys : List (Key × Val)} (h : ItemsD ValD xs ys) : getTags xs = getTags ys := by
  unfold getTags
  rcases getSingle_cases_D h (.rule .Tags) rfl with e | ⟨_, _, _, hi, e1, e2⟩
  · rw [e]
  · simp only [e1, e2, getTokens_D hi]

theorem getTableRows_D {xs ys : List (Key × Val)} (h : ItemsD ValD xs ys) : getTableRows xs = getTableRows ys := by
  unfold getTableRows
  rw [getTokens_D h]

/-- **the description of a node is the same with or without an extra empty-description item** -/
theorem getDescription_D {xs ys : List (Key × Val)} (h : ItemsD ValD xs ys) : getDescription xs = getDescription ys := by
  induction h with
  | nil => rfl
  | cons k hv _ ih =>
    unfold getDescription getItems at ih ⊢
    simp only [List.filter_cons]
    by_cases hk : (k == Key.rule RuleType.Description) = true
    · simp only [hk, ↓reduceIte, List.map_cons]
      cases hv with
      | refl => rename_i v _ _ _; cases v <;> rfl
      | raw rt hi => rfl
    · simp only [hk, Bool.false_eq_true, ↓reduceIte]
      exact ih
  | extraD _ hd _ =>
    unfold getDescription
    rw [hd]
    unfold getItems
    simp

/-! ### `transform_node` -/

theorem transformNode_D (cs : List Comment) (rt : RuleType) {xs ys : List (Key × Val)} (h : ItemsD ValD xs ys) :
    BSim ValD (transformNode cs ⟨rt, xs⟩) (transformNode cs ⟨rt, ys⟩) := by
  cases rt <;> simp only [transformNode]
  case None_ => exact BSim.pure (.raw _ h)
  case FeatureHeader => exact BSim.pure (.raw _ h)
  case RuleHeader => exact BSim.pure (.raw _ h)
  case Scenario => exact BSim.pure (.raw _ h)
  case Examples => exact BSim.pure (.raw _ h)
  case StepArg => exact BSim.pure (.raw _ h)
  case Tags => exact BSim.pure (.raw _ h)
  case DescriptionHelper => exact BSim.pure (.raw _ h)
  case GherkinDocument =>
    refine BSim.of_eq ValD.refl ?_
    rcases getSingle_cases_D h (.rule .Feature) rfl with e | ⟨_, _, _, _, e1, e2⟩
    · rw [e]
    · simp only [e1, e2]
  case ExamplesTable =>
    refine BSim.of_eq ValD.refl ?_
    rw [getTableRows_D h]
  case DataTable =>
    refine BSim.of_eq ValD.refl ?_
    rw [getTableRows_D h]
  case Description =>
    refine BSim.of_eq ValD.refl ?_
    rw [getTokens_D h]
  case DocString =>
    refine BSim.of_eq ValD.refl ?_
    rw [getTokens_D h .Other, getTokens_D h .DocStringSeparator]
  case Step =>
    refine BSim.of_eq ValD.refl ?_
    rw [needToken_D h]
    rcases getSingle_cases_D h (.rule .DataTable) rfl with e | ⟨_, _, _, _, e1, e2⟩ <;>
    rcases getSingle_cases_D h (.rule .DocString) rfl with e' | ⟨_, _, _, _, e1', e2'⟩ <;>
    simp only [*]
  case Background =>
    refine BSim.of_eq ValD.refl ?_
    rw [needToken_D h, getDescription_D h, getSteps_D h]
  case ScenarioDefinition =>
    refine BSim.of_eq ValD.refl ?_
    rw [getTags_D h]
    refine bind_congr_right _ fun tags => ?_
    rcases getSingle_cases_D h (.rule .Scenario) rfl with e | ⟨_, sc, sc', hsc, e1, e2⟩
    · rw [e]
    · simp only [e1, e2]
      rw [needToken_D hsc, getDescription_D hsc, getSteps_D hsc,
        filterMap_D ?_ (getItems_D hsc (.rule .ExamplesDefinition) rfl)]
      intro _ _; rfl
  case ExamplesDefinition =>
    refine BSim.of_eq ValD.refl ?_
    rw [getTags_D h]
    refine bind_congr_right _ fun tags => ?_
    rcases getSingle_cases_D h (.rule .Examples) rfl with e | ⟨_, ex, ex', hex, e1, e2⟩
    · rw [e]
    · simp only [e1, e2]
      rw [needToken_D hex, getDescription_D hex]
      rcases getSingle_cases_D hex (.rule .ExamplesTable) rfl with e | ⟨_, _, _, _, e1, e2⟩
      · rw [e]
      · simp only [e1, e2]
  case Rule =>
    refine BSim.of_eq ValD.refl ?_
    rw [getBackground_D h, getScenarios_D h]
    rcases getSingle_cases_D h (.rule .RuleHeader) rfl with e | ⟨_, hd, hd', hhd, e1, e2⟩
    · rw [e]
    · simp only [e1, e2]
      rw [getTags_D hhd, getDescription_D hhd]
      refine bind_congr_right _ fun tags => ?_
      rcases getSingle_cases_D hhd (.tok .RuleLine) rfl with e | ⟨_, _, _, _, e1, e2⟩
      · rw [e]
      · simp only [e1, e2]
  case Feature =>
    refine BSim.of_eq ValD.refl ?_
    rw [getBackground_D h, getScenarios_D h, filterMap_D ?_ (getItems_D h (.rule .Rule) rfl)]
    · rcases getSingle_cases_D h (.rule .FeatureHeader) rfl with e | ⟨_, hd, hd', hhd, e1, e2⟩
      · rw [e]
      · simp only [e1, e2]
        rw [getTags_D hhd, getDescription_D hhd]
        refine bind_congr_right _ fun tags => ?_
        rcases getSingle_cases_D hhd (.tok .FeatureLine) rfl with e | ⟨_, _, _, _, e1, e2⟩
        · rw [e]
        · simp only [e1, e2]
    · intro _ _; rfl

/-! ### builder states -/

def NodeD (a b : Node) : Prop := a.rt = b.rt ∧ ItemsD ValD a.items b.items

/-- the second builder state is the first with extra empty-description items -/
def BD (β1 β2 : BState) : Prop := All2 NodeD β1.stack β2.stack ∧ β2.comments = β1.comments

theorem BD.refl (β : BState) : BD β β := ⟨All2.refl (fun a => ⟨rfl, ItemsD.refl _⟩) _, rfl⟩

theorem BD.startRule {β1 β2 : BState} (h : BD β1 β2) (r : RuleType) : BD (β1.startRule r) (β2.startRule r) :=
  ⟨.cons ⟨rfl, .nil⟩ h.1, h.2⟩

/-- the same token built by both -/
theorem BD.build {β1 β2 : BState} (h : BD β1 β2) (t : Token) :
    (∃ e, β1.build t = .error e ∧ β2.build t = .error e) ∨
    (∃ β1' β2', β1.build t = .ok β1' ∧ β2.build t = .ok β2' ∧ BD β1' β2') := by
  unfold BState.build
  cases t.mtype with
  | none => exact .inl ⟨_, rfl, rfl⟩
  | some K =>
    have other : ∀ k : Kind,
        (∃ e, (match addToTop β1.stack (.tok k) (.tok t) with
            | some st => (.ok { β1 with stack := st } : Except BErr BState)
            | none => .error (.crash "IndexError: current_node of empty stack")) = .error e ∧
          (match addToTop β2.stack (.tok k) (.tok t) with
            | some st => (.ok { β2 with stack := st } : Except BErr BState)
            | none => .error (.crash "IndexError: current_node of empty stack")) = .error e) ∨
        (∃ β1' β2', (match addToTop β1.stack (.tok k) (.tok t) with
            | some st => (.ok { β1 with stack := st } : Except BErr BState)
            | none => .error (.crash "IndexError: current_node of empty stack")) = .ok β1' ∧
          (match addToTop β2.stack (.tok k) (.tok t) with
            | some st => (.ok { β2 with stack := st } : Except BErr BState)
            | none => .error (.crash "IndexError: current_node of empty stack")) = .ok β2' ∧ BD β1' β2') := by
      intro k
      obtain ⟨hs, hc⟩ := h
      revert hs
      generalize β1.stack = s1
      generalize β2.stack = s2
      intro hs
      cases hs with
      | nil => exact .inl ⟨_, rfl, rfl⟩
      | cons hab ht =>
        refine .inr ⟨_, _, rfl, rfl, .cons ⟨hab.1, ?_⟩ ht, hc⟩
        exact hab.2.append (.cons _ (.refl _) .nil) rfl
    cases K
    case Comment =>
      simp only []
      cases t.text with
      | none => exact .inl ⟨_, rfl, rfl⟩
      | some tx => exact .inr ⟨_, _, rfl, rfl, h.1, by simp only [h.2]⟩
    all_goals exact other _

/-- `end_rule`: same error, same ids; the states stay related — provided the popped node is not a
    `Description`, or the node that receives it has no `Description` item yet -/
theorem BD.endRule {β1 β2 : BState} (h : BD β1 β2) (n : Nat)
    (hsafe : ∀ a b rest, β2.stack = a :: b :: rest → a.rt = .Description →
      getItems b.items (.rule .Description) = []) :
    (β2.endRule n).1 = (β1.endRule n).1 ∧ BD (β1.endRule n).2.1 (β2.endRule n).2.1 ∧
    (β2.endRule n).2.2 = (β1.endRule n).2.2 := by
  obtain ⟨s1, c1⟩ := β1
  obtain ⟨s2, c2⟩ := β2
  obtain ⟨hs, hc⟩ := h
  simp only at hs hc hsafe
  subst hc
  cases hs with
  | nil => exact ⟨rfl, ⟨.nil, rfl⟩, rfl⟩
  | cons hab ht =>
    rename_i a b as bs
    obtain ⟨rt, xs⟩ := a
    obtain ⟨rt', ys⟩ := b
    obtain ⟨hrt, hxy⟩ := hab
    simp only at hrt hxy
    subst hrt
    simp only [BState.endRule]
    rcases transformNode_D _ rt hxy n with ⟨v, w, n', e1, e2, hvw⟩ | ⟨e, n', e1, e2⟩
    · rw [e1, e2]
      simp only []
      cases ht with
      | nil => exact ⟨rfl, ⟨.nil, rfl⟩, rfl⟩
      | cons hcd ht' =>
        rename_i c d cs ds
        refine ⟨rfl, ⟨.cons ⟨hcd.1, ?_⟩ ht', rfl⟩, rfl⟩
        by_cases hD : rt = .Description
        · exact hcd.2.append_noDesc (.cons _ hvw .nil) (hsafe _ _ _ rfl (by rw [hD]))
        · refine hcd.2.append (.cons _ hvw .nil) ?_
          unfold getItems
          have : (Key.rule rt == Key.rule RuleType.Description) = false := by simpa using hD
          simp [this]
    · rw [e1, e2]
      exact ⟨rfl, ⟨ht, rfl⟩, rfl⟩

theorem BD.result {β1 β2 : BState} (h : BD β1 β2) : β2.result = β1.result := by
  unfold BState.result
  obtain ⟨hs, hc⟩ := h
  revert hs
  generalize β1.stack = s1
  generalize β2.stack = s2
  intro hs
  cases hs with
  | nil => rfl
  | cons hab ht =>
    simp only []
    rcases getSingle_cases_D hab.2 (.rule .GherkinDocument) rfl with e | ⟨_, _, _, _, e1, e2⟩
    · rw [e]
    · simp only [e1, e2]

end Layout6
end GV
