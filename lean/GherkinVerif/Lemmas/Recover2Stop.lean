/-
  Lemmas/Recover2Stop.lean — property C14, recovery at document level, stop-at-first-error mode:
  a line that every test of the current state refuses ends the run with exactly the
  unexpected-token error for that line, whatever follows.  No look-ahead condition is needed: the
  statement speaks about ONE run.
-/
import GherkinVerif.Lemmas.Recover2Frame
namespace GV
namespace Recover2
open Lemmas Spec Layout3 Recover

/-- **One-step lemma, stop mode**: `match_token` raises the unexpected-token error of the row; only
    the call counter and the ghost list `unexpected` have moved. -/
theorem unexpected_line_step_stop {D : List Dialect} (T : Table) (s : Nat) (u : Str) (n : Nat) (c : Ctx)
    (h : lineUnexpectedAt D T s c.μ u = true) :
    ∃ row j, T.row? s = some row ∧
      run (matchTokenPure D T true s { line := some u, lineNo := n }) c =
        (.error (.single (unexpectedErr row { line := some u, lineNo := n })),
          { c with calls := c.calls + j, unexpected := c.unexpected ++ [n] }) := by
  unfold lineUnexpectedAt at h
  cases hrow : T.row? s with
  | none => rw [hrow] at h; cases h
  | some row =>
    rw [hrow] at h
    simp only [Bool.and_eq_true, beq_iff_eq] at h
    refine ⟨row, row.branches.length, rfl, ?_⟩
    unfold matchTokenPure
    rw [hrow]
    simp only []
    rw [tryBranchesPure_no T true row u n row.branches c h.1]
    unfold tryBranchesPure
    rw [prun_bind, run_modify]
    simp only [↓reduceIte, prun_throw]

/-- **Whole queue-free parse, stop mode.** -/
theorem parseWithPure_unexpected_stop {D : List Dialect} {T : Table} {u : Str} (μ : MState) (ids : Nat)
    {src' : Str} (pre post : List Str) (h2 : splitLines src' = pre ++ u :: post) {s : Nat} {cr : Ctx}
    (hrun : runAfter D T true μ ids src' pre.length = some (s, cr))
    (hun : lineUnexpectedAt D T s cr.μ u = true) :
    (parseWithPure D T true μ ids src').1 = .rejected [skippedError T s pre.length u] false ∧
    (parseWithPure D T true μ ids src').2.errors = cr.errors ∧
    (parseWithPure D T true μ ids src').2.unexpected = cr.unexpected ++ [pre.length + 1] ∧
    (parseWithPure D T true μ ids src').2.builds = cr.builds ∧
    (parseWithPure D T true μ ids src').2.μ = cr.μ ∧
    (parseWithPure D T true μ ids src').2.ids = cr.ids := by
  rw [parseWithPure_eq D T true μ ids src']
  simp only [h2]
  unfold runAfter startCtx at hrun
  rw [h2] at hrun
  rcases hx : run (parsePrefixPure D T true pre.length 0)
    { lines := pre ++ u :: post, μ := μ.reset D, β := BState.reset.startRule T.startRule, ids := ids } with ⟨r, c⟩
  have hx0 : (parsePrefixPure D T true pre.length 0).run.run
    { lines := pre ++ u :: post, μ := μ.reset D, β := BState.reset.startRule T.startRule, ids := ids } =
      (r, c) := hx
  rw [hx0] at hrun
  cases r with
  | error e => cases hrun
  | ok a =>
    obtain ⟨s', flag⟩ := a
    simp only [Option.some.injEq, Prod.mk.injEq] at hrun
    obtain ⟨rfl, rfl⟩ := hrun
    obtain ⟨hfl, hl, hno⟩ := prefix_lines T true (u :: post) pre 0 _ s' flag c rfl hx
    subst hfl
    simp only [Nat.zero_add] at hno
    have e2 : (pre ++ u :: post).length + 2 = pre.length + (post.length + 2 + 1) := by simp; omega
    obtain ⟨row, j, hrow, hstep⟩ := unexpected_line_step_stop (D := D) T s' u (c.lineNo + 1)
      { c with lines := post, lineNo := c.lineNo + 1, reads := c.reads ++ [c.lineNo + 1] } hun
    have hsk : skippedError T s' pre.length u = unexpectedErr row { line := some u, lineNo := c.lineNo + 1 } := by
      unfold skippedError; rw [hrow, hno]
    have hbody : run (parseBodyPure D T true (pre ++ u :: post).length)
        { lines := pre ++ u :: post, μ := μ.reset D, β := BState.reset, ids := ids } =
        (.error (.single (skippedError T s' pre.length u)),
          { c with lines := post, lineNo := c.lineNo + 1, reads := c.reads ++ [c.lineNo + 1],
                   calls := c.calls + j, unexpected := c.unexpected ++ [c.lineNo + 1] }) := by
      unfold parseBodyPure
      rw [prun_bind, run_modify]
      simp only []
      rw [prun_bind, e2, parseLinesPure_split, prun_bind]
      rw [hx]
      simp only [Bool.false_eq_true, if_false]
      rw [run_lines_cons (D := D) T true (post.length + 2) s' c hl, hstep, hsk]
    rw [hbody]
    exact ⟨rfl, rfl, by rw [hno], rfl, rfl, rfl⟩

/-- **Stop mode: the run ends at the unexpected line**, generic in the dialect table and the
    transition table (parser with the token queue). -/
theorem unexpected_line_parseWith_stop {D : List Dialect} {T : Table}
    (hQD : Spec.queueDialectFacts D = true) (hQT : Spec.queueFacts T = true)
    (hCB : Spec.commentBlankTested T = true)
    {u : Str} (μ : MState) (ids : Nat) {src' : Str} (pre post : List Str)
    (h2 : splitLines src' = pre ++ u :: post)
    (hμ : (μ.reset D).dialect ∈ D) {s : Nat} {cr : Ctx}
    (hrun : runAfter D T true μ ids src' pre.length = some (s, cr))
    (hun : lineUnexpectedAt D T s cr.μ u = true) :
    (parseWith D T true μ ids src').1 = .rejected [skippedError T s pre.length u] false ∧
    (parseWith D T true μ ids src').2.errors = cr.errors ∧
    (parseWith D T true μ ids src').2.unexpected = cr.unexpected ++ [pre.length + 1] ∧
    (parseWith D T true μ ids src').2.builds = cr.builds ∧
    (parseWith D T true μ ids src').2.μ = cr.μ ∧
    (parseWith D T true μ ids src').2.ids = cr.ids := by
  have q2 := queue_refines_peek D T hQD hQT hCB true μ ids src' hμ
  have o2 := congrArg Spec.Observed.outcome q2
  have e2 := congrArg Spec.Observed.errors q2
  have m2 := congrArg Spec.Observed.μ q2
  have i2 := congrArg Spec.Observed.ids q2
  have u2 := congrArg Spec.Observed.unexpected q2
  have b2 := congrArg Spec.Observed.builds q2
  simp only [Spec.observe] at o2 e2 m2 i2 u2 b2
  rw [o2, e2, m2, i2, u2, b2]
  exact parseWithPure_unexpected_stop μ ids pre post h2 hrun hun

end Recover2
end GV
