/-
  Lemmas/TypedStack.lean — the typed-stack argument of property C02 (generic; no reference to
  the generated table or grammar).

  An *abstract stack* is a list of frames `(rule, residual)`: the open nodes, innermost first,
  each with the regular expression its remaining children must spell.  `execEv` executes one
  start / end / build event symbolically.  A *typing* `σ` maps each state of the table to an
  abstract stack; `typingOK` checks that every branch of every typed state maps `σ state` to
  `σ target` (and that the end-of-file branches close everything down to the root with a nullable
  residual).  `typedCheck` computes `σ` by exploration and checks it.

  Soundness (`events_valid_tree_gen`): if the check succeeds then for every accepted document the
  events rebuild (`Spec.treeOf`) into a `Spec.ValidTree` whose leaves are the lines in order, each
  read as a kind of its fallback chain.  The proof relates the concrete stack of open nodes of
  `Spec.treeOfAux` to `σ state` frame by frame (`Typed`).

  Second part: a syntactic over-approximation `before x r` of the symbols that can precede `x`
  in a word of `r`, used for `C02_tags_attach_forward`.
-/
import GherkinVerif.Spec.Tree
import GherkinVerif.Lemmas.Regex
namespace GV.Lemmas

open GV.Spec
open GV.Spec.RE (Lang nullable deriv)

/-! ### iterated derivatives -/

namespace RE
variable {α : Type} [DecidableEq α]

/-- derivative by a word -/
def derivs : Spec.RE α → List α → Spec.RE α
  | r, [] => r
  | r, a :: w => derivs (deriv a r) w

theorem derivs_append (r : Spec.RE α) (u v : List α) : derivs r (u ++ v) = derivs (derivs r u) v := by
  induction u generalizing r with
  | nil => rfl
  | cons a u ih => exact ih _

theorem derivs_snoc (r : Spec.RE α) (u : List α) (a : α) : derivs r (u ++ [a]) = deriv a (derivs r u) := by
  rw [derivs_append]; rfl

theorem derivs_correct (r : Spec.RE α) (u w : List α) : Lang (derivs r u) w ↔ Lang r (u ++ w) := by
  induction u generalizing r with
  | nil => exact Iff.rfl
  | cons a u ih => exact (ih _).trans (deriv_correct a r _)

theorem lang_of_derivs_nullable {r : Spec.RE α} {u : List α} (h : nullable (derivs r u) = true) :
    Lang r u := by
  have := (derivs_correct r u []).1 ((nullable_iff _).1 h)
  simpa using this

end RE

open RE (derivs)

/-! ### symbolic execution of events on abstract stacks -/

abbrev Frame := RuleType × Spec.RE Sym
abbrev AStack := List Frame
/-- the stack of open nodes of `Spec.treeOfAux` -/
abbrev CStack := List (RuleType × List Tree)

/-- `Spec.nodeRhs.expand` with the recursive call abstracted: structural recursion, so that the
    kernel can evaluate it (`Spec.nodeRhs` is a mutual definition compiled by well-founded
    recursion) -/
def expandK (G : Grammar) (f : RuleType → Spec.RE Sym) : Spec.RE Sym → Spec.RE Sym
  | .emp => .emp
  | .eps => .eps
  | .sym (.tok k) => .sym (.tok k)
  | .sym (.rule x) =>
    match G.rule? x with
    | some gx => if gx.bang then .sym (.rule x) else f x
    | none => .emp
  | .cat a b => .cat (expandK G f a) (expandK G f b)
  | .alt a b => .alt (expandK G f a) (expandK G f b)
  | .star a => .star (expandK G f a)

/-- kernel-evaluable copy of `Spec.nodeRhs` -/
def nodeRhsK (G : Grammar) : Nat → RuleType → Spec.RE Sym
  | 0, _ => .emp
  | n + 1, r =>
    match G.rule? r with
    | none => .emp
    | some g => expandK G (nodeRhsK G n) g.rhs

theorem expandK_eq (G : Grammar) (n : Nat) (f : RuleType → Spec.RE Sym) (hf : ∀ x, f x = nodeRhs G n x)
    (r : Spec.RE Sym) : expandK G f r = nodeRhs.expand G n r := by
  induction r with
  | emp => simp [expandK, nodeRhs.expand]
  | eps => simp [expandK, nodeRhs.expand]
  | sym a =>
    cases a with
    | tok k => simp [expandK, nodeRhs.expand]
    | rule x => simp only [expandK, nodeRhs.expand, hf]; cases G.rule? x <;> rfl
  | cat a b iha ihb => simp [expandK, nodeRhs.expand, iha, ihb]
  | alt a b iha ihb => simp [expandK, nodeRhs.expand, iha, ihb]
  | star a iha => simp [expandK, nodeRhs.expand, iha]

theorem nodeRhsK_eq (G : Grammar) (n : Nat) (x : RuleType) : nodeRhsK G n x = nodeRhs G n x := by
  induction n generalizing x with
  | zero => simp [nodeRhsK, nodeRhs]
  | succ n ih =>
    simp only [nodeRhsK, nodeRhs]
    cases G.rule? x with
    | none => rfl
    | some g => exact expandK_eq G n _ ih g.rhs

/-- the right-hand side of a node's rule, as used by `Spec.ValidNode` (kernel-evaluable form) -/
def rhsOf (G : Grammar) (x : RuleType) : Spec.RE Sym := nodeRhsK G G.rules.length x

theorem rhsOf_eq (G : Grammar) (x : RuleType) : rhsOf G x = nodeRhs G G.rules.length x :=
  nodeRhsK_eq G _ x

/-- one event on an abstract stack.
    `start x`: the open node's residual steps by `x`; push `x` with its right-hand side.
    `end_`: the open node's residual is nullable; pop (never the root; the name is ignored, as
    the real builder ignores it).
    `build k`: the residual steps by `k`, or else `k` is an ignorable kind. -/
def execEv (G : Grammar) : AStack → Ev → Option AStack
  | (p, r) :: rest, .start x =>
    if deriv (Sym.rule x) r = .emp then none
    else some ((x, rhsOf G x) :: (p, deriv (Sym.rule x) r) :: rest)
  | (_, r) :: f :: rest, .end_ _ => if nullable r = true then some (f :: rest) else none
  | (p, r) :: rest, .build k =>
    if deriv (Sym.tok k) r = .emp then
      (if G.ignored.contains k = true then some ((p, r) :: rest) else none)
    else some ((p, deriv (Sym.tok k) r) :: rest)
  | _, _ => none

def execEvs (G : Grammar) : AStack → List Ev → Option AStack
  | a, [] => some a
  | a, e :: es =>
    match execEv G a e with
    | none => none
    | some a' => execEvs G a' es

/-- the concrete counterpart: one non-final step of `Spec.treeOfAux` -/
def stepC : CStack → Ev → Option CStack
  | stack, .start r => some ((r, []) :: stack)
  | (r, cs) :: stack, .build k => some ((r, cs ++ [.leaf k]) :: stack)
  | (r, cs) :: (p, ps) :: stack, .end_ _ => some ((p, ps ++ [.node r cs]) :: stack)
  | _, _ => none

theorem treeOfAux_step {c c' : CStack} {e : Ev} (h : stepC c e = some c') (es : List Ev) :
    treeOfAux (e :: es) c = treeOfAux es c' := by
  cases e with
  | start r => simp only [stepC, Option.some.injEq] at h; subst h; rfl
  | build k =>
    cases c with
    | nil => simp [stepC] at h
    | cons f stack =>
      obtain ⟨r, cs⟩ := f
      simp only [stepC, Option.some.injEq] at h; subst h; rfl
  | end_ x =>
    cases c with
    | nil => simp [stepC] at h
    | cons f stack =>
      obtain ⟨r, cs⟩ := f
      cases stack with
      | nil => simp [stepC] at h
      | cons g stack =>
        obtain ⟨p, ps⟩ := g
        simp only [stepC, Option.some.injEq] at h; subst h; rfl

/-- the kinds built by a list of events -/
def builds : List Ev → List Kind
  | [] => []
  | .build k :: es => k :: builds es
  | _ :: es => builds es

/-- the leaves already under the open nodes, in document order -/
def stackLeaves : CStack → List Kind
  | [] => []
  | (_, cs) :: rest => stackLeaves rest ++ Tree.leaves.leavesList cs

theorem leavesList_append (xs ys : List Tree) :
    Tree.leaves.leavesList (xs ++ ys) = Tree.leaves.leavesList xs ++ Tree.leaves.leavesList ys := by
  induction xs with
  | nil => simp [Tree.leaves.leavesList]
  | cons t ts ih => simp [Tree.leaves.leavesList, ih]

/-! ### tree lemmas -/

theorem validList_append {G : Grammar} {xs ys : List Tree} (hx : ValidList G xs) (hy : ValidList G ys) :
    ValidList G (xs ++ ys) := by
  induction xs with
  | nil => exact hy
  | cons t ts ih =>
    cases hx with
    | cons ht hts => exact ValidList.cons ht (ih hts)

theorem validList_snoc {G : Grammar} {xs : List Tree} {t : Tree} (hx : ValidList G xs) (ht : ValidNode G t) :
    ValidList G (xs ++ [t]) :=
  validList_append hx (ValidList.cons ht ValidList.nil)

theorem validList_mem {G : Grammar} {xs : List Tree} (hx : ValidList G xs) {t : Tree} (ht : t ∈ xs) :
    ValidNode G t := by
  induction xs with
  | nil => cases ht
  | cons a as ih =>
    cases hx with
    | cons ha has =>
      cases ht with
      | head => exact ha
      | tail _ h => exact ih has h

theorem dropIgnored_append {G : Grammar} {a b c d : List Tree} (h1 : DropIgnored G a b) (h2 : DropIgnored G c d) :
    DropIgnored G (a ++ c) (b ++ d) := by
  induction h1 with
  | nil => exact h2
  | keep t _ ih => exact DropIgnored.keep t ih
  | drop k hk _ ih => exact DropIgnored.drop k hk ih

/-! ### the typing relation between abstract and concrete stacks -/

/-- frame `f` types the open node `g`; `pend` is the symbol of the open child above it (already
    accounted for in the residual, not yet among the children) -/
def FrameOK (G : Grammar) (pend : List Sym) (f : Frame) (g : RuleType × List Tree) : Prop :=
  f.1 = g.1 ∧ ValidList G g.2 ∧
    ∃ kept, DropIgnored G g.2 kept ∧ f.2 = derivs (rhsOf G g.1) (kept.map Tree.sym ++ pend)

def TypedAux (G : Grammar) : List Sym → AStack → CStack → Prop
  | _, [], [] => True
  | pend, f :: a, g :: c => FrameOK G pend f g ∧ TypedAux G [.rule g.1] a c
  | _, _, _ => False

def Typed (G : Grammar) (a : AStack) (c : CStack) : Prop := TypedAux G [] a c

theorem exec_step {G : Grammar} {a a' : AStack} {c : CStack} {e : Ev}
    (h : execEv G a e = some a') (ht : Typed G a c) :
    ∃ c', stepC c e = some c' ∧ Typed G a' c' ∧ stackLeaves c' = stackLeaves c ++ builds [e] := by
  cases a with
  | nil => cases e <;> simp [execEv] at h
  | cons f rest =>
    obtain ⟨p, r⟩ := f
    cases c with
    | nil => exact absurd ht (by simp [Typed, TypedAux])
    | cons g crest =>
      obtain ⟨p', cs⟩ := g
      obtain ⟨⟨hp, hv, kept, hd, hr⟩, hrest⟩ := ht
      simp only at hp hv hd hr
      subst hp
      cases e with
      | start x =>
        simp only [execEv] at h
        split at h
        · cases h
        · simp only [Option.some.injEq] at h; subst h
          refine ⟨(x, []) :: (p, cs) :: crest, rfl, ⟨⟨rfl, ValidList.nil, [], DropIgnored.nil, rfl⟩,
            ⟨rfl, hv, kept, hd, ?_⟩, hrest⟩, ?_⟩
          · simp only [hr, List.append_nil]; exact (RE.derivs_snoc _ _ _).symm
          · simp [stackLeaves, builds, Tree.leaves.leavesList]
      | build k =>
        simp only [execEv] at h
        refine ⟨(p, cs ++ [.leaf k]) :: crest, rfl, ?_, ?_⟩
        · split at h
          · split at h
            · next hig =>
              simp only [Option.some.injEq] at h; subst h
              refine ⟨⟨rfl, validList_snoc hv (ValidNode.leaf k), kept, ?_, hr⟩, hrest⟩
              have := dropIgnored_append hd (DropIgnored.drop k hig DropIgnored.nil)
              simpa using this
            · cases h
          · simp only [Option.some.injEq] at h; subst h
            refine ⟨⟨rfl, validList_snoc hv (ValidNode.leaf k), kept ++ [.leaf k],
              dropIgnored_append hd (DropIgnored.keep _ DropIgnored.nil), ?_⟩, hrest⟩
            simp only [hr, List.append_nil, List.map_append, List.map_cons, List.map_nil, Tree.sym]
            exact (RE.derivs_snoc _ _ _).symm
        · simp [stackLeaves, builds, leavesList_append, Tree.leaves.leavesList, Tree.leaves]
      | end_ x =>
        cases rest with
        | nil => simp [execEv] at h
        | cons f2 rest2 =>
          cases crest with
          | nil => exact absurd hrest (by simp [TypedAux])
          | cons g2 crest2 =>
            obtain ⟨q, ps⟩ := g2
            obtain ⟨⟨hq, hv2, kept2, hd2, hr2⟩, hrest2⟩ := hrest
            simp only at hq hv2 hd2 hr2
            simp only [execEv] at h
            split at h
            · next hn =>
              simp only [Option.some.injEq] at h; subst h
              have hnode : ValidNode G (.node p cs) := by
                refine ValidNode.node p cs kept hv hd ?_
                rw [hr, List.append_nil] at hn
                rw [← rhsOf_eq]
                exact RE.lang_of_derivs_nullable hn
              refine ⟨(q, ps ++ [.node p cs]) :: crest2, rfl,
                ⟨⟨hq, validList_snoc hv2 hnode, kept2 ++ [.node p cs],
                  dropIgnored_append hd2 (DropIgnored.keep _ DropIgnored.nil), ?_⟩, hrest2⟩, ?_⟩
              · simp only [hr2, List.append_nil, List.map_append, List.map_cons, List.map_nil, Tree.sym]
              · simp [stackLeaves, builds, leavesList_append, Tree.leaves.leavesList, Tree.leaves]
            · cases h

theorem builds_append (es fs : List Ev) : builds (es ++ fs) = builds es ++ builds fs := by
  induction es with
  | nil => rfl
  | cons e es ih => cases e <;> simp [builds, ih]

theorem exec_steps {G : Grammar} {es : List Ev} : ∀ {a a' : AStack} {c : CStack},
    execEvs G a es = some a' → Typed G a c →
    ∃ c', (∀ rest, treeOfAux (es ++ rest) c = treeOfAux rest c') ∧ Typed G a' c' ∧
      stackLeaves c' = stackLeaves c ++ builds es := by
  induction es with
  | nil =>
    intro a a' c h ht
    simp only [execEvs, Option.some.injEq] at h; subst h
    exact ⟨c, fun _ => rfl, ht, by simp [builds]⟩
  | cons e es ih =>
    intro a a' c h ht
    simp only [execEvs] at h
    split at h
    · cases h
    · next a1 h1 =>
      obtain ⟨c1, hs1, ht1, hl1⟩ := exec_step h1 ht
      obtain ⟨c', hs', ht', hl'⟩ := ih h ht1
      refine ⟨c', ?_, ht', ?_⟩
      · intro rest
        rw [List.cons_append, treeOfAux_step hs1]; exact hs' rest
      · rw [hl', hl1, List.append_assoc, ← builds_append]; rfl

/-! ### the checker -/

def buildCount : List Prod → Nat
  | [] => 0
  | .build :: ps => buildCount ps + 1
  | _ :: ps => buildCount ps

theorem builds_prodEvents (k : Kind) (ps : List Prod) :
    builds (prodEvents k ps) = List.replicate (buildCount ps) k := by
  induction ps with
  | nil => rfl
  | cons p ps ih => cases p <;> simp [prodEvents, builds, buildCount, ih, List.replicate_succ]

theorem prodEvents_append (k : Kind) (ps qs : List Prod) :
    prodEvents k (ps ++ qs) = prodEvents k ps ++ prodEvents k qs := by
  induction ps with
  | nil => rfl
  | cons p ps ih => cases p <;> simp [prodEvents, ih]

/-- a typing: an association list from states to abstract stacks -/
abbrev Typing := List (Nat × AStack)

def lookupS : Typing → Nat → Option AStack
  | [], _ => none
  | (s', a) :: rest, s => if s' = s then some a else lookupS rest s

theorem lookupS_mem {σ : Typing} {s : Nat} {a : AStack} (h : lookupS σ s = some a) : (s, a) ∈ σ := by
  induction σ with
  | nil => cases h
  | cons p σ ih =>
    obtain ⟨s', a'⟩ := p
    simp only [lookupS] at h
    split at h
    · next e => simp only [Option.some.injEq] at h; subst h; subst e; exact List.mem_cons_self
    · exact List.mem_cons_of_mem _ (ih h)

/-- one branch maps the typing of its state to the typing of its target and builds exactly one
    line.  A branch taken on end of file instead closes everything down to the root, whose
    residual must then be nullable, and builds the `EOF` line last. -/
def branchOK (G : Grammar) (T : Table) (σ : Typing) (a : AStack) (b : Branch) : Bool :=
  if b.kind = .EOF then
    decide (b.prods.getLast? = some .build) && decide (buildCount b.prods.dropLast = 0) &&
    match execEvs G a (prodEvents b.kind b.prods.dropLast) with
    | some [(x, r)] => decide (x = T.startRule) && nullable r
    | _ => false
  else
    decide (buildCount b.prods = 1) &&
    match execEvs G a (prodEvents b.kind b.prods) with
    | some a' => decide (lookupS σ b.target = some a')
    | none => false

def typingOK (G : Grammar) (T : Table) (σ : Typing) : Bool :=
  decide (lookupS σ 0 = some [(T.startRule, rhsOf G T.startRule)]) &&
  σ.all fun p =>
    match T.row? p.1 with
    | none => true
    | some row => row.branches.all (branchOK G T σ p.2)

/-- typed successors of a typed state (end-of-file branches lead nowhere) -/
def succTyped (G : Grammar) (T : Table) (s : Nat) (a : AStack) : Typing :=
  match T.row? s with
  | none => []
  | some row => row.branches.filterMap fun b =>
      if b.kind = .EOF then none
      else match execEvs G a (prodEvents b.kind b.prods) with
        | some a' => some (b.target, a')
        | none => none

/-- fuelled exploration from `todo` -/
def exploreTyping (G : Grammar) (T : Table) : Nat → Typing → Typing → Typing
  | 0, _, σ => σ
  | _ + 1, [], σ => σ
  | n + 1, (s, a) :: todo, σ =>
    match lookupS σ s with
    | some _ => exploreTyping G T n todo σ
    | none => exploreTyping G T n (succTyped G T s a ++ todo) ((s, a) :: σ)

/-- the typing computed from the start state -/
def computeTyping (G : Grammar) (T : Table) (fuel : Nat) : Typing :=
  exploreTyping G T fuel [(0, [(T.startRule, rhsOf G T.startRule)])] []

/-- the whole check: compute the typing, then verify it -/
def typedCheck (G : Grammar) (T : Table) (fuel : Nat) : Bool := typingOK G T (computeTyping G T fuel)

/-! ### soundness -/

theorem pickBranch_some {T : Table} {k : Kind} {fut : List Kind} {bs : List Branch} {b : Branch}
    (h : pickBranch T k fut bs = some b) : b ∈ bs ∧ passes k b.kind = true := by
  induction bs with
  | nil => cases h
  | cons b' bs ih =>
    simp only [pickBranch] at h
    split at h
    · next hc =>
      simp only [Option.some.injEq] at h; subst h
      simp only [Bool.and_eq_true] at hc
      exact ⟨List.mem_cons_self, hc.1⟩
    · exact ⟨List.mem_cons_of_mem _ (ih h).1, (ih h).2⟩

theorem stepAbs_some {T : Table} {s : Nat} {k : Kind} {fut : List Kind} {b : Branch}
    (h : stepAbs T s k fut = some b) :
    ∃ row, T.row? s = some row ∧ b ∈ row.branches ∧ passes k b.kind = true := by
  unfold stepAbs at h
  split at h
  · cases h
  · next row hrow => exact ⟨row, hrow, pickBranch_some h⟩

theorem passes_EOF_right {k : Kind} (h : passes k .EOF = true) : k = .EOF := by
  cases k <;> first | rfl | exact absurd h (by decide)

theorem passes_EOF_left {K : Kind} (h : passes .EOF K = true) : K = .EOF := by
  cases K <;> first | rfl | exact absurd h (by decide)

theorem eq_dropLast_append {α : Type} {l : List α} {a : α} (h : l.getLast? = some a) :
    l = l.dropLast ++ [a] := by
  have hne : l ≠ [] := by intro e; subst e; simp at h
  have h1 := List.dropLast_concat_getLast hne
  rw [List.getLast?_eq_some_getLast hne] at h
  simp only [Option.some.injEq] at h
  rw [h] at h1; exact h1.symm

theorem typed_single {G : Grammar} {x : RuleType} {r : Spec.RE Sym} {c : CStack}
    (h : Typed G [(x, r)] c) : ∃ cs, c = [(x, cs)] ∧ FrameOK G [] (x, r) (x, cs) := by
  cases c with
  | nil => exact absurd h (by simp [Typed, TypedAux])
  | cons g c =>
    cases c with
    | nil =>
      obtain ⟨x', cs⟩ := g
      obtain ⟨hf, _⟩ := h
      have hx : x = x' := hf.1
      subst hx
      exact ⟨cs, rfl, hf⟩
    | cons g' c => exact absurd h.2 (by simp [TypedAux])

theorem run_tree {G : Grammar} {T : Table} {σ : Typing}
    (hσ : ∀ p ∈ σ, ∀ row, T.row? p.1 = some row → ∀ b ∈ row.branches, branchOK G T σ p.2 b = true) :
    ∀ (ks : List Kind) (s : Nat) (a : AStack) (c : CStack) (res : Nat × List Ev), Kind.EOF ∉ ks →
      lookupS σ s = some a → Typed G a c → runAbs T s (ks ++ [.EOF]) = some res →
      ∃ t, treeOfAux (res.2 ++ [.end_ T.startRule]) c = some t ∧ ValidTree G T.startRule t ∧
        ∃ rs, t.leaves = stackLeaves c ++ rs ∧ ReadsAs (ks ++ [.EOF]) rs := by
  intro ks
  induction ks with
  | nil =>
    intro s a c res _ hs ht hrun
    simp only [List.nil_append, runAbs] at hrun
    split at hrun
    · cases hrun
    · next b hb =>
      simp only [Option.some.injEq] at hrun; subst hrun
      obtain ⟨row, hrow, hmem, hpass⟩ := stepAbs_some hb
      have hk : b.kind = .EOF := passes_EOF_left hpass
      have hbr := hσ _ (lookupS_mem hs) row hrow b hmem
      simp only [branchOK, hk, if_true, Bool.and_eq_true, decide_eq_true_eq] at hbr
      obtain ⟨⟨hlast, hcount⟩, hexec⟩ := hbr
      have hprods : b.prods = b.prods.dropLast ++ [.build] := eq_dropLast_append hlast
      split at hexec
      · next x r hex =>
        simp only [Bool.and_eq_true, decide_eq_true_eq] at hexec
        obtain ⟨hx, hnull⟩ := hexec
        obtain ⟨c', hs', ht', hl'⟩ := exec_steps hex ht
        obtain ⟨cs, rfl, hf⟩ := typed_single ht'
        obtain ⟨_, hv, kept, hd, hr⟩ := hf
        simp only at hv hd hr
        have hnode : ValidNode G (.node x cs) := by
          refine ValidNode.node x cs kept hv hd ?_
          rw [hr, List.append_nil] at hnull
          rw [← rhsOf_eq]
          exact RE.lang_of_derivs_nullable hnull
        have hev : (prodEvents b.kind b.prods ++ []) ++ [Ev.end_ T.startRule]
            = prodEvents .EOF b.prods.dropLast ++ [.build .EOF, .end_ T.startRule] := by
          rw [hprods, prodEvents_append, hk]
          simp [prodEvents]
        refine ⟨.node x (cs ++ [.leaf .EOF]), ?_, ⟨cs, by rw [hx], by rw [← hx]; exact hnode⟩, [.EOF], ?_, ?_⟩
        · show treeOfAux ((prodEvents b.kind b.prods ++ []) ++ [Ev.end_ T.startRule]) c = _
          rw [hev, hs']
          simp [treeOfAux]
        · rw [builds_prodEvents, hcount] at hl'
          simp only [stackLeaves, List.nil_append, List.replicate_zero, List.append_nil] at hl'
          simp only [Tree.leaves, leavesList_append, hl', Tree.leaves.leavesList, List.append_nil]
        · simp [ReadsAs]; decide
      · exact absurd hexec (by simp)
  | cons k ks ih =>
    intro s a c res hks hs ht hrun
    have hk : k ≠ .EOF := fun e => hks (by simp [e])
    have hks' : Kind.EOF ∉ ks := fun e => hks (List.mem_cons_of_mem _ e)
    simp only [List.cons_append, runAbs] at hrun
    split at hrun
    · cases hrun
    · next b hb =>
      split at hrun
      · cases hrun
      · next s' evs hrec =>
        simp only [Option.some.injEq] at hrun; subst hrun
        obtain ⟨row, hrow, hmem, hpass⟩ := stepAbs_some hb
        have hbk : b.kind ≠ .EOF := fun e => hk (passes_EOF_right (e ▸ hpass))
        have hbr := hσ _ (lookupS_mem hs) row hrow b hmem
        simp only [branchOK, hbk, if_false, Bool.and_eq_true, decide_eq_true_eq] at hbr
        obtain ⟨hcount, hexec⟩ := hbr
        split at hexec
        · next a' hex =>
          simp only [decide_eq_true_eq] at hexec
          obtain ⟨c', hs', ht', hl'⟩ := exec_steps hex ht
          obtain ⟨t, htree, hvalid, rs, hleaves, hreads⟩ := ih b.target a' c' (s', evs) hks' hexec ht' hrec
          refine ⟨t, ?_, hvalid, b.kind :: rs, ?_, ?_⟩
          · show treeOfAux ((prodEvents b.kind b.prods ++ evs) ++ [Ev.end_ T.startRule]) c = _
            rw [List.append_assoc, hs']; exact htree
          · rw [hleaves, hl', builds_prodEvents, hcount]; simp
          · exact ⟨hpass, hreads⟩
        · exact absurd hexec (by simp)

/-- soundness of the typed-stack check -/
theorem events_valid_tree_gen {G : Grammar} {T : Table} {fuel : Nat} (h : typedCheck G T fuel = true)
    (ks : List Kind) (hks : Kind.EOF ∉ ks) (evs : List Ev) (he : eventsAbs T ks = some evs) :
    ∃ t, treeOf evs = some t ∧ ValidTree G T.startRule t ∧ ReadsAs (ks ++ [.EOF]) t.leaves := by
  simp only [typedCheck, typingOK, Bool.and_eq_true, decide_eq_true_eq, List.all_eq_true] at h
  obtain ⟨h0, hall⟩ := h
  have hσ : ∀ p ∈ computeTyping G T fuel, ∀ row, T.row? p.1 = some row → ∀ b ∈ row.branches,
      branchOK G T (computeTyping G T fuel) p.2 b = true := by
    intro p hp row hrow b hb
    have := hall p hp
    rw [hrow] at this
    exact List.all_eq_true.1 this b hb
  unfold eventsAbs at he
  cases hrun : runAbs T 0 (ks ++ [.EOF]) with
  | none => rw [hrun] at he; cases he
  | some res =>
    rw [hrun] at he
    simp only [Option.map_some, Option.some.injEq] at he
    subst he
    have ht0 : Typed G [(T.startRule, rhsOf G T.startRule)] [(T.startRule, [])] :=
      ⟨⟨rfl, ValidList.nil, [], DropIgnored.nil, rfl⟩, trivial⟩
    obtain ⟨t, htree, hvalid, rs, hleaves, hreads⟩ := run_tree hσ ks 0 _ _ res hks h0 ht0 hrun
    refine ⟨t, ?_, hvalid, ?_⟩
    · show treeOfAux ([Ev.start T.startRule] ++ res.2 ++ [Ev.end_ T.startRule]) [] = some t
      simpa [treeOfAux] using htree
    · rw [hleaves]; simpa [stackLeaves, Tree.leaves.leavesList] using hreads

/-! ### where a symbol can stand in the words of a regular expression -/

namespace RE
variable {α : Type} [DecidableEq α]

/-- the symbols occurring in `r` -/
def syms : Spec.RE α → List α
  | .emp => []
  | .eps => []
  | .sym a => [a]
  | .cat r s => syms r ++ syms s
  | .alt r s => syms r ++ syms s
  | .star r => syms r

omit [DecidableEq α] in
theorem syms_of_lang {r : Spec.RE α} {w : List α} (h : Lang r w) : ∀ y ∈ w, y ∈ syms r := by
  induction h with
  | eps => intro y hy; cases hy
  | sym a => intro y hy; simpa [syms] using hy
  | cat _ _ ih1 ih2 =>
    intro y hy
    simp only [List.mem_append] at hy
    simp only [syms, List.mem_append]
    exact hy.imp (ih1 y) (ih2 y)
  | altL _ ih => intro y hy; simp only [syms, List.mem_append]; exact Or.inl (ih y hy)
  | altR _ ih => intro y hy; simp only [syms, List.mem_append]; exact Or.inr (ih y hy)
  | starNil => intro y hy; cases hy
  | starCons _ _ ih1 ih2 =>
    intro y hy
    simp only [List.mem_append] at hy
    cases hy with
    | inl h => simpa [syms] using ih1 y h
    | inr h => exact ih2 y h

/-- symbols that can start a word of `r` -/
def firsts : Spec.RE α → List α
  | .emp => []
  | .eps => []
  | .sym a => [a]
  | .cat r s => firsts r ++ (if nullable r = true then firsts s else [])
  | .alt r s => firsts r ++ firsts s
  | .star r => firsts r

/-- symbols that can end a word of `r` -/
def lasts : Spec.RE α → List α
  | .emp => []
  | .eps => []
  | .sym a => [a]
  | .cat r s => lasts s ++ (if nullable s = true then lasts r else [])
  | .alt r s => lasts r ++ lasts s
  | .star r => lasts r

omit [DecidableEq α] in
theorem firsts_of_lang {r : Spec.RE α} {w : List α} (h : Lang r w) :
    ∀ a w', w = a :: w' → a ∈ firsts r := by
  induction h with
  | eps => intro a w' e; cases e
  | sym b => intro a w' e; cases e; simp [firsts]
  | @cat r s u v h1 _ ih1 ih2 =>
    intro a w' e
    simp only [firsts, List.mem_append]
    cases u with
    | nil =>
      have hn : nullable r = true := (nullable_iff r).2 h1
      right; simp only [hn, if_true]; exact ih2 a w' e
    | cons b u' =>
      simp only [List.cons_append, List.cons.injEq] at e
      left; exact ih1 a u' (by rw [e.1])
  | altL _ ih => intro a w' e; simp only [firsts, List.mem_append]; exact Or.inl (ih a w' e)
  | altR _ ih => intro a w' e; simp only [firsts, List.mem_append]; exact Or.inr (ih a w' e)
  | starNil => intro a w' e; cases e
  | @starCons r u v _ _ ih1 ih2 =>
    intro a w' e
    cases u with
    | nil => exact ih2 a w' e
    | cons b u' =>
      simp only [List.cons_append, List.cons.injEq] at e
      simpa [firsts] using ih1 a u' (by rw [e.1])

omit [DecidableEq α] in
theorem lasts_of_lang {r : Spec.RE α} {w : List α} (h : Lang r w) :
    ∀ a w', w = w' ++ [a] → a ∈ lasts r := by
  induction h with
  | eps => intro a w' e; simp at e
  | sym b =>
    intro a w' e
    cases w' with
    | nil => simp at e; simp [lasts, e]
    | cons c w'' => simp at e
  | @cat r s u v _ h2 ih1 ih2 =>
    intro a w' e
    simp only [lasts, List.mem_append]
    rcases List.eq_nil_or_concat v with hv | ⟨v', b, hv⟩
    · subst hv
      have hn : nullable s = true := (nullable_iff s).2 h2
      right; simp only [hn, if_true]; exact ih1 a w' (by simpa using e)
    · subst hv
      rw [List.concat_eq_append, ← List.append_assoc] at e
      have := List.append_inj' e rfl
      simp only [List.cons.injEq, and_true] at this
      left; exact ih2 a v' (by rw [List.concat_eq_append, this.2])
  | altL _ ih => intro a w' e; simp only [lasts, List.mem_append]; exact Or.inl (ih a w' e)
  | altR _ ih => intro a w' e; simp only [lasts, List.mem_append]; exact Or.inr (ih a w' e)
  | starNil => intro a w' e; simp at e
  | @starCons r u v _ _ ih1 ih2 =>
    intro a w' e
    rcases List.eq_nil_or_concat v with hv | ⟨v', b, hv⟩
    · subst hv
      simpa [lasts] using ih1 a w' (by simpa using e)
    · subst hv
      rw [List.concat_eq_append, ← List.append_assoc] at e
      have := List.append_inj' e rfl
      simp only [List.cons.injEq, and_true] at this
      exact ih2 a v' (by rw [List.concat_eq_append, this.2])

/-- over-approximation of the symbols that can stand anywhere before an `x` in a word of `r` -/
def before (x : α) : Spec.RE α → List α
  | .emp => []
  | .eps => []
  | .sym _ => []
  | .cat r s => before x r ++ before x s ++ (if (syms s).contains x = true then syms r else [])
  | .alt r s => before x r ++ before x s
  | .star r => if (syms r).contains x = true then syms r else []

theorem before_of_lang {x : α} {r : Spec.RE α} {w : List α} (h : Lang r w) :
    ∀ u v, w = u ++ x :: v → ∀ y ∈ u, y ∈ before x r := by
  induction h with
  | eps => intro u v e; simp at e
  | sym a =>
    intro u v e y hy
    cases u with
    | nil => cases hy
    | cons b u' => simp at e
  | @cat r s w1 w2 h1 h2 ih1 ih2 =>
    intro u v e y hy
    simp only [before, List.mem_append]
    rcases List.append_eq_append_iff.1 e with ⟨a', hu, hw2⟩ | ⟨c', hw1, hc⟩
    · have hx : (syms s).contains x = true :=
        List.contains_iff_mem.2 (syms_of_lang h2 x (by rw [hw2]; simp))
      rw [hu, List.mem_append] at hy
      cases hy with
      | inl hy1 => right; simp only [hx, if_true]; exact syms_of_lang h1 y hy1
      | inr hy2 => left; right; exact ih2 a' v hw2 y hy2
    · cases c' with
      | nil =>
        simp only [List.nil_append] at hc
        simp only [List.append_nil] at hw1
        have hx : (syms s).contains x = true :=
          List.contains_iff_mem.2 (syms_of_lang h2 x (by rw [← hc]; simp))
        right; simp only [hx, if_true]; exact syms_of_lang h1 y (by rw [hw1]; exact hy)
      | cons z c'' =>
        simp only [List.cons_append, List.cons.injEq] at hc
        left; left; exact ih1 u c'' (by rw [hw1, hc.1]) y hy
  | altL _ ih => intro u v e y hy; simp only [before, List.mem_append]; exact Or.inl (ih u v e y hy)
  | altR _ ih => intro u v e y hy; simp only [before, List.mem_append]; exact Or.inr (ih u v e y hy)
  | starNil => intro u v e; simp at e
  | @starCons r w1 w2 h1 h2 _ _ =>
    intro u v e y hy
    have hall := syms_of_lang (Lang.starCons h1 h2)
    have hx : (syms r).contains x = true :=
      List.contains_iff_mem.2 (by simpa [syms] using hall x (by rw [e]; simp))
    simp only [before, hx, if_true]
    simpa [syms] using hall y (by rw [e]; simp [hy])

/-- over-approximation of the symbols that can stand immediately after an `x` in a word of `r` -/
def follow (x : α) : Spec.RE α → List α
  | .emp => []
  | .eps => []
  | .sym _ => []
  | .cat r s => follow x r ++ follow x s ++ (if (lasts r).contains x = true then firsts s else [])
  | .alt r s => follow x r ++ follow x s
  | .star r => follow x r ++ (if (lasts r).contains x = true then firsts r else [])

omit [DecidableEq α] in
/-- the three ways an adjacent pair `x y` of `w1 ++ w2` can lie -/
theorem pair_split {w1 w2 u v : List α} {x y : α} (e : w1 ++ w2 = u ++ x :: y :: v) :
    (∃ c, w1 = u ++ x :: y :: c) ∨ (w1 = u ++ [x] ∧ w2 = y :: v) ∨ (∃ a, w2 = a ++ x :: y :: v) := by
  rcases List.append_eq_append_iff.1 e with ⟨a', _, hw2⟩ | ⟨c', hw1, hc⟩
  · exact Or.inr (Or.inr ⟨a', hw2⟩)
  · cases c' with
    | nil => exact Or.inr (Or.inr ⟨[], by simpa using hc.symm⟩)
    | cons z c'' =>
      simp only [List.cons_append, List.cons.injEq] at hc
      obtain ⟨rfl, hc⟩ := hc
      cases c'' with
      | nil => exact Or.inr (Or.inl ⟨hw1, by simpa using hc.symm⟩)
      | cons z' c3 =>
        simp only [List.cons_append, List.cons.injEq] at hc
        obtain ⟨rfl, _⟩ := hc
        exact Or.inl ⟨c3, hw1⟩

theorem follow_of_lang {x y : α} {r : Spec.RE α} {w : List α} (h : Lang r w) :
    ∀ u v, w = u ++ x :: y :: v → y ∈ follow x r := by
  induction h with
  | eps => intro u v e; simp at e
  | sym a =>
    intro u v e
    cases u with
    | nil => simp at e
    | cons b u' => simp at e
  | @cat r s w1 w2 h1 h2 ih1 ih2 =>
    intro u v e
    simp only [follow, List.mem_append]
    rcases pair_split e with ⟨c, hw1⟩ | ⟨hw1, hw2⟩ | ⟨a, hw2⟩
    · left; left; exact ih1 u c hw1
    · have hx : (lasts r).contains x = true := List.contains_iff_mem.2 (lasts_of_lang h1 x u hw1)
      right; simp only [hx, if_true]; exact firsts_of_lang h2 y v hw2
    · left; right; exact ih2 a v hw2
  | altL _ ih => intro u v e; simp only [follow, List.mem_append]; exact Or.inl (ih u v e)
  | altR _ ih => intro u v e; simp only [follow, List.mem_append]; exact Or.inr (ih u v e)
  | starNil => intro u v e; simp at e
  | @starCons r w1 w2 h1 h2 ih1 ih2 =>
    intro u v e
    rcases pair_split e with ⟨c, hw1⟩ | ⟨hw1, hw2⟩ | ⟨a, hw2⟩
    · simp only [follow, List.mem_append]; left; exact ih1 u c hw1
    · have hx : (lasts r).contains x = true := List.contains_iff_mem.2 (lasts_of_lang h1 x u hw1)
      simp only [follow, List.mem_append]
      right; simp only [hx, if_true]
      simpa [firsts] using firsts_of_lang h2 y v hw2
    · exact ih2 a v hw2

end RE

/-! ### where a node can stand among its siblings -/

theorem dropIgnored_split {G : Grammar} {p : List Tree} {t : Tree} {q : List Tree} (ht : ∀ k, t ≠ .leaf k) :
    ∀ {kept : List Tree}, DropIgnored G (p ++ t :: q) kept →
      ∃ p' q', kept = p' ++ t :: q' ∧ DropIgnored G p p' ∧ DropIgnored G q q' := by
  induction p with
  | nil =>
    intro kept h
    simp only [List.nil_append] at h
    cases h with
    | keep _ h' => exact ⟨[], _, rfl, DropIgnored.nil, h'⟩
    | drop k _ _ => exact absurd rfl (ht k)
  | cons a p ih =>
    intro kept h
    simp only [List.cons_append] at h
    cases h with
    | keep _ h' =>
      obtain ⟨p', q', rfl, hp, hq⟩ := ih h'
      exact ⟨a :: p', q', rfl, DropIgnored.keep a hp, hq⟩
    | drop k hk h' =>
      obtain ⟨p', q', rfl, hp, hq⟩ := ih h'
      exact ⟨p', q', rfl, DropIgnored.drop k hk hp, hq⟩

theorem dropIgnored_mem {G : Grammar} {p p' : List Tree} (h : DropIgnored G p p') :
    ∀ y ∈ p, y ∈ p' ∨ IgnorableLeaf G y := by
  induction h with
  | nil => intro y hy; cases hy
  | keep t _ ih =>
    intro y hy
    cases hy with
    | head => exact Or.inl List.mem_cons_self
    | tail _ hy' => exact (ih y hy').imp (List.mem_cons_of_mem _) id
  | drop k hk _ ih =>
    intro y hy
    cases hy with
    | head => exact Or.inr ⟨k, rfl, hk⟩
    | tail _ hy' => exact ih y hy'

/-- the first kept element, with the ignorable lines dropped before it -/
theorem dropIgnored_cons {G : Grammar} {q : List Tree} : ∀ {nxt : Tree} {q'' : List Tree},
    DropIgnored G q (nxt :: q'') →
    ∃ ign post', q = ign ++ nxt :: post' ∧ (∀ c ∈ ign, IgnorableLeaf G c) := by
  induction q with
  | nil => intro nxt q'' h; cases h
  | cons a q ih =>
    intro nxt q'' h
    cases h with
    | keep _ h' => exact ⟨[], q, rfl, fun c hc => by cases hc⟩
    | drop k hk h' =>
      obtain ⟨ign, post', rfl, hign⟩ := ih h'
      refine ⟨.leaf k :: ign, post', rfl, ?_⟩
      intro c hc
      cases hc with
      | head => exact ⟨k, rfl, hk⟩
      | tail _ hc' => exact hign c hc'

theorem rule?_some {G : Grammar} {r : RuleType} {g : GRule} (h : G.rule? r = some g) :
    g ∈ G.rules ∧ g.name = r := by
  unfold Grammar.rule? at h
  exact ⟨List.mem_of_find?_eq_some h, by simpa using List.find?_some h⟩

theorem rhsOf_none {G : Grammar} {r : RuleType} (h : G.rule? r = none) : rhsOf G r = .emp := by
  unfold rhsOf
  cases G.rules.length with
  | zero => rfl
  | succ n => simp only [nodeRhsK, h]

/-- the grammar fact behind `Spec.TagsAttachForward`, for node symbol `x`: in every right-hand
    side where `rule x` occurs, only `pre` tokens can come before it, it is never last, and it is
    followed by the symbol `attach` lists for that rule -/
def attachCheck (G : Grammar) (x : RuleType) (attach : List (RuleType × Sym)) (pre : List Kind) : Bool :=
  G.rules.all fun g =>
    if (RE.syms (rhsOf G g.name)).contains (Sym.rule x) = true then
      ((RE.before (Sym.rule x) (rhsOf G g.name)).all fun y =>
        match y with
        | .tok k => pre.contains k
        | .rule _ => false) &&
      !(RE.lasts (rhsOf G g.name)).contains (Sym.rule x) &&
      ((RE.follow (Sym.rule x) (rhsOf G g.name)).all fun y =>
        attach.any fun p => decide (p = (g.name, y)))
    else true

theorem attach_node {G : Grammar} {x : RuleType} {attach : List (RuleType × Sym)} {pre : List Kind}
    (hc : attachCheck G x attach pre = true) {r : RuleType} {cs : List Tree}
    (hv : ValidNode G (.node r cs)) {p ts q : List Tree} (hcs : cs = p ++ .node x ts :: q) :
    (∀ c ∈ p, ∃ k, c = .leaf k ∧ (k ∈ pre ∨ G.ignored.contains k = true)) ∧
    ∃ ign nxt post', q = ign ++ nxt :: post' ∧ (∀ c ∈ ign, IgnorableLeaf G c) ∧ (r, nxt.sym) ∈ attach := by
  cases hv with
  | node _ _ kept hvl hd hl =>
    subst hcs
    rw [← rhsOf_eq] at hl
    obtain ⟨p', q', rfl, hp, hq⟩ := dropIgnored_split (t := .node x ts) (fun k => by simp) hd
    have hw : (p' ++ Tree.node x ts :: q').map Tree.sym
        = p'.map Tree.sym ++ Sym.rule x :: q'.map Tree.sym := by simp [Tree.sym]
    rw [hw] at hl
    have hocc : (RE.syms (rhsOf G r)).contains (Sym.rule x) = true :=
      List.contains_iff_mem.2 (RE.syms_of_lang hl _ (by simp))
    cases hrule : G.rule? r with
    | none => rw [rhsOf_none hrule] at hl; exact absurd hl (RE.not_lang_emp _)
    | some g =>
      obtain ⟨hg, hname⟩ := rule?_some hrule
      have hc' := List.all_eq_true.1 hc g hg
      rw [hname] at hc'
      simp only [hocc, if_true, Bool.and_eq_true, Bool.not_eq_true', List.all_eq_true] at hc'
      obtain ⟨⟨hbefore, hlast⟩, hfollow⟩ := hc'
      constructor
      · intro c hc
        rcases dropIgnored_mem hp c hc with hin | ⟨k, rfl, hk⟩
        · have hb := RE.before_of_lang hl _ _ rfl c.sym (List.mem_map_of_mem hin)
          have := hbefore _ hb
          cases c with
          | leaf k => exact ⟨k, rfl, Or.inl (by simpa [Tree.sym] using this)⟩
          | node r' cs' => simp [Tree.sym] at this
        · exact ⟨k, rfl, Or.inr hk⟩
      · cases q' with
        | nil =>
          have := RE.lasts_of_lang hl (Sym.rule x) (p'.map Tree.sym) (by simp)
          rw [← List.contains_iff_mem, hlast] at this
          cases this
        | cons nxt q'' =>
          obtain ⟨ign, post', hq', hign⟩ := dropIgnored_cons hq
          refine ⟨ign, nxt, post', hq', hign, ?_⟩
          have hf := RE.follow_of_lang (x := Sym.rule x) (y := nxt.sym) hl (p'.map Tree.sym) (q''.map Tree.sym) (by simp)
          have := hfollow _ hf
          simp only [List.any_eq_true, decide_eq_true_eq] at this
          obtain ⟨pr, hpr, rfl⟩ := this
          exact hpr

theorem valid_sub {G : Grammar} {s t : Tree} (h : Tree.Sub s t) : ValidNode G t → ValidNode G s := by
  induction h with
  | refl => exact id
  | child hmem _ ih =>
    intro hv
    cases hv with
    | node _ _ kept hvl _ _ => exact ih (validList_mem hvl hmem)

/-- in a valid tree, wherever an `x` node occurs among the children of a node, the three facts
    of `attachCheck` hold for its siblings -/
theorem attach_tree {G : Grammar} {x : RuleType} {attach : List (RuleType × Sym)} {pre : List Kind}
    (hc : attachCheck G x attach pre = true) {start : RuleType} {t : Tree} (hv : ValidTree G start t)
    (r : RuleType) (cs : List Tree) (hsub : Tree.Sub (.node r cs) t) (p ts q : List Tree)
    (hcs : cs = p ++ .node x ts :: q) :
    (∀ c ∈ p, ∃ k, c = .leaf k ∧ (k ∈ pre ∨ G.ignored.contains k = true)) ∧
    ∃ ign nxt post', q = ign ++ nxt :: post' ∧ (∀ c ∈ ign, IgnorableLeaf G c) ∧ (r, nxt.sym) ∈ attach := by
  obtain ⟨cs0, rfl, hnode⟩ := hv
  generalize hroot : Tree.node start (cs0 ++ [Tree.leaf Kind.EOF]) = root at hsub
  cases hsub with
  | refl =>
    simp only [Tree.node.injEq] at hroot
    obtain ⟨rfl, hroot⟩ := hroot
    rw [hcs] at hroot
    rcases List.append_eq_append_iff.1 hroot with ⟨a', _, h2⟩ | ⟨c', h1, h2⟩
    · cases a' with
      | nil => simp at h2
      | cons z a'' => simp at h2
    · cases c' with
      | nil => simp at h2
      | cons z c'' =>
        simp only [List.cons_append, List.cons.injEq] at h2
        obtain ⟨rfl, h2⟩ := h2
        obtain ⟨hpre, ign, nxt, post', hq, hign, hat⟩ := attach_node hc hnode h1
        refine ⟨hpre, ign, nxt, post' ++ [.leaf .EOF], ?_, hign, hat⟩
        rw [h2, hq]; simp
  | child hmem hs =>
    simp only [Tree.node.injEq] at hroot
    obtain ⟨rfl, rfl⟩ := hroot
    simp only [List.mem_append, List.mem_singleton] at hmem
    cases hmem with
    | inl hin =>
      cases hnode with
      | node _ _ kept hvl _ _ =>
        exact attach_node hc (valid_sub hs (validList_mem hvl hin)) hcs
    | inr heq =>
      subst heq
      cases hs

end GV.Lemmas
