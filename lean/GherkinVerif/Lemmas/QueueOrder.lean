/-
  Lemmas/QueueOrder.lean — the look-ahead queue is a first-in-first-out buffer of consecutive
  lines: the main loop reads the tokens of lines 1, 2, 3, … in order (C18).

  Invariant of the main loop (`Head`), with `k` tokens read so far: the queue holds the tokens of
  lines `k+1 … k+|queue|` with their own texts, the scanner stands after line `k+|queue|`; and
  while the queue is not empty the state is a tag state and every queued token but the last is
  stepped over by the look-aheads (so it matches no title kind and keeps the state a tag state).
  A look-ahead is therefore entered only with an empty queue (`la_fresh`: it queues consecutive
  fresh lines) or, for a second guarded test of the same state, with exactly what the previous
  look-ahead queued (`la_queue`: it re-reads the same tokens and stops at the same one).
-/
import GherkinVerif.Lemmas.QueueMatch
import GherkinVerif.Lemmas.GluePartition
namespace GV
namespace Lemmas
open Spec

/-- what identifies a token: its physical line and line number -/
def key (t : Token) : Option Str × Nat := (t.line, t.lineNo)

/-- the token of the `i`-th physical line (0-based) of the document with lines `L`; beyond the
    last line: an end-of-file token -/
def srcAt (L : List Str) (i : Nat) : Option Str × Nat := (L[i]?, i + 1)

theorem key_eq {t t' : Token} (h1 : t'.line = t.line) (h2 : t'.lineNo = t.lineNo) : key t' = key t := by
  unfold key; rw [h1, h2]

/-! ### runs of stepped-over lines ending in a line that is not stepped over -/

/-- all but the last satisfy `P`, the last does not -/
def Good (P : Option Str → Bool) (ls : List (Option Str)) : Prop :=
  ∃ pre last, ls = pre ++ [last] ∧ (∀ x ∈ pre, P x = true) ∧ P last = false

/-- all but the last satisfy `P` -/
def AllButLast (P : Option Str → Bool) (ls : List (Option Str)) : Prop := ∀ x ∈ ls.dropLast, P x = true

theorem Good.single {P : Option Str → Bool} {l : Option Str} (h : P l = false) : Good P [l] :=
  ⟨[], l, rfl, (by intro x hx; cases hx), h⟩

theorem Good.cons {P : Option Str → Bool} {l : Option Str} {ls : List (Option Str)} (h : P l = true)
    (hg : Good P ls) : Good P (l :: ls) := by
  obtain ⟨pre, last, rfl, hp, hl⟩ := hg
  refine ⟨l :: pre, last, rfl, fun x hx => ?_, hl⟩
  rcases List.mem_cons.1 hx with rfl | hx
  · exact h
  · exact hp x hx

theorem Good.cons_inv {P : Option Str → Bool} {l : Option Str} {ls : List (Option Str)}
    (hg : Good P (l :: ls)) : (ls = [] ∧ P l = false) ∨ (P l = true ∧ Good P ls) := by
  obtain ⟨pre, last, he, hp, hl⟩ := hg
  cases pre with
  | nil =>
    simp only [List.nil_append, List.cons.injEq] at he
    obtain ⟨rfl, rfl⟩ := he
    exact .inl ⟨rfl, hl⟩
  | cons a pre =>
    simp only [List.cons_append, List.cons.injEq] at he
    obtain ⟨rfl, rfl⟩ := he
    exact .inr ⟨hp _ (List.mem_cons_self ..), pre, last, rfl, fun x hx => hp x (List.mem_cons_of_mem _ hx), hl⟩

theorem Good.ne_nil {P : Option Str → Bool} {ls : List (Option Str)} (hg : Good P ls) : ls ≠ [] := by
  obtain ⟨pre, last, rfl, -, -⟩ := hg
  simp

theorem Good.allButLast {P : Option Str → Bool} {ls : List (Option Str)} (hg : Good P ls) : AllButLast P ls := by
  obtain ⟨pre, last, rfl, hp, -⟩ := hg
  unfold AllButLast
  rw [List.dropLast_concat]
  exact hp

/-! ### the scanner-side state -/

/-- `k` tokens read so far, in order; the queue continues with lines `k+1, …`; the scanner stands
    right after the queued lines; the dialect is one of the table; every token handed to the
    builder is a token of the document -/
structure QS (D : List Dialect) (L : List Str) (k : Nat) (c : Ctx) : Prop where
  reads : c.reads = List.range' 1 k
  queue : c.queue.map key = (List.range' k c.queue.length).map (srcAt L)
  lineNo : c.lineNo = k + c.queue.length
  lines : c.lines = L.drop c.lineNo
  mu : c.μ.dialect ∈ D
  builds : ∀ t ∈ c.builds, ∃ i, key t = srcAt L i
  bound : c.lineNo ≤ L.length + 1

section QS
variable {D : List Dialect} {L : List Str} {k : Nat}

theorem QS.footM {c c' : Ctx} (h : QS D L k c) (hf : FootM c c') (hμ : c'.μ.dialect ∈ D) : QS D L k c' := by
  obtain ⟨_, _, _, rfl⟩ := hf
  exact ⟨h.reads, h.queue, h.lineNo, h.lines, hμ, h.builds, h.bound⟩

theorem QS.footE {c c' : Ctx} (h : QS D L k c) (hf : FootE c c') : QS D L k c' := by
  obtain ⟨_, rfl⟩ := hf
  exact ⟨h.reads, h.queue, h.lineNo, h.lines, h.mu, h.builds, h.bound⟩

theorem QS.footB' {c c' : Ctx} (h : QS D L k c) (hf : FootB' c c')
    (hb : ∀ t ∈ c'.builds, ∃ i, key t = srcAt L i) : QS D L k c' := by
  obtain ⟨_, _, _, _, rfl⟩ := hf
  exact ⟨h.reads, h.queue, h.lineNo, h.lines, h.mu, hb, h.bound⟩

theorem FootB'.same {c c' : Ctx} (hf : FootB' c c') : c'.queue = c.queue ∧ c'.μ = c.μ ∧ c'.calls = c.calls := by
  obtain ⟨_, _, _, _, rfl⟩ := hf
  exact ⟨rfl, rfl, rfl⟩

theorem FootM.queue {c c' : Ctx} (hf : FootM c c') : c'.queue = c.queue := hf.scan.1

end QS

/-! ### reading a token -/

theorem run_readToken_cons {c : Ctx} {t : Token} {q : List Token} (h : c.queue = t :: q) :
    run readToken c = (.ok t, { c with queue := q }) := by
  rw [run_readToken, h]

theorem run_readToken_nil {c : Ctx} (h : c.queue = []) :
    run readToken c = (.ok { line := c.lines.head?, lineNo := c.lineNo + 1 },
      { c with lines := c.lines.tail, lineNo := c.lineNo + 1 }) := by
  rw [run_readToken, h]
  dsimp only
  cases c.lines <;> rfl

/-! ### the builder side: only tokens of the document are built -/

theorem runProds_builds (cap : Nat) (stop : Bool) (L : List Str) (t : Token) (ht : ∃ i, key t = srcAt L i)
    (ps : List Prod) (c : Ctx) (r : Except Abort Unit) (c' : Ctx)
    (h : run (runProds cap stop t ps) c = (r, c')) (hc : ∀ x ∈ c.builds, ∃ i, key x = srcAt L i) :
    ∀ x ∈ c'.builds, ∃ i, key x = srcAt L i := by
  have hinv : Inv (fun c => ∀ x ∈ c.builds, ∃ i, key x = srcAt L i) (fun _ c => ∀ x ∈ c.builds, ∃ i, key x = srcAt L i)
      (runProds cap stop t ps) := by
    refine Inv.runProds ps fun p _ => Triple.intro fun c r c' hc hr => ?_
    have hstep : ∀ x ∈ c'.builds, ∃ i, key x = srcAt L i := by
      rw [run_runProd] at hr
      split at hr
      · cases hr; exact hc
      · obtain ⟨es, rfl⟩ := liftB_foot _ _ _ _ _ _ hr; exact hc
      · split at hr
        · cases hr
          intro x hx
          rcases List.mem_append.1 hx with hx | hx
          · exact hc x hx
          · rw [List.mem_singleton] at hx; subst hx; exact ht
        · obtain ⟨es, rfl⟩ := liftB_foot _ _ _ _ _ _ hr; exact hc
    cases r <;> exact hstep
  cases r with
  | ok a => exact (hinv c hc).1 _ _ h
  | error e => exact (hinv c hc).2 _ _ h

theorem QS.runProds {D : List Dialect} {L : List Str} {k : Nat} {cap : Nat} {stop : Bool} {t : Token}
    {ps : List Prod} {c : Ctx} {r : Except Abort Unit} {c' : Ctx} (hq : QS D L k c)
    (ht : ∃ i, key t = srcAt L i) (h : run (runProds cap stop t ps) c = (r, c')) :
    QS D L k c' ∧ c'.queue = c.queue ∧ c'.μ = c.μ ∧ c'.calls = c.calls := by
  have hf := runProds_foot' cap stop t ps c r c' h
  exact ⟨hq.footB' hf (runProds_builds cap stop L t ht ps c r c' h hq.builds), hf.same⟩

/-! ### one look-ahead -/

section lookahead
variable {D : List Dialect} {cap : Nat} {stop : Bool} {la : LookAhead} {sk : List Kind}

/-- matcher calls a look-ahead spends on one token, at most -/
def laCost (la : LookAhead) : Nat := la.expected.length + la.skip.length

theorem lookaheadLoop_foot (D : List Dialect) (cap : Nat) (stop : Bool) (la : LookAhead) (fuel : Nat) (acc : List Token) :
    ∀ c r c', run (lookaheadLoop D cap stop la fuel acc) c = (r, c') → FootL c c' :=
  foot_of_inv FootL FootL.refl fun c0 =>
    PrimsL.lookaheadLoop
      { readToken := Inv.of_foot FootL (fun _ _ _ => FootL.trans) readToken_foot c0
        matchP := fun k t => Inv.of_foot FootL (fun _ _ _ => FootL.trans) (fun c r c' h => (matchP_foot D cap stop k t c r c' h).toL) c0
        modQ := fun q c h => by obtain ⟨_, _, _, _, _, _, rfl⟩ := h; exact ⟨_, _, _, _, _, _, rfl⟩
        fuel := fun c h => h } la fuel acc

/-- one iteration of the look-ahead loop on the token `t` just read: the token is stepped over
    and the loop goes on, or the loop ends here (with the token as the last one, or aborting) -/
theorem la_unfold (hD : keywordsPlainStart D = true) (hskip : la.skip = sk) (hsk : sk.all isSkipKind = true)
    (hexp : la.expected.all Kind.isTitle = true)
    {c c1 : Ctx} {t : Token} (h0 : run readToken c = (.ok t, c1)) (hμ : c1.μ.dialect ∈ D)
    {fuel : Nat} {acc : List Token} {r : Except Abort (Bool × List Token)} {c' : Ctx}
    (h : run (lookaheadLoop D cap stop la (fuel + 1) acc) c = (r, c')) :
    ∃ c3, FootM c1 c3 ∧ c3.μ = c1.μ ∧ c3.calls ≤ c1.calls + laCost la ∧
      ((skipM D sk c1.μ t.line = true ∧ ∃ t2, t2.line = t.line ∧ t2.lineNo = t.lineNo ∧
          run (lookaheadLoop D cap stop la fuel (acc ++ [t2])) c3 = (r, c')) ∨
       (c' = c3 ∧ ((∃ e, r = .error e) ∨
          (skipM D sk c1.μ t.line = false ∧ ∃ m t2, t2.line = t.line ∧ t2.lineNo = t.lineNo ∧
            r = .ok (m, acc ++ [t2]))))) := by
  have hexp' : la.expected.all stableKind = true := by
    rw [List.all_eq_true] at hexp ⊢
    intro K hK; simp [stableKind, hexp K hK]
  have hsk' : la.skip.all stableKind = true := by
    rw [hskip, List.all_eq_true] at *
    intro K hK; simp [stableKind, hsk K hK]
  rw [lookaheadLoop, prun_bind, h0] at h
  dsimp only at h
  rw [prun_bind] at h
  rcases hr1 : run (matchAny D cap stop la.expected t) c1 with ⟨r1, c2⟩
  rw [hr1] at h
  obtain ⟨hf1, hμ1, hc1, hv1⟩ := matchAny_spec la.expected hexp' hr1
  cases r1 with
  | error e =>
    cases h
    exact ⟨_, hf1, hμ1, by unfold laCost; omega, .inr ⟨rfl, .inl ⟨_, rfl⟩⟩⟩
  | ok r1 =>
    obtain ⟨m1, t1⟩ := r1
    obtain ⟨hm1, hl1, hn1⟩ := hv1 m1 t1 rfl
    dsimp only at h
    split at h
    · rename_i hm
      rw [prun_pure] at h
      cases h
      refine ⟨_, hf1, hμ1, by unfold laCost; omega, .inr ⟨rfl, .inr ⟨?_, _, t1, hl1, hn1, rfl⟩⟩⟩
      cases hs : skipM D sk c1.μ t.line with
      | false => rfl
      | true =>
        have := skipM_not_titles D D hD c1.μ hμ sk hsk la.expected hexp t.line hs
        rw [← hm1, hm] at this
        cases this
    · rw [prun_bind] at h
      rcases hr2 : run (matchAny D cap stop la.skip t1) c2 with ⟨r2, c3⟩
      rw [hr2] at h
      obtain ⟨hf2, hμ2, hc2, hv2⟩ := matchAny_spec la.skip hsk' hr2
      refine ⟨c3, hf1.trans hf2, hμ2.trans hμ1, by unfold laCost; omega, ?_⟩
      cases r2 with
      | error e => cases h; exact .inr ⟨rfl, .inl ⟨_, rfl⟩⟩
      | ok r2 =>
        obtain ⟨s, t2⟩ := r2
        obtain ⟨hm2, hl2, hn2⟩ := hv2 s t2 rfl
        have hs : s = skipM D sk c1.μ t.line := by
          rw [hm2, hμ1, hl1, hskip]; rfl
        dsimp only at h
        split at h
        · rename_i hst
          exact .inl ⟨by rw [← hs]; exact hst, t2, hl2.trans hl1, hn2.trans hn1, h⟩
        · rename_i hst
          rw [prun_pure] at h
          cases h
          exact .inr ⟨rfl, .inr ⟨by rw [← hs]; simpa using hst, _, t2, hl2.trans hl1, hn2.trans hn1, rfl⟩⟩

/-- a look-ahead entered with the queue another look-ahead has just made re-reads exactly that
    queue and stops at its last token: nothing is taken from the scanner -/
theorem la_queue (hD : keywordsPlainStart D = true) (hskip : la.skip = sk) (hsk : sk.all isSkipKind = true)
    (hexp : la.expected.all Kind.isTitle = true) :
    ∀ (q : List Token) (fuel : Nat) (acc : List Token) (c : Ctx), c.queue = q →
      Good (skipM D sk c.μ) (q.map (·.line)) → c.μ.dialect ∈ D →
      ∀ r c', run (lookaheadLoop D cap stop la fuel acc) c = (r, c') →
        c'.μ = c.μ ∧ c'.lineNo = c.lineNo ∧ c'.lines = c.lines ∧
        c'.calls ≤ c.calls + laCost la * q.length ∧
        ∀ m read, r = .ok (m, read) → c'.queue = [] ∧ ∃ q', read = acc ++ q' ∧ q'.map key = q.map key := by
  intro q
  induction q with
  | nil => intro fuel acc c _ hg; exact absurd rfl hg.ne_nil
  | cons a q ih =>
    intro fuel acc c hq hg hμ r c' h
    cases fuel with
    | zero =>
      rw [lookaheadLoop, prun_throw] at h; cases h
      exact ⟨rfl, rfl, rfl, Nat.le_add_right _ _, fun m read he => by cases he⟩
    | succ fuel =>
      have h0 := run_readToken_cons hq
      obtain ⟨c3, hf, hμ3, hcalls, hcase⟩ := la_unfold hD hskip hsk hexp h0 hμ h
      obtain ⟨_, _, _, rfl⟩ := hf
      dsimp only at hμ3 hcalls hcase
      rw [List.map_cons] at hg
      have hlen : laCost la * (a :: q).length = laCost la * q.length + laCost la := by
        simp only [List.length_cons, Nat.mul_add, Nat.mul_one]
      rcases hcase with ⟨hs', t2, hl, hn, hrec⟩ | ⟨rfl, hcase⟩
      · rcases hg.cons_inv with ⟨-, hns⟩ | ⟨hs, hg'⟩
        · rw [hs'] at hns; cases hns
        · have := ih fuel (acc ++ [t2]) _ rfl (by dsimp only; rw [hμ3]; exact hg') (by dsimp only; rw [hμ3]; exact hμ) r c' hrec
          obtain ⟨h2, h3, h4, h5, hok⟩ := this
          dsimp only at h2 h3 h4 h5
          refine ⟨h2.trans hμ3, h3, h4, by rw [hlen]; omega, fun m read he => ?_⟩
          obtain ⟨h1, q', rfl, hq'⟩ := hok m read he
          refine ⟨h1, t2 :: q', by simp, ?_⟩
          simp only [List.map_cons, hq', key_eq hl hn]
      · refine ⟨hμ3, rfl, rfl, by rw [hlen]; dsimp only; omega, fun m read he => ?_⟩
        rcases hcase with ⟨e, rfl⟩ | ⟨hs', m', t2, hl, hn, rfl⟩
        · cases he
        · cases he
          rcases hg.cons_inv with ⟨hnil, -⟩ | ⟨hs, -⟩
          · have hq0 : q = [] := by simpa using hnil
            subst hq0
            refine ⟨rfl, [t2], rfl, ?_⟩
            simp only [List.map_cons, List.map_nil, key_eq hl hn]
          · rw [hs'] at hs; cases hs

/-- a look-ahead entered with an empty queue reads consecutive fresh lines from the scanner,
    all stepped over except the last one; it never reads past the end-of-file token -/
theorem la_fresh (hD : keywordsPlainStart D = true) (hskip : la.skip = sk) (hsk : sk.all isSkipKind = true)
    (hexp : la.expected.all Kind.isTitle = true) (L : List Str) :
    ∀ (fuel : Nat) (acc : List Token) (c : Ctx), c.queue = [] → c.μ.dialect ∈ D → c.lines = L.drop c.lineNo →
      ∀ r c', run (lookaheadLoop D cap stop la fuel acc) c = (r, c') →
        c'.μ = c.μ ∧ c'.queue = [] ∧ c.lineNo ≤ c'.lineNo ∧ (c.lineNo ≤ L.length → c'.lineNo ≤ L.length + 1) ∧
        c'.calls ≤ c.calls + laCost la * (c'.lineNo - c.lineNo) ∧
        ∀ m read, r = .ok (m, read) →
          ∃ new, read = acc ++ new ∧ Good (skipM D sk c.μ) (new.map (·.line)) ∧
            new.map key = (List.range' c.lineNo new.length).map (srcAt L) ∧
            c'.lineNo = c.lineNo + new.length ∧ c'.lines = L.drop c'.lineNo := by
  intro fuel
  induction fuel with
  | zero =>
    intro acc c hq _ _ r c' h
    rw [lookaheadLoop, prun_throw] at h; cases h
    exact ⟨rfl, hq, Nat.le_refl _, fun h => by omega, Nat.le_add_right _ _, fun m read he => by cases he⟩
  | succ fuel ih =>
    intro acc c hq hμ hlines r c' h
    have h0 := run_readToken_nil hq
    obtain ⟨c3, hf, hμ3, hcalls, hcase⟩ := la_unfold hD hskip hsk hexp h0 hμ h
    obtain ⟨_, _, _, rfl⟩ := hf
    dsimp only at hμ3 hcalls hcase
    have hline : c.lines.head? = L[c.lineNo]? := by rw [hlines, List.head?_drop]
    rcases hcase with ⟨hs, t2, hl, hn, hrec⟩ | ⟨rfl, hcase⟩
    · have key' := fun h1 h2 h3 => ih (acc ++ [t2]) _ h1 h2 h3 r c' hrec
      have := key' hq (by dsimp only; rw [hμ3]; exact hμ) (by dsimp only; rw [hlines, List.tail_drop])
      obtain ⟨h2, h1, hle, hbd, hcl, hok⟩ := this
      dsimp only at h2 hle hbd hcl hok hl hn
      have hlt : c.lineNo < L.length := by
        rw [hline] at hs
        cases hx : L[c.lineNo]? with
        | none => rw [hx, skipM_eof D sk hsk] at hs; cases hs
        | some x => exact (List.getElem?_eq_some_iff.1 hx).1
      have hsub : c'.lineNo - c.lineNo = (c'.lineNo - (c.lineNo + 1)) + 1 := by omega
      refine ⟨h2.trans hμ3, h1, by omega, fun _ => hbd (by omega), ?_, fun m read he => ?_⟩
      · rw [hsub, Nat.mul_add, Nat.mul_one]; omega
      · obtain ⟨new, rfl, hg, hk, hln, hls⟩ := hok m read he
        rw [hμ3] at hg
        have hkey : key t2 = srcAt L c.lineNo := by
          unfold key srcAt
          rw [hl, hn, hline]
        refine ⟨t2 :: new, by simp, ?_, ?_, ?_, hls⟩
        · rw [List.map_cons]
          exact Good.cons (by rw [hl]; exact hs) hg
        · rw [List.map_cons, hk, hkey, List.length_cons, List.range'_succ, List.map_cons]
        · rw [hln, List.length_cons]; omega
    · have hsub : c.lineNo + 1 - c.lineNo = 1 := by omega
      refine ⟨hμ3, hq, by dsimp only; omega, fun h => by dsimp only; omega, by dsimp only; rw [hsub, Nat.mul_one]; exact hcalls, fun m read he => ?_⟩
      rcases hcase with ⟨e, rfl⟩ | ⟨hs, m', t2, hl, hn, rfl⟩
      · cases he
      · cases he
        have hkey : key t2 = srcAt L c.lineNo := by
          unfold key srcAt
          rw [hl, hn, hline]
        refine ⟨[t2], rfl, ?_, ?_, rfl, ?_⟩
        · rw [List.map_cons, List.map_nil]
          exact Good.single (by rw [hl]; exact hs)
        · simp only [List.map_cons, List.map_nil, List.length_cons, List.length_nil, hkey]
          rfl
        · rw [hlines, List.tail_drop]

/-- a whole look-ahead, entered with an empty queue (on a line token) or with the queue a previous
    look-ahead made: afterwards the queue is again a run of consecutive lines, all stepped over
    but the last; whatever happens, nothing is read past the end-of-file token -/
theorem lookahead_spec (hD : keywordsPlainStart D = true) (hskip : la.skip = sk) (hsk : sk.all isSkipKind = true)
    (hexp : la.expected.all Kind.isTitle = true) {L : List Str} {k : Nat} {c : Ctx} (hqs : QS D L k c)
    (hpre : (c.queue = [] ∧ k ≤ L.length) ∨ Good (skipM D sk c.μ) (c.queue.map (·.line)))
    {r : Except Abort Bool} {c' : Ctx} (h : run (lookahead D cap stop la) c = (r, c')) :
    c'.reads = c.reads ∧ c'.lineNo ≤ L.length + 1 ∧ k ≤ c'.lineNo ∧
    c'.calls ≤ c.calls + laCost la * (c'.lineNo - k) ∧ (c.queue ≠ [] → c'.lineNo = c.lineNo) ∧
    (∀ b, r = .ok b → QS D L k c' ∧ Good (skipM D sk c'.μ) (c'.queue.map (·.line)) ∧ c'.μ = c.μ ∧
      (c.queue ≠ [] → c'.queue.length = c.queue.length)) := by
  rw [lookahead, prun_bind, run_get] at h
  dsimp only at h
  rw [prun_bind] at h
  rcases hr : run (lookaheadLoop D cap stop la (c.queue.length + c.lines.length + 2) []) c with ⟨r1, c1⟩
  rw [hr] at h
  have hfoot := lookaheadLoop_foot D cap stop la _ _ _ _ _ hr
  obtain ⟨μ1, n1, es1, q1, ls1, ln1, rfl⟩ := hfoot
  rcases hpre with ⟨hq, hk⟩ | hg
  · obtain ⟨h1, h2, h3, h4, h5, hok⟩ := la_fresh hD hskip hsk hexp L _ [] c hq hqs.mu hqs.lines _ _ hr
    dsimp only at h1 h2 h3 h4 h5 hok
    have hln : c.lineNo = k := by
      have := hqs.lineNo
      rw [hq] at this
      simpa using this
    cases r1 with
    | error e =>
      cases h
      exact ⟨rfl, h4 (by omega), by dsimp only; omega, by rw [← hln]; exact h5, fun hne => absurd hq hne, fun b he => by cases he⟩
    | ok r1 =>
      obtain ⟨m, read⟩ := r1
      dsimp only at h
      rw [prun_bind, run_modify] at h
      dsimp only at h
      rw [prun_pure] at h
      cases h
      obtain ⟨new, hnew, hg, hk', hln', hls⟩ := hok m read rfl
      rw [List.nil_append] at hnew
      subst hnew h1 h2
      refine ⟨rfl, h4 (by omega), by dsimp only; omega, by dsimp only; rw [← hln]; exact h5, fun hne => absurd hq hne, fun b _ =>
        ⟨⟨hqs.reads, ?_, ?_, hls, hqs.mu, hqs.builds, h4 (by omega)⟩, ?_, rfl, fun hne => absurd hq hne⟩⟩
      · simp only [List.nil_append]; rw [hk', hln]
      · simp only [List.nil_append]; rw [hln', hln]
      · simp only [List.nil_append]; exact hg
  · obtain ⟨h1, h2, h3, h5, hok⟩ := la_queue hD hskip hsk hexp c.queue _ [] c rfl hg hqs.mu _ _ hr
    dsimp only at h1 h2 h3 h5 hok
    have hln := hqs.lineNo
    have hsub : c.lineNo - k = c.queue.length := by omega
    cases r1 with
    | error e =>
      cases h
      subst h2
      exact ⟨rfl, hqs.bound, by dsimp only; omega, by dsimp only; rw [hsub]; exact h5, fun _ => rfl, fun b he => by cases he⟩
    | ok r1 =>
      obtain ⟨m, read⟩ := r1
      dsimp only at h
      rw [prun_bind, run_modify] at h
      dsimp only at h
      rw [prun_pure] at h
      cases h
      obtain ⟨hq1, q', hread, hq'⟩ := hok m read rfl
      rw [List.nil_append] at hread
      subst hread h1 h2 h3 hq1
      have hlen : read.length = c.queue.length := by
        have := congrArg List.length hq'
        simpa using this
      have hline : read.map (·.line) = c.queue.map (·.line) := by
        have := congrArg (List.map Prod.fst) hq'
        simpa [List.map_map, key, Function.comp_def] using this
      refine ⟨rfl, hqs.bound, by dsimp only; omega, by dsimp only; rw [hsub]; exact h5, fun _ => rfl, fun b _ =>
        ⟨⟨hqs.reads, ?_, ?_, hqs.lines, hqs.mu, hqs.builds, hqs.bound⟩, ?_, rfl, fun _ => ?_⟩⟩
      · simp only [List.nil_append]; rw [hq', hlen, hqs.queue]
      · simp only [List.nil_append]; rw [hlen]; exact hqs.lineNo
      · simp only [List.nil_append]; rw [hline]; exact hg
      · simp only [List.nil_append]; exact hlen

end lookahead

end Lemmas
end GV
