/-
  Lemmas/Locations.lean — helper lemmas for property C04 (every reported location is the exact
  1-based line and code-point column).

  Sections: physical lines (`splitLines`); indentation (`trimmed`, `lineIndent`); prefixes
  (`startsWith` as `<+:`); columns set by the matcher for keyword lines, steps, doc-string
  separators, comments; tag columns (`lineTags`); cell columns (`Spec.cells`); error locations.
-/
import GherkinVerif.Lemmas.DocString
import GherkinVerif.Spec.Cells
namespace GV

/-- decidable equality of results (`lineTags`), for evaluating concrete instances -/
instance instDecidableEqExcept {ε α} [DecidableEq ε] [DecidableEq α] : DecidableEq (Except ε α)
  | .ok a, .ok b => if h : a = b then isTrue (h ▸ rfl) else isFalse (fun e => h (Except.ok.inj e))
  | .error a, .error b => if h : a = b then isTrue (h ▸ rfl) else isFalse (fun e => h (Except.error.inj e))
  | .ok _, .error _ => isFalse nofun
  | .error _, .ok _ => isFalse nofun

end GV

namespace GV.Lemmas

/-! ### physical lines -/

theorem splitLines_flatten (src : Str) : (splitLines src).flatten = src := by
  induction src with
  | nil => rfl
  | cons c cs ih =>
    simp only [splitLines]
    split
    · rename_i h
      simp only [beq_iff_eq] at h
      simp [ih, h]
    · cases hs : splitLines cs with
      | nil => rw [hs] at ih; simp at ih; simp [← ih]
      | cons l ls => rw [hs] at ih; simp only [List.flatten_cons] at ih ⊢; simp [← ih]

theorem splitLines_ne_nil (src : Str) : ∀ l ∈ splitLines src, l ≠ [] := by
  induction src with
  | nil => simp [splitLines]
  | cons c cs ih =>
    simp only [splitLines]
    split
    · intro l hl
      simp only [List.mem_cons] at hl
      rcases hl with rfl | hl
      · simp
      · exact ih l hl
    · cases hs : splitLines cs with
      | nil => simp
      | cons l ls =>
        rw [hs] at ih
        intro x hx
        simp only [List.mem_cons] at hx
        rcases hx with rfl | hx
        · simp
        · exact ih x (by simp [hx])

theorem splitLines_no_inner_lf (src : Str) : ∀ l ∈ splitLines src, 10 ∉ l.dropLast := by
  induction src with
  | nil => simp [splitLines]
  | cons c cs ih =>
    simp only [splitLines]
    split
    · intro l hl
      simp only [List.mem_cons] at hl
      rcases hl with rfl | hl
      · simp
      · exact ih l hl
    · rename_i hc
      simp only [beq_iff_eq] at hc
      cases hs : splitLines cs with
      | nil => simp
      | cons l ls =>
        have hne := splitLines_ne_nil cs l (by simp [hs])
        rw [hs] at ih
        intro x hx
        simp only [List.mem_cons] at hx
        rcases hx with rfl | hx
        · have := ih l (by simp)
          cases l with
          | nil => exact absurd rfl hne
          | cons a as =>
            simp only [List.dropLast_cons_cons, List.mem_cons, not_or]
            exact ⟨fun h => hc h.symm, this⟩
        · exact ih x (by simp [hx])

theorem splitLines_ends_lf (src : Str) : ∀ l ∈ (splitLines src).dropLast, l.getLast? = some 10 := by
  induction src with
  | nil => simp [splitLines]
  | cons c cs ih =>
    simp only [splitLines]
    split
    · cases hs : splitLines cs with
      | nil => simp
      | cons l ls =>
        rw [hs] at ih
        intro x hx
        simp only [List.dropLast_cons_cons, List.mem_cons] at hx
        rcases hx with rfl | hx
        · rfl
        · exact ih x hx
    · cases hs : splitLines cs with
      | nil => simp
      | cons l ls =>
        have hne := splitLines_ne_nil cs l (by simp [hs])
        rw [hs] at ih
        cases ls with
        | nil => simp
        | cons l2 ls2 =>
          intro x hx
          simp only [List.dropLast_cons_cons, List.mem_cons] at hx ih
          rcases hx with rfl | hx
          · have := ih l (.inl rfl)
            cases l with
            | nil => exact absurd rfl hne
            | cons a as => simpa [List.getLast?_cons_cons] using this
          · exact ih x (.inr hx)

/-! ### indentation -/

theorem indent_all_space (l : Str) : ∀ c ∈ l.take (indentOf l), isSpace c = true := by
  induction l with
  | nil => simp [indentOf]
  | cons a as ih =>
    unfold indentOf
    split
    · rename_i h
      intro c hc
      simp only [List.take_succ_cons, List.mem_cons] at hc
      rcases hc with rfl | hc
      · exact h
      · exact ih c hc
    · simp

theorem indent_next_nonspace (l : Str) : ∀ c, l[indentOf l]? = some c → isSpace c = false := by
  induction l with
  | nil => simp [indentOf]
  | cons a as ih =>
    unfold indentOf
    split
    · intro c hc
      simp only [List.getElem?_cons_succ] at hc
      exact ih c hc
    · rename_i h
      intro c hc
      simp only [List.getElem?_cons_zero, Option.some.injEq] at hc
      subst hc
      simpa using h

/-! ### prefixes -/

theorem startsWith_iff_prefix (p s : Str) : startsWith p s = true ↔ p <+: s := by
  induction p generalizing s with
  | nil => simp [startsWith]
  | cons a p ih =>
    cases s with
    | nil => simp [startsWith]
    | cons b s =>
      simp only [startsWith, Bool.and_eq_true, beq_iff_eq, ih, List.cons_prefix_cons]

/-! ### columns set by the matcher -/

theorem setMatched_col_line (μ : MState) (t : Token) (l : Str) (ht : t.line = some l) (ty : Kind)
    (text keyword : Option Str) (ktype : Option KType) (items : List (Nat × Str)) :
    (setMatched μ t ty text keyword ktype none items).col = some (lineIndent l + 1) := by
  simp [setMatched, ht]

theorem matchTitle_spec (μ : MState) (t : Token) (l : Str) (ty : Kind) (kws : List Str) :
    (∀ t', matchTitle μ t l ty kws = some t' →
      ∃ kw, kw ∈ kws ∧ startsWith (kw ++ [58]) (trimmed l) = true ∧
        t' = setMatched μ t ty (text := some (restTrimmed l (kw.length + 1))) (keyword := some kw)) := by
  intro t' h
  unfold matchTitle at h
  split at h
  · rename_i k hk
    simp only [Option.some.injEq] at h
    exact ⟨k, List.mem_of_find?_eq_some hk, by simpa [lineStartsWithTitle] using List.find?_some hk, h.symm⟩
  · simp at h

/-- shape of a matched keyword-line token -/
def TitleTok (l : Str) (ty : Kind) (kws : List Str) (t' : Token) : Prop :=
  ∃ kw, kw ∈ kws ∧ startsWith (kw ++ [58]) (l.drop (lineIndent l)) = true ∧
    t'.keyword = some kw ∧ t'.col = some (lineIndent l + 1) ∧ t'.mtype = some ty ∧
    t'.text = some (rstripCRLF (strip ((l.drop (lineIndent l)).drop (kw.length + 1))))

theorem lmatchTitle_tok (μ : MState) (t : Token) (l : Str) (ht : t.line = some l) (ty : Kind)
    (kws : List Str) (t' : Token) (h : matchTitle μ t l ty kws = some t') :
    TitleTok l ty kws t' := by
  obtain ⟨kw, hmem, hs, rfl⟩ := matchTitle_spec μ t l ty kws t' h
  refine ⟨kw, hmem, ?_, rfl, setMatched_col_line μ t l ht .., rfl, ?_⟩
  · rw [← trimmed_eq_drop]; exact hs
  · rw [← trimmed_eq_drop]; rfl

theorem TitleTok.mono {l ty kws kws' t'} (h : TitleTok l ty kws t') (hsub : ∀ k ∈ kws, k ∈ kws') :
    TitleTok l ty kws' t' := by
  obtain ⟨kw, hm, rest⟩ := h
  exact ⟨kw, hsub kw hm, rest⟩

/-- the dialect's keyword list for each title kind -/
def titleKws (d : Dialect) : Kind → List Str
  | .FeatureLine => d.feature
  | .RuleLine => d.rule
  | .BackgroundLine => d.background
  | .ScenarioLine => d.scenario ++ d.scenarioOutline
  | .ExamplesLine => d.examples
  | _ => []

theorem title_col (D : List Dialect) (k : Kind) (μ : MState) (t : Token) (l : Str)
    (ht : t.line = some l)
    (hk : k = .FeatureLine ∨ k = .RuleLine ∨ k = .BackgroundLine ∨ k = .ScenarioLine ∨ k = .ExamplesLine)
    (hm : (matchLine D k μ t l).res = .matched) :
    TitleTok l k (titleKws μ.dialect k) (matchLine D k μ t l).tok := by
  rcases hk with rfl | rfl | rfl | rfl | rfl
  · simp only [matchLine] at hm ⊢
    cases h : matchTitle μ t l .FeatureLine μ.dialect.feature with
    | none => simp [h] at hm
    | some t' => exact lmatchTitle_tok μ t l ht _ _ t' h
  · simp only [matchLine] at hm ⊢
    cases h : matchTitle μ t l .RuleLine μ.dialect.rule with
    | none => simp [h] at hm
    | some t' => exact lmatchTitle_tok μ t l ht _ _ t' h
  · simp only [matchLine] at hm ⊢
    cases h : matchTitle μ t l .BackgroundLine μ.dialect.background with
    | none => simp [h] at hm
    | some t' => exact lmatchTitle_tok μ t l ht _ _ t' h
  · simp only [matchLine] at hm ⊢
    cases h : matchTitle μ t l .ScenarioLine μ.dialect.scenario with
    | some t' =>
      exact (lmatchTitle_tok μ t l ht _ _ t' h).mono (fun k hk => by simp [titleKws, hk])
    | none =>
      simp only [h] at hm
      cases h2 : matchTitle μ t l .ScenarioLine μ.dialect.scenarioOutline with
      | none => simp [h2] at hm
      | some t' =>
        exact (lmatchTitle_tok μ t l ht _ _ t' h2).mono (fun k hk => by simp [titleKws, hk])
  · simp only [matchLine] at hm ⊢
    cases h : matchTitle μ t l .ExamplesLine μ.dialect.examples with
    | none => simp [h] at hm
    | some t' => exact lmatchTitle_tok μ t l ht _ _ t' h

theorem title_col_list (D : List Dialect) (k : Kind) (kws : List Str) (μ : MState) (t : Token) (l : Str)
    (ht : t.line = some l)
    (hk : (k, kws) ∈ [(Kind.FeatureLine, μ.dialect.feature), (.RuleLine, μ.dialect.rule),
                      (.BackgroundLine, μ.dialect.background),
                      (.ScenarioLine, μ.dialect.scenario ++ μ.dialect.scenarioOutline),
                      (.ExamplesLine, μ.dialect.examples)])
    (hm : (matchLine D k μ t l).res = .matched) :
    ∃ kw c, kw ∈ kws ∧ (matchLine D k μ t l).tok.keyword = some kw ∧
      (matchLine D k μ t l).tok.col = some c ∧ c = lineIndent l + 1 ∧
      startsWith (kw ++ [58]) (l.drop (c - 1)) = true ∧
      (matchLine D k μ t l).tok.mtype = some k ∧
      (matchLine D k μ t l).tok.text = some (rstripCRLF (strip (l.drop (c - 1 + (kw.length + 1))))) := by
  have hk' : kws = titleKws μ.dialect k ∧ (k = .FeatureLine ∨ k = .RuleLine ∨
      k = .BackgroundLine ∨ k = .ScenarioLine ∨ k = .ExamplesLine) := by
    simp only [List.mem_cons, Prod.mk.injEq, List.not_mem_nil, or_false] at hk
    rcases hk with ⟨rfl, rfl⟩ | ⟨rfl, rfl⟩ | ⟨rfl, rfl⟩ | ⟨rfl, rfl⟩ | ⟨rfl, rfl⟩ <;> simp [titleKws]
  obtain ⟨kw, h1, h2, h3, h4, h5, h6⟩ := title_col D k μ t l ht hk'.2 hm
  exact ⟨kw, _, hk'.1 ▸ h1, h3, h4, rfl, h2, h5, by rw [h6, List.drop_drop]; rfl⟩

theorem step_col (D : List Dialect) (μ : MState) (t : Token) (l : Str) (ht : t.line = some l)
    (hm : (matchLine D .StepLine μ t l).res = .matched) :
    ∃ kw, kw ∈ μ.dialect.stepKeywords ∧ startsWith kw (l.drop (lineIndent l)) = true ∧
      (matchLine D .StepLine μ t l).tok.keyword = some kw ∧
      (matchLine D .StepLine μ t l).tok.col = some (lineIndent l + 1) ∧
      (matchLine D .StepLine μ t l).tok.mtype = some .StepLine ∧
      (matchLine D .StepLine μ t l).tok.text =
        some (rstripCRLF (strip ((l.drop (lineIndent l)).drop kw.length))) := by
  simp only [matchLine] at hm ⊢
  cases h : μ.dialect.stepKeywords.find? (fun kw => lineStartsWith l kw) with
  | none => simp [h] at hm
  | some kw =>
    refine ⟨kw, List.mem_of_find?_eq_some h, ?_, rfl, setMatched_col_line μ t l ht .., rfl, ?_⟩
    · rw [← trimmed_eq_drop]; simpa [lineStartsWith] using List.find?_some h
    · rw [← trimmed_eq_drop]; rfl

theorem docsep_col (D : List Dialect) (μ : MState) (t : Token) (l : Str) (ht : t.line = some l)
    (hm : (matchLine D .DocStringSeparator μ t l).res = .matched) :
    ∃ sep, (sep = dq3 ∨ sep = bt3 ∨ (μ.activeSep = some sep ∧ sep ≠ [])) ∧
      startsWith sep (l.drop (lineIndent l)) = true ∧
      (matchLine D .DocStringSeparator μ t l).tok.keyword = some sep ∧
      (matchLine D .DocStringSeparator μ t l).tok.col = some (lineIndent l + 1) := by
  by_cases ho : opening μ
  · rw [matchLine_docsep_opening D μ t l ho] at hm ⊢
    rw [← trimmed_eq_drop]
    by_cases h1 : startsWith dq3 (trimmed l) = true
    · exact ⟨dq3, .inl rfl, h1, by simp [h1, setMatched], by simp [h1, setMatched, ht]⟩
    · by_cases h2 : startsWith bt3 (trimmed l) = true
      · exact ⟨bt3, .inr (.inl rfl), h2, by simp [h1, h2, setMatched], by simp [h1, h2, setMatched, ht]⟩
      · simp [h1, h2] at hm
  · cases ha : μ.activeSep with
    | none => exact absurd (.inl ha) ho
    | some sep =>
      have hne : sep ≠ [] := fun h => ho (.inr (by rw [ha, h]))
      have hs := (docsep_active_iff D μ t l sep ha hne).1 hm
      rw [matchLine_docsep_active D μ t l sep ha hne]
      rw [← trimmed_eq_drop]
      exact ⟨sep, .inr (.inr ⟨rfl, hne⟩), hs, by simp [hs, setMatched], by simp [hs, setMatched, ht]⟩

theorem comment_col (D : List Dialect) (μ : MState) (t : Token) (l : Str)
    (hm : (matchLine D .Comment μ t l).res = .matched) :
    (matchLine D .Comment μ t l).tok.col = some 1 ∧
    (matchLine D .Comment μ t l).tok.text = some (rstripCRLF l) ∧
    startsWith [35] (l.drop (lineIndent l)) = true := by
  simp only [matchLine] at hm ⊢
  rw [← trimmed_eq_drop]
  by_cases h : lineStartsWith l [35] = true
  · simp only [h, if_true]
    exact ⟨rfl, rfl, h⟩
  · simp [h] at hm

theorem empty_col (D : List Dialect) (μ : MState) (t : Token) (l : Str)
    (hm : (matchLine D .Empty μ t l).res = .matched) :
    (matchLine D .Empty μ t l).tok.col = some 1 := by
  simp only [matchLine] at hm ⊢
  by_cases h : lineIsEmpty l = true
  · simp only [h, if_true]; rfl
  · simp [h] at hm

theorem other_col (D : List Dialect) (μ : MState) (t : Token) (l : Str) :
    (matchLine D .Other μ t l).tok.col = some 1 := rfl

/-! ### tag columns -/

/-- no leading whitespace -/
def NoLead (x : Str) : Prop := ∀ c, x.head? = some c → isSpace c = false

theorem noLead_lstrip (l : Str) : NoLead (lstrip l) := by
  induction l with
  | nil => intro c h; simp [lstrip] at h
  | cons a as ih =>
    unfold lstrip
    split
    · exact ih
    · rename_i h
      intro c hc
      simp only [List.head?_cons, Option.some.injEq] at hc
      subst hc; simpa using h

theorem lstrip_of_noLead (x : Str) (h : NoLead x) : lstrip x = x := by
  cases x with
  | nil => rfl
  | cons a as =>
    have := h a rfl
    simp [lstrip, this]

theorem head?_of_prefix {x y : Str} (h : x <+: y) (c : Nat) (hc : x.head? = some c) :
    y.head? = some c := by
  obtain ⟨t, rfl⟩ := h
  cases x with
  | nil => simp at hc
  | cons a as => simpa using hc

theorem noLead_of_prefix {x y : Str} (hy : NoLead y) (h : x <+: y) : NoLead x :=
  fun c hc => hy c (head?_of_prefix h c hc)

theorem dropWhileEnd_prefix (p : Nat → Bool) (x : Str) : dropWhileEnd p x <+: x := by
  induction x with
  | nil => exact List.prefix_refl _
  | cons a as ih =>
    unfold dropWhileEnd
    split
    · split
      · exact List.nil_prefix
      · exact List.prefix_cons_inj a |>.2 List.nil_prefix
    · exact List.prefix_cons_inj a |>.2 ih

theorem dropWhileEnd_cons_keep (p : Nat → Bool) (a : Nat) (as : Str) (h : p a = false) :
    ∃ r, dropWhileEnd p (a :: as) = a :: r := by
  unfold dropWhileEnd
  split
  · exact ⟨[], by simp [h]⟩
  · exact ⟨_, rfl⟩

theorem beforeWsHash_prefix (x : Str) : beforeWsHash x <+: x := by
  induction x with
  | nil => exact List.prefix_refl _
  | cons a as ih =>
    cases as with
    | nil => exact List.prefix_refl _
    | cons b bs =>
      unfold beforeWsHash
      split
      · exact List.nil_prefix
      · exact List.prefix_cons_inj a |>.2 ih

theorem beforeWsHash_cons_keep (a : Nat) (as : Str) (h : isSpace a = false) :
    ∃ r, beforeWsHash (a :: as) = a :: r := by
  cases as with
  | nil => exact ⟨[], rfl⟩
  | cons b bs => exact ⟨beforeWsHash (b :: bs), by simp [beforeWsHash, h]⟩

theorem strip_of_noLead (x : Str) (h : NoLead x) : strip x = rstrip x := by
  unfold strip; rw [lstrip_of_noLead x h]

/-- the text `tags` splits at `@`: the line without indentation, trailing whitespace and comment -/
def tagSrc (l : Str) : Str := strip (beforeWsHash (strip (trimmed l)))

theorem tagSrc_prefix (l : Str) : tagSrc l <+: l.drop (lineIndent l) := by
  unfold tagSrc
  have h0 : NoLead (trimmed l) := noLead_lstrip l
  rw [strip_of_noLead _ h0]
  have p1 : rstrip (trimmed l) <+: trimmed l := dropWhileEnd_prefix _ _
  have h1 := noLead_of_prefix h0 p1
  have p2 := beforeWsHash_prefix (rstrip (trimmed l))
  have h2 := noLead_of_prefix h1 p2
  rw [strip_of_noLead _ h2]
  have p3 : rstrip (beforeWsHash (rstrip (trimmed l))) <+: _ := dropWhileEnd_prefix _ _
  rw [← trimmed_eq_drop]
  exact (p3.trans p2).trans p1

theorem tagSrc_head (l : Str) (hs : lineStartsWith l [64] = true) : ∃ r, tagSrc l = 64 :: r := by
  unfold tagSrc
  have h0 : NoLead (trimmed l) := noLead_lstrip l
  unfold lineStartsWith at hs
  cases ht : trimmed l with
  | nil => simp [ht, startsWith] at hs
  | cons a as =>
    rw [ht] at hs h0
    simp only [startsWith, Bool.and_true, beq_iff_eq] at hs
    subst hs
    rw [strip_of_noLead _ h0]
    obtain ⟨r1, e1⟩ := dropWhileEnd_cons_keep isSpace 64 as (by decide)
    unfold rstrip
    rw [e1]
    obtain ⟨r2, e2⟩ := beforeWsHash_cons_keep 64 r1 (by decide)
    rw [e2]
    have h2 : NoLead (64 :: r2) := fun c hc => by
      simp only [List.head?_cons, Option.some.injEq] at hc; subst hc; decide
    rw [strip_of_noLead _ h2]
    exact dropWhileEnd_cons_keep isSpace 64 r2 (by decide)

theorem splitOnChar_head_prefix (sep : Nat) (s first : Str) (rest : List Str)
    (h : splitOnChar sep s = first :: rest) : first <+: s := by
  induction s generalizing first rest with
  | nil => simp [splitOnChar] at h; simp [h.1]
  | cons c cs ih =>
    unfold splitOnChar at h
    split at h
    · simp only [List.cons.injEq] at h; rw [← h.1]; exact List.nil_prefix
    · split at h
      · simp only [List.cons.injEq] at h; rw [← h.1]
        exact List.prefix_cons_inj c |>.2 List.nil_prefix
      · rename_i x xs hx
        simp only [List.cons.injEq] at h
        rw [← h.1]
        exact List.prefix_cons_inj c |>.2 (ih x xs hx)

theorem splitOnChar_cons_cons (sep : Nat) (s first item : Str) (rest : List Str)
    (h : splitOnChar sep s = first :: item :: rest) :
    ∃ s', s = first ++ sep :: s' ∧ splitOnChar sep s' = item :: rest := by
  induction s generalizing first with
  | nil => simp [splitOnChar] at h
  | cons c cs ih =>
    unfold splitOnChar at h
    split at h
    · rename_i hc
      simp only [beq_iff_eq] at hc
      simp only [List.cons.injEq] at h
      exact ⟨cs, by simp [← h.1, hc], h.2⟩
    · split at h
      · simp at h
      · rename_i x xs hx
        simp only [List.cons.injEq] at h
        obtain ⟨s', e1, e2⟩ := ih x (by rw [hx, h.2])
        exact ⟨s', by rw [← h.1, e1]; rfl, e2⟩

/-- what `tagItems` reports, relative to the string the items were split from -/
theorem tagItems_spec (items : List Str) : ∀ (s first : Str) (col : Nat),
    splitOnChar 64 s = first :: items →
    (∀ ts, tagItems items col = .ok ts →
      List.Pairwise (· < ·) (ts.map (·.1)) ∧
      ∀ p ∈ ts, ∃ k item, p.1 = col + k ∧ p.2 = 64 :: strip item ∧ p.2.any isSpace = false ∧
        (64 :: item) <+: s.drop (first.length + k)) ∧
    (∀ c, tagItems items col = .error c →
      ∃ k item, c = col + k ∧ (64 :: strip item).any isSpace = true ∧
        (64 :: item) <+: s.drop (first.length + k)) := by
  induction items with
  | nil =>
    intro s first col _
    constructor
    · intro ts h
      simp only [tagItems, Except.ok.injEq] at h
      subst h; simp
    · intro c h; simp [tagItems] at h
  | cons item rest ih =>
    intro s first col hsplit
    obtain ⟨s', hs, hsplit'⟩ := splitOnChar_cons_cons 64 s first item rest hsplit
    have hpre : item <+: s' := splitOnChar_head_prefix 64 s' item rest hsplit'
    have hdrop : ∀ n, s.drop (first.length + n) = (64 :: s').drop n := by
      intro n; rw [hs, List.drop_append]; simp
    have ih' := ih s' item (col + item.length + 1) hsplit'
    constructor
    · intro ts h
      unfold tagItems at h
      simp only at h
      split at h
      · simp at h
      · rename_i hv
        split at h
        · simp at h
        · rename_i ts' hts'
          simp only [Except.ok.injEq] at h
          subst h
          obtain ⟨hpw, hall⟩ := ih'.1 ts' hts'
          constructor
          · simp only [List.map_cons, List.pairwise_cons]
            refine ⟨?_, hpw⟩
            intro a' ha'
            simp only [List.mem_map] at ha'
            obtain ⟨p, hp, rfl⟩ := ha'
            obtain ⟨k, _, e, _⟩ := hall p hp
            rw [e]; omega
          · intro p hp
            simp only [List.mem_cons] at hp
            rcases hp with rfl | hp
            · refine ⟨0, item, rfl, rfl, by simpa using hv, ?_⟩
              rw [hdrop 0]
              exact List.prefix_cons_inj 64 |>.2 hpre
            · obtain ⟨k, it, e1, e2, e3, e4⟩ := hall p hp
              refine ⟨item.length + 1 + k, it, by rw [e1]; omega, e2, e3, ?_⟩
              rw [hdrop, show item.length + 1 + k = (item.length + k) + 1 by omega]
              exact e4
    · intro c h
      unfold tagItems at h
      simp only at h
      split at h
      · rename_i hv
        simp only [Except.error.injEq] at h
        subst h
        refine ⟨0, item, rfl, hv, ?_⟩
        rw [hdrop 0]
        exact List.prefix_cons_inj 64 |>.2 hpre
      · split at h
        · rename_i c' hc'
          simp only [Except.error.injEq] at h
          subst h
          obtain ⟨k, it, e1, e2, e3⟩ := ih'.2 c' hc'
          refine ⟨item.length + 1 + k, it, by rw [e1]; omega, e2, ?_⟩
          rw [hdrop, show item.length + 1 + k = (item.length + k) + 1 by omega]
          exact e3
        · simp at h

theorem prefix_drop {x y : Str} (h : x <+: y) (n : Nat) : x.drop n <+: y.drop n := by
  obtain ⟨t, rfl⟩ := h
  rw [List.drop_append]
  exact List.prefix_append _ _

/-- `lineTags` in terms of positions in the physical line -/
theorem lineTags_spec (l : Str) (hs : lineStartsWith l [64] = true) :
    (∀ ts, lineTags l = .ok ts →
      List.Pairwise (· < ·) (ts.map (·.1)) ∧
      ∀ p ∈ ts, ∃ k item, p.1 = lineIndent l + 1 + k ∧ p.2 = 64 :: strip item ∧
        p.2.any isSpace = false ∧ (64 :: item) <+: l.drop (lineIndent l + k)) ∧
    (∀ c, lineTags l = .error c →
      ∃ k item, c = lineIndent l + 1 + k ∧ (64 :: strip item).any isSpace = true ∧
        (64 :: item) <+: l.drop (lineIndent l + k)) := by
  obtain ⟨r, hr⟩ := tagSrc_head l hs
  have hp := tagSrc_prefix l
  have hsplit : splitOnChar 64 (tagSrc l) = [] :: (splitOnChar 64 (tagSrc l)).drop 1 := by
    rw [hr]; simp [splitOnChar]
  have key := tagItems_spec _ (tagSrc l) [] (lineIndent l + 1) hsplit
  have htr : ∀ (k : Nat) (item : Str), (64 :: item) <+: (tagSrc l).drop (([] : Str).length + k) →
      (64 :: item) <+: l.drop (lineIndent l + k) := by
    intro k item h
    have := h.trans (prefix_drop hp _)
    simpa [List.drop_drop] using this
  have hl : lineTags l = tagItems ((splitOnChar 64 (tagSrc l)).drop 1) (lineIndent l + 1) := rfl
  rw [hl]
  constructor
  · intro ts h
    obtain ⟨hpw, hall⟩ := key.1 ts h
    refine ⟨hpw, fun p hp' => ?_⟩
    obtain ⟨k, it, e1, e2, e3, e4⟩ := hall p hp'
    exact ⟨k, it, e1, e2, e3, htr k it e4⟩
  · intro c h
    obtain ⟨k, it, e1, e2, e3⟩ := key.2 c h
    exact ⟨k, it, e1, e2, htr k it e3⟩

theorem getElem?_of_cons_prefix_drop {l : Str} {a : Nat} {item : Str} {n : Nat}
    (h : (a :: item) <+: l.drop n) : l[n]? = some a := by
  rw [← List.head?_drop]
  exact head?_of_prefix h a rfl

theorem tag_cols (l : Str) (hs : lineStartsWith l [64] = true) (ts : List (Nat × Str))
    (h : lineTags l = .ok ts) :
    List.Pairwise (· < ·) (ts.map (·.1)) ∧
    ∀ p ∈ ts, lineIndent l + 1 ≤ p.1 ∧ l[p.1 - 1]? = some 64 ∧ p.2.head? = some 64 ∧
      p.2.any isSpace = false := by
  obtain ⟨hpw, hall⟩ := (lineTags_spec l hs).1 ts h
  refine ⟨hpw, fun p hp => ?_⟩
  obtain ⟨k, it, e1, e2, e3, e4⟩ := hall p hp
  refine ⟨by omega, ?_, by rw [e2]; rfl, e3⟩
  rw [e1, show lineIndent l + 1 + k - 1 = lineIndent l + k by omega]
  exact getElem?_of_cons_prefix_drop e4

/-- the exact relation between a tag name and the source: `@` + the *stripped* text that follows -/
theorem tag_name_stripped (l : Str) (hs : lineStartsWith l [64] = true) (ts : List (Nat × Str))
    (h : lineTags l = .ok ts) :
    ∀ p ∈ ts, ∃ item, (64 :: item) <+: l.drop (p.1 - 1) ∧ p.2 = 64 :: strip item := by
  obtain ⟨_, hall⟩ := (lineTags_spec l hs).1 ts h
  intro p hp
  obtain ⟨k, it, e1, e2, _, e4⟩ := hall p hp
  refine ⟨it, ?_, e2⟩
  rw [e1, show lineIndent l + 1 + k - 1 = lineIndent l + k by omega]
  exact e4

theorem tag_name_partial (l : Str) (hs : lineStartsWith l [64] = true) (ts : List (Nat × Str))
    (h : lineTags l = .ok ts) :
    ∀ p ∈ ts, (∀ ch, l[p.1]? = some ch → isSpace ch = false) →
      startsWith p.2 (l.drop (p.1 - 1)) = true := by
  intro p hp hch
  obtain ⟨it, hpre, hname⟩ := tag_name_stripped l hs ts h p hp
  have hp1 := ((tag_cols l hs ts h).2 p hp).1
  rw [startsWith_iff_prefix, hname]
  have hnl : NoLead it := by
    intro c hc
    apply hch c
    obtain ⟨t, ht⟩ := hpre
    have : l.drop p.1 = it ++ t := by
      have := congrArg (List.drop 1) ht
      simp only [List.cons_append, List.drop_succ_cons, List.drop_zero, List.drop_drop] at this
      rw [show p.1 - 1 + 1 = p.1 by omega] at this
      exact this.symm
    rw [← List.head?_drop, this]
    cases it with
    | nil => simp at hc
    | cons a as => simpa using hc
  rw [strip_of_noLead it hnl]
  exact (List.prefix_cons_inj 64 |>.2 (dropWhileEnd_prefix isSpace it)).trans hpre

theorem tag_error_col (l : Str) (hs : lineStartsWith l [64] = true) (c : Nat)
    (h : lineTags l = .error c) :
    lineIndent l + 1 ≤ c ∧ l[c - 1]? = some 64 ∧
    ∃ item, (64 :: item) <+: l.drop (c - 1) ∧ (strip item).any isSpace = true := by
  obtain ⟨k, it, e1, e2, e3⟩ := (lineTags_spec l hs).2 c h
  have e3' : (64 :: it) <+: l.drop (c - 1) := by
    rw [e1, show lineIndent l + 1 + k - 1 = lineIndent l + k by omega]; exact e3
  refine ⟨by omega, getElem?_of_cons_prefix_drop e3', it, e3', ?_⟩
  simpa [show isSpace 64 = false by decide] using e2

theorem row_col (D : List Dialect) (μ : MState) (t : Token) (l : Str) (ht : t.line = some l)
    (hm : (matchLine D .TableRow μ t l).res = .matched) :
    (matchLine D .TableRow μ t l).tok.col = some (lineIndent l + 1) ∧
    startsWith [124] (l.drop (lineIndent l)) = true ∧
    (matchLine D .TableRow μ t l).tok.items = tableCells l := by
  simp only [matchLine] at hm ⊢
  rw [← trimmed_eq_drop]
  by_cases h : lineStartsWith l [124] = true
  · simp only [h, if_true]
    exact ⟨setMatched_col_line μ t l ht .., h, rfl⟩
  · simp [h] at hm

theorem tagline_tok (D : List Dialect) (μ : MState) (t : Token) (l : Str) (ht : t.line = some l)
    (hm : (matchLine D .TagLine μ t l).res = .matched) :
    lineStartsWith l [64] = true ∧ lineTags l = .ok (matchLine D .TagLine μ t l).tok.items ∧
    (matchLine D .TagLine μ t l).tok.col = some (lineIndent l + 1) := by
  simp only [matchLine] at hm ⊢
  by_cases h : lineStartsWith l [64] = true
  · simp only [h, if_true] at hm ⊢
    cases hl : lineTags l with
    | error c => simp [hl] at hm
    | ok ts => exact ⟨trivial, rfl, setMatched_col_line μ t l ht ..⟩
  · simp [h] at hm

theorem tagline_raised (D : List Dialect) (μ : MState) (t : Token) (l : Str) (e : PErr)
    (hm : (matchLine D .TagLine μ t l).res = .raised e) :
    lineStartsWith l [64] = true ∧ ∃ c, lineTags l = .error c ∧ e.loc = ⟨t.lineNo, some c⟩ ∧
      e.kind = .tagWhitespace := by
  simp only [matchLine] at hm
  by_cases h : lineStartsWith l [64] = true
  · simp only [h, if_true] at hm
    cases hl : lineTags l with
    | error c =>
      simp only [hl, MRes.raised.injEq] at hm
      exact ⟨h, c, rfl, by rw [← hm], by rw [← hm]⟩
    | ok ts => simp [hl] at hm
  · simp [h] at hm

theorem getLocation_item (t : Token) (c : Nat) (hc : 1 ≤ c) :
    getLocation t (some c) = ⟨t.lineNo, some c⟩ := by
  have : (c == 0) = false := by simp; omega
  simp [getLocation, this]

theorem readToken_fresh (ctx : Ctx) (hq : ctx.queue = []) :
    readToken.run.run ctx =
      (.ok { line := ctx.lines.head?, lineNo := ctx.lineNo + 1 },
       { ctx with lines := ctx.lines.tail, lineNo := ctx.lineNo + 1 }) := by
  unfold readToken
  cases hl : ctx.lines <;>
    simp [hq, hl, ExceptT.run, bind, ExceptT.bind, ExceptT.mk, ExceptT.bindCont, StateT.bind, get,
      getThe, MonadStateOf.get, liftM, monadLift, MonadLift.monadLift, ExceptT.lift, StateT.get,
      set, StateT.set, pure, ExceptT.pure, StateT.pure, StateT.run, Functor.map, StateT.map]

/-! ### error locations -/

theorem unexpectedErr_loc_line (row : StateRow) (t : Token) (l : Str) (ht : t.line = some l)
    (hc : t.col = none ∨ t.col = some 0) :
    (unexpectedErr row t).loc = ⟨t.lineNo, some (lineIndent l + 1)⟩ := by
  rcases hc with hc | hc <;> simp [unexpectedErr, ht, hc]

theorem unexpectedErr_loc_line_col (row : StateRow) (t : Token) (l : Str) (ht : t.line = some l)
    (c : Nat) (hc : t.col = some c) (h0 : c ≠ 0) :
    (unexpectedErr row t).loc = t.loc := by
  simp [unexpectedErr, ht, hc, h0]

theorem unexpectedErr_loc_eof (row : StateRow) (t : Token) (ht : t.line = none) :
    (unexpectedErr row t).loc = t.loc ∧ (unexpectedErr row t).kind = .unexpectedEOF := by
  simp [unexpectedErr, ht]

section Cells
open Spec

/-! ### cell columns -/

/-- the source spelling of a token -/
def srcTok : CTok → Str
  | .pipe => [124]
  | .esc c => [92, c]
  | .chr c => [c]
  | .dangling => [92]

def srcToks (ts : List CTok) : Str := ts.flatMap srcTok

theorem srcTok_length (t : CTok) : (srcTok t).length = t.width := by
  cases t <;> rfl

theorem srcToks_append (a b : List CTok) : srcToks (a ++ b) = srcToks a ++ srcToks b := by
  simp [srcToks]

theorem srcToks_cons (t : CTok) (ts : List CTok) : srcToks (t :: ts) = srcTok t ++ srcToks ts := by
  simp [srcToks]

theorem srcToks_singleton (t : CTok) : srcToks [t] = srcTok t := by simp [srcToks]

theorem srcToks_tokenize (row : Str) : srcToks (tokenize row) = row := by
  induction row using tokenize.induct with
  | case1 => rfl
  | case2 c rest h ih =>
    rw [tokenize.eq_def]
    simp only [beq_iff_eq] at h
    simp [h, srcToks_cons, srcTok, ih]
  | case3 c h1 h2 =>
    rw [tokenize.eq_def]
    simp only [beq_iff_eq] at h1 h2
    simp [h2, srcToks, srcTok]
  | case4 c h1 h2 d rest ih =>
    rw [tokenize.eq_def]
    simp only [beq_iff_eq] at h1 h2
    simp [h2, srcToks_cons, srcTok, ih]
  | case5 c rest h1 h2 ih =>
    rw [tokenize.eq_def]
    simp only [beq_iff_eq] at h1 h2
    simp [h1, h2, srcToks_cons, srcTok, ih]

theorem segments_ne_nil (ts : List CTok) (off : Nat) (cur : List CTok) (cs : Nat) :
    segments ts off cur cs ≠ [] := by
  induction ts generalizing off cur cs with
  | nil => simp [segments]
  | cons t ts ih => cases t <;> simp [segments, ih]

/-- the segments of a row, relative to the row: the first starts at `curStart`; every later one
    starts right after a pipe; every one but the last contains no pipe token and is followed by
    a pipe in the source -/
theorem segments_spec (row : Str) (ts : List CTok) : ∀ (off : Nat) (cur : List CTok) (cs : Nat),
    row.drop cs = srcToks cur ++ srcToks ts → off = cs + (srcToks cur).length → CTok.pipe ∉ cur →
    ∃ cur' tl, segments ts off cur cs = (cs, cur') :: tl ∧
      (∀ x ∈ tl, off < x.1 ∧ row[x.1 - 1]? = some 124) ∧
      (∀ x ∈ ((cs, cur') :: tl).dropLast, CTok.pipe ∉ x.2 ∧ (srcToks x.2 ++ [124]) <+: row.drop x.1) := by
  induction ts with
  | nil => intro off cur cs _ _ _; exact ⟨cur, [], rfl, by simp, by simp⟩
  | cons t ts ih =>
    intro off cur cs hrow hoff hcur
    by_cases ht : t = .pipe
    · subst ht
      have hrow' : row.drop (off + 1) = srcToks [] ++ srcToks ts := by
        have := congrArg (List.drop ((srcToks cur).length + 1)) hrow
        rw [List.drop_drop, srcToks_cons, List.drop_append] at this
        simp only [srcTok] at this
        rw [hoff, Nat.add_assoc, this]
        simp [srcToks]
      have hpipe : row[off]? = some 124 := by
        have := congrArg (fun x => x[(srcToks cur).length]?) hrow
        simp only [List.getElem?_drop, srcToks_cons, srcTok] at this
        rw [hoff, this]
        simp
      obtain ⟨c', tl', e, h1, h2⟩ := ih (off + 1) [] (off + 1) hrow' (by simp [srcToks]) (by simp)
      refine ⟨cur, (off + 1, c') :: tl', by simp [segments, e], ?_, ?_⟩
      · intro x hx
        simp only [List.mem_cons] at hx
        rcases hx with rfl | hx
        · exact ⟨by simp, by simpa using hpipe⟩
        · exact ⟨by have := (h1 x hx).1; omega, (h1 x hx).2⟩
      · intro x hx
        rw [List.dropLast_cons_cons, List.mem_cons] at hx
        rcases hx with rfl | hx
        · refine ⟨hcur, ?_⟩
          rw [hrow, srcToks_cons]
          simp only [srcTok]
          exact List.prefix_append_right_inj _ |>.2 (List.prefix_append _ _)
        · exact h2 x hx
    · have hseg : segments (t :: ts) off cur cs = segments ts (off + t.width) (cur ++ [t]) cs := by
        cases t <;> first | (exact absurd rfl ht) | rfl
      have hrow' : row.drop cs = srcToks (cur ++ [t]) ++ srcToks ts := by
        rw [hrow, srcToks_append, srcToks_cons]; simp [srcToks]
      have hoff' : off + t.width = cs + (srcToks (cur ++ [t])).length := by
        rw [srcToks_append, srcToks_singleton, List.length_append, srcTok_length]; omega
      obtain ⟨c', tl', e, h1, h2⟩ := ih (off + t.width) (cur ++ [t]) cs hrow' hoff'
        (by simp [hcur]; exact fun h => ht h.symm)
      refine ⟨c', tl', by rw [hseg, e], ?_, h2⟩
      intro x hx
      exact ⟨by have := (h1 x hx).1; omega, (h1 x hx).2⟩

theorem mem_dropLast_of_mem_tail_dropLast {α} (a : α) (tl : List α) (x : α) (h : x ∈ tl.dropLast) :
    x ∈ (a :: tl).dropLast := by
  cases tl with
  | nil => simp at h
  | cons b r => rw [List.dropLast_cons_cons]; exact List.mem_cons_of_mem _ h

/-- every cell segment of a row sits between two pipes of the row and contains no pipe token -/
theorem cellSegments_spec (row : Str) : ∀ x ∈ cellSegments row,
    1 ≤ x.1 ∧ row[x.1 - 1]? = some 124 ∧ CTok.pipe ∉ x.2 ∧ (srcToks x.2 ++ [124]) <+: row.drop x.1 := by
  obtain ⟨c', tl, e, h1, h2⟩ := segments_spec row (tokenize row) 0 [] 0
    (by rw [srcToks_tokenize]; rfl) (by simp [srcToks]) (by simp)
  intro x hx
  unfold cellSegments at hx
  rw [e] at hx
  simp only [List.drop_succ_cons, List.drop_zero] at hx
  have hx1 := h1 x (List.dropLast_subset _ hx)
  have hx2 := h2 x (mem_dropLast_of_mem_tail_dropLast _ _ _ hx)
  exact ⟨by omega, hx1.2, hx2.1, hx2.2⟩

theorem lstripBlank_of_nonblank (a : Nat) (u : Str) (h : isBlank a = false) :
    lstripBlank (a :: u) = a :: u := by simp [lstripBlank, h]

theorem trimBlanks_cons_nonblank (a : Nat) (u : Str) (h : isBlank a = false) :
    trimBlanks (a :: u) ≠ [] := by
  unfold trimBlanks rstripBlank
  rw [lstripBlank_of_nonblank a u h]
  obtain ⟨r, hr⟩ := dropWhileEnd_cons_keep isBlank a u h
  rw [hr]; simp

theorem trimBlanks_cons_blank (a : Nat) (u : Str) (h : isBlank a = true) :
    trimBlanks (a :: u) = trimBlanks u := by
  simp [trimBlanks, lstripBlank, h]

/-- a non-pipe token whose value does not start with a blank, nor does its spelling -/
theorem value_head_nonblank (t : CTok) (ht : t ≠ .pipe) (hb : ∀ c, t = .chr c → isBlank c = false) :
    ∃ a v b s, t.value = a :: v ∧ isBlank a = false ∧ srcTok t = b :: s ∧ isBlank b = false := by
  cases t with
  | pipe => exact absurd rfl ht
  | chr c => exact ⟨c, [], c, [], rfl, hb c rfl, rfl, hb c rfl⟩
  | dangling => exact ⟨92, [], 92, [], rfl, by decide, rfl, by decide⟩
  | esc d =>
    simp only [CTok.value, srcTok]
    split
    · exact ⟨10, [], 92, [d], rfl, by decide, rfl, by decide⟩
    · split
      · rename_i h
        simp only [Bool.or_eq_true, beq_iff_eq] at h
        rcases h with rfl | rfl
        · exact ⟨124, [], 92, [124], rfl, by decide, rfl, by decide⟩
        · exact ⟨92, [], 92, [92], rfl, by decide, rfl, by decide⟩
      · exact ⟨92, [d], 92, [d], rfl, by decide, rfl, by decide⟩

/-- position of the first non-blank of a cell, within the source of the cell + closing pipe -/
theorem leading_spec (seg : List CTok) (hp : CTok.pipe ∉ seg) (tail : Str) :
    let s := srcToks seg ++ 124 :: tail
    let n := leadingBlanks (unescape seg)
    n ≤ (srcToks seg).length ∧
    (∀ j, j < n → ∃ ch, s[j]? = some ch ∧ isBlank ch = true) ∧
    (∃ ch, s[n]? = some ch ∧ isBlank ch = false) ∧
    (trimBlanks (unescape seg) = [] ↔ n = (srcToks seg).length) := by
  induction seg with
  | nil => simp [srcToks, unescape, leadingBlanks, trimBlanks, lstripBlank, rstripBlank, dropWhileEnd]; decide
  | cons t seg ih =>
    have hp' : CTok.pipe ∉ seg := fun h => hp (List.mem_cons_of_mem _ h)
    have ht : t ≠ .pipe := fun h => hp (by simp [h])
    obtain ⟨i1, i2, i3, i4⟩ := ih hp'
    by_cases hb : ∃ c, t = .chr c ∧ isBlank c = true
    · obtain ⟨c, rfl, hc⟩ := hb
      have hu : unescape (CTok.chr c :: seg) = c :: unescape seg := by simp [unescape, CTok.value]
      have hs : srcToks (CTok.chr c :: seg) = c :: srcToks seg := by simp [srcToks, srcTok]
      simp only [hu, hs, leadingBlanks, hc, if_true, List.cons_append, List.length_cons,
        trimBlanks_cons_blank c _ hc]
      refine ⟨by omega, ?_, ?_, ?_⟩
      · intro j hj
        cases j with
        | zero => exact ⟨c, rfl, hc⟩
        | succ j => simpa using i2 j (by omega)
      · simpa using i3
      · rw [i4]; omega
    · have hb' : ∀ c, t = .chr c → isBlank c = false := by
        intro c hc
        cases h : isBlank c with
        | false => rfl
        | true => exact absurd ⟨c, hc, h⟩ hb
      obtain ⟨a, v, b, s', e1, e2, e3, e4⟩ := value_head_nonblank t ht hb'
      have hu : unescape (t :: seg) = a :: (v ++ unescape seg) := by simp [unescape, e1]
      have hs : srcToks (t :: seg) = b :: (s' ++ srcToks seg) := by simp [srcToks_cons, e3]
      have hn : leadingBlanks (a :: (v ++ unescape seg)) = 0 := by simp [leadingBlanks, e2]
      simp only [hu, hs, hn, List.cons_append, List.length_cons]
      refine ⟨by omega, by intro j hj; omega, ⟨b, by simp, e4⟩, ?_⟩
      constructor
      · intro h; exact absurd h (trimBlanks_cons_nonblank a _ e2)
      · intro h; simp at h

theorem getElem?_of_prefix_drop {x l : Str} {n i : Nat} {a : Nat} (h : x <+: l.drop n)
    (hx : x[i]? = some a) : l[n + i]? = some a := by
  obtain ⟨t, ht⟩ := h
  rw [← List.getElem?_drop, ← ht, List.getElem?_append_left (by
    rcases Nat.lt_or_ge i x.length with h | h
    · exact h
    · rw [List.getElem?_eq_none h] at hx; simp at hx)]
  exact hx

theorem row_prefix (line : Str) : strip (trimmed line) <+: line.drop (lineIndent line) := by
  have h0 : NoLead (trimmed line) := noLead_lstrip line
  rw [strip_of_noLead _ h0, ← trimmed_eq_drop]
  exact dropWhileEnd_prefix _ _

/-- a reported cell column, in terms of the physical line: `o` is the 0-based position right
    after the opening pipe, `len` the length of the raw cell, so the closing pipe is at `o + len` -/
theorem cell_cols (line : Str) : ∀ p ∈ Spec.cells line, ∃ o len,
    1 ≤ o ∧ line[o - 1]? = some 124 ∧ line[o + len]? = some 124 ∧
    o + 1 ≤ p.1 ∧ p.1 ≤ o + len + 1 ∧
    (∀ j, o ≤ j → j < p.1 - 1 → ∃ ch, line[j]? = some ch ∧ isBlank ch = true) ∧
    (∃ ch, line[p.1 - 1]? = some ch ∧ isBlank ch = false) ∧
    (p.2 = [] ↔ p.1 = o + len + 1) := by
  intro p hp
  simp only [Spec.cells, List.mem_map] at hp
  obtain ⟨seg, hseg, rfl⟩ := hp
  obtain ⟨h1, h2, h3, ⟨tail, h4⟩⟩ := cellSegments_spec _ seg hseg
  have hrow := row_prefix line
  obtain ⟨l1, l2, ⟨ch, l3, l3'⟩, l4⟩ := leading_spec seg.2 h3 tail
  simp only [List.append_assoc, List.singleton_append] at h4
  rw [h4] at l2 l3
  have tr : ∀ i a, ((strip (trimmed line)).drop seg.1)[i]? = some a →
      line[lineIndent line + seg.1 + i]? = some a := by
    intro i a h
    rw [List.getElem?_drop] at h
    rw [Nat.add_assoc]
    exact getElem?_of_prefix_drop hrow h
  refine ⟨lineIndent line + seg.1, (srcToks seg.2).length, by omega, ?_, ?_, by simp only; omega,
    by simp only; omega, ?_, ?_, ?_⟩
  · have := getElem?_of_prefix_drop hrow h2
    rw [show lineIndent line + seg.1 - 1 = lineIndent line + (seg.1 - 1) by omega]
    exact this
  · apply tr
    rw [← h4]; simp
  · intro j hj1 hj2
    simp only at hj2
    obtain ⟨c, hc1, hc2⟩ := l2 (j - (lineIndent line + seg.1)) (by omega)
    refine ⟨c, ?_, hc2⟩
    have := tr _ _ hc1
    rwa [show lineIndent line + seg.1 + (j - (lineIndent line + seg.1)) = j by omega] at this
  · refine ⟨ch, ?_, l3'⟩
    have := tr _ _ l3
    simp only
    rwa [show lineIndent line + seg.1 + 1 + leadingBlanks (unescape seg.2) - 1 =
      lineIndent line + seg.1 + leadingBlanks (unescape seg.2) by omega]
  · simp only
    rw [l4]; omega

end Cells

end GV.Lemmas
