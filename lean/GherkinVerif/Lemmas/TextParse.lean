/-
  Lemmas/TextParse.lean — the queue-free parse (Spec/PureParse.lean) in collecting mode follows
  the text-level acceptor `Spec.textAccepts`: at each line it takes the branch `pickBranch` picks
  for the line's intrinsic kind, a peek returns `peekAbs` of the following intrinsic kinds, errors
  other than ragged-table errors arise exactly from raising tests and error tails.
-/
import GherkinVerif.Lemmas.TextErrors
import GherkinVerif.Lemmas.TextLevel
namespace GV
namespace Lemmas
open Spec

/-! ### the matcher's decision does not look at the token -/

def MRes.shape : MRes → Nat
  | .matched => 0
  | .no => 1
  | .raised _ => 2

theorem ofOpt_mu (μ : MState) (t : Token) (o : Option Token) :
    (match o with | some t' => (⟨t', μ, .matched⟩ : MOut) | none => ⟨t, μ, .no⟩).μ = μ := by
  cases o <;> rfl

theorem ofOpt_shape (μ : MState) (t : Token) (o : Option Token) :
    MRes.shape (match o with | some t' => (⟨t', μ, .matched⟩ : MOut) | none => ⟨t, μ, .no⟩).res =
      if o.isSome then 0 else 1 := by
  cases o <;> rfl

theorem matchDocSep_snd (μ : MState) (t t' : Token) (l sep : Str) (o : Bool) :
    (matchDocSep μ t l sep o).map Prod.snd = (matchDocSep μ t' l sep o).map Prod.snd := by
  unfold matchDocSep
  split
  · split <;> rfl
  · rfl

/-- matcher state afterwards and shape of the result are the same for every token -/
theorem matchLine_indep (D : List Dialect) (K : Kind) (μ : MState) (t t' : Token) (l : Str) :
    (matchLine D K μ t l).μ = (matchLine D K μ t' l).μ ∧
    MRes.shape (matchLine D K μ t l).res = MRes.shape (matchLine D K μ t' l).res := by
  have htitle : ∀ ty, ty.isTitle = true →
      (matchLine D ty μ t l).μ = (matchLine D ty μ t' l).μ ∧
      MRes.shape (matchLine D ty μ t l).res = MRes.shape (matchLine D ty μ t' l).res := by
    intro ty hty
    rw [matchLine_title D ty hty, matchLine_title D ty hty]
    have := matchTitle_isSome μ t t' l ty (μ.dialect.roleKeywords ty)
    cases h1 : matchTitle μ t l ty (μ.dialect.roleKeywords ty) <;>
      cases h2 : matchTitle μ t' l ty (μ.dialect.roleKeywords ty) <;>
      simp_all [MRes.shape]
  cases K
  case FeatureLine => exact htitle _ rfl
  case RuleLine => exact htitle _ rfl
  case BackgroundLine => exact htitle _ rfl
  case ScenarioLine => exact htitle _ rfl
  case ExamplesLine => exact htitle _ rfl
  case EOF => exact ⟨rfl, rfl⟩
  case Other => exact ⟨rfl, rfl⟩
  case TableRow => simp only [matchLine]; split <;> exact ⟨rfl, rfl⟩
  case StepLine => simp only [matchLine]; split <;> exact ⟨rfl, rfl⟩
  case Comment => simp only [matchLine]; split <;> exact ⟨rfl, rfl⟩
  case Empty => simp only [matchLine]; split <;> exact ⟨rfl, rfl⟩
  case Language =>
    simp only [matchLine]
    split
    · exact ⟨rfl, rfl⟩
    · split <;> exact ⟨rfl, rfl⟩
  case TagLine =>
    simp only [matchLine]
    split
    · split <;> exact ⟨rfl, rfl⟩
    · exact ⟨rfl, rfl⟩
  case DocStringSeparator =>
    simp only [matchLine]
    have h1 := matchDocSep_snd μ t t' l dq3 true
    have h2 := matchDocSep_snd μ t t' l bt3 true
    have hor : ((matchDocSep μ t l dq3 true).orElse fun _ => matchDocSep μ t l bt3 true).map Prod.snd =
        ((matchDocSep μ t' l dq3 true).orElse fun _ => matchDocSep μ t' l bt3 true).map Prod.snd := by
      cases ha : matchDocSep μ t l dq3 true <;> cases hb : matchDocSep μ t' l dq3 true <;>
        simp_all [Option.orElse]
    have key : ∀ (o o' : Option (Token × MState)), o.map Prod.snd = o'.map Prod.snd →
        (match o with | some (a, b) => (⟨a, b, .matched⟩ : MOut) | none => ⟨t, μ, .no⟩).μ =
          (match o' with | some (a, b) => (⟨a, b, .matched⟩ : MOut) | none => ⟨t', μ, .no⟩).μ ∧
        MRes.shape (match o with | some (a, b) => (⟨a, b, .matched⟩ : MOut) | none => ⟨t, μ, .no⟩).res =
          MRes.shape (match o' with | some (a, b) => (⟨a, b, .matched⟩ : MOut) | none => ⟨t', μ, .no⟩).res := by
      intro o o' h
      cases o with
      | none => cases o' with
        | none => exact ⟨rfl, rfl⟩
        | some y => simp at h
      | some x => cases o' with
        | none => simp at h
        | some y =>
          obtain ⟨a, b⟩ := x
          obtain ⟨a', b'⟩ := y
          simp only [Option.map_some, Option.some.injEq] at h
          subst h
          exact ⟨rfl, rfl⟩
    apply key
    split
    · exact hor
    · split
      · exact hor
      · exact matchDocSep_snd ..

theorem verdict_shape (D : List Dialect) (μ : MState) (l : Str) (K : Kind) :
    verdict D μ l K = (MRes.shape (matchLine D K μ (probe l) l).res == 0) := by
  unfold verdict
  cases (matchLine D K μ (probe l) l).res <;> rfl

theorem raises_shape (D : List Dialect) (μ : MState) (l : Str) (K : Kind) :
    raises D μ l K = (MRes.shape (matchLine D K μ (probe l) l).res == 2) := by
  unfold raises
  cases (matchLine D K μ (probe l) l).res <;> rfl

/-- a raise carries an error that is not a ragged-table error -/
theorem raised_bad (D : List Dialect) (K : Kind) (μ : MState) (t : Token) (l : Str) (e : PErr)
    (h : (matchLine D K μ t l).res = .raised e) : badE e := by
  have hopt : ∀ (o : Option Token), (match o with | some t' => (⟨t', μ, .matched⟩ : MOut) | none => ⟨t, μ, .no⟩).res ≠ .raised e := by
    intro o; cases o <;> (intro hh; cases hh)
  cases K
  case EOF => cases h
  case Other => cases h
  case FeatureLine => rw [matchLine_title D _ rfl] at h; exact absurd h (hopt _)
  case RuleLine => rw [matchLine_title D _ rfl] at h; exact absurd h (hopt _)
  case BackgroundLine => rw [matchLine_title D _ rfl] at h; exact absurd h (hopt _)
  case ScenarioLine => rw [matchLine_title D _ rfl] at h; exact absurd h (hopt _)
  case ExamplesLine => rw [matchLine_title D _ rfl] at h; exact absurd h (hopt _)
  case TableRow => simp only [matchLine] at h; split at h <;> cases h
  case StepLine => simp only [matchLine] at h; split at h <;> cases h
  case Comment => simp only [matchLine] at h; split at h <;> cases h
  case Empty => simp only [matchLine] at h; split at h <;> cases h
  case DocStringSeparator => simp only [matchLine] at h; split at h <;> cases h
  case TagLine =>
    simp only [matchLine] at h
    split at h
    · split at h
      · cases h
      · cases h
        refine ⟨(by intro hh; cases hh), ?_⟩
        show (lit "A tag may not contain whitespace").head? ≠ some 105
        decide
    · cases h
  case Language =>
    simp only [matchLine] at h
    split at h
    · cases h
    · split at h
      · cases h
      · cases h
        refine ⟨(by intro hh; cases hh), ?_⟩
        have hl : lit "Language not supported: " = 76 :: lit "anguage not supported: " := by decide
        show (lit "Language not supported: " ++ _).head? ≠ some 105
        rw [hl]
        simp

/-- only a successful match changes the matcher state -/
theorem nomatch_mu (D : List Dialect) (K : Kind) (μ : MState) (t : Token) (l : Str)
    (h : MRes.shape (matchLine D K μ t l).res ≠ 0) : (matchLine D K μ t l).μ = μ := by
  cases K
  case EOF => rfl
  case Other => rfl
  case FeatureLine => rw [matchLine_title D _ rfl]; exact ofOpt_mu ..
  case RuleLine => rw [matchLine_title D _ rfl]; exact ofOpt_mu ..
  case BackgroundLine => rw [matchLine_title D _ rfl]; exact ofOpt_mu ..
  case ScenarioLine => rw [matchLine_title D _ rfl]; exact ofOpt_mu ..
  case ExamplesLine => rw [matchLine_title D _ rfl]; exact ofOpt_mu ..
  case TableRow => simp only [matchLine]; split <;> rfl
  case StepLine => simp only [matchLine]; split <;> rfl
  case Comment => simp only [matchLine]; split <;> rfl
  case Empty => simp only [matchLine]; split <;> rfl
  case TagLine =>
    simp only [matchLine]
    split
    · split <;> rfl
    · rfl
  case Language =>
    simp only [matchLine] at h ⊢
    split
    · rfl
    · rename_i name hre
      split
      · rename_i d hd
        simp only [hre, hd] at h
        exact absurd rfl h
      · rfl
  case DocStringSeparator =>
    simp only [matchLine] at h ⊢
    split
    · rename_i t' μ' hr
      simp only [hr] at h
      exact absurd rfl h
    · rfl

/-! ### `matchP` in collecting mode, in terms of `verdict` / `raises` / `muAfter` -/

theorem matchTok_line {D : List Dialect} {K : Kind} {μ : MState} {t : Token} {l : Str} (hl : t.line = some l) :
    matchTok D K μ t = (matchLine D K μ t l, true) := by
  unfold matchTok; rw [hl]

theorem matchP_text {D : List Dialect} {cap : Nat} {K : Kind} {t : Token} {l : Str} {c : Ctx}
    {r : Except Abort (Bool × Token)} {c' : Ctx} (hl : t.line = some l)
    (h : run (matchP D cap false K t) c = (r, c')) :
    FootM c c' ∧ Eff cap c r c' ∧
    (verdict D c.μ l K = true → c'.μ = muAfter D c.μ l K ∧ c'.errors = c.errors ∧
      ∃ t', r = .ok (true, t') ∧ t'.line = some l) ∧
    (verdict D c.μ l K = false → c'.μ = c.μ ∧ (∀ x, r = .ok x → x.1 = false ∧ x.2.line = some l) ∧
      (raises D c.μ l K = false → c'.errors = c.errors ∧ ∃ x, r = .ok x) ∧
      (raises D c.μ l K = true → AR c → NR c')) := by
  have hfoot := matchP_foot D cap false K t c r c' h
  refine ⟨hfoot, ?_⟩
  rw [run_matchP, matchTok_line hl] at h
  dsimp only at h
  obtain ⟨hμi, hsi⟩ := matchLine_indep D K c.μ t (probe l) l
  have htok := (matchLine_tok D K c.μ t l).1
  rw [verdict_shape, raises_shape, ← hsi]
  have hmu : muAfter D c.μ l K = (matchLine D K c.μ t l).μ := hμi.symm
  cases hres : (matchLine D K c.μ t l).res with
  | matched =>
    rw [hres] at h
    dsimp only at h
    cases h
    refine ⟨Eff.ok_refl _ _ |> fun e => ⟨Grow.of_eq rfl, e.2⟩, fun _ => ⟨hmu.symm, rfl, _, rfl, htok.trans hl⟩, fun hv => ?_⟩
    simp [MRes.shape] at hv
  | no =>
    rw [hres] at h
    dsimp only at h
    cases h
    have hm := nomatch_mu D K c.μ t l (by rw [hres]; simp [MRes.shape])
    refine ⟨⟨Grow.of_eq rfl, fun a ha => by cases ha⟩, (fun hv => by simp [MRes.shape] at hv), fun _ =>
      ⟨hm, (fun x hx => by cases hx; exact ⟨rfl, htok.trans hl⟩), (fun _ => ⟨rfl, _, rfl⟩), fun hz => by simp [MRes.shape] at hz⟩⟩
  | raised e =>
    rw [hres] at h
    simp only [Bool.false_eq_true, if_false] at h
    have hm := nomatch_mu D K c.μ t l (by rw [hres]; simp [MRes.shape])
    have hbad := raised_bad D K c.μ t l e hres
    rcases ha : run (addError cap e)
        { c with μ := (matchLine D K c.μ t l).μ, calls := c.calls + (if True then 1 else 0) } with ⟨r2, c2⟩
    rw [ha] at h
    obtain ⟨hfe, heff, -⟩ := addError_spec ha
    have hnr : AR c → NR c2 := fun hc => addError_bad ha hbad hc
    obtain ⟨es, rfl⟩ := hfe
    cases r2 with
    | ok _ =>
      cases h
      refine ⟨⟨heff.1, fun a ha => by cases ha⟩, (fun hv => by simp [MRes.shape] at hv), fun _ =>
        ⟨hm, (fun x hx => by cases hx; exact ⟨rfl, htok.trans hl⟩), (fun hz => by simp [MRes.shape] at hz), fun _ => hnr⟩⟩
    | error a =>
      cases h
      refine ⟨⟨heff.1, fun a' ha' => by cases ha'; exact heff.2 _ rfl⟩, (fun hv => by simp [MRes.shape] at hv), fun _ =>
        ⟨hm, (fun x hx => by cases hx), (fun hz => by simp [MRes.shape] at hz), fun _ => hnr⟩⟩

/-- on the end-of-file token only the `EOF` test succeeds; nothing else happens -/
theorem matchP_eofTok {D : List Dialect} {cap : Nat} {stop : Bool} {K : Kind} {t : Token} {c : Ctx}
    {r : Except Abort (Bool × Token)} {c' : Ctx} (hl : t.line = none)
    (h : run (matchP D cap stop K t) c = (r, c')) :
    FootM c c' ∧ c'.μ = c.μ ∧ c'.errors = c.errors ∧ ∃ t', r = .ok (K == .EOF, t') ∧ t'.line = none := by
  have hfoot := matchP_foot D cap stop K t c r c' h
  refine ⟨hfoot, ?_⟩
  rw [run_matchP] at h
  unfold matchTok at h
  rw [hl] at h
  dsimp only at h
  cases hk : K == Kind.EOF with
  | true =>
    rw [hk] at h
    simp only [if_true] at h
    cases h
    exact ⟨rfl, rfl, _, rfl, by simp [setMatched, hl]⟩
  | false =>
    rw [hk] at h
    simp only [Bool.false_eq_true, if_false] at h
    cases h
    exact ⟨rfl, rfl, _, rfl, hl⟩

/-! ### in collecting mode errors only accumulate, and an abort is the composite of the errors so far -/

def EffM {α} (cap : Nat) (m : PM α) : Prop := ∀ c r c', run m c = (r, c') → Eff cap c r c'

theorem EffM.pure {α} {cap : Nat} (a : α) : EffM cap (Pure.pure a : PM α) := by
  intro c r c' h; rw [prun_pure] at h; cases h; exact Eff.ok_refl _ _

theorem EffM.crash {α} {cap : Nat} (w : String) : EffM cap (throw (.crash w) : PM α) := by
  intro c r c' h; rw [prun_throw] at h; cases h
  exact ⟨Grow.refl _, fun a ha => by cases ha; exact .inr (.inl ⟨_, rfl⟩)⟩

theorem EffM.fuel {α} {cap : Nat} : EffM cap (throw .fuel : PM α) := by
  intro c r c' h; rw [prun_throw] at h; cases h
  exact ⟨Grow.refl _, fun a ha => by cases ha; exact .inr (.inr rfl)⟩

theorem EffM.bind {α β} {cap : Nat} {m : PM α} {f : α → PM β} (h1 : EffM cap m) (h2 : ∀ a, EffM cap (f a)) : EffM cap (m >>= f) := by
  intro c r c' h
  rw [prun_bind] at h
  rcases hr : run m c with ⟨r1, c1⟩
  rw [hr] at h
  have e1 := h1 c r1 c1 hr
  cases r1 with
  | ok a =>
    have e2 := h2 a c1 r c' h
    exact ⟨e1.1.trans e2.1, e2.2⟩
  | error e => cases h; exact ⟨e1.1, fun a ha => by cases ha; exact e1.2 _ rfl⟩

theorem EffM.get_bind {β} {cap : Nat} {f : Ctx → PM β} (h : ∀ x, EffM cap (f x)) : EffM cap (get >>= f) := by
  intro c r c' hr
  rw [prun_bind, run_get] at hr
  exact h c c r c' hr

theorem EffM.modify {cap : Nat} (f : Ctx → Ctx) (hf : ∀ c, (f c).errors = c.errors) : EffM cap (modify f : PM PUnit) := by
  intro c r c' h
  rw [run_modify] at h; cases h
  exact ⟨Grow.of_eq (hf c), fun a ha => by cases ha⟩

theorem EffM.set_of {cap : Nat} (x : Ctx) : ∀ c r c', c.errors = x.errors → run (set x : PM PUnit) c = (r, c') → Eff cap c r c' := by
  intro c r c' hx h
  rw [run_set] at h; cases h
  exact ⟨Grow.of_eq hx.symm, fun a ha => by cases ha⟩

theorem EffM.addError (cap : Nat) (e : PErr) : EffM cap (addError cap e) := fun _ _ _ h => (addError_spec h).2.1

theorem EffM.matchP (D : List Dialect) (cap : Nat) (K : Kind) (t : Token) : EffM cap (matchP D cap false K t) := by
  intro c r c' h
  rw [run_matchP] at h
  dsimp only at h
  split at h
  · cases h; exact ⟨Grow.of_eq rfl, fun a ha => by cases ha⟩
  · cases h; exact ⟨Grow.of_eq rfl, fun a ha => by cases ha⟩
  · rename_i e hres
    simp only [Bool.false_eq_true, if_false] at h
    rcases ha : run (GV.addError cap e) _ with ⟨r2, c2⟩
    rw [ha] at h
    obtain ⟨-, heff, -⟩ := addError_spec ha
    have hg : Grow c c2 := heff.1
    cases r2 with
    | ok _ => cases h; exact ⟨hg, fun a ha => by cases ha⟩
    | error a => cases h; exact ⟨hg, fun a' ha' => by cases ha'; exact heff.2 _ rfl⟩

theorem EffM.matchAny (D : List Dialect) (cap : Nat) (ks : List Kind) (t : Token) :
    EffM cap (matchAny D cap false ks t) := by
  induction ks generalizing t with
  | nil => exact EffM.pure _
  | cons k ks ih =>
    unfold GV.matchAny
    refine EffM.bind (EffM.matchP D cap k t) fun x => ?_
    obtain ⟨m, t'⟩ := x
    dsimp only
    split
    · exact EffM.pure _
    · exact ih _

theorem EffM.peekLoop (D : List Dialect) (cap : Nat) (la : LookAhead) : ∀ (ls : List Str) (n : Nat),
    EffM cap (peekLoop D cap false la ls n) := by
  intro ls
  induction ls with
  | nil =>
    intro n
    unfold Spec.peekLoop
    refine EffM.bind (EffM.matchAny D cap _ _) fun x => ?_
    obtain ⟨m, t1⟩ := x
    dsimp only
    split
    · exact EffM.pure _
    · exact EffM.bind (EffM.matchAny D cap _ _) fun _ => EffM.pure _
  | cons l ls ih =>
    intro n
    unfold Spec.peekLoop
    refine EffM.bind (EffM.matchAny D cap _ _) fun x => ?_
    obtain ⟨m, t1⟩ := x
    dsimp only
    split
    · exact EffM.pure _
    · refine EffM.bind (EffM.matchAny D cap _ _) fun y => ?_
      obtain ⟨s, t2⟩ := y
      dsimp only
      split
      · exact ih _
      · exact EffM.pure _

theorem EffM.lookaheadPure (D : List Dialect) (cap : Nat) (la : LookAhead) : EffM cap (lookaheadPure D cap false la) := by
  unfold Spec.lookaheadPure
  exact EffM.get_bind fun x => EffM.peekLoop D cap la _ _

theorem EffM.runProds (cap : Nat) (t : Token) (ps : List Prod) : EffM cap (runProds cap false t ps) :=
  fun _ _ _ h => (runProds_spec ps h).2.1

theorem EffM.tail (D : List Dialect) (T : Table) (row : StateRow) (t : Token) :
    EffM T.errorCap (tryBranchesPure D T false row [] t) := by
  unfold tryBranchesPure
  refine EffM.bind (EffM.modify _ fun _ => rfl) fun _ => ?_
  simp only [Bool.false_eq_true, if_false]
  exact EffM.bind (EffM.addError _ _) fun _ => EffM.pure _

theorem EffM.tryBranchesPure (D : List Dialect) (T : Table) (row : StateRow) (bs : List Branch) (t : Token) :
    EffM T.errorCap (tryBranchesPure D T false row bs t) := by
  induction bs generalizing t with
  | nil => exact EffM.tail D T row t
  | cons b bs ih =>
    unfold Spec.tryBranchesPure
    refine EffM.bind (EffM.matchP D _ _ _) fun x => ?_
    obtain ⟨m, t'⟩ := x
    dsimp only
    split
    · have cont : ∀ ok : Bool, EffM T.errorCap (if ok = true then do
            GV.runProds T.errorCap false t' b.prods
            Pure.pure b.target
          else Spec.tryBranchesPure D T false row bs t') := by
        intro ok
        split
        · exact EffM.bind (EffM.runProds _ _ _) fun _ => EffM.pure _
        · exact ih _
      split
      · exact EffM.bind (EffM.pure _) cont
      · split
        · exact EffM.bind (EffM.lookaheadPure D _ _) cont
        · exact EffM.bind (EffM.crash _) cont
    · exact ih _

theorem EffM.matchTokenPure (D : List Dialect) (T : Table) (s : Nat) (t : Token) :
    EffM T.errorCap (matchTokenPure D T false s t) := by
  unfold Spec.matchTokenPure
  split
  · exact EffM.tryBranchesPure D T _ _ t
  · exact EffM.crash _

theorem EffM.parseLinesPure (D : List Dialect) (T : Table) : ∀ (fuel s : Nat),
    EffM T.errorCap (parseLinesPure D T false fuel s) := by
  intro fuel
  induction fuel with
  | zero => intro s; unfold Spec.parseLinesPure; exact EffM.fuel
  | succ fuel ih =>
    intro s c r c' h
    rw [pure_step] at h
    have hstep : EffM T.errorCap (Spec.matchTokenPure D T false s { line := c.lines.head?, lineNo := c.lineNo + 1 } >>= fun s' =>
          if ({ line := c.lines.head?, lineNo := c.lineNo + 1 } : Token).eof then Pure.pure s'
          else Spec.parseLinesPure D T false fuel s') := by
      refine EffM.bind (EffM.matchTokenPure D T s _) fun s' => ?_
      split
      · exact EffM.pure _
      · exact ih _
    exact hstep { c with lines := c.lines.tail, lineNo := c.lineNo + 1, reads := c.reads ++ [c.lineNo + 1] } r c' h

/-! ### `matchAny` on a line token and on the end-of-file token -/

theorem raises_imp (D : List Dialect) (μ : MState) (l : Str) (K : Kind) (h : raises D μ l K = true) :
    (K = .TagLine ∨ K = .Language) ∧ verdict D μ l K = false := by
  rw [raises_shape] at h
  rw [verdict_shape]
  have h2 : MRes.shape (matchLine D K μ (probe l) l).res = 2 := by simpa using h
  refine ⟨?_, by rw [h2]; rfl⟩
  cases hres : (matchLine D K μ (probe l) l).res with
  | matched => rw [hres] at h2; cases h2
  | no => rw [hres] at h2; cases h2
  | raised e =>
    have hopt : ∀ (o : Option Token), (match o with | some t' => (⟨t', μ, .matched⟩ : MOut) | none => ⟨probe l, μ, .no⟩).res ≠ .raised e := by
      intro o; cases o <;> (intro hh; cases hh)
    cases K
    case TagLine => exact .inl rfl
    case Language => exact .inr rfl
    case EOF => cases hres
    case Other => cases hres
    case FeatureLine => rw [matchLine_title D _ rfl] at hres; exact absurd hres (hopt _)
    case RuleLine => rw [matchLine_title D _ rfl] at hres; exact absurd hres (hopt _)
    case BackgroundLine => rw [matchLine_title D _ rfl] at hres; exact absurd hres (hopt _)
    case ScenarioLine => rw [matchLine_title D _ rfl] at hres; exact absurd hres (hopt _)
    case ExamplesLine => rw [matchLine_title D _ rfl] at hres; exact absurd hres (hopt _)
    case TableRow => simp only [matchLine] at hres; split at hres <;> cases hres
    case StepLine => simp only [matchLine] at hres; split at hres <;> cases hres
    case Comment => simp only [matchLine] at hres; split at hres <;> cases hres
    case Empty => simp only [matchLine] at hres; split at hres <;> cases hres
    case DocStringSeparator => simp only [matchLine] at hres; split at hres <;> cases hres

theorem raises_tag_start (D : List Dialect) (μ : MState) (l : Str) (h : raises D μ l .TagLine = true) :
    lineStartsWith l [64] = true := by
  cases hc : lineStartsWith l [64] with
  | true => rfl
  | false => simp [raises, matchLine, hc] at h

theorem matchAny_eofTok {D : List Dialect} {cap : Nat} {stop : Bool} (ks : List Kind) (hks : Kind.EOF ∉ ks) {t : Token}
    (hl : t.line = none) {c : Ctx} {r : Except Abort (Bool × Token)} {c' : Ctx}
    (h : run (matchAny D cap stop ks t) c = (r, c')) :
    FootM c c' ∧ c'.μ = c.μ ∧ c'.errors = c.errors ∧ ∃ t', r = .ok (false, t') ∧ t'.line = none := by
  induction ks generalizing t c with
  | nil => rw [GV.matchAny, prun_pure] at h; cases h; exact ⟨FootM.refl _, rfl, rfl, _, rfl, hl⟩
  | cons k ks ih =>
    rw [GV.matchAny, prun_bind] at h
    rcases hr : run (matchP D cap stop k t) c with ⟨r1, c1⟩
    rw [hr] at h
    obtain ⟨hf, hμ, he, t1, rfl, hl1⟩ := matchP_eofTok hl hr
    have hk : (k == Kind.EOF) = false := by
      cases hh : k == Kind.EOF with
      | false => rfl
      | true => exact absurd (by rw [← (beq_iff_eq.1 hh)]; exact List.mem_cons_self ..) hks
    rw [hk] at h
    dsimp only at h
    simp only [Bool.false_eq_true, if_false] at h
    obtain ⟨hf2, hμ2, he2, t2, hr2, hl2⟩ := ih (fun hm => hks (List.mem_cons_of_mem _ hm)) hl1 h
    exact ⟨hf.trans hf2, hμ2.trans hμ, he2.trans he, t2, hr2, hl2⟩

/-- `matchAny` over skip / title kinds on a line token: the verdict, and either nothing is added
    to the error list or some test of the list raises -/
theorem matchAny_text {D : List Dialect} {cap : Nat} (ks : List Kind) {t : Token} {l : Str} (hl : t.line = some l)
    {c : Ctx} {r : Except Abort (Bool × Token)} {c' : Ctx} (h : run (matchAny D cap false ks t) c = (r, c')) :
    (∀ K ∈ ks, stableKind K = true) →
    FootM c c' ∧ c'.μ = c.μ ∧ (∀ m t', r = .ok (m, t') → m = ks.any (verdict D c.μ l) ∧ t'.line = some l) ∧
    ((c'.errors = c.errors ∧ ∃ x, r = .ok x) ∨ (∃ K ∈ ks, raises D c.μ l K = true ∧ (AR c → NR c'))) := by
  induction ks generalizing t c with
  | nil =>
    intro _
    rw [GV.matchAny, prun_pure] at h
    cases h
    exact ⟨FootM.refl _, rfl, (fun m t' he => by cases he; exact ⟨rfl, hl⟩), .inl ⟨rfl, _, rfl⟩⟩
  | cons k ks ih =>
    intro hst
    have hk := hst k (List.mem_cons_self ..)
    have hst' : ∀ K ∈ ks, stableKind K = true := fun K hK => hst K (List.mem_cons_of_mem _ hK)
    rw [GV.matchAny, prun_bind] at h
    rcases hr : run (matchP D cap false k t) c with ⟨r1, c1⟩
    rw [hr] at h
    obtain ⟨hf, heff, hyes, hno⟩ := matchP_text hl hr
    cases hv : verdict D c.μ l k with
    | true =>
      obtain ⟨hμ1, he1, t1, rfl, hl1⟩ := hyes hv
      dsimp only at h
      simp only [if_true] at h
      rw [prun_pure] at h
      cases h
      refine ⟨hf, ?_, fun m t' he => ?_, .inl ⟨he1, _, rfl⟩⟩
      · rw [hμ1]; exact muAfter_stable D c.μ l k hk
      · cases he
        exact ⟨by rw [List.any_cons, hv]; rfl, hl1⟩
    | false =>
      obtain ⟨hμ1, hval, hnz, hz⟩ := hno hv
      cases r1 with
      | error a =>
        cases h
        refine ⟨hf, hμ1, (fun m t' he => by cases he), ?_⟩
        cases hzz : raises D c.μ l k with
        | false => obtain ⟨-, x, hx⟩ := hnz hzz; cases hx
        | true => exact .inr ⟨k, List.mem_cons_self .., hzz, hz hzz⟩
      | ok x =>
        obtain ⟨m1, t1⟩ := x
        obtain ⟨hm1, hl1⟩ := hval _ rfl
        dsimp only at hm1 hl1 h
        subst hm1
        simp only [Bool.false_eq_true, if_false] at h
        obtain ⟨hf2, hμ2, hval2, hcase2⟩ := ih hl1 h hst'
        rw [hμ1] at hval2 hcase2
        refine ⟨hf.trans hf2, hμ2.trans hμ1, fun m t' he => ?_, ?_⟩
        · obtain ⟨hm, hl2⟩ := hval2 m t' he
          exact ⟨by rw [List.any_cons, hv, Bool.false_or]; exact hm, hl2⟩
        · have hgrow := (EffM.matchAny D cap ks t1 c1 r c' h).1
          cases hzz : raises D c.μ l k with
          | true => exact .inr ⟨k, List.mem_cons_self .., hzz, fun hc => hgrow.nr (hz hzz hc)⟩
          | false =>
            obtain ⟨he1, -⟩ := hnz hzz
            rcases hcase2 with ⟨he2, hx⟩ | ⟨K, hK, hzK, hnr⟩
            · exact .inl ⟨he2.trans he1, hx⟩
            · refine .inr ⟨K, List.mem_cons_of_mem _ hK, hzK, fun hc => hnr ?_⟩
              intro e he; rw [he1] at he; exact hc e he

/-! ### a peek: its value, and what a raising tag line met by a peek means -/

/-- the matcher state is one the parse can be in -/
def MuOK (D : List Dialect) (μ : MState) : Prop := μ.dialect ∈ D ∧ sepOK μ = true

/-- the kinds the following lines have under `μ`, then end of file -/
def kindsOf (D : List Dialect) (μ : MState) (ls : List Str) : List Kind := ls.map (intrinsicKind D μ) ++ [.EOF]

/-- from every tag state the text-level acceptor rejects the lines `ls` -/
def Doomed (D : List Dialect) (T : Table) (μ : MState) (ls : List Str) : Prop :=
  ∀ s, isTag T s = true → textAccepts D T s μ ls = false

theorem stable_mem_priority {K : Kind} (h : stableKind K = true) : K ∈ kindPriority := by
  cases K <;> first | exact absurd h (by decide) | decide

/-- in a tag state a line that passes a skip kind takes a skip-kind test: tag state again, matcher
    state unchanged -/
theorem tag_pick_skip {D' : List Dialect} {T : Table} (F : QF D' T) {s : Nat} {row : StateRow}
    (hs : isTag T s = true) (hrow : T.row? s = some row) {k : Kind} {fut : List Kind} {b : Branch}
    (hp : pickBranch T k fut row.branches = some b) {K0 : Kind} (hK0 : isSkipKind K0 = true) (hp0 : passes k K0 = true) :
    isTag T b.target = true ∧ stableKind b.kind = true := by
  obtain ⟨hmem, hpass, -⟩ := pick_mem hp
  obtain ⟨hbr, -⟩ := F.tagRow s row hs hrow
  obtain ⟨-, hstab, htgt⟩ := hbr b hmem
  have hbs : isSkipKind b.kind = true := by
    cases hb : isSkipKind b.kind with
    | true => rfl
    | false =>
      exfalso
      have htitle : b.kind.isTitle = true := by simpa [stableKind, hb] using hstab
      have hk := passes_title htitle hpass
      rcases passes_skip hK0 hp0 with h | ⟨h, -⟩
      · rw [hk] at h; rw [h] at htitle
        cases K0 <;> first | exact absurd hK0 (by decide) | exact absurd htitle (by decide)
      · rw [hk] at h; rw [h] at htitle; exact absurd htitle (by decide)
  exact ⟨htgt hbs, hstab⟩

theorem doomed_skip {D : List Dialect} {T : Table} (F : QF D T) (μ : MState) (l : Str) (ls : List Str)
    {K0 : Kind} (hK0 : isSkipKind K0 = true) (hp0 : passes (intrinsicKind D μ l) K0 = true)
    (hd : Doomed D T μ ls) : Doomed D T μ (l :: ls) := by
  intro s hs
  simp only [textAccepts]
  cases hrow : T.row? s with
  | none => rfl
  | some row =>
    dsimp only
    cases hp : pickBranch T (intrinsicKind D μ l) (ls.map (intrinsicKind D μ) ++ [.EOF]) row.branches with
    | none => rfl
    | some b =>
      obtain ⟨htag, hstab⟩ := tag_pick_skip F hs hrow hp hK0 hp0
      dsimp only
      rw [muAfter_stable D μ l b.kind hstab, hd b.target htag, Bool.and_false]

theorem doomed_raise {D : List Dialect} {T : Table} (hf : textDialectFacts D = true) (F : QF D T) (μ : MState)
    (hμ : MuOK D μ) (l : Str) (ls : List Str) (hz : raises D μ l .TagLine = true) : Doomed D T μ (l :: ls) := by
  intro s hs
  simp only [textAccepts]
  cases hrow : T.row? s with
  | none => rfl
  | some row =>
    dsimp only
    cases hp : pickBranch T (intrinsicKind D μ l) (ls.map (intrinsicKind D μ) ++ [.EOF]) row.branches with
    | none => rfl
    | some b =>
      exfalso
      obtain ⟨hmem, hpass, -⟩ := pick_mem hp
      obtain ⟨hbr, -⟩ := F.tagRow s row hs hrow
      obtain ⟨-, hstab, -⟩ := hbr b hmem
      have hv : verdict D μ l b.kind = true := by rw [kind_unique hf D μ hμ.1 hμ.2 l]; exact hpass
      have hc := verdict_class hf D μ hμ.1 hμ.2 l b.kind (stable_mem_priority hstab) hv
      rw [headClass_of_startsWith (p := [64]) rfl (raises_tag_start D μ l hz)] at hc
      have hk : b.kind = .TagLine := by
        cases hbk : b.kind <;> rw [hbk] at hc hstab <;> first | rfl | exact absurd hc (by decide) | exact absurd hstab (by decide)
      rw [hk, (raises_imp D μ l .TagLine hz).2] at hv
      cases hv

theorem any_verdict_eq {D : List Dialect} (hf : textDialectFacts D = true) (μ : MState) (hμ : MuOK D μ) (l : Str)
    (ks : List Kind) : ks.any (verdict D μ l) = ks.any (passes (intrinsicKind D μ l)) := by
  induction ks with
  | nil => rfl
  | cons k ks ih => rw [List.any_cons, List.any_cons, ih, kind_unique hf D μ hμ.1 hμ.2 l]

theorem any_passes_EOF (ks : List Kind) (h : ∀ K ∈ ks, stableKind K = true) : ks.any (passes .EOF) = false := by
  rw [List.any_eq_false]
  intro K hK
  have := h K hK
  cases K <;> first | exact absurd this (by decide) | decide

theorem peek_text {D : List Dialect} {T : Table} (hf : textDialectFacts D = true) (F : QF D T) {cap i : Nat}
    {la : LookAhead} (hla : T.lookaheads[i]? = some la) :
    ∀ (ls : List Str) (n : Nat) (c : Ctx), MuOK D c.μ →
      ∀ r c', run (peekLoop D cap false la ls n) c = (r, c') →
        FootM c c' ∧ c'.μ = c.μ ∧ (∀ b, r = .ok b → b = peekAbs la (kindsOf D c.μ ls)) ∧
        (AR c → AR c' ∨ (NR c' ∧ Doomed D T c.μ ls)) := by
  obtain ⟨hskipla, hexpla, -⟩ := F.la i la hla
  have hsk : la.skip.all isSkipKind = true := by rw [hskipla]; exact F.skAll
  have hexpS : ∀ K ∈ la.expected, stableKind K = true := by
    intro K hK; simp [stableKind, List.all_eq_true.1 hexpla K hK]
  have hskS : ∀ K ∈ la.skip, stableKind K = true := by
    intro K hK; simp [stableKind, List.all_eq_true.1 hsk K hK]
  have hnoE : ∀ ks : List Kind, (∀ K ∈ ks, stableKind K = true) → Kind.EOF ∉ ks := by
    intro ks h hm; exact absurd (h _ hm) (by decide)
  intro ls
  induction ls with
  | nil =>
    intro n c _ r c' h
    rw [peekLoop, prun_bind] at h
    rcases hr1 : run (matchAny D cap false la.expected { line := none, lineNo := n }) c with ⟨r1, c1⟩
    rw [hr1] at h
    obtain ⟨hf1, hμ1, he1, t1, rfl, hl1⟩ := matchAny_eofTok la.expected (hnoE _ hexpS) rfl hr1
    dsimp only at h
    simp only [Bool.false_eq_true, if_false] at h
    rw [prun_bind] at h
    rcases hr2 : run (matchAny D cap false la.skip t1) c1 with ⟨r2, c2⟩
    rw [hr2] at h
    obtain ⟨hf2, hμ2, he2, t2, rfl, -⟩ := matchAny_eofTok la.skip (hnoE _ hskS) hl1 hr2
    dsimp only at h
    rw [prun_pure] at h
    cases h
    refine ⟨hf1.trans hf2, hμ2.trans hμ1, fun b hb => ?_, fun hc => .inl ?_⟩
    · cases hb
      simp only [kindsOf, List.map_nil, List.nil_append, peekAbs, any_passes_EOF _ hexpS, any_passes_EOF _ hskS]
      rfl
    · intro e he; rw [he2, he1] at he; exact hc e he
  | cons l ls ih =>
    intro n c hμ r c' h
    rw [peekLoop, prun_bind] at h
    rcases hr1 : run (matchAny D cap false la.expected { line := some l, lineNo := n }) c with ⟨r1, c1⟩
    rw [hr1] at h
    obtain ⟨hf1, hμ1, hv1, hc1⟩ := matchAny_text la.expected (t := { line := some l, lineNo := n }) rfl hr1 hexpS
    -- title kinds never raise
    have he1 : c1.errors = c.errors ∧ ∃ x, r1 = .ok x := by
      rcases hc1 with h1 | ⟨K, hK, hz, -⟩
      · exact h1
      · exfalso
        have hti := List.all_eq_true.1 hexpla K hK
        rcases (raises_imp D c.μ l K hz).1 with rfl | rfl <;> exact absurd hti (by decide)
    obtain ⟨he1, ⟨m1, t1⟩, rfl⟩ := he1
    obtain ⟨hm1, hl1⟩ := hv1 m1 t1 rfl
    rw [any_verdict_eq hf c.μ hμ l] at hm1
    have hk : kindsOf D c.μ (l :: ls) = intrinsicKind D c.μ l :: kindsOf D c.μ ls := rfl
    dsimp only at h
    split at h
    · rename_i hm
      rw [prun_pure] at h
      cases h
      refine ⟨hf1, hμ1, fun b hb => ?_, fun hc => .inl ?_⟩
      · cases hb
        rw [hk, peekAbs, ← hm1, hm]; rfl
      · intro e he; rw [he1] at he; exact hc e he
    · rename_i hm
      have hm' : la.expected.any (passes (intrinsicKind D c.μ l)) = false := by rw [← hm1]; simpa using hm
      rw [prun_bind] at h
      rcases hr2 : run (matchAny D cap false la.skip t1) c1 with ⟨r2, c2⟩
      rw [hr2] at h
      obtain ⟨hf2, hμ2, hv2, hc2⟩ := matchAny_text la.skip hl1 hr2 hskS
      rw [hμ1] at hv2 hc2
      have hARc1 : AR c → AR c1 := fun hc e he => by rw [he1] at he; exact hc e he
      -- value of the rest
      cases r2 with
      | error a =>
        cases h
        refine ⟨hf1.trans hf2, hμ2.trans hμ1, (fun b hb => by cases hb), fun hc => ?_⟩
        rcases hc2 with ⟨-, x, hx⟩ | ⟨K, hK, hz, hnr⟩
        · cases hx
        · right
          have hKs := List.all_eq_true.1 hsk K hK
          have hKt : K = .TagLine := by
            rcases (raises_imp D c.μ l K hz).1 with rfl | rfl
            · rfl
            · exact absurd hKs (by decide)
          subst hKt
          exact ⟨hnr (hARc1 hc), doomed_raise hf F c.μ hμ l ls hz⟩
      | ok x =>
        obtain ⟨s, t2⟩ := x
        obtain ⟨hs, hl2⟩ := hv2 s t2 rfl
        rw [any_verdict_eq hf c.μ hμ l] at hs
        dsimp only at h
        have hμc2 : c2.μ = c.μ := hμ2.trans hμ1
        split at h
        · rename_i hst
          have hs' : la.skip.any (passes (intrinsicKind D c.μ l)) = true := by rw [← hs]; exact hst
          obtain ⟨hf3, hμ3, hv3, hc3⟩ := ih (n + 1) c2 (by rw [hμc2]; exact hμ) r c' h
          rw [hμc2] at hv3 hc3
          obtain ⟨K0, hK0, hp0⟩ := List.any_eq_true.1 hs'
          have hK0s := List.all_eq_true.1 hsk K0 hK0
          refine ⟨(hf1.trans hf2).trans hf3, hμ3.trans hμc2, fun b hb => ?_, fun hc => ?_⟩
          · rw [hv3 b hb, hk, peekAbs, hm', hs']; rfl
          · rcases hc2 with ⟨he2, -⟩ | ⟨K, hK, hz, hnr⟩
            · have hARc2 : AR c2 := fun e he => by rw [he2] at he; exact hARc1 hc e he
              rcases hc3 hARc2 with h3 | ⟨h3, hd⟩
              · exact .inl h3
              · exact .inr ⟨h3, doomed_skip F c.μ l ls hK0s hp0 hd⟩
            · right
              have hKs := List.all_eq_true.1 hsk K hK
              have hKt : K = .TagLine := by
                rcases (raises_imp D c.μ l K hz).1 with rfl | rfl
                · rfl
                · exact absurd hKs (by decide)
              subst hKt
              exact ⟨(EffM.peekLoop D cap la ls (n + 1) c2 r c' h).1.nr (hnr (hARc1 hc)),
                doomed_raise hf F c.μ hμ l ls hz⟩
        · rename_i hst
          have hs' : la.skip.any (passes (intrinsicKind D c.μ l)) = false := by rw [← hs]; simpa using hst
          rw [prun_pure] at h
          cases h
          refine ⟨hf1.trans hf2, hμc2, fun b hb => ?_, fun hc => ?_⟩
          · cases hb
            rw [hk, peekAbs, hm', hs']; rfl
          · rcases hc2 with ⟨he2, -⟩ | ⟨K, hK, hz, hnr⟩
            · exact .inl fun e he => by rw [he2] at he; exact hARc1 hc e he
            · right
              have hKs := List.all_eq_true.1 hsk K hK
              have hKt : K = .TagLine := by
                rcases (raises_imp D c.μ l K hz).1 with rfl | rfl
                · rfl
                · exact absurd hKs (by decide)
              subst hKt
              exact ⟨hnr (hARc1 hc), doomed_raise hf F c.μ hμ l ls hz⟩

end Lemmas
end GV
