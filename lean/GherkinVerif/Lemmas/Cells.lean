/-
  Lemmas/Cells.lean — helper lemmas for property C12: the single-pass loop `splitCells` computes
  the two-phase reading of Spec/Cells.lean; the escape/render round trip; `raggedRow`.
-/
import GherkinVerif.Spec.Cells
import GherkinVerif.Model.Builder
namespace GV
namespace Lemmas
open Spec

/-! ### unfolding equations -/

theorem splitCells_nil (col start : Nat) (cell : Str) (first : Bool) :
    splitCells [] col start cell first = [] := by
  rw [splitCells.eq_def]

theorem splitCells_pipe_false (rest : Str) (col start : Nat) (cell : Str) :
    splitCells (124 :: rest) col start cell false
      = (cell, start) :: splitCells rest (col + 1) (col + 2) [] false := by
  rw [splitCells.eq_def]; simp

theorem splitCells_pipe_true (rest : Str) (col start : Nat) (cell : Str) :
    splitCells (124 :: rest) col start cell true = splitCells rest (col + 1) (col + 2) [] false := by
  rw [splitCells.eq_def]; simp

theorem splitCells_bs_nil (col start : Nat) (cell : Str) (first : Bool) :
    splitCells [92] col start cell first = [] := by
  rw [splitCells.eq_def]; simp

theorem splitCells_bs_cons (d : Nat) (rest : Str) (col start : Nat) (cell : Str) (first : Bool) :
    splitCells (92 :: d :: rest) col start cell first
      = splitCells rest (col + 2) start (cell ++ (CTok.esc d).value) first := by
  rw [splitCells.eq_def]
  simp only [show ((92:Nat) == 124) = false from rfl, Bool.false_eq_true, if_false,
    show ((92:Nat) == 92) = true from rfl, if_true, CTok.value]
  cases h1 : (d == 110) <;> cases h2 : (d == 124 || d == 92) <;>
    simp only [if_true, if_false, Bool.false_eq_true]

theorem splitCells_chr (c : Nat) (rest : Str) (col start : Nat) (cell : Str) (first : Bool)
    (h1 : c ≠ 124) (h2 : c ≠ 92) :
    splitCells (c :: rest) col start cell first = splitCells rest (col + 1) start (cell ++ [c]) first := by
  rw [splitCells.eq_def]; simp [h1, h2]

theorem tokenize_nil : tokenize [] = [] := by rw [tokenize.eq_def]

theorem tokenize_pipe (rest : Str) : tokenize (124 :: rest) = .pipe :: tokenize rest := by
  rw [tokenize.eq_def]; simp

theorem tokenize_bs_nil : tokenize [92] = [.dangling] := by
  rw [tokenize.eq_def]; simp

theorem tokenize_bs_cons (d : Nat) (rest : Str) : tokenize (92 :: d :: rest) = .esc d :: tokenize rest := by
  rw [tokenize.eq_def]; simp

theorem tokenize_chr (c : Nat) (rest : Str) (h1 : c ≠ 124) (h2 : c ≠ 92) :
    tokenize (c :: rest) = .chr c :: tokenize rest := by
  rw [tokenize.eq_def]; simp [h1, h2]

@[simp] theorem segments_nil (off : Nat) (cur : List CTok) (cs : Nat) :
    segments [] off cur cs = [(cs, cur)] := rfl
@[simp] theorem segments_pipe (ts : List CTok) (off : Nat) (cur : List CTok) (cs : Nat) :
    segments (.pipe :: ts) off cur cs = (cs, cur) :: segments ts (off + 1) [] (off + 1) := rfl
@[simp] theorem segments_esc (d : Nat) (ts : List CTok) (off : Nat) (cur : List CTok) (cs : Nat) :
    segments (.esc d :: ts) off cur cs = segments ts (off + 2) (cur ++ [.esc d]) cs := rfl
@[simp] theorem segments_chr (d : Nat) (ts : List CTok) (off : Nat) (cur : List CTok) (cs : Nat) :
    segments (.chr d :: ts) off cur cs = segments ts (off + 1) (cur ++ [.chr d]) cs := rfl
@[simp] theorem segments_dangling (ts : List CTok) (off : Nat) (cur : List CTok) (cs : Nat) :
    segments (.dangling :: ts) off cur cs = segments ts (off + 1) (cur ++ [.dangling]) cs := rfl

/-! ### the single-pass loop against the two-phase reading -/

theorem segments_ne_nil : ∀ (ts : List CTok) (off : Nat) (cur : List CTok) (cs : Nat),
    segments ts off cur cs ≠ []
  | [], _, _, _ => by simp
  | .pipe :: _, _, _, _ => by simp
  | .esc _ :: ts, _, _, _ => by simp only [segments_esc]; exact segments_ne_nil ts _ _ _
  | .chr _ :: ts, _, _, _ => by simp only [segments_chr]; exact segments_ne_nil ts _ _ _
  | .dangling :: ts, _, _, _ => by simp only [segments_dangling]; exact segments_ne_nil ts _ _ _

theorem unescape_nil : unescape [] = [] := rfl

theorem unescape_snoc (cur : List CTok) (t : CTok) : unescape (cur ++ [t]) = unescape cur ++ t.value := by
  simp [unescape]

/-- how a segment is reported by the loop: unescaped text, 1-based start column -/
def segOut (seg : Nat × List CTok) : Str × Nat := (unescape seg.2, seg.1 + 1)

/-- after the first pipe: the loop emits every segment except the pending last one -/
theorem splitCells_false_aux : ∀ (n : Nat) (row : Str), row.length ≤ n →
    ∀ (col : Nat) (cur : List CTok) (cs : Nat),
    splitCells row col (cs + 1) (unescape cur) false
      = (segments (tokenize row) col cur cs).dropLast.map segOut := by
  intro n
  induction n with
  | zero =>
    intro row h col cur cs
    have : row = [] := List.eq_nil_of_length_eq_zero (by omega)
    subst this
    simp [splitCells_nil, tokenize_nil]
  | succ n ih =>
    intro row h col cur cs
    match row, h with
    | [], _ => simp [splitCells_nil, tokenize_nil]
    | c :: rest, h =>
      have hr : rest.length ≤ n := by simpa using h
      by_cases hc : c = 124
      · subst hc
        have := ih rest hr (col + 1) [] (col + 1)
        rw [unescape_nil] at this
        rw [splitCells_pipe_false, tokenize_pipe, segments_pipe,
          List.dropLast_cons_of_ne_nil (segments_ne_nil _ _ _ _), List.map_cons, this]
        rfl
      · by_cases hb : c = 92
        · subst hb
          match rest, hr with
          | [], _ => simp [splitCells_bs_nil, tokenize_bs_nil]
          | d :: rest', hr =>
            have hr' : rest'.length ≤ n := by simp at hr; omega
            have := ih rest' hr' (col + 2) (cur ++ [.esc d]) cs
            rw [unescape_snoc] at this
            rw [splitCells_bs_cons, tokenize_bs_cons, segments_esc, this]
        · have := ih rest hr (col + 1) (cur ++ [.chr c]) cs
          rw [unescape_snoc] at this
          rw [splitCells_chr _ _ _ _ _ _ hc hb, tokenize_chr _ _ hc hb, segments_chr, ← this]
          rfl

theorem splitCells_false (row : Str) (col : Nat) (cur : List CTok) (cs : Nat) :
    splitCells row col (cs + 1) (unescape cur) false
      = (segments (tokenize row) col cur cs).dropLast.map segOut :=
  splitCells_false_aux row.length row (Nat.le_refl _) col cur cs

/-- before the first pipe: nothing is emitted, the first segment is skipped -/
theorem splitCells_true_aux : ∀ (n : Nat) (row : Str), row.length ≤ n →
    ∀ (col start : Nat) (cell : Str) (cur : List CTok) (cs : Nat),
    splitCells row col start cell true
      = ((segments (tokenize row) col cur cs).drop 1).dropLast.map segOut := by
  intro n
  induction n with
  | zero =>
    intro row h col start cell cur cs
    have : row = [] := List.eq_nil_of_length_eq_zero (by omega)
    subst this
    simp [splitCells_nil, tokenize_nil]
  | succ n ih =>
    intro row h col start cell cur cs
    match row, h with
    | [], _ => simp [splitCells_nil, tokenize_nil]
    | c :: rest, h =>
      have hr : rest.length ≤ n := by simpa using h
      by_cases hc : c = 124
      · subst hc
        have := splitCells_false rest (col + 1) [] (col + 1)
        rw [unescape_nil] at this
        rw [splitCells_pipe_true, tokenize_pipe, segments_pipe, this]
        rfl
      · by_cases hb : c = 92
        · subst hb
          match rest, hr with
          | [], _ => simp [splitCells_bs_nil, tokenize_bs_nil]
          | d :: rest', hr =>
            have hr' : rest'.length ≤ n := by simp at hr; omega
            rw [splitCells_bs_cons, tokenize_bs_cons, segments_esc]
            exact ih rest' hr' _ _ _ _ _
        · rw [splitCells_chr _ _ _ _ _ _ hc hb, tokenize_chr _ _ hc hb, segments_chr]
          exact ih rest hr _ _ _ _ _

theorem splitCells_eq_cellSegments (row : Str) :
    splitCells row 0 1 [] true = (cellSegments row).map segOut :=
  splitCells_true_aux row.length row (Nat.le_refl _) 0 1 [] [] 0

theorem length_eq_leadingBlanks_add : ∀ s : Str, s.length = leadingBlanks s + (lstripBlank s).length
  | [] => rfl
  | c :: cs => by
    by_cases h : isBlank c = true
    · simp only [leadingBlanks, lstripBlank, h, if_true, List.length_cons,
        length_eq_leadingBlanks_add cs]
      omega
    · simp [leadingBlanks, lstripBlank, h]

theorem tableCells_eq_spec (line : Str) : tableCells line = Spec.cells line := by
  unfold tableCells Spec.cells
  rw [splitCells_eq_cellSegments, List.map_map]
  apply List.map_congr_left
  intro seg _
  have := length_eq_leadingBlanks_add (unescape seg.2)
  simp only [Function.comp, segOut, trimBlanks, Prod.mk.injEq, and_true]
  omega

/-! ### round trip: render, then read -/

/-- the segment texts, without offsets -/
def segs : List CTok → List CTok → List (List CTok)
  | [], cur => [cur]
  | .pipe :: ts, _cur => _cur :: segs ts []
  | .esc d :: ts, cur => segs ts (cur ++ [.esc d])
  | .chr d :: ts, cur => segs ts (cur ++ [.chr d])
  | .dangling :: ts, cur => segs ts (cur ++ [.dangling])

theorem segments_map_snd : ∀ (ts : List CTok) (off : Nat) (cur : List CTok) (cs : Nat),
    (segments ts off cur cs).map (·.2) = segs ts cur
  | [], _, _, _ => rfl
  | .pipe :: ts, off, cur, cs => by
    simp only [segments_pipe, List.map_cons, segs, segments_map_snd ts]
  | .esc _ :: ts, _, _, _ => by simp only [segments_esc, segs, segments_map_snd ts]
  | .chr _ :: ts, _, _, _ => by simp only [segments_chr, segs, segments_map_snd ts]
  | .dangling :: ts, _, _, _ => by simp only [segments_dangling, segs, segments_map_snd ts]

theorem cellTexts_eq (row : Str) :
    cellTexts row = (((segs (tokenize row) []).drop 1).dropLast).map fun s => trimBlanks (unescape s) := by
  unfold cellTexts cellSegments
  rw [← segments_map_snd (tokenize row) 0 [] 0, ← List.map_drop, ← List.map_dropLast, List.map_map]
  rfl

/-- the token an escaped cell character is read back as -/
def cellTok (c : Nat) : CTok :=
  if c == 10 then .esc 110 else if c == 124 then .esc 124 else if c == 92 then .esc 92 else .chr c

theorem cellTok_value (c : Nat) : (cellTok c).value = [c] := by
  unfold cellTok
  by_cases h1 : c = 10
  · subst h1; rfl
  · by_cases h2 : c = 124
    · subst h2; rfl
    · by_cases h3 : c = 92
      · subst h3; rfl
      · simp [h1, h2, h3, CTok.value]

theorem tokenize_escapeCell_append : ∀ (c s : Str),
    tokenize (escapeCell c ++ s) = c.map cellTok ++ tokenize s
  | [], s => by simp [escapeCell]
  | x :: c, s => by
    have ih := tokenize_escapeCell_append c s
    by_cases h1 : x = 10
    · subst h1
      simp only [escapeCell, show ((10:Nat) == 10) = true from rfl, if_true, List.cons_append,
        List.nil_append, tokenize_bs_cons, ih, List.map_cons]
      rfl
    · by_cases h2 : x = 124
      · subst h2
        simp only [escapeCell, show ((124:Nat) == 10) = false from rfl,
          show ((124:Nat) == 124) = true from rfl, Bool.false_eq_true, if_false, if_true,
          List.cons_append, List.nil_append, tokenize_bs_cons, ih, List.map_cons]
        rfl
      · by_cases h3 : x = 92
        · subst h3
          simp only [escapeCell, show ((92:Nat) == 10) = false from rfl,
            show ((92:Nat) == 124) = false from rfl,
            show ((92:Nat) == 92) = true from rfl, Bool.false_eq_true, if_false, if_true,
            List.cons_append, List.nil_append, tokenize_bs_cons, ih, List.map_cons]
          rfl
        · have e : escapeCell (x :: c) = x :: escapeCell c := by simp [escapeCell, h1, h2, h3]
          have t : cellTok x = .chr x := by simp [cellTok, h1, h2, h3]
          rw [e, List.cons_append, tokenize_chr _ _ h2 h3, ih, List.map_cons, t, List.cons_append]

theorem isBlank_ne (c : Nat) (h : isBlank c = true) : c ≠ 124 ∧ c ≠ 92 := by
  constructor <;> (intro e; subst e; revert h; decide)

theorem tokenize_blank_append : ∀ (l s : Str), (∀ c ∈ l, isBlank c = true) →
    tokenize (l ++ s) = l.map CTok.chr ++ tokenize s
  | [], s, _ => by simp
  | x :: l, s, h => by
    have hx := isBlank_ne x (h x (by simp))
    rw [List.cons_append, tokenize_chr _ _ hx.1 hx.2,
      tokenize_blank_append l s (fun c hc => h c (by simp [hc]))]
    rfl

/-- a token that is not a pipe stays in the current segment -/
def Plain : CTok → Prop
  | .pipe => False
  | _ => True

theorem segs_plain_append : ∀ (ts rest cur : List CTok), (∀ t ∈ ts, Plain t) →
    segs (ts ++ rest) cur = segs rest (cur ++ ts)
  | [], rest, cur, _ => by simp
  | .pipe :: ts, _, _, h => absurd (h .pipe (by simp)) (by simp [Plain])
  | .esc d :: ts, rest, cur, h => by
    simp only [List.cons_append, segs]
    rw [segs_plain_append ts rest _ (fun t ht => h t (by simp [ht]))]; simp
  | .chr d :: ts, rest, cur, h => by
    simp only [List.cons_append, segs]
    rw [segs_plain_append ts rest _ (fun t ht => h t (by simp [ht]))]; simp
  | .dangling :: ts, rest, cur, h => by
    simp only [List.cons_append, segs]
    rw [segs_plain_append ts rest _ (fun t ht => h t (by simp [ht]))]; simp

theorem cellTok_plain (c : Nat) : Plain (cellTok c) := by
  unfold cellTok; repeat' split
  all_goals trivial

/-- tokens of one rendered cell with its padding -/
def cellToks (x : Str × Str × Str) : List CTok :=
  x.1.map CTok.chr ++ x.2.1.map cellTok ++ x.2.2.map CTok.chr

theorem cellToks_plain (x : Str × Str × Str) : ∀ t ∈ cellToks x, Plain t := by
  intro t ht
  simp only [cellToks, List.mem_append, List.mem_map] at ht
  rcases ht with (⟨_, _, rfl⟩ | ⟨_, _, rfl⟩) | ⟨_, _, rfl⟩
  · trivial
  · exact cellTok_plain _
  · trivial

theorem tokenize_renderRow_cons (l c r : Str) (rest : List (Str × Str × Str))
    (hl : ∀ a ∈ l, isBlank a = true) (hr : ∀ a ∈ r, isBlank a = true) :
    tokenize (renderRow ((l, c, r) :: rest))
      = .pipe :: (cellToks (l, c, r) ++ tokenize (renderRow rest)) := by
  simp only [renderRow, List.cons_append, List.nil_append, List.append_assoc, tokenize_pipe]
  rw [tokenize_blank_append _ _ hl, tokenize_escapeCell_append, tokenize_blank_append _ _ hr]
  simp [cellToks]

theorem segs_renderRow : ∀ (cells : List (Str × Str × Str)) (cur : List CTok),
    (∀ x ∈ cells, (∀ c ∈ x.1, isBlank c = true) ∧ (∀ c ∈ x.2.2, isBlank c = true)) →
    segs (tokenize (renderRow cells)) cur = cur :: (cells.map cellToks ++ [[]])
  | [], cur, _ => by simp [renderRow, tokenize_pipe, tokenize_nil, segs]
  | (l, c, r) :: rest, cur, h => by
    have hx := h (l, c, r) (by simp)
    rw [tokenize_renderRow_cons l c r rest hx.1 hx.2]
    simp only [segs]
    rw [segs_plain_append _ _ _ (cellToks_plain _),
      segs_renderRow rest _ (fun x hx => h x (by simp [hx]))]
    simp

theorem unescape_cellToks (x : Str × Str × Str) : unescape (cellToks x) = x.1 ++ x.2.1 ++ x.2.2 := by
  have h1 : ∀ l : Str, List.flatMap CTok.value (l.map CTok.chr) = l := by
    intro l; induction l with
    | nil => rfl
    | cons a l ih => simp [CTok.value, ih]
  have h2 : ∀ l : Str, List.flatMap CTok.value (l.map cellTok) = l := by
    intro l; induction l with
    | nil => rfl
    | cons a l ih => simp [cellTok_value, ih]
  simp [unescape, cellToks, h1, h2]

/-! ### trimming -/

theorem lstripBlank_length_le : ∀ s : Str, (lstripBlank s).length ≤ s.length
  | [] => by simp [lstripBlank]
  | c :: cs => by
    have := lstripBlank_length_le cs
    simp only [lstripBlank]; split <;> simp <;> omega

theorem dropWhileEnd_length_le (p : Nat → Bool) : ∀ s : Str, (dropWhileEnd p s).length ≤ s.length
  | [] => by simp [dropWhileEnd]
  | c :: cs => by
    have := dropWhileEnd_length_le p cs
    simp only [dropWhileEnd]
    split
    · split <;> simp
    · rename_i h; simp only [List.length_cons]; omega

theorem lstripBlank_blank_append : ∀ (l s : Str), (∀ c ∈ l, isBlank c = true) →
    lstripBlank (l ++ s) = lstripBlank s
  | [], _, _ => rfl
  | x :: l, s, h => by
    simp only [List.cons_append, lstripBlank, h x (by simp), if_true]
    exact lstripBlank_blank_append l s (fun c hc => h c (by simp [hc]))

theorem lstripBlank_blank (l : Str) (h : ∀ c ∈ l, isBlank c = true) : lstripBlank l = [] := by
  have := lstripBlank_blank_append l [] h
  simpa [lstripBlank] using this

theorem dropWhileEnd_all (p : Nat → Bool) : ∀ (r : Str), (∀ c ∈ r, p c = true) → dropWhileEnd p r = []
  | [], _ => rfl
  | x :: r, h => by
    simp [dropWhileEnd, dropWhileEnd_all p r (fun c hc => h c (by simp [hc])), h x (by simp)]

theorem dropWhileEnd_append_all (p : Nat → Bool) (r : Str) (h : ∀ c ∈ r, p c = true) :
    ∀ s : Str, dropWhileEnd p (s ++ r) = dropWhileEnd p s
  | [] => by simp [dropWhileEnd_all p r h, dropWhileEnd]
  | x :: s => by
    simp only [List.cons_append, dropWhileEnd, dropWhileEnd_append_all p r h s]

/-- nothing is dropped from a string whose non-empty tail part is already stable -/
theorem dropWhileEnd_append_stable (p : Nat → Bool) (b : Str) (hb : b ≠ []) (h : dropWhileEnd p b = b) :
    ∀ a : Str, dropWhileEnd p (a ++ b) = a ++ b
  | [] => h
  | x :: a => by
    have ih := dropWhileEnd_append_stable p b hb h a
    simp only [List.cons_append, dropWhileEnd, ih]
    split
    · rename_i e; simp [hb] at e
    · rfl

theorem lstripBlank_eq_self_of_trimmed (c : Str) (h : Trimmed c) : lstripBlank c = c ∧ rstripBlank c = c := by
  unfold Trimmed trimBlanks at h
  have h1 := lstripBlank_length_le c
  have h2 := dropWhileEnd_length_le isBlank (lstripBlank c)
  have hl : (lstripBlank c).length = c.length := by
    have := congrArg List.length h
    unfold rstripBlank at this
    omega
  have e : lstripBlank c = c := by
    cases c with
    | nil => rfl
    | cons x c =>
      simp only [lstripBlank] at hl ⊢
      split
      · rename_i hx
        simp only [hx, if_true] at hl
        have := lstripBlank_length_le c
        simp at hl; omega
      · rfl
  exact ⟨e, by rw [e] at h; exact h⟩

theorem trimBlanks_pad (l c r : Str) (hl : ∀ a ∈ l, isBlank a = true) (hr : ∀ a ∈ r, isBlank a = true)
    (hc : Trimmed c) : trimBlanks (l ++ c ++ r) = c := by
  obtain ⟨e1, e2⟩ := lstripBlank_eq_self_of_trimmed c hc
  unfold trimBlanks
  rw [List.append_assoc, lstripBlank_blank_append l _ hl]
  cases c with
  | nil =>
    simp only [List.nil_append, lstripBlank_blank r hr]; rfl
  | cons x c =>
    have hx : isBlank x = false := by
      cases hb : isBlank x with
      | false => rfl
      | true =>
        simp only [lstripBlank, hb, if_true] at e1
        have := lstripBlank_length_le c
        have := congrArg List.length e1
        simp at this; omega
    have : lstripBlank (x :: c ++ r) = x :: c ++ r := by
      simp [lstripBlank, hx]
    rw [this]
    unfold rstripBlank at e2 ⊢
    rw [dropWhileEnd_append_all isBlank r hr, e2]

theorem cellTexts_renderRow (cells : List (Str × Str × Str))
    (h : ∀ x ∈ cells, (∀ c ∈ x.1, isBlank c = true) ∧ (∀ c ∈ x.2.2, isBlank c = true) ∧ Spec.Trimmed x.2.1) :
    Spec.cellTexts (Spec.renderRow cells) = cells.map (·.2.1) := by
  rw [cellTexts_eq, segs_renderRow cells [] (fun x hx => ⟨(h x hx).1, (h x hx).2.1⟩)]
  simp only [List.drop_succ_cons, List.drop_zero, List.dropLast_concat, List.map_map]
  apply List.map_congr_left
  intro x hx
  obtain ⟨h1, h2, h3⟩ := h x hx
  simp only [Function.comp, unescape_cellToks]
  exact trimBlanks_pad _ _ _ h1 h2 h3

/-! ### the round trip on a physical line -/

theorem lstrip_space_append : ∀ (l s : Str), (∀ c ∈ l, isSpace c = true) → lstrip (l ++ s) = lstrip s
  | [], _, _ => rfl
  | x :: l, s, h => by
    simp only [List.cons_append, lstrip, h x (by simp), if_true]
    exact lstrip_space_append l s (fun c hc => h c (by simp [hc]))

theorem indentOf_space_append : ∀ (l s : Str), (∀ c ∈ l, isSpace c = true) →
    indentOf (l ++ s) = l.length + indentOf s
  | [], _, _ => by simp
  | x :: l, s, h => by
    simp only [List.cons_append, indentOf, h x (by simp), if_true, List.length_cons,
      indentOf_space_append l s (fun c hc => h c (by simp [hc]))]
    omega

theorem renderRow_head (cells : List (Str × Str × Str)) : ∃ t, renderRow cells = 124 :: t := by
  cases cells with
  | nil => exact ⟨[], rfl⟩
  | cons x rest => obtain ⟨l, c, r⟩ := x; exact ⟨_, by simp [renderRow]; rfl⟩

theorem rstrip_renderRow : ∀ cells : List (Str × Str × Str), rstrip (renderRow cells) = renderRow cells
  | [] => by decide
  | (l, c, r) :: rest => by
    obtain ⟨t, ht⟩ := renderRow_head rest
    have ih := rstrip_renderRow rest
    unfold rstrip at ih ⊢
    simp only [renderRow]
    exact dropWhileEnd_append_stable isSpace _ (by simp [ht]) ih _

theorem strip_trimmed_line (ind tail : Str) (cells : List (Str × Str × Str))
    (hi : ∀ c ∈ ind, isSpace c = true) (ht : ∀ c ∈ tail, isSpace c = true) :
    strip (trimmed (ind ++ renderRow cells ++ tail)) = renderRow cells := by
  obtain ⟨t, e⟩ := renderRow_head cells
  unfold strip trimmed
  rw [List.append_assoc, lstrip_space_append ind _ hi]
  have : lstrip (renderRow cells ++ tail) = renderRow cells ++ tail := by
    rw [e]; simp only [List.cons_append, lstrip]
    rw [if_neg (by decide)]
  rw [this, this]
  unfold rstrip
  rw [dropWhileEnd_append_all isSpace tail ht]
  exact rstrip_renderRow cells

theorem tableCells_renderRow (ind tail : Str) (cells : List (Str × Str × Str))
    (hi : ∀ c ∈ ind, isSpace c = true) (ht : ∀ c ∈ tail, isSpace c = true)
    (h : ∀ x ∈ cells, (∀ c ∈ x.1, isBlank c = true) ∧ (∀ c ∈ x.2.2, isBlank c = true) ∧ Spec.Trimmed x.2.1) :
    (tableCells (ind ++ Spec.renderRow cells ++ tail)).map (·.2) = cells.map (·.2.1) := by
  rw [tableCells_eq_spec, ← cellTexts_renderRow cells h]
  unfold Spec.cells cellTexts
  rw [strip_trimmed_line ind tail cells hi ht, List.map_map]
  rfl

/-! ### rectangular tables -/

theorem raggedRow_none_iff (rows : List Row) :
    raggedRow rows = none ↔ ∀ r ∈ rows, ∀ r0, rows.head? = some r0 → r.cells.length = r0.cells.length := by
  cases rows with
  | nil => simp [raggedRow]
  | cons r0 rest => simp [raggedRow]

theorem raggedRow_some_first (rows : List Row) (r : Row) (h : raggedRow rows = some r) :
    ∃ pre post r0, rows = pre ++ r :: post ∧ rows.head? = some r0 ∧
      r.cells.length ≠ r0.cells.length ∧ ∀ x ∈ pre, x.cells.length = r0.cells.length := by
  cases rows with
  | nil => simp [raggedRow] at h
  | cons r0 rest =>
    simp only [raggedRow] at h
    rw [List.find?_eq_some_iff_append] at h
    obtain ⟨hr, pre, post, e, hpre⟩ := h
    refine ⟨pre, post, r0, e, rfl, by simpa using hr, ?_⟩
    intro x hx
    simpa using hpre x hx

end Lemmas
end GV
