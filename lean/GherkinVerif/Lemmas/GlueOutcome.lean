/-
  Lemmas/GlueOutcome.lean — the form of a rejected parse (one error in stop mode; between one and
  cap+1 errors with distinct messages in collecting mode), and the envelope facts of the stream.
-/
import GherkinVerif.Lemmas.GlueBase
namespace GV
namespace Lemmas

/-- the context `parseWith` starts from -/
def ctx0 (D : List Dialect) (μ : MState) (ids : Nat) (src : Str) : Ctx :=
  { lines := splitLines src, μ := μ.reset D, β := BState.reset, ids := ids }

theorem parseWith_eq (D : List Dialect) (T : Table) (stop : Bool) (μ : MState) (ids : Nat) (src : Str) :
    parseWith D T stop μ ids src =
      match run (parseBody D T stop (splitLines src).length) (ctx0 D μ ids src) with
      | (.ok d, ctx) => (.ok d, ctx)
      | (.error (.single e), ctx) => (.rejected [e] false, ctx)
      | (.error (.composite es), ctx) => (.rejected es true, ctx)
      | (.error (.crash w), ctx) => (.crash w, ctx)
      | (.error .fuel, ctx) => (.fuel, ctx) := rfl

theorem parseWith_snd (D : List Dialect) (T : Table) (stop : Bool) (μ : MState) (ids : Nat) (src : Str) :
    (parseWith D T stop μ ids src).2 =
      (run (parseBody D T stop (splitLines src).length) (ctx0 D μ ids src)).2 := by
  rw [parseWith_eq]
  rcases run (parseBody D T stop (splitLines src).length) (ctx0 D μ ids src) with ⟨r, c⟩
  cases r with
  | ok d => rfl
  | error e => cases e <;> rfl

/-! ### error-list invariant -/

def EInv (stop : Bool) (cap : Nat) (c : Ctx) : Prop :=
  (stop = true → c.errors = []) ∧
  (stop = false → (c.errors.map PErr.message).Nodup ∧ c.errors.length ≤ cap)

def EErr (stop : Bool) (cap : Nat) (e : Abort) : Prop :=
  match e with
  | .single _ => stop = true
  | .composite es => stop = false ∧ 1 ≤ es.length ∧ es.length ≤ cap + 1 ∧ (es.map PErr.message).Nodup
  | .crash _ => True
  | .fuel => True

theorem addError_einv (cap : Nat) (e : PErr) :
    Inv (EInv false cap) (fun e _ => EErr false cap e) (addError cap e) := by
  refine Triple.intro fun c r c' hc hr => ?_
  have hc' := hc.2 rfl
  rw [run_addError] at hr
  split at hr
  · cases hr; exact hc
  · rename_i hany
    have hnd : ((c.errors ++ [e]).map PErr.message).Nodup := by
      rw [List.map_append, List.nodup_append]
      refine ⟨hc'.1, by simp, ?_⟩
      intro a ha b hb
      simp only [List.map_cons, List.map_nil, List.mem_singleton] at hb
      subst hb
      intro hab
      subst hab
      apply hany
      obtain ⟨e', he', hm⟩ := List.mem_map.1 ha
      exact List.any_eq_true.2 ⟨e', he', by simp [hm]⟩
    split at hr
    · rename_i hlen
      cases hr
      simp only [List.length_append, List.length_singleton] at hlen
      exact ⟨rfl, by simp, (by simp; omega), hnd⟩
    · rename_i hlen
      cases hr
      simp only [List.length_append, List.length_singleton] at hlen
      exact ⟨fun h => (by cases h), fun _ => ⟨hnd, (by simp; omega)⟩⟩

theorem liftB_einv (cap : Nat) (stop : Bool) (r : Except BErr Unit) :
    Inv (EInv stop cap) (fun e _ => EErr stop cap e) (liftB cap stop r) := by
  unfold liftB
  split
  · exact Inv.pure _
  · exact Triple.throw _ fun _ _ => trivial
  · cases stop
    · exact addError_einv cap _
    · exact Triple.throw _ fun _ _ => rfl

theorem einv_prims (D : List Dialect) (T : Table) (stop : Bool) :
    Prims D T stop (EInv stop T.errorCap) (fun e _ => EErr stop T.errorCap e) := by
  refine Prims.of_errOnly (fun c c' h1 _ h => ?_) (fun hs e => ?_) (fun hs e c _ => hs)
    (fun _ _ _ => trivial) (fun _ _ => trivial) (fun row t => ?_)
  · unfold EInv at *; rw [h1]; exact h
  · subst hs; exact addError_einv _ _
  · unfold GV.tryBranches
    refine Triple.bind (Q := fun _ => EInv stop T.errorCap) (Triple.modify _ fun c hc => hc) fun _ => ?_
    cases stop
    · exact Inv.bind (addError_einv _ _) fun _ => Inv.pure _
    · exact Triple.throw _ fun _ _ => rfl

theorem parse_outcome (D : List Dialect) (T : Table) (stop : Bool) (μ : MState) (ids : Nat) (src : Str)
    (es : List PErr) (comp : Bool) (h : (parseWith D T stop μ ids src).1 = .rejected es comp) :
    (stop = true → es.length = 1 ∧ comp = false) ∧
    (stop = false → comp = true ∧ 1 ≤ es.length ∧ es.length ≤ T.errorCap + 1 ∧ (es.map PErr.message).Nodup) := by
  have hb := (einv_prims D T stop).parseBody (fun _ _ h => h)
    (fun c hc hne => by
      cases stop
      · have := hc.2 rfl
        refine ⟨rfl, ?_, (by omega), this.1⟩
        cases he : c.errors with
        | nil => exact absurd he hne
        | cons a l => simp
      · exact absurd (hc.1 rfl) hne) (splitLines src).length (ctx0 D μ ids src)
    ⟨fun _ => rfl, fun _ => ⟨List.nodup_nil, Nat.zero_le _⟩⟩
  rw [parseWith_eq] at h
  rcases hr : run (parseBody D T stop (splitLines src).length) (ctx0 D μ ids src) with ⟨r, c⟩
  rw [hr] at h
  cases r with
  | ok d => cases h
  | error e =>
    have he := hb.2 e c hr
    cases e with
    | single e =>
      cases h
      have he : stop = true := he
      exact ⟨fun _ => by simp, fun h' => by rw [he] at h'; cases h'⟩
    | composite es' =>
      cases h
      have he : stop = false ∧ _ := he
      exact ⟨fun h' => (by rw [he.1] at h'; cases h'), fun _ => ⟨by simp, he.2⟩⟩
    | crash w => cases h
    | fuel => cases h

/-! ### stream facts -/

theorem unexpectedErr_form (row : StateRow) (t : Token) :
    (∀ l, t.line = some l →
      (unexpectedErr row t).body = lit "expected: " ++ joinWith (lit ", ") (row.expected.map lit) ++
        lit ", got '" ++ strip (trimmed l) ++ lit "'" ∧ (unexpectedErr row t).loc.line = t.lineNo) ∧
    (t.line = none →
      (unexpectedErr row t).body = lit "unexpected end of file, expected: " ++ joinWith (lit ", ") (row.expected.map lit) ∧
      (unexpectedErr row t).loc = t.loc) := by
  constructor
  · intro l hl
    unfold unexpectedErr
    simp only [hl]
    refine ⟨trivial, ?_⟩
    split
    · split <;> rfl
    · rfl
  · intro hl
    unfold unexpectedErr
    simp only [hl]
    exact ⟨trivial, trivial⟩

theorem stream_kinds (D : List Dialect) (T : Table) (opts : Opts) (ids : Nat) (uri data : Str) :
    ∀ e ∈ (streamEnum D T opts ids uri data).1,
      (∃ u d, e = .source u d) ∨ (∃ u d, e = .gherkinDocument u d) ∨ (∃ p, e = .pickle p) ∨
      (∃ u x, e = .parseError u x) ∨ (∃ w, e = .crash w) := by
  intro e he
  unfold streamEnum at he
  split at he
  · simp only [List.mem_singleton] at he
    exact .inr (.inr (.inr (.inr ⟨_, he⟩)))
  · rename_i μ hμ
    rcases hp : parseWith D T false μ ids data with ⟨out, ctx⟩
    rw [hp] at he
    dsimp only at he
    have hpre : ∀ d, e ∈ (if opts.printSource then [Envelope.source uri data] else []) ++
        (if opts.printAst then [Envelope.gherkinDocument uri d] else []) →
        (∃ u d, e = .source u d) ∨ (∃ u d, e = .gherkinDocument u d) ∨ (∃ p, e = .pickle p) ∨
        (∃ u x, e = .parseError u x) ∨ (∃ w, e = .crash w) := by
      intro d hm
      rcases List.mem_append.1 hm with h1 | h1
      · split at h1
        · simp only [List.mem_singleton] at h1; exact .inl ⟨_, _, h1⟩
        · cases h1
      · split at h1
        · simp only [List.mem_singleton] at h1; exact .inr (.inl ⟨_, _, h1⟩)
        · cases h1
    cases out with
    | ok d =>
      dsimp only at he
      split at he
      · split at he
        · rcases List.mem_append.1 he with h1 | h1
          · exact hpre d h1
          · obtain ⟨p, _, rfl⟩ := List.mem_map.1 h1
            exact .inr (.inr (.inl ⟨_, rfl⟩))
        · rcases List.mem_append.1 he with h1 | h1
          · exact hpre d h1
          · simp only [List.mem_singleton] at h1
            exact .inr (.inr (.inr (.inr ⟨_, h1⟩)))
      · exact hpre d he
    | rejected es c =>
      dsimp only at he
      obtain ⟨x, _, rfl⟩ := List.mem_map.1 he
      exact .inr (.inr (.inr (.inl ⟨_, _, rfl⟩)))
    | crash w =>
      simp only [List.mem_singleton] at he
      exact .inr (.inr (.inr (.inr ⟨_, he⟩)))
    | fuel =>
      simp only [List.mem_singleton] at he
      exact .inr (.inr (.inr (.inr ⟨_, he⟩)))

theorem stream_rejected (D : List Dialect) (T : Table) (opts : Opts) (ids : Nat) (uri data : Str)
    (μ : MState) (hμ : MState.init D (lit "en") = some μ) (es : List PErr) (comp : Bool)
    (h : (parseWith D T false μ ids data).1 = .rejected es comp) :
    (streamEnum D T opts ids uri data).1 = es.map (Envelope.parseError uri) := by
  unfold streamEnum
  rw [hμ]
  rcases hp : parseWith D T false μ ids data with ⟨out, ctx⟩
  dsimp only
  rw [hp] at h ⊢
  dsimp only at h ⊢
  subst h
  rfl

end Lemmas
end GV
