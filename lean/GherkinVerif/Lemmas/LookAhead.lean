/-
  Lemmas/LookAhead.lean — look-ahead elimination for the abstract table run (generic in the
  table; no reference to the generated table).

  `runAbs` is deterministic but each guarded branch consults the *future* through `peekAbs`.
  The value of every look-ahead on a future `k :: ks` is a function of `k` and of its value on
  `ks` (`cls_cons`): the vector of look-ahead values (`cls`, the *future class*) is computed by a
  right-to-left deterministic automaton.  So the guarded run is simulated exactly by a guard-free
  *nondeterministic* machine on pairs (state, claimed class of the remaining input) which guesses
  the class of the rest at each step and checks the guess against the claim; a wrong guess is
  refuted at the latest at the end of input, where the class must be that of `[]`.  Its subset
  construction `setStep` / `setAcc` is a total deterministic automaton with

      (runAbs T s ks).isSome  ↔  setAcc T (setRun T C (start set) ks)          (`accepts_iff_setRun`)

  provided `C` contains every class that can occur (`clsOK`, a Boolean check).
-/
import GherkinVerif.Model.Abstract
namespace GV.Lemmas

/-- a future class: the value of every look-ahead of the table on the remaining input -/
abbrev Cls := List Bool

def cls (T : Table) (ks : List Kind) : Cls := T.lookaheads.map fun la => peekAbs la ks

/-- class of the empty future -/
def clsNil (T : Table) : Cls := T.lookaheads.map fun _ => false

def peekStep (la : LookAhead) (k : Kind) (b : Bool) : Bool :=
  if la.expected.any (passes k) then true else if la.skip.any (passes k) then b else false

/-- class of `k :: ks` from the class of `ks` -/
def clsStep (T : Table) (k : Kind) (c : Cls) : Cls :=
  List.zipWith (fun la b => peekStep la k b) T.lookaheads c

theorem cls_nil (T : Table) : cls T [] = clsNil T := by
  simp [cls, clsNil, peekAbs]

theorem cls_cons (T : Table) (k : Kind) (ks : List Kind) :
    cls T (k :: ks) = clsStep T k (cls T ks) := by
  unfold cls clsStep
  generalize T.lookaheads = l
  induction l with
  | nil => rfl
  | cons la l ih => simp only [List.map_cons, List.zipWith_cons_cons, ih]; simp [peekAbs, peekStep]

/-- guard of a branch, given the class of the future -/
def guardOkC (b : Branch) (c : Cls) : Bool :=
  match b.guard with
  | none => true
  | some i => c[i]?.getD false

def pickBranchC (k : Kind) (c : Cls) : List Branch → Option Branch
  | [] => none
  | b :: bs => if passes k b.kind && guardOkC b c then some b else pickBranchC k c bs

def stepC (T : Table) (s : Nat) (k : Kind) (c : Cls) : Option Branch :=
  match T.row? s with
  | none => none
  | some row => pickBranchC k c row.branches

theorem guardOkAbs_eq (T : Table) (b : Branch) (ks : List Kind) :
    guardOkAbs T b ks = guardOkC b (cls T ks) := by
  unfold guardOkAbs guardOkC
  cases b.guard with
  | none => rfl
  | some i =>
    simp only [cls, List.getElem?_map]
    cases T.lookaheads[i]? <;> rfl

theorem pickBranch_eq (T : Table) (k : Kind) (ks : List Kind) (bs : List Branch) :
    pickBranch T k ks bs = pickBranchC k (cls T ks) bs := by
  induction bs with
  | nil => rfl
  | cons b bs ih => simp only [pickBranch, pickBranchC, guardOkAbs_eq, ih]

theorem stepAbs_eq (T : Table) (s : Nat) (k : Kind) (ks : List Kind) :
    stepAbs T s k ks = stepC T s k (cls T ks) := by
  unfold stepAbs stepC
  cases T.row? s with
  | none => rfl
  | some row => exact pickBranch_eq T k ks row.branches

theorem runAbs_cons_isSome (T : Table) (s : Nat) (k : Kind) (ks : List Kind) :
    (runAbs T s (k :: ks)).isSome = true ↔
      ∃ b, stepC T s k (cls T ks) = some b ∧ (runAbs T b.target ks).isSome = true := by
  simp only [runAbs, stepAbs_eq]
  cases stepC T s k (cls T ks) with
  | none => simp
  | some b =>
    cases h : runAbs T b.target ks with
    | none => simp [h]
    | some r => simp [h]

/-! ### the classes that can occur -/

/-- `C` contains the class of the empty future and is closed under `clsStep` -/
def clsOK (T : Table) (C : List Cls) : Bool :=
  C.contains (clsNil T) && Kind.all.all fun k => C.all fun c => C.contains (clsStep T k c)

theorem kind_mem_all (k : Kind) : k ∈ Kind.all := by cases k <;> decide

theorem cls_mem {T : Table} {C : List Cls} (h : clsOK T C = true) (ks : List Kind) : cls T ks ∈ C := by
  simp only [clsOK, Bool.and_eq_true, List.contains_iff_mem, List.all_eq_true] at h
  induction ks with
  | nil => rw [cls_nil]; exact h.1
  | cons k ks ih => rw [cls_cons]; exact h.2 k (kind_mem_all k) _ ih

/-- closure of `{clsNil}` under `clsStep` (fuelled; the result is checked by `clsOK`) -/
def closeCls (T : Table) : Nat → List Cls → List Cls
  | 0, C => C
  | n + 1, C =>
    let new := Kind.all.flatMap fun k => C.map (clsStep T k)
    let C' := new.foldl (fun acc c => if acc.contains c then acc else acc ++ [c]) C
    if C'.length == C.length then C else closeCls T n C'

def classes (T : Table) : List Cls := closeCls T (2 ^ T.lookaheads.length) [clsNil T]

/-! ### subset construction of the guess-and-check machine -/

/-- a state of the guess-and-check machine: table state and claimed class of the remaining input -/
abbrev St := Nat × Cls

def clsCode (c : Cls) : Nat := c.foldl (fun n b => 2 * n + b.toNat) 0

def stLt (p q : St) : Bool :=
  p.1 < q.1 || (p.1 == q.1 && (clsCode p.2 < clsCode q.2 || (clsCode p.2 == clsCode q.2 && p.2.length < q.2.length)))

/-- insertion into a sorted duplicate-free list -/
def insSt (x : St) : List St → List St
  | [] => [x]
  | y :: ys => if x = y then y :: ys else if stLt x y then x :: y :: ys else y :: insSt x ys

/-- canonical representative of a set of states -/
def normSt (l : List St) : List St := l.foldr insSt []

theorem mem_insSt {x z : St} {l : List St} : z ∈ insSt x l ↔ z = x ∨ z ∈ l := by
  induction l with
  | nil => simp [insSt]
  | cons y ys ih =>
    simp only [insSt]
    split
    · next h => subst h; simp
    · split
      · simp
      · simp only [List.mem_cons, ih]
        constructor
        · rintro (h | h | h) <;> simp [h]
        · rintro (h | h | h) <;> simp [h]

theorem mem_normSt {z : St} {l : List St} : z ∈ normSt l ↔ z ∈ l := by
  induction l with
  | nil => simp [normSt]
  | cons y ys ih =>
    have : normSt (y :: ys) = insSt y (normSt ys) := rfl
    rw [this, mem_insSt, ih]; simp

/-- successors of the set `S` on `k`: guess the class `c'` of the rest (among `C`), check it
    against the claim, take the branch the guarded table takes under `c'` -/
def succSt (T : Table) (C : List Cls) (S : List St) (k : Kind) : List St :=
  S.flatMap fun p => C.filterMap fun c' =>
    if clsStep T k c' = p.2 then (stepC T p.1 k c').map (fun b => (b.target, c')) else none

def setStep (T : Table) (C : List Cls) (S : List St) (k : Kind) : List St := normSt (succSt T C S k)

/-- at the end of input the claim must be the class of `[]` -/
def setAcc (T : Table) (S : List St) : Bool := S.any fun p => p.2 == clsNil T

def setRun (T : Table) (C : List Cls) : List St → List Kind → List St
  | S, [] => S
  | S, k :: ks => setRun T C (setStep T C S k) ks

/-- start set: table state `s` with every possible claim -/
def setStart (C : List Cls) (s : Nat) : List St := normSt (C.map fun c => (s, c))

/-- some member of `S` carries the true class of `ks` and the guarded run from it succeeds -/
def AccFrom (T : Table) (S : List St) (ks : List Kind) : Prop :=
  ∃ p ∈ S, p.2 = cls T ks ∧ (runAbs T p.1 ks).isSome = true

theorem accFrom_nil (T : Table) (S : List St) : AccFrom T S [] ↔ setAcc T S = true := by
  simp only [AccFrom, setAcc, List.any_eq_true, beq_iff_eq, cls_nil, runAbs, Option.isSome_some, and_true]

theorem accFrom_cons {T : Table} {C : List Cls} (hC : clsOK T C = true) (S : List St) (k : Kind)
    (ks : List Kind) : AccFrom T S (k :: ks) ↔ AccFrom T (setStep T C S k) ks := by
  simp only [AccFrom, setStep, mem_normSt, succSt, List.mem_flatMap, List.mem_filterMap]
  constructor
  · rintro ⟨p, hp, hc, hr⟩
    obtain ⟨b, hb, hrun⟩ := (runAbs_cons_isSome T p.1 k ks).1 hr
    refine ⟨(b.target, cls T ks), ⟨p, hp, cls T ks, cls_mem hC ks, ?_⟩, rfl, hrun⟩
    rw [cls_cons] at hc
    simp [hc, hb]
  · rintro ⟨q, ⟨p, hp, c', _, hq⟩, hqc, hrun⟩
    split at hq
    · next hcl =>
      simp only [Option.map_eq_some_iff] at hq
      obtain ⟨b, hb, rfl⟩ := hq
      simp only at hqc hrun
      subst hqc
      refine ⟨p, hp, ?_, (runAbs_cons_isSome T p.1 k ks).2 ⟨b, hb, hrun⟩⟩
      rw [cls_cons]; exact hcl.symm
    · cases hq

theorem accFrom_iff_setRun {T : Table} {C : List Cls} (hC : clsOK T C = true) :
    ∀ (ks : List Kind) (S : List St), AccFrom T S ks ↔ setAcc T (setRun T C S ks) = true := by
  intro ks
  induction ks with
  | nil => intro S; exact accFrom_nil T S
  | cons k ks ih => intro S; rw [accFrom_cons hC, ih]; rfl

/-- look-ahead elimination: the guarded deterministic run succeeds iff the guard-free subset
    automaton accepts -/
theorem accepts_iff_setRun {T : Table} {C : List Cls} (hC : clsOK T C = true) (s : Nat) (ks : List Kind) :
    (runAbs T s ks).isSome = setAcc T (setRun T C (setStart C s) ks) := by
  rw [Bool.eq_iff_iff, ← accFrom_iff_setRun hC]
  simp only [AccFrom, setStart, mem_normSt, List.mem_map]
  constructor
  · intro h; exact ⟨(s, cls T ks), ⟨_, cls_mem hC ks, rfl⟩, rfl, h⟩
  · rintro ⟨p, ⟨c, _, rfl⟩, _, h⟩; exact h

end GV.Lemmas
