/-
  Lemmas/RecoverMain.lean — property C14, recovery at document level: the whole queue-free parse
  and the transfer to the parser with the token queue.
-/
import GherkinVerif.Lemmas.RecoverDoc
namespace GV
namespace Recover
open Lemmas Spec Layout3

def outOf : Except Abort Doc → Outcome
  | .ok d => .ok d
  | .error (.single e) => .rejected [e] false
  | .error (.composite es) => .rejected es true
  | .error (.crash w) => .crash w
  | .error .fuel => .fuel

theorem parseWithPure_eq (D : List Dialect) (T : Table) (stop : Bool) (μ : MState) (ids : Nat) (src : Str) :
    parseWithPure D T stop μ ids src =
      (outOf (run (parseBodyPure D T stop (splitLines src).length)
        { lines := splitLines src, μ := μ.reset D, β := BState.reset, ids := ids }).1,
       (run (parseBodyPure D T stop (splitLines src).length)
        { lines := splitLines src, μ := μ.reset D, β := BState.reset, ids := ids }).2) := by
  unfold parseWithPure run
  simp only []
  rcases (parseBodyPure D T stop (splitLines src).length).run.run _ with ⟨r, c⟩
  cases r with
  | ok d => rfl
  | error e => cases e <;> rfl

/-- what the two final contexts have in common -/
structure CtxObsU (k j ju : Nat) (e : PErr) (c1 c2 : Ctx) : Prop where
  errors : c2.errors = insertErr k j e c1.errors
  μ : c2.μ = c1.μ
  ids : c2.ids = c1.ids
  unexpected : c2.unexpected = insertLine k ju c1.unexpected
  builds : c2.builds = c1.builds.map (renumber k)

/-- **Whole queue-free parse**, collecting mode. -/
theorem parseWithPure_unexpected {D : List Dialect} {T : Table} (hT : TableOkU T) {u : Str} (μ : MState) (ids : Nat)
    {src src' : Str} (pre post : List Str)
    (h1 : splitLines src = pre ++ post) (h2 : splitLines src' = pre ++ u :: post)
    (hμ : (μ.reset D).dialect ∈ D) (hbar : barrierBefore pre = true) {s : Nat} {cr : Ctx}
    (hrun : runAfter D T false μ ids src' pre.length = some (s, cr))
    (hun : lineUnexpectedAt D T s cr.μ u = true)
    (hcap : (parseWithPure D T false μ ids src').2.errors.length ≤ T.errorCap) :
    CtxObsU pre.length cr.errors.length cr.unexpected.length (skippedError T s pre.length u)
      (parseWithPure D T false μ ids src).2 (parseWithPure D T false μ ids src').2 ∧
    (∀ d, (parseWithPure D T false μ ids src).1 = .ok d →
      (parseWithPure D T false μ ids src').1 = .rejected [skippedError T s pre.length u] true) ∧
    (∀ es, (parseWithPure D T false μ ids src).1 = .rejected es true →
      (parseWithPure D T false μ ids src').1 =
        .rejected (insertErr pre.length cr.errors.length (skippedError T s pre.length u) es) true) := by
  rw [parseWithPure_eq D T false μ ids src'] at hcap ⊢
  rw [parseWithPure_eq D T false μ ids src]
  simp only [h1, h2] at hcap ⊢
  have hc0 : CtxU D pre.length none
      { lines := pre ++ post, μ := μ.reset D, β := BState.reset, ids := ids }
      { lines := pre ++ u :: post, μ := μ.reset D, β := BState.reset, ids := ids } :=
    ⟨rfl, rfl, BMap.reset, rfl, rfl, rfl,
      ⟨(by intro sep hsep; unfold MState.reset at hsep; cases hsep), hμ⟩, fun y hy => by cases hy⟩
  have hrun' : ∃ flag, run (parsePrefixPure D T false pre.length 0)
      { ({ lines := pre ++ u :: post, μ := μ.reset D, β := BState.reset, ids := ids } : Ctx) with
        β := BState.reset.startRule T.startRule } = (.ok (s, flag), cr) := by
    unfold runAfter startCtx at hrun
    rw [h2] at hrun
    unfold run
    rcases hx : (parsePrefixPure D T false pre.length 0).run.run
      { lines := pre ++ u :: post, μ := μ.reset D, β := BState.reset.startRule T.startRule, ids := ids } with ⟨r, c⟩
    rw [hx] at hrun
    cases r with
    | error e => cases hrun
    | ok a =>
      obtain ⟨s', flag⟩ := a
      simp only [Option.some.injEq, Prod.mk.injEq] at hrun
      obtain ⟨rfl, rfl⟩ := hrun
      exact ⟨flag, rfl⟩
  rcases sim_body hT pre post hc0 rfl rfl rfl rfl hbar hrun' hun with
    ⟨r1, r2, c1', c2', e1, e2, hc', hb1, hb2⟩ | ⟨e, c2', e2, hcp⟩
  · rw [e1, e2]
    refine ⟨⟨hc'.errors, hc'.μ, hc'.ids, hc'.unexpected, hc'.builds⟩, fun d hd => ?_, fun es hes => ?_⟩
    · cases r1 with
      | ok d' => rw [hb1 d' rfl]; rfl
      | error e => cases e <;> cases hd
    · cases r1 with
      | ok d' => cases hes
      | error e =>
        cases e with
        | composite es' =>
          simp only [outOf, Outcome.rejected.injEq, and_true] at hes
          subst hes
          rw [hb2 es' rfl]; rfl
        | single e' => simp [outOf] at hes
        | crash w => cases hes
        | fuel => cases hes
  · rw [e2] at hcap
    exact absurd hcap (by simp only; omega)

/-- **An unexpected line is skipped**, generic in the dialect table and the transition table. -/
theorem unexpected_line_parseWith {D : List Dialect} {T : Table}
    (hQD : Spec.queueDialectFacts D = true) (hQT : Spec.queueFacts T = true)
    (hCB : Spec.commentBlankTested T = true)
    (hG : (T.rows.all fun r => r.branches.all fun b => b.guard.isNone || b.kind == .TagLine) = true)
    {u : Str} (μ : MState) (ids : Nat) {src src' : Str} (pre post : List Str)
    (h1 : splitLines src = pre ++ post) (h2 : splitLines src' = pre ++ u :: post)
    (hμ : (μ.reset D).dialect ∈ D) (hbar : barrierBefore pre = true) {s : Nat} {cr : Ctx}
    (hrun : runAfter D T false μ ids src' pre.length = some (s, cr))
    (hun : lineUnexpectedAt D T s cr.μ u = true)
    (hcap : (parseWith D T false μ ids src').2.errors.length ≤ T.errorCap) :
    CtxObsU pre.length cr.errors.length cr.unexpected.length (skippedError T s pre.length u)
      (parseWith D T false μ ids src).2 (parseWith D T false μ ids src').2 ∧
    (∀ d, (parseWith D T false μ ids src).1 = .ok d →
      (parseWith D T false μ ids src').1 = .rejected [skippedError T s pre.length u] true) ∧
    (∀ es, (parseWith D T false μ ids src).1 = .rejected es true →
      (parseWith D T false μ ids src').1 =
        .rejected (insertErr pre.length cr.errors.length (skippedError T s pre.length u) es) true) := by
  have q1 := queue_refines_peek D T hQD hQT hCB false μ ids src hμ
  have q2 := queue_refines_peek D T hQD hQT hCB false μ ids src' hμ
  have o1 := congrArg Spec.Observed.outcome q1
  have o2 := congrArg Spec.Observed.outcome q2
  have e1 := congrArg Spec.Observed.errors q1
  have e2 := congrArg Spec.Observed.errors q2
  have m1 := congrArg Spec.Observed.μ q1
  have m2 := congrArg Spec.Observed.μ q2
  have i1 := congrArg Spec.Observed.ids q1
  have i2 := congrArg Spec.Observed.ids q2
  have u1 := congrArg Spec.Observed.unexpected q1
  have u2 := congrArg Spec.Observed.unexpected q2
  have b1 := congrArg Spec.Observed.builds q1
  have b2 := congrArg Spec.Observed.builds q2
  simp only [Spec.observe] at o1 o2 e1 e2 m1 m2 i1 i2 u1 u2 b1 b2
  rw [e2] at hcap
  obtain ⟨hc, ha, hr⟩ := parseWithPure_unexpected (TableOkU.of_facts (QF.of_facts hQD hQT) hG) μ ids pre post
    h1 h2 hμ hbar hrun hun hcap
  refine ⟨⟨?_, ?_, ?_, ?_, ?_⟩, fun d hd => ?_, fun es hes => ?_⟩
  · rw [e1, e2]; exact hc.errors
  · rw [m1, m2]; exact hc.μ
  · rw [i1, i2]; exact hc.ids
  · rw [u1, u2]; exact hc.unexpected
  · rw [b1, b2]; exact hc.builds
  · rw [o2]; exact ha d (by rw [← o1]; exact hd)
  · rw [o2]; exact hr es (by rw [← o1]; exact hes)

end Recover
end GV
